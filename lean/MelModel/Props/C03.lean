/-
  C03 — Batch and block application is order-independent and deterministic.
  Property theorems only; helper lemmas live in MelModel/Lemmas/Perm.lean (which builds on Lemmas/Batch.lean).
-/
import MelModel.ApplyTx
import MelModel.Lemmas.Perm
namespace Mel
open Mel.Gen

/-- two states with the same observable content: every coin, every per-covenant count, every stake, the same
    transaction list, the same scalars, pools and history (the association lists may be ordered differently) -/
structure BatchEquiv (a b : State) : Prop where
  coins : ∀ id, a.coins.getCoin id = b.coins.getCoin id
  counts : ∀ h, a.coins.coinCount h = b.coins.coinCount h
  stakes : ∀ k, a.stakes.getStake k = b.stakes.getStake k
  txs : a.txs = b.txs
  feePool : a.feePool = b.feePool
  tips : a.tips = b.tips
  feeMultiplier : a.feeMultiplier = b.feeMultiplier
  doscSpeed : a.doscSpeed = b.doscSpeed
  pools : a.pools = b.pools
  history : a.history = b.history
  height : a.height = b.height
  network : a.network = b.network

/-- the transaction list of a state is sorted by hash with distinct hashes (kept by `insertTx`) -/
def SortedTxs : List Tx → Prop
  | [] => True
  | [_] => True
  | a :: b :: rest => bytesLt a.hash b.hash = true ∧ SortedTxs (b :: rest)

/-- the count invariant of C20 -/
def CountsFine (m : CoinMap) : Prop :=
  (m.coins.map (·.1)).Nodup ∧ (m.counts.map (·.1)).Nodup ∧
  (∀ a, m.coinCount a = (m.coins.filter fun e => e.2.coinData.covhash = a).length) ∧ (∀ e ∈ m.counts, e.2 ≠ 0)

/-- standing assumptions, all of which hold of reachable states and hash-distinct transactions -/
structure PermPre (env : Env) (s : State) (txs : List Tx) : Prop where
  /-- distinct transactions have distinct hashes -/
  hashes : (txs.map (·.hash)).Nodup
  /-- faucet markers are distinct from each other and live apart from transaction hashes -/
  markers : ∀ t ∈ txs, t.kind = .faucet → env.isGrandfathered t.hash = false →
              (∀ u ∈ txs, (⟨env.fdp t.hash, 0⟩ : CoinID) ∉ u.inputs ∧ env.fdp t.hash ≠ u.hash) ∧
              (∀ u ∈ txs, u.kind = .faucet → env.fdp u.hash = env.fdp t.hash → u = t)
  /-- the de-duplication pseudo-coin of a grandfathered faucet transaction (which `handle_faucet_tx` looks up
      but never inserts) is not spent inside the batch: otherwise the verdict depends on whether the spender
      comes before or after the faucet transaction (see the counterexample in the report) -/
  gfMarkers : ∀ t ∈ txs, t.kind = .faucet → env.isGrandfathered t.hash = true →
              ∀ u ∈ txs, (⟨env.fdp t.hash, 0⟩ : CoinID) ∉ u.inputs
  /-- the coins the batch creates are new -/
  fresh : ∀ t ∈ txs, ∀ i, s.coins.getCoin ⟨t.hash, i⟩ = none
  counts : CountsFine s.coins
  sorted : SortedTxs s.txs
  feePool : s.feePool ≤ U128_MAX
  tips : s.tips ≤ U128_MAX

/-! glue between the bundled definitions above and the unbundled lemmas of Lemmas/Perm.lean -/

theorem sortedTxs_pairwise : ∀ {l : List Tx}, SortedTxs l → l.Pairwise C3.TxLt
  | [], _ => List.Pairwise.nil
  | [_], _ => List.pairwise_singleton _ _
  | a :: b :: rest, h => by
    obtain ⟨h1, h2⟩ := h
    have ih := sortedTxs_pairwise h2
    refine List.pairwise_cons.mpr ⟨fun y hy => ?_, ih⟩
    rw [List.pairwise_cons] at ih
    rcases List.mem_cons.mp hy with rfl | hy
    · exact h1
    · exact C3.TxLt.trans h1 (ih.1 y hy)

theorem countsFine_iff (m : CoinMap) : CountsFine m ↔ CountsOk m := Iff.rfl

theorem PermPre.toPre {env : Env} {s : State} {txs : List Tx} (h : PermPre env s txs) : C3.Pre env s txs where
  hashes := h.hashes
  markers := h.markers
  gfMarkers := h.gfMarkers
  fresh := h.fresh
  counts := (countsFine_iff _).mp h.counts
  sorted := sortedTxs_pairwise h.sorted

/-- the standing assumptions do not depend on the order of the batch -/
theorem PermPre.perm {env : Env} {s : State} {txs txs' : List Tx} (hp : txs.Perm txs')
    (h : PermPre env s txs) : PermPre env s txs' where
  hashes := (hp.map _).nodup_iff.mp h.hashes
  markers := fun t ht hk hb =>
    ⟨fun u hu => (h.markers t (hp.mem_iff.mpr ht) hk hb).1 u (hp.mem_iff.mpr hu),
     fun u hu => (h.markers t (hp.mem_iff.mpr ht) hk hb).2 u (hp.mem_iff.mpr hu)⟩
  gfMarkers := fun t ht hk hb u hu => h.gfMarkers t (hp.mem_iff.mpr ht) hk hb u (hp.mem_iff.mpr hu)
  fresh := fun t ht => h.fresh t (hp.mem_iff.mpr ht)
  counts := h.counts
  sorted := h.sorted
  feePool := h.feePool
  tips := h.tips

/-- **order independence**: if a batch is accepted, every permutation of it is accepted, with the same
    observable state -/
theorem C03_perm (env : Env) (s s₁ : State) (txs txs' : List Tx) (fb : Header) (hp : txs.Perm txs')
    (hpre : PermPre env s txs) (h : applyBatch env s txs fb = .ok s₁) :
    ∃ s₂, applyBatch env s txs' fb = .ok s₂ ∧ BatchEquiv s₁ s₂ := by
  obtain ⟨s₂, h2, e⟩ := C3.perm_main hp hpre.toPre h
  exact ⟨s₂, h2, ⟨e.coins, e.counts, e.stakes, e.txs, e.feePool, e.tips, e.feeMultiplier, e.doscSpeed,
    e.pools, e.history, e.height, e.network⟩⟩

/-- … and if a batch is rejected (or crashes), no permutation of it is accepted -/
theorem C03_perm_reject (env : Env) (s : State) (txs txs' : List Tx) (fb : Header) (hp : txs.Perm txs')
    (hpre : PermPre env s txs) (h : ∀ s₁, applyBatch env s txs fb ≠ .ok s₁) :
    ∀ s₂, applyBatch env s txs' fb ≠ .ok s₂ := by
  intro s₂ h2
  obtain ⟨s₁, h1, -⟩ := C03_perm env s s₂ txs' txs fb hp.symm (hpre.perm hp) h2
  exact h s₁ h1

/-- the reductions used by the parallel code are order-independent folds: the conjunction of validity … -/
theorem C03_forall_perm {α} (f : α → Outcome Unit) (l l' : List α) (hp : l.Perm l') :
    (Outcome.forM' f l = .ok ()) ↔ (Outcome.forM' f l' = .ok ()) :=
  C3.forM'_perm f hp

/-- … the maximum of the demonstrated speeds with the old speed as unit … -/
theorem C03_max_perm (l l' : List Nat) (hp : l.Perm l') (init : Nat) :
    l.foldl max init = l'.foldl max init :=
  C3.foldl_max_perm hp init

/-- … and the saturating fee accumulation (`min cap (Σ)`) -/
theorem C03_satsum_perm (l l' : List Nat) (hp : l.Perm l') (init : Nat) :
    l.foldl satAdd128 init = l'.foldl satAdd128 init :=
  C3.foldl_satAdd_perm hp init

/-- the sorted transaction set does not depend on the insertion order -/
theorem C03_txset_perm (base : List Tx) (l l' : List Tx) (hp : l.Perm l') (hs : SortedTxs base)
    (hu : (l.map (·.hash)).Nodup) : l.foldl State.insertTx base = l'.foldl State.insertTx base :=
  C3.foldl_insertTx_perm hp (sortedTxs_pairwise hs) hu

/-! ### a block holds a transaction at most once

Since the fix for the double application of the grandfathered faucet transaction, `create_next_state` rejects
(`DuplicateTx`) a transaction whose hash is already in the block's transaction list — put there by an earlier
batch of the same block or by an earlier member of the same batch.  No hypothesis about faucets, markers or
grandfathering is needed any more. -/

/-- an accepted batch has pairwise distinct hashes, and none of them was already in the block -/
theorem C03_accepted_fresh (env : Env) (s s' : State) (txs : List Tx) (fb : Header)
    (h : applyBatch env s txs fb = .ok s') :
    (txs.map (·.hash)).Nodup ∧ ∀ tx ∈ txs, ∀ t ∈ s.txs, t.hash ≠ tx.hash := by
  obtain ⟨h1, h2⟩ := C3.applyBatch_fresh h
  refine ⟨h1, fun tx htx t ht e => ?_⟩
  have := h2 tx htx
  rw [(C3.any_hash_iff).mpr ⟨t, ht, e⟩] at this
  cases this

/-- **no transaction twice in a block**: after an accepted batch the hashes of the block's transaction list are
    pairwise distinct, and every transaction of the batch is in it, as the only entry with its hash — provided
    the list the batch started from was sorted (which `Inv.sorted` says of every reachable state) -/
theorem C03_block_tx_once (env : Env) (s s' : State) (txs : List Tx) (fb : Header) (hs : SortedTxs s.txs)
    (h : applyBatch env s txs fb = .ok s') :
    (s'.txs.map (·.hash)).Nodup ∧ ∀ tx ∈ txs, tx ∈ s'.txs ∧ ∀ t ∈ s'.txs, t.hash = tx.hash → t = tx := by
  obtain ⟨hnd, -⟩ := C3.applyBatch_fresh h
  obtain ⟨hsorted, hmem⟩ := C3.foldl_insertTx_spec txs s.txs (sortedTxs_pairwise hs) hnd
  rw [← C3.applyBatch_txsEq h] at hsorted hmem
  have hnd' := C3.nodup_hashes_of_sorted hsorted
  refine ⟨hnd', fun tx htx => ?_⟩
  have hin : tx ∈ s'.txs := (hmem tx).mpr (Or.inl htx)
  exact ⟨hin, fun t ht e => C3.hashInj_of_nodup hnd' t ht tx hin e⟩

/-- **the same hash at two positions of a batch**: never accepted -/
theorem C03_no_same_hash_twice (env : Env) (s : State) (txs : List Tx) (fb : Header)
    (i j : Nat) (hi : i < txs.length) (hj : j < txs.length) (hij : i ≠ j)
    (hh : txs[i].hash = txs[j].hash) : ∀ s', applyBatch env s txs fb ≠ .ok s' := by
  intro s' h
  have hnd := (C3.applyBatch_fresh h).1
  have key : ∀ a b (ha : a < txs.length) (hb : b < txs.length), a < b → txs[a].hash ≠ txs[b].hash := by
    intro a b ha hb hab
    have := (List.pairwise_iff_getElem.mp hnd) a b (by simpa using ha) (by simpa using hb) hab
    simpa using this
  rcases Nat.lt_or_gt_of_ne hij with hlt | hgt
  · exact key i j hi hj hlt hh
  · exact key j i hj hi hgt hh.symm

/-- … and a transaction whose hash is already in the block makes every batch containing it fail -/
theorem C03_already_in_block (env : Env) (s : State) (txs : List Tx) (fb : Header) (tx : Tx) (htx : tx ∈ txs)
    (hdup : ∃ t ∈ s.txs, t.hash = tx.hash) : ∀ s', applyBatch env s txs fb ≠ .ok s' := by
  intro s' h
  obtain ⟨t, ht, e⟩ := hdup
  exact (C03_accepted_fresh env s s' txs fb h).2 tx htx t ht e

/-! ### why `PermPre.gfMarkers` is needed

`handle_faucet_tx` looks up the de-duplication pseudo-coin of EVERY faucet transaction, but inserts it only
for the non-grandfathered ones.  If the pseudo-coin of a grandfathered faucet transaction `u` is an unspent
coin that another transaction `v` of the batch spends, then `[v, u]` is accepted (when `u` is reached the
coin is gone) while `[u, v]` is rejected with `DuplicateTx`.  All the other fields of `PermPre` hold. -/
namespace C03Witness

def env : Env := {
  vm := { hash := id, sigOk := fun _ _ _ => true },
  liqHash := id, fdp := fun h => 9 :: h, rewardId := fun _ => [], hdrHash := fun _ => [],
  powOk := fun _ _ _ _ => .invalid, isGrandfathered := fun _ => true,
  historyRoot := fun _ => [], coinsRoot := fun _ => [], txsRoot := fun _ _ => [],
  poolsRoot := fun _ => [], stakesRoot := fun _ => [] }

/-- the covenant `PUSHI 1` -/
def cov : Bytes := (VM.encodeAll [VM.Op.pushi 1]).getD []
/-- the pseudo-coin of `u` -/
def P : CoinID := ⟨[9, 2], 0⟩
def s : State := {
  network := .custom02, height := 10, history := [],
  coins := { coins := [(P, ⟨⟨[7], 5, .mel, []⟩, 3⟩)], counts := [([7], 1)] },
  txs := [], feePool := 0, feeMultiplier := 0, tips := 0, doscSpeed := 0, pools := [], stakes := [] }
/-- an ordinary transaction spending `P` -/
def v : Tx := {
  kind := .normal, inputs := [P], outputs := [(⟨[8], 5, .mel, []⟩ : CoinData)], fee := 0,
  covenants := [cov], data := [], sigs := [], hash := [1], rawLen := 0, covHashes := [[7]] }
/-- a grandfathered faucet transaction whose pseudo-coin is `P` -/
def u : Tx := {
  kind := .faucet, inputs := [], outputs := [], fee := 0,
  covenants := [], data := [], sigs := [], hash := [2], rawLen := 0, covHashes := [] }

def isDup : Outcome State → Bool
  | .reject .duplicateTx => true
  | _ => false

theorem eq_of_isDup {o : Outcome State} (h : isDup o = true) : o = .reject .duplicateTx := by
  cases o with
  | ok a => cases h
  | crash c => cases h
  | reject e => cases e <;> first | rfl | cases h

theorem gfMarkers_needed :
    [v, u].Perm [u, v] ∧ (([v, u] : List Tx).map (·.hash)).Nodup ∧
    (∀ t ∈ [v, u], t.kind = .faucet → env.isGrandfathered t.hash = false →
      (∀ w ∈ [v, u], (⟨env.fdp t.hash, 0⟩ : CoinID) ∉ w.inputs ∧ env.fdp t.hash ≠ w.hash) ∧
      (∀ w ∈ [v, u], w.kind = .faucet → env.fdp w.hash = env.fdp t.hash → w = t)) ∧
    (∀ t ∈ [v, u], ∀ i, s.coins.getCoin ⟨t.hash, i⟩ = none) ∧
    CountsFine s.coins ∧ SortedTxs s.txs ∧ s.feePool ≤ U128_MAX ∧ s.tips ≤ U128_MAX ∧
    (applyBatch env s [v, u] default).isOk = true ∧
    applyBatch env s [u, v] default = .reject .duplicateTx := by
  refine ⟨List.Perm.swap _ _ _, by decide, ?_, ?_, ?_, trivial, by decide, by decide,
    by decide +kernel, eq_of_isDup (by decide +kernel)⟩
  · intro t _ _ hb
    cases hb
  · intro t ht i
    simp only [List.mem_cons, List.not_mem_nil, or_false] at ht
    rcases ht with rfl | rfl <;> simp [s, v, u, P, CoinMap.getCoin, AList.get]
  · refine ⟨by decide, by decide, ?_, ?_⟩
    · intro a
      by_cases ha : a = [7]
      · subst ha; decide
      · have ha' : ¬ ([7] : Hash) = a := fun h => ha h.symm
        simp [s, P, CoinMap.coinCount, AList.get, ha']
    · intro e he
      simp only [s, List.mem_cons, List.not_mem_nil, or_false] at he
      subst he
      decide

/-- non-vacuity: with a faucet transaction whose pseudo-coin is not spent, all of `PermPre` holds and the
    batch is accepted in both orders -/
def u' : Tx := {
  kind := .faucet, inputs := [], outputs := [], fee := 0,
  covenants := [], data := [], sigs := [], hash := [3], rawLen := 0, covHashes := [] }

theorem nonvacuous : PermPre env s [v, u'] ∧ (applyBatch env s [v, u'] default).isOk = true ∧
    (applyBatch env s [u', v] default).isOk = true := by
  refine ⟨⟨by decide, ?_, ?_, ?_, gfMarkers_needed.2.2.2.2.1, trivial, by decide, by decide⟩,
    by decide +kernel, by decide +kernel⟩
  · intro t _ _ hb
    cases hb
  · intro t ht _ _ w hw
    simp only [List.mem_cons, List.not_mem_nil, or_false] at ht hw
    rcases ht with rfl | rfl <;> rcases hw with rfl | rfl <;> decide
  · intro t ht i
    simp only [List.mem_cons, List.not_mem_nil, or_false] at ht
    rcases ht with rfl | rfl <;> simp [s, v, u', P, CoinMap.getCoin, AList.get]

/-- the fix at work: the grandfathered faucet transaction `u'` (which leaves no marker, `C19_grandfathered_no_marker`)
    is rejected with `DuplicateTx` when it occurs twice in a batch, and when it is applied a second time to the
    same block -/
theorem same_block_replay_rejected :
    env.isGrandfathered u'.hash = true ∧ u'.kind = .faucet ∧
    applyBatch env s [u', u'] default = .reject .duplicateTx ∧
    ∃ s₁, applyBatch env s [u'] default = .ok s₁ ∧ applyBatch env s₁ [u'] default = .reject .duplicateTx := by
  refine ⟨rfl, rfl, eq_of_isDup (by decide +kernel), ?_⟩
  have h : (match applyBatch env s [u'] default with
    | .ok s₁ => isDup (applyBatch env s₁ [u'] default)
    | _ => false) = true := by decide +kernel
  cases hs : applyBatch env s [u'] default with
  | ok s₁ => rw [hs] at h; exact ⟨s₁, rfl, eq_of_isDup h⟩
  | reject e => rw [hs] at h; cases h
  | crash c => rw [hs] at h; cases h

end C03Witness

end Mel

#print axioms Mel.C03_perm
#print axioms Mel.C03_perm_reject
#print axioms Mel.C03_forall_perm
#print axioms Mel.C03_max_perm
#print axioms Mel.C03_satsum_perm
#print axioms Mel.C03_txset_perm
#print axioms Mel.C03_accepted_fresh
#print axioms Mel.C03_block_tx_once
#print axioms Mel.C03_no_same_hash_twice
#print axioms Mel.C03_already_in_block
#print axioms Mel.C03Witness.gfMarkers_needed
#print axioms Mel.C03Witness.nonvacuous
#print axioms Mel.C03Witness.same_block_replay_rejected
