/-
  C03 — Batch and block application is order-independent and deterministic.
  Property theorems only; helper lemmas live in MelModel/Lemmas/Perm.lean (which builds on Lemmas/Batch.lean).
-/
import MelModel.ApplyTx
import MelModel.Lemmas.Perm
namespace Mel
open Mel.Gen

/-- two states with the same observable content: every coin, every per-covenant count, every stake, the same
    transaction list, the same scalars, pools and history (the association lists may be ordered differently) -/
structure BatchEquiv (a b : State) : Prop where
  coins : ∀ id, a.coins.getCoin id = b.coins.getCoin id
  counts : ∀ h, a.coins.coinCount h = b.coins.coinCount h
  stakes : ∀ k, a.stakes.getStake k = b.stakes.getStake k
  txs : a.txs = b.txs
  feePool : a.feePool = b.feePool
  tips : a.tips = b.tips
  feeMultiplier : a.feeMultiplier = b.feeMultiplier
  doscSpeed : a.doscSpeed = b.doscSpeed
  pools : a.pools = b.pools
  history : a.history = b.history
  height : a.height = b.height
  network : a.network = b.network

/-- the transaction list of a state is sorted by hash with distinct hashes (kept by `insertTx`) -/
def SortedTxs : List Tx → Prop
  | [] => True
  | [_] => True
  | a :: b :: rest => bytesLt a.hash b.hash = true ∧ SortedTxs (b :: rest)

/-- the count invariant of C20 -/
def CountsFine (m : CoinMap) : Prop :=
  (m.coins.map (·.1)).Nodup ∧ (m.counts.map (·.1)).Nodup ∧
  (∀ a, m.coinCount a = (m.coins.filter fun e => e.2.coinData.covhash = a).length) ∧ (∀ e ∈ m.counts, e.2 ≠ 0)

/-- standing assumptions, all of which hold of reachable states and hash-distinct transactions -/
structure PermPre (env : Env) (s : State) (txs : List Tx) : Prop where
  /-- distinct transactions have distinct hashes -/
  hashes : (txs.map (·.hash)).Nodup
  /-- faucet markers are distinct from each other and live apart from transaction hashes -/
  markers : ∀ t ∈ txs, t.kind = .faucet → env.isGrandfathered t.hash = false →
              (∀ u ∈ txs, (⟨env.fdp t.hash, 0⟩ : CoinID) ∉ u.inputs ∧ env.fdp t.hash ≠ u.hash) ∧
              (∀ u ∈ txs, u.kind = .faucet → env.fdp u.hash = env.fdp t.hash → u = t)
  /-- the coins the batch creates are new -/
  fresh : ∀ t ∈ txs, ∀ i, s.coins.getCoin ⟨t.hash, i⟩ = none
  counts : CountsFine s.coins
  sorted : SortedTxs s.txs
  feePool : s.feePool ≤ U128_MAX
  tips : s.tips ≤ U128_MAX

/-- **order independence**: if a batch is accepted, every permutation of it is accepted, with the same
    observable state -/
theorem C03_perm (env : Env) (s s₁ : State) (txs txs' : List Tx) (fb : Header) (hp : txs.Perm txs')
    (hpre : PermPre env s txs) (h : applyBatch env s txs fb = .ok s₁) :
    ∃ s₂, applyBatch env s txs' fb = .ok s₂ ∧ BatchEquiv s₁ s₂ := by
  sorry

/-- … and if a batch is rejected (or crashes), no permutation of it is accepted -/
theorem C03_perm_reject (env : Env) (s : State) (txs txs' : List Tx) (fb : Header) (hp : txs.Perm txs')
    (hpre : PermPre env s txs) (h : ∀ s₁, applyBatch env s txs fb ≠ .ok s₁) :
    ∀ s₂, applyBatch env s txs' fb ≠ .ok s₂ := by
  sorry

/-- the reductions used by the parallel code are order-independent folds: the conjunction of validity … -/
theorem C03_forall_perm {α} (f : α → Outcome Unit) (l l' : List α) (hp : l.Perm l') :
    (Outcome.forM' f l = .ok ()) ↔ (Outcome.forM' f l' = .ok ()) := by
  sorry

/-- … the maximum of the demonstrated speeds with the old speed as unit … -/
theorem C03_max_perm (l l' : List Nat) (hp : l.Perm l') (init : Nat) :
    l.foldl max init = l'.foldl max init := by
  sorry

/-- … and the saturating fee accumulation (`min cap (Σ)`) -/
theorem C03_satsum_perm (l l' : List Nat) (hp : l.Perm l') (init : Nat) :
    l.foldl satAdd128 init = l'.foldl satAdd128 init := by
  sorry

/-- the sorted transaction set does not depend on the insertion order -/
theorem C03_txset_perm (base : List Tx) (l l' : List Tx) (hp : l.Perm l') (hs : SortedTxs base)
    (hu : (l.map (·.hash)).Nodup) : l.foldl State.insertTx base = l'.foldl State.insertTx base := by
  sorry

end Mel
