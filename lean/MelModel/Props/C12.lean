/-
  C12 — Covenant bytecode encoding is a bijection.
  Property theorems only; helper lemmas live in MelModel/Lemmas/Codec.lean.
-/
import MelModel.VM.Codec
import MelModel.VM.Weight
import MelModel.Lemmas.Codec
namespace Mel.VM
open Mel

/-- an instruction list is representable iff every `PushB` literal has at most 255 bytes -/
def Representable (ops : List Op) : Prop :=
  ∀ bs, Op.pushb bs ∈ ops → bs.length ≤ 255

/-- one instruction: decoding what was encoded returns the instruction and leaves the rest -/
theorem C12_decodeOp_encodeOp (op : Op) (enc rest : Bytes) (h : encodeOp op = some enc) :
    decodeOp (enc ++ rest) = some (op, rest) := by
  exact decodeOp_encodeOp op enc rest h

/-- one instruction: whatever decodes is the canonical encoding of what it decodes to -/
theorem C12_encodeOp_decodeOp (bs rest : Bytes) (op : Op) (h : decodeOp bs = some (op, rest)) :
    ∃ enc, encodeOp op = some enc ∧ bs = enc ++ rest := by
  exact encodeOp_decodeOp bs rest op h

/-- decoding any byte string either fails or yields a program that re-encodes to exactly
    the same bytes (so the whole input was consumed and no two byte strings decode alike). -/
theorem C12_decode_encode (bs : Bytes) (ops : List Op) (h : decodeAll bs = some ops) :
    encodeAll ops = some bs := by
  exact encodeAll_of_decodeFuel bs.length bs ops h

/-- encoding any program that encodes at all and decoding it returns the same program -/
theorem C12_encode_decode (ops : List Op) (bs : Bytes) (h : encodeAll ops = some bs) :
    decodeAll bs = some ops := by
  exact decodeFuel_of_encodeAll ops bs h bs.length (encodeAll_length h)

/-- a program encodes iff it is representable -/
theorem C12_encodable_iff (ops : List Op) : (encodeAll ops).isSome ↔ Representable ops := by
  induction ops with
  | nil => simp [encodeAll, Representable]
  | cons op ops ih =>
    have h1 : (encodeAll (op :: ops)).isSome ↔ (encodeOp op).isSome ∧ (encodeAll ops).isSome := by
      rw [encodeAll_cons]
      cases encodeOp op <;> cases encodeAll ops <;> simp
    have h2 : Representable (op :: ops) ↔
        (∀ bs, op = Op.pushb bs → bs.length ≤ 255) ∧ Representable ops := by
      unfold Representable
      constructor
      · intro h
        exact ⟨fun bs e => h bs (by simp [e]), fun bs hm => h bs (List.mem_cons_of_mem _ hm)⟩
      · rintro ⟨ha, hb⟩ bs hm
        rcases List.mem_cons.mp hm with e | hm
        · exact ha bs e.symm
        · exact hb bs hm
    rw [h1, h2, ih, encodeOp_isSome_iff]

/-- every representable program round-trips -/
theorem C12_roundtrip (ops : List Op) (h : Representable ops) :
    ∃ bs, encodeAll ops = some bs ∧ decodeAll bs = some ops := by
  have hs := (C12_encodable_iff ops).mpr h
  obtain ⟨bs, hb⟩ := Option.isSome_iff_exists.mp hs
  exact ⟨bs, hb, C12_encode_decode ops bs hb⟩

/-- a byte string names at most one program and a program at most one byte string -/
theorem C12_injective (b₁ b₂ : Bytes) (ops : List Op)
    (h₁ : decodeAll b₁ = some ops) (h₂ : decodeAll b₂ = some ops) : b₁ = b₂ := by
  have e₁ := C12_decode_encode b₁ ops h₁
  have e₂ := C12_decode_encode b₂ ops h₂
  rw [e₁] at e₂
  exact Option.some.inj e₂

/-- decoded programs are always representable (`to_bytes` cannot panic on them) -/
theorem C12_decoded_representable (bs : Bytes) (ops : List Op) (h : decodeAll bs = some ops) :
    Representable ops := by
  apply (C12_encodable_iff ops).mp
  rw [C12_decode_encode bs ops h]; rfl

/-- non-vacuity: a concrete program with every argument shape round-trips -/
example : decodeAll [0xb0, 0, 2, 0, 1, 0xf2, 1, 7, 0xf0, 2, 9, 9, 0x15, 3] =
    some [.loop 2 1, .pushic 7, .pushb [9, 9], .exp 3] := by
  have h7 : sigLen 7 = 1 := by rw [sigLen_pos 7 (by decide)]; simp [sigLen_zero]
  apply C12_encode_decode
  simp [encodeAll, encodeOp, u16BE, toBE, h7, Mel.Gen.encLoop, Mel.Gen.encPushIC, Mel.Gen.encPushB,
    Mel.Gen.encExp, Mel.Gen.OPCODE_LOOP, Mel.Gen.OPCODE_PUSHIC, Mel.Gen.OPCODE_PUSHB,
    Mel.Gen.OPCODE_EXP]

end Mel.VM

#print axioms Mel.VM.C12_decodeOp_encodeOp
#print axioms Mel.VM.C12_encodeOp_decodeOp
#print axioms Mel.VM.C12_decode_encode
#print axioms Mel.VM.C12_encode_decode
#print axioms Mel.VM.C12_encodable_iff
#print axioms Mel.VM.C12_roundtrip
#print axioms Mel.VM.C12_injective
#print axioms Mel.VM.C12_decoded_representable

