/-
  C12 — Covenant bytecode encoding is a bijection.
  Property theorems only; helper lemmas live in MelModel/Lemmas/Codec.lean.
-/
import MelModel.VM.Codec
import MelModel.VM.Weight
import MelModel.Lemmas.Codec
namespace Mel.VM
open Mel

/-- an instruction list is representable iff every `PushB` literal has at most 255 bytes -/
def Representable (ops : List Op) : Prop :=
  ∀ bs, Op.pushb bs ∈ ops → bs.length ≤ 255

/-- one instruction: decoding what was encoded returns the instruction and leaves the rest -/
theorem C12_decodeOp_encodeOp (op : Op) (enc rest : Bytes) (h : encodeOp op = some enc) :
    decodeOp (enc ++ rest) = some (op, rest) := by
  sorry

/-- one instruction: whatever decodes is the canonical encoding of what it decodes to -/
theorem C12_encodeOp_decodeOp (bs rest : Bytes) (op : Op) (h : decodeOp bs = some (op, rest)) :
    ∃ enc, encodeOp op = some enc ∧ bs = enc ++ rest := by
  sorry

/-- decoding any byte string either fails or yields a program that re-encodes to exactly
    the same bytes (so the whole input was consumed and no two byte strings decode alike). -/
theorem C12_decode_encode (bs : Bytes) (ops : List Op) (h : decodeAll bs = some ops) :
    encodeAll ops = some bs := by
  sorry

/-- encoding any program that encodes at all and decoding it returns the same program -/
theorem C12_encode_decode (ops : List Op) (bs : Bytes) (h : encodeAll ops = some bs) :
    decodeAll bs = some ops := by
  sorry

/-- a program encodes iff it is representable -/
theorem C12_encodable_iff (ops : List Op) : (encodeAll ops).isSome ↔ Representable ops := by
  sorry

/-- every representable program round-trips -/
theorem C12_roundtrip (ops : List Op) (h : Representable ops) :
    ∃ bs, encodeAll ops = some bs ∧ decodeAll bs = some ops := by
  sorry

/-- a byte string names at most one program and a program at most one byte string -/
theorem C12_injective (b₁ b₂ : Bytes) (ops : List Op)
    (h₁ : decodeAll b₁ = some ops) (h₂ : decodeAll b₂ = some ops) : b₁ = b₂ := by
  sorry

/-- decoded programs are always representable (`to_bytes` cannot panic on them) -/
theorem C12_decoded_representable (bs : Bytes) (ops : List Op) (h : decodeAll bs = some ops) :
    Representable ops := by
  sorry

/-- non-vacuity: a concrete program with every argument shape round-trips -/
example : decodeAll [0xb0, 0, 2, 0, 1, 0xf2, 1, 7, 0xf0, 2, 9, 9, 0x15, 3] =
    some [.loop 2 1, .pushic 7, .pushb [9, 9], .exp 3] := by sorry

end Mel.VM
