/-
  C13, over histories — the life cycle of a stake across blocks: from the batch that registers it, through every
  later batch and block, the stake stays registered (so no output of its transaction can be spent, `C13_locked`)
  as long as the chain's epoch does not exceed the stake's end field; once a block of a later epoch has been
  opened the stake is gone, and stays gone.  Property theorems only; helper lemmas live in
  MelModel/Lemmas/LifeL.lean (reuse Lemmas/StakeL.lean and the theorems of Props/C13.lean).
-/
import MelModel.Chain
import MelModel.Props.C13
import MelModel.Lemmas.LifeL
namespace Mel
open Mel.Gen

/-- one step of the chain: an accepted batch, or a seal followed by the opening of the next block -/
inductive ChainStep (env : Env) : State → State → Prop
  | batch {s s' : State} {txs : List Tx} {fb : Header} : applyBatch env s txs fb = .ok s' → ChainStep env s s'
  | block {s s' : State} {ss : Sealed} {a : Option ProposerAction} :
      sealState env s a = .ok ss → nextUnsealed env ss = .ok s' → ChainStep env s s'

/-- any number of steps -/
inductive ChainRun (env : Env) : State → State → Prop
  | refl (s : State) : ChainRun env s s
  | step {s m s' : State} : ChainRun env s m → ChainStep env m s' → ChainRun env s s'

/-- like `ChainRun`, but no batch on the way contains a transaction with hash `h` (a transaction hash is used
    once: collision-freeness; needed because registering under the same hash again would overwrite the entry) -/
inductive ChainRunAvoiding (env : Env) (h : Hash) : State → State → Prop
  | refl (s : State) : ChainRunAvoiding env h s s
  | batch {s m s' : State} {txs : List Tx} {fb : Header} : ChainRunAvoiding env h s m →
      (∀ t ∈ txs, t.hash ≠ h) → applyBatch env m txs fb = .ok s' → ChainRunAvoiding env h s s'
  | block {s m s' : State} {ss : Sealed} {a : Option ProposerAction} : ChainRunAvoiding env h s m →
      sealState env m a = .ok ss → nextUnsealed env ss = .ok s' → ChainRunAvoiding env h s s'

/-- stake keys are unique (an association list used as a map) -/
def StakeKeysUnique (s : State) : Prop := (s.stakes.map (·.1)).Nodup

/-- the height never decreases, hence neither does the epoch -/
theorem C13_epoch_monotone (env : Env) (s s' : State) (h : ChainRun env s s') :
    s.height ≤ s'.height ∧ s.epoch ≤ s'.epoch := by
  have hh : s.height ≤ s'.height := by
    induction h with
    | refl => exact Nat.le_refl _
    | step _ hstep ih =>
      cases hstep with
      | batch hb => rw [LifeL.batch_height hb]; exact ih
      | block h1 h2 => rw [LifeL.block_height h1 h2]; exact Nat.le_succ_of_le ih
  exact ⟨hh, LifeL.epoch_mono hh⟩

/-- unique stake keys are preserved along the chain -/
theorem C13_keys_unique (env : Env) (s s' : State) (h : ChainRun env s s') (hu : StakeKeysUnique s) :
    StakeKeysUnique s' := by
  induction h with
  | refl => exact hu
  | step _ hstep ih =>
    cases hstep with
    | batch hb => exact LifeL.batch_keys_nodup hb ih
    | block h1 h2 => exact LifeL.block_keys_nodup h1 h2 ih

/-- a run avoiding a hash is a run -/
theorem ChainRunAvoiding.toRun {env : Env} {h : Hash} {s s' : State} (hrun : ChainRunAvoiding env h s s') :
    ChainRun env s s' := by
  induction hrun with
  | refl => exact .refl _
  | batch _ _ hb ih => exact .step ih (.batch hb)
  | block _ h1 h2 ih => exact .step ih (.block h1 h2)

/-- **locked for the life of the stake**: a stake registered under transaction hash `h` with end field `d.ePostEnd`
    is still registered, unchanged, in every later state whose epoch is at most `d.ePostEnd` -/
theorem C13_life_registered (env : Env) (h : Hash) (d : StakeDoc) (s s' : State)
    (hrun : ChainRunAvoiding env h s s') (hu : StakeKeysUnique s)
    (hreg : s.stakes.getStake h = some d) (hep : s'.epoch ≤ d.ePostEnd) :
    s'.stakes.getStake h = some d := by
  induction hrun with
  | refl => exact hreg
  | batch hr hne hb ih =>
    rw [LifeL.batch_get_avoid hb h hne]
    apply ih
    have : State.epoch _ = State.epoch _ := congrArg (· / STAKE_EPOCH) (LifeL.batch_height hb)
    exact this ▸ hep
  | block hr h1 h2 ih =>
    have hle := (C13_epoch_monotone env _ _ (.step (.refl _) (.block h1 h2))).2
    rw [LifeL.block_get h1 h2 (C13_keys_unique env _ _ hr.toRun hu) h, ih (Nat.le_trans hle hep)]
    simp [hep]

/-- … so throughout that time no batch spending any output of that transaction is accepted -/
theorem C13_life_locked (env : Env) (h : Hash) (d : StakeDoc) (s s' : State)
    (hrun : ChainRunAvoiding env h s s') (hu : StakeKeysUnique s)
    (hreg : s.stakes.getStake h = some d) (hep : s'.epoch ≤ d.ePostEnd) (hl : legacyStakeLock s' = false)
    (txs : List Tx) (fb : Header) (tx : Tx) (htx : tx ∈ txs) (id : CoinID) (hid : id ∈ tx.inputs)
    (hh : id.txhash = h) : ∀ s'', applyBatch env s' txs fb ≠ .ok s'' := by
  have hg := C13_life_registered env h d s s' hrun hu hreg hep
  exact C13_locked env s' txs fb tx htx id hid hl (.inl (by rw [hh, hg]; rfl))

/-- **unlocked afterwards**: once the chain has opened a block of an epoch beyond the end field, the stake is no
    longer registered, and it does not come back -/
theorem C13_life_unlocked (env : Env) (h : Hash) (d : StakeDoc) (s s' : State)
    (hrun : ChainRunAvoiding env h s s') (hu : StakeKeysUnique s)
    (hreg : s.stakes.getStake h = some d) (hbefore : s.epoch ≤ d.ePostEnd) (hep : d.ePostEnd < s'.epoch) :
    s'.stakes.getStake h = none := by
  induction hrun with
  | refl => omega
  | batch hr hne hb ih =>
    rw [LifeL.batch_get_avoid hb h hne]
    apply ih
    have : State.epoch _ = State.epoch _ := congrArg (· / STAKE_EPOCH) (LifeL.batch_height hb)
    exact this ▸ hep
  | @block m s' ss a hr h1 h2 ih =>
    rw [LifeL.block_get h1 h2 (C13_keys_unique env _ _ hr.toRun hu) h]
    by_cases hm : m.epoch ≤ d.ePostEnd
    · rw [C13_life_registered env h d s m hr hu hreg hm]
      simp; omega
    · rw [ih (by omega)]

/-- voting power follows: in every later state of an epoch within [start, end) the stake still counts for its key -/
theorem C13_life_votes (env : Env) (h : Hash) (d : StakeDoc) (s s' : State)
    (hrun : ChainRunAvoiding env h s s') (hu : StakeKeysUnique s)
    (hreg : s.stakes.getStake h = some d) (hstart : d.eStart ≤ s'.epoch) (hend : s'.epoch < d.ePostEnd) :
    d.symsStaked ≤ s'.stakes.votes s'.epoch d.pubkey := by
  have hg := C13_life_registered env h d s s' hrun hu hreg (Nat.le_of_lt hend)
  exact LifeL.votes_ge_of_get hg _ hstart hend

/-- non-vacuity: a run that crosses an epoch boundary exists (a state one block below the boundary, sealed and
    reopened), so the hypotheses of the theorems above can be met with `s.epoch < s'.epoch` -/
theorem C13_life_nonvacuous :
    ∃ (env : Env) (s s' : State) (h : Hash) (d : StakeDoc), ChainRunAvoiding env h s s' ∧ StakeKeysUnique s ∧
      s.stakes.getStake h = some d ∧ s.epoch ≤ d.ePostEnd ∧ d.ePostEnd < s'.epoch := by
  open LifeL.Witness in
  obtain ⟨ss, s', h1, h2, he⟩ := crossing
  refine ⟨env, s0, s', [1], doc, .block (.refl _) h1 h2, ?_, rfl, Nat.zero_le _, ?_⟩
  · unfold StakeKeysUnique; decide
  · rw [he]; decide

end Mel

#print axioms Mel.C13_epoch_monotone
#print axioms Mel.C13_keys_unique
#print axioms Mel.C13_life_registered
#print axioms Mel.C13_life_locked
#print axioms Mel.C13_life_unlocked
#print axioms Mel.C13_life_votes
#print axioms Mel.C13_life_nonvacuous
