/-
  C11 (cost of EXECUTION) — what a covenant makes the executor do is bounded by the weight that is paid for:
    (1) the table weights of the executed instructions sum to at most the weight,
    (2) the bytes flattened out of ropes (`Hash`, `SigEOk`, `BtoI`) are bounded by the executed weight, hence by the weight,
    (3) the nesting depth of the values grows by at most one per executed instruction (hence by at most the weight).
  Property theorems only; helper lemmas live in MelModel/Lemmas/CostX.lean (and MelModel/Lemmas/Cost.lean).
-/
import MelModel.VM.Cost
import MelModel.Lemmas.CostX
import MelModel.Props.C11
namespace Mel.VM
open Mel Mel.Gen

/-! ## (0) `runCost` is `runFuel` with two more accumulators -/

/-- `runCost` returns the result and the step count of `runFuel` (from any state, any fuel, any starting counters) -/
theorem C11_runCost_agrees (o : Oracles) (ops : List Op) (fuel : Nat) (st : Exec) (c : Cost) :
    (runCost o ops fuel st c).1 = (runFuel o ops fuel st c.steps).1 ∧
    (runCost o ops fuel st c).2.steps = (runFuel o ops fuel st c.steps).2 :=
  runCost_fst_steps o ops fuel st c

/-- … in particular `runCostOf` returns what `run` returns, in `runSteps` steps -/
theorem C11_runCostOf_agrees (o : Oracles) (ops : List Op) (heap : Heap) :
    (runCostOf o ops heap).1 = run o ops heap ∧ (runCostOf o ops heap).2.steps = runSteps o ops heap :=
  runCost_fst_steps o ops (weightU ops + 1) (initExec heap) {}

/-! ## (1) executed weight -/

/-- the table weights (`opWeight`, for a `Loop` instruction the table weight of the instruction itself, `wLoopExtra`)
    of the executed instructions — the failing one included — sum to at most the (un-saturated) weight,
    whatever the fuel, the oracles and the initial heap -/
theorem C11_executed_weight_le_weight (o : Oracles) (ops : List Op) (heap : Heap) (fuel : Nat) :
    (runCost o ops fuel (initExec heap) {}).2.xw ≤ weightU ops := by
  have h := runCost_xw_le o ops fuel (initExec heap) {}
  rw [phi_init] at h
  simpa using h

/-- the general form: from any machine state the weight still to be executed is bounded by the potential `phi`
    (which is `weightU ops` in the initial state, `phi_init`) -/
theorem C11_executed_weight_le_potential (o : Oracles) (ops : List Op) (fuel : Nat) (st : Exec) (c : Cost) :
    (runCost o ops fuel st c).2.xw ≤ c.xw + phi ops st.pc st.loops :=
  runCost_xw_le o ops fuel st c

/-- the executed weight refines the step count: steps ≤ executed weight (≤ weight) -/
theorem C11_steps_le_executed_weight (o : Oracles) (ops : List Op) (heap : Heap) (fuel : Nat) :
    (runCost o ops fuel (initExec heap) {}).2.steps ≤ (runCost o ops fuel (initExec heap) {}).2.xw :=
  runCost_steps_le_xw o ops fuel (initExec heap) {} (Nat.le_refl _)

/-- with a weight below the u128 cap, executed weight ≤ the weight the spender is charged for -/
theorem C11_executed_weight_le_charged (o : Oracles) (ops : List Op) (heap : Heap)
    (h : weight ops < U128_MAX) : (runCostOf o ops heap).2.xw ≤ weight ops := by
  have h1 := C11_executed_weight_le_weight o ops heap (weightU ops + 1)
  have h2 := C11_weight_saturates ops
  unfold runCostOf
  omega

/-! ## (2) flattened bytes -/

/-- one instruction flattens at most its table weight: `Hash n` weighs `50 + n ≥ n`, `SigEOk n` weighs
    `100 + n ≥ 32 + n + 64`, `BtoI` weighs `50 ≥ 32` (generated table) — for every stack -/
theorem C11_flat_le_op_weight (op : Op) (s : List Value) : opFlat op s ≤ opWeight op :=
  opFlat_le_opWeight op s

/-- … for every machine state (both sides are 0 when the pc is outside the program) -/
theorem C11_flat_le_step_weight (o : Oracles) (ops : List Op) (st : Exec) :
    stepFlat o ops st ≤ opWeightAt ops st.pc :=
  stepFlat_le_opWeightAt o ops st

/-- the same with the instruction named -/
theorem C11_flat_le_step_weight' (o : Oracles) (ops : List Op) (st : Exec) (h : st.pc < ops.length) :
    stepFlat o ops st ≤ opWeight ops[st.pc] := by
  rw [← opWeightAt_eq ops h]
  exact stepFlat_le_opWeightAt o ops st

/-- total flattened ≤ total executed weight -/
theorem C11_flat_le_executed_weight (o : Oracles) (ops : List Op) (heap : Heap) (fuel : Nat) :
    (runCost o ops fuel (initExec heap) {}).2.flat ≤ (runCost o ops fuel (initExec heap) {}).2.xw :=
  runCost_flat_le_xw o ops fuel (initExec heap) {} (Nat.le_refl _)

/-- total flattened ≤ weight -/
theorem C11_flat_le_weight (o : Oracles) (ops : List Op) (heap : Heap) (fuel : Nat) :
    (runCost o ops fuel (initExec heap) {}).2.flat ≤ weightU ops :=
  Nat.le_trans (C11_flat_le_executed_weight o ops heap fuel) (C11_executed_weight_le_weight o ops heap fuel)

/-- with a weight below the u128 cap, flattened bytes ≤ the weight the spender is charged for -/
theorem C11_flat_le_charged (o : Oracles) (ops : List Op) (heap : Heap)
    (h : weight ops < U128_MAX) : (runCostOf o ops heap).2.flat ≤ weight ops := by
  have h1 := C11_flat_le_weight o ops heap (weightU ops + 1)
  have h2 := C11_weight_saturates ops
  unfold runCostOf
  omega

/-- … and ≤ the value `opcodes_weight` returns (the implemented weigher) -/
theorem C11_flat_le_charged_impl (o : Oracles) (ops : List Op) (heap : Heap)
    (h : weightDP ops < U128_MAX) : (runCostOf o ops heap).2.flat ≤ weightDP ops := by
  rw [C11_weightDP_eq_weight] at h ⊢
  exact C11_flat_le_charged o ops heap h

/-! ## (3) value depth -/

/-- one instruction deepens the deepest value held by the machine (stack and heap) by at most one level -/
theorem C11_depth_step (o : Oracles) (ops : List Op) (st st' : Exec) (h : step o ops st = some st') :
    st'.maxDepth ≤ st.maxDepth + 1 :=
  step_maxDepth h

/-- after `k` executed steps the depth is at most the initial depth plus `k` -/
theorem C11_depth_le_steps (o : Oracles) (ops : List Op) (k : Nat) (st st' : Exec)
    (h : stepN o ops k st = some st') : st'.maxDepth ≤ st.maxDepth + k :=
  stepN_maxDepth o ops k st st' h

/-- … and from the initial state at most `weightU ops` steps can be executed, so every reachable machine state holds
    values of depth at most (deepest value of the initial heap) + weight -/
theorem C11_depth_le_weight (o : Oracles) (ops : List Op) (heap : Heap) (k : Nat) (st' : Exec)
    (h : stepN o ops k (initExec heap) = some st') :
    k ≤ weightU ops ∧ st'.maxDepth ≤ Heap.depth heap + weightU ops := by
  have h1 := stepN_phi o ops k _ _ h
  have h2 := stepN_maxDepth o ops k _ _ h
  rw [phi_init] at h1
  have h3 : (initExec heap).maxDepth = Heap.depth heap := by simp [initExec, Exec.maxDepth]
  omega

/-- the value a run returns is no deeper than the initial heap plus the number of executed steps … -/
theorem C11_result_depth_le_steps (o : Oracles) (ops : List Op) (heap : Heap) (v : Value)
    (h : run o ops heap = some v) : v.depth ≤ Heap.depth heap + runSteps o ops heap := by
  have h1 := runFuel_result_depth o ops (weightU ops + 1) (initExec heap) 0 v h
  have h3 : (initExec heap).maxDepth = Heap.depth heap := by simp [initExec, Exec.maxDepth]
  unfold runSteps
  omega

/-- … hence plus the weight -/
theorem C11_result_depth_le_weight (o : Oracles) (ops : List Op) (heap : Heap) (v : Value)
    (h : run o ops heap = some v) : v.depth ≤ Heap.depth heap + weightU ops := by
  have h1 := C11_result_depth_le_steps o ops heap v h
  have h2 := C11_steps_le_weight o ops heap (weightU ops + 1)
  unfold runSteps at h1
  omega

/-- the heap a covenant starts from (`Executor::new_from_env`) holds values of depth at most 3 (the transaction) -/
theorem C11_env_depth_le (tx : Tx) (env : Option CovEnv) : Heap.depth (heapOfEnv tx env) ≤ 3 :=
  depth_heapOfEnv tx env

/-- so every machine state reachable while executing a covenant holds values of depth at most 3 + weight … -/
theorem C11_covenant_depth_le_weight (o : Oracles) (ops : List Op) (tx : Tx) (env : Option CovEnv) (k : Nat)
    (st' : Exec) (h : stepN o ops k (initExec (heapOfEnv tx env)) = some st') :
    st'.maxDepth ≤ 3 + weightU ops := by
  have h1 := (C11_depth_le_weight o ops _ k st' h).2
  have h2 := C11_env_depth_le tx env
  omega

/-- … and so does the value it returns -/
theorem C11_execute_depth_le_weight (o : Oracles) (ops : List Op) (tx : Tx) (env : Option CovEnv) (v : Value)
    (h : execute o ops tx env = some v) : v.depth ≤ 3 + weightU ops := by
  have h1 := C11_result_depth_le_weight o ops _ v h
  have h2 := C11_env_depth_le tx env
  omega

/-- the bound is tight up to the factor 2: `VEmpty; Loop(n, 2) { VEmpty; VPush }` reaches depth `n + 1` after
    `2 n + 2` steps (a single `VEmpty` reaches depth 1 in 1 step, so the one-step bound `C11_depth_step` is tight) -/
theorem C11_depth_witness (o : Oracles) (n : UInt16) (heap : Heap) :
    stepN o (nestProg n) (2 * n.toNat + 2) (initExec heap)
      = some { stack := [nestVal n.toNat], heap := heap, pc := 4, loops := [] } ∧
    (nestVal n.toNat).depth = n.toNat + 1 :=
  ⟨nest_run o n heap, depth_nestVal n.toNat⟩

/-- the weight of the witness program is `14 n + 19`: depth 65536 (`n = 65535`) costs weight 917509 -/
theorem C11_depth_witness_weight (n : UInt16) : weightU (nestProg n) = 14 * n.toNat + 19 := by
  simp [nestProg, weightU, weightUF, opWeight, wVEmpty, wVPush, wLoopExtra]
  omega

/-! ## sanity (non-vacuity): `runCost` on literal programs -/

/-- test oracles: "hash" = identity, every signature verifies -/
def testOracles : Oracles := { hash := fun b => b, sigOk := fun _ _ _ => true }

/-- `PushB 010203; Hash 5`: 2 steps, weight 1 + 55, 3 bytes flattened -/
example : (runCostOf testOracles [.pushb [1, 2, 3], .hash 5] []).2 = { steps := 2, xw := 56, flat := 3 } := by decide
example : weightU [.pushb [1, 2, 3], .hash 5] = 56 := by decide
/-- operand longer than the `Hash` bound: the instruction fails before flattening anything, and is still charged -/
example : (runCostOf testOracles [.pushb [1, 2, 3], .hash 2] []).2 = { steps := 2, xw := 53, flat := 0 } := by decide
/-- a loop: `PushI 0; Loop(3, 2) { PushI 1; Add }`: 2 + 3·2 steps, executed weight 1 + 1 + 3·5 = 17 ≤ weight 22
    (the weigher counts the body once more as part of the enclosing sequence) -/
example : (runCostOf testOracles [.pushi 0, .loop 3 2, .pushi 1, .add] []).2 = { steps := 8, xw := 17, flat := 0 } := by
  decide
example : weightU [.pushi 0, .loop 3 2, .pushi 1, .add] = 22 := by decide
example : ((runCostOf testOracles [.pushi 0, .loop 3 2, .pushi 1, .add] []).1.bind Value.intoInt) = some 3 := by decide
/-- `SigEOk 10` with a 64-byte signature, a 32-byte key and a 3-byte message flattens 32 + 3 + 64 bytes -/
example : (runCostOf testOracles
    [.pushb (List.replicate 64 0), .pushb (List.replicate 32 0), .pushb [1, 2, 3], .sigeok 10] []).2
    = { steps := 4, xw := 113, flat := 99 } := by decide
/-- a 5-byte key is flattened (5 bytes) before `Ed25519PK::from_bytes` rejects it -/
example : ((runCostOf testOracles
      [.pushb (List.replicate 64 0), .pushb [1, 2, 3, 4, 5], .pushb [1, 2, 3], .sigeok 10] []).1.isNone,
    (runCostOf testOracles
      [.pushb (List.replicate 64 0), .pushb [1, 2, 3, 4, 5], .pushb [1, 2, 3], .sigeok 10] []).2)
    = (true, { steps := 4, xw := 113, flat := 5 }) := by decide
/-- `BtoI` flattens only a 32-byte operand -/
example : (runCostOf testOracles [.pushb (List.replicate 32 7), .btoi] []).2 = { steps := 2, xw := 51, flat := 32 } := by
  decide
example : (runCostOf testOracles [.pushb (List.replicate 33 7), .btoi] []).2 = { steps := 2, xw := 51, flat := 0 } := by
  decide
example : runCostLine testOracles [.pushb [1, 2, 3], .hash 5] [] = " xw=56 flat=3" := by decide
/-- the depth witness, run: depth 4 after 8 steps (executed weight 47, weight 61) -/
example : ((runCostOf testOracles (nestProg 3) []).1.map Value.depth, (runCostOf testOracles (nestProg 3) []).2)
    = (some 4, { steps := 8, xw := 47, flat := 0 }) := by decide
/-- non-vacuity of the hypotheses of `C11_depth_le_steps` / `C11_depth_le_weight` -/
example : ∃ st', stepN testOracles (nestProg 3) 8 (initExec []) = some st' ∧ st'.maxDepth = 4 :=
  ⟨_, (C11_depth_witness testOracles 3 []).1, by decide⟩
/-- non-vacuity of `C11_result_depth_le_weight` -/
example : (run testOracles (nestProg 3) []).map Value.depth = some 4 := by decide
/-- non-vacuity of `C11_flat_le_charged` / `C11_executed_weight_le_charged` -/
example : weight [.pushb [1, 2, 3], .hash 5] < U128_MAX := by decide

end Mel.VM

#print axioms Mel.VM.C11_runCost_agrees
#print axioms Mel.VM.C11_runCostOf_agrees
#print axioms Mel.VM.C11_executed_weight_le_weight
#print axioms Mel.VM.C11_executed_weight_le_potential
#print axioms Mel.VM.C11_steps_le_executed_weight
#print axioms Mel.VM.C11_executed_weight_le_charged
#print axioms Mel.VM.C11_flat_le_op_weight
#print axioms Mel.VM.C11_flat_le_step_weight
#print axioms Mel.VM.C11_flat_le_step_weight'
#print axioms Mel.VM.C11_flat_le_executed_weight
#print axioms Mel.VM.C11_flat_le_weight
#print axioms Mel.VM.C11_flat_le_charged
#print axioms Mel.VM.C11_flat_le_charged_impl
#print axioms Mel.VM.C11_depth_step
#print axioms Mel.VM.C11_depth_le_steps
#print axioms Mel.VM.C11_depth_le_weight
#print axioms Mel.VM.C11_result_depth_le_steps
#print axioms Mel.VM.C11_result_depth_le_weight
#print axioms Mel.VM.C11_env_depth_le
#print axioms Mel.VM.C11_covenant_depth_le_weight
#print axioms Mel.VM.C11_execute_depth_le_weight
#print axioms Mel.VM.C11_depth_witness
#print axioms Mel.VM.C11_depth_witness_weight
