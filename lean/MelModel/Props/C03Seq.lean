/-
  C03, second half — applying a set of transactions as one batch yields the same state as applying them one at a
  time in any dependency-respecting order.  Property theorems only; helper lemmas live in
  MelModel/Lemmas/SeqL.lean (which may build on Lemmas/Perm.lean and Lemmas/Batch.lean).

  About the header covenants see (finding F25).  `applyBatch` takes the header that covenants see as "last header"
  from the history (`history[height-1]`).  In a state without that entry (the first block of a chain) the Rust code
  used to take the header of the *current* state sealed as it stood, which the model received as the parameter
  `genesisFallback`; in a one-at-a-time application that header is a different one at every step (the state has
  changed), so a covenant inspecting its Merkle roots or fee pool could tell batch and one-at-a-time application
  apart, and the theorems below had to ASSUME `hh : ∃ hdr, s.history.get (s.height - 1) = some hdr` (not the first
  block).  Since the `fix:` for F25 the stand-in is `genesisStandIn s`, made only of `s.network`, `s.height`,
  `s.feeMultiplier`, `s.doscSpeed`, and the parameter is not looked at any more (`C03_fallback_unused`).

  WHAT REPLACED `hh`: nothing.  The hypothesis is dropped from `C03_batch_split`, `C03_seq_of_batch`,
  `C03_batch_of_seq`, `C03_seq_orders` without a substitute — not even the reachable-state invariant
  `∀ h hdr, s.history.get h = some hdr → h < s.height` is needed.  Reason: an accepted batch keeps network, height,
  fee multiplier and history; it changes `doscSpeed` only by accepting a DoscMint transaction, and
  `validateDoscmint` accepts only when `history[height-1]` exists (it reads the previous header's speed; at height 0
  it crashes, else it rejects with `InvalidMelPoW`): `SeqL.doscmint_ok_prev`.  So in a state without previous header
  no accepted step changes the stand-in (`SeqL.batch_speed_first`), and in a state with previous header the stand-in
  is not used: the header covenants see is the same after every accepted step (`SeqL.batch_lastHeader`,
  `C03_lastHeader_stable`).  The new statements are strictly stronger: they cover the first block
  (`C03_seq_nonvacuous_first_block`), which `hh` excluded.  The old behaviour is recorded in
  `C03SeqWitness.lastHeaderOfOld` / `C03_old_fallback_matters`.
-/
import MelModel.ApplyTx
import MelModel.Props.C03
import MelModel.Lemmas.SeqL
namespace Mel
open Mel.Gen

/-- one at a time: each transaction is a batch of its own (`apply_tx`), applied to the result of the previous -/
def applySeq (env : Env) (s : State) (txs : List Tx) (fb : Header) : Outcome State :=
  Outcome.foldlM' (fun st tx => applyBatch env st [tx] fb) s txs

/-- a dependency-respecting order: no transaction spends an output of a later one -/
def DepOrder : List Tx → Prop
  | [] => True
  | t :: rest => (∀ u ∈ rest, ∀ id ∈ t.inputs, id.txhash ≠ u.hash) ∧ DepOrder rest

/-! glue between the definitions above and the lemmas of Lemmas/SeqL.lean -/

theorem depOrder_iff : ∀ txs : List Tx, DepOrder txs ↔ SeqL.DepOrd txs
  | [] => Iff.rfl
  | t :: rest => by
    simp only [DepOrder, SeqL.DepOrd, SeqL.Dep, depOrder_iff rest]

theorem applySeq_eq (env : Env) (s : State) (txs : List Tx) (fb : Header) :
    applySeq env s txs fb = SeqL.seqApply env s txs fb := rfl

theorem batchEquiv_of {a b : State} (e : C3.Equiv a b) : BatchEquiv a b :=
  ⟨e.coins, e.counts, e.stakes, e.txs, e.feePool, e.tips, e.feeMultiplier, e.doscSpeed,
    e.pools, e.history, e.height, e.network⟩

theorem equiv_of_batchEquiv {a b : State} (e : BatchEquiv a b) : C3.Equiv a b :=
  ⟨e.coins, e.counts, e.stakes, e.txs, e.feePool, e.tips, e.feeMultiplier, e.doscSpeed,
    e.pools, e.history, e.height, e.network⟩

/-- the pseudo-coin of a grandfathered faucet transaction is not among the coins the batch creates.
    (For the other faucet transactions this follows from `PermPre.markers`.) -/
def GfFresh (env : Env) (s : State) (txs : List Tx) : Prop :=
  ∀ t ∈ txs, t.kind = .faucet → env.isGrandfathered t.hash = true →
    ∀ u ∈ txs, ∀ e ∈ outputCoinsFromTx u s.height, e.1 ≠ (⟨env.fdp t.hash, 0⟩ : CoinID)

theorem GfFresh.toGfOk {env : Env} {s : State} {txs : List Tx} (h : GfFresh env s txs) :
    SeqL.GfOk env s txs := by
  intro f hf hk hb
  cases hc : (createdOf s.height txs).get (BatchL.markerOf env f) with
  | none => rfl
  | some c =>
    obtain ⟨u, hu, hm⟩ := createdOf_get_some hc
    exact absurd rfl (h f hf hk hb u hu _ hm)

/-- **the fallback parameter is not looked at** (since the `fix:` for F25) -/
theorem C03_fallback_unused (s : State) (fb fb' : Header) : lastHeaderOf s fb = lastHeaderOf s fb' := rfl

/-- … so `applyBatch` does not depend on it, in any state (first block included) -/
theorem C03_applyBatch_fallback_unused (env : Env) (s : State) (txs : List Tx) (fb fb' : Header) :
    applyBatch env s txs fb = applyBatch env s txs fb' := rfl

/-- **the header covenants see is fixed for the block**: after any accepted batch (in particular after each step of
    a one-at-a-time application) `lastHeaderOf` is what it was before — in the first block too, where it is the
    stand-in: no hypothesis on the state.  (An accepted batch keeps network, height, fee multiplier and history, and
    can only change the DOSC speed when the previous header exists, in which case the stand-in is not used.) -/
theorem C03_lastHeader_stable (env : Env) (s s' : State) (txs : List Tx) (fb fb₁ fb₂ : Header)
    (h : applyBatch env s txs fb = .ok s') : lastHeaderOf s' fb₁ = lastHeaderOf s fb₂ :=
  SeqL.batch_lastHeader h fb₁ fb₂

/-- **a batch can be split at its head**: if the first transaction does not depend on the others, applying the
    batch is applying the first transaction and then the rest.

    CHANGED STATEMENT (strengthened): the hypothesis `hh : ∃ hdr, s.history.get (s.height - 1) = some hdr` was
    dropped and nothing replaces it (see the header of this file): the statement now covers the first block. -/
theorem C03_batch_split (env : Env) (s s₁ : State) (t : Tx) (rest : List Tx) (fb fb' : Header)
    (hpre : PermPre env s (t :: rest))
    (hdep : ∀ u ∈ rest, ∀ id ∈ t.inputs, id.txhash ≠ u.hash)
    (h : applyBatch env s (t :: rest) fb = .ok s₁) :
    ∃ sm s₂, applyBatch env s [t] fb' = .ok sm ∧ applyBatch env sm rest fb' = .ok s₂ ∧ BatchEquiv s₁ s₂ := by
  obtain ⟨sm, s₂, h1, h2, e, -⟩ := SeqL.split_main (SeqL.SPre.ofPre hpre.toPre) hdep h fb'
  exact ⟨sm, s₂, h1, h2, batchEquiv_of e⟩

/-- **batch ⇒ sequential**: an accepted batch, applied one transaction at a time in a dependency-respecting
    order, is accepted at every step and ends in the same observable state.

    CHANGED STATEMENT (strengthened): the hypothesis `hh` (previous header exists) was dropped without substitute. -/
theorem C03_seq_of_batch (env : Env) (s s₁ : State) (txs : List Tx) (fb fb' : Header)
    (hpre : PermPre env s txs) (hdep : DepOrder txs)
    (h : applyBatch env s txs fb = .ok s₁) :
    ∃ s₂, applySeq env s txs fb' = .ok s₂ ∧ BatchEquiv s₁ s₂ := by
  obtain ⟨s₂, h2, e⟩ := SeqL.seq_of_batch env fb' txs s s₁ fb (SeqL.SPre.ofPre hpre.toPre)
    ((depOrder_iff txs).mp hdep) h
  exact ⟨s₂, h2, batchEquiv_of e⟩

/-- **sequential ⇒ batch**: if the one-at-a-time application succeeds, the batch is accepted with the same state.

    CHANGED STATEMENT: the hypothesis `hgf` was added.  `handle_faucet_tx` looks up the de-duplication
    pseudo-coin of every faucet transaction but inserts it only for the non-grandfathered ones, and `PermPre`
    keeps a transaction hash apart from the pseudo-coin hash only for the non-grandfathered ones.  If a later
    transaction `u` of the list creates the coin that is the pseudo-coin of a grandfathered faucet transaction
    `t`, then `t`-then-`u` is accepted one at a time (the coin does not exist yet when `t` is checked), but the
    batch — which inserts all outputs first — rejects `t` with `DuplicateTx`
    (`C03_batch_of_seq_counterexample`).  `hgf` is implied by the conclusion (an accepted batch satisfies it),
    so it is the weakest hypothesis that repairs the statement.

    CHANGED STATEMENT (strengthened): the hypothesis `hh` (previous header exists) was dropped without substitute. -/
theorem C03_batch_of_seq (env : Env) (s s₂ : State) (txs : List Tx) (fb fb' : Header)
    (hpre : PermPre env s txs) (hdep : DepOrder txs)
    (hgf : GfFresh env s txs)
    (h : applySeq env s txs fb' = .ok s₂) :
    ∃ s₁, applyBatch env s txs fb = .ok s₁ ∧ BatchEquiv s₁ s₂ := by
  obtain ⟨s₁, h1, e⟩ := SeqL.batch_of_seq env fb' txs s s₂ fb (SeqL.SPre.ofPre hpre.toPre)
    ((depOrder_iff txs).mp hdep) hgf.toGfOk h
  exact ⟨s₁, h1, batchEquiv_of e⟩

/-- together with `C03_perm`: every dependency-respecting order of the same set gives the same state.

    CHANGED STATEMENT: the hypothesis `hgf` was added, for the same reason as in `C03_batch_of_seq`: without it
    the order that puts the creator of the pseudo-coin before the grandfathered faucet transaction is rejected
    (`C03_seq_orders_counterexample`).

    CHANGED STATEMENT (strengthened): the hypothesis `hh` (previous header exists) was dropped without substitute. -/
theorem C03_seq_orders (env : Env) (s s₂ : State) (txs txs' : List Tx) (fb : Header) (hp : txs.Perm txs')
    (hpre : PermPre env s txs) (hdep : DepOrder txs) (hdep' : DepOrder txs')
    (hgf : GfFresh env s txs)
    (h : applySeq env s txs fb = .ok s₂) :
    ∃ s₂', applySeq env s txs' fb = .ok s₂' ∧ BatchEquiv s₂ s₂' := by
  obtain ⟨s₁, h1, e1⟩ := C03_batch_of_seq env s s₂ txs fb fb hpre hdep hgf h
  obtain ⟨s₁', h1', e2⟩ := C03_perm env s s₁ txs txs' fb hp hpre h1
  obtain ⟨s₂', h2', e3⟩ := C03_seq_of_batch env s s₁' txs' fb fb (hpre.perm hp) hdep' h1'
  exact ⟨s₂', h2', batchEquiv_of (SeqL.equiv_trans (SeqL.equiv_symm (equiv_of_batchEquiv e1))
    (SeqL.equiv_trans (equiv_of_batchEquiv e2) (equiv_of_batchEquiv e3)))⟩

/-! ### witnesses -/
namespace C03SeqWitness
open C03Witness (env cov)

def hdr : Header := {
  network := .custom02, previous := [], height := 9, historyHash := [], coinsHash := [], transactionsHash := [],
  feePool := 0, feeMultiplier := 0, doscSpeed := 0, poolsHash := [], stakesHash := [] }

/-- an unspent coin -/
def P : CoinID := ⟨[5], 0⟩
def s : State := {
  network := .custom02, height := 10, history := [(9, hdr)],
  coins := { coins := [(P, ⟨⟨[7], 5, .mel, []⟩, 3⟩)], counts := [([7], 1)] },
  txs := [], feePool := 0, feeMultiplier := 0, tips := 0, doscSpeed := 0, pools := [], stakes := [] }
/-- spends `P` -/
def a : Tx := {
  kind := .normal, inputs := [P], outputs := [(⟨[7], 5, .mel, []⟩ : CoinData)], fee := 0,
  covenants := [cov], data := [], sigs := [], hash := [1], rawLen := 0, covHashes := [[7]] }
/-- spends the output of `a` -/
def b : Tx := {
  kind := .normal, inputs := [⟨[1], 0⟩], outputs := [(⟨[8], 5, .mel, []⟩ : CoinData)], fee := 0,
  covenants := [cov], data := [], sigs := [], hash := [2], rawLen := 0, covHashes := [[7]] }

theorem counts_s : CountsFine s.coins := by
  refine ⟨by decide, by decide, ?_, ?_⟩
  · intro x
    by_cases hx : x = [7]
    · subst hx; decide
    · have hx' : ¬ ([7] : Hash) = x := fun h => hx h.symm
      simp [s, P, CoinMap.coinCount, AList.get, hx']
  · intro e he
    simp only [s, List.mem_cons, List.not_mem_nil, or_false] at he
    subst he
    decide

/-- a grandfathered faucet transaction (every faucet transaction is, in `C03Witness.env`); its pseudo-coin
    is `⟨[9, 2], 0⟩` -/
def t : Tx := {
  kind := .faucet, inputs := [], outputs := [], fee := 0,
  covenants := [], data := [], sigs := [], hash := [2], rawLen := 0, covHashes := [] }
/-- another faucet transaction, whose first output is the pseudo-coin of `t` -/
def u : Tx := {
  kind := .faucet, inputs := [], outputs := [(⟨[8], 5, .mel, []⟩ : CoinData)], fee := 0,
  covenants := [], data := [], sigs := [], hash := [9, 2], rawLen := 0, covHashes := [] }

theorem permPre_tu : PermPre env s [t, u] := by
  refine ⟨by decide, ?_, ?_, ?_, counts_s, trivial, by decide, by decide⟩
  · intro x _ _ hb
    cases hb
  · intro x hx _ _ w hw
    simp only [List.mem_cons, List.not_mem_nil, or_false] at hx hw
    rcases hx with rfl | rfl <;> rcases hw with rfl | rfl <;> decide
  · intro x hx i
    simp only [List.mem_cons, List.not_mem_nil, or_false] at hx
    rcases hx with rfl | rfl <;> simp [s, t, u, P, CoinMap.getCoin, AList.get]

/-! a first block: height 0, empty history -/

/-- a covenant that reads the header it is shown: `last_header.height == 0` -/
def covH : Bytes :=
  (VM.encodeAll [VM.Op.pushi 2, VM.Op.loadimm 10, VM.Op.vref, VM.Op.pushi 0, VM.Op.eql]).getD []

def P0 : CoinID := ⟨[5], 0⟩
/-- a state without previous header -/
def s0 : State := {
  network := .custom02, height := 0, history := [],
  coins := { coins := [(P0, ⟨⟨[7], 5, .mel, []⟩, 0⟩)], counts := [([7], 1)] },
  txs := [], feePool := 0, feeMultiplier := 0, tips := 0, doscSpeed := 0, pools := [], stakes := [] }
/-- spends `P0`, under a covenant that inspects the last header -/
def a0 : Tx := {
  kind := .normal, inputs := [P0], outputs := [(⟨[7], 5, .mel, []⟩ : CoinData)], fee := 0,
  covenants := [covH], data := [], sigs := [], hash := [1], rawLen := 0, covHashes := [[7]] }
/-- spends the output of `a0`, under the same covenant -/
def b0 : Tx := {
  kind := .normal, inputs := [⟨[1], 0⟩], outputs := [(⟨[8], 5, .mel, []⟩ : CoinData)], fee := 0,
  covenants := [covH], data := [], sigs := [], hash := [2], rawLen := 0, covHashes := [[7]] }

theorem counts_s0 : CountsFine s0.coins := by
  refine ⟨by decide, by decide, ?_, ?_⟩
  · intro x
    by_cases hx : x = [7]
    · subst hx; decide
    · have hx' : ¬ ([7] : Hash) = x := fun h => hx h.symm
      simp [s0, P0, CoinMap.coinCount, AList.get, hx']
  · intro e he
    simp only [s0, List.mem_cons, List.not_mem_nil, or_false] at he
    subst he
    decide

/-- F25, the old behaviour: without previous header the environment of covenants was the second argument — the header
    of the current block sealed as it stood, which changes as the block fills -/
def lastHeaderOfOld (s : State) (fb : Header) : Header := (s.history.get (s.height - 1)).getD fb

end C03SeqWitness
open C03SeqWitness in
/-- `C03_batch_of_seq` without `hgf` is false: all the other hypotheses hold, the one-at-a-time application
    is accepted, the batch is rejected.  (The conjunct "the previous header exists" was removed together with the
    hypothesis `hh` of the theorem; the witness state does have its previous header.) -/
theorem C03_batch_of_seq_counterexample :
    PermPre C03Witness.env s [t, u] ∧ DepOrder [t, u] ∧
    (applySeq C03Witness.env s [t, u] default).isOk = true ∧
    applyBatch C03Witness.env s [t, u] default = .reject .duplicateTx := by
  refine ⟨permPre_tu, by simp [DepOrder, t, u], by decide +kernel,
    C03Witness.eq_of_isDup (by decide +kernel)⟩

open C03SeqWitness in
/-- `C03_seq_orders` without `hgf` is false: both orders are dependency-respecting, one is accepted, the other
    rejected -/
theorem C03_seq_orders_counterexample :
    [t, u].Perm [u, t] ∧ PermPre C03Witness.env s [t, u] ∧ DepOrder [t, u] ∧ DepOrder [u, t] ∧
    (applySeq C03Witness.env s [t, u] default).isOk = true ∧
    applySeq C03Witness.env s [u, t] default = .reject .duplicateTx := by
  refine ⟨List.Perm.swap _ _ _, permPre_tu, by simp [DepOrder, t, u], by simp [DepOrder, t, u],
    by decide +kernel, C03Witness.eq_of_isDup (by decide +kernel)⟩

open C03SeqWitness in
/-- non-vacuity: a two-transaction chain (the second spends the first's output) satisfies the hypotheses and is
    accepted both ways.  (This state has its previous header — a later block; the conjunct saying so is kept as a
    description of the witness, it is no longer a hypothesis of the theorems.  For the first block see
    `C03_seq_nonvacuous_first_block`.) -/
theorem C03_seq_nonvacuous :
    ∃ (env : Env) (s : State) (a b : Tx) (fb : Header),
      PermPre env s [a, b] ∧ DepOrder [a, b] ∧ (∃ id ∈ b.inputs, id.txhash = a.hash) ∧
      (∃ hdr, s.history.get (s.height - 1) = some hdr) ∧
      (applyBatch env s [a, b] fb).isOk = true ∧ (applySeq env s [a, b] fb).isOk = true := by
  refine ⟨C03Witness.env, s, a, b, default, ⟨by decide, ?_, ?_, ?_, counts_s, trivial, by decide, by decide⟩,
    by simp [DepOrder, a, b, P], ⟨⟨[1], 0⟩, by simp [b], rfl⟩, ⟨hdr, by decide⟩, by decide +kernel,
    by decide +kernel⟩
  · intro x hx hk _
    simp only [List.mem_cons, List.not_mem_nil, or_false] at hx
    rcases hx with rfl | rfl <;> cases hk
  · intro x hx hk _
    simp only [List.mem_cons, List.not_mem_nil, or_false] at hx
    rcases hx with rfl | rfl <;> cases hk
  · intro x hx i
    simp only [List.mem_cons, List.not_mem_nil, or_false] at hx
    rcases hx with rfl | rfl <;> simp [s, a, b, P, CoinMap.getCoin, AList.get]

open C03SeqWitness in
/-- non-vacuity **in the first block** (the case the dropped hypothesis `hh` excluded): a state of height 0 with empty
    history — no previous header, covenants are shown the stand-in — and a two-transaction chain whose covenants
    read that header (`last_header.height == 0`); all hypotheses hold and the chain is accepted both ways.  The
    covenants really look at the stand-in: the same batch is rejected when the stand-in carries height 1. -/
theorem C03_seq_nonvacuous_first_block :
    ∃ (env : Env) (s : State) (a b : Tx) (fb : Header),
      s.height = 0 ∧ s.history = [] ∧ ¬ (∃ hdr, s.history.get (s.height - 1) = some hdr) ∧
      lastHeaderOf s fb = genesisStandIn s ∧
      PermPre env s [a, b] ∧ DepOrder [a, b] ∧ (∃ id ∈ b.inputs, id.txhash = a.hash) ∧ GfFresh env s [a, b] ∧
      (applyBatch env s [a, b] fb).isOk = true ∧ (applySeq env s [a, b] fb).isOk = true ∧
      (applyBatch env { s with height := 1 } [a, b] fb).isOk = false := by
  refine ⟨C03Witness.env, s0, a0, b0, default, rfl, rfl, by simp [s0, AList.get], rfl,
    ⟨by decide, ?_, ?_, ?_, counts_s0, trivial, by decide, by decide⟩,
    by simp [DepOrder, a0, b0, P0], ⟨⟨[1], 0⟩, by simp [b0], rfl⟩, ?_, by decide +kernel,
    by decide +kernel, by decide +kernel⟩
  · intro x hx hk _
    simp only [List.mem_cons, List.not_mem_nil, or_false] at hx
    rcases hx with rfl | rfl <;> cases hk
  · intro x hx hk _
    simp only [List.mem_cons, List.not_mem_nil, or_false] at hx
    rcases hx with rfl | rfl <;> cases hk
  · intro x hx i
    simp only [List.mem_cons, List.not_mem_nil, or_false] at hx
    rcases hx with rfl | rfl <;> simp [s0, a0, b0, P0, CoinMap.getCoin, AList.get]
  · intro x hx hk
    simp only [List.mem_cons, List.not_mem_nil, or_false] at hx
    rcases hx with rfl | rfl <;> cases hk

open C03SeqWitness in
/-- **the record of F25**: the old environment depended on the fallback header (height 0, empty history) — and that
    header, the current block sealed as it stood, changes with every transaction applied -/
theorem C03_old_fallback_matters : ∃ s fb fb', lastHeaderOfOld s fb ≠ lastHeaderOfOld s fb' := by
  refine ⟨s0, default, { (default : Header) with feePool := 1 }, ?_⟩
  decide

/-- where the previous header exists, old and new agree: F25 concerned the first block only -/
theorem C03_old_agrees_later_blocks (s : State) (fb : Header)
    (hh : ∃ hdr, s.history.get (s.height - 1) = some hdr) :
    C03SeqWitness.lastHeaderOfOld s fb = lastHeaderOf s fb := by
  obtain ⟨hdr, hh⟩ := hh
  simp only [C03SeqWitness.lastHeaderOfOld, lastHeaderOf, hh, Option.getD_some]

/-- … and in the first block the new environment is the stand-in, whatever is passed -/
theorem C03_first_block_standIn (s : State) (fb : Header) (hn : s.history.get (s.height - 1) = none) :
    lastHeaderOf s fb = genesisStandIn s := by
  simp only [lastHeaderOf, hn, Option.getD_none]

/-- the added hypothesis is satisfiable together with all the others (same chain as above: there is no faucet
    transaction in it) and in the presence of a grandfathered faucet transaction -/
theorem C03_seq_hgf_nonvacuous :
    GfFresh C03Witness.env C03SeqWitness.s [C03SeqWitness.a, C03SeqWitness.b] ∧
    GfFresh C03Witness.env C03SeqWitness.s [C03SeqWitness.t] := by
  constructor
  · intro x hx hk
    simp only [List.mem_cons, List.not_mem_nil, or_false] at hx
    rcases hx with rfl | rfl <;> cases hk
  · intro x hx _ _ w hw e he
    simp only [List.mem_cons, List.not_mem_nil, or_false] at hx hw
    subst hx; subst hw
    simp [outputCoinsFromTx, C03SeqWitness.t] at he

end Mel

#print axioms Mel.C03_fallback_unused
#print axioms Mel.C03_applyBatch_fallback_unused
#print axioms Mel.C03_lastHeader_stable
#print axioms Mel.C03_batch_split
#print axioms Mel.C03_seq_of_batch
#print axioms Mel.C03_batch_of_seq
#print axioms Mel.C03_seq_orders
#print axioms Mel.C03_seq_nonvacuous
#print axioms Mel.C03_seq_nonvacuous_first_block
#print axioms Mel.C03_old_fallback_matters
#print axioms Mel.C03_old_agrees_later_blocks
#print axioms Mel.C03_first_block_standIn
#print axioms Mel.C03_batch_of_seq_counterexample
#print axioms Mel.C03_seq_orders_counterexample
#print axioms Mel.C03_seq_hgf_nonvacuous
