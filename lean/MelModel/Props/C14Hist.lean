/-
  C13 / C14 for sealed REACHABLE states — `confirm` on a state sealed from a reachable one: the header exists, the
  epoch used is the epoch of the sealed state's height, the stake set used is the state's own, a key's votes are
  the stakes registered for it with `eStart ≤ epoch < ePostEnd`, and a stake registered by a transaction of the
  block being sealed does not vote yet.  (`Props/C14.lean` has the decision theorem `C14_decision_total` for an
  arbitrary sealed state with a header; `Props/C13.lean` has `C13_votes`, `C13_total_votes`, `C13_register_iff`.)
  Property theorems only; helper lemmas live in MelModel/Lemmas/MiscHistL.lean.
-/
import MelModel.Chain
import MelModel.Props.C13
import MelModel.Props.C14
import MelModel.Props.C13Life
import MelModel.Props.C07Hist
import MelModel.Lemmas.MiscHistL
namespace Mel
open Mel.Gen Mel.MiscHistL

/-- a key's voting power in epoch `ep`, in the form the property uses: the sum of the stakes registered for the key
    whose window `[eStart, ePostEnd)` contains the epoch -/
def windowVotes (st : StakeSet) (ep : Nat) (key : Bytes) : Nat :=
  ((st.filter fun e => e.2.eStart ≤ ep ∧ ep < e.2.ePostEnd ∧ e.2.pubkey = key).map (·.2.symsStaked)).sum

/-- the total voting power in epoch `ep`: the sum of all stakes whose window contains the epoch -/
def windowTotal (st : StakeSet) (ep : Nat) : Nat :=
  ((st.filter fun e => e.2.eStart ≤ ep ∧ ep < e.2.ePostEnd).map (·.2.symsStaked)).sum

/-- what `confirm` looks at in a state sealed from `s`: the stake set of `s` itself (sealing does not touch it) and
    the epoch of the sealed state's height, which is the height of `s` -/
theorem C14_sealed_stakes_epoch (env : Env) (s : State) (a : Option ProposerAction) (ss : Sealed)
    (hs : sealState env s a = .ok ss) :
    ss.st.stakes = s.stakes ∧ ss.st.height = s.height ∧ ss.st.epoch = s.height / STAKE_EPOCH := by
  have e2 := (sealState_hhn env s a ss hs).2.1
  refine ⟨C13_seal_keeps_stakes env s a ss hs, e2, ?_⟩
  unfold State.epoch; rw [e2]

/-- the tallies of `confirm` are the window sums over the state's own stake set (`C13_votes` / `C13_total_votes`
    in the form the property uses): only stakes with `eStart ≤ epoch < ePostEnd` count -/
theorem C14_tallies_window (env : Env) (s : State) (a : Option ProposerAction) (ss : Sealed)
    (hs : sealState env s a = .ok ss) (proof : List (Bytes × Bytes)) :
    presentVotes ss proof = (proof.map fun e => windowVotes s.stakes (s.height / STAKE_EPOCH) e.1).sum ∧
    totalVotes ss = windowTotal s.stakes (s.height / STAKE_EPOCH) := by
  obtain ⟨e1, -, e3⟩ := C14_sealed_stakes_epoch env s a ss hs
  unfold presentVotes totalVotes
  rw [e1, e3]
  refine ⟨?_, C13_total_votes _ _⟩
  congr 1
  apply List.map_congr_left
  intro e _
  exact C13_votes _ _ _

/-- a stake outside its window does not count: the tallies are those of the stake set with every stake whose window
    does not contain the epoch removed -/
theorem C14_only_window_counts (st : StakeSet) (ep : Nat) (key : Bytes) :
    st.votes ep key = StakeSet.votes (st.filter fun e => e.2.eStart ≤ ep ∧ ep < e.2.ePostEnd) ep key ∧
    st.totalVotes ep = StakeSet.totalVotes (st.filter fun e => e.2.eStart ≤ ep ∧ ep < e.2.ePostEnd) ep := by
  have hp : ∀ e ∈ st, decide (e.2.eStart ≤ ep ∧ ep < e.2.ePostEnd) = false → StakeSet.active ep e.2 = false := by
    intro e _ h
    simp only [decide_eq_false_iff_not] at h
    simp only [StakeSet.active, Bool.and_eq_false_iff, decide_eq_false_iff_not]
    omega
  exact ⟨votes_filter st ep key _ hp, totalVotes_filter st ep _ hp⟩

/-- 7. **the decision on sealed reachable states**: a state sealed from a reachable state has a header (at the
    state's height); `confirm` uses the epoch of that height and the state's own stake set; and, the total voting
    power fitting a u128, it answers exactly "every entry is a valid signature of the header hash, and the signers'
    voting power — stakes with `eStart ≤ epoch < ePostEnd` — exceeds two thirds of the total" -/
theorem C14_confirm_reachable (env : Env) (s : State) (a : Option ProposerAction) (ss : Sealed)
    (proof : List (Bytes × Bytes)) (hr : Reachable env s) (hs : sealState env s a = .ok ss)
    (ht : windowTotal s.stakes (s.height / STAKE_EPOCH) < U128_MAX) :
    ∃ hdr, headerOf env ss = .ok hdr ∧ hdr.height = s.height ∧ hdr.network = s.network ∧
      ss.st.stakes = s.stakes ∧ ss.st.epoch = s.height / STAKE_EPOCH ∧
      confirm env ss proof = .ok (decide ((∀ e ∈ proof, validEntry env hdr e = true) ∧
        3 * (proof.map fun e => windowVotes s.stakes (s.height / STAKE_EPOCH) e.1).sum >
          2 * windowTotal s.stakes (s.height / STAKE_EPOCH))) := by
  obtain ⟨hdr, hh, c1, c2, -⟩ := C07_header_exists_reachable env s a ss hr hs
  obtain ⟨e1, -, e3⟩ := C14_sealed_stakes_epoch env s a ss hs
  obtain ⟨t1, t2⟩ := C14_tallies_window env s a ss hs proof
  refine ⟨hdr, hh, c1, c2, e1, e3, ?_⟩
  rw [C14_decision_total env ss hdr proof hh (by rw [t2]; exact ht), t1, t2]

/-- … in the implementation's own terms (`StakeSet.votes` / `StakeSet.totalVotes` of the state's stake set) -/
theorem C14_confirm_reachable_votes (env : Env) (s : State) (a : Option ProposerAction) (ss : Sealed)
    (proof : List (Bytes × Bytes)) (hr : Reachable env s) (hs : sealState env s a = .ok ss)
    (ht : s.stakes.totalVotes (s.height / STAKE_EPOCH) < U128_MAX) :
    ∃ hdr, headerOf env ss = .ok hdr ∧ hdr.height = s.height ∧
      confirm env ss proof = .ok (decide ((∀ e ∈ proof, validEntry env hdr e = true) ∧
        3 * (proof.map fun e => s.stakes.votes (s.height / STAKE_EPOCH) e.1).sum >
          2 * s.stakes.totalVotes (s.height / STAKE_EPOCH))) := by
  rw [C13_total_votes] at ht
  obtain ⟨hdr, hh, c1, -, -, -, hc⟩ := C14_confirm_reachable env s a ss proof hr hs ht
  refine ⟨hdr, hh, c1, ?_⟩
  have hv : (proof.map fun e => windowVotes s.stakes (s.height / STAKE_EPOCH) e.1).sum =
      (proof.map fun e => s.stakes.votes (s.height / STAKE_EPOCH) e.1).sum := by
    congr 1
    apply List.map_congr_left
    intro e _
    exact (C13_votes _ _ _).symm
  have htot : windowTotal s.stakes (s.height / STAKE_EPOCH) = s.stakes.totalVotes (s.height / STAKE_EPOCH) :=
    (C13_total_votes _ _).symm
  rw [hc, hv, htot]

/-- **a newly registered stake has no vote yet**: a stake registered by a transaction of the batch (so `eStart` is
    beyond the current epoch, `C13_register_iff`) is in the stake set of the state sealed from the result, is not
    active in that state's epoch, and contributes 0 votes — every key's tally and the total are what they are without
    it -/
theorem C14_newly_staked_has_no_vote_yet (env : Env) (s s' : State) (txs : List Tx) (fb : Header)
    (a : Option ProposerAction) (ss : Sealed) (hb : applyBatch env s txs fb = .ok s')
    (hu : (txs.map (·.hash)).Nodup) (hk : StakeKeysUnique s) (tx : Tx) (htx : tx ∈ txs) (d : StakeDoc)
    (hreg : Registers s tx d) (hs : sealState env s' a = .ok ss) :
    ss.st.stakes.getStake tx.hash = some d ∧ ss.st.epoch < d.eStart ∧ StakeSet.active ss.st.epoch d = false ∧
    (∀ key, ss.st.stakes.votes ss.st.epoch key = StakeSet.votes (AList.del ss.st.stakes tx.hash) ss.st.epoch key) ∧
    ss.st.stakes.totalVotes ss.st.epoch = StakeSet.totalVotes (AList.del ss.st.stakes tx.hash) ss.st.epoch := by
  have hg : s'.stakes.getStake tx.hash = some d :=
    (C13_register_iff env s s' txs fb hb hu tx.hash d).mpr (.inl ⟨tx, htx, rfl, hreg⟩)
  obtain ⟨e1, e2, e3⟩ := C14_sealed_stakes_epoch env s' a ss hs
  have hep : ss.st.epoch = s.epoch := by
    rw [e3]; unfold State.epoch; rw [LifeL.batch_height hb]
  obtain ⟨-, -, -, first, -, -, hstart, -, -⟩ := hreg
  have hlt : ss.st.epoch < d.eStart := by rw [hep]; exact hstart
  have hina : StakeSet.active ss.st.epoch d = false := by
    simp only [StakeSet.active, Bool.and_eq_false_iff, decide_eq_false_iff_not]
    omega
  have hn : (ss.st.stakes.map (·.1)).Nodup := by rw [e1]; exact LifeL.batch_keys_nodup hb hk
  rw [← e1] at hg
  obtain ⟨v1, v2⟩ := votes_del_inactive ss.st.stakes hn tx.hash d hg ss.st.epoch hina
  exact ⟨hg, hlt, hina, v1, v2⟩

/-- the same for a block: a stake registered by a transaction of an accepted block does not vote in the sealed state
    the block produces -/
theorem C14_block_newly_staked_has_no_vote_yet (env : Env) (ss0 ss' : Sealed) (blk : Block) (basis : State)
    (h : applyBlock env ss0 blk = .ok ss') (hn : nextUnsealed env ss0 = .ok basis)
    (hu : (blk.transactions.map (·.hash)).Nodup) (hk : StakeKeysUnique ss0.st) (tx : Tx)
    (htx : tx ∈ blk.transactions) (d : StakeDoc) (hreg : Registers basis tx d) :
    ss'.st.stakes.getStake tx.hash = some d ∧ ss'.st.epoch < d.eStart ∧ StakeSet.active ss'.st.epoch d = false ∧
    (∀ key, ss'.st.stakes.votes ss'.st.epoch key =
      StakeSet.votes (AList.del ss'.st.stakes tx.hash) ss'.st.epoch key) ∧
    ss'.st.stakes.totalVotes ss'.st.epoch = StakeSet.totalVotes (AList.del ss'.st.stakes tx.hash) ss'.st.epoch := by
  obtain ⟨basis', applied, hn', hb, hs, -⟩ := applyBlock_ok h
  have : basis' = basis := Outcome.ok.inj (hn'.symm.trans hn)
  subst this
  exact C14_newly_staked_has_no_vote_yet env basis' applied blk.transactions default blk.action ss' hb hu
    (next_keys_nodup hn hk) tx htx d hreg hs

/-- … so a proof signed only by the key of a stake registered in the block being confirmed never confirms that
    block, whatever the amount staked (the signers' tally is that of the stake set without the new stake) -/
theorem C14_newly_staked_tally (env : Env) (s s' : State) (txs : List Tx) (fb : Header)
    (a : Option ProposerAction) (ss : Sealed) (hb : applyBatch env s txs fb = .ok s')
    (hu : (txs.map (·.hash)).Nodup) (hk : StakeKeysUnique s) (tx : Tx) (htx : tx ∈ txs) (d : StakeDoc)
    (hreg : Registers s tx d) (hs : sealState env s' a = .ok ss) (proof : List (Bytes × Bytes)) :
    presentVotes ss proof =
      (proof.map fun e => StakeSet.votes (AList.del ss.st.stakes tx.hash) ss.st.epoch e.1).sum := by
  obtain ⟨-, -, -, v1, -⟩ := C14_newly_staked_has_no_vote_yet env s s' txs fb a ss hb hu hk tx htx d hreg hs
  unfold presentVotes
  congr 1
  apply List.map_congr_left
  intro e _
  exact v1 e.1

/-! ### non-vacuity on literals -/

namespace C14HistWitness
open ReachWitness (env getOk eq_getOk)

/-- a validator with 100 SYM staked from epoch 0 to epoch 10, present from genesis -/
def old : StakeDoc := { pubkey := [1], eStart := 0, ePostEnd := 10, symsStaked := 100 }
/-- the stake registered in the first block: 5 SYM from epoch 1 -/
def new : StakeDoc := { pubkey := [2], eStart := 1, ePostEnd := 2, symsStaked := 5 }

def cfg : GenesisConfig :=
  { network := .custom02, initCoindata := ⟨[7], 5, .mel, []⟩, stakes := [([5], old)], initFeePool := 0,
    initFeeMultiplier := 0 }

/-- a faucet transaction creating 5 SYM -/
def fct : Tx := {
  kind := .faucet, inputs := [], outputs := [(⟨[7], 5, .sym, []⟩ : CoinData)], fee := 0,
  covenants := [], data := [], sigs := [], hash := [2], rawLen := 0, covHashes := [] }
/-- the stake transaction: locks the 5 SYM (first output) -/
def stk : Tx := {
  kind := .stake, inputs := [⟨zeroHash, 0⟩, ⟨[2], 0⟩],
  outputs := [(⟨[8], 5, .sym, []⟩ : CoinData), (⟨[8], 5, .mel, []⟩ : CoinData)], fee := 0,
  covenants := [C03Witness.cov], data := [], sigs := [], hash := [3], rawLen := 0, covHashes := [[7]],
  stakeDoc := some new }

def g : State := genesisState cfg
def s1 : State := getOk (applyBatch env g [fct, stk] default)
def ss1 : Sealed := getOk (sealState env s1 none)

theorem batch_ok : applyBatch env g [fct, stk] default = .ok s1 := eq_getOk (by decide +kernel)
theorem seal_ok : sealState env s1 none = .ok ss1 := eq_getOk (by decide +kernel)

theorem registers : Registers g stk new :=
  ⟨rfl, by decide +kernel, rfl, ⟨[8], 5, .sym, []⟩, rfl, rfl, by decide +kernel, by decide, rfl⟩

theorem keysUnique : StakeKeysUnique g := by unfold StakeKeysUnique; decide +kernel

theorem s1_reachable : Reachable env s1 := by
  refine .batch (.genesis cfg) ⟨by decide, ?_⟩ batch_ok
  intro x hx i
  have hk : ∀ h : Hash, h ≠ zeroHash → g.coins.getCoin ⟨h, i⟩ = none := by
    intro h hne
    show (CoinMap.insertCoin {} ⟨zeroHash, 0⟩ _ _).getCoin ⟨h, i⟩ = none
    rw [CoinMap.getCoin_insertCoin, if_neg]
    · rfl
    · intro e; injection e with e1; exact hne e1
  simp only [List.mem_cons, List.not_mem_nil, or_false] at hx
  rcases hx with rfl | rfl <;> exact hk _ (by decide)

/-- a 64-byte signature (every signature is valid in `ReachWitness.env`) -/
def sig : Bytes := List.replicate 64 0

end C14HistWitness

/-- non-vacuity: a reachable state (genesis with one validator, then a batch with a faucet transaction and a stake
    transaction registering a new stake) is sealed; the old validator's signature confirms it (100 of 100 votes), the
    new staker's does not (0 of 100), the new stake being registered but without a vote -/
theorem C14_hist_nonvacuous :
    ∃ (env : Env) (s0 s : State) (ss : Sealed) (txs : List Tx) (tx : Tx) (d : StakeDoc) (sig : Bytes),
      applyBatch env s0 txs default = .ok s ∧ Reachable env s ∧ sealState env s none = .ok ss ∧
      (txs.map (·.hash)).Nodup ∧ StakeKeysUnique s0 ∧ tx ∈ txs ∧ Registers s0 tx d ∧
      windowTotal s.stakes (s.height / STAKE_EPOCH) = 100 ∧
      ss.st.stakes.getStake tx.hash = some d ∧
      confirm env ss [([1], sig)] = .ok true ∧ confirm env ss [(d.pubkey, sig)] = .ok false := by
  open C14HistWitness in
  have h100 : windowTotal s1.stakes (s1.height / STAKE_EPOCH) = 100 := by decide +kernel
  have hlt : windowTotal s1.stakes (s1.height / STAKE_EPOCH) < U128_MAX := by rw [h100]; decide
  obtain ⟨hg, -⟩ := C14_newly_staked_has_no_vote_yet ReachWitness.env g s1 _ default none ss1 batch_ok
    (by decide) keysUnique stk (by simp) new registers seal_ok
  refine ⟨ReachWitness.env, g, s1, ss1, [fct, stk], stk, new, sig, batch_ok, s1_reachable, seal_ok, by decide,
    keysUnique, by simp, registers, h100, hg, ?_, ?_⟩
  · obtain ⟨hdr, -, -, -, -, -, hc⟩ :=
      C14_confirm_reachable ReachWitness.env s1 none ss1 [([1], sig)] s1_reachable seal_ok hlt
    refine hc.trans (congrArg Outcome.ok (decide_eq_true ⟨fun e he => ?_, ?_⟩))
    · simp only [List.mem_cons, List.not_mem_nil, or_false] at he
      subst he
      rfl
    · decide +kernel
  · obtain ⟨hdr, -, -, -, -, -, hc⟩ :=
      C14_confirm_reachable ReachWitness.env s1 none ss1 [(new.pubkey, sig)] s1_reachable seal_ok hlt
    exact hc.trans (congrArg Outcome.ok (decide_eq_false fun h => absurd h.2 (by decide +kernel)))

end Mel

#print axioms Mel.C14_sealed_stakes_epoch
#print axioms Mel.C14_tallies_window
#print axioms Mel.C14_only_window_counts
#print axioms Mel.C14_confirm_reachable
#print axioms Mel.C14_confirm_reachable_votes
#print axioms Mel.C14_newly_staked_has_no_vote_yet
#print axioms Mel.C14_block_newly_staked_has_no_vote_yet
#print axioms Mel.C14_newly_staked_tally
#print axioms Mel.C14_hist_nonvacuous
