/-
  C01, over histories — conservation of every denomination across ANY sequence of accepted batches and sealed
  blocks: along a run of the chain that starts in a reachable state, the supply of a denomination grows by at most
  the issuance the run records (`batchIssuance` of every batch, `sealAllowance` of every sealed block).
  Property theorems only; helper lemmas live in MelModel/Lemmas/HistL.lean (reuse Props/C01.lean, C01Seal.lean,
  C01Whole.lean for one batch / one seal / one block, and Props/Reach.lean for the invariants of reachable states).

  What the per-seal theorem `C01_seal_whole` assumes of the state being sealed is `SealPre` (Props/C01Seal.lean):
  * `coinKeys`, `poolKeys` — `Inv.coinKeys`, `Inv.poolKeys` of a reachable state;
  * `txHashes` — from `Inv.sorted`;
  * `faithful` — the coins sitting at the output slots of the block's transactions have the declared value and
    denomination.  NOT part of `Inv`/`Slots` (`Slots` speaks of covenants only) but an invariant of reachable states
    all the same: `C01_reachable_faithful` below (new helper `HistL.applyBatch_faithful`, same side conditions as
    `reach_batch_slots`);
  * `bounded` — no denomination's coin total exceeds a u128.  This is C09's supply precondition and NOT an invariant
    of the state machine (any number of faucet transactions may be accepted off mainnet, and nothing in a batch
    checks the total); the settlement arithmetic needs it: `satSum` clamps the total of a pool's swap requests to
    u128::MAX, and when the true total is larger every request is paid against too small a denominator — value IS
    created (`C01_seal_unbounded_counterexample`: all of `SealPre` but `bounded`, and the ERG supply doubles).
    It is therefore the one EXTRA PREMISE of the `block` constructor of `IssRun` (and of `ClosedRun`).

  Contents: `IssRun`, `C01_reachable_faithful`, `C01_sealPre_reachable`, `IssRun.reachable`, `C01_history` (main),
  `ClosedRun`, `C01_history_closed`, `C01_history_closed_custom`, `C01_genesis_supply`, `C01_history_from_genesis`,
  non-vacuity (`C01_history_nonvacuous`, `C01_history_closed_nonvacuous`), `C01_seal_unbounded_counterexample`.
-/
import MelModel.Seal
import MelModel.Chain
import MelModel.SupplyDefs
import MelModel.Props.C01
import MelModel.Props.C01Seal
import MelModel.Props.C01Whole
import MelModel.Props.Reach
import MelModel.Lemmas.HistL
namespace Mel
open Mel.Gen

/-- a run of the chain from `s` to `s'` during which at most `iss d` of each denomination `d` may be issued: the
    declared issuance of every accepted batch (faucets, new tokens, minted ERG) and the seal allowance of every
    sealed block (builtin pools, peg adjustment, TIP-909 subsidy).  The step assumptions are those of `ReachableSep`
    (hash freshness / domain separation), `legacyDeposit m = false` (finding K-legacy-deposit, as in
    `C01_seal_whole`) and — ADDED (`SealPre.bounded`; not implied by reachability, and conservation across a seal is
    false without it, see `C01_seal_unbounded_counterexample`) — the u128 bound on the coin totals of a state being
    sealed. -/
inductive IssRun (env : Env) : State → (Denom → Nat) → State → Prop
  | refl (s : State) : IssRun env s (fun _ => 0) s
  | batch {s m s' : State} {iss : Denom → Nat} {txs : List Tx} {fb : Header} :
      IssRun env s iss m → BatchFresh m txs → MarkerFresh env m txs → applyBatch env m txs fb = .ok s' →
      IssRun env s (fun d => iss d + batchIssuance txs d) s'
  | block {s m s' : State} {iss : Denom → Nat} {ss : Sealed} {a : Option ProposerAction} :
      IssRun env s iss m → RewardFresh env m → legacyDeposit m = false →
      (∀ d, coinsTotal m.coins d ≤ U128_MAX) →
      sealState env m a = .ok ss → nextUnsealed env ss = .ok s' →
      IssRun env s (fun d => iss d + sealAllowance m d) s'

/-- **the coins of the block's own transactions are as declared, in every reachable state** (`SealPre.faithful`):
    what `C02_exact` says of one batch, as an invariant of the chain -/
theorem C01_reachable_faithful (env : Env) (s : State) (h : ReachableSep env s) : Faithful s := by
  induction h with
  | genesis cfg => exact HistL.faithful_of_txs_nil rfl
  | @batch m s' txs fb hr hf hm hb ih =>
    have hi := (reachable_inv_slots env m hr).1
    exact HistL.applyBatch_faithful hb (sortedTxs_pairwise hi.sorted) hf.hashes hf.fresh ih hm
  | block _ _ _ hn _ => exact HistL.faithful_of_txs_nil (ReachL.nextUnsealed_txs hn)

/-- **`SealPre` for reachable states**: everything but the u128 bound on the coin totals follows from reachability -/
theorem C01_sealPre_reachable (env : Env) (s : State) (h : ReachableSep env s)
    (hb : ∀ d, coinsTotal s.coins d ≤ U128_MAX) : SealPre s :=
  let hi := (reachable_inv_slots env s h).1
  { coinKeys := hi.coinKeys
    poolKeys := hi.poolKeys
    txHashes := ReachL.nodup_hashes_of_pairwise (sortedTxs_pairwise hi.sorted)
    faithful := C01_reachable_faithful env s h
    bounded := hb }

/-- reachability is closed under runs -/
theorem IssRun.reachable {env : Env} {s s' : State} {iss : Denom → Nat} (hrun : IssRun env s iss s')
    (h : ReachableSep env s) : ReachableSep env s' := by
  induction hrun with
  | refl => exact h
  | batch _ hf hm hb ih => exact .batch ih hf hm hb
  | block _ hr _ _ hs hn ih => exact .block ih hr hs hn

/-- **C01 over histories**: along any run of the chain from a reachable state — any number of accepted batches
    and sealed blocks, in any order — the supply of a denomination that is not a liquidity token (those are the
    subject of C16) grows by at most the issuance recorded by the run -/
theorem C01_history (env : Env) (s s' : State) (iss : Denom → Nat) (hreach : ReachableSep env s)
    (hrun : IssRun env s iss s') (d : Denom) (hd : ∀ k : PoolKey, d ≠ liqTokenDenom env k) :
    supply s' d ≤ supply s d + iss d := by
  induction hrun with
  | refl => exact Nat.le_refl _
  | @batch m s' iss txs fb hr hf hm hb ih =>
    have hi := (reachable_inv_slots env m (hr.reachable hreach)).1
    have h1 := C01_apply env m s' txs fb hb hi.coinKeys d
    show supply s' d ≤ supply s d + (iss d + batchIssuance txs d)
    omega
  | @block m s' iss ss a hr hrf hl hbd hs hn ih =>
    have hp := C01_sealPre_reachable env m (hr.reachable hreach) hbd
    have h1 := C01_seal_whole env m a ss hs hp hl hrf d hd
    rw [← WholeL.nextUnsealed_supply env ss s' hn d] at h1
    show supply s' d ≤ supply s d + (iss d + sealAllowance m d)
    omega

/-! ### closed runs: no faucet, no ERG mint, no new token -/

/-- a batch that issues nothing: no faucet, no ERG mint, no newly created token -/
def ClosedBatch (txs : List Tx) : Prop :=
  ∀ tx ∈ txs, tx.kind ≠ .faucet ∧ tx.kind ≠ .doscMint ∧ ∀ o ∈ tx.outputs, o.denom ≠ .newCustom

/-- a run all of whose batches are closed; it records, per denomination, what the two `create_builtins` of each
    seal make: `builtinsCreated m d` before the settlement, `recreated env m d` after the withdrawal phase -/
inductive ClosedRun (env : Env) : State → (Denom → Nat) → State → Prop
  | refl (s : State) : ClosedRun env s (fun _ => 0) s
  | batch {s m s' : State} {rec : Denom → Nat} {txs : List Tx} {fb : Header} :
      ClosedRun env s rec m → BatchFresh m txs → MarkerFresh env m txs → ClosedBatch txs →
      applyBatch env m txs fb = .ok s' → ClosedRun env s rec s'
  | block {s m s' : State} {rec : Denom → Nat} {ss : Sealed} {a : Option ProposerAction} :
      ClosedRun env s rec m → RewardFresh env m → legacyDeposit m = false →
      (∀ d, coinsTotal m.coins d ≤ U128_MAX) →
      sealState env m a = .ok ss → nextUnsealed env ss = .ok s' →
      ClosedRun env s (fun d => rec d + (builtinsCreated m d + recreated env m d)) s'

/-- a closed run is a run (with some recorded issuance) -/
theorem ClosedRun.issRun {env : Env} {s s' : State} {rec : Denom → Nat} (hrun : ClosedRun env s rec s') :
    ∃ iss, IssRun env s iss s' := by
  induction hrun with
  | refl => exact ⟨_, .refl _⟩
  | batch _ hf hm _ hb ih => obtain ⟨iss, h⟩ := ih; exact ⟨_, .batch h hf hm hb⟩
  | block _ hr hl hbd hs hn ih => obtain ⟨iss, h⟩ := ih; exact ⟨_, .block h hr hl hbd hs hn⟩

theorem ClosedRun.reachable {env : Env} {s s' : State} {rec : Denom → Nat} (hrun : ClosedRun env s rec s')
    (h : ReachableSep env s) : ReachableSep env s' := by
  obtain ⟨iss, hi⟩ := hrun.issRun
  exact hi.reachable h

/-- **closed histories**: along a run without faucet / ERG-mint / new-token transactions, a denomination other
    than MEL, SYM and the liquidity tokens grows by nothing but the builtin pools made (or made afresh) by the
    seals of the run — the history-level `C01_block_closed` -/
theorem C01_history_closed (env : Env) (s s' : State) (rec : Denom → Nat) (hreach : ReachableSep env s)
    (hrun : ClosedRun env s rec s') (d : Denom) (hd : ∀ k : PoolKey, d ≠ liqTokenDenom env k)
    (hmel : d ≠ .mel) (hsym : d ≠ .sym) :
    supply s' d ≤ supply s d + rec d := by
  induction hrun with
  | refl => exact Nat.le_refl _
  | @batch m s' rec txs fb hr hf hm hc hb ih =>
    have hi := (reachable_inv_slots env m (hr.reachable hreach)).1
    have h1 := C01_apply_closed env m s' txs fb hb hi.coinKeys hc d
    omega
  | @block m s' rec ss a hr hrf hl hbd hs hn ih =>
    have hp := C01_sealPre_reachable env m (hr.reachable hreach) hbd
    have h1 := C01_seal_whole_sharp env m a ss hs hp hl hrf d hd
    rw [← WholeL.nextUnsealed_supply env ss s' hn d] at h1
    have z1 : ¬ (d = .mel ∨ d = .sym) := fun h => h.elim hmel hsym
    have z2 : ¬ (d = .sym ∧ m.tip909 = true) := fun h => hsym h.1
    rw [if_neg z1, if_neg z2] at h1
    show supply s' d ≤ supply s d + (rec d + (builtinsCreated m d + recreated env m d))
    omega

/-- what a closed run records is zero for every denomination other than MEL, SYM, ERG -/
theorem ClosedRun.rec_other {env : Env} {s s' : State} {rec : Denom → Nat} (hrun : ClosedRun env s rec s')
    (d : Denom) (hmel : d ≠ .mel) (hsym : d ≠ .sym) (herg : d ≠ .erg) : rec d = 0 := by
  induction hrun with
  | refl => rfl
  | batch _ _ _ _ _ ih => exact ih
  | @block m s' rec ss a _ _ _ _ _ _ ih =>
    show rec d + (builtinsCreated m d + recreated env m d) = 0
    rw [ih, builtinsCreated_other m d hmel hsym herg]
    unfold recreated
    rw [builtinsCreated_other _ d hmel hsym herg]

/-- **custom tokens are never inflated by a closed history**: for a denomination other than MEL, SYM, ERG and the
    liquidity tokens, the supply after a closed run is at most the supply before -/
theorem C01_history_closed_custom (env : Env) (s s' : State) (rec : Denom → Nat) (hreach : ReachableSep env s)
    (hrun : ClosedRun env s rec s') (d : Denom) (hd : ∀ k : PoolKey, d ≠ liqTokenDenom env k)
    (hmel : d ≠ .mel) (hsym : d ≠ .sym) (herg : d ≠ .erg) :
    supply s' d ≤ supply s d := by
  have h := C01_history_closed env s s' rec hreach hrun d hd hmel hsym
  rw [hrun.rec_other d hmel hsym herg] at h
  exact h

/-! ### from the genesis state -/

/-- the supply of the genesis state: the initial coin, and for MEL the initial fee pool -/
theorem C01_genesis_supply (cfg : GenesisConfig) (d : Denom) :
    supply (genesisState cfg) d =
      (if cfg.initCoindata.denom = d then cfg.initCoindata.value else 0) +
      (if d = .mel then cfg.initFeePool else 0) := HistL.genesis_supply cfg d

/-- **C01 from genesis**: at any point of any history, the supply of a denomination (not a liquidity token) is at
    most what the genesis configuration put there plus the issuance recorded since -/
theorem C01_history_from_genesis (env : Env) (cfg : GenesisConfig) (s' : State) (iss : Denom → Nat)
    (hrun : IssRun env (genesisState cfg) iss s') (d : Denom) (hd : ∀ k : PoolKey, d ≠ liqTokenDenom env k) :
    supply s' d ≤ (if cfg.initCoindata.denom = d then cfg.initCoindata.value else 0) +
      (if d = .mel then cfg.initFeePool else 0) + iss d := by
  have h := C01_history env (genesisState cfg) s' iss (.genesis cfg) hrun d hd
  rw [C01_genesis_supply] at h
  exact h

/-! ### non-vacuity: a concrete two-step run (one batch, one block) from a genesis state -/

namespace C01HistWitness
open ReachWitness

/-- a faucet transaction creating 7 MEL (its de-duplication marker id `[9, 3]` is no transaction's hash) -/
def f : Tx := {
  kind := .faucet, inputs := [], outputs := [(⟨[8], 7, .mel, []⟩ : CoinData)], fee := 0,
  covenants := [], data := [], sigs := [], hash := [3], rawLen := 0, covHashes := [] }

/-- genesis (`ReachWitness.cfg`: one coin of 5 MEL), then the batch `[u, f]`: the swap `u` of Props/Reach.lean
    spending the initial coin, and the faucet `f` -/
def s1 : State := getOk (applyBatch env (genesisState cfg) [u, f] default)
def ss : Sealed := getOk (sealState env s1 none)
def s2 : State := getOk (nextUnsealed env ss)

theorem batch_ok : applyBatch env (genesisState cfg) [u, f] default = .ok s1 := eq_getOk (by decide +kernel)
theorem seal_ok : sealState env s1 none = .ok ss := eq_getOk (by decide +kernel)
theorem next_ok : nextUnsealed env ss = .ok s2 := eq_getOk (by decide +kernel)

theorem batchFresh : BatchFresh (genesisState cfg) [u, f] := by
  refine ⟨by decide, ?_⟩
  intro x hx i
  have hk : ∀ h : Hash, h ≠ zeroHash → (genesisState cfg).coins.getCoin ⟨h, i⟩ = none := by
    intro h hne
    show (CoinMap.insertCoin {} ⟨zeroHash, 0⟩ _ _).getCoin ⟨h, i⟩ = none
    rw [CoinMap.getCoin_insertCoin, if_neg]
    · rfl
    · intro e; injection e with e1; exact hne e1
  simp only [List.mem_cons, List.not_mem_nil, or_false] at hx
  rcases hx with rfl | rfl <;> exact hk _ (by decide)

theorem markerFresh : MarkerFresh env (genesisState cfg) [u, f] := by
  intro x hx hk _ w hw
  simp only [List.mem_cons, List.not_mem_nil, or_false] at hx
  rcases hx with rfl | rfl
  · cases hk
  · have hw' : w = u ∨ w = f := by
      rcases hw with hw | hw
      · simpa using hw
      · exact nomatch hw
    rcases hw' with rfl | rfl <;> decide

theorem rewardFresh : RewardFresh env s1 := by unfold RewardFresh; decide +kernel

theorem bounded : ∀ d, coinsTotal s1.coins d ≤ U128_MAX := by
  intro d
  refine Nat.le_trans (WholeL.Witness.coinsTotal_le_sum _ d) ?_
  decide +kernel

/-- the run: the batch, then the block -/
theorem run : IssRun env (genesisState cfg)
    (fun d => (0 + batchIssuance [u, f] d) + sealAllowance s1 d) s2 :=
  .block (.batch (.refl _) batchFresh markerFresh batch_ok) rewardFresh (by decide +kernel) bounded seal_ok next_ok

end C01HistWitness

/-- non-vacuity of `C01_history` / `C01_history_from_genesis`: a run with one accepted batch (a swap request and a
    faucet transaction) and one sealed block exists from a genesis state; the genesis supply of MEL is 5, the batch
    issues 7 MEL, and after the block (builtin pools created, the swap settled) the MEL supply is within the bound -/
theorem C01_history_nonvacuous :
    ∃ (env : Env) (cfg : GenesisConfig) (iss : Denom → Nat) (s' : State),
      IssRun env (genesisState cfg) iss s' ∧ s'.height = 1 ∧ (∀ k : PoolKey, Denom.mel ≠ liqTokenDenom env k) ∧
      supply (genesisState cfg) .mel = 5 ∧ batchIssuance [C01HistWitness.f] .mel = 7 ∧
      12 < supply s' .mel ∧ supply s' .mel ≤ 5 + iss .mel := by
  open C01HistWitness in
  have hmel : ∀ k : PoolKey, Denom.mel ≠ liqTokenDenom ReachWitness.env k := by intro k e; cases e
  have h1 : s2.height = 1 := by decide +kernel
  have h2 : supply (genesisState ReachWitness.cfg) .mel = 5 := by decide +kernel
  have h3 : batchIssuance [f] .mel = 7 := by decide +kernel
  have h4 : 12 < supply s2 .mel := by decide +kernel
  have h := C01_history_from_genesis ReachWitness.env ReachWitness.cfg s2 _ run .mel hmel
  exact ⟨ReachWitness.env, ReachWitness.cfg, _, s2, run, h1, hmel, h2, h3, h4, h⟩

/-! ### why the u128 bound on the coin totals is a premise of the `block` step -/

namespace C01HistWitness

/-- a swap request of 2^127 MEL against the ERG/MEL pool (`[100]` spells the pool's name) -/
def sw (n : UInt8) : Tx := {
  kind := .swap, inputs := [], outputs := [(⟨[7], 2 ^ 127, .mel, []⟩ : CoinData)], fee := 0,
  covenants := [], data := [100], sigs := [], hash := [n], rawLen := 0, covHashes := [] }

/-- the ERG/MEL pool holds (2^120 ERG, 1 MEL); the block contains four swap requests of 2^127 MEL each, whose coins
    exist as declared: 2^129 MEL in coins, more than a u128 -/
def big : State := {
  network := .custom02, height := 10, history := [],
  coins := { coins := [(⟨[2], 0⟩, ⟨⟨[7], 2 ^ 127, .mel, []⟩, 10⟩), (⟨[3], 0⟩, ⟨⟨[7], 2 ^ 127, .mel, []⟩, 10⟩),
                       (⟨[4], 0⟩, ⟨⟨[7], 2 ^ 127, .mel, []⟩, 10⟩), (⟨[5], 0⟩, ⟨⟨[7], 2 ^ 127, .mel, []⟩, 10⟩)],
             counts := [([7], 4)] },
  txs := [sw 2, sw 3, sw 4, sw 5], feePool := 0, feeMultiplier := 0, tips := 0, doscSpeed := 0,
  pools := [(poolMelErg, ⟨2 ^ 120, 1, 0, 1⟩)], stakes := [] }

theorem big_faithful : Faithful big := by
  intro tx htx i o c ho hc
  have hcoin : ∀ n : UInt8, n ∈ [2, 3, 4, 5] →
      big.coins.getCoin ⟨(sw n).hash, 0⟩ = some ⟨⟨[7], 2 ^ 127, .mel, []⟩, 10⟩ := by decide
  have hmem : ∃ n : UInt8, n ∈ [2, 3, 4, 5] ∧ tx = sw n := by
    simp only [big, List.mem_cons, List.not_mem_nil, or_false] at htx
    rcases htx with rfl | rfl | rfl | rfl
    · exact ⟨2, by decide, rfl⟩
    · exact ⟨3, by decide, rfl⟩
    · exact ⟨4, by decide, rfl⟩
    · exact ⟨5, by decide, rfl⟩
  obtain ⟨n, hn, rfl⟩ := hmem
  match i with
  | 0 =>
    simp only [sw, List.getElem?_cons_zero, Option.some.injEq] at ho
    subst ho
    rw [hcoin n hn] at hc
    cases hc
    exact ⟨rfl, rfl⟩
  | k + 1 => simp [sw] at ho

end C01HistWitness

/-- **the u128 bound on the coin totals cannot be dropped from the seal step**: the state `big` meets every
    hypothesis of `C01_seal_whole` except `SealPre.bounded` (its four swap requests bring 2^129 MEL, and `satSum`
    clamps their total to u128::MAX), and sealing it DOUBLES the ERG in existence: each request is paid
    `withdrawn · 2^127 / (2^128 − 1)`, about half of what the pool gives up, four times over.
    (The state is not reachable — a transaction output is at most 2^120 — but more than 2^8 requests of 2^120 each,
    funded by faucets off mainnet, saturate the same sum; hence the premise in `IssRun.block`.) -/
theorem C01_seal_unbounded_counterexample :
    ∃ (env : Env) (s : State) (ss : Sealed), sealState env s none = .ok ss ∧
      (s.coins.coins.map (·.1)).Nodup ∧ (s.pools.map (·.1)).Nodup ∧ (s.txs.map (·.hash)).Nodup ∧ Faithful s ∧
      legacyDeposit s = false ∧ RewardFresh env s ∧ (∀ k : PoolKey, Denom.erg ≠ liqTokenDenom env k) ∧
      2 ^ 129 ≤ coinsTotal s.coins .mel ∧
      supply s .erg + sealAllowance s .erg < supply ss.st .erg := by
  open C01HistWitness in
  have hv : (match sealState WholeL.Witness.env big none with
      | .ok ss => decide (supply big .erg + sealAllowance big .erg < supply ss.st .erg)
      | _ => false) = true := by decide +kernel
  cases hs : sealState WholeL.Witness.env big none with
  | reject e => rw [hs] at hv; cases hv
  | crash c => rw [hs] at hv; cases hv
  | ok ss =>
    rw [hs] at hv
    have hr : RewardFresh WholeL.Witness.env big := by unfold RewardFresh; decide
    have herg : ∀ k : PoolKey, Denom.erg ≠ liqTokenDenom WholeL.Witness.env k := by intro k e; cases e
    exact ⟨WholeL.Witness.env, big, ss, hs, by decide, by decide, by decide, big_faithful, by decide, hr,
      herg, by decide +kernel, of_decide_eq_true hv⟩

/-! ### non-vacuity of the closed-run theorems -/

namespace C01HistWitness
open ReachWitness

/-- genesis, then the batch `[u]` (a swap request, no faucet / mint / new token), then the block -/
def c1 : State := getOk (applyBatch env (genesisState cfg) [u] default)
def cs : Sealed := getOk (sealState env c1 none)
def c2 : State := getOk (nextUnsealed env cs)

theorem cbatch_ok : applyBatch env (genesisState cfg) [u] default = .ok c1 := eq_getOk (by decide +kernel)
theorem cseal_ok : sealState env c1 none = .ok cs := eq_getOk (by decide +kernel)
theorem cnext_ok : nextUnsealed env cs = .ok c2 := eq_getOk (by decide +kernel)

theorem cbatchFresh : BatchFresh (genesisState cfg) [u] := by
  refine ⟨by decide, ?_⟩
  intro x hx i
  simp only [List.mem_cons, List.not_mem_nil, or_false] at hx
  subst hx
  exact C01HistWitness.batchFresh.fresh u List.mem_cons_self i

theorem cmarkerFresh : MarkerFresh env (genesisState cfg) [u] := by
  intro x hx hk
  simp only [List.mem_cons, List.not_mem_nil, or_false] at hx
  subst hx
  cases hk

theorem cclosed : ClosedBatch [u] := by
  intro x hx
  simp only [List.mem_cons, List.not_mem_nil, or_false] at hx
  subst hx
  refine ⟨by decide, by decide, ?_⟩
  intro o ho
  simp only [u, List.mem_cons, List.not_mem_nil, or_false] at ho
  subst ho
  decide

theorem cbounded : ∀ d, coinsTotal c1.coins d ≤ U128_MAX := by
  intro d
  refine Nat.le_trans (WholeL.Witness.coinsTotal_le_sum _ d) ?_
  decide +kernel

theorem crun : ClosedRun env (genesisState cfg)
    (fun d => 0 + (builtinsCreated c1 d + recreated env c1 d)) c2 :=
  .block (.batch (.refl _) cbatchFresh cmarkerFresh cclosed cbatch_ok)
    (by unfold RewardFresh; decide +kernel) (by decide +kernel) cbounded cseal_ok cnext_ok

end C01HistWitness

/-- non-vacuity of `C01_history_closed`: a closed run with a batch and a block exists from a genesis state; no ERG
    exists at genesis, the run records the 2·10^9 ERG of the two builtin ERG pools, and slightly less ERG than that
    exists afterwards (the TIP-909 subsidy swaps SYM into the ERG/SYM pool and the ERG it takes out goes nowhere) -/
theorem C01_history_closed_nonvacuous :
    ∃ (env : Env) (cfg : GenesisConfig) (rec : Denom → Nat) (s' : State),
      ClosedRun env (genesisState cfg) rec s' ∧ s'.height = 1 ∧ supply (genesisState cfg) .erg = 0 ∧
      rec .erg = 2000000000 ∧ supply s' .erg = 1999995925 := by
  open C01HistWitness in
  have h1 : c2.height = 1 := by decide +kernel
  have h2 : supply (genesisState ReachWitness.cfg) .erg = 0 := by decide +kernel
  have h3 : 0 + (builtinsCreated c1 .erg + recreated ReachWitness.env c1 .erg) = 2000000000 := by decide +kernel
  have h4 : supply c2 .erg = 1999995925 := by decide +kernel
  exact ⟨ReachWitness.env, ReachWitness.cfg, _, c2, crun, h1, h2, h3, h4⟩

end Mel

#print axioms Mel.C01_reachable_faithful
#print axioms Mel.C01_sealPre_reachable
#print axioms Mel.IssRun.reachable
#print axioms Mel.C01_history
#print axioms Mel.C01_history_closed
#print axioms Mel.C01_history_closed_custom
#print axioms Mel.C01_genesis_supply
#print axioms Mel.C01_history_from_genesis
#print axioms Mel.C01_history_nonvacuous
#print axioms Mel.C01_seal_unbounded_counterexample
#print axioms Mel.C01_history_closed_nonvacuous
