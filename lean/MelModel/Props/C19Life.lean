/-
  C19, over histories — a (non-grandfathered) faucet transaction is never accepted a second time, however many
  batches and blocks lie in between: its de-duplication marker, once inserted, survives every accepted batch, every
  seal and every block opening, and while the marker exists the transaction is rejected.
  Property theorems only; helper lemmas live in MelModel/Lemmas/FLifeL.lean (reuse Lemmas/Faucet.lean and the
  theorems of Props/C19.lean).

  Domain separation enters as explicit hypotheses of the run (they are facts about keyed hashes, not about the state
  machine): no transaction of a later batch or block has a hash equal to the marker's id hash (otherwise its outputs
  or, at sealing, its rewritten pool-request outputs would land on the marker's slot), no covenant hashes to the zero
  address (so the marker cannot be spent), and the proposer-reward id of a block is not the marker's id.
-/
import MelModel.Chain
import MelModel.Props.C19
import MelModel.Lemmas.FLifeL
namespace Mel
open Mel.Gen

/-- a run of the chain that stays clear of the coin id `m`: no transaction applied on the way has `m.txhash` as its
    hash or carries a covenant hashing to the zero address, and no block's proposer-reward id is `m` -/
inductive RunClearOf (env : Env) (m : CoinID) : State → State → Prop
  | refl (s : State) : RunClearOf env m s s
  | batch {s x s' : State} {txs : List Tx} {fb : Header} : RunClearOf env m s x →
      (∀ t ∈ txs, t.hash ≠ m.txhash ∧ zeroHash ∉ t.covHashes) →
      applyBatch env x txs fb = .ok s' → RunClearOf env m s s'
  | block {s x s' : State} {ss : Sealed} {a : Option ProposerAction} : RunClearOf env m s x →
      (∀ t ∈ x.txs, t.hash ≠ m.txhash) → env.rewardId x.height ≠ m.txhash →
      sealState env x a = .ok ss → nextUnsealed env ss = .ok s' → RunClearOf env m s s'

/-- the marker coin written by `handle_faucet_tx` -/
def faucetMarkerCoin : CoinDataHeight :=
  { coinData := { denom := .mel, value := 0, additionalData := [], covhash := zeroHash }, height := 0 }

/-- sealing does not touch a coin that sits at no output slot of the block's transactions and is not the reward coin -/
theorem C19_seal_keeps_coin (env : Env) (s : State) (a : Option ProposerAction) (ss : Sealed)
    (h : sealState env s a = .ok ss) (m : CoinID) (c : CoinDataHeight) (hm : s.coins.getCoin m = some c)
    (hclear : ∀ t ∈ s.txs, t.hash ≠ m.txhash) (hrew : env.rewardId s.height ≠ m.txhash) :
    ss.st.coins.getCoin m = some c := by
  rw [FLifeL.sealState_getCoin h hclear hrew]
  exact hm

/-- opening the next block does not touch any coin -/
theorem C19_next_keeps_coin (env : Env) (ss : Sealed) (s' : State) (h : nextUnsealed env ss = .ok s')
    (m : CoinID) : s'.coins.getCoin m = ss.st.coins.getCoin m :=
  FLifeL.nextUnsealed_getCoin h m

/-- **a marker, once present, is present forever** -/
theorem C19_marker_forever (env : Env) (m : CoinID) (s s' : State) (hrun : RunClearOf env m s s')
    (hm : s.coins.getCoin m = some faucetMarkerCoin) : s'.coins.getCoin m = some faucetMarkerCoin := by
  induction hrun with
  | refl => exact hm
  | batch _ hclear hb ih =>
    exact C19_marker_unspendable env _ _ _ _ hb m faucetMarkerCoin ih rfl (fun t ht => (hclear t ht).2)
      (fun t ht e => (hclear t ht).1 e.symm)
  | block _ hclear hrew hs hn ih =>
    rw [C19_next_keeps_coin env _ _ hn m]
    exact C19_seal_keeps_coin env _ _ _ hs m faucetMarkerCoin ih hclear hrew

/-- **no second acceptance, ever**: after a batch containing the (non-grandfathered) faucet transaction `tx` has
    been accepted, no batch containing `tx` is accepted in any later state of the chain -/
theorem C19_never_again (env : Env) (s₀ s s' : State) (txs₀ : List Tx) (fb₀ : Header) (tx : Tx)
    (h₀ : applyBatch env s₀ txs₀ fb₀ = .ok s) (htx : tx ∈ txs₀) (hk : tx.kind = .faucet)
    (hng : env.isGrandfathered tx.hash = false) (hsep₀ : ∀ t ∈ txs₀, markerOf env tx ∉ t.inputs)
    (hrun : RunClearOf env (markerOf env tx) s s')
    (txs : List Tx) (fb : Header) (htx' : tx ∈ txs) (hsep : ∀ t ∈ txs, markerOf env tx ∉ t.inputs) :
    ∀ s'', applyBatch env s' txs fb ≠ .ok s'' := by
  have hm : s.coins.getCoin (markerOf env tx) = some faucetMarkerCoin :=
    FLifeL.applyBatch_marker h₀ htx hk hng hsep₀
  have hm' := C19_marker_forever env (markerOf env tx) s s' hrun hm
  exact C19_duplicate_rejected env s' txs fb tx htx' hk (by rw [hm']; rfl) hsep

/-- … in particular the transaction by itself is rejected with `DuplicateTx` -/
theorem C19_never_again_error (env : Env) (s₀ s s' : State) (txs₀ : List Tx) (fb₀ fb : Header) (tx : Tx)
    (h₀ : applyBatch env s₀ txs₀ fb₀ = .ok s) (htx : tx ∈ txs₀) (hk : tx.kind = .faucet)
    (hng : env.isGrandfathered tx.hash = false) (hsep₀ : ∀ t ∈ txs₀, markerOf env tx ∉ t.inputs)
    (hrun : RunClearOf env (markerOf env tx) s s')
    (hnet : s'.network ≠ .mainnet) (hwf : tx.isWellFormed = true ∧ tx.melTotalFits = true) (hin : tx.inputs = []) :
    applyBatch env s' [tx] fb = .reject .duplicateTx := by
  have hm : s.coins.getCoin (markerOf env tx) = some faucetMarkerCoin :=
    FLifeL.applyBatch_marker h₀ htx hk hng hsep₀
  have hm' := C19_marker_forever env (markerOf env tx) s s' hrun hm
  -- the covenant weights fit: the transaction has been accepted once (`h₀`), so it passed `loadRelevantCoins`
  have hcw : tx.covWeightsFit = true := FLifeL.applyBatch_covWeightsFit h₀ htx
  exact C19_duplicate_error env s' tx fb hk (by rw [hm']; rfl) (.inl hnet) hwf hcw hin

/-- non-vacuity: a run with a batch and a block after the faucet's batch exists and meets the hypotheses -/
theorem C19_never_again_nonvacuous :
    ∃ (env : Env) (s₀ s s' : State) (tx : Tx) (fb : Header),
      applyBatch env s₀ [tx] fb = .ok s ∧ tx.kind = .faucet ∧ env.isGrandfathered tx.hash = false ∧
      RunClearOf env (markerOf env tx) s s' ∧ s.height < s'.height := by
  open FLifeL.Witness in
  refine ⟨env, s0, s1, s2, t, default, batch_ok, rfl, rfl, ?_, heights⟩
  refine .block (.batch (.refl s1) ?_ batch2_ok) s1b_txs (by decide) seal_ok next_ok
  intro x hx
  simp only [List.mem_cons, List.not_mem_nil, or_false] at hx
  subst hx
  decide

end Mel

#print axioms Mel.C19_seal_keeps_coin
#print axioms Mel.C19_next_keeps_coin
#print axioms Mel.C19_marker_forever
#print axioms Mel.C19_never_again
#print axioms Mel.C19_never_again_error
#print axioms Mel.C19_never_again_nonvacuous
