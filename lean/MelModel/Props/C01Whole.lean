/-
  C01, the whole block — conservation of every denomination across a complete block (all batches, the seal with
  or without a proposer action, the opening of the next block), with every issuance rule of the protocol as an
  explicit, bounded allowance.  Property theorems only; helper lemmas live in MelModel/Lemmas/WholeL.lean (which
  may build on Lemmas/Supply.lean and Lemmas/SupplySeal.lean; reuse the theorems of Props/C01.lean, C01Seal.lean).

  The allowances (everything else is conserved or destroyed):
  * batch level (`batchIssuance`, Props/C01.lean): faucet outputs and fee, a transaction's own new token, minted ERG;
  * builtin pools created on first use, or afresh once they record no liquidity: 10^9 of each side, nobody-owned
    (`C01_builtins`, sharp: `C01_builtins_sharp` / `builtinsCreated`). Since the `fix:` for finding F24 there are TWO
    creation points per seal: before the settlement (`builtinsCreated s`) and again after the withdrawal phase, for
    a builtin pool this block's withdrawals emptied (`recreated env s = builtinsCreated (settled env s)`);
  * the peg adjustment of the MEL/SYM pool: at most 1/throttler of the gap to the desired reserve, on ONE side per
    step (`pegAllowance`);
  * the TIP-909 subsidy: SYM only, 2^SUBSIDY_LOG2 halving every SUBSIDY_HALVING blocks (`C01_subsidy`);
  * the proposer reward: moved out of the fee pool and the tips, not created (`C01_reward`).
-/
import MelModel.Seal
import MelModel.Chain
import MelModel.SupplyDefs
import MelModel.Props.C01
import MelModel.Props.C01Seal
import MelModel.Lemmas.WholeL
import MelModel.Props.C16
namespace Mel
open Mel.Gen

/-- what the peg adjustment may add to the supply of `d` in state `s` (the state pegging starts from): the MEL/SYM
    pool is pushed towards the desired reserves by swapping in freshly created MEL (or SYM) worth at most
    1/throttler of the gap; the other side only shrinks -/
def pegAllowance (s : State) (d : Denom) : Nat :=
  match s.pools.get poolMelSym with
  | none => 0
  | some sm =>
    let throttler := if s.tip902 then THROTTLER_902 else THROTTLER_PRE
    if d = .mel ∨ d = .sym then U128_MAX / throttler else 0

/-- **the peg adjustment is bounded and local**: it changes nothing but the MEL/SYM pool, creates no denomination
    other than MEL and SYM, and creates at most `U128_MAX / throttler` of those -/
theorem C01_pegging_bounded (s s' : State) (h : processPegging s = .ok s') (hk : (s.pools.map (·.1)).Nodup)
    (d : Denom) : supply s' d ≤ supply s d + pegAllowance s d := by
  obtain ⟨sm, sm2, hget, _, _, _⟩ := WholeL.pegging_shape s s' h
  have := WholeL.pegging_supply s s' h hk d
  unfold pegAllowance
  rw [hget]
  exact this

/-- the sharper form: each step creates at most (desired − current) / throttler on its side -/
theorem C01_pegging_step (sm sm' : PoolState) (delta throttler lw rw : Nat)
    (h : sm.swapMany (delta / throttler) 0 = .ok (sm', lw, rw)) :
    sm'.lefts ≤ sm.lefts + delta / throttler ∧ sm'.rights ≤ sm.rights := by
  exact WholeL.swapLeft_le h

/-- what the second `create_builtins` of a seal (after the withdrawal phase, `fix:` for finding F24) creates of `d`:
    the default reserves of each builtin pool that this block's settlement left absent or without liquidity -/
def recreated (env : Env) (s : State) (d : Denom) : Nat := builtinsCreated (settled env s) d

/-- what sealing may add to the supply of `d`, for a state `s` about to be sealed. CHANGED with the `fix:` for finding
    F24: the builtin-pool term occurs twice — once for the pools `create_builtins` makes before the settlement, once
    for those it makes again after the withdrawal phase (sharp amounts: `C01_seal_whole_sharp`) -/
def sealAllowance (s : State) (d : Denom) : Nat :=
  3 * (2 * (MICRO_CONVERTER * BUILTIN_LIQ_MULT)) + 3 * (2 * (MICRO_CONVERTER * BUILTIN_LIQ_MULT)) +
  (if d = .mel ∨ d = .sym then U128_MAX / (if s.tip902 then THROTTLER_902 else THROTTLER_PRE) else 0) +
  (if d = .sym ∧ s.tip909 = true then 2 ^ SUBSIDY_LOG2 / 2 ^ ((s.height - TIP_909_HEIGHT) / SUBSIDY_HALVING) else 0)

/-- **conservation across sealing**: for every denomination that is not a liquidity token (those are covered by
    `C16_backed_seal`), the supply after `sealState` — with or without a proposer action — exceeds the supply before
    by at most the seal allowance -/
theorem C01_seal_whole (env : Env) (s : State) (a : Option ProposerAction) (ss : Sealed)
    (h : sealState env s a = .ok ss) (hp : SealPre s) (hl : legacyDeposit s = false)
    (hfresh : s.coins.getCoin { txhash := env.rewardId s.height, index := 0 } = none)
    (d : Denom) (hd : ∀ k : PoolKey, d ≠ liqTokenDenom env k) :
    supply ss.st d ≤ supply s d + sealAllowance s d := by
  have h1 := WholeL.seal_sharp env s a ss h hp hl hfresh d hd
  have h2 := (C01_builtins s d hp.poolKeys).1
  have h3 : WholeL.recreatedPart env s d ≤ 3 * (2 * (MICRO_CONVERTER * BUILTIN_LIQ_MULT)) :=
    Nat.le_trans (builtinsCreated_le _ d) (by omega)
  rw [WholeL.midPart_eq] at h1
  unfold sealAllowance
  omega

/-- the same with the two builtin-pool terms exact: what the first `create_builtins` makes (`builtinsCreated s d`),
    what the second one makes after the withdrawal phase (`recreated env s d`), the peg adjustment, the subsidy -/
theorem C01_seal_whole_sharp (env : Env) (s : State) (a : Option ProposerAction) (ss : Sealed)
    (h : sealState env s a = .ok ss) (hp : SealPre s) (hl : legacyDeposit s = false)
    (hfresh : s.coins.getCoin { txhash := env.rewardId s.height, index := 0 } = none)
    (d : Denom) (hd : ∀ k : PoolKey, d ≠ liqTokenDenom env k) :
    supply ss.st d ≤ supply s d + builtinsCreated s d + recreated env s d +
      (if d = .mel ∨ d = .sym then U128_MAX / (if s.tip902 then THROTTLER_902 else THROTTLER_PRE) else 0) +
      (if d = .sym ∧ s.tip909 = true then
        2 ^ SUBSIDY_LOG2 / 2 ^ ((s.height - TIP_909_HEIGHT) / SUBSIDY_HALVING) else 0) := by
  have h1 := WholeL.seal_sharp env s a ss h hp hl hfresh d hd
  have h2 := C01_builtins_sharp s d hp.poolKeys
  rw [WholeL.midPart_eq] at h1
  unfold recreated
  unfold WholeL.recreatedPart at h1
  omega

/-- each of the two creation terms is at most `2 · 10^9` (a denomination sits on one side of two builtin pools), and
    zero for every denomination other than MEL, SYM, ERG -/
theorem C01_recreated_le (env : Env) (s : State) (d : Denom) :
    recreated env s d ≤ 2 * (MICRO_CONVERTER * BUILTIN_LIQ_MULT) := builtinsCreated_le _ d

/-- **conservation across a whole block**: one batch, the seal, the opening of the next block -/
theorem C01_block_whole (env : Env) (s s₁ s₂ : State) (txs : List Tx) (fb : Header) (a : Option ProposerAction)
    (ss : Sealed)
    (hb : applyBatch env s txs fb = .ok s₁) (hs : sealState env s₁ a = .ok ss)
    (hn : nextUnsealed env ss = .ok s₂)
    (hk : (s.coins.coins.map (·.1)).Nodup) (hp : SealPre s₁) (hl : legacyDeposit s₁ = false)
    (hfresh : s₁.coins.getCoin { txhash := env.rewardId s₁.height, index := 0 } = none)
    (d : Denom) (hd : ∀ k : PoolKey, d ≠ liqTokenDenom env k) :
    supply s₂ d ≤ supply s d + batchIssuance txs d + sealAllowance s₁ d := by
  have h1 := C01_apply env s s₁ txs fb hb hk d
  have h2 := C01_seal_whole env s₁ a ss hs hp hl hfresh d hd
  rw [WholeL.nextUnsealed_supply env ss s₂ hn d]
  omega

/-- in particular: a block without faucet / mint / new-token transactions on a chain where the builtin pools
    exist and record liquidity (an emptied builtin pool is created afresh since the `fix:` for F23, which adds its
    nobody-owned 10^9 of each side), for a denomination other than MEL, SYM and liquidity tokens, creates nothing
    but `recreated env s₁ d`: the default reserves of a builtin pool that this very block's withdrawals emptied and
    the second `create_builtins` made afresh.
    RESTATED with the `fix:` for finding F24 (the former conclusion `supply s₂ d ≤ supply s d` is false now: a block
    that redeems the whole liquidity of the ERG/SYM pool pays its reserves out AND gets a fresh pool, 10^9 ERG more);
    `C01_block_closed_kept` below is the former statement under the extra hypothesis that no builtin pool is emptied -/
theorem C01_block_closed (env : Env) (s s₁ s₂ : State) (txs : List Tx) (fb : Header) (a : Option ProposerAction)
    (ss : Sealed)
    (hb : applyBatch env s txs fb = .ok s₁) (hs : sealState env s₁ a = .ok ss)
    (hn : nextUnsealed env ss = .ok s₂)
    (hk : (s.coins.coins.map (·.1)).Nodup) (hp : SealPre s₁) (hl : legacyDeposit s₁ = false)
    (hfresh : s₁.coins.getCoin { txhash := env.rewardId s₁.height, index := 0 } = none)
    (hc : ∀ tx ∈ txs, tx.kind ≠ .faucet ∧ tx.kind ≠ .doscMint ∧ ∀ o ∈ tx.outputs, o.denom ≠ .newCustom)
    (hbuilt : ∀ k ∈ [poolMelSym, poolMelErg, poolErgSym], ∃ p, s₁.pools.get k = some p ∧ p.liqs ≠ 0)
    (d : Denom) (hd : ∀ k : PoolKey, d ≠ liqTokenDenom env k) (hmel : d ≠ .mel) (hsym : d ≠ .sym) :
    supply s₂ d ≤ supply s d + recreated env s₁ d := by
  have h1 := C01_apply_closed env s s₁ txs fb hb hk hc d
  have h2 := WholeL.seal_sharp env s₁ a ss hs hp hl hfresh d hd
  rw [WholeL.createBuiltins_noop s₁ hbuilt, WholeL.midPart_zero s₁ d hmel hsym] at h2
  rw [WholeL.nextUnsealed_supply env ss s₂ hn d]
  unfold recreated
  unfold WholeL.recreatedPart at h2
  omega

/-- the former `C01_block_closed`: when moreover the settlement of the block leaves the builtin pools with liquidity
    (no withdrawal of this block redeems a builtin pool's whole liquidity), nothing at all is created -/
theorem C01_block_closed_kept (env : Env) (s s₁ s₂ : State) (txs : List Tx) (fb : Header) (a : Option ProposerAction)
    (ss : Sealed)
    (hb : applyBatch env s txs fb = .ok s₁) (hs : sealState env s₁ a = .ok ss)
    (hn : nextUnsealed env ss = .ok s₂)
    (hk : (s.coins.coins.map (·.1)).Nodup) (hp : SealPre s₁) (hl : legacyDeposit s₁ = false)
    (hfresh : s₁.coins.getCoin { txhash := env.rewardId s₁.height, index := 0 } = none)
    (hc : ∀ tx ∈ txs, tx.kind ≠ .faucet ∧ tx.kind ≠ .doscMint ∧ ∀ o ∈ tx.outputs, o.denom ≠ .newCustom)
    (hbuilt : ∀ k ∈ [poolMelSym, poolMelErg, poolErgSym], ∃ p, s₁.pools.get k = some p ∧ p.liqs ≠ 0)
    (hkept : ∀ k ∈ [poolMelSym, poolMelErg, poolErgSym], ∃ p, (settled env s₁).pools.get k = some p ∧ p.liqs ≠ 0)
    (d : Denom) (hd : ∀ k : PoolKey, d ≠ liqTokenDenom env k) (hmel : d ≠ .mel) (hsym : d ≠ .sym) :
    supply s₂ d ≤ supply s d := by
  have h := C01_block_closed env s s₁ s₂ txs fb a ss hb hs hn hk hp hl hfresh hc hbuilt d hd hmel hsym
  unfold recreated at h
  rw [builtinsCreated_zero _ d hkept] at h
  exact h

/-- why the second creation term cannot be dropped (and why the former conclusion of `C01_block_closed` is false since
    the `fix:` for finding F24): sealing `drainedErgSymState` (Props/C16.lean — all three builtin pools exist with
    liquidity, the block redeems the ERG/SYM pool's whole liquidity) leaves MORE ERG than before: the 5000 ERG of the
    old pool are paid out to the withdrawer and a fresh pool with 10^9 ERG is made; `recreated` is exactly that 10^9 -/
theorem C01_recreation_witness :
    ∃ ss, sealState drainEnv (drainedErgSymState drainEnv) none = .ok ss ∧
      supply (drainedErgSymState drainEnv) .erg = 1000005000 ∧ supply ss.st .erg = 2000000925 ∧
      builtinsCreated (drainedErgSymState drainEnv) .erg = 0 ∧
      recreated drainEnv (drainedErgSymState drainEnv) .erg = 1000000000 := by
  have hv : (match sealState drainEnv (drainedErgSymState drainEnv) none with
      | .ok ss => decide (supply (drainedErgSymState drainEnv) .erg = 1000005000 ∧ supply ss.st .erg = 2000000925 ∧
          builtinsCreated (drainedErgSymState drainEnv) .erg = 0 ∧
          recreated drainEnv (drainedErgSymState drainEnv) .erg = 1000000000)
      | _ => false) = true := by decide +kernel
  cases hs : sealState drainEnv (drainedErgSymState drainEnv) none with
  | ok ss => rw [hs] at hv; exact ⟨ss, rfl, of_decide_eq_true hv⟩
  | reject e => rw [hs] at hv; cases hv
  | crash c => rw [hs] at hv; cases hv

/-- the proposer reward is paid out of the fee pool and the tips: sealing with an action and sealing without one
    end with the same total supply of every denomination -/
theorem C01_action_neutral (env : Env) (s : State) (a : ProposerAction) (ss ss' : Sealed)
    (h : sealState env s (some a) = .ok ss) (h' : sealState env s none = .ok ss')
    (hk : (s.coins.coins.map (·.1)).Nodup)
    (hfresh : s.coins.getCoin { txhash := env.rewardId s.height, index := 0 } = none)
    (d : Denom) : supply ss.st d = supply ss'.st d := by
  obtain ⟨s1, s2, h1, h2, h3⟩ := WholeL.sealState_ok h
  obtain ⟨s1', s2', h1', h2', h3'⟩ := WholeL.sealState_ok h'
  have e1 : s1' = s1 := Outcome.ok.inj (h1'.symm.trans h1)
  subst e1
  have e2 : s2' = s2 := Outcome.ok.inj (h2'.symm.trans h2)
  subst e2
  have hi := WholeL.seal_winv hk h1 h2
  rw [WholeL.seal_action hi hfresh h3 d, WholeL.seal_action hi hfresh h3' d]

/-- non-vacuity: a concrete state with a pool and a swap request satisfies the hypotheses of `C01_seal_whole` -/
theorem C01_seal_whole_nonvacuous :
    ∃ (env : Env) (s : State) (ss : Sealed), sealState env s none = .ok ss ∧ SealPre s ∧ legacyDeposit s = false ∧
      s.txs ≠ [] ∧ s.coins.getCoin { txhash := env.rewardId s.height, index := 0 } = none := by
  open WholeL.Witness in
  cases hss : sealState env st none with
  | reject e => have := seals; rw [hss] at this; cases this
  | crash c => have := seals; rw [hss] at this; cases this
  | ok ss =>
    exact ⟨env, st, ss, hss, sealPre_st, by decide, by simp [st], rfl⟩

end Mel

#print axioms Mel.C01_pegging_bounded
#print axioms Mel.C01_pegging_step
#print axioms Mel.C01_seal_whole
#print axioms Mel.C01_seal_whole_sharp
#print axioms Mel.C01_recreated_le
#print axioms Mel.C01_block_whole
#print axioms Mel.C01_block_closed
#print axioms Mel.C01_block_closed_kept
#print axioms Mel.C01_recreation_witness
#print axioms Mel.C01_action_neutral
#print axioms Mel.C01_seal_whole_nonvacuous
