/-
  C07 — Headers commit to the whole state and chain together; contents are provable.
  Property theorems only; helper lemmas live in MelModel/Lemmas/MerkleL.lean (chain part: Props/C07Chain.lean).
-/
import MelModel.Chain
import MelModel.Merkle
import MelModel.Lemmas.MerkleL
namespace Mel
open Mel.Merkle

/-! ### sparse Merkle tree: the root is a function of the content; proofs are complete and sound -/

/-- the root computed by the tree algorithm is the root of the content -/
theorem C07_root_of_content (H : Hashers) (n : Nat) (t : Tree) (h : t.WF n) : t.hash H = rootOf H n t.get := by
  exact Tree.hash_eq_rootOf H n t h

theorem C07_insert_wf (n : Nat) (t : Tree) (k : List Bool) (v : Bytes) (h : t.WF n) (hk : k.length = n) :
    (t.insert k v).WF n := by
  exact Tree.insert_wf n t k v h hk

/-- insertion is a map update (inserting the empty value deletes) -/
theorem C07_get_insert (n : Nat) (t : Tree) (k k' : List Bool) (v : Bytes) (h : t.WF n) (hk : k.length = n)
    (hk' : k'.length = n) : (t.insert k v).get k' = if k' = k then v else t.get k' := by
  exact Tree.get_insert n t k k' v h hk hk'

/-- equal contents reached by different operation orders give equal roots -/
theorem C07_equal_content_equal_root (H : Hashers) (n : Nat) (t₁ t₂ : Tree) (h₁ : t₁.WF n) (h₂ : t₂.WF n)
    (hc : ∀ k, k.length = n → t₁.get k = t₂.get k) : t₁.hash H = t₂.hash H := by
  rw [C07_root_of_content H n t₁ h₁, C07_root_of_content H n t₂ h₂]
  exact rootOf_congr H n _ _ hc

theorem C07_insert_commute (H : Hashers) (n : Nat) (t : Tree) (k₁ k₂ : List Bool) (v₁ v₂ : Bytes) (h : t.WF n)
    (h₁ : k₁.length = n) (h₂ : k₂.length = n) (hne : k₁ ≠ k₂) :
    ((t.insert k₁ v₁).insert k₂ v₂).hash H = ((t.insert k₂ v₂).insert k₁ v₁).hash H := by
  have w₁ := C07_insert_wf n t k₁ v₁ h h₁
  have w₂ := C07_insert_wf n t k₂ v₂ h h₂
  apply C07_equal_content_equal_root H n _ _ (C07_insert_wf n _ k₂ v₂ w₁ h₂) (C07_insert_wf n _ k₁ v₁ w₂ h₁)
  intro k hk
  rw [C07_get_insert n _ k₂ k v₂ w₁ h₂ hk, C07_get_insert n _ k₁ k v₁ h h₁ hk,
    C07_get_insert n _ k₁ k v₁ w₂ h₁ hk, C07_get_insert n _ k₂ k v₂ h h₂ hk]
  by_cases e₁ : k = k₁
  · subst e₁; simp [hne]
  · simp [e₁]

theorem C07_delete_restores (H : Hashers) (n : Nat) (t : Tree) (k : List Bool) (v : Bytes) (h : t.WF n)
    (hk : k.length = n) (habs : t.get k = []) : ((t.insert k v).insert k []).hash H = t.hash H := by
  have w := C07_insert_wf n t k v h hk
  apply C07_equal_content_equal_root H n _ _ (C07_insert_wf n _ k [] w hk) h
  intro k' hk'
  rw [C07_get_insert n _ k k' [] w hk hk', C07_get_insert n _ k k' v h hk hk']
  by_cases e : k' = k
  · simp [e, habs]
  · simp [e]

/-- completeness: the generated proof verifies, for present keys (their value) and absent keys (the empty value) -/
theorem C07_proof_complete (H : Hashers) (n : Nat) (t : Tree) (k : List Bool) (h : t.WF n) (hk : k.length = n) :
    verify H (t.hash H) k (t.get k) (t.prove H k) = true := by
  exact (verify_iff H _ _ _ _).mpr (Tree.prove_fold H n t k h hk).symm

/-- the hash functions are injective away from the two zero rules -/
structure Injective (H : Hashers) : Prop where
  data_inj : ∀ a b, a ≠ [] → b ≠ [] → H.hData a = H.hData b → a = b
  data_nz : ∀ a, a ≠ [] → H.hData a ≠ Z
  node_inj : ∀ l r l' r', ¬(l = Z ∧ r = Z) → ¬(l' = Z ∧ r' = Z) → H.hNode l r = H.hNode l' r' → l = l' ∧ r = r'
  node_nz : ∀ l r, ¬(l = Z ∧ r = Z) → H.hNode l r ≠ Z

/-- soundness: a proof that verifies against the root proves the key's actual value (so a wrong value, or
    presence of an absent key, cannot be proven) -/
theorem C07_proof_sound (H : Hashers) (hi : Injective H) (n : Nat) (t : Tree) (k : List Bool) (v : Bytes)
    (proof : List Hash) (h : t.WF n) (hk : k.length = n) (hp : proof.length = n)
    (hv : verify H (t.hash H) k v proof = true) : t.get k = v := by
  exact Tree.fold_sound H ⟨hi.data_inj, hi.data_nz, hi.node_inj, hi.node_nz⟩ n t k v proof h hk hp
    ((verify_iff H _ _ _ _).mp hv)

/-- different contents have different roots -/
theorem C07_different_content_different_root (H : Hashers) (hi : Injective H) (n : Nat) (t₁ t₂ : Tree)
    (h₁ : t₁.WF n) (h₂ : t₂.WF n) (hr : t₁.hash H = t₂.hash H) : ∀ k, k.length = n → t₁.get k = t₂.get k := by
  intro k hk
  have hc := C07_proof_complete H n t₁ k h₁ hk
  rw [hr] at hc
  exact (C07_proof_sound H hi n t₂ k (t₁.get k) (t₁.prove H k) h₂ hk (by rw [Tree.prove_length, hk]) hc).symm

/-! ### dense Merkle tree (TIP-908 transaction commitment) -/

theorem C07_dense_complete (H : Hashers) (blocks : List Bytes) (i : Nat) (hi : i < blocks.length) :
    verifyDense H (denseProof H blocks i) (denseRoot H blocks) i (hashData H (blocks.getD i [])) = true := by
  exact dense_complete H blocks i hi

/-! ### non-vacuity: concrete hashers and a concrete tree -/

namespace C07Example

/-- toy hashers from the task statement (tag byte, length byte, concatenation) -/
def H₀ : Hashers := { hData := fun v => 1 :: v, hNode := fun l r => 2 :: (UInt8.ofNat l.length :: l ++ r) }

def k₁ : List Bool := [false, true, false]
def k₂ : List Bool := [true, true, false]
def k₃ : List Bool := [true, false, true]
def kAbs : List Bool := [false, false, false]

def t₀ : Tree := ((Tree.empty.insert k₁ [10]).insert k₂ [20, 21]).insert k₃ [30]

example : t₀.WF 3 := by simp [t₀, k₁, k₂, k₃, Tree.insert, Tree.WF]

/-- the tree verifies its own proofs (present and absent keys) and rejects wrong values -/
example :
    verify H₀ (t₀.hash H₀) k₁ [10] (t₀.prove H₀ k₁) = true ∧
    verify H₀ (t₀.hash H₀) k₂ [20, 21] (t₀.prove H₀ k₂) = true ∧
    verify H₀ (t₀.hash H₀) k₃ [30] (t₀.prove H₀ k₃) = true ∧
    verify H₀ (t₀.hash H₀) kAbs [] (t₀.prove H₀ kAbs) = true ∧
    verify H₀ (t₀.hash H₀) k₁ [11] (t₀.prove H₀ k₁) = false ∧
    verify H₀ (t₀.hash H₀) kAbs [10] (t₀.prove H₀ kAbs) = false ∧
    verify H₀ (t₀.hash H₀) k₁ [] (t₀.prove H₀ k₁) = false := by
  decide

/-- a dense tree over three blocks verifies its proofs and rejects a wrong leaf -/
example :
    verifyDense H₀ (denseProof H₀ [[1], [2], [3]] 2) (denseRoot H₀ [[1], [2], [3]]) 2 (hashData H₀ [3]) = true ∧
    verifyDense H₀ (denseProof H₀ [[1], [2], [3]] 2) (denseRoot H₀ [[1], [2], [3]]) 2 (hashData H₀ [4]) = false := by
  decide

/-- prefix-free encoding of a byte string: every byte is preceded by a `1` marker -/
def enc (l : Bytes) : Bytes := l.flatMap fun x => [1, x]

theorem enc_inj (l l' r r' : Bytes) (h : enc l ++ 0 :: r = enc l' ++ 0 :: r') : l = l' ∧ r = r' := by
  induction l generalizing l' with
  | nil =>
    cases l' with
    | nil => simpa [enc] using h
    | cons x l' => simp [enc] at h
  | cons x l ih =>
    cases l' with
    | nil => simp [enc] at h
    | cons y l' =>
      simp only [enc, List.flatMap_cons, List.cons_append, List.nil_append, List.cons.injEq, true_and] at h
      obtain ⟨hxy, h⟩ := h
      obtain ⟨hl, hr⟩ := ih l' h
      exact ⟨by rw [hxy, hl], hr⟩

/-- hashers that are injective for inputs of every length: the `Injective` hypothesis is satisfiable -/
def H₁ : Hashers := { hData := fun v => 1 :: v, hNode := fun l r => 2 :: (enc l ++ 0 :: r) }

theorem H₁_injective : Injective H₁ where
  data_inj := by intro a b _ _ h; simpa [H₁] using h
  data_nz := by intro a _ h; simp [H₁, Z, zeroHash, List.replicate] at h
  node_inj := by
    intro l r l' r' _ _ h
    simp only [H₁, List.cons.injEq, true_and] at h
    exact enc_inj l l' r r' h
  node_nz := by intro l r _ h; simp [H₁, Z, zeroHash, List.replicate] at h

/-- soundness instantiated: no proof of length 3 can show a wrong value for `k₁` in `t₀` -/
example (proof : List Hash) (hp : proof.length = 3) (v : Bytes)
    (hv : verify H₁ (t₀.hash H₁) k₁ v proof = true) : v = [10] := by
  have hwf : t₀.WF 3 := by simp [t₀, k₁, k₂, k₃, Tree.insert, Tree.WF]
  have := C07_proof_sound H₁ H₁_injective 3 t₀ k₁ v proof hwf rfl hp hv
  rw [← this]; rfl

end C07Example

end Mel

#print axioms Mel.C07_root_of_content
#print axioms Mel.C07_insert_wf
#print axioms Mel.C07_get_insert
#print axioms Mel.C07_equal_content_equal_root
#print axioms Mel.C07_insert_commute
#print axioms Mel.C07_delete_restores
#print axioms Mel.C07_proof_complete
#print axioms Mel.C07_proof_sound
#print axioms Mel.C07_different_content_different_root
#print axioms Mel.C07_dense_complete
