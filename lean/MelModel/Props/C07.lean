/-
  C07 — Headers commit to the whole state and chain together; contents are provable.
  Property theorems only; helper lemmas live in MelModel/Lemmas/MerkleL.lean (chain part: Props/C07Chain.lean).
-/
import MelModel.Chain
import MelModel.Merkle
import MelModel.Lemmas.MerkleL
namespace Mel
open Mel.Merkle

/-! ### sparse Merkle tree: the root is a function of the content; proofs are complete and sound -/

/-- the root computed by the tree algorithm is the root of the content -/
theorem C07_root_of_content (H : Hashers) (n : Nat) (t : Tree) (h : t.WF n) : t.hash H = rootOf H n t.get := by
  sorry

theorem C07_insert_wf (n : Nat) (t : Tree) (k : List Bool) (v : Bytes) (h : t.WF n) (hk : k.length = n) :
    (t.insert k v).WF n := by
  sorry

/-- insertion is a map update (inserting the empty value deletes) -/
theorem C07_get_insert (n : Nat) (t : Tree) (k k' : List Bool) (v : Bytes) (h : t.WF n) (hk : k.length = n)
    (hk' : k'.length = n) : (t.insert k v).get k' = if k' = k then v else t.get k' := by
  sorry

/-- equal contents reached by different operation orders give equal roots -/
theorem C07_equal_content_equal_root (H : Hashers) (n : Nat) (t₁ t₂ : Tree) (h₁ : t₁.WF n) (h₂ : t₂.WF n)
    (hc : ∀ k, k.length = n → t₁.get k = t₂.get k) : t₁.hash H = t₂.hash H := by
  sorry

theorem C07_insert_commute (H : Hashers) (n : Nat) (t : Tree) (k₁ k₂ : List Bool) (v₁ v₂ : Bytes) (h : t.WF n)
    (h₁ : k₁.length = n) (h₂ : k₂.length = n) (hne : k₁ ≠ k₂) :
    ((t.insert k₁ v₁).insert k₂ v₂).hash H = ((t.insert k₂ v₂).insert k₁ v₁).hash H := by
  sorry

theorem C07_delete_restores (H : Hashers) (n : Nat) (t : Tree) (k : List Bool) (v : Bytes) (h : t.WF n)
    (hk : k.length = n) (habs : t.get k = []) : ((t.insert k v).insert k []).hash H = t.hash H := by
  sorry

/-- completeness: the generated proof verifies, for present keys (their value) and absent keys (the empty value) -/
theorem C07_proof_complete (H : Hashers) (n : Nat) (t : Tree) (k : List Bool) (h : t.WF n) (hk : k.length = n) :
    verify H (t.hash H) k (t.get k) (t.prove H k) = true := by
  sorry

/-- the hash functions are injective away from the two zero rules -/
structure Injective (H : Hashers) : Prop where
  data_inj : ∀ a b, a ≠ [] → b ≠ [] → H.hData a = H.hData b → a = b
  data_nz : ∀ a, a ≠ [] → H.hData a ≠ Z
  node_inj : ∀ l r l' r', ¬(l = Z ∧ r = Z) → ¬(l' = Z ∧ r' = Z) → H.hNode l r = H.hNode l' r' → l = l' ∧ r = r'
  node_nz : ∀ l r, ¬(l = Z ∧ r = Z) → H.hNode l r ≠ Z

/-- soundness: a proof that verifies against the root proves the key's actual value (so a wrong value, or
    presence of an absent key, cannot be proven) -/
theorem C07_proof_sound (H : Hashers) (hi : Injective H) (n : Nat) (t : Tree) (k : List Bool) (v : Bytes)
    (proof : List Hash) (h : t.WF n) (hk : k.length = n) (hp : proof.length = n)
    (hv : verify H (t.hash H) k v proof = true) : t.get k = v := by
  sorry

/-- different contents have different roots -/
theorem C07_different_content_different_root (H : Hashers) (hi : Injective H) (n : Nat) (t₁ t₂ : Tree)
    (h₁ : t₁.WF n) (h₂ : t₂.WF n) (hr : t₁.hash H = t₂.hash H) : ∀ k, k.length = n → t₁.get k = t₂.get k := by
  sorry

/-! ### dense Merkle tree (TIP-908 transaction commitment) -/

theorem C07_dense_complete (H : Hashers) (blocks : List Bytes) (i : Nat) (hi : i < blocks.length) :
    verifyDense H (denseProof H blocks i) (denseRoot H blocks) i (hashData H (blocks.getD i [])) = true := by
  sorry

end Mel
