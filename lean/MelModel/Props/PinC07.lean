/-
  C07 — the constants the property's statement (and the recorded deviations) fix, pinned against the values regenerated
  from /repo's source on every run (Generated/Tables.lean): TIP-908 (transaction leaves including the full hash) is active on Custom08 only: its mainnet activation height is `u64::MAX`.
  The model is parametric in these constants, so a changed constant would be followed silently by the model and the
  correspondence; these theorems are what turns such a change into a broken proof obligation.
-/
import MelModel.Generated.Tables
namespace Mel
open Mel.Gen

theorem C07_pin_TIP_908_HEIGHT : TIP_908_HEIGHT = 18446744073709551615 := rfl

end Mel

#print axioms Mel.C07_pin_TIP_908_HEIGHT
