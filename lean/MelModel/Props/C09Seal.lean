/-
  C09 — totality of sealing. Helper lemmas live in MelModel/Lemmas/TotalSeal.lean.
-/
import MelModel.Seal
import MelModel.Lemmas.TotalSeal
import MelModel.Props.C16
namespace Mel
open Mel.Gen

def CountsSoundS (m : CoinMap) : Prop :=
  (m.coins.map (·.1)).Nodup ∧ (m.counts.map (·.1)).Nodup ∧
  (∀ a, m.coinCount a = (m.coins.filter fun e => e.2.coinData.covhash = a).length) ∧ (∀ e ∈ m.counts, e.2 ≠ 0)

/-- what is assumed of a state being sealed -/
structure SealTotalPre (env : Env) (s : State) : Prop where
  /-- once TIP-906 is active the per-covenant counts are sound (C20) -/
  counts : s.tip906 = true → CountsSoundS s.coins
  /-- a coin sitting at an output slot of a transaction of this block is locked by that output's covenant
      (the coin was created from that output by `apply_tx`) -/
  faithfulCov : ∀ tx ∈ s.txs, ∀ i o c, tx.outputs[i]? = some o → s.coins.getCoin ⟨tx.hash, i⟩ = some c →
      c.coinData.covhash = o.covhash
  /-- every pool that has issued liquidity has reserves on both sides (C16). Nothing more is assumed of the builtin
      pools: since the `fix:` for finding F23 one that records no liquidity is created afresh by `create_builtins`
      (the former assumption `builtins`, that an existing builtin pool has reserves and liquidity, is gone) -/
  poolsSane : ∀ k p, s.pools.get k = some p → (p.liqs ≠ 0 → 0 < p.lefts ∧ 0 < p.rights)
  -- (the former field `builtinsNotDrained` — "liquidity tokens withdrawn in this block never reach a builtin pool's
  -- whole liquidity" — is gone since the `fix:` for finding F24: it was false of reachable states (the only holder
  -- of a pre-TIP-902 ERG/SYM pool withdraws everything after the activation; faucet-minted tokens, K-faucet-liq),
  -- and it is no longer needed: a request for more than the pool's liquidity is skipped by the guard of
  -- `process_withdrawals_for_single_pool`, one for exactly all of it empties the pool, and `create_builtins` runs
  -- again before pegging and the subsidy read the pool's price. `liqsU128` below was only used together with it.)
  /-- supply bound: fee pool and tips, the MEL reserve of the MEL/SYM pool and the MEL paid into pools by
      this block are far below 2^128 -/
  feeBound : s.feePool + s.tips + 2 ^ 21 ≤ 2 ^ 127
  reserveBound : ∀ p, s.pools.get poolMelSym = some p → p.lefts ≤ 2 ^ 125
  melInflowBound : (s.txs.map fun tx =>
      if (tx.outputs.headD default).denom = .mel then (tx.outputs.headD default).value else 0).sum ≤ 2 ^ 124
  /-- typing: the liquidity of a builtin pool is a `u128` -/
  liqsU128 : ∀ k ∈ [poolMelSym, poolMelErg, poolErgSym], ∀ p, s.pools.get k = some p → p.liqs ≤ U128_MAX
  txHashes : (s.txs.map (·.hash)).Nodup
  /-- the height is below the point where the subsidy shift amount would overflow (TIP-909 + 128 million blocks) -/
  height : s.height < TIP_909_HEIGHT + 128 * SUBSIDY_HALVING

/-- the arithmetic of the pool operations never crashes on a sane pool (the amounts are `u128`s) -/
theorem C09_swap_total (p : PoolState) (l r : Nat) (hl : 0 < p.lefts) (hr : 0 < p.rights)
    (hl' : l ≤ U128_MAX) (hr' : r ≤ U128_MAX) :
    ∀ c, p.swapMany l r ≠ .crash c := by
  obtain ⟨p', lw, rw, h, _⟩ := swapMany_spec p l r hl hr hl' hr'
  exact Outcome.ne_crash_of_ok h

/-- why `C09_swap_total` bounds the amounts: the statement for arbitrary naturals is false — once `rights + r`
    saturates, the left share can exceed the left reserve. (Unreachable in the implementation: amounts are `u128`.) -/
theorem C09_swap_needs_u128 :
    ({ lefts := 1, rights := 1, priceAccum := 0, liqs := 0 } : PoolState).swapMany 0 (2 ^ 130)
      = .crash "melswap.rs: lefts -= underflow" := by
  rfl

theorem C09_deposit_total (p : PoolState) (l r : Nat) (hs : p.liqs ≠ 0 → 0 < p.lefts ∧ 0 < p.rights) :
    ∀ c, p.deposit l r ≠ .crash c := by
  obtain ⟨p', m, h, _⟩ := deposit_spec p l r hs
  exact Outcome.ne_crash_of_ok h

theorem C09_withdraw_total (p : PoolState) (q : Nat) (hq : 0 < q) (hle : q ≤ p.liqs) :
    ∀ c, p.withdraw q ≠ .crash c := by
  obtain ⟨p', a, b, h, _⟩ := withdraw_spec p q hq hle
  exact Outcome.ne_crash_of_ok h

/-- the proposer action never crashes: the multiplier move is total (C17) and the reward fits -/
theorem C09_action_total (env : Env) (s : State) (a : ProposerAction) (hb : s.feePool / 65536 + s.tips ≤ U128_MAX) :
    ∀ c, applyProposerAction env s a ≠ .crash c := by
  obtain ⟨s', h⟩ := applyProposerAction_ok env s a hb
  exact Outcome.ne_crash_of_ok h

/-- the swap phase never crashes: every selected request has a positive amount and names a pool with reserves -/
theorem C09_swaps_total (s : State) : ∀ c, processSwaps s ≠ .crash c := by
  obtain ⟨s', h⟩ := processSwaps_total s
  exact Outcome.ne_crash_of_ok h

/-- **sealing is total** -/
theorem C09_seal_total (env : Env) (s : State) (a : Option ProposerAction) (hp : SealTotalPre env s) :
    ∀ c, sealState env s a ≠ .crash c := by
  obtain ⟨ss, h⟩ := sealState_ok env s a hp.counts hp.faithfulCov hp.txHashes hp.poolsSane
    hp.reserveBound hp.melInflowBound hp.feeBound hp.height
  exact Outcome.ne_crash_of_ok h

/-- in fact sealing succeeds (nothing in it rejects) -/
theorem C09_seal_ok (env : Env) (s : State) (a : Option ProposerAction) (hp : SealTotalPre env s) :
    ∃ ss, sealState env s a = .ok ss :=
  sealState_ok env s a hp.counts hp.faithfulCov hp.txHashes hp.poolsSane
    hp.reserveBound hp.melInflowBound hp.feeBound hp.height

theorem mem_builtinsOf_of_builtinKeys {s : State} {k : PoolKey} (h : k ∈ builtinKeys s) :
    k ∈ builtinsOf s.tip902 := by
  unfold builtinKeys at h
  unfold builtinsOf
  cases ht : s.tip902 <;> simpa [ht] using h

/-- **and the sealed state prices every builtin pool**: after the seal each builtin pool that is due (MEL/SYM, MEL/ERG,
    and ERG/SYM once TIP-902 is active) exists with liquidity and reserves on both sides — also one whose whole
    liquidity was redeemed in this very block (finding F24: it is made afresh before pegging) — and every pool that
    records liquidity has reserves, so the next seal starts from `poolsSane` again -/
theorem C09_seal_ok_priced (env : Env) (s : State) (a : Option ProposerAction) (hp : SealTotalPre env s) :
    ∃ ss, sealState env s a = .ok ss ∧
      (∀ k ∈ builtinKeys s, ∃ p, ss.st.pools.get k = some p ∧ p.liqs ≠ 0 ∧ 0 < p.lefts ∧ 0 < p.rights) ∧
      (∀ k p, ss.st.pools.get k = some p → p.liqs ≠ 0 → 0 < p.lefts ∧ 0 < p.rights) := by
  obtain ⟨ss, h, hpo⟩ := sealState_ok_pools env s a hp.counts hp.faithfulCov hp.txHashes hp.poolsSane
    hp.reserveBound hp.melInflowBound hp.feeBound hp.height
  refine ⟨ss, h, ?_, hpo.sane⟩
  intro k hk
  obtain ⟨p, hg, h1, h2, h3⟩ := hpo.builtins k (mem_builtinsOf_of_builtinKeys hk)
  exact ⟨p, hg, by omega, h1, h2⟩

/-- non-vacuity: the empty state of a fresh chain satisfies the assumptions -/
example (env : Env) : SealTotalPre env (default : State) := by
  refine ⟨?_, ?_, ?_, ?_, ?_, ?_, ?_, ?_, ?_⟩
  · intro h; exact absurd h (by decide)
  · intro tx htx; cases htx
  · intro k p h; cases h
  · decide
  · intro p h; cases h
  · decide
  · intro k _ p h; cases h
  · exact List.nodup_nil
  · decide

/-- the state of finding F23 (`emptiedErgSymState`, Props/C16.lean: TIP-902 just activated, the ERG/SYM pool
    emptied by its only depositor) satisfies the assumptions — before the `fix:` it did not (the assumption
    `builtins` failed) and pegging crashed on it (`C16_old_emptied_ergsym_crashes`) -/
theorem C09_emptied_ergsym_pre (env : Env) : SealTotalPre env emptiedErgSymState := by
  have hold : ∀ k p, emptiedErgSymState.pools.get k = some p →
      p = builtinDefault ∨ p = { lefts := 0, rights := 0, priceAccum := 7, liqs := 0 } := by
    intro k p h
    simp only [emptiedErgSymState, AList.get] at h
    split at h
    · cases h; exact Or.inl rfl
    split at h
    · cases h; exact Or.inl rfl
    split at h
    · cases h; exact Or.inr rfl
    · cases h
  refine ⟨?_, ?_, ?_, ?_, ?_, ?_, ?_, ?_, ?_⟩
  · intro h; exact absurd h (by decide)
  · intro tx htx; cases htx
  · intro k p h hl
    rcases hold k p h with rfl | rfl
    · decide
    · exact absurd rfl hl
  · decide
  · intro p h
    rcases hold _ p h with rfl | rfl <;> decide
  · decide
  · intro k _ p h
    rcases hold k p h with rfl | rfl <;> decide
  · exact List.nodup_nil
  · decide

/-- so sealing that state no longer crashes -/
theorem C09_emptied_ergsym_seals (env : Env) (a : Option ProposerAction) :
    ∃ ss, sealState env emptiedErgSymState a = .ok ss :=
  C09_seal_ok env _ a (C09_emptied_ergsym_pre env)

/-- **non-vacuity exactly where sealing used to crash** (finding F24): the state `drainedErgSymState` (Props/C16.lean —
    TIP-902 active, a user-opened ERG/SYM pool whose whole liquidity is redeemed by a withdrawal of the block)
    satisfies the assumptions. It violates the former field `builtinsNotDrained` (5000 withdrawn = 5000 recorded), and
    the old pipeline crashed on it (`C16_old_drained_ergsym_crashes`). -/
theorem C09_drained_ergsym_pre (env : Env) : SealTotalPre env (drainedErgSymState env) := by
  refine ⟨fun _ => drained_counts env, drained_faithful env, ?_, ?_, ?_, ?_, ?_, ?_, ?_⟩
  · intro k p h hl
    rcases drained_pools env k p h with rfl | rfl <;> decide
  · show 0 + 0 + 2 ^ 21 ≤ 2 ^ 127
    decide
  · intro p h
    rcases drained_pools env _ p h with rfl | rfl <;> decide
  · show (if (liqTokenDenom env poolErgSym) = Denom.mel then 5000 else 0) + 0 ≤ 2 ^ 124
    rw [if_neg (by intro e; cases e)]; decide
  · intro k _ p h
    rcases drained_pools env k p h with rfl | rfl <;> decide
  · show ([[2]] : List Hash).Nodup
    decide
  · show 10 < TIP_909_HEIGHT + 128 * SUBSIDY_HALVING
    decide

/-- the former assumption `builtinsNotDrained` fails at that state: the block withdraws the ERG/SYM pool's whole
    liquidity -/
theorem C09_drained_ergsym_not_undrained (env : Env) :
    ¬ ∀ k ∈ [poolMelSym, poolMelErg, poolErgSym], ∀ p,
      (createBuiltins (drainedErgSymState env)).pools.get k = some p →
      (((drainedErgSymState env).txs.filter fun tx => tx.kind = .liqWithdraw ∧ canonicalPoolKey tx.data = some k).map
        fun tx => (tx.outputs.headD default).value).sum < p.liqs := by
  intro h
  have h1 := h poolErgSym (by simp) { lefts := 5000, rights := 7000, priceAccum := 0, liqs := 5000 } rfl
  have hf : ((drainedErgSymState env).txs.filter fun tx =>
      tx.kind = .liqWithdraw ∧ canonicalPoolKey tx.data = some poolErgSym) = [drainTx env] := by
    show [drainTx env].filter _ = _
    have hd : decide ((drainTx env).kind = .liqWithdraw ∧ canonicalPoolKey (drainTx env).data = some poolErgSym)
        = true := decide_eq_true ⟨rfl, drained_canon⟩
    simp only [List.filter, hd]
  rw [hf] at h1
  exact absurd h1 (by show ¬ ((5000 : Nat) + 0 < 5000); omega)

/-- so sealing that state no longer crashes, whatever the environment and the proposer action, and leaves every builtin
    pool priced -/
theorem C09_drained_ergsym_seals (env : Env) (a : Option ProposerAction) :
    ∃ ss, sealState env (drainedErgSymState env) a = .ok ss ∧
      (∀ k ∈ builtinKeys (drainedErgSymState env),
        ∃ p, ss.st.pools.get k = some p ∧ p.liqs ≠ 0 ∧ 0 < p.lefts ∧ 0 < p.rights) :=
  let ⟨ss, h, hb, _⟩ := C09_seal_ok_priced env _ a (C09_drained_ergsym_pre env)
  ⟨ss, h, hb⟩

end Mel

#print axioms Mel.C09_swap_total
#print axioms Mel.C09_swap_needs_u128
#print axioms Mel.C09_deposit_total
#print axioms Mel.C09_withdraw_total
#print axioms Mel.C09_action_total
#print axioms Mel.C09_swaps_total
#print axioms Mel.C09_seal_total
#print axioms Mel.C09_seal_ok
#print axioms Mel.C09_seal_ok_priced
#print axioms Mel.C09_drained_ergsym_pre
#print axioms Mel.C09_drained_ergsym_not_undrained
#print axioms Mel.C09_drained_ergsym_seals
#print axioms Mel.C09_emptied_ergsym_pre
#print axioms Mel.C09_emptied_ergsym_seals
