/-
  C09 — totality of sealing. Helper lemmas live in MelModel/Lemmas/TotalSeal.lean.
-/
import MelModel.Seal
import MelModel.Lemmas.TotalSeal
import MelModel.Props.C16
namespace Mel
open Mel.Gen

def CountsSoundS (m : CoinMap) : Prop :=
  (m.coins.map (·.1)).Nodup ∧ (m.counts.map (·.1)).Nodup ∧
  (∀ a, m.coinCount a = (m.coins.filter fun e => e.2.coinData.covhash = a).length) ∧ (∀ e ∈ m.counts, e.2 ≠ 0)

/-- what is assumed of a state being sealed -/
structure SealTotalPre (env : Env) (s : State) : Prop where
  /-- once TIP-906 is active the per-covenant counts are sound (C20) -/
  counts : s.tip906 = true → CountsSoundS s.coins
  /-- a coin sitting at an output slot of a transaction of this block is locked by that output's covenant
      (the coin was created from that output by `apply_tx`) -/
  faithfulCov : ∀ tx ∈ s.txs, ∀ i o c, tx.outputs[i]? = some o → s.coins.getCoin ⟨tx.hash, i⟩ = some c →
      c.coinData.covhash = o.covhash
  /-- every pool that has issued liquidity has reserves on both sides (C16). Nothing more is assumed of the builtin
      pools: since the `fix:` for finding F23 one that records no liquidity is created afresh by `create_builtins`
      (the former assumption `builtins`, that an existing builtin pool has reserves and liquidity, is gone) -/
  poolsSane : ∀ k p, s.pools.get k = some p → (p.liqs ≠ 0 → 0 < p.lefts ∧ 0 < p.rights)
  /-- liquidity tokens held never reach a builtin pool's whole liquidity (C16; excluded: faucet-minted tokens,
      K-faucet-liq). Stated for the pools after `create_builtins`, so that it also covers a builtin pool
      created (with the nobody-owned default liquidity) by this very seal. -/
  builtinsNotDrained : ∀ k ∈ [poolMelSym, poolMelErg, poolErgSym], ∀ p, (createBuiltins s).pools.get k = some p →
      ((s.txs.filter fun tx => tx.kind = .liqWithdraw ∧ canonicalPoolKey tx.data = some k).map
        fun tx => (tx.outputs.headD default).value).sum < p.liqs
  /-- supply bound: fee pool and tips, the MEL reserve of the MEL/SYM pool and the MEL paid into pools by
      this block are far below 2^128 -/
  feeBound : s.feePool + s.tips + 2 ^ 21 ≤ 2 ^ 127
  reserveBound : ∀ p, s.pools.get poolMelSym = some p → p.lefts ≤ 2 ^ 125
  melInflowBound : (s.txs.map fun tx =>
      if (tx.outputs.headD default).denom = .mel then (tx.outputs.headD default).value else 0).sum ≤ 2 ^ 124
  /-- typing: the liquidity of a builtin pool is a `u128` -/
  liqsU128 : ∀ k ∈ [poolMelSym, poolMelErg, poolErgSym], ∀ p, s.pools.get k = some p → p.liqs ≤ U128_MAX
  txHashes : (s.txs.map (·.hash)).Nodup
  /-- the height is below the point where the subsidy shift amount would overflow (TIP-909 + 128 million blocks) -/
  height : s.height < TIP_909_HEIGHT + 128 * SUBSIDY_HALVING

/-- the arithmetic of the pool operations never crashes on a sane pool (the amounts are `u128`s) -/
theorem C09_swap_total (p : PoolState) (l r : Nat) (hl : 0 < p.lefts) (hr : 0 < p.rights)
    (hl' : l ≤ U128_MAX) (hr' : r ≤ U128_MAX) :
    ∀ c, p.swapMany l r ≠ .crash c := by
  obtain ⟨p', lw, rw, h, _⟩ := swapMany_spec p l r hl hr hl' hr'
  exact Outcome.ne_crash_of_ok h

/-- why `C09_swap_total` bounds the amounts: the statement for arbitrary naturals is false — once `rights + r`
    saturates, the left share can exceed the left reserve. (Unreachable in the implementation: amounts are `u128`.) -/
theorem C09_swap_needs_u128 :
    ({ lefts := 1, rights := 1, priceAccum := 0, liqs := 0 } : PoolState).swapMany 0 (2 ^ 130)
      = .crash "melswap.rs: lefts -= underflow" := by
  rfl

theorem C09_deposit_total (p : PoolState) (l r : Nat) (hs : p.liqs ≠ 0 → 0 < p.lefts ∧ 0 < p.rights) :
    ∀ c, p.deposit l r ≠ .crash c := by
  obtain ⟨p', m, h, _⟩ := deposit_spec p l r hs
  exact Outcome.ne_crash_of_ok h

theorem C09_withdraw_total (p : PoolState) (q : Nat) (hq : 0 < q) (hle : q ≤ p.liqs) :
    ∀ c, p.withdraw q ≠ .crash c := by
  obtain ⟨p', a, b, h, _⟩ := withdraw_spec p q hq hle
  exact Outcome.ne_crash_of_ok h

/-- the proposer action never crashes: the multiplier move is total (C17) and the reward fits -/
theorem C09_action_total (env : Env) (s : State) (a : ProposerAction) (hb : s.feePool / 65536 + s.tips ≤ U128_MAX) :
    ∀ c, applyProposerAction env s a ≠ .crash c := by
  obtain ⟨s', h⟩ := applyProposerAction_ok env s a hb
  exact Outcome.ne_crash_of_ok h

/-- the swap phase never crashes: every selected request has a positive amount and names a pool with reserves -/
theorem C09_swaps_total (s : State) : ∀ c, processSwaps s ≠ .crash c := by
  obtain ⟨s', h⟩ := processSwaps_total s
  exact Outcome.ne_crash_of_ok h

/-- **sealing is total** -/
theorem C09_seal_total (env : Env) (s : State) (a : Option ProposerAction) (hp : SealTotalPre env s) :
    ∀ c, sealState env s a ≠ .crash c := by
  obtain ⟨ss, h⟩ := sealState_ok env s a hp.counts hp.faithfulCov hp.txHashes hp.poolsSane
    hp.builtinsNotDrained hp.reserveBound hp.liqsU128 hp.melInflowBound hp.feeBound hp.height
  exact Outcome.ne_crash_of_ok h

/-- in fact sealing succeeds (nothing in it rejects) -/
theorem C09_seal_ok (env : Env) (s : State) (a : Option ProposerAction) (hp : SealTotalPre env s) :
    ∃ ss, sealState env s a = .ok ss :=
  sealState_ok env s a hp.counts hp.faithfulCov hp.txHashes hp.poolsSane
    hp.builtinsNotDrained hp.reserveBound hp.liqsU128 hp.melInflowBound hp.feeBound hp.height

/-- non-vacuity: the empty state of a fresh chain satisfies the assumptions -/
example (env : Env) : SealTotalPre env (default : State) := by
  refine ⟨?_, ?_, ?_, ?_, ?_, ?_, ?_, ?_, ?_, ?_⟩
  · intro h; exact absurd h (by decide)
  · intro tx htx; cases htx
  · intro k p h; cases h
  · intro k _ p h
    rcases createBuiltins_get default k with e | e
    · rw [e] at h; cases h
    · rw [e] at h; cases h; show 0 < builtinDefault.liqs; decide
  · decide
  · intro p h; cases h
  · decide
  · intro k _ p h; cases h
  · exact List.nodup_nil
  · decide

/-- the state of finding F23 (`emptiedErgSymState`, Props/C16.lean: TIP-902 just activated, the ERG/SYM pool
    emptied by its only depositor) satisfies the assumptions — before the `fix:` it did not (the assumption
    `builtins` failed) and pegging crashed on it (`C16_old_emptied_ergsym_crashes`) -/
theorem C09_emptied_ergsym_pre (env : Env) : SealTotalPre env emptiedErgSymState := by
  have hget : ∀ k ∈ [poolMelSym, poolMelErg, poolErgSym],
      (createBuiltins emptiedErgSymState).pools.get k = some builtinDefault := by decide
  have hold : ∀ k p, emptiedErgSymState.pools.get k = some p →
      p = builtinDefault ∨ p = { lefts := 0, rights := 0, priceAccum := 7, liqs := 0 } := by
    intro k p h
    simp only [emptiedErgSymState, AList.get] at h
    split at h
    · cases h; exact Or.inl rfl
    split at h
    · cases h; exact Or.inl rfl
    split at h
    · cases h; exact Or.inr rfl
    · cases h
  refine ⟨?_, ?_, ?_, ?_, ?_, ?_, ?_, ?_, ?_, ?_⟩
  · intro h; exact absurd h (by decide)
  · intro tx htx; cases htx
  · intro k p h hl
    rcases hold k p h with rfl | rfl
    · decide
    · exact absurd rfl hl
  · intro k hk p h
    rw [hget k hk] at h; cases h
    show 0 < builtinDefault.liqs
    decide
  · decide
  · intro p h
    rcases hold _ p h with rfl | rfl <;> decide
  · decide
  · intro k _ p h
    rcases hold k p h with rfl | rfl <;> decide
  · exact List.nodup_nil
  · decide

/-- so sealing that state no longer crashes -/
theorem C09_emptied_ergsym_seals (env : Env) (a : Option ProposerAction) :
    ∃ ss, sealState env emptiedErgSymState a = .ok ss :=
  C09_seal_ok env _ a (C09_emptied_ergsym_pre env)

end Mel

#print axioms Mel.C09_swap_total
#print axioms Mel.C09_swap_needs_u128
#print axioms Mel.C09_deposit_total
#print axioms Mel.C09_withdraw_total
#print axioms Mel.C09_action_total
#print axioms Mel.C09_swaps_total
#print axioms Mel.C09_seal_total
#print axioms Mel.C09_seal_ok
#print axioms Mel.C09_emptied_ergsym_pre
#print axioms Mel.C09_emptied_ergsym_seals
