/-
  C09 — totality of sealing. Helper lemmas live in MelModel/Lemmas/TotalSeal.lean.
-/
import MelModel.Seal
import MelModel.Lemmas.TotalSeal
namespace Mel
open Mel.Gen

def CountsSoundS (m : CoinMap) : Prop :=
  (m.coins.map (·.1)).Nodup ∧ (m.counts.map (·.1)).Nodup ∧
  (∀ a, m.coinCount a = (m.coins.filter fun e => e.2.coinData.covhash = a).length) ∧ (∀ e ∈ m.counts, e.2 ≠ 0)

/-- what is assumed of a state being sealed -/
structure SealTotalPre (env : Env) (s : State) : Prop where
  counts : CountsSoundS s.coins
  /-- every pool that has issued liquidity has reserves on both sides (C16); builtin pools have reserves -/
  poolsSane : ∀ k p, s.pools.get k = some p → (p.liqs ≠ 0 → 0 < p.lefts ∧ 0 < p.rights)
  builtins : ∀ k ∈ [poolMelSym, poolMelErg, poolErgSym], ∀ p, s.pools.get k = some p → 0 < p.lefts ∧ 0 < p.rights ∧ 0 < p.liqs
  /-- liquidity tokens held never reach a builtin pool's whole liquidity (C16; excluded: faucet-minted tokens, K-faucet-liq) -/
  builtinsNotDrained : ∀ k ∈ [poolMelSym, poolMelErg, poolErgSym], ∀ p, s.pools.get k = some p →
      ((s.txs.filter fun tx => tx.kind = .liqWithdraw ∧ canonicalPoolKey tx.data = some k).map
        fun tx => (tx.outputs.headD default).value).sum < p.liqs
  /-- supply bound: fee pool, tips and every pool reserve are far below 2^128 -/
  feeBound : s.feePool + s.tips + 2 ^ 21 ≤ 2 ^ 127
  reserveBound : ∀ k p, s.pools.get k = some p → p.lefts ≤ 2 ^ 127 ∧ p.rights ≤ 2 ^ 127
  txHashes : (s.txs.map (·.hash)).Nodup
  /-- the height is below the point where the subsidy shift amount would overflow (TIP-909 + 128 million blocks) -/
  height : s.height < TIP_909_HEIGHT + 128 * SUBSIDY_HALVING
  /-- the reward id of this height is not a coin yet, and differs from the block's transaction hashes -/
  rewardFresh : s.coins.getCoin ⟨env.rewardId s.height, 0⟩ = none

/-- the arithmetic of the pool operations never crashes on a sane pool -/
theorem C09_swap_total (p : PoolState) (l r : Nat) (hl : 0 < p.lefts) (hr : 0 < p.rights) :
    ∀ c, p.swapMany l r ≠ .crash c := by
  sorry

theorem C09_deposit_total (p : PoolState) (l r : Nat) (hs : p.liqs ≠ 0 → 0 < p.lefts ∧ 0 < p.rights) :
    ∀ c, p.deposit l r ≠ .crash c := by
  sorry

theorem C09_withdraw_total (p : PoolState) (q : Nat) (hq : 0 < q) (hle : q ≤ p.liqs) :
    ∀ c, p.withdraw q ≠ .crash c := by
  sorry

/-- the proposer action never crashes: the multiplier move is total (C17) and the reward fits -/
theorem C09_action_total (env : Env) (s : State) (a : ProposerAction) (hb : s.feePool / 65536 + s.tips ≤ U128_MAX) :
    ∀ c, applyProposerAction env s a ≠ .crash c := by
  sorry

/-- the swap phase never crashes: every selected request has a positive amount and names a pool with reserves -/
theorem C09_swaps_total (s : State) (hp : ∀ k p, s.pools.get k = some p → (p.liqs ≠ 0 → 0 < p.lefts ∧ 0 < p.rights)) :
    ∀ c, processSwaps s ≠ .crash c := by
  sorry

/-- **sealing is total** -/
theorem C09_seal_total (env : Env) (s : State) (a : Option ProposerAction) (hp : SealTotalPre env s) :
    ∀ c, sealState env s a ≠ .crash c := by
  sorry

end Mel
