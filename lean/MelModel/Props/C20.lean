/-
  C20 — Per-covenant coin counts always equal the number of unspent coins.
  Property theorems only; helper lemmas live in MelModel/Lemmas/Counts.lean.
  (Part 1: the coin-map level.  The state-level theorem — every operation of the STF preserves the
   invariant — is in Props/C20State.lean.)
-/
import MelModel.Chain
import MelModel.Lemmas.Counts
namespace Mel

/-- number of unspent coins locked by covenant hash `a` -/
def coinsWith (m : CoinMap) (a : Hash) : Nat := (m.coins.filter fun e => e.2.coinData.covhash = a).length

/-- the invariant: the coin map has unique keys, every covenant hash's count entry equals the number
    of its coins, and there is no zero entry (a hash with no coins has no entry at all). -/
def CountsOk (m : CoinMap) : Prop :=
  (m.coins.map (·.1)).Nodup ∧ (m.counts.map (·.1)).Nodup ∧
  (∀ a, m.coinCount a = coinsWith m a) ∧ (∀ e ∈ m.counts, e.2 ≠ 0)

/-- inserting a fresh coin keeps the invariant -/
theorem C20_insert_fresh (m : CoinMap) (id : CoinID) (d : CoinDataHeight) (h : CountsOk m)
    (hfresh : m.getCoin id = none) : CountsOk (m.insertCoin id d true) := by
  obtain ⟨hk, hc, hcnt, hnz⟩ := h
  have hfresh' : m.coins.get id = none := hfresh
  have hins : m.insertCoin id d true =
      { coins := m.coins.set id d,
        counts := m.counts.set d.coinData.covhash (m.coinCount d.coinData.covhash + 1) } := by
    simp [CoinMap.insertCoin, hfresh']
  rw [hins]
  refine ⟨AList.keys_nodup_set id d hk, AList.keys_nodup_set _ _ hc, ?_, ?_⟩
  · intro a
    have hdel : m.coins.del id = m.coins := AList.del_eq_self_of_get_none hfresh'
    by_cases ha : a = d.coinData.covhash
    · subst ha
      have := hcnt d.coinData.covhash
      simp only [coinsWith, CoinMap.coinCount] at this ⊢
      rw [AList.get_set_self]
      simp [AList.set, hdel, this]
    · have := hcnt a
      have ha' : ¬ d.coinData.covhash = a := fun h => ha h.symm
      simp only [coinsWith, CoinMap.coinCount] at this ⊢
      rw [AList.get_set_ne _ _ ha, this]
      simp [AList.set, hdel, ha']
  · intro e he
    simp only [AList.set, List.mem_cons] at he
    rcases he with he | he
    · subst he; simp
    · exact hnz e (AList.mem_del.mp he).1

/-- overwriting a coin keeps the invariant when the covenant hash is unchanged
    (this is the side condition every rewriting call site has to meet) -/
theorem C20_insert_overwrite (m : CoinMap) (id : CoinID) (d old : CoinDataHeight) (h : CountsOk m)
    (hold : m.getCoin id = some old) (hsame : old.coinData.covhash = d.coinData.covhash) :
    CountsOk (m.insertCoin id d true) := by
  obtain ⟨hk, hc, hcnt, hnz⟩ := h
  have hold' : m.coins.get id = some old := hold
  have hins : m.insertCoin id d true = { m with coins := m.coins.set id d } := by
    simp [CoinMap.insertCoin, hold']
  rw [hins]
  refine ⟨AList.keys_nodup_set id d hk, hc, ?_, hnz⟩
  intro a
  have hfd := AList.filter_del_length (fun e => decide (e.2.coinData.covhash = a)) hk hold'
  have := hcnt a
  simp only [coinsWith, CoinMap.coinCount] at this ⊢
  rw [this, ← hfd]
  simp only [AList.set, List.filter_cons, hsame]
  by_cases hp : d.coinData.covhash = a <;> simp [hp]

/-- removing a coin (present or not) keeps the invariant and never underflows -/
theorem C20_remove (m : CoinMap) (id : CoinID) (h : CountsOk m) :
    ∃ m', m.removeCoin id true = .ok m' ∧ CountsOk m' := by
  obtain ⟨hk, hc, hcnt, hnz⟩ := h
  cases hget : m.coins.get id with
  | none =>
    refine ⟨m, ?_, hk, hc, hcnt, hnz⟩
    simp [CoinMap.removeCoin, hget, AList.del_eq_self_of_get_none hget]
  | some d =>
    have hfd := fun a => AList.filter_del_length (fun e => decide (e.2.coinData.covhash = a)) hk hget
    have hcpos : m.coinCount d.coinData.covhash ≠ 0 := by
      have := hfd d.coinData.covhash
      rw [hcnt]; simp only [coinsWith]; simp at this; omega
    refine ⟨_, by simp [CoinMap.removeCoin, hget, hcpos]; rfl, ?_⟩
    by_cases hz : m.coinCount d.coinData.covhash - 1 = 0
    · simp only [CoinMap.insertCoinCount, hz, if_true]
      refine ⟨AList.keys_nodup_del id hk, AList.keys_nodup_del _ hc, ?_, ?_⟩
      · intro a
        have h1 := hfd a
        have h2 := hcnt a
        simp only [coinsWith, CoinMap.coinCount] at h2 hz ⊢
        by_cases ha : a = d.coinData.covhash
        · subst ha
          rw [AList.get_del_self]
          simp at h1 ⊢; omega
        · have ha' : ¬ d.coinData.covhash = a := fun h => ha h.symm
          rw [AList.get_del_ne _ ha, h2, ← h1]
          simp [ha']
      · intro e he
        exact hnz e (AList.mem_del.mp he).1
    · simp only [CoinMap.insertCoinCount, hz, if_false]
      refine ⟨AList.keys_nodup_del id hk, AList.keys_nodup_set _ _ hc, ?_, ?_⟩
      · intro a
        have h1 := hfd a
        have h2 := hcnt a
        simp only [coinsWith, CoinMap.coinCount] at h2 hz ⊢
        by_cases ha : a = d.coinData.covhash
        · subst ha
          rw [AList.get_set_self]
          simp at h1 ⊢; omega
        · have ha' : ¬ d.coinData.covhash = a := fun h => ha h.symm
          rw [AList.get_set_ne _ _ ha, h2, ← h1]
          simp [ha']
      · intro e he
        simp only [AList.set, List.mem_cons] at he
        rcases he with he | he
        · subst he; exact hz
        · exact hnz e (AList.mem_del.mp he).1

/-- the counts are a function of the coin content: two maps satisfying the invariant with the same
    coins agree on every count -/
theorem C20_counts_determined (m₁ m₂ : CoinMap) (h₁ : CountsOk m₁) (h₂ : CountsOk m₂)
    (hc : ∀ id, m₁.getCoin id = m₂.getCoin id) (a : Hash) : m₁.coinCount a = m₂.coinCount a := by
  rw [h₁.2.2.1 a, h₂.2.2.1 a]
  exact AList.filter_length_congr _ m₁.coins m₂.coins h₁.1 h₂.1 hc

/-- at the activation height the counts are initialised from the existing (count-free) coin set -/
theorem C20_activation (m : CoinMap) (hk : (m.coins.map (·.1)).Nodup) (hempty : m.counts = []) :
    CountsOk (applyTip906Transition m) := by
  have hn : (AList.keys m.counts).Nodup := by rw [hempty]; exact List.nodup_nil
  have hz : ∀ e ∈ m.counts, e.2 ≠ 0 := by rw [hempty]; intro e he; cases he
  obtain ⟨i1, i2, i3, i4⟩ := tip906_fold_inv m.coins m hn hz
  have hfold : applyTip906Transition m = m.coins.foldl tip906Step m := rfl
  rw [hfold]
  refine ⟨by rw [i1]; exact hk, i2, ?_, i4⟩
  intro a
  rw [i3 a]
  simp [coinsWith, CoinMap.coinCount, hempty, i1, AList.get]

/-- non-vacuity: a concrete two-coin map satisfies the invariant after the transition -/
example : (applyTip906Transition
    { coins := [(⟨[1], 0⟩, ⟨⟨[7], 5, .mel, []⟩, 0⟩), (⟨[2], 0⟩, ⟨⟨[7], 6, .sym, []⟩, 0⟩)], counts := [] }).coinCount [7] = 2 := by
  decide

end Mel

#print axioms Mel.C20_insert_fresh
#print axioms Mel.C20_insert_overwrite
#print axioms Mel.C20_remove
#print axioms Mel.C20_counts_determined
#print axioms Mel.C20_activation
