/-
  C20 — Per-covenant coin counts always equal the number of unspent coins.
  Property theorems only; helper lemmas live in MelModel/Lemmas/Counts.lean.
  (Part 1: the coin-map level.  The state-level theorem — every operation of the STF preserves the
   invariant — is in Props/C20State.lean.)
-/
import MelModel.Chain
import MelModel.Lemmas.Counts
namespace Mel

/-- number of unspent coins locked by covenant hash `a` -/
def coinsWith (m : CoinMap) (a : Hash) : Nat := (m.coins.filter fun e => e.2.coinData.covhash = a).length

/-- the invariant: the coin map has unique keys, every covenant hash's count entry equals the number
    of its coins, and there is no zero entry (a hash with no coins has no entry at all). -/
def CountsOk (m : CoinMap) : Prop :=
  (m.coins.map (·.1)).Nodup ∧ (m.counts.map (·.1)).Nodup ∧
  (∀ a, m.coinCount a = coinsWith m a) ∧ (∀ e ∈ m.counts, e.2 ≠ 0)

/-- inserting a fresh coin keeps the invariant -/
theorem C20_insert_fresh (m : CoinMap) (id : CoinID) (d : CoinDataHeight) (h : CountsOk m)
    (hfresh : m.getCoin id = none) : CountsOk (m.insertCoin id d true) := by
  sorry

/-- overwriting a coin keeps the invariant when the covenant hash is unchanged
    (this is the side condition every rewriting call site has to meet) -/
theorem C20_insert_overwrite (m : CoinMap) (id : CoinID) (d old : CoinDataHeight) (h : CountsOk m)
    (hold : m.getCoin id = some old) (hsame : old.coinData.covhash = d.coinData.covhash) :
    CountsOk (m.insertCoin id d true) := by
  sorry

/-- removing a coin (present or not) keeps the invariant and never underflows -/
theorem C20_remove (m : CoinMap) (id : CoinID) (h : CountsOk m) :
    ∃ m', m.removeCoin id true = .ok m' ∧ CountsOk m' := by
  sorry

/-- the counts are a function of the coin content: two maps satisfying the invariant with the same
    coins agree on every count -/
theorem C20_counts_determined (m₁ m₂ : CoinMap) (h₁ : CountsOk m₁) (h₂ : CountsOk m₂)
    (hc : ∀ id, m₁.getCoin id = m₂.getCoin id) (a : Hash) : m₁.coinCount a = m₂.coinCount a := by
  sorry

/-- at the activation height the counts are initialised from the existing (count-free) coin set -/
theorem C20_activation (m : CoinMap) (hk : (m.coins.map (·.1)).Nodup) (hempty : m.counts = []) :
    CountsOk (applyTip906Transition m) := by
  sorry

/-- non-vacuity: a concrete two-coin map satisfies the invariant after the transition -/
example : (applyTip906Transition
    { coins := [(⟨[1], 0⟩, ⟨⟨[7], 5, .mel, []⟩, 0⟩), (⟨[2], 0⟩, ⟨⟨[7], 6, .sym, []⟩, 0⟩)], counts := [] }).coinCount [7] = 2 := by
  sorry

end Mel
