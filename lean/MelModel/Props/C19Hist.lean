/-
  C19 over HISTORIES, the mainnet half — along any run of the chain that starts in a mainnet state, every faucet
  transaction of every accepted batch is the grandfathered one.  (`Props/C19.lean` has the one-batch statement
  `C19_mainnet`; `Props/C19Life.lean` has the other half — at most once, ever — over histories;
  `Props/C07Hist.lean` has `C07_network_constant`.)
  Property theorems only; the run relation `RunTrace` (a run with its batches and seals exposed) and its lemmas live
  in MelModel/Lemmas/MiscHistL.lean.
-/
import MelModel.Chain
import MelModel.Props.C19
import MelModel.Props.C13Life
import MelModel.Props.C07Hist
import MelModel.Lemmas.MiscHistL
namespace Mel
open Mel.Gen Mel.MiscHistL

/-- 5. **no faucet on mainnet, ever** (decomposition form): whatever run led from a mainnet state `s` to the state
    `m`, a batch accepted in `m` contains no faucet transaction other than the grandfathered one -/
theorem C19_mainnet_run (env : Env) (s m m' : State) (txs : List Tx) (fb : Header)
    (hnet : s.network = .mainnet) (hrun : ChainRun env s m) (h : applyBatch env m txs fb = .ok m')
    (tx : Tx) (htx : tx ∈ txs) (hk : tx.kind = .faucet) : env.isGrandfathered tx.hash = true :=
  C19_mainnet env m m' txs fb ((C07_network_constant env s m hrun).trans hnet) h tx htx hk

/-- the same over a trace: every faucet transaction of every batch of the run is the grandfathered one -/
theorem C19_mainnet_trace (env : Env) (s s' : State) (tr : List Event) (hnet : s.network = .mainnet)
    (hrun : RunTrace env s tr s') (txs : List Tx) (fb : Header) (hb : Event.batch txs fb ∈ tr)
    (tx : Tx) (htx : tx ∈ txs) (hk : tx.kind = .faucet) : env.isGrandfathered tx.hash = true := by
  obtain ⟨m, m', h1, h2, -⟩ := RunTrace.mem_split hrun hb
  cases h2 with
  | batch h => exact C19_mainnet_run env s m m' txs fb hnet h1 h tx htx hk

/-- … so a run from a mainnet state in whose environment no hash is grandfathered contains no faucet transaction
    at all -/
theorem C19_mainnet_trace_no_faucet (env : Env) (s s' : State) (tr : List Event) (hnet : s.network = .mainnet)
    (hrun : RunTrace env s tr s') (hng : ∀ h, env.isGrandfathered h = false)
    (txs : List Tx) (fb : Header) (hb : Event.batch txs fb ∈ tr) (tx : Tx) (htx : tx ∈ txs) : tx.kind ≠ .faucet := by
  intro hk
  have := C19_mainnet_trace env s s' tr hnet hrun txs fb hb tx htx hk
  rw [hng] at this
  cases this

/-- from a mainnet genesis configuration: the same for every reachable state -/
theorem C19_mainnet_reachable (env : Env) (cfg : GenesisConfig) (m m' : State) (txs : List Tx) (fb : Header)
    (hnet : cfg.network = .mainnet) (hr : ChainRun env (genesisState cfg) m)
    (h : applyBatch env m txs fb = .ok m') (tx : Tx) (htx : tx ∈ txs) (hk : tx.kind = .faucet) :
    env.isGrandfathered tx.hash = true :=
  C19_mainnet_run env _ m m' txs fb hnet hr h tx htx hk

/-- the refusal, stated as one: after any run from a mainnet state, a batch containing a faucet transaction that is
    not the grandfathered one is not accepted -/
theorem C19_mainnet_run_rejects (env : Env) (s m : State) (txs : List Tx) (fb : Header)
    (hnet : s.network = .mainnet) (hrun : ChainRun env s m) (tx : Tx) (htx : tx ∈ txs) (hk : tx.kind = .faucet)
    (hng : env.isGrandfathered tx.hash = false) : ∀ m', applyBatch env m txs fb ≠ .ok m' := by
  intro m' h
  have := C19_mainnet_run env s m m' txs fb hnet hrun h tx htx hk
  rw [hng] at this
  cases this

/-! ### non-vacuity on literals -/

namespace C19HistWitness
open ReachWitness (env getOk eq_getOk)

/-- a mainnet genesis configuration -/
def cfg : GenesisConfig :=
  { network := .mainnet, initCoindata := ⟨[7], 5, .mel, []⟩, stakes := [], initFeePool := 0, initFeeMultiplier := 0 }

/-- a faucet transaction (not grandfathered in `ReachWitness.env`, where nothing is) -/
def f : Tx := {
  kind := .faucet, inputs := [], outputs := [(⟨[8], 5, .mel, []⟩ : CoinData)], fee := 0,
  covenants := [], data := [], sigs := [], hash := [2], rawLen := 0, covHashes := [] }

/-- the same environment with `f` grandfathered -/
def envG : Env := { env with isGrandfathered := fun h => h = [2] }

def g : State := genesisState cfg
def sg : Sealed := getOk (sealState env g none)
def g1 : State := getOk (nextUnsealed env sg)
def gF : State := getOk (applyBatch envG g [f] default)

theorem seal_ok : sealState env g none = .ok sg := eq_getOk (by decide +kernel)
theorem next_ok : nextUnsealed env sg = .ok g1 := eq_getOk (by decide +kernel)
theorem faucetG_ok : applyBatch envG g [f] default = .ok gF := eq_getOk (by decide +kernel)
def rejectedWith {α} : Outcome α → StateError → Bool
  | .reject e, e' => e == e'
  | _, _ => false

theorem eq_reject {α} {o : Outcome α} {e : StateError} (h : rejectedWith o e = true) : o = .reject e := by
  cases o with
  | reject e' => simp only [rejectedWith, beq_iff_eq] at h; rw [h]
  | ok a => cases h
  | crash c => cases h

theorem faucet_rejected : applyBatch env g1 [f] default = .reject .malformedTx := eq_reject (by decide +kernel)

theorem run : RunTrace env g [.batch [] default, .block none] g1 :=
  .step (.step (.refl _) (.batch (txs := []) (fb := default) rfl)) (.block seal_ok next_ok)

end C19HistWitness

/-- non-vacuity: a mainnet run of one block exists (genesis, an empty batch, a seal, the next block); in the state it
    reaches a faucet transaction is rejected with `MalformedTx`; and in an environment in which that transaction is
    the grandfathered one a batch with it IS accepted on mainnet (so the conclusion `isGrandfathered … = true` of
    `C19_mainnet_run` is met by an accepted batch, not only vacuously) -/
theorem C19_mainnet_run_nonvacuous :
    ∃ (env envG : Env) (s m mF : State) (tr : List Event) (f : Tx),
      s.network = .mainnet ∧ RunTrace env s tr m ∧ tr ≠ [] ∧ f.kind = .faucet ∧
      env.isGrandfathered f.hash = false ∧ applyBatch env m [f] default = .reject .malformedTx ∧
      envG.isGrandfathered f.hash = true ∧ applyBatch envG s [f] default = .ok mF := by
  open C19HistWitness in
  exact ⟨ReachWitness.env, envG, g, g1, gF, _, f, rfl, run, List.cons_ne_nil _ _, rfl, rfl, faucet_rejected,
    by decide, faucetG_ok⟩

end Mel

#print axioms Mel.C19_mainnet_run
#print axioms Mel.C19_mainnet_trace
#print axioms Mel.C19_mainnet_trace_no_faucet
#print axioms Mel.C19_mainnet_reachable
#print axioms Mel.C19_mainnet_run_rejects
#print axioms Mel.C19_mainnet_run_nonvacuous
