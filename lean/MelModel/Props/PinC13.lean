/-
  C13 — the constants the property's statement (and the recorded deviations) fix, pinned against the values regenerated
  from /repo's source on every run (Generated/Tables.lean): the two legacy windows recorded as known deviation K2 (stake registration below 500000, stake lock below 900000, Mainnet/Testnet only): a wider window is a new violation, not the recorded one.
  The model is parametric in these constants, so a changed constant would be followed silently by the model and the
  correspondence; these theorems are what turns such a change into a broken proof obligation.
-/
import MelModel.Generated.Tables
namespace Mel
open Mel.Gen

theorem C13_pin_LEGACY_STAKE_REG_HEIGHT : LEGACY_STAKE_REG_HEIGHT = 500000 := rfl
theorem C13_pin_LEGACY_STAKE_LOCK_HEIGHT : LEGACY_STAKE_LOCK_HEIGHT = 900000 := rfl

end Mel

#print axioms Mel.C13_pin_LEGACY_STAKE_REG_HEIGHT
#print axioms Mel.C13_pin_LEGACY_STAKE_LOCK_HEIGHT
