/-
  C10 (counted loops run their body exactly the stated number of times) — for EVERY nesting depth:
  the flat executor refines a structured big-step semantics with arbitrarily nested counted loops.

  Definitions (MelModel/VM/Struct.lean):
    `SInstr`            : `op o` (a straight-line instruction) | `loop it body` (`body : List SInstr`)
    `flatten P`         : the flat program; a loop becomes `Op.loop it len` followed by the flattened body, `len` its length
    `WF P`              : every `op o` has `o.isStraight`; every loop body is non-empty and shorter than 2^16 after
                          flattening, recursively
    `eval o P (s, h)`   : big-step semantics on (stack, heap); `loop it body` = `iter (eval o body) it.toNat`
    `stepsOf P`         : number of flat steps of a successful run: 1 per `op`, `1 + it * stepsOf body` per loop
                          (it does not depend on the state)
  Helper lemmas and the structural induction: MelModel/Lemmas/StructL.lean (`Sim`, `sim_iter`, `sinstr_sim`, `sim_list`).

  The invariant on the loop stack.  Only the INNERMOST active frame matters: `updatePc` looks at the next frame only
  after dropping the innermost one, and the nesting check of `Op.loop` (`pc + n > last.end_`) reads the innermost
  frame only.  The block `flatten P` placed at `pre.length` must end no later than the innermost frame:
      `pre.length + (flatten P).length - 1 ≤ L.end_`      (`L` the head of `st.loops`, if any)
  — nothing is required of `begin_`, `left` or of the deeper frames (this is weaker than "every active frame encloses
  the program", so the theorem is stronger).  When the inequality is an equality the block is the tail of the innermost
  loop's body and the frame takes over after the last instruction; the conclusion therefore describes the final state
  as `afterAt st.loops e` = "pc `e` = just after the block, then the bookkeeping `updatePc e st.loops`", which is
  `(e, st.loops)` when the inequality is strict (`C10_structured_inside`), the jump back / the drop of the frame when
  it is an equality (`C10_structured_body_end`), and `(e, [])` at top level (`C10_structured_top`).
-/
import MelModel.VM.Struct
import MelModel.Lemmas.StructL
import MelModel.Props.C10
namespace Mel.VM
open Mel

/-! ## the refinement theorem -/

/-- MAIN THEOREM.  `flatten P` (`P` well-formed, non-empty) in any context `pre … post`, from any state at its first
    instruction whose innermost active loop does not end before the block does.  After exactly `stepsOf P` steps the
    machine has the stack and heap of the structured evaluation and is just after the block (`afterAt`: pc
    `pre.length + (flatten P).length`, then the bookkeeping of the enclosing loops) — or, if the structured evaluation
    fails, `stepN` fails and so does the whole run (`runFuel`, whatever the fuel).
    `hne : P ≠ []` — ADDED (false without it, see `C10_structured_empty_program_counterexample`: an empty block takes
    no step, so no bookkeeping is performed); not needed in `C10_structured_inside`, `C10_structured_top`,
    `C10_structured_run`. -/
theorem C10_structured (o : Oracles) (P : List SInstr) (hne : P ≠ []) (hwf : WF P)
    (pre post : List Op) (st : Exec) (hpc : st.pc = pre.length)
    (henc : ∀ L tl, st.loops = L :: tl → pre.length + (flatten P).length - 1 ≤ L.end_) :
    stepN o (pre ++ flatten P ++ post) (stepsOf P) st =
      (eval o P (st.stack, st.heap)).map (fun sh =>
        { stack := sh.1, heap := sh.2,
          pc := (updatePc (pre.length + (flatten P).length) st.loops).1,
          loops := (updatePc (pre.length + (flatten P).length) st.loops).2 }) ∧
    (eval o P (st.stack, st.heap) = none →
      ∀ f m, (runFuel o (pre ++ flatten P ++ post) (stepsOf P + f) st m).1 = none) := by
  have hpos := flatten_length_pos hne
  have h := sim_list o (pre ++ flatten P ++ post) P post st hne hwf
    (by rw [hpc]; exact drop_pre pre _ post)
    (by intro L tl hl; have := henc L tl hl; omega)
  rw [hpc] at h
  refine ⟨h.1, fun hn f m => h.2 ?_ f m⟩
  rw [hn]; rfl

/-- the block lies strictly inside the innermost loop (or there is none): plain sequential execution, the loop
    stack is exactly what it was -/
theorem C10_structured_inside (o : Oracles) (P : List SInstr) (hwf : WF P)
    (pre post : List Op) (st : Exec) (hpc : st.pc = pre.length)
    (henc : ∀ L tl, st.loops = L :: tl → pre.length + (flatten P).length ≤ L.end_) :
    stepN o (pre ++ flatten P ++ post) (stepsOf P) st =
      (eval o P (st.stack, st.heap)).map fun sh =>
        { stack := sh.1, heap := sh.2, pc := pre.length + (flatten P).length, loops := st.loops } := by
  by_cases hne : P = []
  · subst hne
    cases st
    simp only at hpc
    subst hpc
    rfl
  · rw [(C10_structured o P hne hwf pre post st hpc
      (by intro L tl hl; have := henc L tl hl; omega)).1, updatePc_within _ _ henc]

/-- top level (no active loop) -/
theorem C10_structured_top (o : Oracles) (P : List SInstr) (hwf : WF P)
    (pre post : List Op) (st : Exec) (hpc : st.pc = pre.length) (hl : st.loops = []) :
    stepN o (pre ++ flatten P ++ post) (stepsOf P) st =
      (eval o P (st.stack, st.heap)).map fun sh =>
        { stack := sh.1, heap := sh.2, pc := pre.length + (flatten P).length, loops := [] } := by
  rw [C10_structured_inside o P hwf pre post st hpc (by intro L tl h; rw [hl] at h; simp at h), hl]

/-- the block is the tail of the innermost loop's body (`L.end_` is its last position): after it the frame takes
    over — with passes left the machine is back at `L.begin_` with one pass fewer to go; with none left the frame is
    dropped and the bookkeeping continues with the enclosing frames -/
theorem C10_structured_body_end (o : Oracles) (P : List SInstr) (hne : P ≠ []) (hwf : WF P)
    (pre post : List Op) (st : Exec) (hpc : st.pc = pre.length) (L : LoopState) (tl : List LoopState)
    (hl : st.loops = L :: tl) (hend : L.end_ + 1 = pre.length + (flatten P).length) :
    stepN o (pre ++ flatten P ++ post) (stepsOf P) st =
      (eval o P (st.stack, st.heap)).map fun sh =>
        if L.left > 0 then
          { stack := sh.1, heap := sh.2, pc := L.begin_, loops := { L with left := L.left - 1 } :: tl }
        else
          { stack := sh.1, heap := sh.2,
            pc := (updatePc (L.end_ + 1) tl).1, loops := (updatePc (L.end_ + 1) tl).2 } := by
  rw [(C10_structured o P hne hwf pre post st hpc
    (by intro L' tl' hl'
        rw [hl] at hl'
        simp only [List.cons.injEq] at hl'
        rw [← hl'.1]; omega)).1, hl, ← hend]
  have hu := updatePc_frame_end L.begin_ L.end_ L.left tl
  have hL : ({ begin_ := L.begin_, end_ := L.end_, left := L.left } : LoopState) = L := rfl
  rw [hL] at hu
  rw [hu]
  congr 1
  funext sh
  split <;> rfl

/-! ## whole programs -/

/-- fuel and step count of the run of a whole flattened program whose structured evaluation succeeds -/
theorem C10_structured_runFuel (o : Oracles) (P : List SInstr) (hwf : WF P) (heap : Heap)
    (sh : List Value × Heap) (hev : eval o P ([], heap) = some sh) :
    runFuel o (flatten P) (weightU (flatten P) + 1) (initExec heap) 0 = (sh.1.head?, stepsOf P) := by
  by_cases hne : P = []
  · subst hne
    simp only [eval_nil, Option.some.injEq] at hev
    subst hev
    rfl
  · have h := (C10_structured_top o P hwf [] [] (initExec heap) rfl rfl)
    simp only [List.nil_append, List.append_nil, List.length_nil, Nat.zero_add] at h
    have hev' : eval o P ((initExec heap).stack, (initExec heap).heap) = some sh := hev
    rw [hev'] at h
    rw [runFuel_fuel_indep o _ (weightU (flatten P) + 1)
      (stepsOf P + (weightU (flatten P) + 1)) (initExec heap) 0
      (by rw [phi_init]; omega) (by rw [phi_init]; omega),
      runFuel_of_stepN o _ _ _ _ _ 0 h,
      C10_result_top o _ _ _ _ (by simp)]
    simp

/-- TOP-LEVEL COROLLARY: the result of executing the flat program from the initial machine is the top of the stack of
    the structured evaluation — or failure if that fails (or ends with an empty stack) — for every oracle and heap -/
theorem C10_structured_run (o : Oracles) (P : List SInstr) (hwf : WF P) (heap : Heap) :
    run o (flatten P) heap = (eval o P ([], heap)).bind fun sh => sh.1.head? := by
  cases hev : eval o P ([], heap) with
  | some sh =>
    unfold run
    rw [C10_structured_runFuel o P hwf heap sh hev]
    rfl
  | none =>
    have hne : P ≠ [] := by
      intro h; subst h; simp at hev
    have h := (C10_structured o P hne hwf [] [] (initExec heap) rfl
      (by intro L tl hl; simp [initExec] at hl)).2 hev (weightU (flatten P) + 1) 0
    simp only [List.nil_append, List.append_nil] at h
    unfold run
    rw [runFuel_fuel_indep o _ (weightU (flatten P) + 1)
      (stepsOf P + (weightU (flatten P) + 1)) (initExec heap) 0
      (by rw [phi_init]; omega) (by rw [phi_init]; omega), h]
    rfl

/-- … and the number of steps the executor makes is the structured step count when the evaluation succeeds -/
theorem C10_structured_runSteps (o : Oracles) (P : List SInstr) (hwf : WF P) (heap : Heap)
    (sh : List Value × Heap) (hev : eval o P ([], heap) = some sh) :
    runSteps o (flatten P) heap = stepsOf P := by
  unfold runSteps
  rw [C10_structured_runFuel o P hwf heap sh hev]

/-- both at once, with `evalSteps` (the structured run with its step count) -/
theorem C10_structured_run_evalSteps (o : Oracles) (P : List SInstr) (hwf : WF P) (heap : Heap)
    (sh : List Value × Heap) (k : Nat) (hev : evalSteps o P ([], heap) = some (sh, k)) :
    run o (flatten P) heap = sh.1.head? ∧ runSteps o (flatten P) heap = k := by
  unfold evalSteps at hev
  cases hev' : eval o P ([], heap) with
  | none => rw [hev'] at hev; simp at hev
  | some sh' =>
    rw [hev'] at hev
    simp only [Option.map_some, Option.some.injEq, Prod.mk.injEq] at hev
    obtain ⟨rfl, rfl⟩ := hev
    exact ⟨by rw [C10_structured_run o P hwf heap, hev']; rfl,
      C10_structured_runSteps o P hwf heap sh' hev'⟩

/-! ## two nested loops: the inner body runs exactly `a * b` times -/

/-- the flat form of `loop a { loop b { B } }` -/
theorem C10_nested_flatten (a b : UInt16) (B : List Op) :
    flatten [SInstr.loop a [SInstr.loop b (B.map SInstr.op)]] =
      [Op.loop a (UInt16.ofNat (B.length + 1)), Op.loop b (UInt16.ofNat B.length)] ++ B := by
  simp [flatten_map_op]

theorem nested_WF (a b : UInt16) (B : List Op) (hB : 1 ≤ B.length) (hlen : B.length + 1 < 65536)
    (hS : ∀ op ∈ B, op.isStraight = true) :
    WF [SInstr.loop a [SInstr.loop b (B.map SInstr.op)]] := by
  rw [WF_cons, sinstr_WF_loop, WF_cons, sinstr_WF_loop]
  simp only [flatten_cons, flatten_nil, List.append_nil, sinstr_flatten_loop, flatten_map_op,
    List.length_cons]
  exact ⟨⟨⟨⟨WF_map_op B hS, hB, by omega⟩, WF_nil⟩, by omega, hlen⟩, WF_nil⟩

theorem nested_eval (o : Oracles) (a b : UInt16) (B : List Op) (sh : List Value × Heap) :
    eval o [SInstr.loop a [SInstr.loop b (B.map SInstr.op)]] sh =
      iter (iter (straight o B) b.toNat) a.toNat sh := by
  rw [eval_singleton, sinstr_eval_loop]
  apply iter_congr
  intro sh'
  rw [eval_singleton, sinstr_eval_loop]
  exact iter_congr (eval_map_op o B) _ _

theorem nested_steps (a b : UInt16) (B : List Op) :
    stepsOf [SInstr.loop a [SInstr.loop b (B.map SInstr.op)]] =
      1 + a.toNat * (1 + b.toNat * B.length) := by
  simp [stepsOf_map_op]

/-- `[loop a (n+1), loop b n] ++ B` with `B` straight-line, `n = B.length ≥ 1`, in any context, entered outside any
    loop: after exactly `1 + a * (1 + b * n)` steps the machine is just after `B` with the (stack, heap) obtained by
    running `B` exactly `a * b` times, grouped as `a` rounds of `b` passes — or has failed if a pass fails -/
theorem C10_nested_loops_exact (o : Oracles) (pre B post : List Op) (a b : UInt16) (st : Exec)
    (hB : 1 ≤ B.length) (hlen : B.length + 1 < 65536) (hS : ∀ op ∈ B, op.isStraight = true)
    (hpc : st.pc = pre.length) (hl : st.loops = []) :
    stepN o (pre ++ ([Op.loop a (UInt16.ofNat (B.length + 1)), Op.loop b (UInt16.ofNat B.length)] ++ B)
        ++ post) (1 + a.toNat * (1 + b.toNat * B.length)) st =
      (iter (iter (straight o B) b.toNat) a.toNat (st.stack, st.heap)).map fun sh =>
        { stack := sh.1, heap := sh.2, pc := pre.length + (2 + B.length), loops := [] } := by
  have h := C10_structured_top o [SInstr.loop a [SInstr.loop b (B.map SInstr.op)]]
    (nested_WF a b B hB hlen hS) pre post st hpc hl
  rw [nested_eval, nested_steps, C10_nested_flatten] at h
  rw [h]
  have e : ([Op.loop a (UInt16.ofNat (B.length + 1)), Op.loop b (UInt16.ofNat B.length)]
      ++ B).length = 2 + B.length := by
    simp only [List.length_append, List.length_cons, List.length_nil]
  rw [e]

/-- `iter (iter f b) a = iter f (a * b)`: `a` rounds of `b` passes are `a * b` passes -/
theorem iter_iter {α} (f : α → Option α) (b : Nat) : ∀ (a : Nat) (x : α),
    iter (iter f b) a x = iter f (a * b) x
  | 0, x => by simp [iter]
  | a + 1, x => by
    have hadd : ∀ (m n : Nat) (y : α), iter f (m + n) y = (iter f m y).bind (iter f n) := by
      intro m
      induction m with
      | zero => intro n y; simp [iter]
      | succ m ih =>
        intro n y
        rw [Nat.add_right_comm, iter, iter]
        cases f y with
        | none => rfl
        | some z => simp only [Option.bind_some]; exact ih n z
    rw [iter, Nat.succ_mul, Nat.add_comm, hadd]
    cases iter f b x with
    | none => rfl
    | some y => simp only [Option.bind_some]; exact iter_iter f b a y

/-- the same with the count spelled out: the inner body runs exactly `a * b` times -/
theorem C10_nested_loops_exact_mul (o : Oracles) (pre B post : List Op) (a b : UInt16) (st : Exec)
    (hB : 1 ≤ B.length) (hlen : B.length + 1 < 65536) (hS : ∀ op ∈ B, op.isStraight = true)
    (hpc : st.pc = pre.length) (hl : st.loops = []) :
    stepN o (pre ++ ([Op.loop a (UInt16.ofNat (B.length + 1)), Op.loop b (UInt16.ofNat B.length)] ++ B)
        ++ post) (1 + a.toNat * (1 + b.toNat * B.length)) st =
      (iter (straight o B) (a.toNat * b.toNat) (st.stack, st.heap)).map fun sh =>
        { stack := sh.1, heap := sh.2, pc := pre.length + (2 + B.length), loops := [] } := by
  rw [C10_nested_loops_exact o pre B post a b st hB hlen hS hpc hl, iter_iter]

/-- whole program = the two nested loops -/
theorem C10_nested_loops_run (o : Oracles) (B : List Op) (a b : UInt16) (heap : Heap)
    (hB : 1 ≤ B.length) (hlen : B.length + 1 < 65536) (hS : ∀ op ∈ B, op.isStraight = true) :
    run o ([Op.loop a (UInt16.ofNat (B.length + 1)), Op.loop b (UInt16.ofNat B.length)] ++ B) heap =
      (iter (straight o B) (a.toNat * b.toNat) ([], heap)).bind fun sh => sh.1.head? := by
  have h := C10_structured_run o [SInstr.loop a [SInstr.loop b (B.map SInstr.op)]]
    (nested_WF a b B hB hlen hS) heap
  rw [nested_eval, C10_nested_flatten, iter_iter] at h
  exact h

/-! ## the single-loop law is the depth-1 case -/

/-- `C10_loop_exact_eq` (one loop with a straight-line body) re-derived from the structured theorem -/
theorem C10_loop_exact_eq_of_structured (o : Oracles) (pre B post : List Op) (it n : UInt16)
    (st : Exec) (hn : n.toNat = B.length) (hB : 1 ≤ B.length)
    (hS : ∀ op ∈ B, op.isStraight = true) (hpc : st.pc = pre.length) (hl : st.loops = []) :
    stepN o (pre ++ [Op.loop it n] ++ B ++ post) (1 + it.toNat * B.length) st =
      (iter (straight o B) it.toNat (st.stack, st.heap)).map fun sh =>
        { stack := sh.1, heap := sh.2, pc := pre.length + 1 + B.length, loops := [] } := by
  have hlt : B.length < 65536 := by rw [← hn]; exact n.toNat_lt
  have hwf : WF [SInstr.loop it (B.map SInstr.op)] := by
    rw [WF_cons, sinstr_WF_loop, flatten_map_op]
    exact ⟨⟨WF_map_op B hS, hB, hlt⟩, WF_nil⟩
  have h := C10_structured_top o [SInstr.loop it (B.map SInstr.op)] hwf pre post st hpc hl
  have hn' : UInt16.ofNat B.length = n := by
    rw [← hn]; exact UInt16.ofNat_toNat
  have e1 : flatten [SInstr.loop it (B.map SInstr.op)] = [Op.loop it n] ++ B := by
    simp [flatten_map_op, hn']
  have e2 : eval o [SInstr.loop it (B.map SInstr.op)] (st.stack, st.heap) =
      iter (straight o B) it.toNat (st.stack, st.heap) := by
    rw [eval_singleton, sinstr_eval_loop]
    exact iter_congr (eval_map_op o B) _ _
  have e3 : stepsOf [SInstr.loop it (B.map SInstr.op)] = 1 + it.toNat * B.length := by
    simp [stepsOf_map_op]
  rw [e1, e2, e3] at h
  have e4 : pre ++ ([Op.loop it n] ++ B) ++ post = pre ++ [Op.loop it n] ++ B ++ post := by simp
  have e5 : pre.length + ([Op.loop it n] ++ B).length = pre.length + 1 + B.length := by
    simp only [List.length_append, List.length_cons, List.length_nil]; omega
  rw [e4, e5] at h
  exact h

/-! ## why the hypotheses are there -/

/-- a loop with an EMPTY body is excluded by `WF` (`1 ≤ (flatten body).length`): the executor leaves a stale frame
    after `loop 2 0` and the next loop is judged to overrun it (`C10_empty_loop_stale_frame_actual`), so the flat run
    fails although the structured evaluation succeeds -/
theorem C10_structured_empty_body_counterexample (o : Oracles) :
    let P := [SInstr.loop 2 [], SInstr.loop 2 [SInstr.op (.pushi 1)]]
    ¬ WF P ∧
    flatten P = [.loop 2 0, .loop 2 1, .pushi 1] ∧
    run o (flatten P) [] = none ∧
    ((eval o P ([], [])).bind fun sh => sh.1.head?) = some (.int 1) :=
  ⟨by decide, rfl, rfl, rfl⟩

/-- the innermost active loop must not end before the block does: here the active frame ends at position 0 and the
    block `[loop 1 1, noop]` at position 1 — the nesting check of `loop` fails the run, the structured evaluation
    succeeds -/
theorem C10_structured_not_enclosed_counterexample (o : Oracles) :
    let P := [SInstr.loop 1 [SInstr.op .noop]]
    let st : Exec := { stack := [], heap := [], pc := 0, loops := [{ begin_ := 0, end_ := 0, left := 0 }] }
    WF P ∧ stepN o ([] ++ flatten P ++ []) (stepsOf P) st = none ∧
    (eval o P (st.stack, st.heap)).isSome = true :=
  ⟨by decide, rfl, rfl⟩

/-- `P ≠ []` in `C10_structured`: an empty block takes no step, so no bookkeeping happens — a machine standing one
    past the end of its innermost loop (the stale frame of `C10_empty_loop_stale_frame_step_actual`) keeps the frame,
    whereas `updatePc` would drop it.  (`C10_structured_inside` / `_top`, where the block ends strictly inside the
    innermost loop, hold for the empty program too.) -/
theorem C10_structured_empty_program_counterexample (o : Oracles) :
    let st : Exec := { stack := [], heap := [], pc := 1, loops := [{ begin_ := 0, end_ := 0, left := 0 }] }
    (∀ L tl, st.loops = L :: tl → [Op.noop].length + (flatten []).length - 1 ≤ L.end_) ∧
    (stepN o ([Op.noop] ++ flatten [] ++ []) (stepsOf []) st).map (·.loops) =
      some [{ begin_ := 0, end_ := 0, left := 0 }] ∧
    (updatePc ([Op.noop].length + (flatten []).length) st.loops).2 = [] := by
  refine ⟨?_, rfl, rfl⟩
  intro L tl hl
  simp only [List.cons.injEq] at hl
  rw [← hl.1]
  decide

/-- `(flatten body).length < 2^16` in `WF`: the length field of `Op.loop` is 16 bits wide; a body of 65536 flat
    instructions would be announced as a body of length 0 -/
theorem C10_structured_long_body_counterexample :
    (SInstr.loop 1 ((List.replicate 65536 Op.noop).map SInstr.op)).flatten.head? = some (Op.loop 1 0) ∧
    ¬ (SInstr.loop 1 ((List.replicate 65536 Op.noop).map SInstr.op)).WF := by
  constructor
  · rw [sinstr_flatten_loop, flatten_map_op, List.length_replicate]
    rfl
  · rw [sinstr_WF_loop, flatten_map_op, List.length_replicate]
    omega

/-! ## Non-vacuity: concrete nested programs -/

section Examples
variable (o : Oracles)

/-- evaluates the structured semantics on a literal program (`rfl` through the nested structural recursion of `eval`
    is slow in the elaborator; rewriting with the equations is instant) -/
local macro "eval_struct" : tactic =>
  `(tactic| simp [eval_cons, eval_nil, sinstr_eval_op, sinstr_eval_loop, iter, straight, execOp, binop, monop,
      intBin])

/-- depth 2: `0; loop 3 { loop 4 { 1; add } }` = 12 -/
def exNest2 : List SInstr :=
  [.op (.pushi 0), .loop 3 [.loop 4 [.op (.pushi 1), .op .add]]]

example : WF exNest2 := by decide
example : flatten exNest2 = [.pushi 0, .loop 3 3, .loop 4 2, .pushi 1, .add] := rfl
example : run o (flatten exNest2) [] = some (.int 12) := rfl
example : (eval o exNest2 ([], [])).bind (fun sh => sh.1.head?) = some (.int 12) := by
  unfold exNest2; eval_struct
example : run o (flatten exNest2) [] = (eval o exNest2 ([], [])).bind (fun sh => sh.1.head?) := by
  rw [show run o (flatten exNest2) [] = some (.int 12) from rfl]; unfold exNest2; eval_struct
example : runSteps o (flatten exNest2) [] = stepsOf exNest2 := rfl
example : stepsOf exNest2 = 1 + (1 + 3 * (1 + 4 * 2)) := rfl
example : SInstr.depth.depthL exNest2 = 2 := rfl

/-- depth 3 with instructions before, between and after the loops:
    `0; loop 2 { 1; add; loop 3 { loop 2 { 1; add }; 10; add }; 100; add }`
    = 2 * (1 + 3 * (2 + 10) + 100) = 274 -/
def exNest3 : List SInstr :=
  [.op (.pushi 0),
   .loop 2 [.op (.pushi 1), .op .add,
            .loop 3 [.loop 2 [.op (.pushi 1), .op .add], .op (.pushi 10), .op .add],
            .op (.pushi 100), .op .add]]

example : WF exNest3 := by decide
example : flatten exNest3 =
    [.pushi 0, .loop 2 10, .pushi 1, .add, .loop 3 5, .loop 2 2, .pushi 1, .add, .pushi 10, .add,
     .pushi 100, .add] := rfl
example : run o (flatten exNest3) [] = some (.int 274) := rfl
example : (eval o exNest3 ([], [])).bind (fun sh => sh.1.head?) = some (.int 274) := by
  unfold exNest3; eval_struct
example : run o (flatten exNest3) [] = (eval o exNest3 ([], [])).bind (fun sh => sh.1.head?) := by
  rw [show run o (flatten exNest3) [] = some (.int 274) from rfl]; unfold exNest3; eval_struct
example : runSteps o (flatten exNest3) [] = stepsOf exNest3 := rfl
example : SInstr.depth.depthL exNest3 = 3 := rfl

/-- a zero-count loop in the middle of a nest skips its whole (nested) body -/
def exZero : List SInstr :=
  [.op (.pushi 7), .loop 2 [.loop 0 [.loop 5 [.op (.pushi 1), .op .add]], .op (.pushi 1), .op .add]]

example : WF exZero := by decide
example : run o (flatten exZero) [] = some (.int 9) := rfl
example : run o (flatten exZero) [] = (eval o exZero ([], [])).bind (fun sh => sh.1.head?) := by
  rw [show run o (flatten exZero) [] = some (.int 9) from rfl]; unfold exZero; eval_struct
example : runSteps o (flatten exZero) [] = stepsOf exZero := rfl

/-- a failing pass deep in a nest (division by zero in the second round) fails both -/
def exFail : List SInstr :=
  [.op (.pushi 1), .loop 2 [.loop 1 [.op (.pushi 1), .op .sub, .op .dup, .op (.pushi 5), .op .div]]]

example : WF exFail := by decide
example : eval o exFail ([], []) = none := by unfold exFail; eval_struct
example : run o (flatten exFail) [] = none := rfl

/-- the theorems instantiated -/
example : run o (flatten exNest3) [] = some (.int 274) := by
  rw [C10_structured_run o exNest3 (by decide)]; unfold exNest3; eval_struct

example : runSteps o (flatten exNest3) [] = stepsOf exNest3 := by
  apply C10_structured_runSteps o exNest3 (by decide) [] ([.int 274], [])
  unfold exNest3; eval_struct

example : stepN o ([.pushi 0] ++ flatten [SInstr.loop 3 [.loop 4 [.op (.pushi 1), .op .add]]] ++ [.noop])
      (stepsOf [SInstr.loop 3 [.loop 4 [.op (.pushi 1), .op .add]]])
      { stack := [.int 0], heap := [], pc := 1, loops := [] } =
    some { stack := [.int 12], heap := [], pc := 5, loops := [] } := by
  rw [C10_structured_top o _ (by decide) [.pushi 0] [.noop] _ rfl rfl]
  eval_struct

/-- `C10_structured_body_end` with passes left: the block is the tail of the body `[1 .. 3]` of an active loop -/
example : stepN o ([.loop 2 3] ++ flatten [SInstr.loop 2 [.op (.pushi 1)], .op .noop] ++ [])
      (stepsOf [SInstr.loop 2 [.op (.pushi 1)], .op .noop])
      { stack := [], heap := [], pc := 1, loops := [{ begin_ := 1, end_ := 3, left := 1 }] } =
    some { stack := [.int 1, .int 1], heap := [], pc := 1,
           loops := [{ begin_ := 1, end_ := 3, left := 0 }] } := by
  rw [C10_structured_body_end o _ (by simp) (by decide) [.loop 2 3] [] _ rfl
    { begin_ := 1, end_ := 3, left := 1 } [] rfl rfl]
  eval_struct

/-- … and the same computed by the machine itself -/
example : stepN o ([.loop 2 3] ++ flatten [SInstr.loop 2 [.op (.pushi 1)], .op .noop] ++ [])
      (stepsOf [SInstr.loop 2 [.op (.pushi 1)], .op .noop])
      { stack := [], heap := [], pc := 1, loops := [{ begin_ := 1, end_ := 3, left := 1 }] } =
    some { stack := [.int 1, .int 1], heap := [], pc := 1,
           loops := [{ begin_ := 1, end_ := 3, left := 0 }] } := rfl

/-- `C10_nested_loops_run`: `loop 3 { loop 4 { 1 } }` leaves a 1 on top; `C10_nested_loops_exact_mul`: 12 passes -/
example : run o ([Op.loop 3 (UInt16.ofNat 2), Op.loop 4 (UInt16.ofNat 1)] ++ [.pushi 1]) [] =
    (iter (straight o [.pushi 1]) (3 * 4) ([], [])).bind fun sh => sh.1.head? :=
  C10_nested_loops_run o [.pushi 1] 3 4 [] (by decide) (by decide) (by decide)

end Examples

#print axioms C10_structured
#print axioms C10_structured_inside
#print axioms C10_structured_top
#print axioms C10_structured_body_end
#print axioms C10_structured_runFuel
#print axioms C10_structured_run
#print axioms C10_structured_runSteps
#print axioms C10_structured_run_evalSteps
#print axioms C10_nested_loops_exact
#print axioms C10_nested_loops_exact_mul
#print axioms C10_nested_loops_run
#print axioms C10_loop_exact_eq_of_structured
#print axioms C10_structured_empty_body_counterexample
#print axioms C10_structured_not_enclosed_counterexample
#print axioms C10_structured_empty_program_counterexample
#print axioms C10_structured_long_body_counterexample

end Mel.VM
