/-
  C14 — A state is confirmed only by valid signatures from a >2/3 stake majority.
  Property theorems only; helper lemmas live in MelModel/Lemmas/Confirm.lean.
-/
import MelModel.Chain
import MelModel.Lemmas.Confirm
namespace Mel

/-- a proof entry is a valid signature of the state's header hash by its key -/
def validEntry (env : Env) (hdr : Header) (e : Bytes × Bytes) : Bool :=
  e.2.length = 64 && env.vm.sigOk e.1 (env.hdrHash hdr) e.2

/-- voting power held by the signing keys -/
def presentVotes (ss : Sealed) (proof : List (Bytes × Bytes)) : Nat :=
  (proof.map fun e => ss.st.stakes.votes ss.st.epoch e.1).sum

def totalVotes (ss : Sealed) : Nat := ss.st.stakes.totalVotes ss.st.epoch

/-- tallies fit the u128 the implementation sums in (true whenever the staked supply is < 2^128) -/
def TalliesFit (ss : Sealed) (proof : List (Bytes × Bytes)) : Prop :=
  totalVotes ss ≤ U128_MAX ∧ presentVotes ss proof ≤ U128_MAX

/-- any invalid signature makes the proof fail, whatever the stake behind it -/
theorem C14_invalid_signature (env : Env) (ss : Sealed) (hdr : Header) (proof : List (Bytes × Bytes))
    (hh : headerOf env ss = .ok hdr) (e : Bytes × Bytes) (he : e ∈ proof) (hbad : validEntry env hdr e = false) :
    confirm env ss proof = .ok false := by
  rw [confirm_eq env ss hdr proof hh]
  have hall : (proof.all fun e => e.2.length = 64 && env.vm.sigOk e.1 (env.hdrHash hdr) e.2) = false := by
    rw [List.all_eq_false]
    exact ⟨e, he, by simpa [validEntry] using hbad⟩
  rw [hall]; rfl

/-- decision logic stated outright -/
theorem C14_decision (env : Env) (ss : Sealed) (hdr : Header) (proof : List (Bytes × Bytes))
    (hh : headerOf env ss = .ok hdr) (hfit : TalliesFit ss proof) :
    confirm env ss proof = .ok (decide ((∀ e ∈ proof, validEntry env hdr e = true) ∧
                                         3 * presentVotes ss proof > 2 * totalVotes ss)) := by
  rw [confirm_eq env ss hdr proof hh]
  obtain ⟨ht, hp⟩ := hfit
  unfold totalVotes at ht
  unfold presentVotes at hp
  by_cases hv : ∀ e ∈ proof, validEntry env hdr e = true
  · have hall : (proof.all fun e => e.2.length = 64 && env.vm.sigOk e.1 (env.hdrHash hdr) e.2) = true := by
      rw [List.all_eq_true]
      intro e he
      have := hv e he
      simpa [validEntry] using this
    rw [hall]
    have hnc : ¬ (ss.st.stakes.totalVotes ss.st.epoch > U128_MAX
              ∨ (proof.map fun e => ss.st.stakes.votes ss.st.epoch e.1).sum > U128_MAX) := by omega
    simp only [Bool.not_true, Bool.false_eq_true, if_false, if_neg hnc]
    congr 1
    unfold presentVotes totalVotes
    apply decide_eq_decide.mpr
    constructor
    · intro h; exact ⟨hv, by omega⟩
    · intro h; have := h.2; omega
  · have hall : (proof.all fun e => e.2.length = 64 && env.vm.sigOk e.1 (env.hdrHash hdr) e.2) = false := by
      rw [List.all_eq_false]
      have : ∃ e ∈ proof, ¬ validEntry env hdr e = true := by
        simpa using hv
      obtain ⟨e, he, hbad⟩ := this
      exact ⟨e, he, by simpa [validEntry] using hbad⟩
    rw [hall]
    have : decide ((∀ e ∈ proof, validEntry env hdr e = true) ∧
              3 * presentVotes ss proof > 2 * totalVotes ss) = false := by
      apply decide_eq_false
      intro h; exact hv h.1
    rw [this]; rfl

/-- more than two thirds confirms -/
theorem C14_majority_confirms (env : Env) (ss : Sealed) (hdr : Header) (proof : List (Bytes × Bytes))
    (hh : headerOf env ss = .ok hdr) (hfit : TalliesFit ss proof)
    (hv : ∀ e ∈ proof, validEntry env hdr e = true) (hmaj : 3 * presentVotes ss proof > 2 * totalVotes ss) :
    confirm env ss proof = .ok true := by
  rw [C14_decision env ss hdr proof hh hfit]
  congr 1
  exact decide_eq_true ⟨hv, hmaj⟩

/-- two thirds or less never confirms (in particular: less than two thirds) -/
theorem C14_minority_rejected (env : Env) (ss : Sealed) (hdr : Header) (proof : List (Bytes × Bytes))
    (hh : headerOf env ss = .ok hdr) (hfit : TalliesFit ss proof)
    (hmin : 3 * presentVotes ss proof ≤ 2 * totalVotes ss) :
    confirm env ss proof = .ok false := by
  rw [C14_decision env ss hdr proof hh hfit]
  congr 1
  apply decide_eq_false
  intro h; have := h.2; omega

/-- an empty proof never confirms a state that has stakers -/
theorem C14_empty (env : Env) (ss : Sealed) (hdr : Header) (hh : headerOf env ss = .ok hdr)
    (hfit : totalVotes ss ≤ U128_MAX) (hpos : 0 < totalVotes ss) :
    confirm env ss [] = .ok false := by
  -- (`hpos` is not needed: with no stakers `0 * 3 > 0 * 2` is false as well)
  have _ := hpos
  have hfit' : TalliesFit ss [] := ⟨hfit, by simp [presentVotes]⟩
  apply C14_minority_rejected env ss hdr [] hh hfit'
  simp [presentVotes]

/-- a proof signed (validly) by every key holding an active stake confirms -/
theorem C14_unanimous (env : Env) (ss : Sealed) (hdr : Header) (proof : List (Bytes × Bytes))
    (hh : headerOf env ss = .ok hdr) (hfit : TalliesFit ss proof)
    (hv : ∀ e ∈ proof, validEntry env hdr e = true)
    (hnodup : (proof.map (·.1)).Nodup)
    (hall : ∀ d ∈ ss.st.stakes, StakeSet.active ss.st.epoch d.2 = true → d.2.pubkey ∈ proof.map (·.1))
    (hpos : 0 < totalVotes ss) :
    confirm env ss proof = .ok true := by
  apply C14_majority_confirms env ss hdr proof hh hfit hv
  have h := StakeSet.sum_votes_eq_total ss.st.stakes ss.st.epoch (proof.map (·.1)) hnodup hall
  have hp : presentVotes ss proof = totalVotes ss := by
    unfold presentVotes totalVotes
    rw [← h, List.map_map]
    rfl
  rw [hp]; omega

/-- adding a valid signature by a new key never turns a confirming proof into a non-confirming one -/
theorem C14_monotone (env : Env) (ss : Sealed) (hdr : Header) (proof : List (Bytes × Bytes))
    (e : Bytes × Bytes) (hh : headerOf env ss = .ok hdr)
    (hfit : TalliesFit ss (e :: proof)) (hfit' : TalliesFit ss proof)
    (hc : confirm env ss proof = .ok true) (hv : validEntry env hdr e = true) :
    confirm env ss (e :: proof) = .ok true := by
  rw [C14_decision env ss hdr proof hh hfit'] at hc
  have hc' : (∀ e ∈ proof, validEntry env hdr e = true) ∧
      3 * presentVotes ss proof > 2 * totalVotes ss := by
    have : decide ((∀ e ∈ proof, validEntry env hdr e = true) ∧
      3 * presentVotes ss proof > 2 * totalVotes ss) = true := by
      injection hc
    exact of_decide_eq_true this
  apply C14_majority_confirms env ss hdr (e :: proof) hh hfit
  · intro x hx
    rcases List.mem_cons.mp hx with rfl | hx
    · exact hv
    · exact hc'.1 x hx
  · have : presentVotes ss (e :: proof)
        = ss.st.stakes.votes ss.st.epoch e.1 + presentVotes ss proof := by
      simp [presentVotes]
    have := hc'.2
    omega

/-- what was wrong before the `fix:` commit (finding F15): the old comparison
    `total > present / 2 * 3` confirms an empty proof and rejects a unanimous one. -/
def oldEnough (total present : Nat) : Bool := decide (total > present / 2 * 3)
theorem C14_old_inverted : oldEnough 90 0 = true ∧ oldEnough 90 90 = false := by
  constructor <;> decide

end Mel

#print axioms Mel.C14_invalid_signature
#print axioms Mel.C14_decision
#print axioms Mel.C14_majority_confirms
#print axioms Mel.C14_minority_rejected
#print axioms Mel.C14_empty
#print axioms Mel.C14_unanimous
#print axioms Mel.C14_monotone
#print axioms Mel.C14_old_inverted
