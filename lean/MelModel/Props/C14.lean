/-
  C14 — A state is confirmed only by valid signatures from a >2/3 stake majority.
  Property theorems only; helper lemmas live in MelModel/Lemmas/Confirm.lean.
-/
import MelModel.Chain
import MelModel.Lemmas.Confirm
namespace Mel

/-- a proof entry is a valid signature of the state's header hash by its key -/
def validEntry (env : Env) (hdr : Header) (e : Bytes × Bytes) : Bool :=
  e.2.length = 64 && env.vm.sigOk e.1 (env.hdrHash hdr) e.2

/-- voting power held by the signing keys -/
def presentVotes (ss : Sealed) (proof : List (Bytes × Bytes)) : Nat :=
  (proof.map fun e => ss.st.stakes.votes ss.st.epoch e.1).sum

def totalVotes (ss : Sealed) : Nat := ss.st.stakes.totalVotes ss.st.epoch

/-- tallies fit the u128 the implementation sums in (true whenever the staked supply is < 2^128 - 1).
    Since the `fix:` for the vote-sum overflow the tallies saturate and a total of exactly
    `u128::MAX` is treated as "saturated" (`confirm` returns `None`), so the total must be strictly
    below it; see `C14_saturated_total` for the other side and `C14_decision_total` for the form
    that needs no bound on the signers' tally at all. -/
def TalliesFit (ss : Sealed) (proof : List (Bytes × Bytes)) : Prop :=
  totalVotes ss < U128_MAX ∧ presentVotes ss proof ≤ U128_MAX

/-- any invalid signature makes the proof fail, whatever the stake behind it -/
theorem C14_invalid_signature (env : Env) (ss : Sealed) (hdr : Header) (proof : List (Bytes × Bytes))
    (hh : headerOf env ss = .ok hdr) (e : Bytes × Bytes) (he : e ∈ proof) (hbad : validEntry env hdr e = false) :
    confirm env ss proof = .ok false := by
  rw [confirm_eq env ss hdr proof hh]
  have hall : (proof.all fun e => e.2.length = 64 && env.vm.sigOk e.1 (env.hdrHash hdr) e.2) = false := by
    rw [List.all_eq_false]
    exact ⟨e, he, by simpa [validEntry] using hbad⟩
  rw [hall]; rfl

/-- decision logic stated outright; only the total has to fit (a signers' tally above `u128::MAX`
    saturates, and a saturated tally still exceeds two thirds of a total that fits) -/
theorem C14_decision_total (env : Env) (ss : Sealed) (hdr : Header) (proof : List (Bytes × Bytes))
    (hh : headerOf env ss = .ok hdr) (ht : totalVotes ss < U128_MAX) :
    confirm env ss proof = .ok (decide ((∀ e ∈ proof, validEntry env hdr e = true) ∧
                                         3 * presentVotes ss proof > 2 * totalVotes ss)) := by
  rw [confirm_eq env ss hdr proof hh]
  unfold totalVotes at ht
  by_cases hv : ∀ e ∈ proof, validEntry env hdr e = true
  · have hall : (proof.all fun e => e.2.length = 64 && env.vm.sigOk e.1 (env.hdrHash hdr) e.2) = true := by
      rw [List.all_eq_true]
      intro e he
      have := hv e he
      simpa [validEntry] using this
    rw [hall]
    have hnc : ¬ (ss.st.stakes.totalVotes ss.st.epoch ≥ U128_MAX) := by omega
    simp only [Bool.not_true, Bool.false_eq_true, if_false, if_neg hnc]
    congr 1
    unfold presentVotes totalVotes
    apply decide_eq_decide.mpr
    constructor
    · intro h; exact ⟨hv, by omega⟩
    · intro h; have := h.2; omega
  · have hall : (proof.all fun e => e.2.length = 64 && env.vm.sigOk e.1 (env.hdrHash hdr) e.2) = false := by
      rw [List.all_eq_false]
      have : ∃ e ∈ proof, ¬ validEntry env hdr e = true := by
        simpa using hv
      obtain ⟨e, he, hbad⟩ := this
      exact ⟨e, he, by simpa [validEntry] using hbad⟩
    rw [hall]
    have : decide ((∀ e ∈ proof, validEntry env hdr e = true) ∧
              3 * presentVotes ss proof > 2 * totalVotes ss) = false := by
      apply decide_eq_false
      intro h; exact hv h.1
    rw [this]; rfl

/-- decision logic stated outright -/
theorem C14_decision (env : Env) (ss : Sealed) (hdr : Header) (proof : List (Bytes × Bytes))
    (hh : headerOf env ss = .ok hdr) (hfit : TalliesFit ss proof) :
    confirm env ss proof = .ok (decide ((∀ e ∈ proof, validEntry env hdr e = true) ∧
                                         3 * presentVotes ss proof > 2 * totalVotes ss)) :=
  C14_decision_total env ss hdr proof hh hfit.1

/-- since the `fix:` the tallies saturate: once the header is there `confirm` always returns a
    verdict (the header computation is the only thing in it that can still fail) -/
theorem C14_confirm_total (env : Env) (ss : Sealed) (hdr : Header) (proof : List (Bytes × Bytes))
    (hh : headerOf env ss = .ok hdr) :
    ∃ b, confirm env ss proof = .ok b := by
  rw [confirm_eq env ss hdr proof hh]
  split
  · exact ⟨_, rfl⟩
  · split <;> exact ⟨_, rfl⟩

/-- `confirm` itself never crashes any more, whatever the stakes and the proof: it crashes only if
    (and exactly where) computing the header does. No hypothesis. -/
theorem C14_confirm_never_crashes (env : Env) (ss : Sealed) (proof : List (Bytes × Bytes)) (site : String) :
    confirm env ss proof = .crash site ↔ headerOf env ss = .crash site :=
  confirm_crash_iff env ss proof site

/-- in particular the old crash site is gone -/
theorem C14_no_vote_overflow_crash (env : Env) (ss : Sealed) (proof : List (Bytes × Bytes)) :
    confirm env ss proof ≠ .crash "state.rs: vote sum overflow" := by
  intro h
  have h' := (confirm_crash_iff env ss proof _).mp h
  unfold headerOf at h'
  simp only at h'
  split at h'
  · cases h'
  · split at h'
    · cases h'
    · simp only [Outcome.bind] at h'
      injection h' with h'
      revert h'; decide

/-- a total that reaches `u128::MAX` is treated as saturated: nothing is confirmed, whatever the proof -/
theorem C14_saturated_total (env : Env) (ss : Sealed) (hdr : Header) (proof : List (Bytes × Bytes))
    (hh : headerOf env ss = .ok hdr) (hsat : totalVotes ss ≥ U128_MAX) :
    confirm env ss proof = .ok false := by
  rw [confirm_eq env ss hdr proof hh]
  unfold totalVotes at hsat
  rw [if_pos hsat]
  split <;> rfl

/-- why `TalliesFit` now asks for a total strictly below `u128::MAX`: at exactly `u128::MAX` the
    implementation cannot tell a genuine total from a saturated one and rejects even a unanimous,
    validly signed proof, so the two-thirds rule is *not* what `confirm` computes there -/
theorem C14_exact_max_rejected (env : Env) (ss : Sealed) (hdr : Header) (proof : List (Bytes × Bytes))
    (hh : headerOf env ss = .ok hdr) (hmax : totalVotes ss = U128_MAX)
    (hv : ∀ e ∈ proof, validEntry env hdr e = true) (hall : presentVotes ss proof = totalVotes ss) :
    confirm env ss proof = .ok false ∧
    decide ((∀ e ∈ proof, validEntry env hdr e = true) ∧
              3 * presentVotes ss proof > 2 * totalVotes ss) = true := by
  refine ⟨C14_saturated_total env ss hdr proof hh (by omega), decide_eq_true ⟨hv, ?_⟩⟩
  rw [hall, hmax]; decide

/-- more than two thirds confirms -/
theorem C14_majority_confirms (env : Env) (ss : Sealed) (hdr : Header) (proof : List (Bytes × Bytes))
    (hh : headerOf env ss = .ok hdr) (hfit : TalliesFit ss proof)
    (hv : ∀ e ∈ proof, validEntry env hdr e = true) (hmaj : 3 * presentVotes ss proof > 2 * totalVotes ss) :
    confirm env ss proof = .ok true := by
  rw [C14_decision env ss hdr proof hh hfit]
  congr 1
  exact decide_eq_true ⟨hv, hmaj⟩

/-- two thirds or less never confirms (in particular: less than two thirds) -/
theorem C14_minority_rejected (env : Env) (ss : Sealed) (hdr : Header) (proof : List (Bytes × Bytes))
    (hh : headerOf env ss = .ok hdr) (hfit : TalliesFit ss proof)
    (hmin : 3 * presentVotes ss proof ≤ 2 * totalVotes ss) :
    confirm env ss proof = .ok false := by
  rw [C14_decision env ss hdr proof hh hfit]
  congr 1
  apply decide_eq_false
  intro h; have := h.2; omega

/-- an empty proof never confirms a state that has stakers -/
theorem C14_empty (env : Env) (ss : Sealed) (hdr : Header) (hh : headerOf env ss = .ok hdr)
    (hfit : totalVotes ss ≤ U128_MAX) (hpos : 0 < totalVotes ss) :
    confirm env ss [] = .ok false := by
  -- (neither hypothesis is needed any more: with no stakers `0 * 3 > 0 * 2` is false as well, and a
  --  saturated total confirms nothing; see `C14_empty_any`)
  have _ := hpos
  have _ := hfit
  by_cases ht : totalVotes ss < U128_MAX
  · have hfit' : TalliesFit ss [] := ⟨ht, by simp [presentVotes]⟩
    apply C14_minority_rejected env ss hdr [] hh hfit'
    simp [presentVotes]
  · exact C14_saturated_total env ss hdr [] hh (by omega)

/-- an empty proof never confirms anything -/
theorem C14_empty_any (env : Env) (ss : Sealed) (hdr : Header) (hh : headerOf env ss = .ok hdr) :
    confirm env ss [] = .ok false := by
  by_cases ht : totalVotes ss < U128_MAX
  · apply C14_minority_rejected env ss hdr [] hh ⟨ht, by simp [presentVotes]⟩
    simp [presentVotes]
  · exact C14_saturated_total env ss hdr [] hh (by omega)

/-- a proof signed (validly) by every key holding an active stake confirms -/
theorem C14_unanimous (env : Env) (ss : Sealed) (hdr : Header) (proof : List (Bytes × Bytes))
    (hh : headerOf env ss = .ok hdr) (hfit : TalliesFit ss proof)
    (hv : ∀ e ∈ proof, validEntry env hdr e = true)
    (hnodup : (proof.map (·.1)).Nodup)
    (hall : ∀ d ∈ ss.st.stakes, StakeSet.active ss.st.epoch d.2 = true → d.2.pubkey ∈ proof.map (·.1))
    (hpos : 0 < totalVotes ss) :
    confirm env ss proof = .ok true := by
  apply C14_majority_confirms env ss hdr proof hh hfit hv
  have h := StakeSet.sum_votes_eq_total ss.st.stakes ss.st.epoch (proof.map (·.1)) hnodup hall
  have hp : presentVotes ss proof = totalVotes ss := by
    unfold presentVotes totalVotes
    rw [← h, List.map_map]
    rfl
  rw [hp]; omega

/-- adding a valid signature by a new key never turns a confirming proof into a non-confirming one -/
theorem C14_monotone (env : Env) (ss : Sealed) (hdr : Header) (proof : List (Bytes × Bytes))
    (e : Bytes × Bytes) (hh : headerOf env ss = .ok hdr)
    (hfit : TalliesFit ss (e :: proof)) (hfit' : TalliesFit ss proof)
    (hc : confirm env ss proof = .ok true) (hv : validEntry env hdr e = true) :
    confirm env ss (e :: proof) = .ok true := by
  rw [C14_decision env ss hdr proof hh hfit'] at hc
  have hc' : (∀ e ∈ proof, validEntry env hdr e = true) ∧
      3 * presentVotes ss proof > 2 * totalVotes ss := by
    have : decide ((∀ e ∈ proof, validEntry env hdr e = true) ∧
      3 * presentVotes ss proof > 2 * totalVotes ss) = true := by
      injection hc
    exact of_decide_eq_true this
  apply C14_majority_confirms env ss hdr (e :: proof) hh hfit
  · intro x hx
    rcases List.mem_cons.mp hx with rfl | hx
    · exact hv
    · exact hc'.1 x hx
  · have : presentVotes ss (e :: proof)
        = ss.st.stakes.votes ss.st.epoch e.1 + presentVotes ss proof := by
      simp [presentVotes]
    have := hc'.2
    omega

/-- what was wrong before the `fix:` commit (finding F15): the old comparison
    `total > present / 2 * 3` confirms an empty proof and rejects a unanimous one. -/
def oldEnough (total present : Nat) : Bool := decide (total > present / 2 * 3)
theorem C14_old_inverted : oldEnough 90 0 = true ∧ oldEnough 90 90 = false := by
  constructor <;> decide

end Mel

#print axioms Mel.C14_invalid_signature
#print axioms Mel.C14_decision_total
#print axioms Mel.C14_decision
#print axioms Mel.C14_confirm_total
#print axioms Mel.C14_confirm_never_crashes
#print axioms Mel.C14_no_vote_overflow_crash
#print axioms Mel.C14_saturated_total
#print axioms Mel.C14_exact_max_rejected
#print axioms Mel.C14_majority_confirms
#print axioms Mel.C14_minority_rejected
#print axioms Mel.C14_empty
#print axioms Mel.C14_empty_any
#print axioms Mel.C14_unanimous
#print axioms Mel.C14_monotone
#print axioms Mel.C14_old_inverted
