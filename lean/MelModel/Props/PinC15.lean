/-
  C15 — the constants the property's statement (and the recorded deviations) fix, pinned against the values regenerated
  from /repo's source on every run (Generated/Tables.lean): the legacy deposit window recorded as K-legacy-deposit.
  The model is parametric in these constants, so a changed constant would be followed silently by the model and the
  correspondence; these theorems are what turns such a change into a broken proof obligation.
-/
import MelModel.Generated.Tables
namespace Mel
open Mel.Gen

theorem C15_pin_LEGACY_DEPOSIT_HEIGHT : LEGACY_DEPOSIT_HEIGHT = 978392 := rfl

end Mel

#print axioms Mel.C15_pin_LEGACY_DEPOSIT_HEIGHT
