/-
  C05 — the constants the property's statement (and the recorded deviations) fix, pinned against the values regenerated
  from /repo's source on every run (Generated/Tables.lean): the proposer receives 1/65536 (= 2^-16) of the fee pool.
  The model is parametric in these constants, so a changed constant would be followed silently by the model and the
  correspondence; these theorems are what turns such a change into a broken proof obligation.
-/
import MelModel.Generated.Tables
namespace Mel
open Mel.Gen

theorem C05_pin_REWARD_SHIFT : REWARD_SHIFT = 16 := rfl

end Mel

#print axioms Mel.C05_pin_REWARD_SHIFT
