/-
  C01 — the constants the property's statement (and the recorded deviations) fix, pinned against the values regenerated
  from /repo's source on every run (Generated/Tables.lean): the issuance rules the conservation theorems allow for: the legacy deposit window, the peg throttlers, the TIP-909 subsidy schedule, the nobody-owned liquidity of a new builtin pool, and the heights at which those rules switch on.
  The model is parametric in these constants, so a changed constant would be followed silently by the model and the
  correspondence; these theorems are what turns such a change into a broken proof obligation.
-/
import MelModel.Generated.Tables
namespace Mel
open Mel.Gen

theorem C01_pin_LEGACY_DEPOSIT_HEIGHT : LEGACY_DEPOSIT_HEIGHT = 978392 := rfl
theorem C01_pin_THROTTLER_902 : THROTTLER_902 = 200 := rfl
theorem C01_pin_THROTTLER_PRE : THROTTLER_PRE = 1000 := rfl
theorem C01_pin_SUBSIDY_LOG2 : SUBSIDY_LOG2 = 20 := rfl
theorem C01_pin_SUBSIDY_HALVING : SUBSIDY_HALVING = 1000000 := rfl
theorem C01_pin_SUBSIDY_ERG_SHIFT : SUBSIDY_ERG_SHIFT = 8 := rfl
theorem C01_pin_BUILTIN_LIQ_MULT : BUILTIN_LIQ_MULT = 1000 := rfl
theorem C01_pin_TIP_902_HEIGHT : TIP_902_HEIGHT = 180000 := rfl
theorem C01_pin_TIP_909_HEIGHT : TIP_909_HEIGHT = 950000 := rfl
theorem C01_pin_TIP_909A_HEIGHT : TIP_909A_HEIGHT = 1048000 := rfl

end Mel

#print axioms Mel.C01_pin_LEGACY_DEPOSIT_HEIGHT
#print axioms Mel.C01_pin_THROTTLER_902
#print axioms Mel.C01_pin_THROTTLER_PRE
#print axioms Mel.C01_pin_SUBSIDY_LOG2
#print axioms Mel.C01_pin_SUBSIDY_HALVING
#print axioms Mel.C01_pin_SUBSIDY_ERG_SHIFT
#print axioms Mel.C01_pin_BUILTIN_LIQ_MULT
#print axioms Mel.C01_pin_TIP_902_HEIGHT
#print axioms Mel.C01_pin_TIP_909_HEIGHT
#print axioms Mel.C01_pin_TIP_909A_HEIGHT
