/-
  C18, over histories — the DOSC speed never decreases along the chain: batches only raise it (`C18_speed_monotone`,
  the maximum of the previous value and the speeds demonstrated by the batch's ERG mints), sealing and opening the next
  block leave it alone; consequently the speeds recorded in the headers of successive blocks are non-decreasing.
  Property theorems only; helper lemmas live in MelModel/Lemmas/HistL.lean.
-/
import MelModel.Chain
import MelModel.Props.C18
import MelModel.Props.C13Life
import MelModel.Props.Reach
import MelModel.Lemmas.HistL
namespace Mel
open Mel.Gen

/-- sealing, with or without a proposer action, keeps the DOSC speed -/
theorem C18_seal_keeps_speed (env : Env) (s : State) (a : Option ProposerAction) (ss : Sealed)
    (h : sealState env s a = .ok ss) : ss.st.doscSpeed = s.doscSpeed := HistL.sealState_speed h

/-- opening the next block keeps the DOSC speed -/
theorem C18_next_keeps_speed (env : Env) (ss : Sealed) (s' : State) (h : nextUnsealed env ss = .ok s') :
    s'.doscSpeed = ss.st.doscSpeed := HistL.nextUnsealed_speed h

/-- the header of a sealed block records the DOSC speed of the sealed state -/
theorem C18_header_records_speed (env : Env) (ss : Sealed) (hdr : Header) (h : headerOf env ss = .ok hdr) :
    hdr.doscSpeed = ss.st.doscSpeed := HistL.headerOf_speed h

/-- one step of the chain does not lower the DOSC speed -/
theorem C18_speed_monotone_step (env : Env) (s s' : State) (h : ChainStep env s s') : s.doscSpeed ≤ s'.doscSpeed := by
  cases h with
  | batch hb => exact C18_speed_monotone env _ _ _ _ hb
  | block hs hn => rw [HistL.nextUnsealed_speed hn, HistL.sealState_speed hs]; exact Nat.le_refl _

/-- **the DOSC speed never decreases along a history**: any number of accepted batches and sealed blocks -/
theorem C18_speed_monotone_run (env : Env) (s s' : State) (h : ChainRun env s s') : s.doscSpeed ≤ s'.doscSpeed := by
  induction h with
  | refl => exact Nat.le_refl _
  | step _ hstep ih => exact Nat.le_trans ih (C18_speed_monotone_step env _ _ hstep)

/-- **header speeds are monotone**: the DOSC speed recorded in the header of a later sealed block is at least the
    one recorded in the header of an earlier sealed block (block 1 is sealed from `s₁` and followed by `n₁`; any run
    leads from `n₁` to `s₂`, from which block 2 is sealed) -/
theorem C18_header_speed_monotone (env : Env) (s₁ n₁ s₂ : State) (a₁ a₂ : Option ProposerAction)
    (ss₁ ss₂ : Sealed) (hdr₁ hdr₂ : Header)
    (hs₁ : sealState env s₁ a₁ = .ok ss₁) (hh₁ : headerOf env ss₁ = .ok hdr₁) (hn₁ : nextUnsealed env ss₁ = .ok n₁)
    (hrun : ChainRun env n₁ s₂)
    (hs₂ : sealState env s₂ a₂ = .ok ss₂) (hh₂ : headerOf env ss₂ = .ok hdr₂) :
    hdr₁.doscSpeed ≤ hdr₂.doscSpeed := by
  have _ := hs₁
  rw [HistL.headerOf_speed hh₁, HistL.headerOf_speed hh₂, HistL.sealState_speed hs₂, ← HistL.nextUnsealed_speed hn₁]
  exact C18_speed_monotone_run env n₁ s₂ hrun

/-- one step keeps the recorded speeds sorted and below the current speed -/
theorem C18_speedHist_step (env : Env) (s s' : State) (h : ChainStep env s s') (hi : HistL.SpeedHist s) :
    HistL.SpeedHist s' := by
  cases h with
  | batch hb =>
    obtain ⟨e1, e2, -⟩ := applyBatch_hhn _ _ _ _ _ hb
    exact HistL.speedHist_same hi e1 e2 (C18_speed_monotone env _ _ _ _ hb)
  | @block ss a hs hn =>
    obtain ⟨e1, e2, -⟩ := sealState_hhn _ _ _ _ hs
    have hi' : HistL.SpeedHist ss.st := HistL.speedHist_same hi e1 e2 (Nat.le_of_eq (HistL.sealState_speed hs).symm)
    obtain ⟨hdr, hh, f1, f2, -⟩ := nextUnsealed_ok _ _ _ hn
    exact HistL.speedHist_next hi' (HistL.headerOf_speed hh) f1 f2 (HistL.nextUnsealed_speed hn)

/-- **the history of every reachable state records non-decreasing speeds**, none above the current speed: for
    heights `h₁ ≤ h₂` with recorded headers `x₁`, `x₂`: `x₁.doscSpeed ≤ x₂.doscSpeed ≤ s.doscSpeed` -/
theorem C18_history_speeds_sorted (env : Env) (s : State) (h : Reachable env s) (h₁ h₂ : Nat) (x₁ x₂ : Header)
    (hle : h₁ ≤ h₂) (g₁ : s.history.get h₁ = some x₁) (g₂ : s.history.get h₂ = some x₂) :
    x₁.doscSpeed ≤ x₂.doscSpeed ∧ x₂.doscSpeed ≤ s.doscSpeed := by
  have hi : HistL.SpeedHist s := by
    clear g₁ g₂
    induction h with
    | genesis cfg => exact HistL.speedHist_genesis cfg
    | batch _ _ hb ih => exact C18_speedHist_step env _ _ (.batch hb) ih
    | block _ _ hs hn ih => exact C18_speedHist_step env _ _ (.block hs hn) ih
  exact ⟨hi.sorted h₁ h₂ x₁ x₂ hle g₁ g₂, hi.le h₂ x₂ g₂⟩

/-- non-vacuity: a run with a batch and a sealed block exists (the witness of Props/Reach.lean), and the header
    recorded for block 0 carries the genesis speed -/
theorem C18_run_nonvacuous :
    ∃ (env : Env) (s s' : State) (x : Header), ChainRun env s s' ∧ s.height < s'.height ∧
      s'.history.get 0 = some x ∧ x.doscSpeed = s.doscSpeed := by
  open ReachWitness in
  refine ⟨env, genesisState cfg, s2, (getOk (headerOf env ss)),
    .step (.step (.refl _) (.batch batch_ok)) (.block seal_ok next_ok), by decide +kernel, by decide +kernel,
    by decide +kernel⟩

end Mel

#print axioms Mel.C18_seal_keeps_speed
#print axioms Mel.C18_next_keeps_speed
#print axioms Mel.C18_header_records_speed
#print axioms Mel.C18_speed_monotone_step
#print axioms Mel.C18_speed_monotone_run
#print axioms Mel.C18_header_speed_monotone
#print axioms Mel.C18_speedHist_step
#print axioms Mel.C18_history_speeds_sorted
#print axioms Mel.C18_run_nonvacuous
