/-
  C18 — the constants the property's statement (and the recorded deviations) fix, pinned against the values regenerated
  from /repo's source on every run (Generated/Tables.lean): the TIP-910 work and speed factors, the reward divisor (2880 blocks), the minimum coin age on Mainnet, the DOSC inflator.
  The model is parametric in these constants, so a changed constant would be followed silently by the model and the
  correspondence; these theorems are what turns such a change into a broken proof obligation.
-/
import MelModel.Generated.Tables
namespace Mel
open Mel.Gen

theorem C18_pin_TIP910_SPEED_FACTOR : TIP910_SPEED_FACTOR = 100 := rfl
theorem C18_pin_TIP910_WORK_FACTOR : TIP910_WORK_FACTOR = 100 := rfl
theorem C18_pin_REWARD_DIVISOR : REWARD_DIVISOR = 2880 := rfl
theorem C18_pin_DOSCMINT_MIN_AGE : DOSCMINT_MIN_AGE = 100 := rfl
theorem C18_pin_INFLATOR_DIV : INFLATOR_DIV = 2000000 := rfl

end Mel

#print axioms Mel.C18_pin_TIP910_SPEED_FACTOR
#print axioms Mel.C18_pin_TIP910_WORK_FACTOR
#print axioms Mel.C18_pin_REWARD_DIVISOR
#print axioms Mel.C18_pin_DOSCMINT_MIN_AGE
#print axioms Mel.C18_pin_INFLATOR_DIV
