/-
  C04 — A coin is spent only when its covenant approves that very spend.
  Property theorems only; helper lemmas live in MelModel/Lemmas/Cov.lean (and, for the first-block environment,
  MelModel/Lemmas/SeqL.lean).
-/
import MelModel.ApplyTx
import MelModel.VM.Std
import MelModel.Lemmas.Cov
import MelModel.Lemmas.SeqL
namespace Mel
open Mel.Gen Mel.VM

/-- the spending environment of input number `i` of `tx`, spending `coin` -/
def spendEnv (s : State) (fb : Header) (_tx : Tx) (i : Nat) (id : CoinID) (coin : CoinDataHeight) : CovEnv :=
  { parentCoinID := id, parentCdh := coin, spenderIndex := i % 256, lastHeader := lastHeaderOf s fb }

/-- "the covenant of `coin` approves this spend": the transaction carries bytes hashing to the coin's
    covenant hash, they decode, and the program evaluates to a true value in this input's own environment -/
def Approves (env : Env) (s : State) (fb : Header) (tx : Tx) (i : Nat) (id : CoinID) (coin : CoinDataHeight) : Prop :=
  ∃ bytes ops v, tx.findCovenant coin.coinData.covhash = some bytes ∧ decodeAll bytes = some ops ∧
    execute env.vm ops tx (some (spendEnv s fb tx i id coin)) = some v ∧ v.intoBool = true

/-- **the gate**: in an accepted batch every input of every transaction is approved by its coin's covenant,
    evaluated against that transaction and that coin's own environment -/
theorem C04_gate (env : Env) (s s' : State) (txs : List Tx) (fb : Header)
    (h : applyBatch env s txs fb = .ok s') (tx : Tx) (htx : tx ∈ txs) (i : Nat) (hi : i < tx.inputs.length) :
    ∃ rel coin, loadRelevantCoins s txs = .ok rel ∧ rel.get tx.inputs[i] = some coin ∧
      Approves env s fb tx i tx.inputs[i] coin := by
  unfold applyBatch at h
  cases hrel : loadRelevantCoins s txs with
  | reject e => rw [hrel] at h; simp [Outcome.bind] at h
  | crash c => rw [hrel] at h; simp [Outcome.bind] at h
  | ok rel =>
    rw [hrel] at h
    simp only [Outcome.bind] at h
    cases hst : loadStakeInfo s txs with
    | reject e => rw [hst] at h; simp at h
    | crash c => rw [hst] at h; simp at h
    | ok newStakes =>
      rw [hst] at h
      simp only at h
      cases hall : Outcome.forM' (fun tx => checkTxValidity env s (lastHeaderOf s fb) tx rel newStakes) txs with
      | reject e => rw [hall] at h; simp at h
      | crash c => rw [hall] at h; simp at h
      | ok u =>
        have hv := forM'_ok_mem _ txs hall tx htx
        obtain ⟨coin, hget, hval⟩ := checkTxValidity_ok_input env s (lastHeaderOf s fb) tx rel newStakes hv i hi
        exact ⟨rel, coin, rfl, hget, (validateTxScripts_ok_iff env i tx.inputs[i] tx coin (lastHeaderOf s fb)).mp hval⟩

/-- one-input view of `validate_tx_scripts`: it succeeds exactly when the covenant approves -/
theorem C04_validate_iff (env : Env) (s : State) (fb : Header) (tx : Tx) (i : Nat) (id : CoinID) (coin : CoinDataHeight) :
    validateTxScripts env i id tx coin (lastHeaderOf s fb) = .ok () ↔ Approves env s fb tx i id coin := by
  exact validateTxScripts_ok_iff env i id tx coin (lastHeaderOf s fb)

/-- a missing covenant is rejected -/
theorem C04_missing (env : Env) (spendIdx : Nat) (id : CoinID) (tx : Tx) (coin : CoinDataHeight) (lh : Header)
    (h : tx.findCovenant coin.coinData.covhash = none) :
    validateTxScripts env spendIdx id tx coin lh = .reject .nonexistentScript := by
  unfold validateTxScripts
  rw [h]

/-- an undecodable covenant is rejected -/
theorem C04_undecodable (env : Env) (spendIdx : Nat) (id : CoinID) (tx : Tx) (coin : CoinDataHeight) (lh : Header)
    (bytes : Bytes) (h : tx.findCovenant coin.coinData.covhash = some bytes) (hd : decodeAll bytes = none) :
    validateTxScripts env spendIdx id tx coin lh = .reject .malformedTx := by
  unfold validateTxScripts
  rw [h]
  simp only [hd]

/-- a covenant that fails or evaluates to zero is rejected -/
theorem C04_false (env : Env) (spendIdx : Nat) (id : CoinID) (tx : Tx) (coin : CoinDataHeight) (lh : Header)
    (bytes : Bytes) (ops : List Op) (h : tx.findCovenant coin.coinData.covhash = some bytes)
    (hd : decodeAll bytes = some ops)
    (hv : ∀ v, execute env.vm ops tx (some { parentCoinID := id, parentCdh := coin, spenderIndex := spendIdx % 256, lastHeader := lh }) = some v → v.intoBool = false) :
    validateTxScripts env spendIdx id tx coin lh = .reject .violatesScript := by
  unfold validateTxScripts
  rw [h]
  simp only [hd]
  cases he : execute env.vm ops tx
      (some { parentCoinID := id, parentCdh := coin, spenderIndex := spendIdx % 256, lastHeader := lh }) with
  | none => rfl
  | some v => simp [hv v he]

/-- the environment: the eleven documented items sit at heap addresses 0–10 -/
theorem C04_env (tx : Tx) (e : CovEnv) :
    let h := heapOfEnv tx (some e)
    h.get 0 = some (valOfTx tx) ∧ h.get 1 = some (.bytes tx.hash) ∧
    h.get 2 = some (.bytes e.parentCoinID.txhash) ∧ h.get 3 = some (.ofNat e.parentCoinID.index) ∧
    h.get 4 = some (.bytes e.parentCdh.coinData.covhash) ∧ h.get 5 = some (.ofNat e.parentCdh.coinData.value) ∧
    h.get 6 = some (.bytes e.parentCdh.coinData.denom.toBytes) ∧
    h.get 7 = some (.bytes e.parentCdh.coinData.additionalData) ∧ h.get 8 = some (.ofNat e.parentCdh.height) ∧
    h.get 9 = some (.ofNat e.spenderIndex) ∧ h.get 10 = some (valOfHeader e.lastHeader) := by
  simp [heapOfEnv, Heap.get, HADDR_SPENDER_TX, HADDR_SPENDER_INDEX, HADDR_SPENDER_TXHASH,
    HADDR_PARENT_TXHASH, HADDR_PARENT_INDEX, HADDR_SELF_HASH, HADDR_PARENT_VALUE, HADDR_PARENT_DENOM,
    HADDR_PARENT_ADDITIONAL_DATA, HADDR_PARENT_HEIGHT, HADDR_LAST_HEADER]

/-- **the environment in the first block** (finding F25): in a state without previous header the header covenants
    see is the stand-in `genesisStandIn s` — network, height, fee multiplier and DOSC speed of the state, every root
    and the fee pool zero — whatever fallback header is passed.  (Before the `fix:` it was the header of the current
    block sealed as it stood, which changes with every transaction applied.) -/
theorem C04_first_block_env (s : State) (fb : Header) (tx : Tx) (i : Nat) (id : CoinID) (coin : CoinDataHeight)
    (hn : s.history.get (s.height - 1) = none) :
    (spendEnv s fb tx i id coin).lastHeader = genesisStandIn s := by
  simp only [spendEnv, lastHeaderOf, hn, Option.getD_none]

/-- in a later block it is the previous header -/
theorem C04_later_block_env (s : State) (fb : Header) (tx : Tx) (i : Nat) (id : CoinID) (coin : CoinDataHeight)
    (hdr : Header) (hp : s.history.get (s.height - 1) = some hdr) :
    (spendEnv s fb tx i id coin).lastHeader = hdr := by
  simp only [spendEnv, lastHeaderOf, hp, Option.getD_some]

/-- the stand-in is unchanged by an accepted batch that leaves the DOSC speed alone (`applyBatch` keeps network,
    height and fee multiplier) -/
theorem C04_standIn_stable (env : Env) (s s' : State) (txs : List Tx) (fb : Header)
    (h : applyBatch env s txs fb = .ok s') (hd : s'.doscSpeed = s.doscSpeed) :
    genesisStandIn s' = genesisStandIn s :=
  SeqL.batch_standIn h hd

/-- … which is the case of every accepted batch without DoscMint transaction -/
theorem C04_standIn_stable_noMint (env : Env) (s s' : State) (txs : List Tx) (fb : Header)
    (h : applyBatch env s txs fb = .ok s') (hk : ∀ tx ∈ txs, tx.kind ≠ .doscMint) :
    genesisStandIn s' = genesisStandIn s :=
  SeqL.batch_standIn h (SeqL.batch_speed_noMint h hk)

/-- … and of every accepted batch in the first block: a DoscMint transaction is accepted only where the previous
    header exists (`validateDoscmint` reads its speed), so where the stand-in is used nothing can change it.  The
    state after still has no previous header, so its covenants see the same stand-in. -/
theorem C04_first_block_standIn_stable (env : Env) (s s' : State) (txs : List Tx) (fb : Header)
    (hn : s.history.get (s.height - 1) = none) (h : applyBatch env s txs fb = .ok s') :
    genesisStandIn s' = genesisStandIn s ∧ s'.history.get (s'.height - 1) = none := by
  obtain ⟨-, e2, -, e1, -⟩ := SeqL.batch_keeps h
  exact ⟨SeqL.batch_standIn h (SeqL.batch_speed_first h hn), by rw [e1, e2]; exact hn⟩

/-- **the environment is fixed for the block**: after any accepted batch the spending environment of a given input
    is what it was before, in every state (first block included) and whatever fallbacks are passed -/
theorem C04_env_stable (env : Env) (s s' : State) (txs : List Tx) (fb fb₁ fb₂ : Header)
    (h : applyBatch env s txs fb = .ok s') (tx : Tx) (i : Nat) (id : CoinID) (coin : CoinDataHeight) :
    spendEnv s' fb₁ tx i id coin = spendEnv s fb₂ tx i id coin := by
  simp only [spendEnv, SeqL.batch_lastHeader h fb₁ fb₂]

/-- standard covenant (new style): approves iff the signature in the slot numbered by the input position is a
    valid Ed25519 signature of the signature-free transaction hash by the named key -/
theorem C04_std_new (o : Oracles) (pk : Bytes) (hpk : pk.length = 32) (tx : Tx) (e : CovEnv)
    (hh : tx.hash.length ≤ 32) (hidx : e.spenderIndex < 256) :
    (∃ v, execute o (stdEd25519New pk) tx (some e) = some v ∧ v.intoBool = true) ↔
    (∃ sig, tx.sigs[e.spenderIndex]? = some sig ∧ sig.length = 64 ∧ o.sigOk pk tx.hash sig = true) := by
  rw [execute_stdNew o pk hpk tx e hh hidx]
  exact stdResult_iff o pk tx e.spenderIndex

/-- standard covenant (legacy): the same with signature slot 0 whatever the input position -/
theorem C04_std_legacy (o : Oracles) (pk : Bytes) (hpk : pk.length = 32) (tx : Tx) (e : Option CovEnv)
    (hh : tx.hash.length ≤ 32) :
    (∃ v, execute o (stdEd25519Legacy pk) tx e = some v ∧ v.intoBool = true) ↔
    (∃ sig, tx.sigs[0]? = some sig ∧ sig.length = 64 ∧ o.sigOk pk tx.hash sig = true) := by
  rw [execute_stdLegacy o pk hpk tx e hh]
  exact stdResult_iff o pk tx 0

/-- **the position among the inputs is a byte.** The environment a covenant sees carries the input's
    position reduced mod 256 (`validate_tx_scripts` casts the index to `u8`; `validateTxScripts` builds the
    environment with `spenderIndex := spendIdx % 256`) … -/
theorem C04_spender_index_wraps (s : State) (fb : Header) (tx : Tx) (i : Nat) (id : CoinID)
    (coin : CoinDataHeight) : (spendEnv s fb tx i id coin).spenderIndex = i % 256 := rfl

/-- … so input number 256 is told it is input number 0 (and a covenant of the same coin could not tell
    the two positions apart) -/
theorem C04_spender_index_wraps_256 (s : State) (fb : Header) (tx : Tx) (id : CoinID)
    (coin : CoinDataHeight) :
    (spendEnv s fb tx 256 id coin).spenderIndex = 0 ∧
    spendEnv s fb tx 256 id coin = spendEnv s fb tx 0 id coin := ⟨rfl, rfl⟩

end Mel

#print axioms Mel.C04_gate
#print axioms Mel.C04_validate_iff
#print axioms Mel.C04_missing
#print axioms Mel.C04_undecodable
#print axioms Mel.C04_false
#print axioms Mel.C04_env
#print axioms Mel.C04_first_block_env
#print axioms Mel.C04_later_block_env
#print axioms Mel.C04_standIn_stable
#print axioms Mel.C04_standIn_stable_noMint
#print axioms Mel.C04_first_block_standIn_stable
#print axioms Mel.C04_env_stable
#print axioms Mel.C04_std_new
#print axioms Mel.C04_std_legacy
#print axioms Mel.C04_spender_index_wraps
#print axioms Mel.C04_spender_index_wraps_256
