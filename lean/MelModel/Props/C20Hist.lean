/-
  C20 for RESTORED and for sealed REACHABLE states — the count invariant survives a restart: the state restored from
  the block of a sealed state has that state's coin map, hence the invariant; every state sealed from a reachable
  state satisfies the invariant once TIP-906 is active; so the state restored from a reachable chain, and the block
  opened on it, satisfy it too.  (`Props/C20.lean` has the coin-map level, `Props/Reach.lean` the lift to reachable
  unsealed states `C20_reachable` and the seal step `reach_seal_inv`, `Props/C08.lean` the round trip
  `C08_roundtrip`.)
  Property theorems only.
-/
import MelModel.Chain
import MelModel.Props.C20
import MelModel.Props.C08
import MelModel.Props.Reach
import MelModel.Props.C08Reach
import MelModel.Props.C09Reach
namespace Mel
open Mel.Gen

/-- 8. **the invariant survives a restart**: restoring from a block with the stake set and the trees of the sealed
    state `ss` gives a state with the coin map of `ss` — whatever the block — hence with the count invariant -/
theorem C20_restored (ss : Sealed) (blk : Block) (h : CountsOk ss.st.coins) :
    (fromBlock blk ss.st.stakes ss.st.coins ss.st.history ss.st.pools).st.coins = ss.st.coins ∧
    CountsOk (fromBlock blk ss.st.stakes ss.st.coins ss.st.history ss.st.pools).st.coins :=
  ⟨rfl, h⟩

/-- … and restoring from the block written out of `ss` itself gives back `ss` up to the pending tips
    (`C08_roundtrip`), so the whole structural invariant `Inv`, not only the counts, survives -/
theorem C20_restored_inv (env : Env) (ss : Sealed) (blk : Block) (h : toBlock env ss = .ok blk) (hi : Inv ss.st) :
    Inv (fromBlock blk ss.st.stakes ss.st.coins ss.st.history ss.st.pools).st := by
  rw [C08_roundtrip env ss blk h ((C08_txsSorted_iff_sortedTxs _).mpr hi.sorted)]
  exact {
    coinKeys := hi.coinKeys
    counts := hi.counts
    noCounts := hi.noCounts
    heights := hi.heights
    historyBelow := hi.historyBelow
    historyFull := hi.historyFull
    historyHeights := hi.historyHeights
    speedPos := hi.speedPos
    speeds := hi.speeds
    sorted := hi.sorted
    poolKeys := hi.poolKeys }

/-- **every sealed reachable state satisfies the invariant**: a state obtained by `sealState` from a `ReachableSep`
    state whose reward pseudo-coin id is fresh satisfies `Inv`; with TIP-906 active its per-covenant counts are
    exactly the numbers of unspent coins (from `reach_seal_inv`) -/
theorem C20_reachable_sealed (env : Env) (s : State) (a : Option ProposerAction) (ss : Sealed)
    (hr : ReachableSep env s) (hf : RewardFresh env s) (hs : sealState env s a = .ok ss)
    (h906 : ss.st.tip906 = true) :
    CountsOk ss.st.coins ∧
    (∀ c, ss.st.coins.coinCount c = coinsWith ss.st.coins c) ∧ (∀ e ∈ ss.st.coins.counts, e.2 ≠ 0) := by
  obtain ⟨hi, hsl⟩ := reachable_inv_slots env s hr
  have hc := (reach_seal_inv env s a ss hi hsl hf hs).counts h906
  exact ⟨hc, hc.2.2.1, hc.2.2.2⟩

/-- TIP-906 is active in the sealed state iff it is in the state that was sealed -/
theorem C20_sealed_tip906 (env : Env) (s : State) (a : Option ProposerAction) (ss : Sealed)
    (hs : sealState env s a = .ok ss) : ss.st.tip906 = s.tip906 := by
  obtain ⟨-, e2, e3⟩ := sealState_hhn env s a ss hs
  exact C3.tip906_eq e3 e2

/-- **restart of a reachable chain**: a state sealed from a reachable state can be written out as a block; the state
    restored from that block satisfies `Inv` — with TIP-906 active, the count invariant — and so does the block opened
    on it: the counts stay right across a restart -/
theorem C20_restart_reachable (env : Env) (s : State) (a : Option ProposerAction) (ss : Sealed)
    (hr : ReachableSep env s) (hf : RewardFresh env s) (hs : sealState env s a = .ok ss) :
    ∃ blk, toBlock env ss = .ok blk ∧
      Inv (fromBlock blk ss.st.stakes ss.st.coins ss.st.history ss.st.pools).st ∧
      (ss.st.tip906 = true → CountsOk (fromBlock blk ss.st.stakes ss.st.coins ss.st.history ss.st.pools).st.coins) ∧
      ∀ n, nextUnsealed env (fromBlock blk ss.st.stakes ss.st.coins ss.st.history ss.st.pools) = .ok n →
        Inv n ∧ (n.tip906 = true → CountsOk n.coins) := by
  obtain ⟨hi, hsl⟩ := reachable_inv_slots env s hr
  have his := reach_seal_inv env s a ss hi hsl hf hs
  obtain ⟨blk, hb, -⟩ := C08_restart_reachable env s a ss hr.reachable hs
  have hir := C20_restored_inv env ss blk hb his
  refine ⟨blk, hb, hir, fun h906 => (C20_restored ss blk (his.counts h906)).2, fun n hn => ?_⟩
  have hin := reach_next_inv env _ n hir hn
  exact ⟨hin, hin.counts⟩

/-! ### non-vacuity on literals -/

/-- non-vacuity: the state `s1` of `C09ReachWitness` (genesis of a custom network — TIP-906 active from the start —
    then a batch with a swap transaction) is `ReachableSep`, its reward id is fresh, it is sealed, and the sealed
    state has coins locked by covenant hash `[8]`, counted right -/
theorem C20_reachable_sealed_nonvacuous :
    ∃ (env : Env) (s : State) (ss : Sealed), ReachableSep env s ∧ RewardFresh env s ∧
      sealState env s none = .ok ss ∧ ss.st.tip906 = true ∧ CountsOk ss.st.coins ∧
      ss.st.coins.coinCount [8] = 1 ∧ coinsWith ss.st.coins [8] = 1 := by
  open C09ReachWitness in
  have h906 : ss1.st.tip906 = true := by decide +kernel
  have hc := C20_reachable_sealed ReachWitness.env s1 none ss1 s1_reachable.sep rewardFresh1 seal1_ok h906
  have h1 : ss1.st.coins.coinCount [8] = 1 := by decide +kernel
  exact ⟨ReachWitness.env, s1, ss1, s1_reachable.sep, rewardFresh1, seal1_ok, h906, hc.1, h1,
    (hc.2.1 [8]).symm.trans h1⟩

end Mel

#print axioms Mel.C20_restored
#print axioms Mel.C20_restored_inv
#print axioms Mel.C20_reachable_sealed
#print axioms Mel.C20_sealed_tip906
#print axioms Mel.C20_restart_reachable
#print axioms Mel.C20_reachable_sealed_nonvacuous
