/-
  C06 over HISTORIES — on top of every sealed reachable state every honest block is accepted (the
  `assert!(pools.count() >= 2)` of `apply_block` can never fire); and, with collision-free roots, the sharp form of
  "changing a transaction or the action makes the block rejected": two accepted blocks with the same header on the
  same parent have the same transactions and actions of the same effect; and an honest block is accepted whatever
  the order its transactions are offered in.
  Property theorems only; helper lemmas live in MelModel/Lemmas/BlockHistL.lean and MelModel/Lemmas/SealCongL.lean
  (`sealState` respects `BatchEquiv`).
-/
import MelModel.Props.C06
import MelModel.Props.C07Chain
import MelModel.Props.C07Hist
import MelModel.Props.C09Reach
import MelModel.Lemmas.BlockHistL
import MelModel.Lemmas.SeqL
import MelModel.Lemmas.SealCongL
namespace Mel
open Mel.Gen Mel.TotalSealL

/-! ### honest blocks on reachable states -/

/-- a state opened on top of a sealed `ReachableB` state has (at least) the MEL/SYM and the MEL/ERG pool -/
theorem C06_reachableB_two_pools {env : Env} {s : State} (h : ReachableB env s) (hpos : 0 < s.height) :
    2 ≤ s.pools.length := by
  obtain ⟨p1, h1, -⟩ := C16_builtins_reachable h hpos poolMelSym (by simp)
  obtain ⟨p2, h2, -⟩ := C16_builtins_reachable h hpos poolMelErg (by simp)
  have := two_le_length_of_get poolMelSym_ne_poolMelErg (by rw [h1]; rfl) (by rw [h2]; rfl)
  omega

/-- 4. **every honest block on top of a sealed reachable state is accepted** — `C06_honest` without the hypothesis
    `2 ≤ basis.pools.length`: the parent `ss` is any seal of a `ReachableB` state `s` (with the step assumptions
    `SealBounds`, `RewardFresh` of that seal), so the state `basis` opened on it is `ReachableB` at a height > 0 and
    holds the two builtin pools (`PoolsInv.priced`, `C16_builtins_reachable`) -/
theorem C06_honest_reachable (env : Env) (s : State) (a0 a : Option ProposerAction) (ss sealed : Sealed)
    (basis u : State) (txs : List Tx) (hdr fb : Header)
    (hr : ReachableB env s) (hb : SealBounds s) (hrf : RewardFresh env s)
    (h0 : sealState env s a0 = .ok ss) (h1 : nextUnsealed env ss = .ok basis)
    (h2 : applyBatch env basis txs fb = .ok u) (h3 : sealState env u a = .ok sealed)
    (h4 : headerOf env sealed = .ok hdr) :
    applyBlock env ss { header := hdr, transactions := txs, action := a } = .ok sealed := by
  have hrb : ReachableB env basis := .block hr hrf hb h0 h1
  obtain ⟨-, -, -, f2, -⟩ := nextUnsealed_ok _ _ _ h1
  exact C06_honest env ss sealed basis u txs a hdr fb h1 (C06_reachableB_two_pools hrb (by omega)) h2 h3 h4

/-- … in particular the assertion of `apply_block` never fires on a sealed reachable state: whatever the block, the
    outcome is not the crash `assert!(pools.count() >= 2)` — the only crash `applyBlock` adds to those of its parts -/
theorem C06_assert_never_fires (env : Env) (s : State) (a0 : Option ProposerAction) (ss : Sealed) (basis : State)
    (hr : ReachableB env s) (hb : SealBounds s) (hrf : RewardFresh env s)
    (h0 : sealState env s a0 = .ok ss) (h1 : nextUnsealed env ss = .ok basis) : 2 ≤ basis.pools.length := by
  have hrb : ReachableB env basis := .block hr hrf hb h0 h1
  obtain ⟨-, -, -, f2, -⟩ := nextUnsealed_ok _ _ _ h1
  exact C06_reachableB_two_pools hrb (by omega)

/-- … and the block that `to_block` makes of the honest successor is accepted: the full producer path (seal the
    parent, open the next block, apply a batch, seal, `to_block`) followed by `apply_block` on the parent -/
theorem C06_produced_block_accepted (env : Env) (s : State) (a0 a : Option ProposerAction) (ss sealed : Sealed)
    (basis u : State) (txs : List Tx) (fb : Header)
    (hr : ReachableB env s) (hb : SealBounds s) (hrf : RewardFresh env s)
    (h0 : sealState env s a0 = .ok ss) (h1 : nextUnsealed env ss = .ok basis)
    (h2 : applyBatch env basis txs fb = .ok u) (h3 : sealState env u a = .ok sealed) :
    ∃ hdr, headerOf env sealed = .ok hdr ∧
      applyBlock env ss { header := hdr, transactions := txs, action := a } = .ok sealed := by
  have hrb : ReachableB env basis := .block hr hrf hb h0 h1
  have hc : BlockHistL.HistChain env u := BlockHistL.histChain_batch h2 (reachable_histChain hrb.reachable)
  obtain ⟨e1, e2, -⟩ := sealState_hhn _ _ _ _ h3
  obtain ⟨hdr, hh⟩ := ReachL.headerOf_total env sealed (by rw [e1, e2]; exact hc.full)
  exact ⟨hdr, hh, C06_honest_reachable env s a0 a ss sealed basis u txs hdr fb hr hb hrf h0 h1 h2 h3 hh⟩

/-! ### the transactions of a block are a set -/

/-- 5. **an honest block is accepted whatever the order its transactions are offered in** (`HashSet<Transaction>`
    has no order): if the block built from the batch `txs` has header `hdr`, then the block with the same header
    and action and any permutation `txs'` of `txs` is accepted, and the state it yields has header `hdr` and is
    observationally equivalent (`BatchEquiv`) to the honest one.

    Route: `C03_perm` gives an equivalent state after the batch (its side conditions: the hashes are distinct —
    implied by acceptance, `C03_accepted_fresh`; the count invariant, the sorted (here: empty) transaction list —
    discharged by reachability; what remains are the hash assumptions `fresh`, `markers`, `gfMarkers` and the
    typing bounds on fee pool and tips); `BatchEquiv` is weaker than equality (the coin and stake association lists
    may be ordered differently), so `sealState` is shown to respect it (`SealCongL.sealState_cong`, a congruence
    proof through Melmint, the subsidy and the proposer action) and `headerOf` respects it once the roots are
    functions of the maps' content.

    ADDED `hx : RootsExtensional env` (false without it, see `C06_any_order_needs_extensional`): the model keeps coins
    and stakes in association lists and `Env.coinsRoot` is an arbitrary function of the list; the sparse Merkle tree
    of the implementation is a function of the content. -/
theorem C06_honest_any_order (env : Env) (hx : RootsExtensional env) (s : State) (a0 a : Option ProposerAction)
    (ss sealed : Sealed) (basis u : State) (txs txs' : List Tx) (hdr fb : Header)
    (hr : ReachableB env s) (hb : SealBounds s) (hrf : RewardFresh env s)
    (h0 : sealState env s a0 = .ok ss) (h1 : nextUnsealed env ss = .ok basis)
    (h906 : basis.tip906 = true) (hp : txs.Perm txs')
    (fresh : ∀ t ∈ txs, ∀ i, basis.coins.getCoin ⟨t.hash, i⟩ = none)
    (markers : ∀ t ∈ txs, t.kind = .faucet → env.isGrandfathered t.hash = false →
              (∀ v ∈ txs, (⟨env.fdp t.hash, 0⟩ : CoinID) ∉ v.inputs ∧ env.fdp t.hash ≠ v.hash) ∧
              (∀ v ∈ txs, v.kind = .faucet → env.fdp v.hash = env.fdp t.hash → v = t))
    (gfMarkers : ∀ t ∈ txs, t.kind = .faucet → env.isGrandfathered t.hash = true →
              ∀ v ∈ txs, (⟨env.fdp t.hash, 0⟩ : CoinID) ∉ v.inputs)
    (hfee : basis.feePool ≤ U128_MAX) (htips : basis.tips ≤ U128_MAX)
    (h2 : applyBatch env basis txs fb = .ok u) (h3 : sealState env u a = .ok sealed)
    (h4 : headerOf env sealed = .ok hdr) :
    ∃ sealed', applyBlock env ss { header := hdr, transactions := txs', action := a } = .ok sealed' ∧
      headerOf env sealed' = .ok hdr ∧ sealed'.action = a ∧ BatchEquiv sealed.st sealed'.st := by
  have hrb : ReachableB env basis := .block hr hrf hb h0 h1
  obtain ⟨-, -, -, f2, -⟩ := nextUnsealed_ok _ _ _ h1
  have hpools : 2 ≤ basis.pools.length := C06_reachableB_two_pools hrb (by omega)
  have hbt : basis.txs = [] := ReachL.nextUnsealed_txs h1
  obtain ⟨u', g2, eu⟩ := C03_perm env basis u txs txs' fb hp
    { hashes := (C03_accepted_fresh env basis u txs fb h2).1, markers := markers, gfMarkers := gfMarkers,
      fresh := fresh, counts := (countsFine_iff _).mpr (hrb.inv.counts h906),
      sorted := by rw [hbt]; trivial, feePool := hfee, tips := htips } h2
  obtain ⟨sealed', g3, ga, es⟩ := SealCongL.sealState_cong env u u' a sealed eu h3
  have g4 : headerOf env sealed' = .ok hdr := by rw [C07_header_respects_equiv env hx sealed sealed' es]; exact h4
  exact ⟨sealed', C06_honest env ss sealed' basis u' txs' a hdr fb h1 hpools g2 g3 g4, g4,
    ga.trans (sealState_action env u a sealed h3), es⟩

/-! ### same parent, same header ⇒ same content -/

/-- the fee multiplier a block's action leaves: unchanged without an action, moved by the action's delta otherwise -/
def blockActionMultiplier (m : Nat) (tip901 : Bool) : Option ProposerAction → Nat
  | none => m
  | some a => moveFeeMultiplier m a.feeMultiplierDelta tip901

/-- an accepted block, taken apart, with what its parts keep -/
theorem C06_applyBlock_parts {env : Env} {ss s' : Sealed} {blk : Block} (h : applyBlock env ss blk = .ok s') :
    ∃ basis applied, nextUnsealed env ss = .ok basis ∧
      applyBatch env basis blk.transactions default = .ok applied ∧
      sealState env applied blk.action = .ok s' ∧ headerOf env s' = .ok blk.header ∧
      s'.st.height = basis.height ∧ s'.st.network = basis.network ∧
      applied.height = basis.height ∧ applied.network = basis.network ∧
      applied.feeMultiplier = basis.feeMultiplier ∧
      (blk.transactions.map (·.hash)).Nodup ∧ ∀ t, t ∈ s'.st.txs ↔ t ∈ blk.transactions := by
  obtain ⟨basis, applied, h1, -, h2, h3, h4⟩ := (C06_iff env ss s' blk).1 h
  obtain ⟨-, a2, a3⟩ := applyBatch_hhn _ _ _ _ _ h2
  obtain ⟨-, b2, b3⟩ := sealState_hhn _ _ _ _ h3
  obtain ⟨hnd, hmem⟩ := BlockHistL.mem_txs_of_block h1 h2
  refine ⟨basis, applied, h1, h2, h3, h4, b2.trans a2, b3.trans a3, a2, a3, (SeqL.batch_keeps h2).2.2.1, hnd, ?_⟩
  intro t
  rw [BlockHistL.sealState_txs h3]
  exact hmem t

/-- 6. **same parent, same header ⇒ same sealed state** (collision-free roots): two accepted blocks on the same
    parent that carry the same header yield sealed states that agree on the coins, the per-covenant counts, the pools,
    the stakes, the transaction list, the history, the fee pool, the fee multiplier, the DOSC speed, the height and
    the network — on every field of the state except the pending tips, which no header commits to (C08).
    `tip908`, which `C07_sensitive` takes as a hypothesis, agrees because height and network do. -/
theorem C06_same_header_same_content (env : Env) (hi : RootsInjective env) (ss s₁ s₂ : Sealed) (b₁ b₂ : Block)
    (hh : b₁.header = b₂.header)
    (h₁ : applyBlock env ss b₁ = .ok s₁) (h₂ : applyBlock env ss b₂ = .ok s₂) :
    s₁.st.coins.coins = s₂.st.coins.coins ∧ s₁.st.coins.counts = s₂.st.coins.counts ∧
    s₁.st.pools = s₂.st.pools ∧ s₁.st.stakes = s₂.st.stakes ∧ s₁.st.txs = s₂.st.txs ∧
    s₁.st.history = s₂.st.history ∧ s₁.st.feePool = s₂.st.feePool ∧
    s₁.st.feeMultiplier = s₂.st.feeMultiplier ∧ s₁.st.doscSpeed = s₂.st.doscSpeed ∧
    s₁.st.height = s₂.st.height ∧ s₁.st.network = s₂.st.network := by
  obtain ⟨basis₁, -, n1, -, -, x1, hh1, hn1, -⟩ := C06_applyBlock_parts h₁
  obtain ⟨basis₂, -, n2, -, -, x2, hh2, hn2, -⟩ := C06_applyBlock_parts h₂
  rw [n1] at n2
  cases n2
  rw [← hh] at x2
  exact C07_sensitive env hi s₁ s₂ b₁.header x1 x2
    (BlockHistL.tip908_congr (hh1.trans hh2.symm) (hn1.trans hn2.symm))

/-- … in one equation: the two states are equal up to the pending tips -/
theorem C06_same_header_same_state (env : Env) (hi : RootsInjective env) (ss s₁ s₂ : Sealed) (b₁ b₂ : Block)
    (hh : b₁.header = b₂.header)
    (h₁ : applyBlock env ss b₁ = .ok s₁) (h₂ : applyBlock env ss b₂ = .ok s₂) :
    s₁.st = { s₂.st with tips := s₁.st.tips } := by
  obtain ⟨c1, c2, c3, c4, c5, c6, c7, c8, c9, c10, c11⟩ :=
    C06_same_header_same_content env hi ss s₁ s₂ b₁ b₂ hh h₁ h₂
  obtain ⟨st₁, act₁⟩ := s₁
  obtain ⟨st₂, act₂⟩ := s₂
  obtain ⟨n, h, hist, ⟨co, cn⟩, tx, fp, fm, tp, ds, po, sk⟩ := st₁
  obtain ⟨n', h', hist', ⟨co', cn'⟩, tx', fp', fm', tp', ds', po', sk'⟩ := st₂
  simp only at c1 c2 c3 c4 c5 c6 c7 c8 c9 c10 c11
  subst c1 c2 c3 c4 c5 c6 c7 c8 c9 c10 c11
  rfl

/-- the same under collision-freeness on CONTENT (`RootsCollisionFree`, which is what the trees of the
    implementation offer — `RootsInjective` implies it): the two sealed states hold the same coins, counts, pools,
    stakes and history as maps, and agree on the transaction list and on every scalar except the pending tips -/
theorem C06_same_header_same_content_ext (env : Env) (hi : RootsCollisionFree env) (ss s₁ s₂ : Sealed)
    (b₁ b₂ : Block) (hh : b₁.header = b₂.header)
    (h₁ : applyBlock env ss b₁ = .ok s₁) (h₂ : applyBlock env ss b₂ = .ok s₂) :
    (∀ id, s₁.st.coins.getCoin id = s₂.st.coins.getCoin id) ∧
    (∀ x, s₁.st.coins.coinCount x = s₂.st.coins.coinCount x) ∧
    (∀ k, s₁.st.pools.get k = s₂.st.pools.get k) ∧
    (∀ k, s₁.st.stakes.getStake k = s₂.st.stakes.getStake k) ∧ s₁.st.txs = s₂.st.txs ∧
    (∀ n, s₁.st.history.get n = s₂.st.history.get n) ∧ s₁.st.feePool = s₂.st.feePool ∧
    s₁.st.feeMultiplier = s₂.st.feeMultiplier ∧ s₁.st.doscSpeed = s₂.st.doscSpeed ∧
    s₁.st.height = s₂.st.height ∧ s₁.st.network = s₂.st.network := by
  obtain ⟨basis₁, -, n1, -, -, x1, hh1, hn1, -⟩ := C06_applyBlock_parts h₁
  obtain ⟨basis₂, -, n2, -, -, x2, hh2, hn2, -⟩ := C06_applyBlock_parts h₂
  rw [n1] at n2
  cases n2
  rw [← hh] at x2
  exact C07_sensitive_ext env hi s₁ s₂ b₁.header x1 x2
    (BlockHistL.tip908_congr (hh1.trans hh2.symm) (hn1.trans hn2.symm))

/-- 6(a). **… hence the same transactions**: the state keeps whole transactions (sorted by hash), so the two blocks
    hold the same set of transactions — as lists, one is a permutation of the other -/
theorem C06_same_header_same_txs (env : Env) (hi : RootsCollisionFree env) (ss s₁ s₂ : Sealed) (b₁ b₂ : Block)
    (hh : b₁.header = b₂.header)
    (h₁ : applyBlock env ss b₁ = .ok s₁) (h₂ : applyBlock env ss b₂ = .ok s₂) :
    (∀ t, t ∈ b₁.transactions ↔ t ∈ b₂.transactions) ∧ b₁.transactions.Perm b₂.transactions := by
  have htx := (C06_same_header_same_content_ext env hi ss s₁ s₂ b₁ b₂ hh h₁ h₂).2.2.2.2.1
  obtain ⟨-, -, -, -, -, -, -, -, -, -, -, nd1, m1⟩ := C06_applyBlock_parts h₁
  obtain ⟨-, -, -, -, -, -, -, -, -, -, -, nd2, m2⟩ := C06_applyBlock_parts h₂
  have hmem : ∀ t, t ∈ b₁.transactions ↔ t ∈ b₂.transactions := fun t => by
    rw [← m1 t, ← m2 t, htx]
  exact ⟨hmem, (List.perm_ext_iff_of_nodup (BlockHistL.nodup_of_nodup_map _ nd1)
    (BlockHistL.nodup_of_nodup_map _ nd2)).mpr hmem⟩

/-- the same on hashes -/
theorem C06_same_header_same_hashes (env : Env) (hi : RootsCollisionFree env) (ss s₁ s₂ : Sealed) (b₁ b₂ : Block)
    (hh : b₁.header = b₂.header)
    (h₁ : applyBlock env ss b₁ = .ok s₁) (h₂ : applyBlock env ss b₂ = .ok s₂) :
    ∀ x, x ∈ b₁.transactions.map (·.hash) ↔ x ∈ b₂.transactions.map (·.hash) := by
  intro x
  have hm := (C06_same_header_same_txs env hi ss s₁ s₂ b₁ b₂ hh h₁ h₂).1
  simp only [List.mem_map]
  exact ⟨fun ⟨t, ht, e⟩ => ⟨t, (hm t).1 ht, e⟩, fun ⟨t, ht, e⟩ => ⟨t, (hm t).2 ht, e⟩⟩

/-- 6(b). **… and actions of the same effect.**  What the equality of the headers implies about the two actions,
    exactly:
    * the multiplier movement is the same (`blockActionMultiplier`: no action = no movement);
    * an action of either block has its reward coin — id `proposer_reward(height)`, locked by the action's destination,
      denominated in MEL, created at the block's height — in BOTH sealed states; so if both blocks carry an action,
      the two destinations are equal;
    * whether there is an action at all is NOT implied (`C06_action_presence_not_implied`): a block without action
      can carry the header of a block with one when the reward pseudo-coin id is not kept apart from the other coin
      ids (a transaction output sitting at that id with value 0, the fee pool below 2^16 and no tips).  It IS
      implied once the sealed state of a block without action holds no coin at the reward id — which is what
      domain separation of `CoinID::proposer_reward` (`RewardFresh`) is about. -/
theorem C06_same_header_same_action_effect (env : Env) (hi : RootsCollisionFree env) (ss s₁ s₂ : Sealed)
    (b₁ b₂ : Block) (basis : State) (hn : nextUnsealed env ss = .ok basis) (hh : b₁.header = b₂.header)
    (h₁ : applyBlock env ss b₁ = .ok s₁) (h₂ : applyBlock env ss b₂ = .ok s₂) :
    blockActionMultiplier basis.feeMultiplier basis.tip901 b₁.action =
      blockActionMultiplier basis.feeMultiplier basis.tip901 b₂.action ∧
    (∀ a, b₁.action = some a ∨ b₂.action = some a → ∃ v,
      s₁.st.coins.getCoin { txhash := env.rewardId basis.height, index := 0 } =
        some { coinData := { covhash := a.rewardDest, value := v, denom := .mel, additionalData := [] },
               height := basis.height } ∧
      s₂.st.coins.getCoin { txhash := env.rewardId basis.height, index := 0 } =
        some { coinData := { covhash := a.rewardDest, value := v, denom := .mel, additionalData := [] },
               height := basis.height }) ∧
    (∀ a₁ a₂, b₁.action = some a₁ → b₂.action = some a₂ → a₁.rewardDest = a₂.rewardDest) ∧
    ((b₁.action = none → s₁.st.coins.getCoin { txhash := env.rewardId basis.height, index := 0 } = none) →
     (b₂.action = none → s₂.st.coins.getCoin { txhash := env.rewardId basis.height, index := 0 } = none) →
      (b₁.action = none ↔ b₂.action = none)) := by
  obtain ⟨hget, -, -, -, -, -, -, c8, -⟩ := C06_same_header_same_content_ext env hi ss s₁ s₂ b₁ b₂ hh h₁ h₂
  obtain ⟨basis₁, u₁, n1, -, x1, -, -, -, uh1, un1, uf1, -⟩ := C06_applyBlock_parts h₁
  obtain ⟨basis₂, u₂, n2, -, x2, -, -, -, uh2, un2, uf2, -⟩ := C06_applyBlock_parts h₂
  rw [hn] at n1 n2
  cases n1
  cases n2
  -- what each seal does, in terms of `basis`
  have key : ∀ (u : State) (act : Option ProposerAction) (s' : Sealed), u.height = basis.height →
      u.network = basis.network → u.feeMultiplier = basis.feeMultiplier → sealState env u act = .ok s' →
      s'.st.feeMultiplier = blockActionMultiplier basis.feeMultiplier basis.tip901 act ∧
      ∀ a, act = some a → ∃ v, s'.st.coins.getCoin { txhash := env.rewardId basis.height, index := 0 } =
        some { coinData := { covhash := a.rewardDest, value := v, denom := .mel, additionalData := [] },
               height := basis.height } := by
    intro u act s' eh en ef hs
    cases act with
    | none =>
      exact ⟨(BlockHistL.sealState_none_feeMultiplier hs).trans ef, fun a ha => nomatch ha⟩
    | some a =>
      obtain ⟨e1, v, e2⟩ := BlockHistL.sealState_some_effect hs
      rw [ef, BlockHistL.tip901_congr eh en] at e1
      rw [eh] at e2
      exact ⟨e1, fun a' ha' => by cases ha'; exact ⟨v, e2⟩⟩
  obtain ⟨m1, r1⟩ := key u₁ b₁.action s₁ uh1 un1 uf1 x1
  obtain ⟨m2, r2⟩ := key u₂ b₂.action s₂ uh2 un2 uf2 x2
  have hboth : ∀ a, b₁.action = some a ∨ b₂.action = some a → ∃ v,
      s₁.st.coins.getCoin { txhash := env.rewardId basis.height, index := 0 } =
        some { coinData := { covhash := a.rewardDest, value := v, denom := .mel, additionalData := [] },
               height := basis.height } ∧
      s₂.st.coins.getCoin { txhash := env.rewardId basis.height, index := 0 } =
        some { coinData := { covhash := a.rewardDest, value := v, denom := .mel, additionalData := [] },
               height := basis.height } := by
    intro a ha
    rcases ha with ha | ha
    · obtain ⟨v, hv⟩ := r1 a ha
      exact ⟨v, hv, by rw [← hget]; exact hv⟩
    · obtain ⟨v, hv⟩ := r2 a ha
      exact ⟨v, by rw [hget]; exact hv, hv⟩
  refine ⟨by rw [← m1, ← m2, c8], hboth, ?_, ?_⟩
  · intro a₁ a₂ ha₁ ha₂
    obtain ⟨v₁, p1, -⟩ := hboth a₁ (Or.inl ha₁)
    obtain ⟨v₂, q1, -⟩ := hboth a₂ (Or.inr ha₂)
    rw [p1] at q1
    injection q1 with q1
    injection q1 with q1
    injection q1 with q1
  · intro f1 f2
    constructor
    · intro e1
      cases e2 : b₂.action with
      | none => rfl
      | some a =>
        obtain ⟨v, p1, -⟩ := hboth a (Or.inr e2)
        rw [f1 e1] at p1
        cases p1
    · intro e2
      cases e1 : b₁.action with
      | none => rfl
      | some a =>
        obtain ⟨v, -, p2⟩ := hboth a (Or.inl e1)
        rw [f2 e2] at p2
        cases p2

/-- … and the hypothesis of the last clause follows from the step assumptions the reachability notions make anyway:
    the reward pseudo-coin id of the block's height is not the hash of a transaction of the block, and does not
    exist in the state the block's batch leaves (`RewardFresh` of the state being sealed — what `Reachable.block`
    assumes of every seal).  Under them, two accepted blocks with the same header either both carry an action or
    neither does. -/
theorem C06_same_header_action_presence (env : Env) (hi : RootsCollisionFree env) (ss s₁ s₂ : Sealed)
    (b₁ b₂ : Block) (basis : State) (hn : nextUnsealed env ss = .ok basis) (hh : b₁.header = b₂.header)
    (h₁ : applyBlock env ss b₁ = .ok s₁) (h₂ : applyBlock env ss b₂ = .ok s₂)
    (hsep : ∀ t ∈ b₁.transactions, t.hash ≠ env.rewardId basis.height)
    (hf₁ : ∀ u, applyBatch env basis b₁.transactions default = .ok u → RewardFresh env u)
    (hf₂ : ∀ u, applyBatch env basis b₂.transactions default = .ok u → RewardFresh env u) :
    b₁.action = none ↔ b₂.action = none := by
  have hmem := (C06_same_header_same_txs env hi ss s₁ s₂ b₁ b₂ hh h₁ h₂).1
  have key : ∀ (blk : Block) (s' : Sealed), applyBlock env ss blk = .ok s' →
      (∀ t ∈ blk.transactions, t.hash ≠ env.rewardId basis.height) →
      (∀ u, applyBatch env basis blk.transactions default = .ok u → RewardFresh env u) →
      blk.action = none → s'.st.coins.getCoin { txhash := env.rewardId basis.height, index := 0 } = none := by
    intro blk s' hacc hs hf hnone
    obtain ⟨basis', u, n1, x1, x2, -, -, -, uh, -, -, -, -⟩ := C06_applyBlock_parts hacc
    rw [hn] at n1
    cases n1
    rw [hnone] at x2
    obtain ⟨-, hm⟩ := BlockHistL.mem_txs_of_block hn x1
    rw [BlockHistL.sealState_none_getCoin x2 (fun t ht => hs t ((hm t).1 ht))]
    have := hf u x1
    unfold RewardFresh at this
    rw [uh] at this
    exact this
  exact (C06_same_header_same_action_effect env hi ss s₁ s₂ b₁ b₂ basis hn hh h₁ h₂).2.2.2
    (key b₁ s₁ h₁ hsep hf₁) (key b₂ s₂ h₂ (fun t ht => hsep t ((hmem t).2 ht)) hf₂)

/-- **changing the transactions makes the block rejected**: if `b₁` is accepted, the same block with a transaction
    list that is not the same set of transactions is not accepted (whatever state one hopes for) -/
theorem C06_tx_change_rejected (env : Env) (hi : RootsCollisionFree env) (ss s₁ : Sealed) (b₁ : Block) (txs' : List Tx)
    (h₁ : applyBlock env ss b₁ = .ok s₁) (hd : ¬ ∀ t, t ∈ b₁.transactions ↔ t ∈ txs') :
    ∀ s', applyBlock env ss { b₁ with transactions := txs' } ≠ .ok s' := by
  intro s' h₂
  exact hd (C06_same_header_same_txs env hi ss s₁ s' b₁ { b₁ with transactions := txs' } rfl h₁ h₂).1

/-- … in particular if the sets of transaction hashes differ -/
theorem C06_tx_hash_change_rejected (env : Env) (hi : RootsCollisionFree env) (ss s₁ : Sealed) (b₁ : Block)
    (txs' : List Tx) (h₁ : applyBlock env ss b₁ = .ok s₁)
    (hd : ¬ ∀ x, x ∈ b₁.transactions.map (·.hash) ↔ x ∈ txs'.map (·.hash)) :
    ∀ s', applyBlock env ss { b₁ with transactions := txs' } ≠ .ok s' := by
  intro s' h₂
  exact hd (C06_same_header_same_hashes env hi ss s₁ s' b₁ { b₁ with transactions := txs' } rfl h₁ h₂)

/-- **changing the action makes the block rejected**, unless the new action has the same effect: the same block with
    an action that moves the fee multiplier differently is not accepted … -/
theorem C06_action_multiplier_change_rejected (env : Env) (hi : RootsCollisionFree env) (ss s₁ : Sealed) (b₁ : Block)
    (basis : State) (a' : Option ProposerAction) (hn : nextUnsealed env ss = .ok basis)
    (h₁ : applyBlock env ss b₁ = .ok s₁)
    (hd : blockActionMultiplier basis.feeMultiplier basis.tip901 b₁.action ≠
      blockActionMultiplier basis.feeMultiplier basis.tip901 a') :
    ∀ s', applyBlock env ss { b₁ with action := a' } ≠ .ok s' := by
  intro s' h₂
  exact hd (C06_same_header_same_action_effect env hi ss s₁ s' b₁ { b₁ with action := a' } basis hn rfl h₁ h₂).1

/-- … and neither is the same block with the reward sent elsewhere -/
theorem C06_action_dest_change_rejected (env : Env) (hi : RootsCollisionFree env) (ss s₁ : Sealed) (b₁ : Block)
    (a₁ a' : ProposerAction) (ha : b₁.action = some a₁) (h₁ : applyBlock env ss b₁ = .ok s₁)
    (hd : a₁.rewardDest ≠ a'.rewardDest) :
    ∀ s', applyBlock env ss { b₁ with action := some a' } ≠ .ok s' := by
  intro s' h₂
  obtain ⟨basis, -, hn, -⟩ := C06_applyBlock_parts h₁
  exact hd ((C06_same_header_same_action_effect env hi ss s₁ s' b₁ { b₁ with action := some a' } basis hn rfl
    h₁ h₂).2.2.1 a₁ a' ha rfl)

/-! ### non-vacuity and counterexamples on literal data -/

namespace C06HistWitness
open ReachWitness (cfg u getOk eq_getOk)

/-- a coins "root" that depends on the ORDER of the association list: the transaction hash of its first key -/
def firstKey (m : CoinMap) : Hash :=
  match m.coins with
  | [] => []
  | e :: _ => e.1.txhash

/-- `ReachWitness.env` with constant roots (`true`: trivially functions of the content) or with the
    order-dependent coins root (`false`) -/
def envB (b : Bool) : Env := { ReachWitness.env with coinsRoot := if b then (fun _ => []) else firstKey }

/-- two independent faucet transactions -/
def x : Tx := {
  kind := .faucet, inputs := [], outputs := [(⟨[6], 2, .mel, []⟩ : CoinData)], fee := 0,
  covenants := [], data := [], sigs := [], hash := [4], rawLen := 0, covHashes := [] }
def f : Tx := {
  kind := .faucet, inputs := [], outputs := [(⟨[5], 1, .mel, []⟩ : CoinData)], fee := 0,
  covenants := [], data := [], sigs := [], hash := [3], rawLen := 0, covHashes := [] }

/-- genesis → batch `[u]` (a swap) → seal → next block (height 1) → batch `[x, f]` → seal → header -/
def s1 (b : Bool) : State := getOk (applyBatch (envB b) (genesisState cfg) [u] default)
def ss1 (b : Bool) : Sealed := getOk (sealState (envB b) (s1 b) none)
def s2 (b : Bool) : State := getOk (nextUnsealed (envB b) (ss1 b))
def u2 (b : Bool) : State := getOk (applyBatch (envB b) (s2 b) [x, f] default)
def sealed2 (b : Bool) : Sealed := getOk (sealState (envB b) (u2 b) none)
def hdr2 (b : Bool) : Header := getOk (headerOf (envB b) (sealed2 b))

theorem batch1_ok (b : Bool) : applyBatch (envB b) (genesisState cfg) [u] default = .ok (s1 b) := by
  cases b <;> exact eq_getOk (by decide +kernel)
theorem seal1_ok (b : Bool) : sealState (envB b) (s1 b) none = .ok (ss1 b) := by
  cases b <;> exact eq_getOk (by decide +kernel)
theorem next1_ok (b : Bool) : nextUnsealed (envB b) (ss1 b) = .ok (s2 b) := by
  cases b <;> exact eq_getOk (by decide +kernel)
theorem batch2_ok (b : Bool) : applyBatch (envB b) (s2 b) [x, f] default = .ok (u2 b) := by
  cases b <;> exact eq_getOk (by decide +kernel)
theorem seal2_ok (b : Bool) : sealState (envB b) (u2 b) none = .ok (sealed2 b) := by
  cases b <;> exact eq_getOk (by decide +kernel)
theorem hdr2_ok (b : Bool) : headerOf (envB b) (sealed2 b) = .ok (hdr2 b) := by
  cases b <;> exact eq_getOk (by decide +kernel)

theorem markerFresh (b : Bool) : MarkerFresh (envB b) (genesisState cfg) [u] := by
  intro t ht hk
  simp only [List.mem_cons, List.not_mem_nil, or_false] at ht
  subst ht
  exact absurd hk (by decide)

theorem s1_reachable (b : Bool) : ReachableB (envB b) (s1 b) :=
  .batch (.genesis cfg) C09ReachWitness.batchFresh (markerFresh b) (batch1_ok b)

theorem rewardFresh1 (b : Bool) : RewardFresh (envB b) (s1 b) := by
  unfold RewardFresh; cases b <;> decide +kernel

theorem s1_bounds (b : Bool) : SealBounds (s1 b) := by
  refine ⟨by cases b <;> decide +kernel, ?_, by cases b <;> decide +kernel, by cases b <;> decide +kernel⟩
  intro p hp
  have hpools : (s1 b).pools = [] := BackL.applyBatch_pools (batch1_ok b)
  rw [hpools] at hp
  cases hp

theorem s2_facts (b : Bool) : (s2 b).tip906 = true ∧ (s2 b).feePool ≤ U128_MAX ∧ (s2 b).tips ≤ U128_MAX ∧
    AList.keys (s2 b).coins.coins = [⟨[9, 2], 0⟩] := by
  cases b <;> decide +kernel

theorem fresh2 (b : Bool) : ∀ t ∈ [x, f], ∀ i, (s2 b).coins.getCoin ⟨t.hash, i⟩ = none := by
  intro t ht i
  unfold CoinMap.getCoin
  rw [AList.get_eq_none_iff_not_mem_keys, (s2_facts b).2.2.2]
  simp only [List.mem_cons, List.not_mem_nil, or_false] at ht
  rcases ht with rfl | rfl <;> simp [x, f]

theorem markers2 (b : Bool) : ∀ t ∈ [x, f], t.kind = .faucet → (envB b).isGrandfathered t.hash = false →
    (∀ v ∈ [x, f], (⟨(envB b).fdp t.hash, 0⟩ : CoinID) ∉ v.inputs ∧ (envB b).fdp t.hash ≠ v.hash) ∧
    (∀ v ∈ [x, f], v.kind = .faucet → (envB b).fdp v.hash = (envB b).fdp t.hash → v = t) := by
  intro t ht _ _
  have hfdp : ∀ h, (envB b).fdp h = 9 :: h := fun _ => rfl
  simp only [hfdp]
  simp only [List.mem_cons, List.not_mem_nil, or_false] at ht
  rcases ht with rfl | rfl
  · refine ⟨fun v hv => ?_, fun v hv _ he => ?_⟩
    · simp only [List.mem_cons, List.not_mem_nil, or_false] at hv
      rcases hv with rfl | rfl <;> decide
    · simp only [List.mem_cons, List.not_mem_nil, or_false] at hv
      rcases hv with rfl | rfl
      · rfl
      · exact absurd he (by decide)
  · refine ⟨fun v hv => ?_, fun v hv _ he => ?_⟩
    · simp only [List.mem_cons, List.not_mem_nil, or_false] at hv
      rcases hv with rfl | rfl <;> decide
    · simp only [List.mem_cons, List.not_mem_nil, or_false] at hv
      rcases hv with rfl | rfl
      · exact absurd he (by decide)
      · rfl

theorem gfMarkers2 (b : Bool) : ∀ t ∈ [x, f], t.kind = .faucet → (envB b).isGrandfathered t.hash = true →
    ∀ v ∈ [x, f], (⟨(envB b).fdp t.hash, 0⟩ : CoinID) ∉ v.inputs := by
  intro t _ _ hg
  cases hg

/-- with constant roots the roots are functions of the content -/
theorem extensional : RootsExtensional (envB true) := ⟨fun _ _ _ _ => rfl, fun _ _ _ => rfl⟩

def isWrongHeader : Outcome Sealed → Bool
  | .reject .wrongHeader => true
  | _ => false

theorem eq_of_isWrongHeader {o : Outcome Sealed} (h : isWrongHeader o = true) : o = .reject .wrongHeader := by
  cases o with
  | ok a => cases h
  | crash c => cases h
  | reject e => cases e <;> first | rfl | cases h

/-- with the order-dependent coins root the reordered block is rejected -/
theorem reordered_rejected :
    applyBlock (envB false) (ss1 false) { header := hdr2 false, transactions := [f, x], action := none } =
      .reject .wrongHeader := eq_of_isWrongHeader (by decide +kernel)

end C06HistWitness

/-- 7. **non-vacuity: a concrete accepted block.**  On literal data (genesis → a batch with a swap → seal) the block
    made of two faucet transactions is accepted by its parent — through `C06_honest_reachable`, so all its hypotheses
    (and those of `C06_produced_block_accepted`, `C06_assert_never_fires`) are met; the parent has height 0, the
    block height 1 -/
theorem C06_honest_reachable_nonvacuous :
    ∃ (env : Env) (ss sealed : Sealed) (blk : Block), applyBlock env ss blk = .ok sealed ∧
      blk.transactions.length = 2 ∧ ss.st.height = 0 ∧ sealed.st.height = 1 ∧ blk.header.height = 1 := by
  open C06HistWitness in
  have h := C06_honest_reachable (envB true) (s1 true) none none (ss1 true) (sealed2 true) (s2 true) (u2 true)
    [x, f] (hdr2 true) default (s1_reachable true) (s1_bounds true) (rewardFresh1 true) (seal1_ok true)
    (next1_ok true) (batch2_ok true) (seal2_ok true) (hdr2_ok true)
  exact ⟨_, _, _, _, h, rfl, by decide +kernel, by decide +kernel, by decide +kernel⟩

/-- **non-vacuity of `C06_honest_any_order`**: the same block with its two transactions in the other order is accepted,
    with the same header — through the theorem, so all its hypotheses are met (constant roots are functions of the
    content) -/
theorem C06_honest_any_order_nonvacuous :
    ∃ (env : Env) (ss s₁ s₂ : Sealed) (hdr : Header) (t₁ t₂ : Tx), t₁ ≠ t₂ ∧
      applyBlock env ss { header := hdr, transactions := [t₁, t₂], action := none } = .ok s₁ ∧
      applyBlock env ss { header := hdr, transactions := [t₂, t₁], action := none } = .ok s₂ ∧
      BatchEquiv s₁.st s₂.st := by
  open C06HistWitness in
  have h1 := C06_honest_reachable (envB true) (s1 true) none none (ss1 true) (sealed2 true) (s2 true) (u2 true)
    [x, f] (hdr2 true) default (s1_reachable true) (s1_bounds true) (rewardFresh1 true) (seal1_ok true)
    (next1_ok true) (batch2_ok true) (seal2_ok true) (hdr2_ok true)
  obtain ⟨sealed', h2, -, -, e⟩ := C06_honest_any_order (envB true) extensional (s1 true) none none (ss1 true)
    (sealed2 true) (s2 true) (u2 true) [x, f] [f, x] (hdr2 true) default (s1_reachable true) (s1_bounds true)
    (rewardFresh1 true) (seal1_ok true) (next1_ok true) (s2_facts true).1 (List.Perm.swap _ _ _) (fresh2 true)
    (markers2 true) (gfMarkers2 true) (s2_facts true).2.1 (s2_facts true).2.2.1 (batch2_ok true) (seal2_ok true)
    (hdr2_ok true)
  exact ⟨_, _, _, _, _, x, f, by decide, h1, h2, e⟩

/-- **`C06_honest_any_order` is false without `RootsExtensional`**: with a coins root that depends on the order of
    the association list (the first key), every other hypothesis of the theorem holds of the same literal data and
    the reordered block is rejected with `WrongHeader` — the two batches leave the coin lists in different orders -/
theorem C06_any_order_needs_extensional :
    ∃ (env : Env) (s : State) (a0 a : Option ProposerAction) (ss sealed : Sealed) (basis u : State)
      (txs txs' : List Tx) (hdr fb : Header),
      ReachableB env s ∧ SealBounds s ∧ RewardFresh env s ∧ sealState env s a0 = .ok ss ∧
      nextUnsealed env ss = .ok basis ∧ basis.tip906 = true ∧ txs.Perm txs' ∧
      (∀ t ∈ txs, ∀ i, basis.coins.getCoin ⟨t.hash, i⟩ = none) ∧
      (∀ t ∈ txs, t.kind = .faucet → env.isGrandfathered t.hash = false →
        (∀ v ∈ txs, (⟨env.fdp t.hash, 0⟩ : CoinID) ∉ v.inputs ∧ env.fdp t.hash ≠ v.hash) ∧
        (∀ v ∈ txs, v.kind = .faucet → env.fdp v.hash = env.fdp t.hash → v = t)) ∧
      (∀ t ∈ txs, t.kind = .faucet → env.isGrandfathered t.hash = true →
        ∀ v ∈ txs, (⟨env.fdp t.hash, 0⟩ : CoinID) ∉ v.inputs) ∧
      basis.feePool ≤ U128_MAX ∧ basis.tips ≤ U128_MAX ∧
      applyBatch env basis txs fb = .ok u ∧ sealState env u a = .ok sealed ∧ headerOf env sealed = .ok hdr ∧
      applyBlock env ss { header := hdr, transactions := txs, action := a } = .ok sealed ∧
      applyBlock env ss { header := hdr, transactions := txs', action := a } = .reject .wrongHeader := by
  open C06HistWitness in
  exact ⟨envB false, s1 false, none, none, ss1 false, sealed2 false, s2 false, u2 false, [x, f], [f, x], hdr2 false,
    default, s1_reachable false, s1_bounds false, rewardFresh1 false, seal1_ok false, next1_ok false,
    (s2_facts false).1, List.Perm.swap _ _ _, fresh2 false, markers2 false, gfMarkers2 false, (s2_facts false).2.1,
    (s2_facts false).2.2.1, batch2_ok false, seal2_ok false, hdr2_ok false,
    C06_honest_reachable (envB false) (s1 false) none none (ss1 false) (sealed2 false) (s2 false) (u2 false)
      [x, f] (hdr2 false) default (s1_reachable false) (s1_bounds false) (rewardFresh1 false) (seal1_ok false)
      (next1_ok false) (batch2_ok false) (seal2_ok false) (hdr2_ok false),
    reordered_rejected⟩

namespace C06ActionWitness
open ReachWitness (getOk eq_getOk)

/-- the reward pseudo-coin id of height 1 is the hash `[1]` — NOT kept apart from transaction hashes -/
def env : Env := { ReachWitness.env with rewardId := fun h => if h = 1 then [1] else [] }

/-- a testnet chain (no TIP active below height 500: no subsidy, no counts) whose initial coin has value 0 -/
def cfg : GenesisConfig :=
  { network := .testnet, initCoindata := ⟨[7], 0, .mel, []⟩, stakes := [], initFeePool := 0, initFeeMultiplier := 0 }

/-- a transaction with hash `[1]` spending the initial coin into one output of value 0 locked by `[8]`: the coin
    `([1], 0)`, created at height 1 — exactly what a zero reward to `[8]` at height 1 looks like -/
def x : Tx := {
  kind := .normal, inputs := [⟨zeroHash, 0⟩], outputs := [(⟨[8], 0, .mel, []⟩ : CoinData)], fee := 0,
  covenants := [C03Witness.cov], data := [], sigs := [], hash := [1], rawLen := 0, covHashes := [[7]] }

def act : ProposerAction := { feeMultiplierDelta := 0, rewardDest := [8] }

def ss0 : Sealed := getOk (sealState env (genesisState cfg) none)
def basis : State := getOk (nextUnsealed env ss0)
def u1 : State := getOk (applyBatch env basis [x] default)
def sa : Sealed := getOk (sealState env u1 none)
def sb : Sealed := getOk (sealState env u1 (some act))
def hdr : Header := getOk (headerOf env sa)

theorem seal0_ok : sealState env (genesisState cfg) none = .ok ss0 := eq_getOk (by decide +kernel)
theorem next0_ok : nextUnsealed env ss0 = .ok basis := eq_getOk (by decide +kernel)
theorem batch_ok : applyBatch env basis [x] default = .ok u1 := eq_getOk (by decide +kernel)
theorem sealA_ok : sealState env u1 none = .ok sa := eq_getOk (by decide +kernel)
theorem sealB_ok : sealState env u1 (some act) = .ok sb := eq_getOk (by decide +kernel)
theorem hdr_ok : headerOf env sa = .ok hdr := eq_getOk (by decide +kernel)

/-- the two sealed states are the same state -/
theorem same_state : sa.st = sb.st :=
  BlockHistL.state_ext (by decide +kernel) (by decide +kernel) (by decide +kernel) (by decide +kernel)
    (by decide +kernel) (by decide +kernel) (by decide +kernel) (by decide +kernel) (by decide +kernel)
    (by decide +kernel) (by decide +kernel) (by decide +kernel)

theorem bounds0 : SealBounds (genesisState cfg) := by
  refine ⟨by decide +kernel, ?_, by decide +kernel, by decide +kernel⟩
  intro p hp
  cases hp

theorem rewardFresh0 : RewardFresh env (genesisState cfg) := by unfold RewardFresh; decide +kernel

theorem pools2 : 2 ≤ basis.pools.length := by decide +kernel

end C06ActionWitness

/-- **whether a block carries an action is not implied by its header** (6(b)): on top of a sealed reachable state
    (the genesis state of a testnet configuration), the block with the transaction `x` and NO action and the block
    with `x` and the action "reward to `[8]`, delta 0" are both accepted with the same header — indeed they yield the
    very same state, so no root function whatsoever tells them apart.  What fails is the separation of the reward
    pseudo-coin id from transaction hashes (`env.rewardId 1 = x.hash`): the output `(x.hash, 0)` — value 0, locked by
    `[8]`, created at height 1 — IS the coin a zero reward to `[8]` would write (fee pool below 2^16, no tips). -/
theorem C06_action_presence_not_implied :
    ∃ (env : Env) (s : State) (ss s₁ s₂ : Sealed) (b₁ b₂ : Block),
      ReachableB env s ∧ SealBounds s ∧ RewardFresh env s ∧ sealState env s none = .ok ss ∧
      applyBlock env ss b₁ = .ok s₁ ∧ applyBlock env ss b₂ = .ok s₂ ∧
      b₁.header = b₂.header ∧ b₁.transactions = b₂.transactions ∧ b₁.action = none ∧ b₂.action ≠ none ∧
      s₁.st = s₂.st := by
  open C06ActionWitness in
  have hdrB : headerOf env sb = .ok hdr := by
    have h : headerOf env sb = headerOf env sa := by
      unfold headerOf
      rw [← same_state]
    rw [h]; exact hdr_ok
  exact ⟨env, genesisState cfg, ss0, sa, sb, ⟨hdr, [x], none⟩, ⟨hdr, [x], some act⟩, .genesis cfg, bounds0,
    rewardFresh0, seal0_ok,
    C06_honest env ss0 sa basis u1 [x] none hdr default next0_ok pools2 batch_ok sealA_ok hdr_ok,
    C06_honest env ss0 sb basis u1 [x] (some act) hdr default next0_ok pools2 batch_ok sealB_ok hdrB,
    rfl, rfl, rfl, (fun h => nomatch h), same_state⟩

end Mel

#print axioms Mel.C06_reachableB_two_pools
#print axioms Mel.C06_honest_reachable
#print axioms Mel.C06_assert_never_fires
#print axioms Mel.C06_produced_block_accepted
#print axioms Mel.C06_honest_any_order
#print axioms Mel.C06_applyBlock_parts
#print axioms Mel.C06_same_header_same_content
#print axioms Mel.C06_same_header_same_state
#print axioms Mel.C06_same_header_same_content_ext
#print axioms Mel.C06_same_header_same_txs
#print axioms Mel.C06_same_header_same_hashes
#print axioms Mel.C06_same_header_same_action_effect
#print axioms Mel.C06_same_header_action_presence
#print axioms Mel.C06_tx_change_rejected
#print axioms Mel.C06_tx_hash_change_rejected
#print axioms Mel.C06_action_multiplier_change_rejected
#print axioms Mel.C06_action_dest_change_rejected
#print axioms Mel.C06_honest_reachable_nonvacuous
#print axioms Mel.C06_honest_any_order_nonvacuous
#print axioms Mel.C06_any_order_needs_extensional
#print axioms Mel.C06_action_presence_not_implied
