/-
  C16 — the constants the property's statement (and the recorded deviations) fix, pinned against the values regenerated
  from /repo's source on every run (Generated/Tables.lean): builtin pools start with 10^9 (= MICRO_CONVERTER * 1000) of nobody-owned liquidity; the ERG/SYM pool exists from TIP-902 on.
  The model is parametric in these constants, so a changed constant would be followed silently by the model and the
  correspondence; these theorems are what turns such a change into a broken proof obligation.
-/
import MelModel.Generated.Tables
namespace Mel
open Mel.Gen

theorem C16_pin_BUILTIN_LIQ_MULT : BUILTIN_LIQ_MULT = 1000 := rfl
theorem C16_pin_TIP_902_HEIGHT : TIP_902_HEIGHT = 180000 := rfl

end Mel

#print axioms Mel.C16_pin_BUILTIN_LIQ_MULT
#print axioms Mel.C16_pin_TIP_902_HEIGHT
