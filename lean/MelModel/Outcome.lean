/-
  Result of a state-transition operation: the new value, a rejection (`Err(StateError)`), or a
  crash (panic / abort / arithmetic overflow in the implementation).
-/
namespace Mel

inductive StateError where
  | malformedTx | nonexistentCoin | unbalancedInOut | insufficientFees | nonexistentScript
  | violatesScript | invalidMelPoW | wrongHeader | coinLocked | duplicateTx
  deriving DecidableEq, Repr, Inhabited

def StateError.text : StateError → String
  | .malformedTx => "MalformedTx" | .nonexistentCoin => "NonexistentCoin"
  | .unbalancedInOut => "UnbalancedInOut" | .insufficientFees => "InsufficientFees"
  | .nonexistentScript => "NonexistentScript" | .violatesScript => "ViolatesScript"
  | .invalidMelPoW => "InvalidMelPoW" | .wrongHeader => "WrongHeader"
  | .coinLocked => "CoinLocked" | .duplicateTx => "DuplicateTx"

inductive Outcome (α : Type) where
  | ok (a : α)
  | reject (e : StateError)
  | crash (site : String)
  deriving Repr, Inhabited

namespace Outcome

@[inline] def bind {α β} (x : Outcome α) (f : α → Outcome β) : Outcome β :=
  match x with
  | ok a => f a
  | reject e => reject e
  | crash s => crash s

instance : Monad Outcome where
  pure := ok
  bind := bind

def isOk {α} : Outcome α → Bool
  | ok _ => true
  | _ => false

def isCrash {α} : Outcome α → Bool
  | crash _ => true
  | _ => false

def toOption {α} : Outcome α → Option α
  | ok a => some a
  | _ => none

/-- fold with early exit -/
def foldlM' {α β} (f : β → α → Outcome β) : β → List α → Outcome β
  | b, [] => ok b
  | b, a :: as => match f b a with
    | ok b' => foldlM' f b' as
    | reject e => reject e
    | crash s => crash s

/-- check every element -/
def forM' {α} (f : α → Outcome Unit) : List α → Outcome Unit
  | [] => ok ()
  | a :: as => match f a with
    | ok () => forM' f as
    | reject e => reject e
    | crash s => crash s

end Outcome
end Mel
