/-
  The coin mapping with TIP-906 per-covenant counts (mirrors src/state/coins.rs).
  The real SMT holds both kinds of entries in one tree; the model keeps two maps.
-/
import MelModel.Types
import MelModel.Prim.Map
import MelModel.Outcome
namespace Mel

structure CoinMap where
  coins : AList CoinID CoinDataHeight := []
  counts : AList Hash Nat := []
  deriving Repr, Inhabited

namespace CoinMap

def getCoin (m : CoinMap) (id : CoinID) : Option CoinDataHeight := m.coins.get id

/-- `coin_count` -/
def coinCount (m : CoinMap) (covhash : Hash) : Nat := (m.counts.get covhash).getD 0

/-- `insert_coin_count`: a zero count deletes the entry -/
def insertCoinCount (m : CoinMap) (covhash : Hash) (n : Nat) : CoinMap :=
  if n = 0 then { m with counts := m.counts.del covhash }
  else { m with counts := m.counts.set covhash n }

/-- `insert_coin` -/
def insertCoin (m : CoinMap) (id : CoinID) (d : CoinDataHeight) (tip906 : Bool) : CoinMap :=
  let preexist := (m.coins.get id).isSome
  let m1 : CoinMap := { m with coins := m.coins.set id d }
  if tip906 && !preexist then
    { m1 with counts := m1.counts.set d.coinData.covhash (m.coinCount d.coinData.covhash + 1) }
  else m1

/-- `remove_coin`; the `count - 1` on a `u64` underflows (panics) when the count entry is missing -/
def removeCoin (m : CoinMap) (id : CoinID) (tip906 : Bool) : Outcome CoinMap :=
  if tip906 then
    match m.coins.get id with
    | some d =>
      let c := m.coinCount d.coinData.covhash
      if c = 0 then .crash "coins.rs: count - 1 underflow"
      else .ok { (m.insertCoinCount d.coinData.covhash (c - 1)) with coins := m.coins.del id }
    | none => .ok { m with coins := m.coins.del id }
  else .ok { m with coins := m.coins.del id }

end CoinMap
end Mel
