/- helper lemmas for C09 (seal part) -/
import MelModel.Seal
import MelModel.Lemmas.Swap
import MelModel.Lemmas.Pools
import MelModel.Props.C20
namespace Mel
open Mel.Gen
-- (`Faithful` lives in `Mel.TotalSealL`: the name also occurs in Props/C01Seal.lean)
namespace TotalSealL end TotalSealL
open TotalSealL

/-! ### generic: a fold whose every step succeeds, with an invariant that may mention the remaining list -/

theorem Outcome.foldlM'_ok {α β} (f : β → α → Outcome β) (I : β → List α → Prop)
    (hstep : ∀ b a rest, I b (a :: rest) → ∃ b', f b a = .ok b' ∧ I b' rest) :
    ∀ (l : List α) (b : β), I b l → ∃ b', Outcome.foldlM' f b l = .ok b' ∧ I b' [] := by
  intro l
  induction l with
  | nil => intro b hb; exact ⟨b, rfl, hb⟩
  | cons a as ih =>
    intro b hb
    obtain ⟨b1, h1, hI⟩ := hstep b a as hb
    obtain ⟨b2, h2, hI2⟩ := ih b1 hI
    refine ⟨b2, ?_, hI2⟩
    simp only [Outcome.foldlM', h1]
    exact h2

theorem Outcome.ne_crash_of_ok {α} {x : Outcome α} {a : α} (h : x = .ok a) : ∀ c, x ≠ .crash c := by
  intro c hc; rw [h] at hc; cases hc

/-! ### saturating arithmetic -/

theorem U128_MAX_pos : 0 < U128_MAX := by decide

theorem satU128_le (n : Nat) : satU128 n ≤ n := by unfold satU128; omega
theorem satU128_le_max (n : Nat) : satU128 n ≤ U128_MAX := by unfold satU128; omega

theorem satFold_le_max : ∀ (l : List Nat) (a : Nat), a ≤ U128_MAX → l.foldl satAdd128 a ≤ U128_MAX := by
  intro l
  induction l with
  | nil => intro a ha; exact ha
  | cons x xs ih =>
    intro a _
    simp only [List.foldl_cons]
    exact ih _ (by unfold satAdd128; omega)

theorem satFold_le_sum : ∀ (l : List Nat) (a : Nat), l.foldl satAdd128 a ≤ a + l.sum := by
  intro l
  induction l with
  | nil => intro a; simp
  | cons x xs ih =>
    intro a
    simp only [List.foldl_cons, List.sum_cons]
    have := ih (satAdd128 a x)
    have h2 : satAdd128 a x ≤ a + x := by unfold satAdd128; omega
    omega

theorem satFold_pos : ∀ (l : List Nat) (a : Nat), 0 < a → 0 < l.foldl satAdd128 a := by
  intro l
  induction l with
  | nil => intro a ha; exact ha
  | cons x xs ih =>
    intro a ha
    simp only [List.foldl_cons]
    have := U128_MAX_pos
    exact ih _ (by unfold satAdd128; omega)

theorem satFold_pos_of_mem : ∀ (l : List Nat) (a : Nat), (∃ x ∈ l, 0 < x) → 0 < l.foldl satAdd128 a := by
  intro l
  induction l with
  | nil => intro a ⟨x, hx, _⟩; cases hx
  | cons y ys ih =>
    intro a ⟨x, hx, hpos⟩
    simp only [List.foldl_cons]
    have := U128_MAX_pos
    rcases List.mem_cons.mp hx with rfl | hx
    · exact satFold_pos _ _ (by unfold satAdd128; omega)
    · exact ih _ ⟨x, hx, hpos⟩

theorem satSum_le_max (l : List Nat) : satSum l ≤ U128_MAX := satFold_le_max l 0 (Nat.zero_le _)
theorem satSum_le_sum (l : List Nat) : satSum l ≤ l.sum := by
  have := satFold_le_sum l 0; unfold satSum; omega
theorem satSum_pos {l : List Nat} (h : ∃ x ∈ l, 0 < x) : 0 < satSum l := satFold_pos_of_mem l 0 h

/-- the sum over a filtered list is monotone in the filter -/
theorem sum_filter_le_of_imp {α} (f : α → Nat) (q q' : α → Bool) :
    ∀ (l : List α), (∀ a ∈ l, q a = true → q' a = true) →
      ((l.filter q).map f).sum ≤ ((l.filter q').map f).sum := by
  intro l
  induction l with
  | nil => intro _; simp
  | cons a as ih =>
    intro h
    have ih' := ih (fun b hb => h b (List.mem_cons_of_mem _ hb))
    have ha := h a List.mem_cons_self
    simp only [List.filter_cons]
    by_cases hq : q a = true
    · simp only [hq, ha hq, if_true, List.map_cons, List.sum_cons]; omega
    · simp only [hq]
      by_cases hq' : q' a = true
      · simp only [hq', if_true, List.map_cons, List.sum_cons]
        simp only [Bool.false_eq_true, if_false]; omega
      · simp only [hq']; simpa using ih'

theorem sum_filter_le {α} (f : α → Nat) (q : α → Bool) (l : List α) :
    ((l.filter q).map f).sum ≤ (l.map f).sum := by
  have := sum_filter_le_of_imp f q (fun _ => true) l (fun _ _ _ => rfl)
  rwa [List.filter_eq_self.mpr (fun _ _ => rfl)] at this

theorem sum_map_congr_mem {α} (f g : α → Nat) : ∀ (l : List α), (∀ a ∈ l, f a = g a) →
    (l.map f).sum = (l.map g).sum := by
  intro l
  induction l with
  | nil => intro _; rfl
  | cons a as ih =>
    intro h
    simp only [List.map_cons, List.sum_cons, h a List.mem_cons_self,
      ih (fun b hb => h b (List.mem_cons_of_mem _ hb))]

/-! ### `bytesLt`, `Denom.lt`, `PoolKey.lt` are strict total orders (copied from Lemmas/Restart.lean,
    which cannot be imported here because of a name clash) -/

theorem bytesLt_cons' (a b : UInt8) (as bs : List UInt8) :
    bytesLt (a :: as) (b :: bs) =
      if a.toNat < b.toNat then true else if b.toNat < a.toNat then false else bytesLt as bs := by
  simp [bytesLt, UInt8.lt_iff_toNat_lt]

theorem bytesLt_irrefl' (a : List UInt8) : bytesLt a a = false := by
  induction a with
  | nil => rfl
  | cons x xs ih => rw [bytesLt_cons']; simp [ih]

theorem bytesLt_trans' : ∀ (a b c : List UInt8),
    bytesLt a b = true → bytesLt b c = true → bytesLt a c = true
  | [], [], _, h, _ => by simp [bytesLt] at h
  | [], _ :: _, [], _, h => by simp [bytesLt] at h
  | [], _ :: _, _ :: _, _, _ => by simp [bytesLt]
  | _ :: _, [], _, h, _ => by simp [bytesLt] at h
  | _ :: _, _ :: _, [], _, h => by simp [bytesLt] at h
  | a :: as, b :: bs, c :: cs, h1, h2 => by
    have ih := bytesLt_trans' as bs cs
    rw [bytesLt_cons'] at h1 h2 ⊢
    by_cases hab : a.toNat < b.toNat
    · by_cases hbc : b.toNat < c.toNat
      · rw [if_pos (by omega)]
      · rw [if_neg hbc] at h2
        by_cases hcb : c.toNat < b.toNat
        · rw [if_pos hcb] at h2; cases h2
        · rw [if_pos (by omega)]
    · rw [if_neg hab] at h1
      by_cases hba : b.toNat < a.toNat
      · rw [if_pos hba] at h1; cases h1
      · rw [if_neg hba] at h1
        by_cases hbc : b.toNat < c.toNat
        · rw [if_pos (by omega)]
        · rw [if_neg hbc] at h2
          by_cases hcb : c.toNat < b.toNat
          · rw [if_pos hcb] at h2; cases h2
          · rw [if_neg hcb] at h2
            rw [if_neg (by omega), if_neg (by omega)]
            exact ih h1 h2

theorem bytesLt_total' : ∀ (a b : List UInt8), bytesLt a b = false → bytesLt b a = false → a = b
  | [], [], _, _ => rfl
  | [], _ :: _, h, _ => by simp [bytesLt] at h
  | _ :: _, [], _, h => by simp [bytesLt] at h
  | a :: as, b :: bs, h1, h2 => by
    rw [bytesLt_cons'] at h1 h2
    by_cases hab : a.toNat < b.toNat
    · rw [if_pos hab] at h1; cases h1
    · by_cases hba : b.toNat < a.toNat
      · rw [if_pos hba] at h2; cases h2
      · rw [if_neg hab, if_neg hba] at h1
        rw [if_neg hba, if_neg hab] at h2
        have : a = b := UInt8.toNat_inj.mp (by omega)
        rw [this, bytesLt_total' as bs h1 h2]

theorem Denom.lt_irrefl (a : Denom) : a.lt a = false := by
  cases a <;> simp [Denom.lt, Denom.rank, bytesLt_irrefl']

theorem Denom.lt_trans (a b c : Denom) (h1 : a.lt b = true) (h2 : b.lt c = true) : a.lt c = true := by
  cases a <;> cases b <;> cases c <;> simp [Denom.lt, Denom.rank] at h1 h2 ⊢
  exact bytesLt_trans' _ _ _ h1 h2

theorem Denom.lt_total (a b : Denom) (h1 : a.lt b = false) (h2 : b.lt a = false) : a = b := by
  cases a <;> cases b <;> simp [Denom.lt, Denom.rank] at h1 h2 ⊢
  exact bytesLt_total' _ _ h1 h2

theorem PoolKey.lt_irrefl (a : PoolKey) : a.lt a = false := by
  simp [PoolKey.lt, Denom.lt_irrefl]

theorem PoolKey.lt_trans (a b c : PoolKey) (h1 : a.lt b = true) (h2 : b.lt c = true) : a.lt c = true := by
  unfold PoolKey.lt at *
  by_cases hab : a.left = b.left
  · rw [if_pos hab] at h1
    by_cases hbc : b.left = c.left
    · rw [if_pos hbc] at h2
      rw [if_pos (hab.trans hbc)]
      exact Denom.lt_trans _ _ _ h1 h2
    · rw [if_neg hbc] at h2
      rw [if_neg (by rw [hab]; exact hbc), hab]; exact h2
  · rw [if_neg hab] at h1
    by_cases hbc : b.left = c.left
    · rw [if_pos hbc] at h2
      rw [if_neg (by rw [← hbc]; exact hab), ← hbc]; exact h1
    · rw [if_neg hbc] at h2
      have h3 := Denom.lt_trans _ _ _ h1 h2
      have hac : a.left ≠ c.left := by
        intro e; rw [e, Denom.lt_irrefl] at h3; cases h3
      rw [if_neg hac]; exact h3

theorem PoolKey.lt_total (a b : PoolKey) (h1 : a.lt b = false) (h2 : b.lt a = false) : a = b := by
  unfold PoolKey.lt at *
  by_cases hab : a.left = b.left
  · rw [if_pos hab] at h1
    rw [if_pos hab.symm] at h2
    have := Denom.lt_total _ _ h1 h2
    cases a; cases b; simp_all
  · rw [if_neg hab] at h1
    rw [if_neg (fun e => hab e.symm)] at h2
    exact absurd (Denom.lt_total _ _ h1 h2) hab

/-! ### `sortDedup` yields a duplicate-free list of the elements -/

section SortDedup
variable {α : Type} [DecidableEq α] (lt : α → α → Bool)

theorem mem_insertSorted (x a : α) : ∀ l : List α, a ∈ insertSorted lt x l ↔ a = x ∨ a ∈ l := by
  intro l
  induction l with
  | nil => simp [insertSorted]
  | cons y ys ih =>
    simp only [insertSorted]
    split
    · next h => subst h; simp
    · split
      · simp
      · simp only [List.mem_cons, ih]
        constructor
        · rintro (h | h | h) <;> simp [h]
        · rintro (h | h | h) <;> simp [h]

theorem mem_sortDedup_aux (a : α) : ∀ (l acc : List α),
    a ∈ l.foldl (fun acc x => insertSorted lt x acc) acc ↔ a ∈ l ∨ a ∈ acc := by
  intro l
  induction l with
  | nil => intro acc; simp
  | cons x xs ih =>
    intro acc
    simp only [List.foldl_cons, ih, mem_insertSorted, List.mem_cons]
    constructor
    · rintro (h | h | h) <;> simp [h]
    · rintro ((h | h) | h) <;> simp [h]

theorem mem_sortDedup (a : α) (l : List α) : a ∈ sortDedup lt l ↔ a ∈ l := by
  unfold sortDedup
  rw [mem_sortDedup_aux]; simp

variable (hirr : ∀ a, lt a a = false) (htr : ∀ a b c, lt a b = true → lt b c = true → lt a c = true)
  (htot : ∀ a b, lt a b = false → lt b a = false → a = b)

include htr htot in
theorem pairwise_insertSorted (x : α) : ∀ l : List α, l.Pairwise (fun a b => lt a b = true) →
    (insertSorted lt x l).Pairwise (fun a b => lt a b = true) := by
  intro l
  induction l with
  | nil => intro _; simp [insertSorted]
  | cons y ys ih =>
    intro h
    have hy := List.pairwise_cons.mp h
    simp only [insertSorted]
    split
    · exact h
    · next hne =>
      split
      · next hlt =>
        refine List.pairwise_cons.mpr ⟨?_, h⟩
        intro b hb
        rcases List.mem_cons.mp hb with rfl | hb
        · exact hlt
        · exact htr _ _ _ hlt (hy.1 b hb)
      · next hnlt =>
        refine List.pairwise_cons.mpr ⟨?_, ih hy.2⟩
        intro b hb
        rcases (mem_insertSorted lt x b ys).mp hb with rfl | hb
        · cases hyx : lt y b with
          | true => rfl
          | false =>
            have : lt b y = false := by simpa using hnlt
            exact absurd (htot _ _ this hyx) hne
        · exact hy.1 b hb

include hirr htr htot in
theorem nodup_sortDedup (l : List α) : (sortDedup lt l).Nodup := by
  have hpw : ∀ (l acc : List α), acc.Pairwise (fun a b => lt a b = true) →
      (l.foldl (fun acc x => insertSorted lt x acc) acc).Pairwise (fun a b => lt a b = true) := by
    intro l
    induction l with
    | nil => intro acc h; exact h
    | cons x xs ih => intro acc h; exact ih _ (pairwise_insertSorted lt htr htot x acc h)
  have := hpw l [] List.Pairwise.nil
  unfold sortDedup
  refine List.Pairwise.imp ?_ this
  intro a b hab e
  subst e
  rw [hirr] at hab; cases hab

end SortDedup

theorem extractPoolKeysSorted_nodup (txs : List Tx) : (extractPoolKeysSorted txs).Nodup :=
  nodup_sortDedup PoolKey.lt PoolKey.lt_irrefl PoolKey.lt_trans PoolKey.lt_total _

theorem mem_extractPoolKeysSorted {txs : List Tx} {k : PoolKey} (h : k ∈ extractPoolKeysSorted txs) :
    ∃ tx ∈ txs, canonicalPoolKey tx.data = some k := by
  unfold extractPoolKeysSorted at h
  rw [mem_sortDedup] at h
  obtain ⟨tx, htx, hk⟩ := List.mem_filterMap.mp h
  exact ⟨tx, htx, hk⟩

theorem mem_transactionsForPool' {reqs : List Tx} {k : PoolKey} {tx : Tx} :
    tx ∈ transactionsForPool reqs k ↔ tx ∈ reqs ∧ canonicalPoolKey tx.data = some k := by
  unfold transactionsForPool
  simp [List.mem_filter]

/-! ### pool arithmetic: the three operations succeed on sane pools -/

theorem swapMany_spec (p : PoolState) (l r : Nat) (hl : 0 < p.lefts) (hr : 0 < p.rights)
    (hl' : l ≤ U128_MAX) (hr' : r ≤ U128_MAX) :
    ∃ p' lw rw, p.swapMany l r = .ok (p', lw, rw) ∧ 0 < p'.lefts ∧ 0 < p'.rights ∧ p'.liqs = p.liqs ∧
      p'.lefts + lw ≤ p.lefts + l := by
  have hU := U128_MAX_pos
  unfold PoolState.swapMany
  simp only
  generalize hLd : satAdd128 p.lefts l = L
  generalize hRd : satAdd128 p.rights r = R
  have hL : 0 < L ∧ l ≤ L ∧ L ≤ p.lefts + l := by rw [← hLd]; unfold satAdd128; omega
  have hR : 0 < R ∧ r ≤ R := by rw [← hRd]; unfold satAdd128; omega
  have h1 : l * R * 995 / (L * 1000) < R := share_lt hL.2.1 hL.1 hR.1
  have h2 : r * L * 995 / (R * 1000) < L := share_lt hR.2 hR.1 hL.1
  have h1' := satU128_le (l * R * 995 / (L * 1000))
  have h2' := satU128_le (r * L * 995 / (R * 1000))
  rw [if_neg (by omega), if_neg (by omega), if_neg (by omega), if_neg (by omega), if_neg (by omega)]
  refine ⟨_, _, _, rfl, ?_, ?_, rfl, ?_⟩ <;> simp only <;> omega

theorem deposit_spec (p : PoolState) (l r : Nat) (hs : p.liqs ≠ 0 → 0 < p.lefts ∧ 0 < p.rights) :
    ∃ p' m, p.deposit l r = .ok (p', m) ∧ (0 < l → 0 < r → 0 < p'.lefts ∧ 0 < p'.rights) ∧
      (∀ D, D < p.liqs → D < U128_MAX → D < p'.liqs) ∧ p'.lefts ≤ p.lefts + l := by
  unfold PoolState.deposit
  by_cases hz : p.liqs = 0
  · rw [if_pos hz]
    refine ⟨_, _, rfl, fun h1 h2 => ⟨h1, h2⟩, ?_, ?_⟩
    · intro D hD; omega
    · simp only; omega
  · rw [if_neg hz]
    obtain ⟨h1, h2⟩ := hs hz
    simp only
    rw [if_neg (Nat.ne_of_gt (Nat.mul_pos h1 h2))]
    refine ⟨_, _, rfl, ?_, ?_, ?_⟩
    · intro _ _; simp only; omega
    · intro D hD hD'; simp only; unfold satAdd128; omega
    · simp only; unfold satAdd128; omega

theorem withdraw_spec (p : PoolState) (q : Nat) (hq : 0 < q) (hle : q ≤ p.liqs) :
    ∃ p' a b, p.withdraw q = .ok (p', a, b) ∧ p'.liqs = p.liqs - q ∧ p'.lefts ≤ p.lefts ∧
      (0 < p.lefts → 0 < p.rights → q < p.liqs → 0 < p'.lefts ∧ 0 < p'.rights) := by
  unfold PoolState.withdraw
  rw [if_neg (by omega), if_neg (by omega)]
  simp only
  by_cases hz : p.liqs - q = 0
  · rw [if_pos hz]
    refine ⟨_, _, _, rfl, ?_, ?_, ?_⟩ <;> simp only <;> omega
  · rw [if_neg hz]
    refine ⟨_, _, _, rfl, rfl, ?_, ?_⟩
    · exact Nat.sub_le _ _
    · intro hl hr hlt
      have hL : p.lefts * q / p.liqs < p.lefts :=
        Nat.div_lt_of_lt_mul (by rw [Nat.mul_comm p.liqs]; exact Nat.mul_lt_mul_of_pos_left hlt hl)
      have hR : p.rights * q / p.liqs < p.rights :=
        Nat.div_lt_of_lt_mul (by rw [Nat.mul_comm p.liqs]; exact Nat.mul_lt_mul_of_pos_left hlt hr)
      simp only; omega

theorem multiplyFrac_ok (x n d : Nat) (hd : 0 < d) : ∃ v, multiplyFrac x n d = .ok v := by
  unfold multiplyFrac
  rw [if_neg (by omega)]
  exact ⟨_, rfl⟩

theorem microergsIter_pos (h : Nat) : 0 < microergsIter h := by
  unfold microergsIter
  have : ∀ (l : List Nat) (a : Nat), 0 < a →
      0 < l.foldl (fun last _ => max (last + 1) (last + last / INFLATOR_DIV)) a := by
    intro l
    induction l with
    | nil => intro a ha; exact ha
    | cons x xs ih => intro a ha; simp only [List.foldl_cons]; exact ih _ (by omega)
  exact this _ _ (by decide)

/-! ### the request selectors, in full -/

theorem isSwapRequest_full {s : State} {tx : Tx} (h : isSwapRequest s tx = true) :
    ∃ k o rest p, canonicalPoolKey tx.data = some k ∧ tx.outputs = o :: rest ∧ 0 < o.value ∧
      s.pools.get k = some p ∧ 0 < p.lefts ∧ 0 < p.rights ∧ (o.denom = k.left ∨ o.denom = k.right) := by
  unfold isSwapRequest at h
  simp only [Bool.and_eq_true, decide_eq_true_eq] at h
  have h2 := h.2
  split at h2
  · cases h2
  · next o0 rest ho =>
    simp only [Bool.and_eq_true, decide_eq_true_eq] at h2
    have h3 := h2.2
    split at h3
    · cases h3
    · next k hk =>
      split at h3
      · cases h3
      · next p hp =>
        simp only [Bool.and_eq_true, Bool.or_eq_true, decide_eq_true_eq] at h3
        exact ⟨k, o0, rest, p, hk, ho, h2.1.2, hp, h3.1.1, h3.1.2, h3.2⟩

theorem isDepositRequest_full {s : State} {tx : Tx} (h : isDepositRequest s tx = true) :
    ∃ k o0 o1 rest, canonicalPoolKey tx.data = some k ∧ tx.outputs = o0 :: o1 :: rest ∧
      0 < o0.value ∧ 0 < o1.value ∧ o0.denom = k.left := by
  unfold isDepositRequest at h
  simp only [Bool.and_eq_true, decide_eq_true_eq] at h
  have h2 := h.2
  split at h2
  · next o0 o1 rest ho =>
    simp only [Bool.and_eq_true, decide_eq_true_eq] at h2
    have h3 := h2.2
    split at h3
    · cases h3
    · next k hk =>
      simp only [Bool.and_eq_true, decide_eq_true_eq] at h3
      exact ⟨k, o0, o1, rest, hk, ho, h2.1.1.1.1, h2.1.1.1.2, h3.1⟩
  · cases h2

theorem isWithdrawRequest_full {env : Env} {s : State} {tx : Tx} (h : isWithdrawRequest env s tx = true) :
    tx.kind = .liqWithdraw ∧ ∃ k o0, canonicalPoolKey tx.data = some k ∧ tx.outputs = [o0] ∧
      0 < o0.value ∧ (s.pools.get k).isSome = true := by
  unfold isWithdrawRequest at h
  simp only [Bool.and_eq_true, decide_eq_true_eq] at h
  refine ⟨h.1, ?_⟩
  have h2 := h.2
  split at h2
  · next o0 ho =>
    simp only [Bool.and_eq_true, decide_eq_true_eq] at h2
    have h3 := h2.2
    split at h3
    · cases h3
    · next k hk =>
      simp only [Bool.and_eq_true, decide_eq_true_eq] at h3
      exact ⟨k, o0, hk, ho, h2.1.1, h3.1⟩
  · cases h2

/-! ### `Nat.sqrt` is positive on positive numbers -/

theorem sqrtIter_pos (n : Nat) (hn : 0 < n) : ∀ g, 0 < g → 0 < Nat.sqrt.iter n g := by
  intro g
  induction g using Nat.strongRecOn with
  | _ g ih =>
    intro hg
    unfold Nat.sqrt.iter
    simp only
    by_cases h1 : g = 1
    · subst h1
      rw [Nat.div_one]
      split
      · omega
      · exact hg
    · generalize n / g = q
      split
      · next hlt =>
        apply ih _ hlt
        omega
      · exact hg

theorem sqrt_pos_of_pos {n : Nat} (h : 0 < n) : 0 < Nat.sqrt n := by
  unfold Nat.sqrt
  split
  · exact h
  · apply sqrtIter_pos _ h
    exact Nat.pos_of_ne_zero (by simp [Nat.shiftLeft_eq])

theorem mtsqrt_pos {a b : Nat} (ha : 0 < a) (hb : 0 < b) : 0 < mtsqrt a b := by
  unfold mtsqrt satMul128
  have := Nat.mul_pos (sqrt_pos_of_pos ha) (sqrt_pos_of_pos hb)
  have := U128_MAX_pos
  omega

/-! ### the coin invariant carried through the swap and deposit phases -/

/-- a coin sitting at an output slot of a transaction of the block is locked by that output's covenant -/
def TotalSealL.Faithful (txs : List Tx) (m : CoinMap) : Prop :=
  ∀ tx ∈ txs, ∀ i o c, tx.outputs[i]? = some o → m.getCoin ⟨tx.hash, i⟩ = some c →
    c.coinData.covhash = o.covhash

def CoinsInv (txs : List Tx) (tip : Bool) (m : CoinMap) : Prop :=
  (tip = true → CountsOk m) ∧ Faithful txs m

theorem CoinMap.getCoin_insertCoin_self (m : CoinMap) (id : CoinID) (d : CoinDataHeight) (t : Bool) :
    (m.insertCoin id d t).getCoin id = some d := by
  unfold CoinMap.insertCoin CoinMap.getCoin
  simp only
  split <;> exact AList.get_set_self _ _ _

theorem CoinMap.getCoin_removeCoin_self {m m' : CoinMap} {id : CoinID} {t : Bool}
    (h : m.removeCoin id t = .ok m') : m'.getCoin id = none := by
  unfold CoinMap.removeCoin at h
  unfold CoinMap.getCoin
  split at h
  · split at h
    · simp only at h
      split at h
      · cases h
      · cases h; exact AList.get_del_self _ _
    · cases h; exact AList.get_del_self _ _
  · cases h; exact AList.get_del_self _ _

theorem tx_eq_of_hash : ∀ (l : List Tx), (l.map (·.hash)).Nodup → ∀ a ∈ l, ∀ b ∈ l, a.hash = b.hash → a = b := by
  intro l
  induction l with
  | nil => intro _ a ha; cases ha
  | cons x xs ih =>
    intro hn a ha b hb hab
    simp only [List.map_cons, List.nodup_cons, List.mem_map, not_exists, not_and] at hn
    rcases List.mem_cons.mp ha with ha | ha <;> rcases List.mem_cons.mp hb with hb | hb
    · rw [ha, hb]
    · rw [ha] at hab; exact absurd hab.symm (hn.1 b hb)
    · rw [hb] at hab; exact absurd hab (hn.1 a ha)
    · exact ih hn.2 a ha b hb hab

theorem CoinsInv.insert {txs : List Tx} {tip : Bool} {m : CoinMap} (h : CoinsInv txs tip m)
    (hn : (txs.map (·.hash)).Nodup) {tx : Tx} (htx : tx ∈ txs) {i : Nat} {o : CoinData}
    (ho : tx.outputs[i]? = some o) {d : CoinDataHeight} (hd : d.coinData.covhash = o.covhash) :
    CoinsInv txs tip (m.insertCoin ⟨tx.hash, i⟩ d tip) := by
  refine ⟨?_, ?_⟩
  · intro ht
    subst ht
    cases hg : m.getCoin ⟨tx.hash, i⟩ with
    | none => exact C20_insert_fresh _ _ _ (h.1 rfl) hg
    | some old =>
      exact C20_insert_overwrite _ _ _ old (h.1 rfl) hg (by rw [hd]; exact h.2 tx htx i o old ho hg)
  · intro tx' htx' i' o' c' ho' hc'
    by_cases hid : (⟨tx'.hash, i'⟩ : CoinID) = ⟨tx.hash, i⟩
    · rw [hid, CoinMap.getCoin_insertCoin_self] at hc'
      injection hid with h1 h2
      have : tx' = tx := tx_eq_of_hash txs hn _ htx' _ htx h1
      subst this; subst h2
      rw [ho] at ho'
      cases ho'; cases hc'; exact hd
    · rw [CoinMap.getCoin_insertCoin_ne _ _ _ hid] at hc'
      exact h.2 tx' htx' i' o' c' ho' hc'

theorem CoinsInv.remove {txs : List Tx} {tip : Bool} {m : CoinMap} (h : CoinsInv txs tip m) (id : CoinID) :
    ∃ m', m.removeCoin id tip = .ok m' ∧ CoinsInv txs tip m' := by
  have hex : ∃ m', m.removeCoin id tip = .ok m' ∧ (tip = true → CountsOk m') := by
    cases tip with
    | true =>
      obtain ⟨m', h1, h2⟩ := C20_remove m id (h.1 rfl)
      exact ⟨m', h1, fun _ => h2⟩
    | false => exact ⟨{ m with coins := m.coins.del id }, by unfold CoinMap.removeCoin; simp, fun e => by cases e⟩
  obtain ⟨m', h1, h2⟩ := hex
  refine ⟨m', h1, h2, ?_⟩
  intro tx htx i o c ho hc
  by_cases hid : (⟨tx.hash, i⟩ : CoinID) = id
  · rw [hid, CoinMap.getCoin_removeCoin_self h1] at hc; cases hc
  · rw [CoinMap.getCoin_removeCoin_ne h1 hid] at hc
    exact h.2 tx htx i o c ho hc

/-! ### one pool of one settlement phase -/

/-- shape of "fold the coins, then rebuild the state" -/
theorem bind_fold_ok {α β γ} (f : β → α → Outcome β) (I : β → List α → Prop)
    (hstep : ∀ b a rest, I b (a :: rest) → ∃ b', f b a = .ok b' ∧ I b' rest)
    (l : List α) (b : β) (hI : I b l) (G : β → γ) (Q : β → Prop) (hQ : ∀ b', I b' [] → Q b') :
    ∃ b', Q b' ∧ (Outcome.foldlM' f b l).bind (fun b' => .ok (G b')) = .ok (G b') := by
  obtain ⟨b', h1, h2⟩ := Outcome.foldlM'_ok f I hstep l b hI
  exact ⟨b', hQ b' h2, by rw [h1]; rfl⟩

def swapTL (k : PoolKey) (swaps : List Tx) : Nat :=
  satSum (swaps.map fun tx => if (tx.outputs.headD default).denom = k.left then (tx.outputs.headD default).value else 0)
def swapTR (k : PoolKey) (swaps : List Tx) : Nat :=
  satSum (swaps.map fun tx => if (tx.outputs.headD default).denom = k.right then (tx.outputs.headD default).value else 0)

theorem processSwapsForPool_ok (k : PoolKey) (st : State) (swaps : List Tx) (pool pool' : PoolState)
    (lw rw : Nat) (P : CoinMap → Prop)
    (hpool : st.pools.get k = some pool)
    (hsm : pool.swapMany (swapTL k swaps) (swapTR k swaps) = .ok (pool', lw, rw))
    (hsw : ∀ tx ∈ swaps, ∃ o rest, tx.outputs = o :: rest ∧ 0 < o.value ∧ (o.denom = k.left ∨ o.denom = k.right))
    (hP0 : P st.coins)
    (hPstep : ∀ coins tx o rest cd, tx ∈ swaps → tx.outputs = o :: rest → P coins → cd.covhash = o.covhash →
      P (coins.insertCoin ⟨tx.hash, 0⟩ { coinData := cd, height := st.height } st.tip906)) :
    ∃ coins, P coins ∧
      processSwapsForPool k st swaps = .ok { st with coins := coins, pools := st.pools.set k pool' } := by
  unfold swapTL swapTR at hsm
  unfold processSwapsForPool
  simp only [hpool, hsm]
  refine bind_fold_ok _ (fun c rest => P c ∧ ∀ tx ∈ rest, tx ∈ swaps) ?_ swaps st.coins
    ⟨hP0, fun _ h => h⟩ _ P (fun _ h => h.1)
  intro coins tx rest ⟨hPc, hmem⟩
  have htx : tx ∈ swaps := hmem tx List.mem_cons_self
  obtain ⟨o, orest, ho, hpos, hden⟩ := hsw tx htx
  have hhd : tx.outputs.headD default = o := by rw [ho]; rfl
  simp only [hhd]
  have hrest : ∀ tx' ∈ rest, tx' ∈ swaps := fun tx' h => hmem tx' (List.mem_cons_of_mem _ h)
  by_cases hd : o.denom = k.left
  · rw [if_pos hd]
    have hTL : 0 < satSum (swaps.map fun tx =>
        if (tx.outputs.headD default).denom = k.left then (tx.outputs.headD default).value else 0) :=
      satSum_pos ⟨o.value, List.mem_map.mpr ⟨tx, htx, by rw [hhd, if_pos hd]⟩, hpos⟩
    obtain ⟨v, hv⟩ := multiplyFrac_ok rw o.value _ hTL
    rw [hv]
    exact ⟨_, rfl, hPstep _ _ _ _ _ htx ho hPc rfl, hrest⟩
  · rw [if_neg hd]
    have hd' : o.denom = k.right := by rcases hden with h | h; exact absurd h hd; exact h
    have hTR : 0 < satSum (swaps.map fun tx =>
        if (tx.outputs.headD default).denom = k.right then (tx.outputs.headD default).value else 0) :=
      satSum_pos ⟨o.value, List.mem_map.mpr ⟨tx, htx, by rw [hhd, if_pos hd']⟩, hpos⟩
    obtain ⟨v, hv⟩ := multiplyFrac_ok lw o.value _ hTR
    rw [hv]
    exact ⟨_, rfl, hPstep _ _ _ _ _ htx ho hPc rfl, hrest⟩

def depTL (deps : List Tx) : Nat := satSum (deps.map fun tx => (tx.outputs.headD default).value)
def depTR (deps : List Tx) : Nat := satSum (deps.map fun tx => ((tx.outputs.drop 1).headD default).value)

/-- a deposit that would saturate the pool's liquidity record is left unsettled -/
theorem processDepositsForPool_skip (env : Env) (k : PoolKey) (st : State) (deps : List Tx) (pool' : PoolState)
    (tl : Nat)
    (hdep : ((st.pools.get k).getD PoolState.newEmpty).deposit (depTL deps) (depTR deps) = .ok (pool', tl))
    (hsat : ((st.pools.get k).getD PoolState.newEmpty).liqs + tl > U128_MAX) :
    processDepositsForPool env k st deps = .ok st := by
  unfold depTL depTR at hdep
  unfold processDepositsForPool
  simp only [hdep]
  rw [if_pos hsat]

theorem processDepositsForPool_ok (env : Env) (k : PoolKey) (st : State) (deps : List Tx) (pool' : PoolState)
    (tl : Nat) (P : CoinMap → Prop)
    (hdep : ((st.pools.get k).getD PoolState.newEmpty).deposit (depTL deps) (depTR deps) = .ok (pool', tl))
    (hfit : ¬ ((st.pools.get k).getD PoolState.newEmpty).liqs + tl > U128_MAX)
    (hd : ∀ tx ∈ deps, ∃ o0 o1 rest, tx.outputs = o0 :: o1 :: rest ∧ 0 < o0.value ∧ 0 < o1.value)
    (hP0 : P st.coins)
    (hPins : ∀ coins tx o0 o1 rest cd, tx ∈ deps → tx.outputs = o0 :: o1 :: rest → P coins →
      cd.covhash = o0.covhash →
      P (coins.insertCoin ⟨tx.hash, 0⟩ { coinData := cd, height := st.height } st.tip906))
    (hPrem : ∀ coins id, P coins → ∃ coins', coins.removeCoin id st.tip906 = .ok coins' ∧ P coins') :
    ∃ coins, P coins ∧
      processDepositsForPool env k st deps = .ok { st with coins := coins, pools := st.pools.set k pool' } := by
  unfold depTL depTR at hdep
  unfold processDepositsForPool
  simp only [hdep]
  rw [if_neg hfit]
  refine bind_fold_ok _ (fun c rest => P c ∧ ∀ tx ∈ rest, tx ∈ deps) ?_ deps st.coins
    ⟨hP0, fun _ h => h⟩ _ P (fun _ h => h.1)
  intro coins tx rest ⟨hPc, hmem⟩
  have htx : tx ∈ deps := hmem tx List.mem_cons_self
  obtain ⟨o0, o1, orest, ho, hpos0, hpos1⟩ := hd tx htx
  have hh0 : tx.outputs.headD default = o0 := by rw [ho]; rfl
  have hh1 : (tx.outputs.drop 1).headD default = o1 := by rw [ho]; rfl
  have hrest : ∀ tx' ∈ rest, tx' ∈ deps := fun tx' h => hmem tx' (List.mem_cons_of_mem _ h)
  have hT : 0 < satSum (deps.map fun tx =>
      mtsqrt (tx.outputs.headD default).value ((tx.outputs.drop 1).headD default).value) :=
    satSum_pos ⟨mtsqrt o0.value o1.value, List.mem_map.mpr ⟨tx, htx, by rw [hh0, hh1]⟩,
      mtsqrt_pos hpos0 hpos1⟩
  obtain ⟨v, hv⟩ := multiplyFrac_ok tl (mtsqrt o0.value o1.value) _ hT
  simp only [hh0, hh1]
  rw [hv]
  simp only [Outcome.bind]
  have hins := hPins coins tx o0 o1 orest { o0 with denom := liqTokenDenom env k, value := v } htx ho hPc rfl
  by_cases hleg : legacyDeposit st = true
  · rw [if_pos hleg]; exact ⟨_, rfl, hins, hrest⟩
  · rw [if_neg hleg]
    obtain ⟨c', hc', hP'⟩ := hPrem _ (outCoinID tx 1) hins
    exact ⟨c', hc', hP', hrest⟩

theorem bind_fold_ok' {α β γ} (f : β → α → Outcome β) (I : β → List α → Prop)
    (hstep : ∀ b a rest, I b (a :: rest) → ∃ b', f b a = .ok b' ∧ I b' rest)
    (l : List α) (b : β) (hI : I b l) (G : β → γ) :
    ∃ b', (Outcome.foldlM' f b l).bind (fun b' => .ok (G b')) = .ok (G b') := by
  obtain ⟨b', h1, _⟩ := Outcome.foldlM'_ok f I hstep l b hI
  exact ⟨b', by rw [h1]; rfl⟩

def wdT (reqs : List Tx) : Nat := satSum (reqs.map fun tx => (tx.outputs.headD default).value)

theorem processWithdrawalsForPool_skip (k : PoolKey) (st : State) (reqs : List Tx) (pool : PoolState)
    (hpool : st.pools.get k = some pool) (hgt : wdT reqs > pool.liqs) :
    processWithdrawalsForPool k st reqs = .ok st := by
  unfold wdT at hgt
  unfold processWithdrawalsForPool
  simp only [hpool]
  rw [if_pos hgt]

theorem processWithdrawalsForPool_ok (k : PoolKey) (st : State) (reqs : List Tx) (pool pool' : PoolState)
    (tl tr : Nat) (hpool : st.pools.get k = some pool) (hle : ¬ wdT reqs > pool.liqs)
    (hw : pool.withdraw (wdT reqs) = .ok (pool', tl, tr)) (hpos : 0 < wdT reqs) :
    ∃ coins,
      processWithdrawalsForPool k st reqs = .ok { st with coins := coins, pools := st.pools.set k pool' } := by
  unfold wdT at hle hw hpos
  unfold processWithdrawalsForPool
  simp only [hpool]
  rw [if_neg hle]
  simp only [hw]
  refine bind_fold_ok' _ (fun _ _ => True) ?_ reqs st.coins trivial _
  · intro coins tx rest _
    obtain ⟨vl, hvl⟩ := multiplyFrac_ok tl (tx.outputs.headD default).value _ hpos
    obtain ⟨vr, hvr⟩ := multiplyFrac_ok tr (tx.outputs.headD default).value _ hpos
    simp only [hvl, hvr, Outcome.bind]
    exact ⟨_, rfl, trivial⟩

/-! ### the invariants of the settlement phases -/

/-- what no step of sealing before the proposer action touches -/
structure SameBase (s st : State) : Prop where
  txs : st.txs = s.txs
  height : st.height = s.height
  network : st.network = s.network
  feePool : st.feePool = s.feePool
  tips : st.tips = s.tips

theorem SameBase.refl (s : State) : SameBase s s := ⟨rfl, rfl, rfl, rfl, rfl⟩

theorem SameBase.tip906 {s st : State} (h : SameBase s st) : st.tip906 = s.tip906 := by
  simp [State.tip906, State.tipCondition, h.height, h.network]
theorem SameBase.tip902 {s st : State} (h : SameBase s st) : st.tip902 = s.tip902 := by
  simp [State.tip902, State.tipCondition, h.height, h.network]
theorem SameBase.tip909 {s st : State} (h : SameBase s st) : st.tip909 = s.tip909 := by
  simp [State.tip909, State.tipCondition, h.height, h.network]

/-- the builtin pools of a state (ERG/SYM only once TIP-902 is active) -/
def builtinsOf (tip902 : Bool) : List PoolKey :=
  if tip902 then [poolMelSym, poolMelErg, poolErgSym] else [poolMelSym, poolMelErg]

theorem melSym_mem_builtinsOf (t : Bool) : poolMelSym ∈ builtinsOf t := by
  unfold builtinsOf; split <;> simp
theorem melErg_mem_builtinsOf (t : Bool) : poolMelErg ∈ builtinsOf t := by
  unfold builtinsOf; split <;> simp
theorem mem_builtinsOf_three {t : Bool} {k : PoolKey} (h : k ∈ builtinsOf t) :
    k ∈ [poolMelSym, poolMelErg, poolErgSym] := by
  unfold builtinsOf at h
  split at h
  · exact h
  · simp only [List.mem_cons, List.not_mem_nil, or_false] at h ⊢
    rcases h with h | h
    · exact Or.inl h
    · exact Or.inr (Or.inl h)

structure PoolsOk (tip902 : Bool) (pools : AList PoolKey PoolState) : Prop where
  sane : ∀ k p, pools.get k = some p → p.liqs ≠ 0 → 0 < p.lefts ∧ 0 < p.rights
  builtins : ∀ k ∈ builtinsOf tip902, ∃ p, pools.get k = some p ∧ 0 < p.lefts ∧ 0 < p.rights ∧ 0 < p.liqs

theorem PoolsOk.builtin_get {t : Bool} {pools : AList PoolKey PoolState} (h : PoolsOk t pools) {k : PoolKey}
    (hk : k ∈ builtinsOf t) {p : PoolState} (hp : pools.get k = some p) :
    0 < p.lefts ∧ 0 < p.rights ∧ 0 < p.liqs := by
  obtain ⟨q, hq, h1⟩ := h.builtins k hk
  rw [hp] at hq; cases hq; exact h1

theorem isSome_get_set {pools : AList PoolKey PoolState} {k k' : PoolKey} (p' : PoolState)
    (h : (pools.get k').isSome = true) : ((pools.set k p').get k').isSome = true := by
  by_cases e : k' = k
  · subst e; rw [AList.get_set_self]; rfl
  · rw [AList.get_set_ne _ _ e]; exact h

theorem PoolsOk.set {t : Bool} {pools : AList PoolKey PoolState} (h : PoolsOk t pools) (k : PoolKey)
    (p' : PoolState) (h1 : p'.liqs ≠ 0 → 0 < p'.lefts ∧ 0 < p'.rights)
    (h2 : k ∈ builtinsOf t → 0 < p'.lefts ∧ 0 < p'.rights ∧ 0 < p'.liqs) : PoolsOk t (pools.set k p') := by
  refine ⟨?_, ?_⟩
  · intro k' p hp
    by_cases e : k' = k
    · subst e; rw [AList.get_set_self] at hp; cases hp; exact h1
    · rw [AList.get_set_ne _ _ e] at hp; exact h.sane k' p hp
  · intro k' hk'
    by_cases e : k' = k
    · subst e; rw [AList.get_set_self]; exact ⟨p', rfl, h2 hk'⟩
    · rw [AList.get_set_ne _ _ e]; exact h.builtins k' hk'

/-- the MEL the first outputs of the block's transactions can pay into a pool -/
def melInflow (txs : List Tx) : Nat :=
  (txs.map fun tx => if (tx.outputs.headD default).denom = .mel then (tx.outputs.headD default).value else 0).sum

theorem sum_requests_le (f : Tx → Nat) (q : Tx → Bool) (txs : List Tx) (k : PoolKey) :
    ((transactionsForPool (txs.filter q) k).map f).sum ≤ (txs.map f).sum := by
  unfold transactionsForPool
  exact Nat.le_trans (sum_filter_le _ _ _) (sum_filter_le _ _ _)

theorem poolMelSym_left : poolMelSym.left = .mel := by decide

/-! ### the swap phase -/

theorem processSwaps_ok (s st0 : State) (B V : Nat)
    (hbase : SameBase s st0) (hn : (s.txs.map (·.hash)).Nodup)
    (hpo : PoolsOk s.tip902 st0.pools) (hci : CoinsInv s.txs s.tip906 st0.coins)
    (hV : melInflow s.txs ≤ V)
    (hB : ∀ p, st0.pools.get poolMelSym = some p → p.lefts ≤ B) :
    ∃ st1, processSwaps st0 = .ok st1 ∧ SameBase s st1 ∧ PoolsOk s.tip902 st1.pools ∧
      CoinsInv s.txs s.tip906 st1.coins ∧
      (∀ p, st1.pools.get poolMelSym = some p → p.lefts ≤ B + V) := by
  unfold processSwaps
  simp only
  generalize hreqs : st0.txs.filter (isSwapRequest st0) = reqs
  have hks : ∀ k ∈ extractPoolKeysSorted reqs, ∃ p, st0.pools.get k = some p ∧ 0 < p.lefts ∧ 0 < p.rights := by
    intro k hk
    obtain ⟨tx, htx, hck⟩ := mem_extractPoolKeysSorted hk
    rw [← hreqs] at htx
    obtain ⟨k', o, rest, p, hck', _, _, hp, h1, h2, _⟩ := isSwapRequest_full (List.mem_filter.mp htx).2
    rw [hck] at hck'; cases hck'
    exact ⟨p, hp, h1, h2⟩
  have hsw : ∀ k, ∀ tx ∈ transactionsForPool reqs k, tx ∈ s.txs ∧
      ∃ o rest, tx.outputs = o :: rest ∧ 0 < o.value ∧ (o.denom = k.left ∨ o.denom = k.right) := by
    intro k tx htx
    obtain ⟨htx, hck⟩ := mem_transactionsForPool'.mp htx
    rw [← hreqs] at htx
    obtain ⟨hm, hreq⟩ := List.mem_filter.mp htx
    obtain ⟨k', o, rest, p, hck', ho, hpos, _, _, _, hden⟩ := isSwapRequest_full hreq
    rw [hck] at hck'; cases hck'
    exact ⟨hbase.txs ▸ hm, o, rest, ho, hpos, hden⟩
  refine Exists.elim (Outcome.foldlM'_ok
    (fun st k => processSwapsForPool k st (transactionsForPool reqs k))
    (fun st rest => rest.Nodup ∧ SameBase s st ∧ PoolsOk s.tip902 st.pools ∧ CoinsInv s.txs s.tip906 st.coins ∧
      (∀ k ∈ extractPoolKeysSorted reqs, ∃ p, st.pools.get k = some p ∧ 0 < p.lefts ∧ 0 < p.rights) ∧
      (poolMelSym ∈ rest → ∀ p, st.pools.get poolMelSym = some p → p.lefts ≤ B) ∧
      (∀ p, st.pools.get poolMelSym = some p → p.lefts ≤ B + V) ∧
      (∀ k ∈ rest, k ∈ extractPoolKeysSorted reqs))
    ?_ (extractPoolKeysSorted reqs) st0
    ⟨extractPoolKeysSorted_nodup _, hbase, hpo, hci, hks, fun _ => hB,
      fun p hp => Nat.le_trans (hB p hp) (Nat.le_add_right _ _), fun _ h => h⟩)
    (fun st1 ⟨h1, hI⟩ => ⟨st1, h1, hI.2.1, hI.2.2.1, hI.2.2.2.1, hI.2.2.2.2.2.2.1⟩)
  · intro st k rest ⟨hnod, hb, hpo', hci', hks', hB1, hB2, hsub⟩
    have hnod' := List.nodup_cons.mp hnod
    obtain ⟨pool, hpool, hl, hr⟩ := hks' k (hsub k List.mem_cons_self)
    obtain ⟨pool', lw, rw, hsm, hl', hr', hliq, hle⟩ :=
      swapMany_spec pool (swapTL k (transactionsForPool reqs k)) (swapTR k (transactionsForPool reqs k))
        hl hr (satSum_le_max _) (satSum_le_max _)
    obtain ⟨coins, hP, hok⟩ := processSwapsForPool_ok k st (transactionsForPool reqs k) pool pool' lw rw
      (CoinsInv s.txs s.tip906) hpool hsm (fun tx htx => (hsw k tx htx).2) hci' (by
        intro coins tx o orest cd htx ho hPc hcd
        rw [hb.tip906]
        exact hPc.insert hn (hsw k tx htx).1 (i := 0) (o := o) (by rw [ho]; rfl) hcd)
    refine ⟨_, hok, hnod'.2, ⟨hb.txs, hb.height, hb.network, hb.feePool, hb.tips⟩, ?_, hP, ?_, ?_, ?_, ?_⟩
    · exact hpo'.set k pool' (fun _ => ⟨hl', hr'⟩)
        (fun hk => ⟨hl', hr', by rw [hliq]; exact (hpo'.builtin_get hk hpool).2.2⟩)
    · intro k' hk'
      simp only
      by_cases e : k' = k
      · subst e; rw [AList.get_set_self]; exact ⟨pool', rfl, hl', hr'⟩
      · rw [AList.get_set_ne _ _ e]; exact hks' k' hk'
    · intro hmem p hp
      simp only at hp
      have e : poolMelSym ≠ k := by intro e; rw [← e] at hnod'; exact hnod'.1 hmem
      rw [AList.get_set_ne _ _ e] at hp
      exact hB1 (List.mem_cons_of_mem _ hmem) p hp
    · intro p hp
      simp only at hp
      by_cases e : poolMelSym = k
      · subst e
        rw [AList.get_set_self] at hp; cases hp
        have h1 := hB1 List.mem_cons_self pool hpool
        have h2 : swapTL poolMelSym (transactionsForPool reqs poolMelSym) ≤ V := by
          refine Nat.le_trans ?_ hV
          unfold swapTL
          refine Nat.le_trans (satSum_le_sum _) ?_
          rw [← hreqs, poolMelSym_left, ← hbase.txs]
          exact sum_requests_le _ _ _ _
        omega
      · rw [AList.get_set_ne _ _ e] at hp; exact hB2 p hp
    · exact fun k' hk' => hsub k' (List.mem_cons_of_mem _ hk')

/-! ### the deposit phase -/

theorem processDeposits_ok (env : Env) (s st0 : State) (B V : Nat)
    (hbase : SameBase s st0) (hn : (s.txs.map (·.hash)).Nodup)
    (hpo : PoolsOk s.tip902 st0.pools) (hci : CoinsInv s.txs s.tip906 st0.coins)
    (hV : melInflow s.txs ≤ V)
    (hB : ∀ p, st0.pools.get poolMelSym = some p → p.lefts ≤ B) :
    ∃ st1, processDeposits env st0 = .ok st1 ∧ SameBase s st1 ∧ PoolsOk s.tip902 st1.pools ∧
      (∀ p, st1.pools.get poolMelSym = some p → p.lefts ≤ B + V) := by
  unfold processDeposits
  simp only
  generalize hreqs : st0.txs.filter (isDepositRequest st0) = reqs
  have hks : ∀ k ∈ extractPoolKeysSorted reqs, ∃ tx, tx ∈ transactionsForPool reqs k := by
    intro k hk
    obtain ⟨tx, htx, hck⟩ := mem_extractPoolKeysSorted hk
    exact ⟨tx, mem_transactionsForPool'.mpr ⟨htx, hck⟩⟩
  have hdp : ∀ k, ∀ tx ∈ transactionsForPool reqs k, tx ∈ s.txs ∧
      ∃ o0 o1 rest, tx.outputs = o0 :: o1 :: rest ∧ 0 < o0.value ∧ 0 < o1.value ∧ o0.denom = k.left := by
    intro k tx htx
    obtain ⟨htx, hck⟩ := mem_transactionsForPool'.mp htx
    rw [← hreqs] at htx
    obtain ⟨hm, hreq⟩ := List.mem_filter.mp htx
    obtain ⟨k', o0, o1, rest, hck', ho, hp0, hp1, hden⟩ := isDepositRequest_full hreq
    rw [hck] at hck'; cases hck'
    exact ⟨hbase.txs ▸ hm, o0, o1, rest, ho, hp0, hp1, hden⟩
  refine Exists.elim (Outcome.foldlM'_ok
    (fun st k => processDepositsForPool env k st (transactionsForPool reqs k))
    (fun st rest => rest.Nodup ∧ SameBase s st ∧ PoolsOk s.tip902 st.pools ∧ CoinsInv s.txs s.tip906 st.coins ∧
      (poolMelSym ∈ rest → ∀ p, st.pools.get poolMelSym = some p → p.lefts ≤ B) ∧
      (∀ p, st.pools.get poolMelSym = some p → p.lefts ≤ B + V) ∧
      (∀ k ∈ rest, k ∈ extractPoolKeysSorted reqs))
    ?_ (extractPoolKeysSorted reqs) st0
    ⟨extractPoolKeysSorted_nodup _, hbase, hpo, hci, fun _ => hB,
      fun p hp => Nat.le_trans (hB p hp) (Nat.le_add_right _ _), fun _ h => h⟩)
    (fun st1 ⟨h1, hI⟩ => ⟨st1, h1, hI.2.1, hI.2.2.1, hI.2.2.2.2.2.1⟩)
  intro st k rest ⟨hnod, hb, hpo', hci', hB1, hB2, hsub⟩
  have hnod' := List.nodup_cons.mp hnod
  obtain ⟨tx0, htx0⟩ := hks k (hsub k List.mem_cons_self)
  obtain ⟨_, a0, a1, arest, ha, hpa0, hpa1, _⟩ := hdp k tx0 htx0
  have hTL : 0 < depTL (transactionsForPool reqs k) :=
    satSum_pos ⟨a0.value, List.mem_map.mpr ⟨tx0, htx0, by rw [ha]; rfl⟩, hpa0⟩
  have hTR : 0 < depTR (transactionsForPool reqs k) :=
    satSum_pos ⟨a1.value, List.mem_map.mpr ⟨tx0, htx0, by rw [ha]; rfl⟩, hpa1⟩
  have hsane : ((st.pools.get k).getD PoolState.newEmpty).liqs ≠ 0 →
      0 < ((st.pools.get k).getD PoolState.newEmpty).lefts ∧ 0 < ((st.pools.get k).getD PoolState.newEmpty).rights := by
    cases hg : st.pools.get k with
    | none => intro h; exact absurd rfl h
    | some p => exact hpo'.sane k p hg
  obtain ⟨pool', m, hdep, hpos, hD, hle⟩ := deposit_spec _ (depTL (transactionsForPool reqs k))
    (depTR (transactionsForPool reqs k)) hsane
  by_cases hsat : ((st.pools.get k).getD PoolState.newEmpty).liqs + m > U128_MAX
  · exact ⟨st, processDepositsForPool_skip env k st _ pool' m hdep hsat, hnod'.2, hb, hpo', hci',
      fun hmem => hB1 (List.mem_cons_of_mem _ hmem), hB2, fun k' hk' => hsub k' (List.mem_cons_of_mem _ hk')⟩
  obtain ⟨coins, hP, hok⟩ := processDepositsForPool_ok env k st (transactionsForPool reqs k) pool' m
    (CoinsInv s.txs s.tip906) hdep hsat
    (fun tx htx => by
      obtain ⟨_, o0, o1, r, ho, h0, h1, _⟩ := hdp k tx htx
      exact ⟨o0, o1, r, ho, h0, h1⟩) hci' (by
      intro coins tx o0 o1 orest cd htx ho hPc hcd
      rw [hb.tip906]
      exact hPc.insert hn (hdp k tx htx).1 (i := 0) (o := o0) (by rw [ho]; rfl) hcd) (by
      intro coins id hPc
      rw [hb.tip906]
      exact hPc.remove id)
  have hU := U128_MAX_pos
  refine ⟨_, hok, hnod'.2, ⟨hb.txs, hb.height, hb.network, hb.feePool, hb.tips⟩, ?_, hP, ?_, ?_, ?_⟩
  · refine hpo'.set k pool' (fun _ => hpos hTL hTR) (fun hk => ?_)
    obtain ⟨p, hp, _, _, hliq⟩ := hpo'.builtins k hk
    have := hpos hTL hTR
    exact ⟨this.1, this.2, hD 0 (by rw [hp]; exact hliq) hU⟩
  · intro hmem p hp
    simp only at hp
    have e : poolMelSym ≠ k := by intro e; rw [← e] at hnod'; exact hnod'.1 hmem
    rw [AList.get_set_ne _ _ e] at hp
    exact hB1 (List.mem_cons_of_mem _ hmem) p hp
  · intro p hp
    simp only at hp
    by_cases e : poolMelSym = k
    · subst e
      rw [AList.get_set_self] at hp; cases hp
      obtain ⟨q, hq, _⟩ := hpo'.builtins poolMelSym (melSym_mem_builtinsOf _)
      have h1 := hB1 List.mem_cons_self q hq
      rw [hq] at hle
      have h2 : depTL (transactionsForPool reqs poolMelSym) ≤ V := by
        refine Nat.le_trans ?_ hV
        unfold depTL
        refine Nat.le_trans (satSum_le_sum _) ?_
        rw [sum_map_congr_mem _ (fun tx => if (tx.outputs.headD default).denom = .mel then
          (tx.outputs.headD default).value else 0)]
        · rw [← hreqs, ← hbase.txs]
          exact sum_requests_le _ _ _ _
        · intro tx htx
          obtain ⟨_, o0, o1, r, ho, _, _, hden⟩ := hdp poolMelSym tx htx
          have hh : tx.outputs.headD default = o0 := by rw [ho]; rfl
          rw [hh, if_pos (by rw [hden]; exact poolMelSym_left)]
      simp only [Option.getD_some] at hle
      omega
    · rw [AList.get_set_ne _ _ e] at hp; exact hB2 p hp
  · exact fun k' hk' => hsub k' (List.mem_cons_of_mem _ hk')

/-! ### the withdrawal phase -/

/-- every pool that records liquidity has reserves on both sides -/
def SanePools (pools : AList PoolKey PoolState) : Prop :=
  ∀ k p, pools.get k = some p → p.liqs ≠ 0 → 0 < p.lefts ∧ 0 < p.rights

/-- the withdrawal phase succeeds, whatever the block asks to redeem: a request for more than a pool's whole
    liquidity is skipped, one for exactly all of it leaves the pool empty (no reserves, no liquidity — the builtin
    pools among these are made afresh by the second `create_builtins`, finding F24), a smaller one leaves reserves
    on both sides. Nothing is assumed of the amounts. -/
theorem processWithdrawals_ok (env : Env) (s st0 : State) (B : Nat)
    (hbase : SameBase s st0) (hsane : SanePools st0.pools)
    (hB : ∀ p, st0.pools.get poolMelSym = some p → p.lefts ≤ B) :
    ∃ st1, processWithdrawals env st0 = .ok st1 ∧ SameBase s st1 ∧ SanePools st1.pools ∧
      (∀ p, st1.pools.get poolMelSym = some p → p.lefts ≤ B) := by
  unfold processWithdrawals
  simp only
  generalize hreqs : st0.txs.filter (isWithdrawRequest env st0) = reqs
  have hks : ∀ k ∈ extractPoolKeysSorted reqs, (st0.pools.get k).isSome = true ∧
      ∃ tx, tx ∈ transactionsForPool reqs k := by
    intro k hk
    obtain ⟨tx, htx, hck⟩ := mem_extractPoolKeysSorted hk
    refine ⟨?_, tx, mem_transactionsForPool'.mpr ⟨htx, hck⟩⟩
    rw [← hreqs] at htx
    obtain ⟨_, k', o0, hck', _, _, hs⟩ := isWithdrawRequest_full (List.mem_filter.mp htx).2
    rw [hck] at hck'; cases hck'; exact hs
  have hwd : ∀ k, ∀ tx ∈ transactionsForPool reqs k, ∃ o0, tx.outputs = [o0] ∧ 0 < o0.value := by
    intro k tx htx
    obtain ⟨htx, hck⟩ := mem_transactionsForPool'.mp htx
    rw [← hreqs] at htx
    obtain ⟨_, k', o0, _, ho, hp0, _⟩ := isWithdrawRequest_full (List.mem_filter.mp htx).2
    exact ⟨o0, ho, hp0⟩
  refine Exists.elim (Outcome.foldlM'_ok
    (fun st k => processWithdrawalsForPool k st (transactionsForPool reqs k))
    (fun st rest => SameBase s st ∧ SanePools st.pools ∧
      (∀ k ∈ extractPoolKeysSorted reqs, (st.pools.get k).isSome = true) ∧
      (∀ p, st.pools.get poolMelSym = some p → p.lefts ≤ B) ∧
      (∀ k ∈ rest, k ∈ extractPoolKeysSorted reqs))
    ?_ (extractPoolKeysSorted reqs) st0
    ⟨hbase, hsane, fun k hk => (hks k hk).1, hB, fun _ h => h⟩)
    (fun st1 ⟨h1, hI⟩ => ⟨st1, h1, hI.1, hI.2.1, hI.2.2.2.1⟩)
  intro st k rest ⟨hb, hsane', hex, hB', hsub⟩
  have hkks := hsub k List.mem_cons_self
  obtain ⟨pool, hpool⟩ := Option.isSome_iff_exists.mp (hex k hkks)
  have hsub' : ∀ k' ∈ rest, k' ∈ extractPoolKeysSorted reqs := fun k' hk' => hsub k' (List.mem_cons_of_mem _ hk')
  by_cases hgt : wdT (transactionsForPool reqs k) > pool.liqs
  · exact ⟨st, processWithdrawalsForPool_skip k st _ pool hpool hgt, hb, hsane', hex, hB', hsub'⟩
  · obtain ⟨tx0, htx0⟩ := (hks k hkks).2
    obtain ⟨a0, ha, hpa0⟩ := hwd k tx0 htx0
    have hT : 0 < wdT (transactionsForPool reqs k) :=
      satSum_pos ⟨a0.value, List.mem_map.mpr ⟨tx0, htx0, by rw [ha]; rfl⟩, hpa0⟩
    obtain ⟨pool', tl, tr, hw, hliq, hlefts, hpos⟩ := withdraw_spec pool _ hT (by omega)
    obtain ⟨coins, hok⟩ := processWithdrawalsForPool_ok k st _ pool pool' tl tr hpool hgt hw hT
    refine ⟨_, hok, ⟨hb.txs, hb.height, hb.network, hb.feePool, hb.tips⟩, ?_, ?_, ?_, hsub'⟩
    · intro k' p hp hne
      simp only at hp
      by_cases e : k' = k
      · subst e
        rw [AList.get_set_self] at hp; cases hp
        have hlt : wdT (transactionsForPool reqs k') < pool.liqs := by omega
        obtain ⟨h1, h2⟩ := hsane' k' pool hpool (by omega)
        exact hpos h1 h2 hlt
      · rw [AList.get_set_ne _ _ e] at hp; exact hsane' k' p hp hne
    · exact fun k' hk' => isSome_get_set _ (hex k' hk')
    · intro p hp
      simp only at hp
      by_cases e : poolMelSym = k
      · subst e
        rw [AList.get_set_self] at hp; cases hp
        have := hB' pool hpool
        omega
      · rw [AList.get_set_ne _ _ e] at hp; exact hB' p hp

/-! ### pegging, cut into pieces (the pieces are literal copies of the text of `processPegging`) -/

def pegGet (s : State) (k : PoolKey) : Outcome PoolState :=
  match s.pools.get k with
  | some p => .ok p
  | none => .crash "melmint.rs: builtin pool missing (unwrap)"

def pegXsd (s : State) : Outcome (Nat × Nat) :=
  if s.tip902 then
    (pegGet s poolErgSym).bind fun p =>
      if p.rights = 0 then .crash "melswap.rs: implied_price Ratio::new(_, 0)"
      else if p.lefts = 0 then .crash "melmint.rs: recip of zero"
      else .ok (p.rights, p.lefts)
  else
    (pegGet s poolMelSym).bind fun ps =>
    (pegGet s poolMelErg).bind fun pd =>
      if ps.rights = 0 || pd.rights = 0 then .crash "melswap.rs: implied_price Ratio::new(_, 0)"
      else if ps.lefts = 0 || pd.lefts = 0 then .crash "melmint.rs: recip of zero"
      else .ok (ps.rights * pd.lefts, ps.lefts * pd.rights)

def pegStep1 (sm : PoolState) (dm t : Nat) : Outcome PoolState :=
  if dm > sm.lefts then
    (sm.swapMany ((dm - sm.lefts) / t) 0).bind fun (p, _, _) => .ok p
  else .ok sm

def pegStep2 (sm1 : PoolState) (ds t : Nat) : Outcome PoolState :=
  if ds > sm1.rights then
    (sm1.swapMany 0 ((ds - sm1.rights) / t)).bind fun (p, _, _) => .ok p
  else .ok sm1

def pegTail (s : State) (sm : PoolState) (a b : Nat) : Outcome State :=
  let throttler := if s.tip902 then THROTTLER_902 else THROTTLER_PRE
  let konstant := sm.lefts * sm.rights
  let infl := microergsIter s.height
  let num := infl * a
  let den := MICRO_CONVERTER * b
  if num = 0 then .crash "melmint.rs: division by a zero desired exchange rate" else
  let desiredMel := satU128 (Nat.sqrt (konstant * den / num))
  let desiredSym := satU128 (Nat.sqrt (konstant * num / den))
  (pegStep1 sm desiredMel throttler).bind fun sm1 =>
  (pegStep2 sm1 desiredSym throttler).bind fun sm2 => .ok { s with pools := s.pools.set poolMelSym sm2 }

theorem processPegging_eq (s : State) :
    processPegging s = (pegXsd s).bind fun (a, b) => (pegGet s poolMelSym).bind fun sm => pegTail s sm a b := rfl

theorem pegStep1_ok (sm : PoolState) (dm t : Nat) (hl : 0 < sm.lefts) (hr : 0 < sm.rights)
    (hdm : dm ≤ U128_MAX) (ht : 200 ≤ t) :
    ∃ p, pegStep1 sm dm t = .ok p ∧ 0 < p.lefts ∧ 0 < p.rights ∧ p.liqs = sm.liqs ∧
      p.lefts ≤ sm.lefts + U128_MAX / 200 := by
  unfold pegStep1
  split
  · have hle : (dm - sm.lefts) / t ≤ U128_MAX / 200 :=
      Nat.le_trans (Nat.div_le_div_left ht (by omega)) (Nat.div_le_div_right (by omega))
    obtain ⟨p, lw, rw, e, h1, h2, h3, h4⟩ := swapMany_spec sm ((dm - sm.lefts) / t) 0 hl hr
      (Nat.le_trans hle (Nat.div_le_self _ _)) (Nat.zero_le _)
    rw [e]
    exact ⟨p, rfl, h1, h2, h3, by omega⟩
  · exact ⟨sm, rfl, hl, hr, rfl, by omega⟩

theorem pegStep2_ok (sm : PoolState) (ds t : Nat) (hl : 0 < sm.lefts) (hr : 0 < sm.rights)
    (hds : ds ≤ U128_MAX) :
    ∃ p, pegStep2 sm ds t = .ok p ∧ 0 < p.lefts ∧ 0 < p.rights ∧ p.liqs = sm.liqs ∧ p.lefts ≤ sm.lefts := by
  unfold pegStep2
  split
  · have hle : (ds - sm.rights) / t ≤ U128_MAX :=
      Nat.le_trans (Nat.div_le_self _ _) (by omega)
    obtain ⟨p, lw, rw, e, h1, h2, h3, h4⟩ := swapMany_spec sm 0 ((ds - sm.rights) / t) hl hr
      (Nat.zero_le _) hle
    rw [e]
    exact ⟨p, rfl, h1, h2, h3, by omega⟩
  · exact ⟨sm, rfl, hl, hr, rfl, by omega⟩

theorem pegTail_ok (s : State) (sm : PoolState) (a b : Nat) (hl : 0 < sm.lefts) (hr : 0 < sm.rights)
    (ha : 0 < a) :
    ∃ p, pegTail s sm a b = .ok { s with pools := s.pools.set poolMelSym p } ∧ 0 < p.lefts ∧ 0 < p.rights ∧
      p.liqs = sm.liqs ∧ p.lefts ≤ sm.lefts + U128_MAX / 200 := by
  unfold pegTail
  simp only
  rw [if_neg (Nat.ne_of_gt (Nat.mul_pos (microergsIter_pos _) ha))]
  have ht : 200 ≤ (if s.tip902 = true then THROTTLER_902 else THROTTLER_PRE) := by
    split <;> decide
  obtain ⟨p1, e1, h1, h2, h3, h4⟩ := pegStep1_ok sm _ _ hl hr (satU128_le_max _) ht
  rw [e1]
  obtain ⟨p2, e2, g1, g2, g3, g4⟩ := pegStep2_ok p1 _ (if s.tip902 = true then THROTTLER_902 else THROTTLER_PRE)
    h1 h2 (satU128_le_max _)
  simp only [Outcome.bind]
  rw [e2]
  exact ⟨p2, rfl, g1, g2, by rw [g3, h3], by omega⟩

theorem processPegging_ok (s st : State) (B : Nat) (hbase : SameBase s st)
    (hpo : PoolsOk s.tip902 st.pools) (hB : ∀ p, st.pools.get poolMelSym = some p → p.lefts ≤ B) :
    ∃ st', processPegging st = .ok st' ∧ SameBase s st' ∧ PoolsOk s.tip902 st'.pools ∧
      (∀ p, st'.pools.get poolMelSym = some p → p.lefts ≤ B + U128_MAX / 200) := by
  obtain ⟨sm, hsm, hsl, hsr, hsq⟩ := hpo.builtins poolMelSym (melSym_mem_builtinsOf _)
  obtain ⟨me, hme, hel, her, heq⟩ := hpo.builtins poolMelErg (melErg_mem_builtinsOf _)
  have hx : ∃ a b, pegXsd st = .ok (a, b) ∧ 0 < a := by
    unfold pegXsd
    cases ht : st.tip902
    · simp only [Bool.false_eq_true, if_false, pegGet, hsm, hme, Outcome.bind]
      rw [if_neg (by simp; omega), if_neg (by simp; omega)]
      exact ⟨_, _, rfl, Nat.mul_pos hsr hel⟩
    · rw [hbase.tip902] at ht
      obtain ⟨es, hes, h1, h2, _⟩ := hpo.builtins poolErgSym (by rw [ht]; simp [builtinsOf])
      simp only [if_true, pegGet, hes, Outcome.bind]
      rw [if_neg (by omega), if_neg (by omega)]
      exact ⟨_, _, rfl, h2⟩
  obtain ⟨a, b, hx, ha⟩ := hx
  obtain ⟨p, hp, h1, h2, h3, h4⟩ := pegTail_ok st sm a b hsl hsr ha
  refine ⟨{ st with pools := st.pools.set poolMelSym p }, by rw [processPegging_eq, hx]; simp only [Outcome.bind, pegGet, hsm]; exact hp,
    ⟨hbase.txs, hbase.height, hbase.network, hbase.feePool, hbase.tips⟩, ?_, ?_⟩
  · exact hpo.set poolMelSym p (fun _ => ⟨h1, h2⟩) (fun _ => ⟨h1, h2, by rw [h3]; exact hsq⟩)
  · intro q hq
    simp only at hq
    rw [AList.get_set_self] at hq; cases hq
    have := hB sm hsm
    omega

theorem tip909_imp_tip902 (s : State) (h : s.tip909 = true) : s.tip902 = true := by
  unfold State.tip909 State.tip902 State.tipCondition at *
  have e1 : ¬ (TIP_909_HEIGHT = U64_MAX_HEIGHT) := by decide
  have e2 : ¬ (TIP_902_HEIGHT = U64_MAX_HEIGHT) := by decide
  rw [if_neg e1] at h
  rw [if_neg e2]
  by_cases hm : s.network = .mainnet
  · simp only [hm, if_true, decide_eq_true_eq] at h ⊢
    have : TIP_902_HEIGHT ≤ TIP_909_HEIGHT := by decide
    omega
  · simp only [hm, if_false] at h ⊢
    exact h

theorem two_le_length_of_get {pools : AList PoolKey PoolState} {k1 k2 : PoolKey} (hne : k1 ≠ k2)
    (h1 : (pools.get k1).isSome = true) (h2 : (pools.get k2).isSome = true) : ¬ pools.length < 2 := by
  obtain ⟨p1, hp1⟩ := Option.isSome_iff_exists.mp h1
  obtain ⟨p2, hp2⟩ := Option.isSome_iff_exists.mp h2
  have m1 := AList.mem_of_get_eq_some hp1
  have m2 := AList.mem_of_get_eq_some hp2
  match pools, m1, m2 with
  | [], m1, _ => cases m1
  | [x], m1, m2 =>
    simp only [List.mem_singleton] at m1 m2
    rw [← m1] at m2
    exact absurd (congrArg Prod.fst m2).symm hne
  | _ :: _ :: _, _, _ => simp

theorem applyTip909_ok (s st : State) (B : Nat) (hbase : SameBase s st)
    (hpo : PoolsOk s.tip902 st.pools) (h902 : s.tip902 = true)
    (hh : s.height < TIP_909_HEIGHT + 128 * SUBSIDY_HALVING)
    (hB : ∀ p, st.pools.get poolMelSym = some p → p.lefts ≤ B) (hfee : s.feePool + B ≤ U128_MAX) :
    ∃ st', applyTip909 st = .ok st' ∧ st'.tips = s.tips ∧ st'.feePool ≤ s.feePool + B ∧
      PoolsOk s.tip902 st'.pools := by
  obtain ⟨sm, hsm, hsl, hsr, hsq⟩ := hpo.builtins poolMelSym (melSym_mem_builtinsOf _)
  obtain ⟨es, hes, hel, her, heq⟩ := hpo.builtins poolErgSym (by rw [h902]; simp [builtinsOf])
  unfold applyTip909
  simp only
  rw [if_neg (by rw [hbase.height]; simp only [TIP_909_HEIGHT, SUBSIDY_HALVING] at hh ⊢; omega)]
  simp only [hsm]
  have hU : (2 : Nat) ^ 20 ≤ U128_MAX := by decide
  generalize hrew : 2 ^ SUBSIDY_LOG2 / 2 ^ ((st.height - TIP_909_HEIGHT) / SUBSIDY_HALVING) = reward
  have hrw : reward ≤ 2 ^ 20 := by
    rw [← hrew]; exact Nat.le_trans (Nat.div_le_self _ _) (by decide)
  generalize hfs : (if st.tip909a = true then reward - reward / 2 ^ SUBSIDY_ERG_SHIFT else reward / 2) = fs
  have hfs' : fs ≤ reward := by
    rw [← hfs]; split
    · exact Nat.sub_le _ _
    · exact Nat.div_le_self _ _
  generalize hes' : (if st.tip909a = true then reward / 2 ^ SUBSIDY_ERG_SHIFT else reward - fs) = esub
  have hesub : esub ≤ reward := by
    rw [← hes']; split
    · exact Nat.div_le_self _ _
    · exact Nat.sub_le _ _
  obtain ⟨sm', mel, x, e, h1, h2, h3, h4⟩ := swapMany_spec sm 0 fs hsl hsr (Nat.zero_le _) (by omega)
  rw [e]
  simp only [Outcome.bind]
  have hBs := hB sm hsm
  rw [if_neg (by rw [hbase.feePool]; omega)]
  rw [AList.get_set_ne _ _ (Ne.symm poolMelSym_ne_poolErgSym)]
  simp only [hes]
  obtain ⟨es', a, b, e2, g1, g2, g3, _⟩ := swapMany_spec es 0 esub hel her (Nat.zero_le _) (by omega)
  rw [e2]
  refine ⟨_, rfl, hbase.tips, by simp only; rw [hbase.feePool]; omega, ?_⟩
  exact (hpo.set poolMelSym sm' (fun _ => ⟨h1, h2⟩) (fun _ => ⟨h1, h2, by rw [h3]; exact hsq⟩)).set poolErgSym es'
    (fun _ => ⟨g1, g2⟩) (fun _ => ⟨g1, g2, by rw [g3]; exact heq⟩)

/-! ### `create_builtins` establishes the pool invariant -/

theorem get_fixBuiltin_cases (m : AList PoolKey PoolState) (k k' : PoolKey) :
    (fixBuiltin m k).get k' = m.get k' ∨ (fixBuiltin m k).get k' = some builtinDefault := by
  unfold fixBuiltin
  split
  · by_cases e : k' = k
    · subst e; right; exact AList.get_set_self _ _ _
    · left; exact AList.get_set_ne _ _ e
  · left; rfl

theorem isSome_fixBuiltin_self (m : AList PoolKey PoolState) (k : PoolKey) :
    ((fixBuiltin m k).get k).isSome = true := by
  rw [get_fixBuiltin_self]; rfl

theorem isSome_fixBuiltin_of (m : AList PoolKey PoolState) (k k' : PoolKey)
    (h : (m.get k').isSome = true) : ((fixBuiltin m k).get k').isSome = true := by
  by_cases e : k' = k
  · subst e; exact isSome_fixBuiltin_self _ _
  · rw [get_fixBuiltin_ne m e]; exact h

theorem createBuiltins_get (s : State) (k : PoolKey) :
    (createBuiltins s).pools.get k = s.pools.get k ∨ (createBuiltins s).pools.get k = some builtinDefault := by
  have step : ∀ (m : AList PoolKey PoolState) (k2 : PoolKey),
      (m.get k = s.pools.get k ∨ m.get k = some builtinDefault) →
      ((fixBuiltin m k2).get k = s.pools.get k ∨
        (fixBuiltin m k2).get k = some builtinDefault) := by
    intro m k2 h
    rcases get_fixBuiltin_cases m k2 k with e | e
    · rw [e]; exact h
    · right; exact e
  rw [createBuiltins_pools]
  split
  · exact step _ _ (step _ _ (step _ _ (Or.inl rfl)))
  · exact step _ _ (step _ _ (Or.inl rfl))

theorem createBuiltins_isSome (s : State) (k : PoolKey) (hk : k ∈ builtinsOf s.tip902) :
    ((createBuiltins s).pools.get k).isSome = true := by
  rw [createBuiltins_pools]
  unfold builtinsOf at hk
  split at hk
  · next ht =>
    rw [if_pos ht]
    simp only [List.mem_cons, List.not_mem_nil, or_false] at hk
    rcases hk with rfl | rfl | rfl
    · exact isSome_fixBuiltin_of _ _ _ (isSome_fixBuiltin_of _ _ _ (isSome_fixBuiltin_self _ _))
    · exact isSome_fixBuiltin_of _ _ _ (isSome_fixBuiltin_self _ _)
    · exact isSome_fixBuiltin_self _ _
  · next ht =>
    rw [if_neg ht]
    simp only [List.mem_cons, List.not_mem_nil, or_false] at hk
    rcases hk with rfl | rfl
    · exact isSome_fixBuiltin_of _ _ _ (isSome_fixBuiltin_self _ _)
    · exact isSome_fixBuiltin_self _ _

theorem builtinDefault_facts : 0 < builtinDefault.lefts ∧ 0 < builtinDefault.rights ∧ 0 < builtinDefault.liqs ∧
    builtinDefault.lefts ≤ 2 ^ 125 ∧ builtinDefault.liqs ≤ U128_MAX := by decide

/-- `create_builtins` establishes the pool invariant from `SanePools` alone: a builtin pool that records no
    liquidity is created afresh (`fix:` for F23), so nothing has to be assumed of the builtin pools -/
theorem createBuiltins_ok (s : State) (B : Nat) (hsane : SanePools s.pools)
    (hB : 2 ^ 125 ≤ B) (hres : ∀ p, s.pools.get poolMelSym = some p → p.lefts ≤ B) :
    PoolsOk s.tip902 (createBuiltins s).pools ∧
      (∀ p, (createBuiltins s).pools.get poolMelSym = some p → p.lefts ≤ B) := by
  obtain ⟨d1, d2, d3, d4, d5⟩ := builtinDefault_facts
  refine ⟨⟨?_, ?_⟩, ?_⟩
  · intro k p hp
    rcases createBuiltins_get s k with e | e
    · rw [e] at hp; exact hsane k p hp
    · rw [e] at hp; cases hp; exact fun _ => ⟨d1, d2⟩
  · intro k hk
    obtain ⟨p, hp⟩ := Option.isSome_iff_exists.mp (createBuiltins_isSome s k hk)
    refine ⟨p, hp, ?_⟩
    have hfix := createBuiltins_get_fixed s k (by
      unfold builtinsOf at hk
      split at hk
      · next ht =>
        simp only [List.mem_cons, List.not_mem_nil, or_false] at hk
        rcases hk with e | e | e
        · exact Or.inl e
        · exact Or.inr (Or.inl e)
        · exact Or.inr (Or.inr ⟨ht, e⟩)
      · simp only [List.mem_cons, List.not_mem_nil, or_false] at hk
        rcases hk with e | e
        · exact Or.inl e
        · exact Or.inr (Or.inl e))
    rw [hp] at hfix
    cases hq : s.pools.get k with
    | none =>
      rw [hq] at hfix; cases hfix; exact ⟨d1, d2, d3⟩
    | some q =>
      rw [hq] at hfix
      by_cases hz : q.liqs = 0
      · simp only [fixedPool, hz, if_true] at hfix; cases hfix; exact ⟨d1, d2, d3⟩
      · simp only [fixedPool, hz, if_false] at hfix; cases hfix
        obtain ⟨a, b⟩ := hsane k p hq hz
        exact ⟨a, b, Nat.pos_of_ne_zero hz⟩
  · intro p hp
    rcases createBuiltins_get s poolMelSym with e | e
    · rw [e] at hp; exact hres p hp
    · rw [e] at hp; cases hp; omega

/-! ### Melmint as a whole -/

theorem presealMelmint_ok (env : Env) (s : State)
    (hcounts : s.tip906 = true → CountsOk s.coins)
    (hfaith : Faithful s.txs s.coins)
    (hn : (s.txs.map (·.hash)).Nodup)
    (hsane : ∀ k p, s.pools.get k = some p → (p.liqs ≠ 0 → 0 < p.lefts ∧ 0 < p.rights))
    (hres : ∀ p, s.pools.get poolMelSym = some p → p.lefts ≤ 2 ^ 125)
    (hV : melInflow s.txs ≤ 2 ^ 124) :
    ∃ st, presealMelmint env s = .ok st ∧ SameBase s st ∧ PoolsOk s.tip902 st.pools ∧
      (∀ p, st.pools.get poolMelSym = some p → p.lefts ≤ 2 ^ 125 + 2 ^ 124 + 2 ^ 124 + U128_MAX / 200) := by
  obtain ⟨hpo, hB0⟩ := createBuiltins_ok s (2 ^ 125) hsane (Nat.le_refl _) hres
  have hbase0 : SameBase s (createBuiltins s) := ⟨rfl, rfl, rfl, rfl, rfl⟩
  obtain ⟨s1, e1, hb1, hpo1, hci1, hB1⟩ := processSwaps_ok s (createBuiltins s) (2 ^ 125) (2 ^ 124)
    hbase0 hn hpo ⟨hcounts, hfaith⟩ hV hB0
  obtain ⟨s2, e2, hb2, hpo2, hB2⟩ := processDeposits_ok env s s1 (2 ^ 125 + 2 ^ 124) (2 ^ 124)
    hb1 hn hpo1 hci1 hV hB1
  obtain ⟨s3, e3, hb3, hsane3, hB3⟩ := processWithdrawals_ok env s s2 _ hb2 hpo2.sane hB2
  -- the withdrawals may have emptied a builtin pool: the second `create_builtins` makes it afresh (F24)
  obtain ⟨hpo3', hB3'⟩ := createBuiltins_ok s3 _ hsane3 (by omega) hB3
  rw [hb3.tip902] at hpo3'
  have hb3' : SameBase s (createBuiltins s3) := ⟨hb3.txs, hb3.height, hb3.network, hb3.feePool, hb3.tips⟩
  obtain ⟨s4, e4, hb4, hpo4, hB4⟩ := processPegging_ok s (createBuiltins s3) _ hb3' hpo3' hB3'
  refine ⟨s4, ?_, hb4, hpo4, hB4⟩
  unfold presealMelmint
  simp only
  have hlen : ¬ (createBuiltins s).pools.length < 2 := by
    obtain ⟨p1, h1, _⟩ := hpo.builtins poolMelSym (melSym_mem_builtinsOf _)
    obtain ⟨p2, h2, _⟩ := hpo.builtins poolMelErg (melErg_mem_builtinsOf _)
    exact two_le_length_of_get poolMelSym_ne_poolMelErg (by rw [h1]; rfl) (by rw [h2]; rfl)
  rw [if_neg hlen, e1]
  simp only [Outcome.bind]
  rw [e2]
  simp only
  rw [e3]
  simp only
  exact e4

theorem applyProposerAction_ok (env : Env) (s : State) (a : ProposerAction)
    (hb : s.feePool / 65536 + s.tips ≤ U128_MAX) : ∃ s', applyProposerAction env s a = .ok s' := by
  unfold applyProposerAction collectProposerFee
  simp only
  split
  · next h =>
    exfalso
    have e : 2 ^ REWARD_SHIFT = 65536 := by decide
    rw [e] at h
    omega
  · exact ⟨_, rfl⟩

theorem applyProposerAction_pools (env : Env) (s : State) (a : ProposerAction) (s' : State)
    (h : applyProposerAction env s a = .ok s') : s'.pools = s.pools := by
  unfold applyProposerAction collectProposerFee at h
  simp only at h
  split at h
  · cases h
  · cases h; rfl

/-- sealing succeeds, and in the sealed state every builtin pool that is due exists with reserves on both sides and
    liquidity (and every pool that records liquidity has reserves) -/
theorem sealState_ok_pools (env : Env) (s : State) (action : Option ProposerAction)
    (hcounts : s.tip906 = true → CountsOk s.coins)
    (hfaith : Faithful s.txs s.coins)
    (hn : (s.txs.map (·.hash)).Nodup)
    (hsane : ∀ k p, s.pools.get k = some p → (p.liqs ≠ 0 → 0 < p.lefts ∧ 0 < p.rights))
    (hres : ∀ p, s.pools.get poolMelSym = some p → p.lefts ≤ 2 ^ 125)
    (hV : melInflow s.txs ≤ 2 ^ 124)
    (hfee : s.feePool + s.tips + 2 ^ 21 ≤ 2 ^ 127)
    (hh : s.height < TIP_909_HEIGHT + 128 * SUBSIDY_HALVING) :
    ∃ ss, sealState env s action = .ok ss ∧ PoolsOk s.tip902 ss.st.pools := by
  obtain ⟨s1, e1, hb1, hpo1, hB1⟩ := presealMelmint_ok env s hcounts hfaith hn hsane hres hV
  have hU : U128_MAX = 340282366920938463463374607431768211455 := by decide
  have hlen : ¬ s1.pools.length < 2 := by
    obtain ⟨p1, h1, _⟩ := hpo1.builtins poolMelSym (melSym_mem_builtinsOf _)
    obtain ⟨p2, h2, _⟩ := hpo1.builtins poolMelErg (melErg_mem_builtinsOf _)
    exact two_le_length_of_get poolMelSym_ne_poolMelErg (by rw [h1]; rfl) (by rw [h2]; rfl)
  have h2 : ∃ s2, (if s1.tip909 = true then applyTip909 s1 else .ok s1) = .ok s2 ∧ s2.tips = s.tips ∧
      s2.feePool ≤ s.feePool + (2 ^ 125 + 2 ^ 124 + 2 ^ 124 + U128_MAX / 200) ∧ PoolsOk s.tip902 s2.pools := by
    by_cases h9 : s1.tip909 = true
    · rw [if_pos h9]
      have h902 : s.tip902 = true := tip909_imp_tip902 s (by rw [← hb1.tip909]; exact h9)
      exact applyTip909_ok s s1 _ hb1 hpo1 h902 hh hB1 (by omega)
    · rw [if_neg h9]
      exact ⟨s1, rfl, hb1.tips, by rw [hb1.feePool]; omega, hpo1⟩
  obtain ⟨s2, e2, ht2, hf2, hpo2⟩ := h2
  unfold sealState
  rw [e1]
  simp only [Outcome.bind]
  rw [if_neg hlen, e2]
  simp only
  cases action with
  | none => exact ⟨_, rfl, hpo2⟩
  | some a =>
    obtain ⟨s3, e3⟩ := applyProposerAction_ok env s2 a (by rw [ht2]; omega)
    simp only
    rw [e3]
    exact ⟨_, rfl, by rw [applyProposerAction_pools env s2 a s3 e3]; exact hpo2⟩

/-- sealing succeeds -/
theorem sealState_ok (env : Env) (s : State) (action : Option ProposerAction)
    (hcounts : s.tip906 = true → CountsOk s.coins)
    (hfaith : Faithful s.txs s.coins)
    (hn : (s.txs.map (·.hash)).Nodup)
    (hsane : ∀ k p, s.pools.get k = some p → (p.liqs ≠ 0 → 0 < p.lefts ∧ 0 < p.rights))
    (hres : ∀ p, s.pools.get poolMelSym = some p → p.lefts ≤ 2 ^ 125)
    (hV : melInflow s.txs ≤ 2 ^ 124)
    (hfee : s.feePool + s.tips + 2 ^ 21 ≤ 2 ^ 127)
    (hh : s.height < TIP_909_HEIGHT + 128 * SUBSIDY_HALVING) :
    ∃ ss, sealState env s action = .ok ss :=
  let ⟨ss, h, _⟩ := sealState_ok_pools env s action hcounts hfaith hn hsane hres hV hfee hh
  ⟨ss, h⟩

/-- the swap phase on its own succeeds in any state: the selector only lets through requests with a
    positive amount that name a pool with reserves, and `swap_many` keeps reserves -/
theorem processSwaps_total (s : State) : ∃ s1, processSwaps s = .ok s1 := by
  unfold processSwaps
  simp only
  generalize hreqs : s.txs.filter (isSwapRequest s) = reqs
  have hks : ∀ k ∈ extractPoolKeysSorted reqs, ∃ p, s.pools.get k = some p ∧ 0 < p.lefts ∧ 0 < p.rights := by
    intro k hk
    obtain ⟨tx, htx, hck⟩ := mem_extractPoolKeysSorted hk
    rw [← hreqs] at htx
    obtain ⟨k', o, rest, p, hck', _, _, hp, h1, h2, _⟩ := isSwapRequest_full (List.mem_filter.mp htx).2
    rw [hck] at hck'; cases hck'
    exact ⟨p, hp, h1, h2⟩
  have hsw : ∀ k, ∀ tx ∈ transactionsForPool reqs k,
      ∃ o rest, tx.outputs = o :: rest ∧ 0 < o.value ∧ (o.denom = k.left ∨ o.denom = k.right) := by
    intro k tx htx
    obtain ⟨htx, hck⟩ := mem_transactionsForPool'.mp htx
    rw [← hreqs] at htx
    obtain ⟨k', o, rest, p, hck', ho, hpos, _, _, _, hden⟩ := isSwapRequest_full (List.mem_filter.mp htx).2
    rw [hck] at hck'; cases hck'
    exact ⟨o, rest, ho, hpos, hden⟩
  refine Exists.elim (Outcome.foldlM'_ok
    (fun st k => processSwapsForPool k st (transactionsForPool reqs k))
    (fun st rest =>
      (∀ k ∈ extractPoolKeysSorted reqs, ∃ p, st.pools.get k = some p ∧ 0 < p.lefts ∧ 0 < p.rights) ∧
      (∀ k ∈ rest, k ∈ extractPoolKeysSorted reqs))
    ?_ (extractPoolKeysSorted reqs) s ⟨hks, fun _ h => h⟩)
    (fun s1 ⟨h1, _⟩ => ⟨s1, h1⟩)
  intro st k rest ⟨hks', hsub⟩
  obtain ⟨pool, hpool, hl, hr⟩ := hks' k (hsub k List.mem_cons_self)
  obtain ⟨pool', lw, rw, hsm, hl', hr', _, _⟩ :=
    swapMany_spec pool (swapTL k (transactionsForPool reqs k)) (swapTR k (transactionsForPool reqs k))
      hl hr (satSum_le_max _) (satSum_le_max _)
  obtain ⟨coins, _, hok⟩ := processSwapsForPool_ok k st (transactionsForPool reqs k) pool pool' lw rw
    (fun _ => True) hpool hsm (hsw k) trivial (fun _ _ _ _ _ _ _ _ _ => trivial)
  refine ⟨_, hok, ?_, fun k' hk' => hsub k' (List.mem_cons_of_mem _ hk')⟩
  intro k' hk'
  simp only
  by_cases e : k' = k
  · subst e; rw [AList.get_set_self]; exact ⟨pool', rfl, hl', hr'⟩
  · rw [AList.get_set_ne _ _ e]; exact hks' k' hk'

end Mel
