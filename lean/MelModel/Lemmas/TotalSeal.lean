/- helper lemmas for C09 (seal part) -/
import MelModel.Seal
import MelModel.Lemmas.Swap
import MelModel.Lemmas.Pools
namespace Mel
end Mel
