/- helper lemmas for C17 -/
import MelModel.Seal
namespace Mel
end Mel
