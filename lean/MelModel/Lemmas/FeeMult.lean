/- helper lemmas for C17 -/
import MelModel.Seal
namespace Mel
open Mel.Gen

/-! ### arithmetic of `moveFeeMultiplier` -/

/-- the maximum movement, with the generated constants evaluated -/
def feeMaxMove (m : Nat) (tip901 : Bool) : Nat := if tip901 then max (m / 128) 2 else m / 128

/-- `moveFeeMultiplier` with the generated constants evaluated (breaks if a constant changes) -/
theorem moveFeeMultiplier_eq (m : Nat) (δ : Int) (tip901 : Bool) :
    moveFeeMultiplier m δ tip901 =
      if δ ≥ 0 then min (m + feeMaxMove m tip901 * δ.natAbs / 128) U128_MAX
      else m - feeMaxMove m tip901 * δ.natAbs / 128 := by
  simp [moveFeeMultiplier, feeMaxMove, satAdd128, FEEMULT_SHIFT, FEEMULT_FLOOR, FEEMULT_DIV]

/-- truncated division of the signed product, nonnegative delta -/
theorem tdiv_mul_of_nonneg (mm : Nat) (δ : Int) (h : 0 ≤ δ) :
    Int.tdiv ((mm : Int) * δ) 128 = ((mm * δ.natAbs / 128 : Nat) : Int) := by
  obtain ⟨d, rfl⟩ := Int.eq_ofNat_of_zero_le h
  rw [← Int.natCast_mul, Int.natCast_tdiv_eq_ediv, Int.natAbs_natCast]
  exact (Int.natCast_ediv _ _).symm

/-- truncated division of the signed product, negative delta -/
theorem tdiv_mul_of_neg (mm : Nat) (δ : Int) (h : δ < 0) :
    Int.tdiv ((mm : Int) * δ) 128 = -((mm * δ.natAbs / 128 : Nat) : Int) := by
  have h' : 0 ≤ -δ := by omega
  have := tdiv_mul_of_nonneg mm (-δ) h'
  rw [Int.mul_neg, Int.neg_tdiv, Int.natAbs_neg] at this
  omega

/-- the scaled movement never exceeds the maximum movement -/
theorem scaled_le (mm d : Nat) (hd : d ≤ 128) : mm * d / 128 ≤ mm := by
  have : mm * d ≤ mm * 128 := Nat.mul_le_mul_left mm hd
  omega

theorem natAbs_le_128 (δ : Int) (hδ : -128 ≤ δ ∧ δ ≤ 127) : δ.natAbs ≤ 128 := by omega

/-- the pre-fix code agrees with the repaired code on `2 ≤ m < 2^63` -/
theorem moveFeeMultiplierOld_agrees (m : Nat) (δ : Int) (tip901 : Bool) (h2 : 2 ≤ m) (hm : m < 2 ^ 63)
    (hδ : -128 ≤ δ ∧ δ ≤ 127) :
    moveFeeMultiplierOld m δ tip901 = some (moveFeeMultiplier m δ tip901) := by
  have hU : U128_MAX = 340282366920938463463374607431768211455 := by decide
  have hd := natAbs_le_128 δ hδ
  have hs := scaled_le (feeMaxMove m tip901) δ.natAbs hd
  have hmm : feeMaxMove m tip901 ≤ m ∧ feeMaxMove m tip901 < 2^56 := by
    unfold feeMaxMove; split <;> omega
  have hmod : m / 128 % 2^64 = m/128 := Nat.mod_eq_of_lt (by omega)
  have hlt : m / 128 < 2^63 := by omega
  have hI : (if tip901 = true then max ((m / 128 : Nat) : Int) 2 else ((m / 128 : Nat) : Int))
      = (feeMaxMove m tip901 : Int) := by
    unfold feeMaxMove; split <;> omega
  have hp : feeMaxMove m tip901 * δ.natAbs ≤ feeMaxMove m tip901 * 128 := Nat.mul_le_mul_left _ hd
  rw [moveFeeMultiplier_eq]
  unfold moveFeeMultiplierOld
  simp only [hmod, hlt, if_true, hI]
  by_cases h : δ ≥ 0
  · have hprod : (feeMaxMove m tip901 : Int) * δ = ((feeMaxMove m tip901 * δ.natAbs : Nat) : Int) := by
      rw [Int.natCast_mul, Int.natAbs_of_nonneg h]
    rw [tdiv_mul_of_nonneg _ _ h, hprod, if_pos h]
    generalize feeMaxMove m tip901 * δ.natAbs = p at *
    rw [if_neg (by omega), if_pos (by omega), Int.toNat_natCast, if_neg (by omega)]
    congr 1; omega
  · have hprod : (feeMaxMove m tip901 : Int) * δ = -((feeMaxMove m tip901 * δ.natAbs : Nat) : Int) := by
      rw [Int.natCast_mul, ← Int.mul_neg]; congr 1; omega
    rw [tdiv_mul_of_neg _ _ (by omega), hprod, if_neg h]
    generalize feeMaxMove m tip901 * δ.natAbs = p at *
    rw [if_neg (by omega), Int.natAbs_neg, Int.natAbs_natCast, Int.toNat_neg_natCast]
    split
    · rw [if_neg (by omega)]; congr 1; omega
    · rw [if_neg (by omega)]

/-- with TIP-901 on, `2^70 >> 7 = 2^63` wraps to `i64::MIN` and is then floored to 2: no panic there -/
theorem moveFeeMultiplierOld_2p70_true : moveFeeMultiplierOld (2 ^ 70) 127 true = some (2 ^ 70 + 1) := by
  decide
/-- i64 overflow witnesses of the pre-fix code -/
theorem moveFeeMultiplierOld_2p64_true : moveFeeMultiplierOld (2 ^ 64) 127 true = none := by decide
theorem moveFeeMultiplierOld_2p70_false : moveFeeMultiplierOld (2 ^ 70) 127 false = none := by decide

/-! ### the fee multiplier (and height, network) is untouched by Melmint and the TIP-909 subsidy -/

def SameFM (s s' : State) : Prop :=
  s'.feeMultiplier = s.feeMultiplier ∧ s'.height = s.height ∧ s'.network = s.network

theorem SameFM.refl (s : State) : SameFM s s := ⟨rfl, rfl, rfl⟩

theorem SameFM.trans {a b c : State} (h1 : SameFM a b) (h2 : SameFM b c) : SameFM a c :=
  ⟨h2.1.trans h1.1, h2.2.1.trans h1.2.1, h2.2.2.trans h1.2.2⟩

theorem SameFM.tip901 {s s' : State} (h : SameFM s s') : s'.tip901 = s.tip901 := by
  simp [State.tip901, State.tipCondition, h.2.1, h.2.2]

theorem Outcome.bind_eq_ok {α β} {x : Outcome α} {f : α → Outcome β} {b : β}
    (h : x.bind f = .ok b) : ∃ a, x = .ok a ∧ f a = .ok b := by
  cases x with
  | ok a => exact ⟨a, rfl, h⟩
  | reject e => cases h
  | crash c => cases h

theorem Outcome.foldlM'_inv {α β} (P : β → Prop) (f : β → α → Outcome β)
    (hf : ∀ b a b', P b → f b a = .ok b' → P b') :
    ∀ (l : List α) (b b' : β), P b → Outcome.foldlM' f b l = .ok b' → P b' := by
  intro l
  induction l with
  | nil =>
    intro b b' hb h
    simp only [Outcome.foldlM'] at h
    cases h; exact hb
  | cons a as ih =>
    intro b b' hb h
    simp only [Outcome.foldlM'] at h
    split at h
    · next b1 hb1 => exact ih b1 b' (hf b a b1 hb hb1) h
    · cases h
    · cases h

theorem processSwapsForPool_same (k : PoolKey) (s : State) (swaps : List Tx) (s' : State)
    (h : processSwapsForPool k s swaps = .ok s') : SameFM s s' := by
  unfold processSwapsForPool at h
  split at h
  · cases h
  · simp only at h
    split at h
    · cases h
    · cases h
    · obtain ⟨coins, _, h2⟩ := Outcome.bind_eq_ok h
      cases h2; exact ⟨rfl, rfl, rfl⟩

theorem processSwaps_same (s s' : State) (h : processSwaps s = .ok s') : SameFM s s' := by
  unfold processSwaps at h
  exact Outcome.foldlM'_inv (SameFM s) _
    (fun b a b' hb hf => hb.trans (processSwapsForPool_same _ _ _ _ hf)) _ _ _ (SameFM.refl s) h

theorem processDepositsForPool_same (env : Env) (k : PoolKey) (s : State) (deps : List Tx) (s' : State)
    (h : processDepositsForPool env k s deps = .ok s') : SameFM s s' := by
  unfold processDepositsForPool at h
  simp only at h
  split at h
  · cases h
  · cases h
  · split at h
    · cases h; exact SameFM.refl s
    · obtain ⟨coins, _, h2⟩ := Outcome.bind_eq_ok h
      cases h2; exact ⟨rfl, rfl, rfl⟩

theorem processDeposits_same (env : Env) (s s' : State) (h : processDeposits env s = .ok s') :
    SameFM s s' := by
  unfold processDeposits at h
  exact Outcome.foldlM'_inv (SameFM s) _
    (fun b a b' hb hf => hb.trans (processDepositsForPool_same _ _ _ _ _ hf)) _ _ _ (SameFM.refl s) h

theorem processWithdrawalsForPool_same (k : PoolKey) (s : State) (reqs : List Tx) (s' : State)
    (h : processWithdrawalsForPool k s reqs = .ok s') : SameFM s s' := by
  unfold processWithdrawalsForPool at h
  simp only at h
  split at h
  · cases h
  · split at h
    · cases h; exact SameFM.refl _
    · split at h
      · cases h
      · cases h
      · obtain ⟨coins, _, h2⟩ := Outcome.bind_eq_ok h
        cases h2; exact ⟨rfl, rfl, rfl⟩

theorem processWithdrawals_same (env : Env) (s s' : State) (h : processWithdrawals env s = .ok s') :
    SameFM s s' := by
  unfold processWithdrawals at h
  exact Outcome.foldlM'_inv (SameFM s) _
    (fun b a b' hb hf => hb.trans (processWithdrawalsForPool_same _ _ _ _ hf)) _ _ _ (SameFM.refl s) h

theorem createBuiltins_same (s : State) : SameFM s (createBuiltins s) := ⟨rfl, rfl, rfl⟩

theorem processPegging_same (s s' : State) (h : processPegging s = .ok s') : SameFM s s' := by
  unfold processPegging at h
  simp only at h
  obtain ⟨⟨a, b⟩, _, h⟩ := Outcome.bind_eq_ok h
  simp only at h
  obtain ⟨sm, _, h⟩ := Outcome.bind_eq_ok h
  split at h
  · cases h
  · obtain ⟨sm1, _, h⟩ := Outcome.bind_eq_ok h
    obtain ⟨sm2, _, h⟩ := Outcome.bind_eq_ok h
    cases h; exact ⟨rfl, rfl, rfl⟩

theorem presealMelmint_same (env : Env) (s s' : State) (h : presealMelmint env s = .ok s') :
    SameFM s s' := by
  unfold presealMelmint at h
  simp only at h
  split at h
  · cases h
  · obtain ⟨s1, h1, h⟩ := Outcome.bind_eq_ok h
    obtain ⟨s2, h2, h⟩ := Outcome.bind_eq_ok h
    obtain ⟨s3, h3, h⟩ := Outcome.bind_eq_ok h
    exact ((((createBuiltins_same s).trans (processSwaps_same _ _ h1)).trans
      (processDeposits_same _ _ _ h2)).trans (processWithdrawals_same _ _ _ h3)).trans
      ((createBuiltins_same s3).trans (processPegging_same _ _ h))

theorem applyTip909_same (s s' : State) (h : applyTip909 s = .ok s') : SameFM s s' := by
  unfold applyTip909 at h
  simp only at h
  split at h
  · cases h
  · split at h
    · cases h
    · obtain ⟨⟨sm', mel, x⟩, _, h⟩ := Outcome.bind_eq_ok h
      simp only at h
      split at h
      · cases h
      · split at h
        · cases h
        · obtain ⟨⟨es', y, z⟩, _, h⟩ := Outcome.bind_eq_ok h
          cases h; exact ⟨rfl, rfl, rfl⟩

theorem collectProposerFee_feeMultiplier (env : Env) (s : State) (a : ProposerAction) (s' : State)
    (h : collectProposerFee env s a = .ok s') : s'.feeMultiplier = s.feeMultiplier := by
  unfold collectProposerFee at h
  simp only at h
  split at h
  · cases h
  · cases h; rfl

theorem applyProposerAction_feeMultiplier (env : Env) (s : State) (a : ProposerAction) (s' : State)
    (h : applyProposerAction env s a = .ok s') :
    s'.feeMultiplier = moveFeeMultiplier s.feeMultiplier a.feeMultiplierDelta s.tip901 := by
  unfold applyProposerAction at h
  exact collectProposerFee_feeMultiplier _ _ _ _ h

/-- the state just before the proposer action is applied has the original multiplier/height/network -/
theorem sealState_pre (env : Env) (s : State) (action : Option ProposerAction) (ss : Sealed)
    (h : sealState env s action = .ok ss) :
    ∃ s2, SameFM s s2 ∧
      (match action with
       | none => Outcome.ok ({ st := s2, action := none } : Sealed)
       | some a => (applyProposerAction env s2 a).bind fun s3 => .ok ({ st := s3, action := some a } : Sealed))
        = .ok ss := by
  unfold sealState at h
  obtain ⟨s1, h1, h⟩ := Outcome.bind_eq_ok h
  split at h
  · cases h
  · obtain ⟨s2, h2, h⟩ := Outcome.bind_eq_ok h
    refine ⟨s2, (presealMelmint_same _ _ _ h1).trans ?_, h⟩
    split at h2
    · exact applyTip909_same _ _ h2
    · cases h2; exact SameFM.refl _

end Mel
