/- helper lemmas for C09 (apply part) -/
import MelModel.ApplyTx
import MelModel.Lemmas.Batch
namespace Mel
end Mel
