/- helper lemmas for C09 (apply part) -/
import MelModel.ApplyTx
import MelModel.Lemmas.Batch
import MelModel.Props.C20
namespace Mel
open Mel.Gen Mel.BatchL
-- declarations whose names also occur in other lemma files (Supply, TotalSeal) live in `Mel.TotalL`
namespace TotalL end TotalL
open TotalL

/-! ### "does not crash" -/

/-- the outcome is a value or a rejection -/
def NoCrash {α} (x : Outcome α) : Prop := ∀ c, x ≠ .crash c

theorem Outcome.ok_bind_c09 {α β} (a : α) (f : α → Outcome β) : (Outcome.ok a).bind f = f a := rfl

namespace NoCrash

theorem ok {α} (a : α) : NoCrash (Outcome.ok a) := fun _ h => by cases h

theorem reject {α} (e : StateError) : NoCrash (Outcome.reject e : Outcome α) := fun _ h => by cases h

theorem bind {α β} {x : Outcome α} {f : α → Outcome β} (hx : NoCrash x)
    (hf : ∀ a, x = .ok a → NoCrash (f a)) : NoCrash (x.bind f) := by
  cases x with
  | ok a => exact hf a rfl
  | reject e => exact reject e
  | crash c => exact absurd rfl (hx c)

/-- a fold does not crash when an invariant keeps every step from crashing -/
theorem foldlM' {α β} (f : β → α → Outcome β) (P : β → Prop) (l : List α)
    (h : ∀ b, P b → ∀ a ∈ l, NoCrash (f b a) ∧ ∀ b', f b a = .ok b' → P b') :
    ∀ b, P b → NoCrash (Outcome.foldlM' f b l) := by
  induction l with
  | nil => intro b _; exact ok b
  | cons a rest ih =>
    intro b hb
    obtain ⟨h1, h2⟩ := h b hb a List.mem_cons_self
    simp only [Outcome.foldlM']
    cases hfa : f b a with
    | ok b' =>
      exact ih (fun b0 hb0 a0 ha0 => h b0 hb0 a0 (List.mem_cons_of_mem _ ha0)) b' (h2 b' hfa)
    | reject e => exact reject e
    | crash c => exact absurd hfa (h1 c)

theorem ite {α} {c : Prop} [Decidable c] {x y : Outcome α} (hx : NoCrash x) (hy : NoCrash y) :
    NoCrash (if c then x else y) := by
  split <;> assumption

theorem forM' {α} (f : α → Outcome Unit) (l : List α) (h : ∀ a ∈ l, NoCrash (f a)) :
    NoCrash (Outcome.forM' f l) := by
  induction l with
  | nil => exact ok ()
  | cons a rest ih =>
    simp only [Outcome.forM']
    cases hfa : f a with
    | ok u => cases u; exact ih (fun a0 ha0 => h a0 (List.mem_cons_of_mem _ ha0))
    | reject e => exact reject e
    | crash c => exact absurd hfa (h a List.mem_cons_self c)

end NoCrash

/-! ### the phases that never crash at all -/

theorem loadRelevantCoins_noCrash (s : State) (txs : List Tx) : NoCrash (loadRelevantCoins s txs) := by
  rw [loadRelevantCoins_eq]
  split
  · exact NoCrash.reject _
  · refine NoCrash.bind ?_ ?_
    · refine NoCrash.foldlM' _ (fun _ => True) _ ?_ _ trivial
      intro b _ a _
      refine ⟨?_, fun _ _ => trivial⟩
      rcases diskStep_cases (createdOf s.height txs) s.coins b a with ⟨acc', h⟩ | h
      · rw [h]; exact NoCrash.ok _
      · rw [h]; exact NoCrash.reject _
    · intro disk _
      split
      · exact NoCrash.ok _
      · exact NoCrash.reject _

theorem loadStakeInfo_noCrash (s : State) (txs : List Tx) : NoCrash (loadStakeInfo s txs) := by
  unfold loadStakeInfo
  refine NoCrash.foldlM' _ (fun _ => True) _ ?_ _ trivial
  intro b _ tx _
  refine ⟨?_, fun _ _ => trivial⟩
  intro c
  split
  · simp
  · split
    · simp
    · split
      · simp
      · split
        · simp
        · split
          · simp
          · split <;> simp

theorem validateTxScripts_noCrash (env : Env) (i : Nat) (id : CoinID) (tx : Tx) (coin : CoinDataHeight)
    (lh : Header) : NoCrash (validateTxScripts env i id tx coin lh) := by
  intro c
  unfold validateTxScripts
  split
  · simp
  · split
    · simp
    · dsimp only
      split
      · split <;> simp
      · simp

theorem loadRelevantCoins_malformed (s : State) (txs : List Tx) (tx : Tx) (htx : tx ∈ txs)
    (hbad : (tx.isWellFormed && tx.melTotalFits) = false) :
    loadRelevantCoins s txs = .reject .malformedTx := by
  rw [loadRelevantCoins_eq]
  have : (txs.all fun tx => tx.isWellFormed && tx.melTotalFits && tx.covWeightsFit) = false := by
    rw [List.all_eq_false]
    exact ⟨tx, htx, by simp [hbad]⟩
  simp [this]

/-- a transaction whose covenant weights do not add up within a u128 makes `loadRelevantCoins` reject the batch
    (the guard added with the fix for F19) -/
theorem loadRelevantCoins_heavy (s : State) (txs : List Tx) (tx : Tx) (htx : tx ∈ txs)
    (hbad : tx.covWeightsFit = false) :
    loadRelevantCoins s txs = .reject .malformedTx := by
  rw [loadRelevantCoins_eq]
  have : (txs.all fun tx => tx.isWellFormed && tx.melTotalFits && tx.covWeightsFit) = false := by
    rw [List.all_eq_false]
    exact ⟨tx, htx, by simp [hbad]⟩
  simp [this]

/-! ### sums of values over distinct keys -/
namespace AList
variable {κ ν : Type} [DecidableEq κ]

/-- the weight of the entry at a key (0 when absent) -/
def valAt (f : ν → Nat) (m : AList κ ν) (k : κ) : Nat :=
  match get m k with
  | some v => f v
  | none => 0

theorem valAt_add_sum_del_le (f : ν → Nat) (m : AList κ ν) (a : κ) :
    valAt f m a + ((del m a).map fun e => f e.2).sum ≤ (m.map fun e => f e.2).sum := by
  induction m with
  | nil => simp [valAt, get, del]
  | cons e rest ih =>
    obtain ⟨k, v⟩ := e
    rw [del_cons]
    by_cases hk : k = a
    · subst hk
      have h1 : valAt f rest k + ((del rest k).map fun e => f e.2).sum ≤ (rest.map fun e => f e.2).sum := ih
      simp only [valAt, get_cons, if_true, List.map_cons, List.sum_cons]
      omega
    · have h0 : valAt f ((k, v) :: rest) a = valAt f rest a := by simp [valAt, get_cons, hk]
      rw [h0]
      simp only [hk, if_false, List.map_cons, List.sum_cons]
      omega

theorem sum_del_le (f : ν → Nat) (m : AList κ ν) (a : κ) :
    ((del m a).map fun e => f e.2).sum ≤ (m.map fun e => f e.2).sum :=
  Nat.le_trans (Nat.le_add_left _ _) (valAt_add_sum_del_le f m a)

/-- distinct keys select distinct entries: their weights add up to at most the total weight -/
theorem sum_valAt_le (f : ν → Nat) (ids : List κ) :
    ∀ m : AList κ ν, ids.Nodup → (ids.map (valAt f m)).sum ≤ (m.map fun e => f e.2).sum := by
  induction ids with
  | nil => intro m _; simp
  | cons a rest ih =>
    intro m hn
    rw [List.nodup_cons] at hn
    have hc : rest.map (valAt f m) = rest.map (valAt f (del m a)) := by
      apply List.map_congr_left
      intro x hx
      have hne : x ≠ a := fun h => hn.1 (h ▸ hx)
      simp only [valAt, get_del_ne m hne]
    have h1 := ih (del m a) hn.2
    have h2 := valAt_add_sum_del_le f m a
    simp only [List.map_cons, List.sum_cons, hc]
    omega

theorem sum_set_le (f : ν → Nat) (m : AList κ ν) (k : κ) (v : ν) :
    ((set m k v).map fun e => f e.2).sum ≤ (m.map fun e => f e.2).sum + f v := by
  have := sum_del_le f m k
  simp only [set, List.map_cons, List.sum_cons]
  omega

theorem sum_extend_le (f : ν → Nat) (es : List (κ × ν)) :
    ∀ m : AList κ ν, ((extend m es).map fun e => f e.2).sum ≤
      (m.map fun e => f e.2).sum + (es.map fun e => f e.2).sum := by
  induction es with
  | nil => intro m; simp [extend]
  | cons e rest ih =>
    intro m
    have h1 : extend m (e :: rest) = extend (set m e.1 e.2) rest := rfl
    have h2 := ih (set m e.1 e.2)
    have h3 := sum_set_le f m e.1 e.2
    rw [h1]
    simp only [List.map_cons, List.sum_cons]
    omega

end AList

theorem sum_filterMap_le {α β : Type} (g : α → Option β) (f : β → Nat) (f' : α → Nat)
    (h : ∀ x y, g x = some y → f y ≤ f' x) (l : List α) :
    ((l.filterMap g).map f).sum ≤ (l.map f').sum := by
  induction l with
  | nil => simp
  | cons a rest ih =>
    rw [List.filterMap_cons]
    cases hg : g a with
    | none => simp only [List.map_cons, List.sum_cons]; omega
    | some b =>
      have := h a b hg
      simp only [List.map_cons, List.sum_cons]; omega

theorem outputCoins_sum_le (tx : Tx) (height : Nat) :
    ((outputCoinsFromTx tx height).map fun e => e.2.coinData.value).sum ≤ (tx.outputs.map (·.value)).sum := by
  have h2 : (tx.outputs.zipIdx.map fun p => p.1.value) = tx.outputs.map (·.value) := by
    have : (tx.outputs.zipIdx.map fun p => p.1.value) = (tx.outputs.zipIdx.map Prod.fst).map (·.value) := by
      rw [List.map_map]; rfl
    rw [this, List.zipIdx_map_fst]
  rw [← h2]
  unfold outputCoinsFromTx
  refine sum_filterMap_le _ (fun (e : CoinID × CoinDataHeight) => e.2.coinData.value)
    (fun (p : CoinData × Nat) => p.1.value) ?_ _
  rintro ⟨o, i⟩ y hy
  simp only at hy
  by_cases hne : (if o.denom = .newCustom then ({ o with denom := .custom tx.hash } : CoinData) else o).covhash
      ≠ coinDestroy
  · rw [if_pos hne] at hy
    simp only [Option.some.injEq] at hy
    subst hy
    simp only
    split <;> simp
  · rw [if_neg hne] at hy
    cases hy

theorem createdOf_sum_le (height : Nat) (txs : List Tx) :
    ((createdOf height txs).map fun e => e.2.coinData.value).sum ≤
      ((txs.flatMap (·.outputs)).map (·.value)).sum := by
  have key : ∀ (l : List Tx) (acc : Relevant),
      ((l.foldl (fun acc tx => acc.extend (outputCoinsFromTx tx height)) acc).map
        fun e => e.2.coinData.value).sum ≤
      (acc.map fun e => e.2.coinData.value).sum + ((l.flatMap (·.outputs)).map (·.value)).sum := by
    intro l
    induction l with
    | nil => intro acc; simp
    | cons tx rest ih =>
      intro acc
      have h1 := ih (acc.extend (outputCoinsFromTx tx height))
      have h2 : ((acc.extend (outputCoinsFromTx tx height)).map fun e => e.2.coinData.value).sum ≤
          (acc.map fun e => e.2.coinData.value).sum +
            ((outputCoinsFromTx tx height).map fun e => e.2.coinData.value).sum :=
        AList.sum_extend_le (fun c : CoinDataHeight => c.coinData.value) (outputCoinsFromTx tx height) acc
      have h3 := outputCoins_sum_le tx height
      simp only [List.foldl_cons, List.flatMap_cons, List.map_append, List.sum_append]
      refine Nat.le_trans h1 (Nat.le_trans (Nat.add_le_add_right h2 _) ?_)
      rw [Nat.add_assoc]
      exact Nat.add_le_add_left (Nat.add_le_add_right h3 _) _
  have := key txs []
  simpa [createdOf] using this

/-! ### the spent coins of one transaction are worth at most the whole supply -/

/-- value of the coin an input resolves to -/
def relVal (rel : Relevant) (id : CoinID) : Nat := AList.valAt (fun c : CoinDataHeight => c.coinData.value) rel id

theorem relVal_of_get {rel : Relevant} {id : CoinID} {c : CoinDataHeight} (h : rel.get id = some c) :
    relVal rel id = c.coinData.value := by
  simp [relVal, AList.valAt, h]

theorem TotalL.sum_map_le_add {α : Type} (f g h : α → Nat) (l : List α) (hp : ∀ x ∈ l, f x ≤ g x + h x) :
    (l.map f).sum ≤ (l.map g).sum + (l.map h).sum := by
  induction l with
  | nil => simp
  | cons a rest ih =>
    have h1 := hp a List.mem_cons_self
    have h2 := ih (fun x hx => hp x (List.mem_cons_of_mem _ hx))
    simp only [List.map_cons, List.sum_cons]
    omega

theorem inputs_value_bound {s : State} {txs : List Tx} {rel : Relevant}
    (hload : loadRelevantCoins s txs = .ok rel)
    (hb : (s.coins.coins.map (·.2.coinData.value)).sum + ((txs.flatMap (·.outputs)).map (·.value)).sum ≤ U128_MAX)
    {tx : Tx} (htx : tx ∈ txs) : (tx.inputs.map (relVal rel)).sum ≤ U128_MAX := by
  obtain ⟨-, hnd, -, r1, r2⟩ := loadRelevantCoins_ok hload
  have hnd' : tx.inputs.Nodup := (List.pairwise_flatMap.mp hnd).1 tx htx
  let fv := fun c : CoinDataHeight => c.coinData.value
  have hpt : ∀ id ∈ tx.inputs, relVal rel id ≤
      AList.valAt fv (createdOf s.height txs) id + AList.valAt fv s.coins.coins id := by
    intro id _
    cases hc : (createdOf s.height txs).get id with
    | some c =>
      rw [relVal_of_get (r1 id c hc)]
      simp [AList.valAt, hc, fv]
    | none =>
      cases hr : rel.get id with
      | none => simp [relVal, AList.valAt, hr]
      | some c =>
        have h2 : s.coins.coins.get id = some c := r2 id c hc hr
        rw [relVal_of_get hr]
        simp [AList.valAt, h2, fv]
  have h1 := sum_map_le_add _ _ _ tx.inputs hpt
  have h2 := AList.sum_valAt_le fv tx.inputs (createdOf s.height txs) hnd'
  have h3 := AList.sum_valAt_le fv tx.inputs s.coins.coins hnd'
  have h4 := createdOf_sum_le s.height txs
  refine Nat.le_trans h1 (Nat.le_trans ?_ hb)
  rw [Nat.add_comm]
  exact Nat.add_le_add h3 (Nat.le_trans h2 h4)

/-! ### `checkTxValidity` -/

/-- one step of the input fold of `checkTxValidity` -/
def TotalL.inStep (env : Env) (s : State) (lastHeader : Header) (tx : Tx) (rel : Relevant)
    (newStakes : AList Hash StakeDoc) (acc : AList Denom Nat) (e : CoinID × Nat) : Outcome (AList Denom Nat) :=
  let coinId := e.1
  if (newStakes.contains coinId.txhash || (s.stakes.getStake coinId.txhash).isSome) && !legacyStakeLock s
  then .reject .coinLocked
  else match rel.get coinId with
    | none => .reject .nonexistentCoin
    | some coin =>
      (validateTxScripts env e.2 coinId tx coin lastHeader).bind fun _ =>
        let total := (acc.get coin.coinData.denom).getD 0 + coin.coinData.value
        if total > U128_MAX then .crash "applytx.rs: in_coins sum overflow"
        else .ok (acc.set coin.coinData.denom total)

theorem TotalL.checkTxValidity_eq (env : Env) (s : State) (lh : Header) (tx : Tx) (rel : Relevant)
    (ns : AList Hash StakeDoc) :
    checkTxValidity env s lh tx rel ns =
      (Outcome.foldlM' (inStep env s lh tx rel ns) [] tx.inputs.zipIdx).bind fun inCoins =>
        checkBalanced tx.kind inCoins tx.totalOutputs := rfl

theorem inFold_noCrash (env : Env) (s : State) (lh : Header) (tx : Tx) (rel : Relevant)
    (ns : AList Hash StakeDoc) (l : List (CoinID × Nat)) :
    ∀ (acc : AList Denom Nat) (B : Nat), (∀ d, (acc.get d).getD 0 ≤ B) →
      B + (l.map fun e => relVal rel e.1).sum ≤ U128_MAX →
      NoCrash (Outcome.foldlM' (inStep env s lh tx rel ns) acc l) := by
  induction l with
  | nil => intro acc B _ _; exact NoCrash.ok _
  | cons e rest ih =>
    intro acc B hacc hB
    simp only [List.map_cons, List.sum_cons] at hB
    simp only [Outcome.foldlM']
    cases hstep : inStep env s lh tx rel ns acc e with
    | reject r => exact NoCrash.reject _
    | crash c =>
      exfalso
      simp only [inStep] at hstep
      split at hstep
      · cases hstep
      · split at hstep
        · cases hstep
        · rename_i coin hcoin
          have hv := relVal_of_get hcoin
          cases hval : validateTxScripts env e.2 e.1 tx coin lh with
          | ok u =>
            rw [hval] at hstep
            simp only [Outcome.bind] at hstep
            split at hstep
            · rename_i hgt
              have := hacc coin.coinData.denom
              omega
            · cases hstep
          | reject r => rw [hval] at hstep; cases hstep
          | crash c' => exact validateTxScripts_noCrash env e.2 e.1 tx coin lh c' hval
    | ok acc' =>
      simp only [inStep] at hstep
      split at hstep
      · cases hstep
      · split at hstep
        · cases hstep
        · rename_i coin hcoin
          have hv := relVal_of_get hcoin
          cases hval : validateTxScripts env e.2 e.1 tx coin lh with
          | ok u =>
            rw [hval] at hstep
            simp only [Outcome.bind] at hstep
            split at hstep
            · cases hstep
            · simp only [Outcome.ok.injEq] at hstep
              subst hstep
              refine ih _ (B + relVal rel e.1) ?_ (by omega)
              intro d
              by_cases hd : d = coin.coinData.denom
              · subst hd
                rw [AList.get_set_self]
                have := hacc coin.coinData.denom
                simp only [Option.getD_some]
                omega
              · rw [AList.get_set_ne _ _ hd]
                have := hacc d
                omega
          | reject r => rw [hval] at hstep; cases hstep
          | crash c' => rw [hval] at hstep; cases hstep

theorem checkBalanced_noCrash (kind : TxKind) (inC outC : AList Denom Nat) :
    NoCrash (checkBalanced kind inC outC) := by
  unfold checkBalanced
  split
  · exact NoCrash.ok _
  · apply NoCrash.forM'
    intro e _ c
    split
    · simp
    · split
      · simp
      · split <;> simp

theorem checkTxValidity_noCrash (env : Env) (s : State) (lh : Header) (tx : Tx) (rel : Relevant)
    (ns : AList Hash StakeDoc) (hsum : (tx.inputs.map (relVal rel)).sum ≤ U128_MAX) :
    NoCrash (checkTxValidity env s lh tx rel ns) := by
  rw [checkTxValidity_eq]
  refine NoCrash.bind ?_ (fun _ _ => checkBalanced_noCrash _ _ _)
  refine inFold_noCrash env s lh tx rel ns _ [] 0 (by intro d; simp [AList.get]) ?_
  have : (tx.inputs.zipIdx.map fun e => relVal rel e.1) = tx.inputs.map (relVal rel) := by
    have h : (tx.inputs.zipIdx.map fun e => relVal rel e.1) = (tx.inputs.zipIdx.map Prod.fst).map (relVal rel) := by
      rw [List.map_map]; rfl
    rw [h, List.zipIdx_map_fst]
  rw [this]; omega

/-- `Tx.totalOutputs` always starts with a MEL entry -/
theorem totalOutputs_head (tx : Tx) : ∃ v rest, tx.totalOutputs = (Denom.mel, v) :: rest := by
  simp only [Tx.totalOutputs, addDenom, AList.set]
  exact ⟨_, _, rfl⟩

/-- a transaction without inputs that is not a faucet is unbalanced (its MEL total has no counterpart) -/
theorem checkTxValidity_ok_inputs {env : Env} {s : State} {lh : Header} {tx : Tx} {rel : Relevant}
    {ns : AList Hash StakeDoc} (hk : tx.kind ≠ .faucet) (h : checkTxValidity env s lh tx rel ns = .ok ()) :
    tx.inputs ≠ [] := by
  intro hnil
  rw [checkTxValidity_eq, hnil] at h
  obtain ⟨v, rest, hto⟩ := totalOutputs_head tx
  simp only [List.zipIdx_nil, Outcome.foldlM', Outcome.bind, checkBalanced, hk, if_false, hto,
    Outcome.forM'] at h
  simp [AList.get] at h

/-! ### `validateDoscmint` -/

theorem pow2_le_of_le_100 {d : Nat} (hd : d ≤ 100) : 2 ^ d ≤ 2 ^ 100 :=
  Nat.pow_le_pow_right (by decide) hd

theorem computeDoscmintSpeed_eq_of_le {b : Bool} {d sh ch : Nat} (hd : d ≤ 100) (hlt : ch < sh) :
    computeDoscmintSpeed b d sh ch = .ok ((if b then TIP910_SPEED_FACTOR else 1) * 2 ^ d / (sh - ch)) := by
  have h1 : ¬ d ≥ 128 := by omega
  have h2 : ¬ ch > sh := by omega
  have h3 : ¬ sh = ch := by omega
  have h4 : ¬ (if b then TIP910_SPEED_FACTOR else 1) * 2 ^ d > U128_MAX := by
    have hp := pow2_le_of_le_100 hd
    have hf : (if b then TIP910_SPEED_FACTOR else 1) ≤ 100 := by cases b <;> simp [TIP910_SPEED_FACTOR]
    have : (if b then TIP910_SPEED_FACTOR else 1) * 2 ^ d ≤ 100 * 2 ^ 100 := Nat.mul_le_mul hf hp
    have h100 : 100 * 2 ^ 100 ≤ U128_MAX := by decide
    omega
  simp only [computeDoscmintSpeed, h1, h2, h3, h4, if_false]

theorem calculateReward_eq_of_le {sp ds d : Nat} {b : Bool} (hd : d ≤ 100) (hds : ds ≠ 0) :
    calculateReward sp ds d b = .ok (satU128 ((if b then satMul128 (2 ^ d) TIP910_WORK_FACTOR else 2 ^ d) * sp *
      MICRO_CONVERTER / (ds ^ 2 * REWARD_DIVISOR))) := by
  have h1 : ¬ d ≥ 128 := by omega
  simp only [calculateReward, h1, hds, if_false]

theorem TotalL.satU128_le (n : Nat) : satU128 n ≤ n := Nat.min_le_left _ _

theorem satMul128_le (a b : Nat) : satMul128 a b ≤ a * b := Nat.min_le_left _ _

/-- everything `validateDoscmint` needs in order not to crash -/
theorem validateDoscmint_noCrash {env : Env} {s : State} {rel : Relevant} {tx : Tx}
    (hin : tx.inputs ≠ [])
    (hh : ∀ id c, rel.get id = some c → c.height ≤ s.height)
    (hdiff : ∀ a b c d, env.powOk a b c d ≠ .invalid → c ≤ 100)
    (hbelow : ∀ h hdr, s.history.get h = some hdr → h < s.height)
    (hspeeds : ∀ h hdr, s.history.get h = some hdr → 0 < hdr.doscSpeed)
    (hfits : ∀ hdr, s.history.get (s.height - 1) = some hdr → ∀ a b d t, env.powOk a b d t ≠ .invalid →
      microergsIter s.height * ((TIP910_WORK_FACTOR * 2 ^ d) * (TIP910_SPEED_FACTOR * 2 ^ d) * MICRO_CONVERTER /
        (hdr.doscSpeed ^ 2 * REWARD_DIVISOR)) / MICRO_CONVERTER ≤ U128_MAX) :
    NoCrash (validateDoscmint env s rel tx) := by
  unfold validateDoscmint
  cases hinp : tx.inputs with
  | nil => exact absurd hinp hin
  | cons coinId restInputs =>
    simp only
    cases hcoin : rel.get coinId with
    | none => exact NoCrash.reject _
    | some coin =>
      simp only
      have hle : coin.height ≤ s.height := hh coinId coin hcoin
      rw [if_neg (Nat.not_lt.mpr hle)]
      split
      · exact NoCrash.reject _
      · cases hseed : s.history.get coin.height with
        | none => exact NoCrash.reject _
        | some seedHdr =>
          simp only
          have hlt : coin.height < s.height := hbelow _ _ hseed
          cases hdf : tx.powDifficulty with
          | none => exact NoCrash.reject _
          | some difficulty =>
            simp only
            split
            · exact NoCrash.reject _
            · have key : ∀ v : PowVerdict, env.powOk (env.hdrHash seedHdr) coinId difficulty tx.hash = v →
                  v ≠ .invalid → NoCrash
                    ((computeDoscmintSpeed (decide (v = .tip910)) difficulty s.height coin.height).bind fun mySpeed =>
                      if s.height = 0 then .crash "applytx.rs: height - 1 underflow" else
                      match s.history.get (s.height - 1) with
                      | none => .reject .invalidMelPoW
                      | some prev =>
                        (calculateReward mySpeed prev.doscSpeed difficulty (decide (v = .tip910))).bind fun rewardReal =>
                        (doscToErg s.height rewardReal).bind fun rewardNom =>
                          let totalErg := (tx.totalOutputs.get .erg).getD 0
                          if totalErg > rewardNom then .reject .invalidMelPoW else .ok mySpeed) := by
                intro v hv hvi
                have hd100 : difficulty ≤ 100 := hdiff _ _ _ _ (by rw [hv]; exact hvi)
                rw [computeDoscmintSpeed_eq_of_le hd100 hlt, Outcome.ok_bind_c09]
                rw [if_neg (Nat.ne_of_gt (Nat.lt_of_le_of_lt (Nat.zero_le _) hlt))]
                cases hprev : s.history.get (s.height - 1) with
                | none => exact NoCrash.reject _
                | some prev =>
                  simp only
                  have hds : prev.doscSpeed ≠ 0 := by
                    have := hspeeds _ _ hprev; omega
                  rw [calculateReward_eq_of_le hd100 hds, Outcome.ok_bind_c09]
                  have hfit := hfits prev hprev (env.hdrHash seedHdr) coinId difficulty tx.hash (by rw [hv]; exact hvi)
                  -- the reward is at most the maximal one
                  have hw : (if decide (v = .tip910) = true then satMul128 (2 ^ difficulty) TIP910_WORK_FACTOR
                      else 2 ^ difficulty) ≤ TIP910_WORK_FACTOR * 2 ^ difficulty := by
                    split
                    · rw [Nat.mul_comm]; exact satMul128_le _ _
                    · exact Nat.le_mul_of_pos_left _ (by decide)
                  have hsp : (if decide (v = .tip910) = true then TIP910_SPEED_FACTOR else 1) * 2 ^ difficulty /
                      (s.height - coin.height) ≤ TIP910_SPEED_FACTOR * 2 ^ difficulty := by
                    refine Nat.le_trans (Nat.div_le_self _ _) (Nat.mul_le_mul_right _ ?_)
                    split <;> simp [TIP910_SPEED_FACTOR]
                  have hr := Nat.le_trans (satU128_le _)
                    (Nat.div_le_div_right (c := prev.doscSpeed ^ 2 * REWARD_DIVISOR)
                      (Nat.mul_le_mul_right MICRO_CONVERTER (Nat.mul_le_mul hw hsp)))
                  have hv2 : microergsIter s.height * satU128 ((if decide (v = .tip910) = true then
                        satMul128 (2 ^ difficulty) TIP910_WORK_FACTOR else 2 ^ difficulty) *
                      ((if decide (v = .tip910) = true then TIP910_SPEED_FACTOR else 1) * 2 ^ difficulty /
                        (s.height - coin.height)) * MICRO_CONVERTER / (prev.doscSpeed ^ 2 * REWARD_DIVISOR)) /
                      MICRO_CONVERTER ≤ U128_MAX :=
                    Nat.le_trans (Nat.div_le_div_right (Nat.mul_le_mul_left _ hr)) hfit
                  simp only [doscToErg]
                  rw [if_neg (Nat.not_lt.mpr hv2), Outcome.ok_bind_c09]
                  exact NoCrash.ite (NoCrash.reject _) (NoCrash.ok _)
              cases hv : env.powOk (env.hdrHash seedHdr) coinId difficulty tx.hash with
              | panics => exact NoCrash.reject _
              | invalid => exact NoCrash.reject _
              | legacy => exact key .legacy hv (by decide)
              | tip910 => exact key .tip910 hv (by decide)

/-! ### `createNextState` -/

/-- the count invariant, as far as it matters: before TIP-906 the counts are not maintained at all -/
def CInv (t : Bool) (m : CoinMap) : Prop := t = true → CountsOk m

theorem CInv.insert_fresh {t : Bool} {m : CoinMap} {id : CoinID} {d : CoinDataHeight} (h : CInv t m)
    (hf : m.getCoin id = none) : CInv t (m.insertCoin id d t) := by
  intro ht; subst ht; exact C20_insert_fresh m id d (h rfl) hf

theorem CInv.insert_same {t : Bool} {m : CoinMap} {id : CoinID} {d : CoinDataHeight} (h : CInv t m)
    (hf : m.getCoin id = some d) : CInv t (m.insertCoin id d t) := by
  intro ht; subst ht; exact C20_insert_overwrite m id d d (h rfl) hf rfl

theorem CInv.remove {t : Bool} {m : CoinMap} (h : CInv t m) (id : CoinID) :
    ∃ m', m.removeCoin id t = .ok m' ∧ CInv t m' := by
  cases t with
  | false => exact ⟨{ m with coins := m.coins.del id }, by simp [CoinMap.removeCoin], fun h => by cases h⟩
  | true =>
    obtain ⟨m', h1, h2⟩ := C20_remove m id (h rfl)
    exact ⟨m', h1, fun _ => h2⟩

theorem CInv.removeFold {t : Bool} (ids : List CoinID) :
    ∀ m : CoinMap, CInv t m →
      ∃ m', Outcome.foldlM' (fun (c : CoinMap) id => c.removeCoin id t) m ids = .ok m' ∧ CInv t m' := by
  induction ids with
  | nil => intro m h; exact ⟨m, rfl, h⟩
  | cons id rest ih =>
    intro m h
    obtain ⟨m1, h1, h2⟩ := h.remove id
    obtain ⟨m2, h3, h4⟩ := ih m1 h2
    refine ⟨m2, ?_, h4⟩
    simp only [Outcome.foldlM', h1]
    exact h3

/-- the insertion pass keeps the count invariant: every inserted id is either new or re-inserted
    with the very same coin -/
theorem insFold_inv (rel : Relevant) (t : Bool) (base : CoinMap) (L : List CoinID)
    (hfresh : ∀ id ∈ L, base.getCoin id = none) :
    ∀ coins : CoinMap, CInv t coins →
      (∀ k c, coins.getCoin k = some c → base.getCoin k = some c ∨ rel.get k = some c) →
      CInv t (L.foldl (insStep rel t) coins) := by
  induction L with
  | nil => intro coins h _; exact h
  | cons id rest ih =>
    intro coins h hsrc
    have hf := hfresh id List.mem_cons_self
    rw [List.foldl_cons]
    apply ih (fun x hx => hfresh x (List.mem_cons_of_mem _ hx))
    · simp only [insStep]
      cases hr : rel.get id with
      | none => exact h
      | some cd =>
        simp only
        cases hg : coins.getCoin id with
        | none => exact h.insert_fresh hg
        | some old =>
          rcases hsrc id old hg with h1 | h1
          · rw [hf] at h1; cases h1
          · rw [hr] at h1
            simp only [Option.some.injEq] at h1
            subst h1
            exact h.insert_same hg
    · intro k c hk
      rw [getCoin_insStep] at hk
      by_cases hki : k = id
      · rw [if_pos hki] at hk
        cases hr : rel.get k with
        | none =>
          rw [hr] at hk
          have := hsrc k c hk
          rw [hr] at this
          exact this
        | some cd => rw [hr] at hk; exact Or.inr hk
      · rw [if_neg hki] at hk
        exact hsrc k c hk

theorem mem_outputIds {txs : List Tx} {id : CoinID} (h : id ∈ outputIds txs) :
    ∃ tx ∈ txs, ∃ i, id = ⟨tx.hash, i⟩ := by
  simp only [outputIds, List.mem_flatMap, List.mem_map] at h
  obtain ⟨tx, htx, i, -, rfl⟩ := h
  exact ⟨tx, htx, _, rfl⟩

theorem faucetStep_inv {env : Env} {t : Bool} {st : State} {tx : Tx} (ht : st.tip906 = t)
    (hinv : CInv t st.coins) :
    NoCrash (if tx.kind = .faucet then handleFaucetTx env st tx else .ok st) ∧
    ∀ st1, (if tx.kind = .faucet then handleFaucetTx env st tx else .ok st) = .ok st1 →
      st1.tip906 = t ∧ st1.feeMultiplier = st.feeMultiplier ∧ CInv t st1.coins := by
  by_cases hk : tx.kind = .faucet
  · rw [if_pos hk]
    simp only [handleFaucetTx]
    split
    · exact ⟨NoCrash.reject _, fun _ h => by cases h⟩
    · split
      · exact ⟨NoCrash.reject _, fun _ h => by cases h⟩
      · rename_i hnone
        split
        · refine ⟨NoCrash.ok _, ?_⟩
          intro st1 h
          cases h
          refine ⟨ht, rfl, ?_⟩
          have hnone' : st.coins.getCoin ⟨env.fdp tx.hash, 0⟩ = none := by
            cases hg : st.coins.getCoin ⟨env.fdp tx.hash, 0⟩ with
            | none => rfl
            | some v => rw [hg] at hnone; simp at hnone
          simp only
          rw [ht]
          exact hinv.insert_fresh hnone'
        · refine ⟨NoCrash.ok _, ?_⟩
          intro st1 h
          cases h
          exact ⟨ht, rfl, hinv⟩
  · rw [if_neg hk]
    refine ⟨NoCrash.ok _, ?_⟩
    intro st1 h
    cases h
    exact ⟨ht, rfl, hinv⟩

theorem baseFee_noCrash (tx : Tx) (m : Nat) (hw : (tx.covenants.map covenantWeightFromBytes).sum ≤ U128_MAX) :
    NoCrash (tx.baseFee m) := by
  simp only [Tx.baseFee, Tx.weight]
  rw [if_neg (Nat.not_lt.mpr hw), Outcome.ok_bind_c09]
  exact NoCrash.ok _

theorem nextStep_inv {env : Env} {t : Bool} {st : State} {tx : Tx} (ht : st.tip906 = t)
    (hinv : CInv t st.coins) (hw : (tx.covenants.map covenantWeightFromBytes).sum ≤ U128_MAX) :
    NoCrash (nextStep env t st tx) ∧
    ∀ st', nextStep env t st tx = .ok st' → st'.tip906 = t ∧ CInv t st'.coins := by
  obtain ⟨f1, f2⟩ := faucetStep_inv (env := env) (tx := tx) ht hinv
  constructor
  · unfold nextStep
    refine NoCrash.ite (NoCrash.reject _) ?_
    refine NoCrash.bind f1 ?_
    intro st1 h1
    obtain ⟨-, -, hi1⟩ := f2 st1 h1
    obtain ⟨m', hm, -⟩ := CInv.removeFold tx.inputs st1.coins hi1
    rw [hm, Outcome.ok_bind_c09]
    refine NoCrash.bind (baseFee_noCrash tx _ hw) ?_
    intro minFee _
    exact NoCrash.ite (NoCrash.reject _) (NoCrash.ok _)
  · intro st' h
    unfold nextStep at h
    split at h
    · cases h
    simp only [Outcome.bind_eq_ok] at h
    obtain ⟨st1, h1, coins2, h2, minFee, -, h4⟩ := h
    obtain ⟨ht1, -, hi1⟩ := f2 st1 h1
    obtain ⟨m', hm, hi2⟩ := CInv.removeFold tx.inputs st1.coins hi1
    rw [hm] at h2
    cases h2
    split at h4
    · cases h4
    · cases h4
      exact ⟨ht1, hi2⟩

theorem createNextState_noCrash (env : Env) (s : State) (txs : List Tx) (rel : Relevant)
    (hc : CountsOk s.coins)
    (hfresh : ∀ t ∈ txs, ∀ i, s.coins.getCoin ⟨t.hash, i⟩ = none)
    (hw : ∀ t ∈ txs, (t.covenants.map covenantWeightFromBytes).sum ≤ U128_MAX) :
    NoCrash (createNextState env s txs rel s.tip906) := by
  rw [createNextState_eq]
  refine NoCrash.foldlM' _ (fun st => st.tip906 = s.tip906 ∧ CInv s.tip906 st.coins) txs ?_ _ ⟨rfl, ?_⟩
  · intro st ⟨ht, hinv⟩ tx htx
    obtain ⟨n1, n2⟩ := nextStep_inv (env := env) ht hinv (hw tx htx)
    exact ⟨n1, n2⟩
  · refine insFold_inv rel s.tip906 s.coins (outputIds txs) ?_ s.coins (fun _ => hc) (fun k c h => Or.inl h)
    intro id hid
    obtain ⟨tx, htx, i, rfl⟩ := mem_outputIds hid
    exact hfresh tx htx i

/-! ### `applyBatch` -/

/-- no relevant coin is from the future: created coins carry the current height -/
theorem rel_heights {s : State} {txs : List Tx} {rel : Relevant} (hload : loadRelevantCoins s txs = .ok rel)
    (hh : ∀ id c, s.coins.getCoin id = some c → c.height ≤ s.height) :
    ∀ id c, rel.get id = some c → c.height ≤ s.height := by
  obtain ⟨-, -, -, r1, r2⟩ := loadRelevantCoins_ok hload
  intro id c hc
  cases hcr : (createdOf s.height txs).get id with
  | none => exact hh id c (r2 id c hcr hc)
  | some c' =>
    have := r1 id c' hcr
    rw [hc] at this
    simp only [Option.some.injEq] at this
    subst this
    obtain ⟨tx, -, hm⟩ := createdOf_get_some hcr
    obtain ⟨_, _, -, -, hht, -⟩ := mem_outputCoinsFromTx hm
    exact Nat.le_of_eq hht

theorem applyBatch_noCrash (env : Env) (s : State) (txs : List Tx) (fb : Header)
    (hc : CountsOk s.coins)
    (hfresh : ∀ t ∈ txs, ∀ i, s.coins.getCoin ⟨t.hash, i⟩ = none)
    (hheights : ∀ id c, s.coins.getCoin id = some c → c.height ≤ s.height)
    (hbounded : (s.coins.coins.map (·.2.coinData.value)).sum + ((txs.flatMap (·.outputs)).map (·.value)).sum
      ≤ U128_MAX)
    (hspeeds : ∀ h hdr, s.history.get h = some hdr → 0 < hdr.doscSpeed)
    (hbelow : ∀ h hdr, s.history.get h = some hdr → h < s.height)
    (hdiff : ∀ a b c d, env.powOk a b c d ≠ .invalid → c ≤ 100)
    (hfits : ∀ hdr, s.history.get (s.height - 1) = some hdr → ∀ a b d t, env.powOk a b d t ≠ .invalid →
      microergsIter s.height * ((TIP910_WORK_FACTOR * 2 ^ d) * (TIP910_SPEED_FACTOR * 2 ^ d) * MICRO_CONVERTER /
        (hdr.doscSpeed ^ 2 * REWARD_DIVISOR)) / MICRO_CONVERTER ≤ U128_MAX) :
    NoCrash (applyBatch env s txs fb) := by
  unfold applyBatch
  refine NoCrash.bind (loadRelevantCoins_noCrash s txs) ?_
  intro rel hrel
  -- the covenant weights of every transaction add up within a u128: `loadRelevantCoins` has checked it (F19 fix)
  have hw : ∀ t ∈ txs, (t.covenants.map covenantWeightFromBytes).sum ≤ U128_MAX := by
    intro t ht
    have h := ((loadRelevantCoins_ok hrel).1 t ht).2.2
    simpa [Tx.covWeightsFit] using h
  refine NoCrash.bind (loadStakeInfo_noCrash s txs) ?_
  intro ns _
  dsimp only
  refine NoCrash.bind (NoCrash.forM' _ _ ?_) ?_
  · intro tx htx
    exact checkTxValidity_noCrash _ _ _ _ _ _ (inputs_value_bound hrel hbounded htx)
  · intro u hu
    have hall : ∀ tx ∈ txs, checkTxValidity env s (lastHeaderOf s fb) tx rel ns = .ok () :=
      (Outcome.forM'_eq_ok _ _).mp hu
    refine NoCrash.bind ?_ ?_
    · refine NoCrash.foldlM' _ (fun _ => True) txs ?_ _ trivial
      intro sp _ tx htx
      refine ⟨?_, fun _ _ => trivial⟩
      split
      · rename_i hk
        have hkf : tx.kind ≠ .faucet := by rw [hk]; decide
        exact NoCrash.bind
          (validateDoscmint_noCrash (checkTxValidity_ok_inputs hkf (hall tx htx)) (rel_heights hrel hheights)
            hdiff hbelow hspeeds hfits)
          (fun _ _ => NoCrash.ok _)
      · exact NoCrash.ok _
    · intro newSpeed _
      exact NoCrash.bind (createNextState_noCrash env s txs rel hc hfresh hw) (fun _ _ => NoCrash.ok _)

end Mel
