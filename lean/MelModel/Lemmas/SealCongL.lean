/-
  Helper lemmas for Props/C06Hist.lean (`C06_honest_any_order`): sealing respects the observational equivalence of
  states (`BatchEquiv` of Props/C03.lean: the same coins, counts and stakes as MAPS — the association lists may be
  ordered differently — and every other field equal).
-/
import MelModel.Chain
import MelModel.Props.C03
import MelModel.Lemmas.Batch
import MelModel.Lemmas.TotalSeal
import MelModel.Lemmas.StakeL
namespace Mel
namespace SealCongL
open Mel.Gen

/-! ### coin maps with the same content -/

structure CoinExt (a b : CoinMap) : Prop where
  coins : ∀ id, a.getCoin id = b.getCoin id
  counts : ∀ h, a.coinCount h = b.coinCount h

theorem CoinExt.refl (a : CoinMap) : CoinExt a a := ⟨fun _ => rfl, fun _ => rfl⟩

theorem coinCount_insertCoin (m : CoinMap) (id : CoinID) (d : CoinDataHeight) (t : Bool) (h : Hash) :
    (m.insertCoin id d t).coinCount h =
      if (t && !(m.getCoin id).isSome) = true ∧ h = d.coinData.covhash then m.coinCount d.coinData.covhash + 1
      else m.coinCount h := by
  unfold CoinMap.insertCoin CoinMap.getCoin
  simp only
  by_cases hc : (t && !(m.coins.get id).isSome) = true
  · rw [if_pos hc]
    by_cases hh : h = d.coinData.covhash
    · subst hh
      rw [if_pos ⟨hc, rfl⟩]
      simp [CoinMap.coinCount, AList.get_set_self]
    · rw [if_neg (fun x => hh x.2)]
      simp [CoinMap.coinCount, AList.get_set_ne _ _ hh]
  · rw [if_neg hc, if_neg (fun x => hc x.1)]
    rfl

theorem coinCount_insertCoinCount (m : CoinMap) (h : Hash) (n : Nat) (k : Hash) :
    (m.insertCoinCount h n).coinCount k = if k = h then n else m.coinCount k := by
  unfold CoinMap.insertCoinCount
  by_cases hn : n = 0
  · rw [if_pos hn]
    by_cases hk : k = h
    · subst hk
      simp [CoinMap.coinCount, AList.get_del_self, hn]
    · simp [CoinMap.coinCount, AList.get_del_ne _ hk, hk]
  · rw [if_neg hn]
    by_cases hk : k = h
    · subst hk
      simp [CoinMap.coinCount, AList.get_set_self]
    · simp [CoinMap.coinCount, AList.get_set_ne _ _ hk, hk]

theorem getCoin_insertCoinCount (m : CoinMap) (h : Hash) (n : Nat) (id : CoinID) :
    (m.insertCoinCount h n).getCoin id = m.getCoin id := by
  unfold CoinMap.insertCoinCount CoinMap.getCoin
  split <;> rfl

theorem insertCoin_ext {a b : CoinMap} (e : CoinExt a b) (id : CoinID) (d : CoinDataHeight) (t : Bool) :
    CoinExt (a.insertCoin id d t) (b.insertCoin id d t) := by
  refine ⟨fun k => ?_, fun h => ?_⟩
  · rw [CoinMap.getCoin_insertCoin, CoinMap.getCoin_insertCoin, e.coins]
  · rw [coinCount_insertCoin, coinCount_insertCoin, e.coins, e.counts, e.counts]

theorem removeCoin_ext {a b a' : CoinMap} (e : CoinExt a b) (id : CoinID) (t : Bool)
    (h : a.removeCoin id t = .ok a') : ∃ b', b.removeCoin id t = .ok b' ∧ CoinExt a' b' := by
  have hg : b.coins.get id = a.coins.get id := (e.coins id).symm
  unfold CoinMap.removeCoin at h ⊢
  rw [hg]
  by_cases ht : t = true
  · rw [if_pos ht] at h ⊢
    cases hd : a.coins.get id with
    | none =>
      rw [hd] at h
      simp only at h ⊢
      cases h
      refine ⟨_, rfl, fun k => ?_, fun k => ?_⟩
      · show (a.coins.del id).get k = (b.coins.del id).get k
        by_cases hk : k = id
        · subst hk; rw [AList.get_del_self, AList.get_del_self]
        · rw [AList.get_del_ne _ hk, AList.get_del_ne _ hk]; exact e.coins k
      · exact e.counts k
    | some d =>
      rw [hd] at h
      simp only at h ⊢
      rw [← e.counts]
      split at h
      · cases h
      · next hc =>
        rw [if_neg hc]
        cases h
        refine ⟨_, rfl, fun k => ?_, fun k => ?_⟩
        · show (a.coins.del id).get k = (b.coins.del id).get k
          by_cases hk : k = id
          · subst hk; rw [AList.get_del_self, AList.get_del_self]
          · rw [AList.get_del_ne _ hk, AList.get_del_ne _ hk]; exact e.coins k
        · show (CoinMap.insertCoinCount a _ _).coinCount k = (CoinMap.insertCoinCount b _ _).coinCount k
          rw [coinCount_insertCoinCount, coinCount_insertCoinCount, e.counts k]
  · rw [if_neg ht] at h ⊢
    cases h
    refine ⟨_, rfl, fun k => ?_, fun k => ?_⟩
    · show (a.coins.del id).get k = (b.coins.del id).get k
      by_cases hk : k = id
      · subst hk; rw [AList.get_del_self, AList.get_del_self]
      · rw [AList.get_del_ne _ hk, AList.get_del_ne _ hk]; exact e.coins k
    · exact e.counts k

/-! ### folds with early exit respect a relation that the step respects -/

theorem foldlM'_cong {α β γ} (R : β → γ → Prop) (f : β → α → Outcome β) (g : γ → α → Outcome γ)
    (hf : ∀ x y a x', R x y → f x a = .ok x' → ∃ y', g y a = .ok y' ∧ R x' y') :
    ∀ (l : List α) (x : β) (y : γ) (x' : β), R x y → Outcome.foldlM' f x l = .ok x' →
      ∃ y', Outcome.foldlM' g y l = .ok y' ∧ R x' y' := by
  intro l
  induction l with
  | nil =>
    intro x y x' hr h
    rw [Outcome.foldlM'_nil_ok] at h
    subst h
    exact ⟨y, rfl, hr⟩
  | cons a rest ih =>
    intro x y x' hr h
    rw [Outcome.foldlM'_cons_ok] at h
    obtain ⟨x1, h1, h2⟩ := h
    obtain ⟨y1, g1, r1⟩ := hf x y a x1 hr h1
    obtain ⟨y', g2, r2⟩ := ih x1 y1 x' r1 h2
    exact ⟨y', (Outcome.foldlM'_cons_ok _ _ _ _ _).mpr ⟨y1, g1, g2⟩, r2⟩

theorem bind_ok_of {α β} {x : Outcome α} {f : α → Outcome β} {a : α} {b : β} (h1 : x = .ok a) (h2 : f a = .ok b) :
    x.bind f = .ok b := by
  rw [h1]; exact h2

theorem foldlM'_cong_self {α β} (R : β → β → Prop) (f : β → α → Outcome β)
    (hf : ∀ x y a x', R x y → f x a = .ok x' → ∃ y', f y a = .ok y' ∧ R x' y')
    (l : List α) (x y x' : β) (hr : R x y) (h : Outcome.foldlM' f x l = .ok x') :
    ∃ y', Outcome.foldlM' f y l = .ok y' ∧ R x' y' := foldlM'_cong R f f hf l x y x' hr h

/-! ### a state with its coin map and stake set replaced -/

/-- the state `a` with the coin map `c` and the stake set `k` -/
def T (a : State) (c : CoinMap) (k : StakeSet) : State := { a with coins := c, stakes := k }

@[simp] theorem T_coins (a : State) (c : CoinMap) (k : StakeSet) : (T a c k).coins = c := rfl
@[simp] theorem T_stakes (a : State) (c : CoinMap) (k : StakeSet) : (T a c k).stakes = k := rfl
@[simp] theorem T_pools (a : State) (c : CoinMap) (k : StakeSet) : (T a c k).pools = a.pools := rfl
@[simp] theorem T_height (a : State) (c : CoinMap) (k : StakeSet) : (T a c k).height = a.height := rfl
@[simp] theorem T_network (a : State) (c : CoinMap) (k : StakeSet) : (T a c k).network = a.network := rfl
@[simp] theorem T_txs (a : State) (c : CoinMap) (k : StakeSet) : (T a c k).txs = a.txs := rfl
@[simp] theorem T_feePool (a : State) (c : CoinMap) (k : StakeSet) : (T a c k).feePool = a.feePool := rfl
@[simp] theorem T_tips (a : State) (c : CoinMap) (k : StakeSet) : (T a c k).tips = a.tips := rfl
@[simp] theorem T_feeMultiplier (a : State) (c : CoinMap) (k : StakeSet) :
    (T a c k).feeMultiplier = a.feeMultiplier := rfl
@[simp] theorem T_tip901 (a : State) (c : CoinMap) (k : StakeSet) : (T a c k).tip901 = a.tip901 := rfl
@[simp] theorem T_tip902 (a : State) (c : CoinMap) (k : StakeSet) : (T a c k).tip902 = a.tip902 := rfl
@[simp] theorem T_tip906 (a : State) (c : CoinMap) (k : StakeSet) : (T a c k).tip906 = a.tip906 := rfl
@[simp] theorem T_tip909 (a : State) (c : CoinMap) (k : StakeSet) : (T a c k).tip909 = a.tip909 := rfl
@[simp] theorem T_tip909a (a : State) (c : CoinMap) (k : StakeSet) : (T a c k).tip909a = a.tip909a := rfl
@[simp] theorem T_history (a : State) (c : CoinMap) (k : StakeSet) : (T a c k).history = a.history := rfl
@[simp] theorem T_doscSpeed (a : State) (c : CoinMap) (k : StakeSet) : (T a c k).doscSpeed = a.doscSpeed := rfl
@[simp] theorem T_tip908 (a : State) (c : CoinMap) (k : StakeSet) : (T a c k).tip908 = a.tip908 := rfl
@[simp] theorem T_legacyDeposit (a : State) (c : CoinMap) (k : StakeSet) :
    legacyDeposit (T a c k) = legacyDeposit a := rfl

/-- an equivalent state is the original with another coin map and stake set -/
theorem equiv_form {a b : State} (e : BatchEquiv a b) : b = T a b.coins b.stakes := by
  obtain ⟨n, h, hist, co, tx, fp, fm, tp, ds, po, sk⟩ := a
  obtain ⟨n', h', hist', co', tx', fp', fm', tp', ds', po', sk'⟩ := b
  obtain ⟨-, -, -, e4, e5, e6, e7, e8, e9, e10, e11, e12⟩ := e
  simp only at e4 e5 e6 e7 e8 e9 e10 e11 e12
  subst e4 e5 e6 e7 e8 e9 e10 e11 e12
  rfl

/-! ### settlement, pool by pool -/

theorem processSwapsForPool_cong (kk : PoolKey) (a a' : State) (swaps : List Tx) (c : CoinMap) (k : StakeSet)
    (e : CoinExt a.coins c) (h : processSwapsForPool kk a swaps = .ok a') :
    ∃ c', processSwapsForPool kk (T a c k) swaps = .ok (T a' c' k) ∧ CoinExt a'.coins c' := by
  unfold processSwapsForPool at h ⊢
  dsimp only [T_pools, T_tip906, T_height, T_coins] at h ⊢
  split at h
  · cases h
  · next pool hpool =>
    split at h
    · cases h
    · cases h
    · next pool' lw rw hsw =>
      obtain ⟨coins, hc, h2⟩ := Outcome.bind_eq_ok h
      cases h2
      obtain ⟨c', hc', e'⟩ := foldlM'_cong_self CoinExt _ (fun x y tx x' hr hx => by
        obtain ⟨cd, hcd, hx⟩ := Outcome.bind_eq_ok hx
        cases hx
        rw [hcd]
        exact ⟨_, rfl, insertCoin_ext hr _ _ _⟩) swaps a.coins c coins e hc
      exact ⟨c', bind_ok_of hc' rfl, e'⟩

theorem processDepositsForPool_cong (env : Env) (kk : PoolKey) (a a' : State) (deps : List Tx) (c : CoinMap)
    (k : StakeSet) (e : CoinExt a.coins c) (h : processDepositsForPool env kk a deps = .ok a') :
    ∃ c', processDepositsForPool env kk (T a c k) deps = .ok (T a' c' k) ∧ CoinExt a'.coins c' := by
  unfold processDepositsForPool at h ⊢
  dsimp only [T_pools, T_tip906, T_height, T_coins, T_legacyDeposit] at h ⊢
  split at h
  · cases h
  · cases h
  · next pool' totalLiqs hdep =>
    split at h
    · next hsat =>
      simp only [if_pos hsat]
      cases h
      exact ⟨c, rfl, e⟩
    · next hsat =>
      simp only [if_neg hsat]
      obtain ⟨coins, hc, h2⟩ := Outcome.bind_eq_ok h
      cases h2
      obtain ⟨c', hc', e'⟩ := foldlM'_cong_self CoinExt _ (fun x y tx x' hr hx => by
        obtain ⟨v, hv, hx⟩ := Outcome.bind_eq_ok hx
        rw [hv]
        simp only [Outcome.bind]
        split at hx
        · next hl =>
          rw [if_pos hl]
          cases hx
          exact ⟨_, rfl, insertCoin_ext hr _ _ _⟩
        · next hl =>
          rw [if_neg hl]
          exact removeCoin_ext (insertCoin_ext hr _ _ _) _ _ hx) deps a.coins c coins e hc
      exact ⟨c', bind_ok_of hc' rfl, e'⟩

theorem processWithdrawalsForPool_cong (kk : PoolKey) (a a' : State) (reqs : List Tx) (c : CoinMap)
    (k : StakeSet) (e : CoinExt a.coins c) (h : processWithdrawalsForPool kk a reqs = .ok a') :
    ∃ c', processWithdrawalsForPool kk (T a c k) reqs = .ok (T a' c' k) ∧ CoinExt a'.coins c' := by
  unfold processWithdrawalsForPool at h ⊢
  dsimp only [T_pools, T_tip906, T_height, T_coins] at h ⊢
  split at h
  · cases h
  · next pool hpool =>
    split at h
    · next hgt =>
      simp only [if_pos hgt]
      cases h
      exact ⟨c, rfl, e⟩
    · next hgt =>
      simp only [if_neg hgt]
      split at h
      · cases h
      · cases h
      · next pool' tl tr hw =>
        obtain ⟨coins, hc, h2⟩ := Outcome.bind_eq_ok h
        cases h2
        obtain ⟨c', hc', e'⟩ := foldlM'_cong_self CoinExt _ (fun x y tx x' hr hx => by
          obtain ⟨vl, hvl, hx⟩ := Outcome.bind_eq_ok hx
          obtain ⟨vr, hvr, hx⟩ := Outcome.bind_eq_ok hx
          cases hx
          rw [hvl]
          simp only [Outcome.bind]
          rw [hvr]
          exact ⟨_, rfl, insertCoin_ext (insertCoin_ext hr _ _ _) _ _ _⟩) reqs a.coins c coins e hc
        exact ⟨c', bind_ok_of hc' rfl, e'⟩

/-! ### which transactions are pool requests depends on the coins only as a map -/

theorem isSwapRequest_T (a : State) (c : CoinMap) (k : StakeSet) (e : CoinExt a.coins c) :
    isSwapRequest (T a c k) = isSwapRequest a := by
  funext tx
  unfold isSwapRequest
  simp only [T_coins, T_pools, ← e.coins]

theorem isDepositRequest_T (a : State) (c : CoinMap) (k : StakeSet) (e : CoinExt a.coins c) :
    isDepositRequest (T a c k) = isDepositRequest a := by
  funext tx
  unfold isDepositRequest
  simp only [T_coins, ← e.coins]

theorem isWithdrawRequest_T (env : Env) (a : State) (c : CoinMap) (k : StakeSet) (e : CoinExt a.coins c) :
    isWithdrawRequest env (T a c k) = isWithdrawRequest env a := by
  funext tx
  unfold isWithdrawRequest
  simp only [T_coins, T_pools, ← e.coins]

/-- the relation the settlement folds keep: the same state up to a coin map with the same content (and the fixed
    stake set `k`) -/
def Rel (k : StakeSet) (x y : State) : Prop := ∃ c, y = T x c k ∧ CoinExt x.coins c

theorem processSwaps_cong (a a' : State) (c : CoinMap) (k : StakeSet) (e : CoinExt a.coins c)
    (h : processSwaps a = .ok a') : ∃ c', processSwaps (T a c k) = .ok (T a' c' k) ∧ CoinExt a'.coins c' := by
  unfold processSwaps at h ⊢
  simp only [T_txs, isSwapRequest_T a c k e] at h ⊢
  obtain ⟨y, hy, c', rfl, e'⟩ := foldlM'_cong_self (Rel k) _ (fun x y kk x' hr hx => by
    obtain ⟨cx, rfl, ex⟩ := hr
    obtain ⟨c', hc', e'⟩ := processSwapsForPool_cong kk x x' _ cx k ex hx
    exact ⟨_, hc', c', rfl, e'⟩) _ a (T a c k) a' ⟨c, rfl, e⟩ h
  exact ⟨c', hy, e'⟩

theorem processDeposits_cong (env : Env) (a a' : State) (c : CoinMap) (k : StakeSet) (e : CoinExt a.coins c)
    (h : processDeposits env a = .ok a') :
    ∃ c', processDeposits env (T a c k) = .ok (T a' c' k) ∧ CoinExt a'.coins c' := by
  unfold processDeposits at h ⊢
  simp only [T_txs, isDepositRequest_T a c k e] at h ⊢
  obtain ⟨y, hy, c', rfl, e'⟩ := foldlM'_cong_self (Rel k) _ (fun x y kk x' hr hx => by
    obtain ⟨cx, rfl, ex⟩ := hr
    obtain ⟨c', hc', e'⟩ := processDepositsForPool_cong env kk x x' _ cx k ex hx
    exact ⟨_, hc', c', rfl, e'⟩) _ a (T a c k) a' ⟨c, rfl, e⟩ h
  exact ⟨c', hy, e'⟩

theorem processWithdrawals_cong (env : Env) (a a' : State) (c : CoinMap) (k : StakeSet) (e : CoinExt a.coins c)
    (h : processWithdrawals env a = .ok a') :
    ∃ c', processWithdrawals env (T a c k) = .ok (T a' c' k) ∧ CoinExt a'.coins c' := by
  unfold processWithdrawals at h ⊢
  simp only [T_txs, isWithdrawRequest_T env a c k e] at h ⊢
  obtain ⟨y, hy, c', rfl, e'⟩ := foldlM'_cong_self (Rel k) _ (fun x y kk x' hr hx => by
    obtain ⟨cx, rfl, ex⟩ := hr
    obtain ⟨c', hc', e'⟩ := processWithdrawalsForPool_cong kk x x' _ cx k ex hx
    exact ⟨_, hc', c', rfl, e'⟩) _ a (T a c k) a' ⟨c, rfl, e⟩ h
  exact ⟨c', hy, e'⟩

/-! ### the steps that do not look at the coins -/

theorem createBuiltins_T (a : State) (c : CoinMap) (k : StakeSet) :
    createBuiltins (T a c k) = T (createBuiltins a) c k := rfl

theorem processPegging_T (a a' : State) (c : CoinMap) (k : StakeSet) (h : processPegging a = .ok a') :
    processPegging (T a c k) = .ok (T a' c k) ∧ a'.coins = a.coins := by
  rw [processPegging_eq] at h ⊢
  have e1 : pegXsd (T a c k) = pegXsd a := rfl
  have e2 : pegGet (T a c k) poolMelSym = pegGet a poolMelSym := rfl
  rw [e1, e2]
  obtain ⟨⟨x, y⟩, h1, h⟩ := Outcome.bind_eq_ok h
  obtain ⟨sm, h2, h⟩ := Outcome.bind_eq_ok h
  rw [h1]
  simp only [Outcome.bind]
  rw [h2]
  simp only
  unfold pegTail at h ⊢
  dsimp only [T_tip902, T_height, T_pools] at h ⊢
  split at h
  · cases h
  · next hnum =>
    simp only [if_neg hnum]
    obtain ⟨sm1, h3, h⟩ := Outcome.bind_eq_ok h
    obtain ⟨sm2, h4, h⟩ := Outcome.bind_eq_ok h
    cases h
    exact ⟨bind_ok_of h3 (bind_ok_of h4 rfl), rfl⟩

theorem applyTip909_T (a a' : State) (c : CoinMap) (k : StakeSet) (h : applyTip909 a = .ok a') :
    applyTip909 (T a c k) = .ok (T a' c k) ∧ a'.coins = a.coins := by
  unfold applyTip909 at h ⊢
  dsimp (instances := true) only [T_tip909a, T_height, T_pools, T_feePool] at h ⊢
  split at h
  · cases h
  · next hdiv =>
    simp only [if_neg hdiv]
    split at h
    · cases h
    · next sm hsm =>
      obtain ⟨⟨sm', mel, x⟩, h1, h⟩ := Outcome.bind_eq_ok h
      dsimp only at h
      split at h
      · cases h
      · next hfee =>
        split at h
        · cases h
        · next es hes =>
          obtain ⟨⟨es', y, z⟩, h2, h⟩ := Outcome.bind_eq_ok h
          cases h
          refine ⟨bind_ok_of h1 ?_, rfl⟩
          dsimp only
          simp only [if_neg hfee]
          rw [hes]
          exact bind_ok_of h2 rfl

/-! ### Melmint, the proposer action, sealing -/

theorem presealMelmint_cong (env : Env) (a a' : State) (c : CoinMap) (k : StakeSet) (e : CoinExt a.coins c)
    (h : presealMelmint env a = .ok a') :
    ∃ c', presealMelmint env (T a c k) = .ok (T a' c' k) ∧ CoinExt a'.coins c' := by
  unfold presealMelmint at h ⊢
  rw [createBuiltins_T]
  dsimp (instances := true) only [T_pools] at h ⊢
  split at h
  · cases h
  · next hlen =>
    simp only [if_neg hlen]
    obtain ⟨s1, h1, h⟩ := Outcome.bind_eq_ok h
    obtain ⟨s2, h2, h⟩ := Outcome.bind_eq_ok h
    obtain ⟨s3, h3, h⟩ := Outcome.bind_eq_ok h
    obtain ⟨c1, g1, e1⟩ := processSwaps_cong (createBuiltins a) s1 c k e h1
    obtain ⟨c2, g2, e2⟩ := processDeposits_cong env s1 s2 c1 k e1 h2
    obtain ⟨c3, g3, e3⟩ := processWithdrawals_cong env s2 s3 c2 k e2 h3
    obtain ⟨g4, e4⟩ := processPegging_T (createBuiltins s3) a' c3 k h
    refine ⟨c3, bind_ok_of g1 (bind_ok_of g2 (bind_ok_of g3 ?_)), ?_⟩
    · rw [createBuiltins_T]; exact g4
    · rw [e4]; exact e3

theorem collectProposerFee_cong (env : Env) (a a' : State) (act : ProposerAction) (c : CoinMap) (k : StakeSet)
    (e : CoinExt a.coins c) (h : collectProposerFee env a act = .ok a') :
    ∃ c', collectProposerFee env (T a c k) act = .ok (T a' c' k) ∧ CoinExt a'.coins c' := by
  unfold collectProposerFee at h ⊢
  dsimp (instances := true) only [T_feePool, T_tips, T_height, T_tip906, T_coins] at h ⊢
  split at h
  · cases h
  · next hv =>
    simp only [if_neg hv]
    cases h
    exact ⟨_, rfl, insertCoin_ext e _ _ _⟩

theorem applyProposerAction_cong (env : Env) (a a' : State) (act : ProposerAction) (c : CoinMap) (k : StakeSet)
    (e : CoinExt a.coins c) (h : applyProposerAction env a act = .ok a') :
    ∃ c', applyProposerAction env (T a c k) act = .ok (T a' c' k) ∧ CoinExt a'.coins c' := by
  unfold applyProposerAction at h ⊢
  exact collectProposerFee_cong env
    { a with feeMultiplier := moveFeeMultiplier a.feeMultiplier act.feeMultiplierDelta a.tip901 } a' act c k e h

/-- **sealing respects the equivalence**: sealing the same state with another coin map of the same content (and any
    stake set: sealing neither reads nor writes it) succeeds as well, with the same action, and the result is again
    the same state up to a coin map of the same content -/
theorem sealState_T (env : Env) (a : State) (act : Option ProposerAction) (sa : Sealed) (c : CoinMap) (k : StakeSet)
    (e : CoinExt a.coins c) (h : sealState env a act = .ok sa) :
    ∃ c', sealState env (T a c k) act = .ok { st := T sa.st c' k, action := sa.action } ∧
      CoinExt sa.st.coins c' := by
  unfold sealState at h ⊢
  obtain ⟨s1, h1, h⟩ := Outcome.bind_eq_ok h
  obtain ⟨c1, g1, e1⟩ := presealMelmint_cong env a s1 c k e h1
  rw [g1]
  dsimp (instances := true) only [Outcome.bind, T_pools, T_tip909] at h ⊢
  split at h
  · cases h
  · next hlen =>
    simp only [if_neg hlen]
    obtain ⟨s2, h2, h⟩ := Outcome.bind_eq_ok h
    have hs2 : ∃ c2, (if s1.tip909 = true then applyTip909 (T s1 c1 k) else .ok (T s1 c1 k)) = .ok (T s2 c2 k) ∧
        CoinExt s2.coins c2 := by
      split at h2
      · next h9 =>
        rw [if_pos h9]
        obtain ⟨g, ec⟩ := applyTip909_T s1 s2 c1 k h2
        exact ⟨c1, g, by rw [ec]; exact e1⟩
      · next h9 =>
        rw [if_neg h9]
        cases h2
        exact ⟨c1, rfl, e1⟩
    obtain ⟨c2, g2, e2⟩ := hs2
    cases act with
    | none =>
      simp only at h ⊢
      cases h
      exact ⟨c2, bind_ok_of g2 rfl, e2⟩
    | some act =>
      simp only at h ⊢
      obtain ⟨s3, h3, h⟩ := Outcome.bind_eq_ok h
      cases h
      obtain ⟨c3, g3, e3⟩ := applyProposerAction_cong env s2 s3 act c2 k e2 h3
      exact ⟨c3, bind_ok_of g2 (bind_ok_of g3 rfl), e3⟩

/-- the same, between equivalent states -/
theorem sealState_cong (env : Env) (a b : State) (act : Option ProposerAction) (sa : Sealed)
    (e : BatchEquiv a b) (h : sealState env a act = .ok sa) :
    ∃ sb, sealState env b act = .ok sb ∧ sb.action = sa.action ∧ BatchEquiv sa.st sb.st := by
  obtain ⟨c', hc', e'⟩ := sealState_T env a act sa b.coins b.stakes ⟨e.coins, e.counts⟩ h
  rw [← equiv_form e] at hc'
  refine ⟨_, hc', rfl, ?_⟩
  have hst : sa.st.stakes = a.stakes := sealState_sameSt env a act sa h
  exact {
    coins := e'.coins
    counts := e'.counts
    stakes := fun x => by show sa.st.stakes.getStake x = b.stakes.getStake x; rw [hst]; exact e.stakes x
    txs := rfl, feePool := rfl, tips := rfl, feeMultiplier := rfl, doscSpeed := rfl, pools := rfl,
    history := rfl, height := rfl, network := rfl }

/-! ### headers -/

/-- the header of a sealed state depends on the coin map and the stake set only through their roots -/
theorem headerOf_T (env : Env) (s : State) (act act' : Option ProposerAction) (c : CoinMap) (k : StakeSet)
    (hc : env.coinsRoot c = env.coinsRoot s.coins) (hk : env.stakesRoot k = env.stakesRoot s.stakes) :
    headerOf env { st := T s c k, action := act' } = headerOf env { st := s, action := act } := by
  unfold headerOf
  dsimp (instances := true) only [T_coins, T_stakes, T_pools, T_height, T_network, T_txs, T_feePool,
    T_feeMultiplier, T_history, T_doscSpeed, T_tip908]
  rw [hc, hk]

/-- … hence equivalent sealed states have the same header when the roots of coin maps (stake sets) with the same
    content agree -/
theorem headerOf_equiv (env : Env) (sa sb : Sealed) (e : BatchEquiv sa.st sb.st)
    (hc : env.coinsRoot sb.st.coins = env.coinsRoot sa.st.coins)
    (hk : env.stakesRoot sb.st.stakes = env.stakesRoot sa.st.stakes) : headerOf env sb = headerOf env sa := by
  obtain ⟨stb, actb⟩ := sb
  obtain ⟨sta, acta⟩ := sa
  have := equiv_form e
  simp only at this hc hk
  rw [this]
  exact headerOf_T env sta acta actb stb.coins stb.stakes hc hk

end SealCongL
end Mel
