/- helper lemmas for the executor laws (C10) -/
import MelModel.VM.Exec
import MelModel.Lemmas.Codec
namespace Mel.VM
open Mel

/-! ## `expLoop`: square-and-multiply with a bit budget -/

theorem expLoop_value_aux (M : Nat) (res b e : Nat) :
    (if e % 2 = 1 then res * b % M else res) * (b * b % M) ^ (e / 2) % M = res * b ^ e % M := by
  have he : b ^ e = (b * b) ^ (e / 2) * b ^ (e % 2) := by
    conv => lhs; rw [← Nat.div_add_mod e 2]
    rw [Nat.pow_add, Nat.pow_mul, Nat.pow_two]
  have hp : (b * b % M) ^ (e / 2) % M = (b * b) ^ (e / 2) % M := (Nat.pow_mod ..).symm
  rw [Nat.mul_mod, hp, he]
  rcases Nat.mod_two_eq_zero_or_one e with h | h
  · simp only [h, Nat.zero_ne_one, if_false, Nat.pow_zero, Nat.mul_one]
    rw [← Nat.mul_mod]
  · simp only [h, if_true, Nat.pow_one, Nat.mod_mod]
    rw [← Nat.mul_mod, Nat.mul_assoc, Nat.mul_comm b]

/-- the invariant of the squaring loop: with enough fuel for the bits of `e`, the loop succeeds
    exactly when `e` fits in the `k`-bit budget, and then returns `res * b^e mod 2^256` -/
theorem expLoop_eq : ∀ (f e b res k : Nat), e < 2 ^ f → res < U256_MOD →
    expLoop (f + 1) e b res k = if e < 2 ^ k then some (res * b ^ e % U256_MOD) else none := by
  intro f
  induction f with
  | zero =>
    intro e b res k he hres
    have : e = 0 := by simpa using he
    subst this
    simp [expLoop, Nat.pow_pos, Nat.mod_eq_of_lt hres]
  | succ f ih =>
    intro e b res k he hres
    rw [expLoop]
    by_cases h0 : e = 0
    · subst h0
      simp [Nat.pow_pos, Nat.mod_eq_of_lt hres]
    · rw [if_neg h0]
      cases k with
      | zero =>
        have : ¬ e < 2 ^ 0 := by simp; omega
        simp [this]
      | succ k =>
        have hk : ¬ (k + 1 = 0) := by omega
        rw [if_neg hk, Nat.add_sub_cancel]
        have he2 : e / 2 < 2 ^ f := by rw [Nat.pow_succ] at he; omega
        have hres' : (if e % 2 = 1 then res * b % U256_MOD else res) < U256_MOD := by
          split
          · exact Nat.mod_lt _ (by unfold U256_MOD; exact Nat.pow_pos (by omega))
          · exact hres
        rw [ih _ _ _ _ he2 hres', expLoop_value_aux]
        have hiff : e / 2 < 2 ^ k ↔ e < 2 ^ (k + 1) := by rw [Nat.pow_succ]; omega
        simp only [hiff]

theorem ofNat_mod_U256 (x : Nat) : BitVec.ofNat 256 (x % U256_MOD) = BitVec.ofNat 256 x := by
  apply BitVec.eq_of_toNat_eq
  simp only [BitVec.toNat_ofNat, U256_MOD, Nat.mod_mod]

theorem mod_u32_mod_256 (x : Nat) : x % 4294967296 % 256 = x % 256 :=
  Nat.mod_mod_of_dvd _ (by decide)

/-! ## lists -/

theorem listSet_eq {α} : ∀ (l : List α) (i : Nat) (v : α),
    listSet l i v = if i < l.length then some (l.set i v) else none
  | [], i, v => by simp [listSet]
  | x :: xs, 0, v => by simp [listSet]
  | x :: xs, i + 1, v => by
    rw [listSet, listSet_eq xs i v]
    by_cases h : i < xs.length <;> simp [h]

/-- the `k`-th element of `slice l b e` is `l[b + k]`, for `k < e - b` -/
theorem slice_getElem? {α} (l : List α) (b e k : Nat) :
    (slice l b e)[k]? = if k < e - b then l[b + k]? else none := by
  unfold slice
  rw [List.getElem?_take]
  split
  · rw [List.getElem?_drop]
  · rfl

theorem slice_length {α} (l : List α) (b e : Nat) (he : e ≤ l.length) :
    (slice l b e).length = e - b := by
  unfold slice
  rw [List.length_take, List.length_drop]
  omega

/-- byte `i` of the `n`-byte big-endian form is digit `n - 1 - i` in base 256 -/
theorem toBE_getElem? : ∀ (n v i : Nat), i < n →
    (toBE n v)[i]? = some (UInt8.ofNat (v / 256 ^ (n - 1 - i) % 256))
  | 0, _, _, h => by omega
  | n + 1, v, i, h => by
    rw [toBE]
    by_cases hi : i < n
    · rw [List.getElem?_append_left (by simpa using hi), toBE_getElem? n (v / 256) i hi,
        Nat.div_div_eq_div_mul, ← Nat.pow_succ']
      have : (n - 1 - i).succ = n + 1 - 1 - i := by omega
      rw [this]
    · have : i = n := by omega
      subst this
      rw [List.getElem?_append_right (by simp)]
      simp

/-! ## definitions used by the loop law (C10_loop_exact) -/

/-- straight-line instructions: everything except `loop`/`jmp`/`bez`/`bnz` -/
def Op.isStraight : Op → Bool
  | .loop _ _ | .jmp _ | .bez _ | .bnz _ => false
  | _ => true

/-- `k` machine steps -/
def stepN (o : Oracles) (ops : List Op) : Nat → Exec → Option Exec
  | 0, st => some st
  | k + 1, st => (step o ops st).bind (stepN o ops k)

/-- the effect of a block of instructions on (stack, heap): left fold of `execOp`, ignoring the pc -/
def straight (o : Oracles) : List Op → List Value × Heap → Option (List Value × Heap)
  | [], sh => some sh
  | op :: B, sh =>
    (execOp o op { stack := sh.1, heap := sh.2, pc := 0, loops := [] }).bind fun st' =>
      straight o B (st'.stack, st'.heap)

/-- `k`-fold iteration of a partial function -/
def iter {α} (f : α → Option α) : Nat → α → Option α
  | 0, a => some a
  | k + 1, a => (f a).bind (iter f k)

/-! ## straight-line code -/

theorem bind_ok_frame (x : Option (List Value)) (st : Exec) :
    (x.bind fun s => some { st with stack := s, pc := st.pc + 1 }) =
      (x.bind fun s =>
        some ({ stack := s, heap := st.heap, pc := 0 + 1, loops := [] } : Exec)).map fun st' =>
          { stack := st'.stack, heap := st'.heap, pc := st.pc + 1, loops := st.loops } := by
  cases x <;> rfl

/-- a straight-line instruction acts on (stack, heap) only, adds 1 to the pc and keeps the loops -/
theorem execOp_straight (o : Oracles) (op : Op) (st : Exec) (h : op.isStraight = true) :
    execOp o op st =
      (execOp o op { stack := st.stack, heap := st.heap, pc := 0, loops := [] }).map fun st' =>
        { stack := st'.stack, heap := st'.heap, pc := st.pc + 1, loops := st.loops } := by
  cases op <;> simp [Op.isStraight] at h <;> simp only [execOp] <;>
    first
      | exact bind_ok_frame _ st
      | rfl
      | skip
  case loadimm i => cases st.heap.get i.toNat <;> rfl
  case store =>
    split
    · rename_i x y r _
      cases x.intoU16 <;> rfl
    · rfl
  case load =>
    split
    · rename_i x r _
      generalize (x.intoU16.bind fun addr => st.heap.get addr) = q
      cases q <;> rfl
    · rfl
  case storeimm i => split <;> rfl
  case dup => split <;> rfl

theorem getElem?_of_drop {α} {l : List α} {p : Nat} {x : α} {r : List α}
    (h : l.drop p = x :: r) : l[p]? = some x := by
  have : (l.drop p)[0]? = l[p + 0]? := List.getElem?_drop
  rw [h] at this
  simpa using this.symm

theorem drop_succ_of_drop {α} {l : List α} {p : Nat} {x : α} {r : List α}
    (h : l.drop p = x :: r) : l.drop (p + 1) = r := by
  rw [List.drop_add_one_eq_tail_drop, h]; rfl

theorem step_straight (o : Oracles) (ops : List Op) (st : Exec) (op : Op)
    (hop : ops[st.pc]? = some op) (hs : op.isStraight = true) :
    step o ops st =
      (execOp o op { stack := st.stack, heap := st.heap, pc := 0, loops := [] }).map fun st' =>
        { stack := st'.stack, heap := st'.heap,
          pc := (updatePc (st.pc + 1) st.loops).1, loops := (updatePc (st.pc + 1) st.loops).2 } := by
  unfold step
  rw [hop]
  simp only
  rw [execOp_straight o op st hs]
  cases execOp o op { stack := st.stack, heap := st.heap, pc := 0, loops := [] } <;> rfl

/-! ## counted loops -/

theorem stepN_add (o : Oracles) (ops : List Op) : ∀ (a b : Nat) (st : Exec),
    stepN o ops (a + b) st = (stepN o ops a st).bind (stepN o ops b)
  | 0, b, st => by simp [stepN]
  | a + 1, b, st => by
    rw [Nat.add_right_comm, stepN, stepN]
    cases step o ops st with
    | none => rfl
    | some st' => simp only [Option.bind_some]; exact stepN_add o ops a b st'

theorem stepN_one (o : Oracles) (ops : List Op) (st : Exec) :
    stepN o ops 1 st = step o ops st := by
  simp [stepN]

theorem step_some_pc_lt {o : Oracles} {ops : List Op} {st st' : Exec}
    (h : step o ops st = some st') : st.pc < ops.length := by
  unfold step at h
  split at h
  · simp at h
  · rename_i op hop
    have := List.getElem?_eq_some_iff.mp hop
    exact this.1

/-- `k` successful steps consume exactly `k` units of fuel and count `k` steps -/
theorem runFuel_of_stepN (o : Oracles) (ops : List Op) : ∀ (k f : Nat) (st st' : Exec) (m : Nat),
    stepN o ops k st = some st' → runFuel o ops (k + f) st m = runFuel o ops f st' (m + k)
  | 0, f, st, st', m, h => by
    simp only [stepN, Option.some.injEq] at h
    subst h
    simp
  | k + 1, f, st, st', m, h => by
    rw [stepN] at h
    cases hs : step o ops st with
    | none => rw [hs] at h; simp at h
    | some st1 =>
      rw [hs] at h
      simp only [Option.bind_some] at h
      have hpc := step_some_pc_lt hs
      rw [Nat.add_right_comm, runFuel, if_pos hpc, hs]
      simp only
      rw [runFuel_of_stepN o ops k f st1 st' (m + 1) h, Nat.add_assoc, Nat.add_comm 1 k]

/-- the state after the last instruction of a loop body -/
def loopWrap (L : LoopState) (sh : List Value × Heap) : Exec :=
  if L.left > 0
  then { stack := sh.1, heap := sh.2, pc := L.begin_, loops := [{ L with left := L.left - 1 }] }
  else { stack := sh.1, heap := sh.2, pc := L.end_ + 1, loops := [] }

theorem updatePc_last (L : LoopState) (pc : Nat) (h : L.end_ + 1 = pc) :
    updatePc pc [L] =
      if L.left > 0 then (L.begin_, [{ L with left := L.left - 1 }]) else (pc, []) := by
  have h1 : pc > L.end_ := by omega
  have h2 : pc - L.end_ = 1 := by omega
  simp only [updatePc, h1, h2, if_true, and_true]

theorem updatePc_inside (L : LoopState) (pc : Nat) (h : pc ≤ L.end_) :
    updatePc pc [L] = (pc, [L]) := by
  have h1 : ¬ pc > L.end_ := by omega
  simp only [updatePc, h1, if_false]

/-- running the rest `B2` of a loop body (innermost and only loop `L`, whose last instruction is
    the last of `B2`) takes `B2.length` steps and ends in `loopWrap` -/
theorem body_stepN (o : Oracles) (ops : List Op) (L : LoopState) :
    ∀ (B2 : List Op) (st : Exec) (post : List Op),
      B2 ≠ [] → (∀ op ∈ B2, op.isStraight = true) → ops.drop st.pc = B2 ++ post →
      st.loops = [L] → L.end_ + 1 = st.pc + B2.length →
      stepN o ops B2.length st = (straight o B2 (st.stack, st.heap)).map (loopWrap L)
  | [], _, _, h, _, _, _, _ => absurd rfl h
  | op :: rest, st, post, _, hS, hdrop, hl, hend => by
    have hop : ops[st.pc]? = some op := getElem?_of_drop hdrop
    have hs : op.isStraight = true := hS op (by simp)
    rw [List.length_cons, stepN, step_straight o ops st op hop hs, straight]
    cases hexec : execOp o op { stack := st.stack, heap := st.heap, pc := 0, loops := [] } with
    | none => rfl
    | some st' =>
      simp only [Option.map_some, Option.bind_some]
      cases rest with
      | nil =>
        simp only [List.length_nil, stepN, straight, Option.map_some, Option.some.injEq]
        rw [hl, updatePc_last L (st.pc + 1) (by simpa using hend)]
        unfold loopWrap
        split
        · rfl
        · simp only [hend, List.length_cons, List.length_nil]
      | cons op2 rest' =>
        have hin : st.pc + 1 ≤ L.end_ := by
          simp only [List.length_cons] at hend; omega
        rw [hl, updatePc_inside L (st.pc + 1) hin]
        exact body_stepN o ops L (op2 :: rest')
          { stack := st'.stack, heap := st'.heap, pc := st.pc + 1, loops := [L] } post
          (by simp) (fun op' h' => hS op' (List.mem_cons_of_mem _ h'))
          (drop_succ_of_drop hdrop) rfl
          (by simp only [List.length_cons] at hend ⊢; omega)

/-- … and if the block fails, the run fails -/
theorem body_fail_run (o : Oracles) (ops : List Op) (L : LoopState) :
    ∀ (B2 : List Op) (st : Exec) (post : List Op) (f m : Nat),
      (∀ op ∈ B2, op.isStraight = true) → ops.drop st.pc = B2 ++ post →
      st.loops = [L] → L.end_ + 1 = st.pc + B2.length →
      straight o B2 (st.stack, st.heap) = none →
      (runFuel o ops (B2.length + f) st m).1 = none
  | [], _, _, _, _, _, _, _, _, h => by simp [straight] at h
  | op :: rest, st, post, f, m, hS, hdrop, hl, hend, hnone => by
    have hop : ops[st.pc]? = some op := getElem?_of_drop hdrop
    have hs : op.isStraight = true := hS op (by simp)
    have hpc : st.pc < ops.length := (List.getElem?_eq_some_iff.mp hop).1
    rw [List.length_cons, Nat.add_right_comm, runFuel, if_pos hpc,
      step_straight o ops st op hop hs]
    rw [straight] at hnone
    cases hexec : execOp o op { stack := st.stack, heap := st.heap, pc := 0, loops := [] } with
    | none => rfl
    | some st' =>
      rw [hexec] at hnone
      simp only [Option.bind_some] at hnone
      simp only [Option.map_some]
      cases rest with
      | nil => simp [straight] at hnone
      | cons op2 rest' =>
        have hin : st.pc + 1 ≤ L.end_ := by
          simp only [List.length_cons] at hend; omega
        rw [hl, updatePc_inside L (st.pc + 1) hin]
        exact body_fail_run o ops L (op2 :: rest')
          { stack := st'.stack, heap := st'.heap, pc := st.pc + 1, loops := [L] } post f (m + 1)
          (fun op' h' => hS op' (List.mem_cons_of_mem _ h'))
          (drop_succ_of_drop hdrop) rfl
          (by simp only [List.length_cons] at hend ⊢; omega) hnone

/-- all iterations of a loop whose body `B` starts at `p0`, from the start of an iteration with
    `m` more iterations to go after the current one -/
theorem loop_iter_stepN (o : Oracles) (ops B post : List Op) (p0 : Nat) (hB : B ≠ [])
    (hS : ∀ op ∈ B, op.isStraight = true) (hdrop : ops.drop p0 = B ++ post) :
    ∀ (m : Nat) (st : Exec), st.pc = p0 →
      st.loops = [{ begin_ := p0, end_ := p0 + B.length - 1, left := m }] →
      stepN o ops ((m + 1) * B.length) st =
        (iter (straight o B) (m + 1) (st.stack, st.heap)).map fun sh =>
          { stack := sh.1, heap := sh.2, pc := p0 + B.length, loops := [] } := by
  have hlen : 0 < B.length := List.length_pos_iff.mpr hB
  intro m
  induction m with
  | zero =>
    intro st hpc hl
    have hb := body_stepN o ops _ B st post hB hS (by rw [hpc]; exact hdrop) hl
      (by simp only [hpc]; omega)
    rw [Nat.zero_add, Nat.one_mul, hb, iter]
    cases straight o B (st.stack, st.heap) with
    | none => rfl
    | some sh =>
      simp only [Option.map_some, Option.bind_some, iter, loopWrap]
      have : p0 + B.length - 1 + 1 = p0 + B.length := by omega
      simp [this]
  | succ m ih =>
    intro st hpc hl
    have hb := body_stepN o ops _ B st post hB hS (by rw [hpc]; exact hdrop) hl
      (by simp only [hpc]; omega)
    have e : (m + 1 + 1) * B.length = B.length + (m + 1) * B.length := by
      rw [Nat.succ_mul, Nat.add_comm]
    rw [e, stepN_add, hb, iter]
    cases straight o B (st.stack, st.heap) with
    | none => rfl
    | some sh =>
      simp only [Option.map_some, Option.bind_some, loopWrap]
      rw [if_pos (by simp)]
      exact ih _ rfl rfl

theorem loop_iter_fail_run (o : Oracles) (ops B post : List Op) (p0 : Nat) (hB : B ≠ [])
    (hS : ∀ op ∈ B, op.isStraight = true) (hdrop : ops.drop p0 = B ++ post) :
    ∀ (m : Nat) (st : Exec) (f k : Nat), st.pc = p0 →
      st.loops = [{ begin_ := p0, end_ := p0 + B.length - 1, left := m }] →
      iter (straight o B) (m + 1) (st.stack, st.heap) = none →
      (runFuel o ops ((m + 1) * B.length + f) st k).1 = none := by
  have hlen : 0 < B.length := List.length_pos_iff.mpr hB
  intro m
  induction m with
  | zero =>
    intro st f k hpc hl hnone
    rw [Nat.zero_add, Nat.one_mul]
    apply body_fail_run o ops _ B st post f k hS (by rw [hpc]; exact hdrop) hl
      (by simp only [hpc]; omega)
    rw [iter] at hnone
    cases hb : straight o B (st.stack, st.heap) with
    | none => rfl
    | some sh => rw [hb] at hnone; simp [iter] at hnone
  | succ m ih =>
    intro st f k hpc hl hnone
    have e : (m + 1 + 1) * B.length + f = B.length + ((m + 1) * B.length + f) := by
      rw [Nat.succ_mul]; omega
    rw [e]
    rw [iter] at hnone
    cases hb : straight o B (st.stack, st.heap) with
    | none =>
      exact body_fail_run o ops _ B st post _ k hS (by rw [hpc]; exact hdrop) hl
        (by simp only [hpc]; omega) hb
    | some sh =>
      rw [hb] at hnone
      simp only [Option.bind_some] at hnone
      have hstep := body_stepN o ops _ B st post hB hS (by rw [hpc]; exact hdrop) hl
        (by simp only [hpc]; omega)
      rw [hb] at hstep
      simp only [Option.map_some, loopWrap] at hstep
      rw [if_pos (by simp)] at hstep
      rw [runFuel_of_stepN o ops _ _ st _ k hstep]
      exact ih _ _ _ rfl rfl hnone

/-- the first step: entering (or skipping) the loop -/
theorem step_loop_head (o : Oracles) (pre B post : List Op) (it nn : UInt16) (st : Exec)
    (hn : nn.toNat = B.length) (hB : B ≠ []) (hpc : st.pc = pre.length) (hl : st.loops = []) :
    step o (pre ++ [Op.loop it nn] ++ B ++ post) st =
      some (if it.toNat = 0
        then { st with pc := pre.length + 1 + B.length }
        else { st with pc := pre.length + 1,
                       loops := [{ begin_ := pre.length + 1,
                                   end_ := pre.length + 1 + B.length - 1,
                                   left := it.toNat - 1 }] }) := by
  have hlen : 0 < B.length := List.length_pos_iff.mpr hB
  have hop : (pre ++ [Op.loop it nn] ++ B ++ post)[st.pc]? = some (Op.loop it nn) := by
    rw [hpc]; simp
  unfold step
  rw [hop]
  by_cases hit : it.toNat = 0
  · simp [execOp, hit, hl, hpc, hn, updatePc]
  · have hit' : it.toNat > 0 := by omega
    simp [execOp, hit, hit', hl, hpc, hn, updatePc, hB]

theorem drop_loop_body (pre B post : List Op) (op : Op) :
    (pre ++ [op] ++ B ++ post).drop (pre.length + 1) = B ++ post := by
  have : pre ++ [op] ++ B ++ post = (pre ++ [op]) ++ (B ++ post) := by simp
  rw [this, List.drop_append_of_le_length (by simp)]
  simp

/-- the counted-loop law as one equation (success and failure) -/
theorem loop_exact_eq (o : Oracles) (pre B post : List Op) (it nn : UInt16) (st : Exec)
    (hn : nn.toNat = B.length) (hB : B ≠ []) (hS : ∀ op ∈ B, op.isStraight = true)
    (hpc : st.pc = pre.length) (hl : st.loops = []) :
    stepN o (pre ++ [Op.loop it nn] ++ B ++ post) (1 + it.toNat * B.length) st =
      (iter (straight o B) it.toNat (st.stack, st.heap)).map fun sh =>
        { stack := sh.1, heap := sh.2, pc := pre.length + 1 + B.length, loops := [] } := by
  rw [stepN_add, stepN_one, step_loop_head o pre B post it nn st hn hB hpc hl]
  simp only [Option.bind_some]
  by_cases hit : it.toNat = 0
  · simp [hit, stepN, iter, hl]
  · rw [if_neg hit]
    have e : it.toNat = (it.toNat - 1) + 1 := by omega
    rw [e]
    exact loop_iter_stepN o _ B post (pre.length + 1) hB hS (drop_loop_body pre B post _)
      (it.toNat - 1) _ rfl (by simp)

theorem loop_fail_run (o : Oracles) (pre B post : List Op) (it nn : UInt16) (st : Exec)
    (hn : nn.toNat = B.length) (hB : B ≠ []) (hS : ∀ op ∈ B, op.isStraight = true)
    (hpc : st.pc = pre.length) (hl : st.loops = []) (f k : Nat)
    (hnone : iter (straight o B) it.toNat (st.stack, st.heap) = none) :
    (runFuel o (pre ++ [Op.loop it nn] ++ B ++ post) (1 + it.toNat * B.length + f) st k).1
      = none := by
  have hstep := stepN_one o (pre ++ [Op.loop it nn] ++ B ++ post) st
  rw [step_loop_head o pre B post it nn st hn hB hpc hl] at hstep
  by_cases hit : it.toNat = 0
  · rw [hit] at hnone; simp [iter] at hnone
  · rw [if_neg hit] at hstep
    rw [Nat.add_assoc, runFuel_of_stepN o _ 1 _ st _ k hstep]
    have e : it.toNat = (it.toNat - 1) + 1 := by omega
    rw [e] at hnone ⊢
    exact loop_iter_fail_run o _ B post (pre.length + 1) hB hS (drop_loop_body pre B post _)
      (it.toNat - 1) _ f _ rfl (by simp) hnone

/-! ## a loop whose stated body is longer than what remains of the program -/

/-- a straight-line block inside the only active loop `L`, not reaching past `L.end_`:
    plain sequential execution, the loop frame is untouched -/
theorem inside_stepN (o : Oracles) (ops : List Op) (L : LoopState) :
    ∀ (B2 : List Op) (st : Exec) (post : List Op),
      (∀ op ∈ B2, op.isStraight = true) → ops.drop st.pc = B2 ++ post →
      st.loops = [L] → st.pc + B2.length ≤ L.end_ →
      stepN o ops B2.length st =
        (straight o B2 (st.stack, st.heap)).map fun sh =>
          { stack := sh.1, heap := sh.2, pc := st.pc + B2.length, loops := [L] }
  | [], st, _, _, _, hl, _ => by
    cases st
    simp only at hl
    subst hl
    rfl
  | op :: rest, st, post, hS, hdrop, hl, hend => by
    have hop : ops[st.pc]? = some op := getElem?_of_drop hdrop
    have hs : op.isStraight = true := hS op (by simp)
    have hin : st.pc + 1 ≤ L.end_ := by simp only [List.length_cons] at hend; omega
    rw [List.length_cons, stepN, step_straight o ops st op hop hs, straight]
    cases hexec : execOp o op { stack := st.stack, heap := st.heap, pc := 0, loops := [] } with
    | none => rfl
    | some st' =>
      simp only [Option.map_some, Option.bind_some]
      rw [hl, updatePc_inside L (st.pc + 1) hin]
      have h := inside_stepN o ops L rest
        { stack := st'.stack, heap := st'.heap, pc := st.pc + 1, loops := [L] } post
        (fun op' h' => hS op' (List.mem_cons_of_mem _ h')) (drop_succ_of_drop hdrop) rfl
        (by simp only [List.length_cons] at hend ⊢; omega)
      rw [h]
      have e : st.pc + 1 + rest.length = st.pc + (rest.length + 1) := by omega
      simp only [e]

/-- the same in terms of the result of `runFuel` (covers the failing block too) -/
theorem inside_run (o : Oracles) (ops : List Op) (L : LoopState) :
    ∀ (B2 : List Op) (st : Exec) (post : List Op) (f m : Nat),
      (∀ op ∈ B2, op.isStraight = true) → ops.drop st.pc = B2 ++ post →
      st.loops = [L] → st.pc + B2.length ≤ L.end_ →
      (runFuel o ops (B2.length + f) st m).1 =
        (straight o B2 (st.stack, st.heap)).bind fun sh =>
          (runFuel o ops f
            { stack := sh.1, heap := sh.2, pc := st.pc + B2.length, loops := [L] }
            (m + B2.length)).1
  | [], st, _, f, m, _, _, hl, _ => by
    cases st
    simp only at hl
    subst hl
    simp [straight]
  | op :: rest, st, post, f, m, hS, hdrop, hl, hend => by
    have hop : ops[st.pc]? = some op := getElem?_of_drop hdrop
    have hs : op.isStraight = true := hS op (by simp)
    have hpc : st.pc < ops.length := (List.getElem?_eq_some_iff.mp hop).1
    have hin : st.pc + 1 ≤ L.end_ := by simp only [List.length_cons] at hend; omega
    rw [List.length_cons, Nat.add_right_comm, runFuel, if_pos hpc,
      step_straight o ops st op hop hs, straight]
    cases hexec : execOp o op { stack := st.stack, heap := st.heap, pc := 0, loops := [] } with
    | none => rfl
    | some st' =>
      simp only [Option.map_some, Option.bind_some]
      rw [hl, updatePc_inside L (st.pc + 1) hin]
      have h := inside_run o ops L rest
        { stack := st'.stack, heap := st'.heap, pc := st.pc + 1, loops := [L] } post f (m + 1)
        (fun op' h' => hS op' (List.mem_cons_of_mem _ h')) (drop_succ_of_drop hdrop) rfl
        (by simp only [List.length_cons] at hend ⊢; omega)
      rw [h]
      have e : st.pc + 1 + rest.length = st.pc + (rest.length + 1) := by omega
      have e2 : m + 1 + rest.length = m + (rest.length + 1) := by omega
      simp only [e, e2]

/-- entering a loop (outside any loop) whose stated body length `nn ≥ 1` is arbitrary -/
theorem step_loop_head_any (o : Oracles) (pre rest : List Op) (it nn : UInt16) (st : Exec)
    (hit : it.toNat > 0) (hnn : nn.toNat > 0) (hpc : st.pc = pre.length) (hl : st.loops = []) :
    step o (pre ++ [Op.loop it nn] ++ rest) st =
      some { st with pc := pre.length + 1,
                     loops := [{ begin_ := pre.length + 1, end_ := pre.length + nn.toNat,
                                 left := it.toNat - 1 }] } := by
  have hop : (pre ++ [Op.loop it nn] ++ rest)[st.pc]? = some (Op.loop it nn) := by
    rw [hpc]; simp
  have e : pre.length + 1 + nn.toNat - 1 = pre.length + nn.toNat := by omega
  have h1 : ¬ pre.length + 1 > pre.length + nn.toNat := by omega
  unfold step
  rw [hop]
  simp [execOp, hit, hl, hpc, updatePc, e, h1]

theorem drop_loop_rest (pre rest : List Op) (op : Op) :
    (pre ++ [op] ++ rest).drop (pre.length + 1) = rest ++ [] := by
  rw [List.drop_append_of_le_length (by simp)]
  simp

end Mel.VM
