/-
  Helper lemmas for Props/C16Hist.lean.
-/
import MelModel.Seal
import MelModel.SupplyDefs
import MelModel.Lemmas.Supply
import MelModel.Lemmas.SupplySeal
import MelModel.Lemmas.Pools
namespace Mel
namespace BackL
open Mel.Gen Mel.BatchL Mel.SupplySealL

/-- the liquidity recorded by pool `k` (0 when the pool does not exist) -/
def liqsAt (pools : AList PoolKey PoolState) (k : PoolKey) : Nat := ((pools.get k).map (·.liqs)).getD 0

theorem liqsAt_some {pools : AList PoolKey PoolState} {k : PoolKey} {p : PoolState} (h : pools.get k = some p) :
    liqsAt pools k = p.liqs := by simp [liqsAt, h]

theorem liqsAt_none {pools : AList PoolKey PoolState} {k : PoolKey} (h : pools.get k = none) :
    liqsAt pools k = 0 := by simp [liqsAt, h]

theorem liqsAt_set_self (pools : AList PoolKey PoolState) (k : PoolKey) (p : PoolState) :
    liqsAt (pools.set k p) k = p.liqs := liqsAt_some (AList.get_set_self _ _ _)

theorem liqsAt_set_ne (pools : AList PoolKey PoolState) {k k' : PoolKey} (p : PoolState) (h : k ≠ k') :
    liqsAt (pools.set k' p) k = liqsAt pools k := by
  unfold liqsAt
  rw [AList.get_set_ne _ _ h]

/-- the supply of a custom denomination has no fee-pool part -/
theorem supply_custom (s : State) (h : Hash) :
    supply s (.custom h) = coinsTotal s.coins (.custom h) + poolsTotal s.pools (.custom h) := by
  simp [supply]

theorem supply_liq (env : Env) (s : State) (k : PoolKey) :
    supply s (liqTokenDenom env k) = cp s (liqTokenDenom env k) := supply_custom s _

/-! ### the batch -/

theorem applyBatch_pools {env : Env} {s s' : State} {txs : List Tx} {fb : Header}
    (h : applyBatch env s txs fb = .ok s') : s'.pools = s.pools := by
  obtain ⟨rel, newStakes, next, h1, _, h4, _, e2, _, _⟩ := applyBatch_ok_full h
  obtain ⟨-, hnd, -, -, -⟩ := loadRelevantCoins_ok h1
  rw [createNextState_eq] at h4
  have hinv := RInv_insFold s.tip906 h1 (txs.flatMap (·.inputs))
  obtain ⟨_, n2, _⟩ := nextFold_tot env s.tip906 rel .mel txs _ next h4 hnd hinv
  rw [e2, n2]

/-! ### builtin pools hold no custom denomination -/

theorem pc_builtin (h : Hash) (k : PoolKey) (hk : k ∈ [poolMelSym, poolMelErg, poolErgSym]) (p : PoolState) :
    pc (.custom h) (k, p) = 0 := by
  simp only [List.mem_cons, List.not_mem_nil, or_false] at hk
  rcases hk with rfl | rfl | rfl
  · simp [pc, poolMelSym_eq]
  · simp [pc, poolMelErg_eq]
  · simp [pc, poolErgSym_eq]

theorem poolsTotal_set_zero {pools : AList PoolKey PoolState} (hn : (pools.map (·.1)).Nodup) (d : Denom)
    (k : PoolKey) (p : PoolState) (hz : ∀ q, pc d (k, q) = 0) :
    poolsTotal (pools.set k p) d = poolsTotal pools d := by
  have h1 := poolsTotal_set hn d k p
  have h2 : AList.at? pools (pc d) k = 0 := by
    unfold AList.at?
    cases pools.get k with
    | none => rfl
    | some q => exact hz q
  rw [h2, hz p] at h1
  omega

/-- conditionally creating a pool that is absent or records no liquidity, under a key whose pools hold nothing
    of `d` -/
theorem setIf_back (pools : AList PoolKey PoolState) (c : Bool) (k : PoolKey) (p : PoolState) (d : Denom)
    (hn : (pools.map (·.1)).Nodup) (hc : c = true → liqsAt pools k = 0) (hz : ∀ q, pc d (k, q) = 0) :
    ((if c then pools.set k p else pools).map (·.1)).Nodup ∧
    poolsTotal (if c then pools.set k p else pools) d = poolsTotal pools d ∧
    ∀ k0, liqsAt pools k0 ≤ liqsAt (if c then pools.set k p else pools) k0 := by
  cases c with
  | false => exact ⟨hn, by simp, fun _ => Nat.le_refl _⟩
  | true =>
    simp only [if_true]
    refine ⟨pools_nodup_set hn k p, poolsTotal_set_zero hn d k p hz, ?_⟩
    intro k0
    by_cases e : k0 = k
    · subst e
      rw [hc rfl]
      exact Nat.zero_le _
    · rw [liqsAt_set_ne _ _ e]
      exact Nat.le_refl _

theorem createBuiltins_back (s : State) (h : Hash) (hk : (s.pools.map (·.1)).Nodup) :
    ((createBuiltins s).pools.map (·.1)).Nodup ∧
    poolsTotal (createBuiltins s).pools (.custom h) = poolsTotal s.pools (.custom h) ∧
    ∀ k0, liqsAt s.pools k0 ≤ liqsAt (createBuiltins s).pools k0 := by
  unfold createBuiltins
  simp only
  obtain ⟨n1, t1, l1⟩ := setIf_back s.pools (builtinMissing s.pools poolMelSym) poolMelSym builtinDefault
    (.custom h) hk (fun h => builtinMissing_true h) (pc_builtin h _ (by simp))
  generalize (if builtinMissing s.pools poolMelSym = true then s.pools.set poolMelSym builtinDefault
    else s.pools) = p1 at *
  obtain ⟨n2, t2, l2⟩ := setIf_back p1 (builtinMissing p1 poolMelErg) poolMelErg builtinDefault (.custom h) n1
    (fun h => builtinMissing_true h) (pc_builtin h _ (by simp))
  generalize (if builtinMissing p1 poolMelErg = true then p1.set poolMelErg builtinDefault else p1) = p2 at *
  obtain ⟨n3, t3, l3⟩ := setIf_back p2 (s.tip902 && builtinMissing p2 poolErgSym) poolErgSym builtinDefault
    (.custom h) n2
    (fun h => builtinMissing_true (by simp only [Bool.and_eq_true] at h; exact h.2))
    (pc_builtin h _ (by simp))
  refine ⟨n3, by omega, fun k0 => ?_⟩
  have := l1 k0; have := l2 k0; have := l3 k0
  omega

/-! ### replacing a builtin pool by one with the same recorded liquidity -/

theorem swapMany_liqs {p p' : PoolState} {l r lw rw : Nat} (h : p.swapMany l r = .ok (p', lw, rw)) :
    p'.liqs = p.liqs := by
  unfold PoolState.swapMany at h
  simp only at h
  split at h
  · cases h
  · split at h
    · cases h
    · split at h
      · cases h
      · split at h
        · cases h
        · split at h
          · cases h
          · cases h; rfl

theorem liqsAt_set_same {pools : AList PoolKey PoolState} {k' : PoolKey} {p p' : PoolState}
    (hg : pools.get k' = some p) (hl : p'.liqs = p.liqs) (k : PoolKey) :
    liqsAt (pools.set k' p') k = liqsAt pools k := by
  by_cases e : k = k'
  · subst e; rw [liqsAt_set_self, liqsAt_some hg, hl]
  · exact liqsAt_set_ne _ _ e

/-- pegging replaces the MEL/SYM pool by one with the same recorded liquidity -/
theorem processPegging_shape {s s' : State} (h : processPegging s = .ok s') :
    s'.coins = s.coins ∧ ∃ sm sm2, s.pools.get poolMelSym = some sm ∧ sm2.liqs = sm.liqs ∧
      s'.pools = s.pools.set poolMelSym sm2 := by
  unfold processPegging at h
  simp only at h
  obtain ⟨⟨a, b⟩, _, h⟩ := Outcome.bind_eq_ok h
  simp only at h
  obtain ⟨sm, hsm, h⟩ := Outcome.bind_eq_ok h
  have hget : s.pools.get poolMelSym = some sm := by
    split at hsm
    · next p hp => cases hsm; exact hp
    · cases hsm
  split at h
  · cases h
  · obtain ⟨sm1, h1, h⟩ := Outcome.bind_eq_ok h
    obtain ⟨sm2, h2, h⟩ := Outcome.bind_eq_ok h
    cases h
    have e1 : sm1.liqs = sm.liqs := by
      split at h1
      · obtain ⟨⟨p, x, y⟩, hs, h1⟩ := Outcome.bind_eq_ok h1
        cases h1
        exact swapMany_liqs hs
      · cases h1; rfl
    have e2 : sm2.liqs = sm1.liqs := by
      split at h2
      · obtain ⟨⟨p, x, y⟩, hs, h2⟩ := Outcome.bind_eq_ok h2
        cases h2
        exact swapMany_liqs hs
      · cases h2; rfl
    exact ⟨rfl, sm, sm2, hget, e2.trans e1, rfl⟩

theorem processPegging_back {s s' : State} (h : processPegging s = .ok s') (hk : (s.pools.map (·.1)).Nodup)
    (hh : Hash) :
    s'.coins = s.coins ∧ ((s'.pools.map (·.1)).Nodup) ∧
    poolsTotal s'.pools (.custom hh) = poolsTotal s.pools (.custom hh) ∧
    ∀ k, liqsAt s'.pools k = liqsAt s.pools k := by
  obtain ⟨hc, sm, sm2, hg, hl, hp⟩ := processPegging_shape h
  rw [hp]
  exact ⟨hc, pools_nodup_set hk _ _, poolsTotal_set_zero hk _ _ _ (fun q => pc_builtin hh _ (by simp) q),
    liqsAt_set_same hg hl⟩

/-- the TIP-909 subsidy replaces the MEL/SYM and ERG/SYM pools by ones with the same recorded liquidity -/
theorem applyTip909_back {s s' : State} (h : applyTip909 s = .ok s') (hk : (s.pools.map (·.1)).Nodup)
    (hh : Hash) :
    s'.coins = s.coins ∧ ((s'.pools.map (·.1)).Nodup) ∧
    poolsTotal s'.pools (.custom hh) = poolsTotal s.pools (.custom hh) ∧
    ∀ k, liqsAt s'.pools k = liqsAt s.pools k := by
  unfold applyTip909 at h
  simp only at h
  split at h
  · cases h
  · split at h
    · cases h
    · next sm hsm =>
      obtain ⟨⟨sm', mel, x⟩, h1, h⟩ := Outcome.bind_eq_ok h
      simp only at h
      split at h
      · cases h
      · split at h
        · cases h
        · next es hes =>
          obtain ⟨⟨es', y, z⟩, h2, h⟩ := Outcome.bind_eq_ok h
          cases h
          have hn1 := pools_nodup_set hk poolMelSym sm'
          refine ⟨rfl, pools_nodup_set hn1 _ _, ?_, ?_⟩
          · simp only
            rw [poolsTotal_set_zero hn1 _ _ _ (fun q => pc_builtin hh _ (by simp) q),
              poolsTotal_set_zero hk _ _ _ (fun q => pc_builtin hh _ (by simp) q)]
          · intro k
            simp only
            rw [liqsAt_set_same hes (swapMany_liqs h2), liqsAt_set_same hsm (swapMany_liqs h1)]

/-- the proposer reward is a MEL coin: no custom denomination grows, pools are untouched -/
theorem applyProposerAction_back {env : Env} {s s' : State} {a : ProposerAction}
    (h : applyProposerAction env s a = .ok s') (hk : s.coins.Nodup) (hh : Hash) :
    coinsTotal s'.coins (.custom hh) ≤ coinsTotal s.coins (.custom hh) ∧ s'.pools = s.pools := by
  unfold applyProposerAction collectProposerFee at h
  simp only at h
  split at h
  · cases h
  · cases h
    refine ⟨?_, rfl⟩
    simp only
    generalize State.tip906 _ = t
    have hc := coinsTotal_insertCoin hk (.custom hh) { txhash := env.rewardId s.height, index := 0 }
      { coinData := { covhash := a.rewardDest, value := s.feePool / 2 ^ REWARD_SHIFT + s.tips, denom := .mel,
                      additionalData := [] }, height := s.height } t
    simp only [cw, reduceCtorEq, if_false] at hc
    omega

/-! ### arithmetic: the depositors' weights fit a u128 whenever the deposited amounts do -/

theorem two_mul_le_sq (x y : Nat) : 2 * (x * y) ≤ x * x + y * y := by
  rcases Nat.le_total x y with h | h
  · obtain ⟨t, rfl⟩ := Nat.exists_eq_add_of_le h
    simp only [Nat.mul_add, Nat.add_mul]
    have := Nat.mul_comm t x
    omega
  · obtain ⟨t, rfl⟩ := Nat.exists_eq_add_of_le h
    simp only [Nat.mul_add, Nat.add_mul]
    have := Nat.mul_comm t y
    omega

theorem two_mtsqrt_le (a b : Nat) : 2 * mtsqrt a b ≤ a + b := by
  have h1 : mtsqrt a b ≤ Nat.sqrt a * Nat.sqrt b := by unfold mtsqrt satMul128; omega
  have h2 := two_mul_le_sq (Nat.sqrt a) (Nat.sqrt b)
  have h3 := Nat.sqrt_le a
  have h4 := Nat.sqrt_le b
  omega

theorem two_sum_le {α} (m a b : α → Nat) : ∀ (l : List α), (∀ x ∈ l, 2 * m x ≤ a x + b x) →
    2 * (l.map m).sum ≤ (l.map a).sum + (l.map b).sum := by
  intro l
  induction l with
  | nil => intro _; simp
  | cons x xs ih =>
    intro h
    simp only [List.map_cons, List.sum_cons]
    have := h x List.mem_cons_self
    have := ih (fun y hy => h y (List.mem_cons_of_mem _ hy))
    omega

theorem sum_ite_const {α} (P : Prop) [Decidable P] (f : α → Nat) (l : List α) :
    (l.map fun x => if P then f x else 0).sum = if P then (l.map f).sum else 0 := by
  by_cases hP : P
  · simp [hP]
  · simp only [hP, if_false]; exact sum_map_zero _

/-! ### recorded liquidity through the pool arithmetic -/

/-- under the guard of `processDepositsForPool` (`pool.liqs + issued ≤ u128::MAX`) the saturating addition
    in `deposit` is exact: the record grows by precisely what is issued -/
theorem deposit_liqs {p p' : PoolState} {l r q : Nat} (h : p.deposit l r = .ok (p', q))
    (hfit : p.liqs + q ≤ U128_MAX) : p'.liqs = p.liqs + q := by
  unfold PoolState.deposit at h
  split at h
  · next h0 => cases h; simp only; omega
  · simp only at h
    split at h
    · cases h
    · cases h
      simp only at hfit ⊢
      exact Nat.min_eq_left hfit

theorem withdraw_liqs {p p' : PoolState} {q tl tr : Nat} (h : p.withdraw q = .ok (p', tl, tr)) :
    p'.liqs + q = p.liqs := by
  unfold PoolState.withdraw at h
  split at h
  · cases h
  · next hq =>
    split at h
    · cases h
    · simp only at h
      split at h
      · cases h; simp only; omega
      · cases h; simp only; omega

theorem liqsAt_getD (pools : AList PoolKey PoolState) (k : PoolKey) :
    liqsAt pools k = ((pools.get k).getD PoolState.newEmpty).liqs := by
  unfold liqsAt
  cases pools.get k with
  | none => rfl
  | some p => rfl

/-! ### swaps leave every recorded liquidity alone -/

theorem processSwapsForPool_liqs {k' : PoolKey} {st st' : State} {reqs : List Tx}
    (h : processSwapsForPool k' st reqs = .ok st') (k : PoolKey) : liqsAt st'.pools k = liqsAt st.pools k := by
  unfold processSwapsForPool at h
  split at h
  · cases h
  · next pool hpool =>
    simp only at h
    split at h
    · cases h
    · cases h
    · next pool' lw rw hsw =>
      obtain ⟨coins, _, h2⟩ := Outcome.bind_eq_ok h
      cases h2
      exact liqsAt_set_same hpool (swapMany_liqs hsw) k

theorem processSwaps_liqs {s s' : State} (h : processSwaps s = .ok s') (k : PoolKey) :
    liqsAt s'.pools k = liqsAt s.pools k := by
  unfold processSwaps at h
  simp only at h
  refine Outcome.foldlM'_inv_mem (fun st : State => liqsAt st.pools k = liqsAt s.pools k) _ _ ?_ _ _ rfl h
  intro b k' b' _ hb hf
  rw [processSwapsForPool_liqs hf k]
  exact hb

/-! ### the backing relation of a settlement step -/

/-- the token supply `cp · d` grew by no more than pool `k`'s recorded liquidity -/
def Step (d : Denom) (k : PoolKey) (st st' : State) : Prop :=
  cp st' d + liqsAt st.pools k ≤ cp st d + liqsAt st'.pools k

theorem Step.refl (d : Denom) (k : PoolKey) (st : State) : Step d k st st := Nat.le_refl _

theorem Step.trans {d : Denom} {k : PoolKey} {a b c : State} (h1 : Step d k a b) (h2 : Step d k b c) :
    Step d k a c := by
  unfold Step at *; omega

/-- `phase_inv` with an arbitrary reflexive transitive relation in place of `cp · d ≤ cp · d` -/
theorem phase_invR (s0 : State) (reqs : List Tx) (step : PoolKey → State → List Tx → Outcome State)
    (R : State → State → Prop) (hrefl : ∀ st, R st st) (htrans : ∀ a b c, R a b → R b c → R a c)
    (P : PoolKey → Prop)
    (hstep : ∀ k st st', P k → step k st (transactionsForPool reqs k) = .ok st' → Good s0 st →
       (∀ tx ∈ transactionsForPool reqs k, ∀ i,
          st.coins.getCoin ⟨tx.hash, i⟩ = s0.coins.getCoin ⟨tx.hash, i⟩) →
       Good st st' ∧ R st st' ∧
       (∀ id : CoinID, (∀ tx ∈ transactionsForPool reqs k, tx.hash ≠ id.txhash) →
          st'.coins.getCoin id = st.coins.getCoin id))
    (hh : (reqs.map (·.hash)).Nodup) :
    ∀ ks : List PoolKey, ks.Nodup → (∀ k ∈ ks, P k) → ∀ st st', Good s0 st →
      (∀ tx ∈ reqs, ∀ k ∈ ks, canonicalPoolKey tx.data = some k → ∀ i,
          st.coins.getCoin ⟨tx.hash, i⟩ = s0.coins.getCoin ⟨tx.hash, i⟩) →
      Outcome.foldlM' (fun st k => step k st (transactionsForPool reqs k)) st ks = .ok st' →
      Good st st' ∧ R st st' ∧
      (∀ id : CoinID, (∀ tx ∈ reqs, tx.hash ≠ id.txhash) → st'.coins.getCoin id = st.coins.getCoin id) := by
  intro ks
  induction ks with
  | nil =>
    intro _ _ st st' hg _ h
    simp only [Outcome.foldlM'] at h
    cases h
    exact ⟨Good.refl hg.coinKeys hg.poolKeys, hrefl _, fun _ _ => rfl⟩
  | cons k ks ih =>
    intro hks hP st st' hg hsame h
    simp only [Outcome.foldlM'] at h
    simp only [List.nodup_cons] at hks
    split at h
    · next st1 hst1 =>
      obtain ⟨g1, le1, u1⟩ := hstep k st st1 (hP k List.mem_cons_self) hst1 hg (by
        intro tx htx i
        have := mem_transactionsForPool_iff.mp htx
        exact hsame tx this.1 k List.mem_cons_self this.2 i)
      obtain ⟨g2, le2, u2⟩ := ih hks.2 (fun k' hk' => hP k' (List.mem_cons_of_mem _ hk')) st1 st' (hg.trans g1) (by
        intro tx htx k' hk' hck i
        rw [u1 ⟨tx.hash, i⟩ (by
          intro tx2 htx2 e
          have h2 := mem_transactionsForPool_iff.mp htx2
          have : tx2 = tx := eq_of_nodup_map _ hh h2.1 htx e
          rw [this, hck] at h2
          cases h2.2
          exact hks.1 hk')]
        exact hsame tx htx k' (List.mem_cons_of_mem _ hk') hck i) h
      refine ⟨g1.trans g2, htrans _ _ _ le1 le2, ?_⟩
      intro id hid
      rw [u2 id hid, u1 id (fun tx htx => hid tx (mem_transactionsForPool_iff.mp htx).1)]
    · cases h
    · cases h

/-! ### the per-pool deposit step, for an arbitrary denomination -/

theorem depositStepG (env : Env) (k : PoolKey) (st st' : State) (reqs : List Tx) (d : Denom)
    (h : processDepositsForPool env k st reqs = .ok st') (hleg : legacyDeposit st = false)
    (hlr : k.left ≠ k.right)
    (hc : st.coins.Nodup) (hp : (st.pools.map (·.1)).Nodup) (hh : (reqs.map (·.hash)).Nodup)
    (hreq : ∀ tx ∈ reqs, ∃ c0 c1, st.coins.getCoin ⟨tx.hash, 0⟩ = some c0 ∧
      st.coins.getCoin ⟨tx.hash, 1⟩ = some c1 ∧
      c0.coinData.value = (tx.outputs.headD default).value ∧ c0.coinData.denom = k.left ∧
      c1.coinData.value = ((tx.outputs.drop 1).headD default).value ∧ c1.coinData.denom = k.right)
    (hm : (reqs.map fun tx => mtsqrt (tx.outputs.headD default).value
            ((tx.outputs.drop 1).headD default).value).sum ≤ U128_MAX) :
    Good st st' ∧ ∃ q, liqsAt st'.pools k = liqsAt st.pools k + q ∧
      (∀ k0, k0 ≠ k → liqsAt st'.pools k0 = liqsAt st.pools k0) ∧
      cp st' d ≤ cp st d + (if liqTokenDenom env k = d then q else 0) := by
  unfold processDepositsForPool at h
  simp only [hleg, Bool.false_eq_true, if_false] at h
  rw [satSum_eq hm] at h
  generalize hmf : (fun tx : Tx => mtsqrt (tx.outputs.headD default).value
            ((tx.outputs.drop 1).headD default).value) = mf at *
  split at h
  · cases h
  · cases h
  · next pool' totalLiqs hdep =>
    split at h
    · cases h; exact ⟨Good.refl hc hp, 0, rfl, fun _ _ => rfl, by simp⟩
    · obtain ⟨coins, hfold, h2⟩ := Outcome.bind_eq_ok h
      cases h2
      have hdl := deposit_le hdep
      have hfold' := coinFold _ d
        (fun tx => (if k.left = d then (tx.outputs.headD default).value else 0) +
                   (if k.right = d then ((tx.outputs.drop 1).headD default).value else 0))
        (fun tx => if liqTokenDenom env k = d then totalLiqs * mf tx / (reqs.map mf).sum else 0)
        st.coins reqs ?_ hh st.coins coins hc (fun _ _ _ => rfl) hfold
      · obtain ⟨hn', htot⟩ := hfold'
        refine ⟨⟨hn', pools_nodup_set hp _ _, rfl, rfl, rfl, rfl, rfl⟩, totalLiqs, ?_, ?_, ?_⟩
        · simp only
          rw [liqsAt_set_self, liqsAt_getD]
          exact deposit_liqs hdep (by omega)
        · intro k0 hk0
          exact liqsAt_set_ne _ _ hk0
        · rw [sum_ite_add, sum_ite_const] at htot
          have pL := pro_rata_le totalLiqs (reqs.map mf)
          rw [List.map_map] at pL
          have ePL : ((fun v => totalLiqs * v / (reqs.map mf).sum) ∘ mf)
              = fun tx => totalLiqs * mf tx / (reqs.map mf).sum := rfl
          rw [ePL] at pL
          have hpt := poolsTotal_set hp d k pool'
          rw [at?_getD_newEmpty] at hpt
          simp only [pc] at hpt
          have sL := satSum_le (reqs.map fun tx => (tx.outputs.headD default).value)
          have sR := satSum_le (reqs.map fun tx => ((tx.outputs.drop 1).headD default).value)
          unfold cp
          simp only
          generalize (reqs.map fun tx => totalLiqs * mf tx / (reqs.map mf).sum).sum = A at *
          generalize satSum (reqs.map fun tx => (tx.outputs.headD default).value) = TL at *
          generalize satSum (reqs.map fun tx => ((tx.outputs.drop 1).headD default).value) = TR at *
          generalize (reqs.map fun tx => (tx.outputs.headD default).value).sum = SL at *
          generalize (reqs.map fun tx => ((tx.outputs.drop 1).headD default).value).sum = SR at *
          generalize (st.pools.get k).getD PoolState.newEmpty = pool at *
          by_cases e3 : liqTokenDenom env k = d
          · by_cases e1 : k.left = d
            · have e2 : ¬ k.right = d := fun e => hlr (e1.trans e.symm)
              simp only [e1, e2, e3, if_true, if_false] at htot hpt ⊢
              omega
            · by_cases e2 : k.right = d
              · simp only [e1, e2, e3, if_true, if_false] at htot hpt ⊢
                omega
              · simp only [e1, e2, e3, if_true, if_false] at htot hpt ⊢
                omega
          · by_cases e1 : k.left = d
            · have e2 : ¬ k.right = d := fun e => hlr (e1.trans e.symm)
              simp only [e1, e2, e3, if_true, if_false] at htot hpt ⊢
              omega
            · by_cases e2 : k.right = d
              · simp only [e1, e2, e3, if_true, if_false] at htot hpt ⊢
                omega
              · simp only [e1, e2, e3, if_false] at htot hpt ⊢
                omega
      · intro c tx c' htx hn hsame hf
        obtain ⟨v, hv, hf⟩ := Outcome.bind_eq_ok hf
        simp only [outCoinID_eq] at hf
        obtain ⟨c0, c1, hc0, hc1, hv0, hd0, hv1, hd1⟩ := hreq tx htx
        have emf : mf tx = mtsqrt (tx.outputs.headD default).value ((tx.outputs.drop 1).headD default).value := by
          rw [← hmf]
        rw [← emf] at hv
        have hle := multiplyFrac_le hv
        have hn1 := CoinMap.Nodup_insertCoin hn ⟨tx.hash, 0⟩
          { coinData := { tx.outputs.headD default with denom := liqTokenDenom env k, value := v },
            height := st.height } st.tip906
        refine ⟨CoinMap.Nodup_removeCoin hn1 hf, ?_, ?_⟩
        · have ht1 := coinsTotal_insertCoin hn d ⟨tx.hash, 0⟩
            { coinData := { tx.outputs.headD default with denom := liqTokenDenom env k, value := v },
              height := st.height } st.tip906
          have ht2 := coinsTotal_removeCoin hn1 d hf
          rw [cwAt_some ((hsame 0).trans hc0)] at ht1
          have e : (c.insertCoin ⟨tx.hash, 0⟩
            { coinData := { tx.outputs.headD default with denom := liqTokenDenom env k, value := v },
              height := st.height } st.tip906).getCoin ⟨tx.hash, 1⟩ = some c1 := by
            rw [CoinMap.getCoin_insertCoin_ne _ _ _ (by intro e; cases e)]
            exact (hsame 1).trans hc1
          rw [cwAt_some e] at ht2
          simp only [cw, hv0, hd0, hv1, hd1] at ht1 ht2
          by_cases e3 : liqTokenDenom env k = d
          · by_cases e1 : k.left = d
            · have e2 : ¬ k.right = d := fun e => hlr (e1.trans e.symm)
              simp only [e1, e2, e3, if_true, if_false] at ht1 ht2 ⊢
              omega
            · by_cases e2 : k.right = d
              · simp only [e1, e2, e3, if_true, if_false] at ht1 ht2 ⊢
                omega
              · simp only [e1, e2, e3, if_true, if_false] at ht1 ht2 ⊢
                omega
          · by_cases e1 : k.left = d
            · have e2 : ¬ k.right = d := fun e => hlr (e1.trans e.symm)
              simp only [e1, e2, e3, if_true, if_false] at ht1 ht2 ⊢
              omega
            · by_cases e2 : k.right = d
              · simp only [e1, e2, e3, if_true, if_false] at ht1 ht2 ⊢
                omega
              · simp only [e1, e2, e3, if_false] at ht1 ht2 ⊢
                omega
        · intro id hid
          rw [CoinMap.getCoin_removeCoin_ne hf (ne_of_txhash_ne 1 hid),
            CoinMap.getCoin_insertCoin_ne _ _ _ (ne_of_txhash_ne 0 hid)]

/-! ### the per-pool withdrawal step, for an arbitrary denomination -/

theorem withdrawStepG (ld : Denom) (k : PoolKey) (st st' : State) (reqs : List Tx) (d : Denom)
    (h : processWithdrawalsForPool k st reqs = .ok st')
    (hlr : k.left ≠ k.right)
    (hc : st.coins.Nodup) (hp : (st.pools.map (·.1)).Nodup) (hh : (reqs.map (·.hash)).Nodup)
    (hreq : ∀ tx ∈ reqs, ∃ c0, st.coins.getCoin ⟨tx.hash, 0⟩ = some c0 ∧ c0.coinData.denom = ld ∧
      c0.coinData.value = (tx.outputs.headD default).value)
    (hb : (reqs.map fun tx => (tx.outputs.headD default).value).sum ≤ U128_MAX) :
    Good st st' ∧ ∃ q, liqsAt st'.pools k + q = liqsAt st.pools k ∧
      (∀ k0, k0 ≠ k → liqsAt st'.pools k0 = liqsAt st.pools k0) ∧
      cp st' d + (if ld = d then q else 0) ≤ cp st d := by
  unfold processWithdrawalsForPool at h
  simp only at h
  rw [satSum_eq hb] at h
  generalize hmy : (fun tx : Tx => (tx.outputs.headD default).value) = my at *
  split at h
  · cases h
  · next pool hpool =>
    split at h
    · cases h
      exact ⟨Good.refl hc hp, 0, rfl, fun _ _ => rfl, by simp⟩
    · split at h
      · cases h
      · cases h
      · next pool' tl tr hw =>
        obtain ⟨coins, hfold, h2⟩ := Outcome.bind_eq_ok h
        cases h2
        have hwe := withdraw_eq hw
        have hwl := withdraw_liqs hw
        have hfold' := coinFold _ d (fun tx => if ld = d then my tx else 0)
          (fun tx => (if k.left = d then tl * my tx / (reqs.map my).sum else 0) +
                     (if k.right = d then tr * my tx / (reqs.map my).sum else 0))
          st.coins reqs ?_ hh st.coins coins hc (fun _ _ _ => rfl) hfold
        · obtain ⟨hn', htot⟩ := hfold'
          refine ⟨⟨hn', pools_nodup_set hp _ _, rfl, rfl, rfl, rfl, rfl⟩, (reqs.map my).sum, ?_, ?_, ?_⟩
          · simp only
            rw [liqsAt_set_self, liqsAt_some hpool]
            exact hwl
          · intro k0 hk0
            exact liqsAt_set_ne _ _ hk0
          · rw [sum_ite_add, sum_ite_const] at htot
            have pL := pro_rata_le tl (reqs.map my)
            have pR := pro_rata_le tr (reqs.map my)
            rw [List.map_map] at pL pR
            have ePL : ((fun v => tl * v / (reqs.map my).sum) ∘ my) = fun tx => tl * my tx / (reqs.map my).sum := rfl
            have ePR : ((fun v => tr * v / (reqs.map my).sum) ∘ my) = fun tx => tr * my tx / (reqs.map my).sum := rfl
            rw [ePL] at pL; rw [ePR] at pR
            have hpt := poolsTotal_set hp d k pool'
            rw [AList.at?_some hpool] at hpt
            simp only [pc] at hpt
            unfold cp
            simp only
            generalize (reqs.map fun tx => tl * my tx / (reqs.map my).sum).sum = A at *
            generalize (reqs.map fun tx => tr * my tx / (reqs.map my).sum).sum = B at *
            generalize (reqs.map my).sum = Q at *
            by_cases e3 : ld = d
            · by_cases e1 : k.left = d
              · have e2 : ¬ k.right = d := fun e => hlr (e1.trans e.symm)
                simp only [e1, e2, e3, if_true, if_false] at htot hpt ⊢
                omega
              · by_cases e2 : k.right = d
                · simp only [e1, e2, e3, if_true, if_false] at htot hpt ⊢
                  omega
                · simp only [e1, e2, e3, if_true, if_false] at htot hpt ⊢
                  omega
            · by_cases e1 : k.left = d
              · have e2 : ¬ k.right = d := fun e => hlr (e1.trans e.symm)
                simp only [e1, e2, e3, if_true, if_false] at htot hpt ⊢
                omega
              · by_cases e2 : k.right = d
                · simp only [e1, e2, e3, if_true, if_false] at htot hpt ⊢
                  omega
                · simp only [e1, e2, e3, if_false] at htot hpt ⊢
                  omega
        · intro c tx c' htx hn hsame hf
          obtain ⟨vl, hvl, hf⟩ := Outcome.bind_eq_ok hf
          obtain ⟨vr, hvr, hf⟩ := Outcome.bind_eq_ok hf
          cases hf
          simp only [outCoinID_eq]
          obtain ⟨c0, hc0, hd0, hv0⟩ := hreq tx htx
          have emy : my tx = (tx.outputs.headD default).value := by rw [← hmy]
          rw [← emy] at hvl hvr hv0
          have hl1 := multiplyFrac_le hvl
          have hl2 := multiplyFrac_le hvr
          have hn1 := CoinMap.Nodup_insertCoin hn ⟨tx.hash, 0⟩
            { coinData := { tx.outputs.headD default with denom := k.left, value := vl },
              height := st.height } st.tip906
          refine ⟨CoinMap.Nodup_insertCoin hn1 _ _ _, ?_, ?_⟩
          · have ht1 := coinsTotal_insertCoin hn d ⟨tx.hash, 0⟩
              { coinData := { tx.outputs.headD default with denom := k.left, value := vl },
                height := st.height } st.tip906
            have ht2 := coinsTotal_insertCoin hn1 d ⟨tx.hash, 1⟩
              { coinData := { tx.outputs.headD default with denom := k.right, value := vr },
                height := st.height } st.tip906
            rw [cwAt_some ((hsame 0).trans hc0)] at ht1
            simp only [cw, hd0, hv0] at ht1 ht2
            by_cases e3 : ld = d
            · by_cases e1 : k.left = d
              · have e2 : ¬ k.right = d := fun e => hlr (e1.trans e.symm)
                simp only [e1, e2, e3, if_true, if_false] at ht1 ht2 ⊢
                omega
              · by_cases e2 : k.right = d
                · simp only [e1, e2, e3, if_true, if_false] at ht1 ht2 ⊢
                  omega
                · simp only [e1, e2, e3, if_true, if_false] at ht1 ht2 ⊢
                  omega
            · by_cases e1 : k.left = d
              · have e2 : ¬ k.right = d := fun e => hlr (e1.trans e.symm)
                simp only [e1, e2, e3, if_true, if_false] at ht1 ht2 ⊢
                omega
              · by_cases e2 : k.right = d
                · simp only [e1, e2, e3, if_true, if_false] at ht1 ht2 ⊢
                  omega
                · simp only [e1, e2, e3, if_false] at ht1 ht2 ⊢
                  omega
          · intro id hid
            rw [CoinMap.getCoin_insertCoin_ne _ _ _ (ne_of_txhash_ne 1 hid),
              CoinMap.getCoin_insertCoin_ne _ _ _ (ne_of_txhash_ne 0 hid)]

/-! ### the deposit and withdrawal phases -/

theorem deposits_phaseG (env : Env) (s0 st' : State) (m : CoinMap) (k : PoolKey)
    (h : processDeposits env s0 = .ok st') (hleg : legacyDeposit s0 = false)
    (hinj : ∀ k', canonicalPoolKey k'.toBytes = some k' → liqTokenDenom env k' = liqTokenDenom env k → k' = k)
    (hc : s0.coins.Nodup) (hp : (s0.pools.map (·.1)).Nodup) (hh : (s0.txs.map (·.hash)).Nodup)
    (hm : m.Nodup) (hb : ∀ d, coinsTotal m d ≤ U128_MAX)
    (hsame0 : ∀ tx ∈ s0.txs, tx.kind = .liqDeposit → ∀ i,
      s0.coins.getCoin ⟨tx.hash, i⟩ = m.getCoin ⟨tx.hash, i⟩)
    (hf : ∀ tx ∈ s0.txs, tx.kind = .liqDeposit → FaithfulTx m tx) :
    Good s0 st' ∧ Step (liqTokenDenom env k) k s0 st' ∧
    (∀ id : CoinID, (∀ tx ∈ s0.txs, tx.kind = .liqDeposit → tx.hash ≠ id.txhash) →
      st'.coins.getCoin id = s0.coins.getCoin id) := by
  unfold processDeposits at h
  simp only at h
  have hmem : ∀ tx, tx ∈ s0.txs.filter (isDepositRequest s0) → tx ∈ s0.txs ∧ isDepositRequest s0 tx = true :=
    fun tx h => List.mem_filter.mp h
  have hhr : ((s0.txs.filter (isDepositRequest s0)).map (·.hash)).Nodup :=
    List.Nodup.sublist (List.Sublist.map _ List.filter_sublist) hh
  generalize s0.txs.filter (isDepositRequest s0) = reqs at h hmem hhr
  have hP : ∀ k ∈ extractPoolKeysSorted reqs, (fun k : PoolKey => k.left ≠ k.right ∧ k.left ≠ .newCustom ∧ k.right ≠ .newCustom ∧
      canonicalPoolKey k.toBytes = some k) k := by
    intro k hk
    obtain ⟨tx, _, hck⟩ := mem_extractPoolKeysSorted hk
    have cs := canonical_sides hck
    have hb := (canonicalPoolKey_some hck).2.2.2
    exact ⟨cs.1, cs.2.1, cs.2.2, by rw [hb]; exact hck⟩
  have hstep : ∀ k' st st1, (fun k : PoolKey => k.left ≠ k.right ∧ k.left ≠ .newCustom ∧ k.right ≠ .newCustom ∧
      canonicalPoolKey k.toBytes = some k) k' →
      processDepositsForPool env k' st (transactionsForPool reqs k') = .ok st1 → Good s0 st →
      (∀ tx ∈ transactionsForPool reqs k', ∀ i,
        st.coins.getCoin ⟨tx.hash, i⟩ = s0.coins.getCoin ⟨tx.hash, i⟩) →
      Good st st1 ∧ Step (liqTokenDenom env k) k st st1 ∧
      (∀ id : CoinID, (∀ tx ∈ transactionsForPool reqs k', tx.hash ≠ id.txhash) →
        st1.coins.getCoin id = st.coins.getCoin id) := by
    intro k' st st1 hPk hst1 hg hsame
    have hleg' : legacyDeposit st = false := (legacyDeposit_congr hg.height hg.network).trans hleg
    have hfacts : ∀ tx ∈ transactionsForPool reqs k', ∃ c0 c1, st.coins.getCoin ⟨tx.hash, 0⟩ = some c0 ∧
        st.coins.getCoin ⟨tx.hash, 1⟩ = some c1 ∧
        m.getCoin ⟨tx.hash, 0⟩ = some c0 ∧ m.getCoin ⟨tx.hash, 1⟩ = some c1 ∧
        c0.coinData.value = (tx.outputs.headD default).value ∧ c0.coinData.denom = k'.left ∧
        c1.coinData.value = ((tx.outputs.drop 1).headD default).value ∧ c1.coinData.denom = k'.right := by
      intro tx htx
      obtain ⟨hin, hck'⟩ := mem_transactionsForPool_iff.mp htx
      obtain ⟨htxs, hsel⟩ := hmem tx hin
      obtain ⟨hkind, k'', o0, o1, rest, c0, c1, ho, hck, hc0, hc1, hd0, hd1⟩ := isDepositRequest_full hsel
      have : k'' = k' := Option.some.inj (hck.symm.trans hck')
      subst this
      have hm0 : m.getCoin ⟨tx.hash, 0⟩ = some c0 := (hsame0 tx htxs hkind 0).symm.trans hc0
      have hm1 : m.getCoin ⟨tx.hash, 1⟩ = some c1 := (hsame0 tx htxs hkind 1).symm.trans hc1
      have hfa0 := hf tx htxs hkind 0 o0 c0 (by rw [ho]; rfl) hm0
      have hfa1 := hf tx htxs hkind 1 o1 c1 (by rw [ho]; rfl) hm1
      rw [createdDenom_of_ne (by rw [hd0]; exact hPk.2.1)] at hfa0
      rw [createdDenom_of_ne (by rw [hd1]; exact hPk.2.2.1)] at hfa1
      refine ⟨c0, c1, (hsame tx htx 0).trans hc0, (hsame tx htx 1).trans hc1, hm0, hm1, ?_⟩
      rw [ho]
      exact ⟨hfa0.1, hfa0.2.trans hd0, hfa1.1, hfa1.2.trans hd1⟩
    have hbL := sum_values_le m hm k'.left (transactionsForPool reqs k') 0
      (fun tx => (tx.outputs.headD default).value)
      (transactionsForPool_nodup hhr k') (by
        intro tx htx
        obtain ⟨c0, c1, _, _, hm0, _, hv0, hd0, _, _⟩ := hfacts tx htx
        rw [cwAt_some hm0]
        simp only [cw, hv0, hd0, if_true]
        exact Nat.le_refl _)
    have hbR := sum_values_le m hm k'.right (transactionsForPool reqs k') 1
      (fun tx => ((tx.outputs.drop 1).headD default).value)
      (transactionsForPool_nodup hhr k') (by
        intro tx htx
        obtain ⟨c0, c1, _, _, _, hm1, _, _, hv1, hd1⟩ := hfacts tx htx
        rw [cwAt_some hm1]
        simp only [cw, hv1, hd1, if_true]
        exact Nat.le_refl _)
    have hbM : (( transactionsForPool reqs k').map fun tx => mtsqrt (tx.outputs.headD default).value
            ((tx.outputs.drop 1).headD default).value).sum ≤ U128_MAX := by
      have h2 := two_sum_le (fun tx : Tx => mtsqrt (tx.outputs.headD default).value
            ((tx.outputs.drop 1).headD default).value) (fun tx => (tx.outputs.headD default).value)
            (fun tx => ((tx.outputs.drop 1).headD default).value) (transactionsForPool reqs k')
            (fun tx _ => two_mtsqrt_le _ _)
      have := hb k'.left
      have := hb k'.right
      omega
    obtain ⟨g1, q, hq, hother, hcp⟩ := depositStepG env k' st st1 (transactionsForPool reqs k')
      (liqTokenDenom env k) hst1 hleg' hPk.1 hg.coinKeys hg.poolKeys (transactionsForPool_nodup hhr k')
      (fun tx htx => by
        obtain ⟨c0, c1, h0, h1, _, _, r⟩ := hfacts tx htx
        exact ⟨c0, c1, h0, h1, r⟩) hbM
    refine ⟨g1, ?_, fun id hne => (processDepositsForPool_coins id env k' st _ st1 hst1 hne).1⟩
    unfold Step
    by_cases e : k = k'
    · subst e
      rw [if_pos rfl] at hcp
      omega
    · have hne : ¬ liqTokenDenom env k' = liqTokenDenom env k := fun e' => e (hinj k' hPk.2.2.2 e').symm
      rw [hother k e]
      rw [if_neg hne] at hcp
      omega
  obtain ⟨g, le, u⟩ := phase_invR s0 reqs (fun k st l => processDepositsForPool env k st l)
    (Step (liqTokenDenom env k) k) (Step.refl _ _) (fun _ _ _ => Step.trans)
    (fun k => k.left ≠ k.right ∧ k.left ≠ .newCustom ∧ k.right ≠ .newCustom ∧
      canonicalPoolKey k.toBytes = some k) hstep hhr
    (extractPoolKeysSorted reqs) (extractPoolKeysSorted_nodup _) hP s0 st' (Good.refl hc hp)
    (fun _ _ _ _ _ _ => rfl) h
  exact ⟨g, le, fun id hid => u id (fun tx htx => hid tx (hmem tx htx).1 (isDepositRequest_full (hmem tx htx).2).1)⟩

theorem withdrawals_phaseG (env : Env) (s0 st' : State) (m : CoinMap) (k : PoolKey)
    (h : processWithdrawals env s0 = .ok st')
    (hc : s0.coins.Nodup) (hp : (s0.pools.map (·.1)).Nodup) (hh : (s0.txs.map (·.hash)).Nodup)
    (hm : m.Nodup) (hb : ∀ d, coinsTotal m d ≤ U128_MAX)
    (hsame0 : ∀ tx ∈ s0.txs, tx.kind = .liqWithdraw → ∀ i,
      s0.coins.getCoin ⟨tx.hash, i⟩ = m.getCoin ⟨tx.hash, i⟩)
    (hf : ∀ tx ∈ s0.txs, tx.kind = .liqWithdraw → FaithfulTx m tx) :
    Good s0 st' ∧ Step (liqTokenDenom env k) k s0 st' := by
  unfold processWithdrawals at h
  simp only at h
  have hmem : ∀ tx, tx ∈ s0.txs.filter (isWithdrawRequest env s0) →
      tx ∈ s0.txs ∧ isWithdrawRequest env s0 tx = true := fun tx h => List.mem_filter.mp h
  have hhr : ((s0.txs.filter (isWithdrawRequest env s0)).map (·.hash)).Nodup :=
    List.Nodup.sublist (List.Sublist.map _ List.filter_sublist) hh
  generalize s0.txs.filter (isWithdrawRequest env s0) = reqs at h hmem hhr
  have hP : ∀ k ∈ extractPoolKeysSorted reqs, (fun k : PoolKey => k.left ≠ k.right ∧ k.left ≠ .newCustom ∧ k.right ≠ .newCustom) k := by
    intro k hk
    obtain ⟨tx, _, hck⟩ := mem_extractPoolKeysSorted hk
    exact canonical_sides hck
  have hstep : ∀ k' st st1, (fun k : PoolKey => k.left ≠ k.right ∧ k.left ≠ .newCustom ∧ k.right ≠ .newCustom) k' →
      processWithdrawalsForPool k' st (transactionsForPool reqs k') = .ok st1 → Good s0 st →
      (∀ tx ∈ transactionsForPool reqs k', ∀ i,
        st.coins.getCoin ⟨tx.hash, i⟩ = s0.coins.getCoin ⟨tx.hash, i⟩) →
      Good st st1 ∧ Step (liqTokenDenom env k) k st st1 ∧
      (∀ id : CoinID, (∀ tx ∈ transactionsForPool reqs k', tx.hash ≠ id.txhash) →
        st1.coins.getCoin id = st.coins.getCoin id) := by
    intro k' st st1 hPk hst1 hg hsame
    have hfacts : ∀ tx ∈ transactionsForPool reqs k', ∃ c, st.coins.getCoin ⟨tx.hash, 0⟩ = some c ∧
        m.getCoin ⟨tx.hash, 0⟩ = some c ∧
        c.coinData.value = (tx.outputs.headD default).value ∧
        c.coinData.denom = liqTokenDenom env k' := by
      intro tx htx
      obtain ⟨hin, hck'⟩ := mem_transactionsForPool_iff.mp htx
      obtain ⟨htxs, hsel⟩ := hmem tx hin
      obtain ⟨hkind, k'', o, c, ho, hck, hc0, hdn⟩ := isWithdrawRequest_full hsel
      have : k'' = k' := Option.some.inj (hck.symm.trans hck')
      subst this
      have hm0 : m.getCoin ⟨tx.hash, 0⟩ = some c := (hsame0 tx htxs hkind 0).symm.trans hc0
      have hfa := hf tx htxs hkind 0 o c (by rw [ho]; rfl) hm0
      rw [createdDenom_of_ne (by rw [hdn]; unfold liqTokenDenom; intro e; cases e)] at hfa
      refine ⟨c, (hsame tx htx 0).trans hc0, hm0, ?_⟩
      rw [ho]
      exact ⟨hfa.1, hfa.2.trans hdn⟩
    have hbL := sum_values_le m hm (liqTokenDenom env k') (transactionsForPool reqs k') 0
      (fun tx => (tx.outputs.headD default).value)
      (transactionsForPool_nodup hhr k') (by
        intro tx htx
        obtain ⟨c, _, hm0, hv, hdn⟩ := hfacts tx htx
        rw [cwAt_some hm0]
        simp only [cw, hv, hdn, if_true]
        exact Nat.le_refl _)
    obtain ⟨g1, q, hq, hother, hcp⟩ := withdrawStepG (liqTokenDenom env k') k' st st1
      (transactionsForPool reqs k') (liqTokenDenom env k) hst1 hPk.1
      hg.coinKeys hg.poolKeys (transactionsForPool_nodup hhr k')
      (fun tx htx => by
        obtain ⟨c, h1, _, h3, h4⟩ := hfacts tx htx
        exact ⟨c, h1, h4, h3⟩)
      (Nat.le_trans hbL (hb _))
    refine ⟨g1, ?_, fun id hne => (processWithdrawalsForPool_coins id k' st _ st1 hst1 hne).1⟩
    unfold Step
    by_cases e : k = k'
    · subst e
      rw [if_pos rfl] at hcp
      omega
    · rw [hother k e]
      have : cp st1 (liqTokenDenom env k) ≤ cp st (liqTokenDenom env k) := by
        split at hcp <;> omega
      omega
  obtain ⟨g, le, _⟩ := phase_invR s0 reqs (fun k st l => processWithdrawalsForPool k st l)
    (Step (liqTokenDenom env k) k) (Step.refl _ _) (fun _ _ _ => Step.trans)
    (fun k => k.left ≠ k.right ∧ k.left ≠ .newCustom ∧ k.right ≠ .newCustom) hstep hhr
    (extractPoolKeysSorted reqs) (extractPoolKeysSorted_nodup _) hP s0 st' (Good.refl hc hp)
    (fun _ _ _ _ _ _ => rfl) h
  exact ⟨g, le⟩

end BackL
end Mel
