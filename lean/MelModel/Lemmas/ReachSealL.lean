/-
  Helper lemmas for Props/C09Reach.lean: the structural hypotheses of sealing follow from the reachability
  invariants, `next_unsealed` keeps the pools, and the apply half of C09 with the count invariant only assumed
  once TIP-906 is active (before that `insert_coin` / `remove_coin` leave the counts alone).
-/
import MelModel.Lemmas.ReachL
import MelModel.Lemmas.Total
import MelModel.Lemmas.TotalSeal
namespace Mel
namespace ReachSealL
open Mel.Gen Mel.TotalSealL

/-- the slot discipline of the block implies what settlement needs of the coins: a coin sitting at output slot
    `i` of a transaction of the block is locked by the covenant of output `i` -/
theorem faithful_of_slots {txs : List Tx} {m : CoinMap} (h : ReachL.Slots txs m) : Faithful txs m := by
  intro tx htx i o c ho hc
  obtain ⟨o', hso, hcov⟩ := h tx htx i c hc
  rw [hcov, ReachL.SlotOut.unique hso (Or.inl ho)]

/-- `next_unsealed` keeps the pools -/
theorem nextUnsealed_pools {env : Env} {ss : Sealed} {s' : State} (h : nextUnsealed env ss = .ok s') :
    s'.pools = ss.st.pools := by
  unfold nextUnsealed at h
  obtain ⟨hdr, -, h⟩ := Outcome.bind_eq_ok h
  simp only at h
  split at h <;> cases h <;> rfl

/-- the TIP-902 flag depends on the network and the height only -/
theorem tip902_congr {a b : State} (hn : a.network = b.network) (hh : a.height = b.height) : a.tip902 = b.tip902 := by
  unfold State.tip902 State.tipCondition
  rw [hn, hh]

/-- `createNextState_noCrash` (Lemmas/Total.lean) with the count invariant assumed only when TIP-906 is active:
    before the activation `insert_coin` and `remove_coin` are called with the flag off and never look at the
    counts -/
theorem createNextState_noCrash' (env : Env) (s : State) (txs : List Tx) (rel : Relevant)
    (hc : s.tip906 = true → CountsOk s.coins)
    (hfresh : ∀ t ∈ txs, ∀ i, s.coins.getCoin ⟨t.hash, i⟩ = none)
    (hw : ∀ t ∈ txs, (t.covenants.map covenantWeightFromBytes).sum ≤ U128_MAX) :
    NoCrash (createNextState env s txs rel s.tip906) := by
  rw [createNextState_eq]
  refine NoCrash.foldlM' _ (fun st => st.tip906 = s.tip906 ∧ CInv s.tip906 st.coins) txs ?_ _ ⟨rfl, ?_⟩
  · intro st ⟨ht, hinv⟩ tx htx
    obtain ⟨n1, n2⟩ := nextStep_inv (env := env) ht hinv (hw tx htx)
    exact ⟨n1, n2⟩
  · refine insFold_inv rel s.tip906 s.coins (outputIds txs) ?_ s.coins hc (fun k c h => Or.inl h)
    intro id hid
    obtain ⟨tx, htx, i, rfl⟩ := mem_outputIds hid
    exact hfresh tx htx i

/-- `applyBatch_noCrash` (Lemmas/Total.lean) with the count invariant assumed only when TIP-906 is active -/
theorem applyBatch_noCrash' (env : Env) (s : State) (txs : List Tx) (fb : Header)
    (hc : s.tip906 = true → CountsOk s.coins)
    (hfresh : ∀ t ∈ txs, ∀ i, s.coins.getCoin ⟨t.hash, i⟩ = none)
    (hheights : ∀ id c, s.coins.getCoin id = some c → c.height ≤ s.height)
    (hbounded : (s.coins.coins.map (·.2.coinData.value)).sum + ((txs.flatMap (·.outputs)).map (·.value)).sum
      ≤ U128_MAX)
    (hspeeds : ∀ h hdr, s.history.get h = some hdr → 0 < hdr.doscSpeed)
    (hbelow : ∀ h hdr, s.history.get h = some hdr → h < s.height)
    (hdiff : ∀ a b c d, env.powOk a b c d ≠ .invalid → c ≤ 100)
    (hfits : ∀ hdr, s.history.get (s.height - 1) = some hdr → ∀ a b d t, env.powOk a b d t ≠ .invalid →
      microergsIter s.height * ((TIP910_WORK_FACTOR * 2 ^ d) * (TIP910_SPEED_FACTOR * 2 ^ d) * MICRO_CONVERTER /
        (hdr.doscSpeed ^ 2 * REWARD_DIVISOR)) / MICRO_CONVERTER ≤ U128_MAX) :
    NoCrash (applyBatch env s txs fb) := by
  unfold applyBatch
  refine NoCrash.bind (loadRelevantCoins_noCrash s txs) ?_
  intro rel hrel
  have hw : ∀ t ∈ txs, (t.covenants.map covenantWeightFromBytes).sum ≤ U128_MAX := by
    intro t ht
    have h := ((loadRelevantCoins_ok hrel).1 t ht).2.2
    simpa [Tx.covWeightsFit] using h
  refine NoCrash.bind (loadStakeInfo_noCrash s txs) ?_
  intro ns _
  dsimp only
  refine NoCrash.bind (NoCrash.forM' _ _ ?_) ?_
  · intro tx htx
    exact checkTxValidity_noCrash _ _ _ _ _ _ (inputs_value_bound hrel hbounded htx)
  · intro u hu
    have hall : ∀ tx ∈ txs, checkTxValidity env s (lastHeaderOf s fb) tx rel ns = .ok () :=
      (Outcome.forM'_eq_ok _ _).mp hu
    refine NoCrash.bind ?_ ?_
    · refine NoCrash.foldlM' _ (fun _ => True) txs ?_ _ trivial
      intro sp _ tx htx
      refine ⟨?_, fun _ _ => trivial⟩
      split
      · rename_i hk
        have hkf : tx.kind ≠ .faucet := by rw [hk]; decide
        exact NoCrash.bind
          (validateDoscmint_noCrash (checkTxValidity_ok_inputs hkf (hall tx htx)) (rel_heights hrel hheights)
            hdiff hbelow hspeeds hfits)
          (fun _ _ => NoCrash.ok _)
      · exact NoCrash.ok _
    · intro newSpeed _
      exact NoCrash.bind (createNextState_noCrash' env s txs rel hc hfresh hw) (fun _ _ => NoCrash.ok _)

end ReachSealL
end Mel
