/- helper lemmas for C13 -/
import MelModel.Chain
import MelModel.Lemmas.Counts
import MelModel.Lemmas.Confirm
namespace Mel
end Mel
