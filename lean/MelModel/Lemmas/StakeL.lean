/- helper lemmas for C13 -/
import MelModel.Chain
import MelModel.Lemmas.Counts
import MelModel.Lemmas.Confirm
import MelModel.Lemmas.FeeMult
namespace Mel
open Mel.Gen

/-! ### generic facts about `Outcome` folds -/

theorem Outcome.bind_ne_ok_of_ne_ok {α β} {x : Outcome α} (f : α → Outcome β)
    (h : ∀ a, x ≠ .ok a) : ∀ b, x.bind f ≠ .ok b := by
  intro b hb
  obtain ⟨a, ha, _⟩ := Outcome.bind_eq_ok hb
  exact h a ha

/-- in a successful fold every element was processed successfully from some accumulator -/
theorem Outcome.foldlM'_ok_mem {α β} (f : β → α → Outcome β) :
    ∀ (l : List α) (b b' : β) (a : α), a ∈ l → Outcome.foldlM' f b l = .ok b' →
      ∃ b1 b2, f b1 a = .ok b2 := by
  intro l
  induction l with
  | nil => intro b b' a ha; cases ha
  | cons x xs ih =>
    intro b b' a ha h
    simp only [Outcome.foldlM'] at h
    split at h
    · next b1 hb1 =>
      rcases List.mem_cons.mp ha with rfl | ha
      · exact ⟨b, b1, hb1⟩
      · exact ih b1 b' a ha h
    · cases h
    · cases h

theorem Outcome.forM'_ok_mem {α} (f : α → Outcome Unit) :
    ∀ (l : List α) (a : α), a ∈ l → Outcome.forM' f l = .ok () → f a = .ok () := by
  intro l
  induction l with
  | nil => intro a ha; cases ha
  | cons x xs ih =>
    intro a ha h
    simp only [Outcome.forM'] at h
    split at h
    · next hx =>
      rcases List.mem_cons.mp ha with rfl | ha
      · exact hx
      · exact ih a ha h
    · cases h
    · cases h

/-! ### `AList` lookups -/

namespace AList
variable {κ ν : Type} [DecidableEq κ]

/-- replaying a list of entries (last to first) with `set` onto a base map: the lookup is the
    list's own lookup, falling back to the base -/
theorem get_foldr_set (l : AList κ ν) (base : AList κ ν) (k : κ) :
    get (l.foldr (fun e acc => set acc e.1 e.2) base) k = (get l k).or (get base k) := by
  induction l with
  | nil => simp [get]
  | cons e rest ih =>
    obtain ⟨k', v⟩ := e
    simp only [List.foldr_cons]
    by_cases h : k' = k
    · subst h; rw [get_set_self]; simp [get_cons]
    · have h' : k ≠ k' := fun h2 => h h2.symm
      rw [get_set_ne _ _ h', ih]; simp [get_cons, h]

theorem get_reverse_foldl_set (l : AList κ ν) (base : AList κ ν) (k : κ) :
    get (l.reverse.foldl (fun acc e => set acc e.1 e.2) base) k = (get l k).or (get base k) := by
  rw [List.foldl_reverse]; exact get_foldr_set l base k

/-- with unique keys, filtering keeps exactly the entries satisfying the predicate -/
theorem get_filter (p : κ × ν → Bool) (m : AList κ ν) (hn : (keys m).Nodup) (k : κ) :
    get (m.filter p) k =
      match get m k with
      | some v => if p (k, v) then some v else none
      | none => none := by
  induction m with
  | nil => simp [get]
  | cons e rest ih =>
    obtain ⟨k', v⟩ := e
    simp only [keys, List.map_cons, List.nodup_cons] at hn
    have ih' := ih hn.2
    by_cases h : k' = k
    · subst h
      have hnone : get rest k' = none := (get_eq_none_iff_not_mem_keys _ _).mpr hn.1
      rw [hnone] at ih'
      simp only [List.filter_cons, get_cons, if_true]
      by_cases hp : p (k', v) = true
      · simp [hp, get_cons]
      · simp [hp, ih']
    · simp only [List.filter_cons, get_cons, h, if_false]
      by_cases hp : p (k', v) = true
      · simp [hp, get_cons, h, ih']
      · simp [hp, ih']

theorem contains_set (m : AList κ ν) (k k' : κ) (v : ν) (h : contains m k' = true) :
    contains (set m k v) k' = true := by
  unfold contains at *
  by_cases hk : k' = k
  · subst hk; rw [get_set_self]; rfl
  · rw [get_set_ne _ _ hk]; exact h

theorem contains_set_self (m : AList κ ν) (k : κ) (v : ν) : contains (set m k v) k = true := by
  unfold contains; rw [get_set_self]; rfl

end AList

/-! ### the stake set is untouched by sealing -/

def SameSt (s s' : State) : Prop := s'.stakes = s.stakes

theorem SameSt.refl (s : State) : SameSt s s := rfl
theorem SameSt.trans {a b c : State} (h1 : SameSt a b) (h2 : SameSt b c) : SameSt a c :=
  Eq.trans h2 h1

theorem processSwapsForPool_sameSt (k : PoolKey) (s : State) (swaps : List Tx) (s' : State)
    (h : processSwapsForPool k s swaps = .ok s') : SameSt s s' := by
  unfold processSwapsForPool at h
  split at h
  · cases h
  · simp only at h
    split at h
    · cases h
    · cases h
    · obtain ⟨coins, _, h2⟩ := Outcome.bind_eq_ok h
      cases h2; rfl

theorem processSwaps_sameSt (s s' : State) (h : processSwaps s = .ok s') : SameSt s s' := by
  unfold processSwaps at h
  exact Outcome.foldlM'_inv (SameSt s) _
    (fun b a b' hb hf => hb.trans (processSwapsForPool_sameSt _ _ _ _ hf)) _ _ _ (SameSt.refl s) h

theorem processDepositsForPool_sameSt (env : Env) (k : PoolKey) (s : State) (deps : List Tx) (s' : State)
    (h : processDepositsForPool env k s deps = .ok s') : SameSt s s' := by
  unfold processDepositsForPool at h
  simp only at h
  split at h
  · cases h
  · cases h
  · split at h
    · cases h; exact SameSt.refl s
    · obtain ⟨coins, _, h2⟩ := Outcome.bind_eq_ok h
      cases h2; rfl

theorem processDeposits_sameSt (env : Env) (s s' : State) (h : processDeposits env s = .ok s') :
    SameSt s s' := by
  unfold processDeposits at h
  exact Outcome.foldlM'_inv (SameSt s) _
    (fun b a b' hb hf => hb.trans (processDepositsForPool_sameSt _ _ _ _ _ hf)) _ _ _ (SameSt.refl s) h

theorem processWithdrawalsForPool_sameSt (k : PoolKey) (s : State) (reqs : List Tx) (s' : State)
    (h : processWithdrawalsForPool k s reqs = .ok s') : SameSt s s' := by
  unfold processWithdrawalsForPool at h
  simp only at h
  split at h
  · cases h
  · split at h
    · cases h; exact SameSt.refl _
    · split at h
      · cases h
      · cases h
      · obtain ⟨coins, _, h2⟩ := Outcome.bind_eq_ok h
        cases h2; rfl

theorem processWithdrawals_sameSt (env : Env) (s s' : State) (h : processWithdrawals env s = .ok s') :
    SameSt s s' := by
  unfold processWithdrawals at h
  exact Outcome.foldlM'_inv (SameSt s) _
    (fun b a b' hb hf => hb.trans (processWithdrawalsForPool_sameSt _ _ _ _ hf)) _ _ _ (SameSt.refl s) h

theorem createBuiltins_sameSt (s : State) : SameSt s (createBuiltins s) := rfl

theorem processPegging_sameSt (s s' : State) (h : processPegging s = .ok s') : SameSt s s' := by
  unfold processPegging at h
  simp only at h
  obtain ⟨⟨a, b⟩, _, h⟩ := Outcome.bind_eq_ok h
  simp only at h
  obtain ⟨sm, _, h⟩ := Outcome.bind_eq_ok h
  split at h
  · cases h
  · obtain ⟨sm1, _, h⟩ := Outcome.bind_eq_ok h
    obtain ⟨sm2, _, h⟩ := Outcome.bind_eq_ok h
    cases h; rfl

theorem presealMelmint_sameSt (env : Env) (s s' : State) (h : presealMelmint env s = .ok s') :
    SameSt s s' := by
  unfold presealMelmint at h
  simp only at h
  split at h
  · cases h
  · obtain ⟨s1, h1, h⟩ := Outcome.bind_eq_ok h
    obtain ⟨s2, h2, h⟩ := Outcome.bind_eq_ok h
    obtain ⟨s3, h3, h⟩ := Outcome.bind_eq_ok h
    exact ((((createBuiltins_sameSt s).trans (processSwaps_sameSt _ _ h1)).trans
      (processDeposits_sameSt _ _ _ h2)).trans (processWithdrawals_sameSt _ _ _ h3)).trans
      ((createBuiltins_sameSt s3).trans (processPegging_sameSt _ _ h))

theorem applyTip909_sameSt (s s' : State) (h : applyTip909 s = .ok s') : SameSt s s' := by
  unfold applyTip909 at h
  simp only at h
  split at h
  · cases h
  · split at h
    · cases h
    · obtain ⟨⟨sm', mel, x⟩, _, h⟩ := Outcome.bind_eq_ok h
      simp only at h
      split at h
      · cases h
      · split at h
        · cases h
        · obtain ⟨⟨es', y, z⟩, _, h⟩ := Outcome.bind_eq_ok h
          cases h; rfl

theorem collectProposerFee_sameSt (env : Env) (s : State) (a : ProposerAction) (s' : State)
    (h : collectProposerFee env s a = .ok s') : SameSt s s' := by
  unfold collectProposerFee at h
  simp only at h
  split at h
  · cases h
  · cases h; rfl

theorem applyProposerAction_sameSt (env : Env) (s : State) (a : ProposerAction) (s' : State)
    (h : applyProposerAction env s a = .ok s') : SameSt s s' := by
  unfold applyProposerAction at h
  have := collectProposerFee_sameSt _ _ _ _ h
  exact this

theorem sealState_sameSt (env : Env) (s : State) (action : Option ProposerAction) (ss : Sealed)
    (h : sealState env s action = .ok ss) : ss.st.stakes = s.stakes := by
  unfold sealState at h
  obtain ⟨s1, h1, h⟩ := Outcome.bind_eq_ok h
  have e1 : SameSt s s1 := presealMelmint_sameSt _ _ _ h1
  split at h
  · cases h
  · obtain ⟨s2, h2, h⟩ := Outcome.bind_eq_ok h
    have e2 : SameSt s1 s2 := by
      split at h2
      · exact applyTip909_sameSt _ _ h2
      · cases h2; exact SameSt.refl _
    split at h
    · cases h; exact e1.trans e2
    · obtain ⟨s3, h3, h⟩ := Outcome.bind_eq_ok h
      cases h
      exact (e1.trans e2).trans (applyProposerAction_sameSt _ _ _ _ h3)

/-! ### `createNextState` never changes the stakes -/

theorem handleFaucetTx_stakes (env : Env) (s : State) (tx : Tx) (s' : State)
    (h : handleFaucetTx env s tx = .ok s') : s'.stakes = s.stakes := by
  unfold handleFaucetTx at h
  simp only at h
  split at h
  · cases h
  · split at h
    · cases h
    · split at h
      · cases h; rfl
      · cases h; rfl

theorem createNextState_stakes (env : Env) (s : State) (txs : List Tx) (rel : Relevant) (tip : Bool)
    (s' : State) (h : createNextState env s txs rel tip = .ok s') : s'.stakes = s.stakes := by
  unfold createNextState at h
  simp only at h
  refine Outcome.foldlM'_inv (fun st : State => st.stakes = s.stakes) _ ?_ _ _ _ (by rfl) h
  intro b a b' hb hf
  split at hf
  · cases hf
  obtain ⟨st1, h1, hf⟩ := Outcome.bind_eq_ok hf
  obtain ⟨c2, _, hf⟩ := Outcome.bind_eq_ok hf
  obtain ⟨mf, _, hf⟩ := Outcome.bind_eq_ok hf
  have e1 : st1.stakes = b.stakes := by
    split at h1
    · exact handleFaucetTx_stakes _ _ _ _ h1
    · cases h1; rfl
  split at hf
  · cases hf
  · cases hf; exact e1.trans hb

/-! ### `loadStakeInfo` -/

/-- copy of `Registers` (Props/C13.lean), definitionally the same -/
def StakeRegisters (s : State) (tx : Tx) (d : StakeDoc) : Prop :=
  tx.kind = .stake ∧ legacyStakeReg s = false ∧ tx.stakeDoc = some d ∧
  ∃ first, tx.outputs.head? = some first ∧ first.denom = .sym ∧
    d.eStart > s.epoch ∧ d.ePostEnd > d.eStart ∧ d.symsStaked = first.value

theorem StakeRegisters.unique {s : State} {tx : Tx} {d d' : StakeDoc}
    (h : StakeRegisters s tx d) (h' : StakeRegisters s tx d') : d = d' := by
  have := h.2.2.1.symm.trans h'.2.2.1
  exact Option.some.inj this

/-- one step of `load_stake_info` -/
def stakeStep (s : State) (acc : AList Hash StakeDoc) (tx : Tx) : Outcome (AList Hash StakeDoc) :=
  if tx.kind ≠ .stake then .ok acc
  else if legacyStakeReg s then .ok acc
  else match tx.stakeDoc with
    | none => .reject .malformedTx
    | some d =>
      match tx.outputs with
      | [] => .reject .malformedTx
      | first :: _ =>
        if first.denom ≠ .sym then .reject .malformedTx
        else if stakeIsConsistent d s.epoch first then .ok (acc.set tx.hash d)
        else .ok acc

theorem loadStakeInfo_eq (s : State) (txs : List Tx) :
    loadStakeInfo s txs = Outcome.foldlM' (stakeStep s) [] txs := rfl

theorem stakeStep_ok (s : State) (acc acc' : AList Hash StakeDoc) (tx : Tx)
    (h : stakeStep s acc tx = .ok acc') :
    (∃ d, StakeRegisters s tx d ∧ acc' = acc.set tx.hash d) ∨
    ((∀ d, ¬ StakeRegisters s tx d) ∧ acc' = acc) := by
  unfold stakeStep at h
  split at h
  · next hk =>
    cases h
    exact .inr ⟨fun d hd => hk hd.1, rfl⟩
  · split at h
    · next hl =>
      cases h
      exact .inr ⟨fun d hd => by have := hd.2.1; simp [hl] at this, rfl⟩
    · next hk hl =>
      split at h
      · cases h
      · next d hd =>
        split at h
        · cases h
        · next first rest ho =>
          split at h
          · cases h
          · next hden =>
            split at h
            · next hc =>
              cases h
              left
              refine ⟨d, ⟨by simpa using hk, by simpa using hl, hd, first, by simp [ho], by simpa using hden, ?_⟩, rfl⟩
              simpa [stakeIsConsistent, and_assoc] using hc
            · next hc =>
              cases h
              right
              refine ⟨?_, rfl⟩
              intro d' hd'
              obtain ⟨_, _, hdoc, f, hf, _, h1, h2, h3⟩ := hd'
              rw [hd] at hdoc; cases hdoc
              simp [ho] at hf; subst hf
              apply hc
              simp [stakeIsConsistent, h1, h2, h3]

/-- a malformed stake transaction stops `load_stake_info` -/
theorem stakeStep_malformed (s : State) (tx : Tx) (hk : tx.kind = .stake) (hl : legacyStakeReg s = false)
    (hbad : tx.stakeDoc = none ∨ tx.outputs = [] ∨ ∃ o, tx.outputs.head? = some o ∧ o.denom ≠ .sym)
    (acc acc' : AList Hash StakeDoc) : stakeStep s acc tx ≠ .ok acc' := by
  intro h
  unfold stakeStep at h
  simp only [hk, hl, ne_eq, not_true_eq_false, if_false, Bool.false_eq_true] at h
  split at h
  · cases h
  · next d hd =>
    split at h
    · cases h
    · next first rest ho =>
      rcases hbad with hb | hb | ⟨o, ho', hden⟩
      · rw [hd] at hb; cases hb
      · rw [ho] at hb; cases hb
      · simp [ho] at ho'; subst ho'
        simp [hden] at h

theorem stakeFold_get_of_no_hash (s : State) (k : Hash) :
    ∀ (txs : List Tx) (acc out : AList Hash StakeDoc),
      Outcome.foldlM' (stakeStep s) acc txs = .ok out → (∀ tx ∈ txs, tx.hash ≠ k) →
      out.get k = acc.get k := by
  intro txs
  induction txs with
  | nil => intro acc out h _; simp only [Outcome.foldlM'] at h; cases h; rfl
  | cons x xs ih =>
    intro acc out h hne
    simp only [Outcome.foldlM'] at h
    split at h
    · next acc1 h1 =>
      rw [ih acc1 out h (fun tx ht => hne tx (List.mem_cons_of_mem _ ht))]
      have hx : k ≠ x.hash := fun e => hne x (List.mem_cons_self ..) e.symm
      rcases stakeStep_ok _ _ _ _ h1 with ⟨d, _, rfl⟩ | ⟨_, rfl⟩
      · exact AList.get_set_ne _ _ hx
      · rfl
    · cases h
    · cases h

/-- with distinct transaction hashes, the map built by `load_stake_info` holds exactly the registered
    documents (on top of the initial accumulator) -/
theorem stakeFold_get_iff (s : State) (k : Hash) (d : StakeDoc) :
    ∀ (txs : List Tx) (acc out : AList Hash StakeDoc),
      Outcome.foldlM' (stakeStep s) acc txs = .ok out → (txs.map (·.hash)).Nodup →
      (out.get k = some d ↔
        (∃ tx ∈ txs, tx.hash = k ∧ StakeRegisters s tx d) ∨
        ((∀ tx ∈ txs, tx.hash = k → ∀ d', ¬ StakeRegisters s tx d') ∧ acc.get k = some d)) := by
  intro txs
  induction txs with
  | nil =>
    intro acc out h _
    simp only [Outcome.foldlM'] at h; cases h
    simp
  | cons x xs ih =>
    intro acc out h hn
    simp only [List.map_cons, List.nodup_cons] at hn
    simp only [Outcome.foldlM'] at h
    split at h
    · next acc1 h1 =>
      by_cases hx : x.hash = k
      · -- no later transaction has this hash
        have hno : ∀ tx ∈ xs, tx.hash ≠ k := by
          intro tx ht e
          exact hn.1 (List.mem_map.mpr ⟨tx, ht, e.trans hx.symm⟩)
        rw [stakeFold_get_of_no_hash s k xs acc1 out h hno]
        rcases stakeStep_ok _ _ _ _ h1 with ⟨d0, hr, rfl⟩ | ⟨hnr, rfl⟩
        · rw [hx, AList.get_set_self]
          constructor
          · intro e; cases e
            exact .inl ⟨x, List.mem_cons_self .., hx, hr⟩
          · rintro (⟨tx, ht, htk, hreg⟩ | ⟨hall, _⟩)
            · rcases List.mem_cons.mp ht with rfl | ht
              · rw [hr.unique hreg]
              · exact absurd htk (hno tx ht)
            · exact absurd hr (hall x (List.mem_cons_self ..) hx d0)
        · constructor
          · intro e
            refine .inr ⟨?_, e⟩
            intro tx ht htk
            rcases List.mem_cons.mp ht with rfl | ht
            · exact hnr
            · exact absurd htk (hno tx ht)
          · rintro (⟨tx, ht, htk, hreg⟩ | ⟨_, e⟩)
            · rcases List.mem_cons.mp ht with rfl | ht
              · exact absurd hreg (hnr d)
              · exact absurd htk (hno tx ht)
            · exact e
      · have hacc : acc1.get k = acc.get k := by
          have hx' : k ≠ x.hash := fun e => hx e.symm
          rcases stakeStep_ok _ _ _ _ h1 with ⟨d0, _, rfl⟩ | ⟨_, rfl⟩
          · exact AList.get_set_ne _ _ hx'
          · rfl
        rw [ih acc1 out h hn.2, hacc]
        constructor
        · rintro (⟨tx, ht, htk, hreg⟩ | ⟨hall, e⟩)
          · exact .inl ⟨tx, List.mem_cons_of_mem _ ht, htk, hreg⟩
          · refine .inr ⟨?_, e⟩
            intro tx ht htk
            rcases List.mem_cons.mp ht with rfl | ht
            · exact absurd htk hx
            · exact hall tx ht htk
        · rintro (⟨tx, ht, htk, hreg⟩ | ⟨hall, e⟩)
          · rcases List.mem_cons.mp ht with rfl | ht
            · exact absurd htk hx
            · exact .inl ⟨tx, ht, htk, hreg⟩
          · exact .inr ⟨fun tx ht => hall tx (List.mem_cons_of_mem _ ht), e⟩
    · cases h
    · cases h

theorem stakeFold_contains_mono (s : State) (k : Hash) (txs : List Tx) (acc out : AList Hash StakeDoc)
    (h : Outcome.foldlM' (stakeStep s) acc txs = .ok out) (hc : acc.contains k = true) :
    out.contains k = true := by
  refine Outcome.foldlM'_inv (fun m : AList Hash StakeDoc => m.contains k = true) _ ?_ _ _ _ hc h
  intro b a b' hb hf
  rcases stakeStep_ok _ _ _ _ hf with ⟨d0, _, rfl⟩ | ⟨_, rfl⟩
  · exact AList.contains_set _ _ _ _ hb
  · exact hb

/-- a registering transaction's hash is a key of the map built by `load_stake_info` (a later
    transaction with the same hash can overwrite but not delete it) -/
theorem stakeFold_contains (s : State) (t : Tx) (d : StakeDoc) (hr : StakeRegisters s t d) :
    ∀ (txs : List Tx) (acc out : AList Hash StakeDoc),
      Outcome.foldlM' (stakeStep s) acc txs = .ok out → t ∈ txs → out.contains t.hash = true := by
  intro txs
  induction txs with
  | nil => intro acc out _ ht; cases ht
  | cons x xs ih =>
    intro acc out h ht
    simp only [Outcome.foldlM'] at h
    split at h
    · next acc1 h1 =>
      rcases List.mem_cons.mp ht with rfl | ht
      · apply stakeFold_contains_mono s _ xs acc1 out h
        rcases stakeStep_ok _ _ _ _ h1 with ⟨d0, _, rfl⟩ | ⟨hnr, rfl⟩
        · exact AList.contains_set_self _ _ _
        · exact absurd hr (hnr d)
      · exact ih acc1 out h ht
    · cases h
    · cases h

theorem loadStakeInfo_legacy (s : State) (txs : List Tx) (h : legacyStakeReg s = true) :
    loadStakeInfo s txs = .ok [] := by
  rw [loadStakeInfo_eq]
  generalize ([] : AList Hash StakeDoc) = acc
  induction txs with
  | nil => rfl
  | cons x xs ih =>
    have : stakeStep s acc x = .ok acc := by
      unfold stakeStep; simp [h]
    simp only [Outcome.foldlM', this, ih]

/-! ### decomposition of a successful `applyBatch` -/

-- (in `Mel.StakeLL`: the name `applyBatch_ok` also occurs in Lemmas/Batch.lean)
theorem StakeLL.applyBatch_ok (env : Env) (s s' : State) (txs : List Tx) (fb : Header)
    (h : applyBatch env s txs fb = .ok s') :
    ∃ rel newStakes,
      loadRelevantCoins s txs = .ok rel ∧ loadStakeInfo s txs = .ok newStakes ∧
      Outcome.forM' (fun tx => checkTxValidity env s (lastHeaderOf s fb) tx rel newStakes) txs = .ok () ∧
      s'.stakes = newStakes.reverse.foldl (fun st e => StakeSet.addStake st e.1 e.2) s.stakes := by
  unfold applyBatch at h
  obtain ⟨rel, hrel, h⟩ := Outcome.bind_eq_ok h
  obtain ⟨ns, hns, h⟩ := Outcome.bind_eq_ok h
  obtain ⟨u, hu, h⟩ := Outcome.bind_eq_ok h
  obtain ⟨sp, _, h⟩ := Outcome.bind_eq_ok h
  obtain ⟨next, hnext, h⟩ := Outcome.bind_eq_ok h
  cases h
  refine ⟨rel, ns, hrel, hns, hu, ?_⟩
  simp only
  rw [createNextState_stakes _ _ _ _ _ _ hnext]

/-- the input-processing step of `check_tx_validity` hits the lock test -/
theorem checkTxValidity_locked (env : Env) (s : State) (lh : Header) (tx : Tx) (rel : Relevant)
    (ns : AList Hash StakeDoc) (id : CoinID) (hid : id ∈ tx.inputs) (hl : legacyStakeLock s = false)
    (hlock : (ns.contains id.txhash || (s.stakes.getStake id.txhash).isSome) = true) :
    checkTxValidity env s lh tx rel ns ≠ .ok () := by
  intro h
  unfold checkTxValidity at h
  obtain ⟨inCoins, hgo, _⟩ := Outcome.bind_eq_ok h
  obtain ⟨i, hi⟩ : ∃ i, (id, i) ∈ tx.inputs.zipIdx := by
    obtain ⟨i, hi, rfl⟩ := List.getElem_of_mem hid
    exact ⟨i, by simp [List.mem_zipIdx_iff_getElem?]⟩
  obtain ⟨b1, b2, hstep⟩ := Outcome.foldlM'_ok_mem _ _ _ _ _ hi hgo
  simp [hlock, hl] at hstep

end Mel
