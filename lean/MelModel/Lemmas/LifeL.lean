/-
  Helper lemmas for Props/C13Life.lean.
-/
import MelModel.Chain
import MelModel.Lemmas.StakeL
import MelModel.Lemmas.ChainL
import MelModel.Lemmas.TotalSeal
namespace Mel
namespace LifeL
open Mel.Gen Mel.StakeLL

/-! ### heights -/

theorem batch_height {env : Env} {s s' : State} {txs : List Tx} {fb : Header}
    (h : applyBatch env s txs fb = .ok s') : s'.height = s.height :=
  (applyBatch_hhn env s txs fb s' h).2.1

theorem block_height {env : Env} {s s' : State} {ss : Sealed} {a : Option ProposerAction}
    (h1 : sealState env s a = .ok ss) (h2 : nextUnsealed env ss = .ok s') : s'.height = s.height + 1 := by
  obtain ⟨_, _, _, e, _⟩ := nextUnsealed_ok env ss s' h2
  rw [e, (sealState_hhn env s a ss h1).2.1]

theorem epoch_mono {s s' : State} (h : s.height ≤ s'.height) : s.epoch ≤ s'.epoch :=
  Nat.div_le_div_right h

/-! ### stake sets -/

theorem keys_nodup_foldl_set (l : List (Hash × StakeDoc)) :
    ∀ (base : StakeSet), (AList.keys base).Nodup →
      (AList.keys (l.foldl (fun st e => StakeSet.addStake st e.1 e.2) base)).Nodup := by
  induction l with
  | nil => intro base hb; exact hb
  | cons e rest ih =>
    intro base hb
    simp only [List.foldl_cons]
    exact ih _ (AList.keys_nodup_set e.1 e.2 hb)

/-- an accepted batch keeps stake keys unique -/
theorem batch_keys_nodup {env : Env} {s s' : State} {txs : List Tx} {fb : Header}
    (h : applyBatch env s txs fb = .ok s') (hu : (s.stakes.map (·.1)).Nodup) :
    (s'.stakes.map (·.1)).Nodup := by
  obtain ⟨_, ns, _, _, _, hst⟩ := applyBatch_ok env s s' txs fb h
  rw [hst]
  exact keys_nodup_foldl_set ns.reverse s.stakes hu

/-- the stakes of the next block are the sealed stakes minus the expired ones -/
theorem block_stakes {env : Env} {s s' : State} {ss : Sealed} {a : Option ProposerAction}
    (h1 : sealState env s a = .ok ss) (h2 : nextUnsealed env ss = .ok s') :
    s'.stakes = s.stakes.unlockOld ((s.height + 1) / STAKE_EPOCH) := by
  have hs : s'.stakes = ss.st.stakes.unlockOld ((ss.st.height + 1) / STAKE_EPOCH) := by
    unfold nextUnsealed at h2
    obtain ⟨hdr, _, h⟩ := Outcome.bind_eq_ok h2
    simp only at h
    split at h <;> (cases h; rfl)
  rw [hs, sealState_sameSt env s a ss h1, (sealState_hhn env s a ss h1).2.1]

/-- sealing and opening the next block keeps stake keys unique -/
theorem block_keys_nodup {env : Env} {s s' : State} {ss : Sealed} {a : Option ProposerAction}
    (h1 : sealState env s a = .ok ss) (h2 : nextUnsealed env ss = .ok s') (hu : (s.stakes.map (·.1)).Nodup) :
    (s'.stakes.map (·.1)).Nodup := by
  rw [block_stakes h1 h2]
  exact List.Nodup.sublist (List.Sublist.map _ List.filter_sublist) hu

/-- a batch without a transaction of hash `k` leaves the entry of `k` alone -/
theorem batch_get_avoid {env : Env} {s s' : State} {txs : List Tx} {fb : Header}
    (h : applyBatch env s txs fb = .ok s') (k : Hash) (hne : ∀ t ∈ txs, t.hash ≠ k) :
    s'.stakes.getStake k = s.stakes.getStake k := by
  obtain ⟨_, ns, _, hns, _, hst⟩ := applyBatch_ok env s s' txs fb h
  rw [loadStakeInfo_eq] at hns
  have hnone : AList.get ns k = none := by
    rw [stakeFold_get_of_no_hash s k txs [] ns hns hne]; rfl
  have hget : s'.stakes.getStake k = (AList.get ns k).or (s.stakes.getStake k) := by
    rw [hst]; exact AList.get_reverse_foldl_set ns s.stakes k
  rw [hget, hnone, Option.none_or]

/-- the entry of `k` after a block step (unique keys) -/
theorem block_get {env : Env} {s s' : State} {ss : Sealed} {a : Option ProposerAction}
    (h1 : sealState env s a = .ok ss) (h2 : nextUnsealed env ss = .ok s') (hu : (s.stakes.map (·.1)).Nodup)
    (k : Hash) :
    s'.stakes.getStake k =
      match s.stakes.getStake k with
      | some d => if d.ePostEnd ≥ s'.epoch then some d else none
      | none => none := by
  have he : s'.epoch = (s.height + 1) / STAKE_EPOCH := by
    unfold State.epoch; rw [block_height h1 h2]
  rw [block_stakes h1 h2, he]
  unfold StakeSet.unlockOld StakeSet.getStake
  rw [AList.get_filter _ _ hu]
  cases AList.get s.stakes k with
  | none => rfl
  | some d => simp

/-! ### votes -/

theorem le_sum_of_mem {α} (f : α → Nat) : ∀ (l : List α) (x : α), x ∈ l → f x ≤ (l.map f).sum := by
  intro l
  induction l with
  | nil => intro x hx; cases hx
  | cons y ys ih =>
    intro x hx
    simp only [List.map_cons, List.sum_cons]
    rcases List.mem_cons.mp hx with rfl | hx
    · exact Nat.le_add_right _ _
    · exact Nat.le_trans (ih x hx) (Nat.le_add_left _ _)

/-- a registered active stake counts for its key -/
theorem votes_ge_of_get {st : StakeSet} {k : Hash} {d : StakeDoc} (hg : st.getStake k = some d) (epoch : Nat)
    (h1 : d.eStart ≤ epoch) (h2 : epoch < d.ePostEnd) : d.symsStaked ≤ st.votes epoch d.pubkey := by
  have hm : (k, d) ∈ st := AList.mem_of_get_eq_some hg
  unfold StakeSet.votes
  refine le_sum_of_mem (fun e : Hash × StakeDoc => e.2.symsStaked) _ (k, d) ?_
  rw [List.mem_filter]
  refine ⟨hm, ?_⟩
  simp [StakeSet.active, h1, h2]

/-! ### opening the next block succeeds when the previous header is on record -/

theorem nextUnsealed_isOk (env : Env) (ss : Sealed) (ph : Header)
    (hh : ss.st.history.get (ss.st.height - 1) = some ph) : ∃ s', nextUnsealed env ss = .ok s' := by
  unfold nextUnsealed headerOf
  simp only [hh]
  split
  · simp only [Outcome.bind]
    split <;> exact ⟨_, rfl⟩
  · simp only [Outcome.bind]
    split <;> exact ⟨_, rfl⟩

/-! ### a concrete run across an epoch boundary -/

namespace Witness

def env : Env := {
  vm := { hash := id, sigOk := fun _ _ _ => true },
  liqHash := id, fdp := fun h => 9 :: h, rewardId := fun _ => [], hdrHash := fun _ => [],
  powOk := fun _ _ _ _ => .invalid, isGrandfathered := fun _ => false,
  historyRoot := fun _ => [], coinsRoot := fun _ => [], txsRoot := fun _ _ => [],
  poolsRoot := fun _ => [], stakesRoot := fun _ => [] }

/-- a stake whose end field is epoch 0 -/
def doc : StakeDoc := { pubkey := [], eStart := 0, ePostEnd := 0, symsStaked := 0 }

/-- an otherwise empty off-mainnet state at the last height of epoch 0, holding the stake `doc` under hash `[1]` -/
def s0 : State := {
  network := .custom02, height := STAKE_EPOCH - 1, history := [(STAKE_EPOCH - 2, default)], coins := {},
  txs := [], feePool := 0, feeMultiplier := 0, tips := 0, doscSpeed := 0, pools := [],
  stakes := [([1], doc)] }

theorem seal_ok : ∃ ss, sealState env s0 none = .ok ss := by
  have hpools : ∀ k, s0.pools.get k = none := fun k => rfl
  refine sealState_ok env s0 none
    (fun _ => ⟨List.nodup_nil, List.nodup_nil, fun a => rfl, fun e he => nomatch he⟩)
    (fun tx htx => nomatch htx) List.nodup_nil
    (fun k p h => by rw [hpools] at h; cases h)
    (fun p h => by rw [hpools] at h; cases h)
    (by show melInflow [] ≤ 2 ^ 124; decide) (by show 0 + 0 + 2 ^ 21 ≤ 2 ^ 127; decide)
    (by show STAKE_EPOCH - 1 < TIP_909_HEIGHT + 128 * SUBSIDY_HALVING; decide)

/-- the state `s0` can be sealed and the next block opened; the new block is in epoch 1 -/
theorem crossing : ∃ ss s', sealState env s0 none = .ok ss ∧ nextUnsealed env ss = .ok s' ∧ s'.epoch = 1 := by
  obtain ⟨ss, hss⟩ := seal_ok
  obtain ⟨e1, e2, _⟩ := sealState_hhn env s0 none ss hss
  obtain ⟨s', hn⟩ := nextUnsealed_isOk env ss default (by rw [e1, e2]; rfl)
  refine ⟨ss, s', hss, hn, ?_⟩
  unfold State.epoch
  rw [block_height hss hn]
  rfl

end Witness

end LifeL
end Mel
