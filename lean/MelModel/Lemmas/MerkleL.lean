/- helper lemmas for the Merkle part of C07 -/
import MelModel.Merkle
namespace Mel.Merkle
end Mel.Merkle
