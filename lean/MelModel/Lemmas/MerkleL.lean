/- helper lemmas for the Merkle part of C07 -/
import MelModel.Merkle
namespace Mel.Merkle

/-! ### zero rules -/

@[simp] theorem hashData_nil (H : Hashers) : hashData H [] = Z := by simp [hashData]
@[simp] theorem hashNode_ZZ (H : Hashers) : hashNode H Z Z = Z := by simp [hashNode]

theorem rootOf_empty (H : Hashers) (n : Nat) : rootOf H n (fun _ => []) = Z := by
  induction n with
  | zero => simp [rootOf]
  | succ n ih => simp [rootOf, ih]

theorem rootOf_congr (H : Hashers) (n : Nat) (c₁ c₂ : List Bool → Bytes)
    (hc : ∀ k, k.length = n → c₁ k = c₂ k) : rootOf H n c₁ = rootOf H n c₂ := by
  induction n generalizing c₁ c₂ with
  | zero => simp [rootOf, hc [] rfl]
  | succ n ih =>
    simp only [rootOf]
    rw [ih (fun k => c₁ (false :: k)) (fun k => c₂ (false :: k)) (fun k hk => hc _ (by simp [hk])),
      ih (fun k => c₁ (true :: k)) (fun k => c₂ (true :: k)) (fun k hk => hc _ (by simp [hk]))]

namespace Tree

@[simp] theorem get_empty (k : List Bool) : Tree.empty.get k = [] := by
  cases k <;> rfl

theorem hash_eq_rootOf (H : Hashers) (n : Nat) (t : Tree) (h : t.WF n) : t.hash H = rootOf H n t.get := by
  induction n generalizing t with
  | zero =>
    cases t with
    | empty => simp [Tree.hash, rootOf]
    | leaf v => simp [Tree.hash, rootOf, Tree.get]
    | node l r => simp [Tree.WF] at h
  | succ n ih =>
    cases t with
    | empty => simp [Tree.hash, rootOf, rootOf_empty]
    | leaf v => simp [Tree.WF] at h
    | node l r =>
      simp only [Tree.WF] at h
      simp [Tree.hash, rootOf, Tree.get, ih l h.1, ih r h.2]

theorem empty_insert_wf (k : List Bool) (v : Bytes) : (Tree.empty.insert k v).WF k.length := by
  induction k with
  | nil => simp only [Tree.insert]; split <;> simp [Tree.WF]
  | cons b k ih => cases b <;> simp [Tree.insert, Tree.WF, ih]

theorem empty_insert_get (k k' : List Bool) (v : Bytes) (hk : k'.length = k.length) :
    (Tree.empty.insert k v).get k' = if k' = k then v else [] := by
  induction k generalizing k' with
  | nil =>
    cases k' with
    | nil => simp only [Tree.insert]; split <;> simp_all [Tree.get]
    | cons _ _ => simp at hk
  | cons b k ih =>
    cases k' with
    | nil => simp at hk
    | cons b' k' =>
      simp at hk
      cases b <;> cases b' <;> simp [Tree.insert, Tree.get, ih k' hk]

theorem insert_wf (n : Nat) (t : Tree) (k : List Bool) (v : Bytes) (h : t.WF n) (hk : k.length = n) :
    (t.insert k v).WF n := by
  induction n generalizing t k with
  | zero =>
    cases k with
    | nil => simp only [Tree.insert]; split <;> simp [Tree.WF]
    | cons _ _ => simp at hk
  | succ n ih =>
    cases k with
    | nil => simp at hk
    | cons b k =>
      simp at hk
      cases t with
      | empty =>
        have := empty_insert_wf k v
        rw [hk] at this
        cases b <;> simp [Tree.insert, Tree.WF, this]
      | leaf _ => simp [Tree.WF] at h
      | node l r =>
        simp only [Tree.WF] at h
        cases b <;> simp [Tree.insert, Tree.WF, h.1, h.2, ih _ _ h.1 hk, ih _ _ h.2 hk]

theorem get_insert (n : Nat) (t : Tree) (k k' : List Bool) (v : Bytes) (h : t.WF n) (hk : k.length = n)
    (hk' : k'.length = n) : (t.insert k v).get k' = if k' = k then v else t.get k' := by
  induction n generalizing t k k' with
  | zero =>
    cases k with
    | cons _ _ => simp at hk
    | nil =>
      cases k' with
      | cons _ _ => simp at hk'
      | nil => simp only [Tree.insert]; split <;> simp_all [Tree.get]
  | succ n ih =>
    cases k with
    | nil => simp at hk
    | cons b k =>
      cases k' with
      | nil => simp at hk'
      | cons b' k' =>
        simp at hk hk'
        cases t with
        | empty =>
          have := empty_insert_get k k' v (by omega)
          cases b <;> cases b' <;> simp [Tree.insert, Tree.get, this]
        | leaf _ => simp [Tree.WF] at h
        | node l r =>
          simp only [Tree.WF] at h
          cases b <;> cases b' <;> simp [Tree.insert, Tree.get, ih _ _ _ h.1 hk hk', ih _ _ _ h.2 hk hk']

end Tree

/-! ### proofs: completeness -/

/-- the fold performed by `verify` -/
def vfold (H : Hashers) (proof : List Hash) (key : List Bool) (v : Bytes) : Hash :=
  (List.zip proof key).foldr (fun e acc => if e.2 then hashNode H e.1 acc else hashNode H acc e.1) (hashData H v)

theorem verify_eq (H : Hashers) (root : Hash) (key : List Bool) (v : Bytes) (proof : List Hash) :
    verify H root key v proof = (root == vfold H proof key v) := rfl

theorem verify_iff (H : Hashers) (root : Hash) (key : List Bool) (v : Bytes) (proof : List Hash) :
    verify H root key v proof = true ↔ root = vfold H proof key v := by
  rw [verify_eq]; exact beq_iff_eq

@[simp] theorem vfold_nil (H : Hashers) (v : Bytes) : vfold H [] [] v = hashData H v := rfl

@[simp] theorem vfold_cons (H : Hashers) (s : Hash) (p : List Hash) (b : Bool) (k : List Bool) (v : Bytes) :
    vfold H (s :: p) (b :: k) v = if b then hashNode H s (vfold H p k v) else hashNode H (vfold H p k v) s := rfl

/-- left / right subtree, viewing `.empty` as a node of two empties -/
def Tree.left : Tree → Tree
  | .node l _ => l
  | _ => .empty
def Tree.right : Tree → Tree
  | .node _ r => r
  | _ => .empty
def Tree.child (t : Tree) (b : Bool) : Tree := if b then t.right else t.left

namespace Tree

theorem child_wf (n : Nat) (t : Tree) (b : Bool) (h : t.WF (n + 1)) : (t.child b).WF n := by
  cases t with
  | empty => cases b <;> simp [child, left, right, WF]
  | leaf _ => simp [WF] at h
  | node l r => simp only [WF] at h; cases b <;> simp [child, left, right, h.1, h.2]

theorem hash_succ (H : Hashers) (n : Nat) (t : Tree) (h : t.WF (n + 1)) :
    t.hash H = hashNode H (t.left.hash H) (t.right.hash H) := by
  cases t with
  | empty => simp [left, right, hash]
  | leaf _ => simp [WF] at h
  | node l r => simp [left, right, hash]

theorem get_cons (n : Nat) (t : Tree) (b : Bool) (k : List Bool) (h : t.WF (n + 1)) :
    t.get (b :: k) = (t.child b).get k := by
  cases t with
  | empty => cases b <;> simp [child, left, right]
  | leaf _ => simp [WF] at h
  | node l r => cases b <;> simp [child, left, right, get]

theorem prove_cons (H : Hashers) (n : Nat) (t : Tree) (b : Bool) (k : List Bool) (h : t.WF (n + 1)) :
    t.prove H (b :: k) = (t.child (!b)).hash H :: (t.child b).prove H k := by
  cases t with
  | empty => cases b <;> simp [child, left, right, prove, hash]
  | leaf _ => simp [WF] at h
  | node l r => cases b <;> simp [child, left, right, prove]

theorem prove_length (H : Hashers) (t : Tree) (k : List Bool) : (t.prove H k).length = k.length := by
  induction k generalizing t with
  | nil => simp [prove]
  | cons b k ih => cases t <;> cases b <;> simp [prove, ih]

theorem prove_fold (H : Hashers) (n : Nat) (t : Tree) (k : List Bool) (h : t.WF n) (hk : k.length = n) :
    vfold H (t.prove H k) k (t.get k) = t.hash H := by
  induction n generalizing t k with
  | zero =>
    cases k with
    | cons _ _ => simp at hk
    | nil =>
      cases t with
      | empty => simp [prove, hash]
      | leaf v => simp [prove, hash, get]
      | node _ _ => simp [WF] at h
  | succ n ih =>
    cases k with
    | nil => simp at hk
    | cons b k =>
      simp at hk
      rw [prove_cons H n t b k h, get_cons n t b k h, vfold_cons, ih _ _ (child_wf n t b h) hk, hash_succ H n t h]
      cases b <;> simp [child]

end Tree

/-! ### proofs: soundness -/

/-- injectivity of the raw hash functions away from the zero rules (mirror of `Mel.Injective`) -/
structure Inj (H : Hashers) : Prop where
  data_inj : ∀ a b, a ≠ [] → b ≠ [] → H.hData a = H.hData b → a = b
  data_nz : ∀ a, a ≠ [] → H.hData a ≠ Z
  node_inj : ∀ l r l' r', ¬(l = Z ∧ r = Z) → ¬(l' = Z ∧ r' = Z) → H.hNode l r = H.hNode l' r' → l = l' ∧ r = r'
  node_nz : ∀ l r, ¬(l = Z ∧ r = Z) → H.hNode l r ≠ Z

theorem hashData_inj (H : Hashers) (hi : Inj H) (a b : Bytes) (h : hashData H a = hashData H b) : a = b := by
  unfold hashData at h
  by_cases ha : a = [] <;> by_cases hb : b = []
  · rw [ha, hb]
  · simp only [ha, hb, if_true, if_false] at h; exact absurd h.symm (hi.data_nz b hb)
  · simp only [ha, hb, if_true, if_false] at h; exact absurd h (hi.data_nz a ha)
  · simp only [ha, hb, if_false] at h; exact hi.data_inj a b ha hb h

theorem hashNode_inj (H : Hashers) (hi : Inj H) (l r l' r' : Hash) (h : hashNode H l r = hashNode H l' r') :
    l = l' ∧ r = r' := by
  unfold hashNode at h
  by_cases ha : (l = Z ∧ r = Z) <;> by_cases hb : (l' = Z ∧ r' = Z)
  · exact ⟨ha.1.trans hb.1.symm, ha.2.trans hb.2.symm⟩
  · rw [if_pos ha, if_neg hb] at h; exact absurd h.symm (hi.node_nz l' r' hb)
  · rw [if_neg ha, if_pos hb] at h; exact absurd h (hi.node_nz l r ha)
  · rw [if_neg ha, if_neg hb] at h; exact hi.node_inj l r l' r' ha hb h

namespace Tree

theorem fold_sound (H : Hashers) (hi : Inj H) (n : Nat) (t : Tree) (k : List Bool) (v : Bytes)
    (proof : List Hash) (h : t.WF n) (hk : k.length = n) (hp : proof.length = n)
    (hv : t.hash H = vfold H proof k v) : t.get k = v := by
  induction n generalizing t k proof with
  | zero =>
    cases k with
    | cons _ _ => simp at hk
    | nil =>
      cases proof with
      | cons _ _ => simp at hp
      | nil =>
        rw [vfold_nil] at hv
        cases t with
        | empty =>
          have hv' : hashData H [] = hashData H v := by rw [hashData_nil]; exact hv
          simpa using hashData_inj H hi _ _ hv'
        | leaf w => simpa [get] using hashData_inj H hi _ _ hv
        | node _ _ => simp [WF] at h
  | succ n ih =>
    cases k with
    | nil => simp at hk
    | cons b k =>
      cases proof with
      | nil => simp at hp
      | cons s p =>
        simp at hk hp
        rw [hash_succ H n t h, vfold_cons] at hv
        rw [get_cons n t b k h]
        cases b with
        | false =>
          simp only [Bool.false_eq_true, if_false] at hv
          exact ih _ _ _ (child_wf n t false h) hk hp (hashNode_inj H hi _ _ _ _ hv).1
        | true =>
          simp only [if_true] at hv
          exact ih _ _ _ (child_wf n t true h) hk hp (hashNode_inj H hi _ _ _ _ hv).2

end Tree

/-! ### dense tree -/

theorem xor_one_eq (i : Nat) : i ^^^ 1 = if i % 2 = 1 then 2 * (i / 2) else 2 * (i / 2) + 1 := by
  have h1 := Nat.xor_div_two (a := i) (b := 1)
  have h2 := @Nat.xor_mod_two_eq_one i 1
  simp only [Nat.reduceDiv, Nat.xor_zero, Nat.reduceMod, iff_true] at h1 h2
  split <;> omega

theorem pairUp_length (H : Hashers) (lvl : List Hash) : (pairUp H lvl).length = lvl.length / 2 := by
  fun_induction pairUp H lvl with
  | case1 a b rest ih => simp [ih]; omega
  | case2 lvl hne =>
    match lvl, hne with
    | [], _ => simp
    | [_], _ => simp
    | a :: b :: rest, hne => exact absurd rfl (hne a b rest)

theorem pairUp_getD (H : Hashers) (lvl : List Hash) (j : Nat) (hj : 2 * j + 1 < lvl.length) :
    (pairUp H lvl).getD j Z = hashNode H (lvl.getD (2 * j) Z) (lvl.getD (2 * j + 1) Z) := by
  induction j generalizing lvl with
  | zero =>
    match lvl, hj with
    | a :: b :: rest, _ => simp [pairUp]
  | succ j ih =>
    match lvl, hj with
    | a :: b :: rest, hj =>
      simp at hj
      have := ih rest (by omega)
      simp only [pairUp, List.getD_cons_succ, this, Nat.mul_add, Nat.mul_one]

/-- the step of `verifyDense` -/
def dstep (H : Hashers) (acc : Hash × Nat) (elem : Hash) : Hash × Nat :=
  (if acc.2 % 2 = 1 then hashNode H elem acc.1 else hashNode H acc.1 elem, acc.2 / 2)

theorem dense_levels (H : Hashers) (d : Nat) (lvl : List Hash) (i : Nat) (hl : lvl.length = 2 ^ d) (hi : i < 2 ^ d) :
    ((denseProofLevels H d lvl i).foldl (dstep H) (lvl.getD i Z, i)).1 = (reduce H d lvl).headD Z := by
  induction d generalizing lvl i with
  | zero =>
    simp at hl hi
    subst hi
    match lvl, hl with
    | [a], _ => simp [denseProofLevels, reduce]
  | succ d ih =>
    have hlen : (pairUp H lvl).length = 2 ^ d := by rw [pairUp_length, hl, Nat.pow_succ]; omega
    have hi2 : i / 2 < 2 ^ d := by rw [Nat.pow_succ] at hi; omega
    have hstep : dstep H (lvl.getD i Z, i) (lvl.getD (i ^^^ 1) Z) = ((pairUp H lvl).getD (i / 2) Z, i / 2) := by
      rw [pairUp_getD H lvl (i / 2) (by rw [hl, Nat.pow_succ]; omega), xor_one_eq]
      unfold dstep
      by_cases hodd : i % 2 = 1
      · have : 2 * (i / 2) + 1 = i := by omega
        simp [hodd, this]
      · have : 2 * (i / 2) = i := by omega
        simp [hodd, this]
    simp only [denseProofLevels, List.foldl_cons, reduce, hstep]
    exact ih (pairUp H lvl) (i / 2) hlen hi2

theorem nextPow2_spec (m : Nat) : ∃ e, nextPow2 m = 2 ^ e ∧ m ≤ 2 ^ e := by
  unfold nextPow2
  split
  · exact ⟨0, rfl, by omega⟩
  · refine ⟨Nat.log2 (m - 1) + 1, rfl, ?_⟩
    have := @Nat.lt_log2_self (m - 1)
    omega

theorem denseLeaves_length (H : Hashers) (blocks : List Bytes) :
    ∃ e, (denseLeaves H blocks).length = 2 ^ e ∧ blocks.length ≤ 2 ^ e := by
  obtain ⟨e, he, hle⟩ := nextPow2_spec blocks.length
  refine ⟨e, ?_, hle⟩
  simp [denseLeaves, he]
  omega

theorem denseLeaves_getD (H : Hashers) (blocks : List Bytes) (i : Nat) (hi : i < blocks.length) :
    (denseLeaves H blocks).getD i Z = hashData H (blocks.getD i []) := by
  simp [denseLeaves, List.getD_eq_getElem?_getD, List.getElem?_append_left, hi]

theorem dense_complete (H : Hashers) (blocks : List Bytes) (i : Nat) (hi : i < blocks.length) :
    verifyDense H (denseProof H blocks i) (denseRoot H blocks) i (hashData H (blocks.getD i [])) = true := by
  obtain ⟨e, he, hle⟩ := denseLeaves_length H blocks
  have := dense_levels H e (denseLeaves H blocks) i he (by omega)
  rw [denseLeaves_getD H blocks i hi] at this
  simp only [verifyDense, denseProof, denseRoot, he, Nat.log2_two_pow]
  exact beq_iff_eq.mpr this

end Mel.Merkle
