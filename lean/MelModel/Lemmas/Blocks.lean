/- helper lemmas for C06 / C07 / C08 -/
import MelModel.Chain
import MelModel.Lemmas.Counts
import MelModel.Lemmas.FeeMult
namespace Mel
open Mel.Gen

/-- the state returned by `nextUnsealed` has the parent's header at `height - 1` of its history -/
theorem nextUnsealed_history (env : Env) (ss : Sealed) (basis : State)
    (h : nextUnsealed env ss = .ok basis) :
    ∃ hdr, headerOf env ss = .ok hdr ∧ basis.history.get (basis.height - 1) = some hdr := by
  unfold nextUnsealed at h
  obtain ⟨hdr, hh, h⟩ := Outcome.bind_eq_ok h
  refine ⟨hdr, hh, ?_⟩
  simp only at h
  split at h <;> cases h <;> simp [AList.get_set_self]

/-- since the `fix:` for finding F25 `lastHeaderOf` does not look at its second argument, so this holds of every state
    (the hypothesis is kept so that the statement stays as it was) -/
theorem lastHeaderOf_nextUnsealed (env : Env) (ss : Sealed) (basis : State)
    (_h : nextUnsealed env ss = .ok basis) (fb₁ fb₂ : Header) :
    lastHeaderOf basis fb₁ = lastHeaderOf basis fb₂ := rfl

theorem applyBatch_congr_lastHeader (env : Env) (s : State) (txs : List Tx) (fb₁ fb₂ : Header)
    (h : lastHeaderOf s fb₁ = lastHeaderOf s fb₂) :
    applyBatch env s txs fb₁ = applyBatch env s txs fb₂ := by
  unfold applyBatch
  simp only [h]

/-- characterisation of acceptance by `applyBlock` -/
theorem applyBlock_eq_ok_iff (env : Env) (ss ss' : Sealed) (blk : Block) :
    applyBlock env ss blk = .ok ss' ↔
      ∃ basis applied, nextUnsealed env ss = .ok basis ∧ 2 ≤ basis.pools.length ∧
        applyBatch env basis blk.transactions default = .ok applied ∧
        sealState env applied blk.action = .ok ss' ∧ headerOf env ss' = .ok blk.header := by
  constructor
  · intro h
    unfold applyBlock at h
    obtain ⟨basis, h1, h⟩ := Outcome.bind_eq_ok h
    split at h
    · cases h
    · next hp =>
      obtain ⟨applied, h2, h⟩ := Outcome.bind_eq_ok h
      obtain ⟨sealed, h3, h⟩ := Outcome.bind_eq_ok h
      obtain ⟨hd, h4, h⟩ := Outcome.bind_eq_ok h
      split at h
      · next he =>
        cases h
        exact ⟨basis, applied, h1, by omega, h2, h3, he ▸ h4⟩
      · cases h
  · rintro ⟨basis, applied, h1, hp, h2, h3, h4⟩
    unfold applyBlock
    have hp' : ¬ basis.pools.length < 2 := by omega
    simp [h1, Outcome.bind, hp', h2, h3, h4]

/-- the sealed state records the action it was sealed with -/
theorem sealState_action (env : Env) (s : State) (a : Option ProposerAction) (ss : Sealed)
    (h : sealState env s a = .ok ss) : ss.action = a := by
  obtain ⟨s2, _, h⟩ := sealState_pre env s a ss h
  cases a with
  | none => simp only at h; cases h; rfl
  | some a =>
    simp only at h
    obtain ⟨s3, _, h⟩ := Outcome.bind_eq_ok h
    cases h; rfl

/-- `collectProposerFee` reads only the reward destination of the action -/
theorem collectProposerFee_congr (env : Env) (s : State) (a₁ a₂ : ProposerAction)
    (hd : a₁.rewardDest = a₂.rewardDest) :
    collectProposerFee env s a₁ = collectProposerFee env s a₂ := by
  unfold collectProposerFee
  simp only [hd]

end Mel
