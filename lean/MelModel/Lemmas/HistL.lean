/-
  Helper lemmas for Props/C01Hist.lean and Props/C18Hist.lean: the coins of the block's own transactions stay as
  declared (`Faithful`, Props/C01Seal.lean) along every accepted batch; the supply of the genesis state; sealing and
  opening the next block keep the DOSC speed.
-/
import MelModel.Genesis
import MelModel.Chain
import MelModel.SupplyDefs
import MelModel.Lemmas.ReachL
import MelModel.Lemmas.WholeL
import MelModel.Props.C01Seal
namespace Mel
namespace HistL
open Mel.Gen

/-! ### where the coins of the state after a batch come from, with value and denomination -/

/-- `ReachL.applyBatch_source`, keeping the value and the denomination of a created coin (not only its covenant) -/
theorem applyBatch_source_full {env : Env} {s s' : State} {txs : List Tx} {fb : Header}
    (h : applyBatch env s txs fb = .ok s') (k : CoinID) (c : CoinDataHeight) (hk : s'.coins.getCoin k = some c) :
    s.coins.getCoin k = some c ∨
    (∃ tx ∈ txs, ∃ o, k.txhash = tx.hash ∧ tx.outputs[k.index]? = some o ∧ c.coinData.value = o.value ∧
      c.coinData.denom = createdDenom tx o) ∨
    (∃ f ∈ txs, insertsMarker env f = true ∧ k = BatchL.markerOf env f) := by
  obtain ⟨rel, newStakes, next, h1, -, -, h4, h5⟩ := applyBatch_ok h
  obtain ⟨hwf, -, -, r1, r2⟩ := loadRelevantCoins_ok h1
  rw [createNextState_eq] at h4
  rw [h5] at hk
  rcases ReachL.nextFold_source env _ txs _ _ h4 k c hk with h6 | h6
  · simp only at h6
    rw [getCoin_insFold] at h6
    have hrel : rel.get k = some c → s.coins.getCoin k = some c ∨
        (∃ tx ∈ txs, ∃ o, k.txhash = tx.hash ∧ tx.outputs[k.index]? = some o ∧ c.coinData.value = o.value ∧
          c.coinData.denom = createdDenom tx o) := by
      intro hr
      cases hcr : (createdOf s.height txs).get k with
      | none => exact Or.inl (r2 k c hcr hr)
      | some c' =>
        have := r1 k c' hcr
        rw [hr] at this; cases this
        obtain ⟨-, -, -, tx, htx, o, -, e1, e2, e3, -, -, e4⟩ :=
          createdOf_content (fun tx htx => ReachL.wellFormed_length (hwf tx htx).1) hcr
        exact Or.inr ⟨tx, htx, o, e1, e2, e3, e4⟩
    split at h6
    · cases hr : rel.get k with
      | none => rw [hr] at h6; exact Or.inl h6
      | some c' =>
        rw [hr] at h6
        simp only [Option.some.injEq] at h6; subst h6
        rcases hrel hr with h7 | h7
        · exact Or.inl h7
        · exact Or.inr (Or.inl h7)
    · exact Or.inl h6
  · exact Or.inr (Or.inr h6)

/-- an accepted batch keeps the coins of the block's transactions as declared, when the faucet markers it inserts
    keep clear of the transaction hashes of the block (same side conditions as `ReachL.applyBatch_slots`) -/
theorem applyBatch_faithful {env : Env} {s s' : State} {txs : List Tx} {fb : Header}
    (h : applyBatch env s txs fb = .ok s') (hsorted : s.txs.Pairwise C3.TxLt)
    (hhash : (txs.map (·.hash)).Nodup) (hfresh : ∀ t ∈ txs, ∀ i, s.coins.getCoin ⟨t.hash, i⟩ = none)
    (hfaith : Faithful s)
    (hsep : ∀ f ∈ txs, f.kind = .faucet → env.isGrandfathered f.hash = false →
      ∀ u, u ∈ txs ∨ u ∈ s.txs → env.fdp f.hash ≠ u.hash) : Faithful s' := by
  intro w hw i o' c ho' hc
  rw [ReachL.applyBatch_txs h, (C3.foldl_insertTx_spec txs s.txs hsorted hhash).2 w] at hw
  rcases applyBatch_source_full h _ c hc with h1 | ⟨tx, htx, o, e1, e2, e3, e4⟩ | ⟨f, hf, hm, e⟩
  · rcases hw with hw | ⟨hw, -⟩
    · rw [hfresh w hw i] at h1; cases h1
    · exact hfaith w hw i o' c ho' h1
  · simp only at e1 e2
    rcases hw with hw | ⟨-, hall⟩
    · have : w = tx := tx_eq_of_hash txs hhash _ hw _ htx e1
      subst this
      rw [ho'] at e2
      cases e2
      exact ⟨e3, e4⟩
    · exact absurd e1.symm (hall tx htx)
  · simp only [insertsMarker, Bool.and_eq_true, decide_eq_true_eq, Bool.not_eq_true'] at hm
    injection e with e1 _
    have hu : w ∈ txs ∨ w ∈ s.txs := hw.elim Or.inl (fun x => Or.inr x.1)
    exact absurd e1.symm (hsep f hf hm.1 hm.2 w hu)

/-- a state whose block is empty is trivially faithful -/
theorem faithful_of_txs_nil {s : State} (h : s.txs = []) : Faithful s := by
  intro tx htx
  rw [h] at htx
  cases htx

/-! ### the supply of the genesis state -/

/-- the genesis supply: the one initial coin, and for MEL the initial fee pool -/
theorem genesis_supply (cfg : GenesisConfig) (d : Denom) :
    supply (genesisState cfg) d =
      (if cfg.initCoindata.denom = d then cfg.initCoindata.value else 0) +
      (if d = .mel then cfg.initFeePool else 0) := by
  have hc : (genesisState cfg).coins.coins = [(⟨zeroHash, 0⟩, ⟨cfg.initCoindata, 0⟩)] := by
    unfold genesisState
    simp only [ReachL.coins_insertCoin]
    rfl
  unfold supply coinsTotal
  rw [hc]
  have hp : (genesisState cfg).pools = [] := rfl
  have hf : (genesisState cfg).feePool = cfg.initFeePool := rfl
  have ht : (genesisState cfg).tips = 0 := rfl
  rw [hp, hf, ht]
  by_cases h : cfg.initCoindata.denom = d <;> simp [h, poolsTotal]

/-! ### sealing and opening the next block keep the DOSC speed -/

theorem processSwapsForPool_speed (k : PoolKey) (s : State) (swaps : List Tx) (s' : State)
    (h : processSwapsForPool k s swaps = .ok s') : s'.doscSpeed = s.doscSpeed := by
  unfold processSwapsForPool at h
  split at h
  · cases h
  · simp only at h
    split at h
    · cases h
    · cases h
    · obtain ⟨coins, _, h2⟩ := Outcome.bind_eq_ok h
      cases h2; rfl

theorem processSwaps_speed (s s' : State) (h : processSwaps s = .ok s') : s'.doscSpeed = s.doscSpeed := by
  unfold processSwaps at h
  exact Outcome.foldlM'_inv (fun x => x.doscSpeed = s.doscSpeed) _
    (fun b a b' hb hf => (processSwapsForPool_speed _ _ _ _ hf).trans hb) _ _ _ rfl h

theorem processDepositsForPool_speed (env : Env) (k : PoolKey) (s : State) (deps : List Tx) (s' : State)
    (h : processDepositsForPool env k s deps = .ok s') : s'.doscSpeed = s.doscSpeed := by
  unfold processDepositsForPool at h
  simp only at h
  split at h
  · cases h
  · cases h
  · split at h
    · cases h; rfl
    · obtain ⟨coins, _, h2⟩ := Outcome.bind_eq_ok h
      cases h2; rfl

theorem processDeposits_speed (env : Env) (s s' : State) (h : processDeposits env s = .ok s') :
    s'.doscSpeed = s.doscSpeed := by
  unfold processDeposits at h
  exact Outcome.foldlM'_inv (fun x => x.doscSpeed = s.doscSpeed) _
    (fun b a b' hb hf => (processDepositsForPool_speed _ _ _ _ _ hf).trans hb) _ _ _ rfl h

theorem processWithdrawalsForPool_speed (k : PoolKey) (s : State) (reqs : List Tx) (s' : State)
    (h : processWithdrawalsForPool k s reqs = .ok s') : s'.doscSpeed = s.doscSpeed := by
  unfold processWithdrawalsForPool at h
  simp only at h
  split at h
  · cases h
  · split at h
    · cases h; rfl
    · split at h
      · cases h
      · cases h
      · obtain ⟨coins, _, h2⟩ := Outcome.bind_eq_ok h
        cases h2; rfl

theorem processWithdrawals_speed (env : Env) (s s' : State) (h : processWithdrawals env s = .ok s') :
    s'.doscSpeed = s.doscSpeed := by
  unfold processWithdrawals at h
  exact Outcome.foldlM'_inv (fun x => x.doscSpeed = s.doscSpeed) _
    (fun b a b' hb hf => (processWithdrawalsForPool_speed _ _ _ _ hf).trans hb) _ _ _ rfl h

theorem presealMelmint_speed (env : Env) (s s' : State) (h : presealMelmint env s = .ok s') :
    s'.doscSpeed = s.doscSpeed := by
  obtain ⟨s3, hset, hpeg⟩ := WholeL.presealMelmint_ok h
  unfold settle at hset
  obtain ⟨s1, h1, hset⟩ := Outcome.bind_eq_ok hset
  obtain ⟨s2, h2, h3⟩ := Outcome.bind_eq_ok hset
  obtain ⟨sm, sm2, _, rfl, _⟩ := WholeL.pegging_shape (createBuiltins s3) s' hpeg
  show s3.doscSpeed = s.doscSpeed
  rw [processWithdrawals_speed _ _ _ h3, processDeposits_speed _ _ _ h2, processSwaps_speed _ _ h1]
  rfl

theorem collectProposerFee_speed (env : Env) (s : State) (a : ProposerAction) (s' : State)
    (h : collectProposerFee env s a = .ok s') : s'.doscSpeed = s.doscSpeed := by
  unfold collectProposerFee at h
  simp only at h
  split at h
  · cases h
  · cases h; rfl

/-- sealing (with or without a proposer action) does not change the DOSC speed -/
theorem sealState_speed {env : Env} {s : State} {a : Option ProposerAction} {ss : Sealed}
    (h : sealState env s a = .ok ss) : ss.st.doscSpeed = s.doscSpeed := by
  obtain ⟨s1, s2, h1, h2, h3⟩ := WholeL.sealState_ok h
  have e1 := presealMelmint_speed env s s1 h1
  have e2 : s2.doscSpeed = s1.doscSpeed := by
    split at h2
    · obtain ⟨p, f, rfl⟩ := WholeL.tip909_shape s1 s2 h2
      rfl
    · cases h2; rfl
  cases a with
  | none =>
    simp only [WholeL.ActionStep] at h3
    rw [h3, e2, e1]
  | some act =>
    simp only [WholeL.ActionStep] at h3
    rw [collectProposerFee_speed _ _ _ _ h3]
    exact e2.trans e1

/-- opening the next block does not change the DOSC speed, and records it in the header -/
theorem nextUnsealed_speed {env : Env} {ss : Sealed} {s' : State} (h : nextUnsealed env ss = .ok s') :
    s'.doscSpeed = ss.st.doscSpeed := by
  unfold nextUnsealed at h
  obtain ⟨hdr, -, h⟩ := Outcome.bind_eq_ok h
  simp only at h
  split at h <;> cases h <;> rfl

/-- the header of a sealed state records its DOSC speed -/
theorem headerOf_speed {env : Env} {ss : Sealed} {hdr : Header} (h : headerOf env ss = .ok hdr) :
    hdr.doscSpeed = ss.st.doscSpeed := by
  obtain ⟨p, -, e⟩ := headerOf_ok env ss hdr h
  rw [e]

/-! ### the DOSC speeds recorded in the history -/

/-- the recorded headers lie below the current height, none records a speed above the current one, and the
    recorded speeds are sorted by height -/
structure SpeedHist (s : State) : Prop where
  below : ∀ h x, s.history.get h = some x → h < s.height
  le : ∀ h x, s.history.get h = some x → x.doscSpeed ≤ s.doscSpeed
  sorted : ∀ h₁ h₂ x₁ x₂, h₁ ≤ h₂ → s.history.get h₁ = some x₁ → s.history.get h₂ = some x₂ →
    x₁.doscSpeed ≤ x₂.doscSpeed

theorem speedHist_genesis (cfg : GenesisConfig) : SpeedHist (genesisState cfg) where
  below := fun h x hg => by simp [genesisState, AList.get] at hg
  le := fun h x hg => by simp [genesisState, AList.get] at hg
  sorted := fun h₁ h₂ x₁ x₂ _ hg => by simp [genesisState, AList.get] at hg

/-- a step that keeps history and height and does not lower the speed -/
theorem speedHist_same {s s' : State} (hi : SpeedHist s) (e1 : s'.history = s.history) (e2 : s'.height = s.height)
    (e3 : s.doscSpeed ≤ s'.doscSpeed) : SpeedHist s' where
  below := fun h x hg => by rw [e1] at hg; rw [e2]; exact hi.below h x hg
  le := fun h x hg => by rw [e1] at hg; exact Nat.le_trans (hi.le h x hg) e3
  sorted := fun h₁ h₂ x₁ x₂ hle g1 g2 => by rw [e1] at g1 g2; exact hi.sorted h₁ h₂ x₁ x₂ hle g1 g2

/-- recording the header of the current height, which carries the current speed -/
theorem speedHist_next {s s' : State} {hdr : Header} (hi : SpeedHist s) (hsp : hdr.doscSpeed = s.doscSpeed)
    (e1 : s'.history = s.history.set s.height hdr) (e2 : s'.height = s.height + 1)
    (e3 : s'.doscSpeed = s.doscSpeed) : SpeedHist s' where
  below := by
    intro h x hg
    rw [e1] at hg; rw [e2]
    by_cases e : h = s.height
    · omega
    · rw [AList.get_set_ne _ _ e] at hg; have := hi.below h x hg; omega
  le := by
    intro h x hg
    rw [e1] at hg; rw [e3]
    by_cases e : h = s.height
    · subst e; rw [AList.get_set_self] at hg; cases hg; exact Nat.le_of_eq hsp
    · rw [AList.get_set_ne _ _ e] at hg; exact hi.le h x hg
  sorted := by
    intro h₁ h₂ x₁ x₂ hle g1 g2
    rw [e1] at g1 g2
    by_cases c2 : h₂ = s.height
    · subst c2
      rw [AList.get_set_self] at g2; cases g2
      by_cases c1 : h₁ = s.height
      · subst c1; rw [AList.get_set_self] at g1; cases g1; exact Nat.le_refl _
      · rw [AList.get_set_ne _ _ c1] at g1
        rw [hsp]; exact hi.le h₁ x₁ g1
    · rw [AList.get_set_ne _ _ c2] at g2
      have hlt := hi.below h₂ x₂ g2
      have c1 : h₁ ≠ s.height := by omega
      rw [AList.get_set_ne _ _ c1] at g1
      exact hi.sorted h₁ h₂ x₁ x₂ hle g1 g2

end HistL
end Mel
