/-
  Helper lemmas for Props/C16Run.lean: every key of the pool map of a state is spelled canonically
  (`canonical_pool_key` accepts the key's own bytes), and every step of the chain keeps it so — pools are only ever
  written under the three builtin names (`create_builtins`, pegging, the TIP-909 subsidy) and under a name that
  `canonical_pool_key` returned for the data of a swap / deposit / withdrawal transaction.
-/
import MelModel.Chain
import MelModel.Lemmas.BackL
import MelModel.Lemmas.WholeL
import MelModel.Lemmas.ReachSealL
namespace Mel
namespace BackRunL
open Mel.Gen

/-- every key of the pool map is in the one spelling settlement accepts -/
def PoolsCanon (pools : AList PoolKey PoolState) : Prop :=
  ∀ k p, pools.get k = some p → canonicalPoolKey k.toBytes = some k

theorem poolsCanon_nil : PoolsCanon [] := fun _ _ h => nomatch h

theorem PoolsCanon.set {pools : AList PoolKey PoolState} (h : PoolsCanon pools) {k : PoolKey}
    (hk : canonicalPoolKey k.toBytes = some k) (v : PoolState) : PoolsCanon (pools.set k v) := by
  intro k' p hg
  by_cases e : k' = k
  · subst e; exact hk
  · rw [AList.get_set_ne _ _ e] at hg
    exact h k' p hg

theorem PoolsCanon.setIf {pools : AList PoolKey PoolState} (h : PoolsCanon pools) (c : Prop) [Decidable c]
    {k : PoolKey} (hk : canonicalPoolKey k.toBytes = some k) (v : PoolState) :
    PoolsCanon (if c then pools.set k v else pools) := by
  split
  · exact h.set hk v
  · exact h

/-- a key returned by `canonical_pool_key` is canonical -/
theorem canon_of_parsed {data : Bytes} {k : PoolKey} (h : canonicalPoolKey data = some k) :
    canonicalPoolKey k.toBytes = some k := by
  rw [(canonicalPoolKey_some h).2.2.2]
  exact h

theorem canon_melSym : canonicalPoolKey poolMelSym.toBytes = some poolMelSym := by decide
theorem canon_melErg : canonicalPoolKey poolMelErg.toBytes = some poolMelErg := by decide
theorem canon_ergSym : canonicalPoolKey poolErgSym.toBytes = some poolErgSym := by decide

theorem createBuiltins_canon (s : State) (h : PoolsCanon s.pools) : PoolsCanon (createBuiltins s).pools := by
  unfold createBuiltins
  simp only
  exact ((h.setIf _ canon_melSym _).setIf _ canon_melErg _).setIf _ canon_ergSym _

theorem processSwapsForPool_canon {k : PoolKey} {s s' : State} {swaps : List Tx}
    (h : processSwapsForPool k s swaps = .ok s') (hk : canonicalPoolKey k.toBytes = some k)
    (hc : PoolsCanon s.pools) : PoolsCanon s'.pools := by
  unfold processSwapsForPool at h
  split at h
  · cases h
  · simp only at h
    split at h
    · cases h
    · cases h
    · obtain ⟨coins, _, h2⟩ := Outcome.bind_eq_ok h
      cases h2
      exact hc.set hk _

theorem processDepositsForPool_canon {env : Env} {k : PoolKey} {s s' : State} {deps : List Tx}
    (h : processDepositsForPool env k s deps = .ok s') (hk : canonicalPoolKey k.toBytes = some k)
    (hc : PoolsCanon s.pools) : PoolsCanon s'.pools := by
  unfold processDepositsForPool at h
  simp only at h
  split at h
  · cases h
  · cases h
  · split at h
    · cases h; exact hc
    · obtain ⟨coins, _, h2⟩ := Outcome.bind_eq_ok h
      cases h2
      exact hc.set hk _

theorem processWithdrawalsForPool_canon {k : PoolKey} {s s' : State} {reqs : List Tx}
    (h : processWithdrawalsForPool k s reqs = .ok s') (hk : canonicalPoolKey k.toBytes = some k)
    (hc : PoolsCanon s.pools) : PoolsCanon s'.pools := by
  unfold processWithdrawalsForPool at h
  simp only at h
  split at h
  · cases h
  · split at h
    · cases h; exact hc
    · split at h
      · cases h
      · cases h
      · obtain ⟨coins, _, h2⟩ := Outcome.bind_eq_ok h
        cases h2
        exact hc.set hk _

theorem canon_of_extracted {txs : List Tx} {k : PoolKey} (h : k ∈ extractPoolKeysSorted txs) :
    canonicalPoolKey k.toBytes = some k := by
  obtain ⟨tx, _, hk⟩ := SupplySealL.mem_extractPoolKeysSorted h
  exact canon_of_parsed hk

theorem processSwaps_canon {s s' : State} (h : processSwaps s = .ok s') (hc : PoolsCanon s.pools) :
    PoolsCanon s'.pools := by
  unfold processSwaps at h
  simp only at h
  refine Outcome.foldlM'_inv_mem (fun st : State => PoolsCanon st.pools) _ _ ?_ _ _ hc h
  intro b k b' hk hb hf
  exact processSwapsForPool_canon hf (canon_of_extracted hk) hb

theorem processDeposits_canon {env : Env} {s s' : State} (h : processDeposits env s = .ok s')
    (hc : PoolsCanon s.pools) : PoolsCanon s'.pools := by
  unfold processDeposits at h
  simp only at h
  refine Outcome.foldlM'_inv_mem (fun st : State => PoolsCanon st.pools) _ _ ?_ _ _ hc h
  intro b k b' hk hb hf
  exact processDepositsForPool_canon hf (canon_of_extracted hk) hb

theorem processWithdrawals_canon {env : Env} {s s' : State} (h : processWithdrawals env s = .ok s')
    (hc : PoolsCanon s.pools) : PoolsCanon s'.pools := by
  unfold processWithdrawals at h
  simp only at h
  refine Outcome.foldlM'_inv_mem (fun st : State => PoolsCanon st.pools) _ _ ?_ _ _ hc h
  intro b k b' hk hb hf
  exact processWithdrawalsForPool_canon hf (canon_of_extracted hk) hb

theorem processPegging_canon {s s' : State} (h : processPegging s = .ok s') (hc : PoolsCanon s.pools) :
    PoolsCanon s'.pools := by
  obtain ⟨sm, sm2, _, rfl, _⟩ := WholeL.pegging_shape s s' h
  exact hc.set canon_melSym _

theorem presealMelmint_canon {env : Env} {s s' : State} (h : presealMelmint env s = .ok s')
    (hc : PoolsCanon s.pools) : PoolsCanon s'.pools := by
  obtain ⟨s3, hset, hpeg⟩ := WholeL.presealMelmint_ok h
  unfold settle at hset
  obtain ⟨s1, h1, hset⟩ := Outcome.bind_eq_ok hset
  obtain ⟨s2, h2, h3⟩ := Outcome.bind_eq_ok hset
  exact processPegging_canon hpeg (createBuiltins_canon _
    (processWithdrawals_canon h3 (processDeposits_canon h2 (processSwaps_canon h1 (createBuiltins_canon _ hc)))))

theorem applyTip909_canon {s s' : State} (h : applyTip909 s = .ok s') (hc : PoolsCanon s.pools) :
    PoolsCanon s'.pools := by
  unfold applyTip909 at h
  simp only at h
  split at h
  · cases h
  · split at h
    · cases h
    · obtain ⟨⟨sm', mel, x⟩, _, h⟩ := Outcome.bind_eq_ok h
      simp only at h
      split at h
      · cases h
      · split at h
        · cases h
        · obtain ⟨⟨es', y, z⟩, _, h⟩ := Outcome.bind_eq_ok h
          cases h
          exact (hc.set canon_melSym _).set canon_ergSym _

theorem collectProposerFee_pools {env : Env} {s s' : State} {a : ProposerAction}
    (h : collectProposerFee env s a = .ok s') : s'.pools = s.pools := by
  unfold collectProposerFee at h
  simp only at h
  split at h
  · cases h
  · cases h; rfl

/-- sealing keeps every pool key canonical -/
theorem sealState_canon {env : Env} {s : State} {a : Option ProposerAction} {ss : Sealed}
    (h : sealState env s a = .ok ss) (hc : PoolsCanon s.pools) : PoolsCanon ss.st.pools := by
  obtain ⟨s1, s2, h1, h2, h3⟩ := WholeL.sealState_ok h
  have c1 := presealMelmint_canon h1 hc
  have c2 : PoolsCanon s2.pools := by
    split at h2
    · exact applyTip909_canon h2 c1
    · cases h2; exact c1
  cases a with
  | none =>
    simp only [WholeL.ActionStep] at h3
    rw [h3]; exact c2
  | some act =>
    simp only [WholeL.ActionStep] at h3
    rw [collectProposerFee_pools h3]
    exact c2

/-- a whole block step (seal, open the next block) keeps every pool key canonical -/
theorem block_canon {env : Env} {s s' : State} {a : Option ProposerAction} {ss : Sealed}
    (hs : sealState env s a = .ok ss) (hn : nextUnsealed env ss = .ok s') (hc : PoolsCanon s.pools) :
    PoolsCanon s'.pools := by
  rw [ReachSealL.nextUnsealed_pools hn]
  exact sealState_canon hs hc

/-- an accepted batch does not touch the pools -/
theorem batch_canon {env : Env} {s s' : State} {txs : List Tx} {fb : Header}
    (h : applyBatch env s txs fb = .ok s') (hc : PoolsCanon s.pools) : PoolsCanon s'.pools := by
  rw [BackL.applyBatch_pools h]
  exact hc

/-! ### what a batch may not mint -/

theorem sum_map_zero {α} (f : α → Nat) : ∀ (l : List α), (∀ x ∈ l, f x = 0) → (l.map f).sum = 0 := by
  intro l
  induction l with
  | nil => intro _; rfl
  | cons a rest ih =>
    intro h
    rw [List.map_cons, List.sum_cons, h a List.mem_cons_self, ih (fun x hx => h x (List.mem_cons_of_mem _ hx))]

end BackRunL
end Mel
