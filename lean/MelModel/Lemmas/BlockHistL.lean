/-
  Helper lemmas for Props/C06Hist.lean and Props/C07Hist.lean: the history of a reachable state is the hash-linked
  chain of its ancestors' headers; sealing keeps the block's transaction list; the TIP flags are functions of
  height and network.
-/
import MelModel.Chain
import MelModel.Genesis
import MelModel.Lemmas.ChainL
import MelModel.Lemmas.ReachL
import MelModel.Lemmas.FeeMult
import MelModel.Lemmas.Perm
import MelModel.Lemmas.Swap
namespace Mel
namespace BlockHistL
open Mel.Gen

/-! ### the history is a hash-linked chain -/

/-- the history tree of a state holds, at every height below the state's, a header of that height and of the
    state's network whose `previous` is the hash of the header one below (the zero hash at height 0) -/
structure HistChain (env : Env) (s : State) : Prop where
  below : ∀ h x, s.history.get h = some x → h < s.height
  full : ∀ h, h < s.height → ∃ x, s.history.get h = some x
  heights : ∀ h x, s.history.get h = some x → x.height = h
  networks : ∀ h x, s.history.get h = some x → x.network = s.network
  first : ∀ x, s.history.get 0 = some x → x.previous = zeroHash
  linked : ∀ h x y, s.history.get h = some x → s.history.get (h + 1) = some y → y.previous = env.hdrHash x

theorem histChain_genesis (env : Env) (cfg : GenesisConfig) : HistChain env (genesisState cfg) where
  below := fun h x hg => by simp [genesisState, AList.get] at hg
  full := fun h hlt => by simp [genesisState] at hlt
  heights := fun h x hg => by simp [genesisState, AList.get] at hg
  networks := fun h x hg => by simp [genesisState, AList.get] at hg
  first := fun x hg => by simp [genesisState, AList.get] at hg
  linked := fun h x y hg => by simp [genesisState, AList.get] at hg

theorem histChain_of_hhn {env : Env} {s s' : State} (e : SameHHN s s') (h : HistChain env s) : HistChain env s' := by
  obtain ⟨e1, e2, e3⟩ := e
  exact {
    below := fun a x hg => by rw [e1] at hg; rw [e2]; exact h.below a x hg
    full := fun a hlt => by rw [e1]; rw [e2] at hlt; exact h.full a hlt
    heights := fun a x hg => by rw [e1] at hg; exact h.heights a x hg
    networks := fun a x hg => by rw [e1] at hg; rw [e3]; exact h.networks a x hg
    first := fun x hg => by rw [e1] at hg; exact h.first x hg
    linked := fun a x y hx hy => by rw [e1] at hx hy; exact h.linked a x y hx hy }

theorem histChain_batch {env : Env} {s s' : State} {txs : List Tx} {fb : Header}
    (hb : applyBatch env s txs fb = .ok s') (h : HistChain env s) : HistChain env s' :=
  histChain_of_hhn (applyBatch_hhn _ _ _ _ _ hb) h

theorem histChain_seal {env : Env} {s : State} {a : Option ProposerAction} {ss : Sealed}
    (hs : sealState env s a = .ok ss) (h : HistChain env s) : HistChain env ss.st :=
  histChain_of_hhn (sealState_hhn _ _ _ _ hs) h

/-- opening the next block appends the header of the sealed state, which links to the one before -/
theorem histChain_next {env : Env} {ss : Sealed} {s' : State} (hn : nextUnsealed env ss = .ok s')
    (h : HistChain env ss.st) : HistChain env s' := by
  obtain ⟨hdr, hh, f1, f2, f3⟩ := nextUnsealed_ok _ _ _ hn
  obtain ⟨p, hp, hhdr⟩ := headerOf_ok _ _ hdr hh
  have hdrh : hdr.height = ss.st.height := by rw [hhdr]
  have hdrn : hdr.network = ss.st.network := by rw [hhdr]
  have hdrp : hdr.previous = p := by rw [hhdr]
  obtain ⟨g1, g2, g3, g4⟩ := ReachL.history_next (P := fun x => x.network = ss.st.network)
    h.below h.full h.heights h.networks hdrh hdrn
  refine {
    below := by rw [f1, f2]; exact g1
    full := by rw [f1, f2]; exact g2
    heights := by rw [f1]; exact g3
    networks := by rw [f1, f3]; exact g4
    first := ?_
    linked := ?_ }
  · intro x hx
    rw [f1] at hx
    by_cases e : (0 : Nat) = ss.st.height
    · rw [e, AList.get_set_self] at hx
      cases hx
      rcases hp with ⟨_, hz⟩ | ⟨hne, _⟩
      · rw [hdrp, hz]
      · exact absurd e.symm hne
    · rw [AList.get_set_ne _ _ e] at hx
      exact h.first x hx
  · intro a x y hx hy
    rw [f1] at hx hy
    by_cases e : a + 1 = ss.st.height
    · have e' : a ≠ ss.st.height := by omega
      rw [AList.get_set_ne _ _ e'] at hx
      rw [e, AList.get_set_self] at hy
      cases hy
      rcases hp with ⟨h0, _⟩ | ⟨_, ph, hph, hpe⟩
      · omega
      · have : ss.st.height - 1 = a := by omega
        rw [this, hx] at hph
        cases hph
        rw [hdrp, hpe]
    · rw [AList.get_set_ne _ _ e] at hy
      have hlt := h.below _ _ hy
      have e' : a ≠ ss.st.height := by omega
      rw [AList.get_set_ne _ _ e'] at hx
      exact h.linked a x y hx hy

/-! ### TIP flags are functions of height and network -/

theorem tipCondition_congr {a b : State} (hh : a.height = b.height) (hn : a.network = b.network) (act : Nat) :
    a.tipCondition act = b.tipCondition act := by
  unfold State.tipCondition
  rw [hh, hn]

theorem tip908_congr {a b : State} (hh : a.height = b.height) (hn : a.network = b.network) :
    a.tip908 = b.tip908 := by
  unfold State.tip908
  rw [tipCondition_congr hh hn, hn]

theorem tip901_congr {a b : State} (hh : a.height = b.height) (hn : a.network = b.network) :
    a.tip901 = b.tip901 := tipCondition_congr hh hn _

theorem tip906_congr {a b : State} (hh : a.height = b.height) (hn : a.network = b.network) :
    a.tip906 = b.tip906 := tipCondition_congr hh hn _

/-! ### sealing keeps the block's transaction list -/

theorem processSwapsForPool_txs (k : PoolKey) (s : State) (swaps : List Tx) (s' : State)
    (h : processSwapsForPool k s swaps = .ok s') : s'.txs = s.txs := by
  unfold processSwapsForPool at h
  split at h
  · cases h
  · simp only at h
    split at h
    · cases h
    · cases h
    · obtain ⟨coins, _, h2⟩ := Outcome.bind_eq_ok h
      cases h2; rfl

theorem processSwaps_txs (s s' : State) (h : processSwaps s = .ok s') : s'.txs = s.txs := by
  unfold processSwaps at h
  exact Outcome.foldlM'_inv (fun st : State => st.txs = s.txs) _
    (fun b a b' hb hf => (processSwapsForPool_txs _ _ _ _ hf).trans hb) _ _ _ rfl h

theorem processDepositsForPool_txs (env : Env) (k : PoolKey) (s : State) (deps : List Tx) (s' : State)
    (h : processDepositsForPool env k s deps = .ok s') : s'.txs = s.txs := by
  unfold processDepositsForPool at h
  simp only at h
  split at h
  · cases h
  · cases h
  · split at h
    · cases h; rfl
    · obtain ⟨coins, _, h2⟩ := Outcome.bind_eq_ok h
      cases h2; rfl

theorem processDeposits_txs (env : Env) (s s' : State) (h : processDeposits env s = .ok s') : s'.txs = s.txs := by
  unfold processDeposits at h
  exact Outcome.foldlM'_inv (fun st : State => st.txs = s.txs) _
    (fun b a b' hb hf => (processDepositsForPool_txs _ _ _ _ _ hf).trans hb) _ _ _ rfl h

theorem processWithdrawalsForPool_txs (k : PoolKey) (s : State) (reqs : List Tx) (s' : State)
    (h : processWithdrawalsForPool k s reqs = .ok s') : s'.txs = s.txs := by
  unfold processWithdrawalsForPool at h
  simp only at h
  split at h
  · cases h
  · split at h
    · cases h; rfl
    · split at h
      · cases h
      · cases h
      · obtain ⟨coins, _, h2⟩ := Outcome.bind_eq_ok h
        cases h2; rfl

theorem processWithdrawals_txs (env : Env) (s s' : State) (h : processWithdrawals env s = .ok s') :
    s'.txs = s.txs := by
  unfold processWithdrawals at h
  exact Outcome.foldlM'_inv (fun st : State => st.txs = s.txs) _
    (fun b a b' hb hf => (processWithdrawalsForPool_txs _ _ _ _ hf).trans hb) _ _ _ rfl h

theorem processPegging_txs (s s' : State) (h : processPegging s = .ok s') : s'.txs = s.txs := by
  unfold processPegging at h
  simp only at h
  obtain ⟨⟨a, b⟩, _, h⟩ := Outcome.bind_eq_ok h
  simp only at h
  obtain ⟨sm, _, h⟩ := Outcome.bind_eq_ok h
  split at h
  · cases h
  · obtain ⟨sm1, _, h⟩ := Outcome.bind_eq_ok h
    obtain ⟨sm2, _, h⟩ := Outcome.bind_eq_ok h
    cases h; rfl

theorem presealMelmint_txs (env : Env) (s s' : State) (h : presealMelmint env s = .ok s') : s'.txs = s.txs := by
  unfold presealMelmint at h
  simp only at h
  split at h
  · cases h
  · obtain ⟨s1, h1, h⟩ := Outcome.bind_eq_ok h
    obtain ⟨s2, h2, h⟩ := Outcome.bind_eq_ok h
    obtain ⟨s3, h3, h⟩ := Outcome.bind_eq_ok h
    have e1 : s1.txs = s.txs := processSwaps_txs (createBuiltins s) s1 h1
    have e2 : s2.txs = s1.txs := processDeposits_txs _ _ _ h2
    have e3 : s3.txs = s2.txs := processWithdrawals_txs _ _ _ h3
    have e4 : s'.txs = s3.txs := processPegging_txs (createBuiltins s3) s' h
    rw [e4, e3, e2, e1]

theorem applyTip909_txs (s s' : State) (h : applyTip909 s = .ok s') : s'.txs = s.txs := by
  unfold applyTip909 at h
  simp only at h
  split at h
  · cases h
  · split at h
    · cases h
    · obtain ⟨⟨sm', mel, x⟩, _, h⟩ := Outcome.bind_eq_ok h
      simp only at h
      split at h
      · cases h
      · split at h
        · cases h
        · obtain ⟨⟨es', y, z⟩, _, h⟩ := Outcome.bind_eq_ok h
          cases h; rfl

/-- `sealState`, taken apart: Melmint, the subsidy, then nothing or the proposer action -/
theorem sealState_parts {env : Env} {s : State} {a : Option ProposerAction} {ss : Sealed}
    (h : sealState env s a = .ok ss) :
    ∃ s2, s2.txs = s.txs ∧ SameFM s s2 ∧
      match a with
      | none => ss.st = s2
      | some act => collectProposerFee env
          { s2 with feeMultiplier := moveFeeMultiplier s2.feeMultiplier act.feeMultiplierDelta s2.tip901 } act
            = .ok ss.st := by
  unfold sealState at h
  obtain ⟨s1, h1, h⟩ := Outcome.bind_eq_ok h
  split at h
  · cases h
  · obtain ⟨s2, h2, h⟩ := Outcome.bind_eq_ok h
    have t1 : s1.txs = s.txs := presealMelmint_txs _ _ _ h1
    have f1 : SameFM s s1 := presealMelmint_same _ _ _ h1
    have t2 : s2.txs = s.txs ∧ SameFM s s2 := by
      split at h2
      · exact ⟨(applyTip909_txs _ _ h2).trans t1, f1.trans (applyTip909_same _ _ h2)⟩
      · cases h2; exact ⟨t1, f1⟩
    refine ⟨s2, t2.1, t2.2, ?_⟩
    split at h
    · cases h; rfl
    · obtain ⟨s3, h3, h⟩ := Outcome.bind_eq_ok h
      cases h
      exact h3

/-- sealing keeps the transaction list of the block -/
theorem sealState_txs {env : Env} {s : State} {a : Option ProposerAction} {ss : Sealed}
    (h : sealState env s a = .ok ss) : ss.st.txs = s.txs := by
  obtain ⟨s2, t2, -, hm⟩ := sealState_parts h
  cases a with
  | none => simp only at hm; rw [hm, t2]
  | some act =>
    simp only at hm
    unfold collectProposerFee at hm
    simp only at hm
    split at hm
    · cases hm
    · rw [← Outcome.ok.inj hm]; exact t2

/-- sealing without an action leaves the fee multiplier alone -/
theorem sealState_none_feeMultiplier {env : Env} {s : State} {ss : Sealed}
    (h : sealState env s none = .ok ss) : ss.st.feeMultiplier = s.feeMultiplier := by
  obtain ⟨s2, -, f2, hm⟩ := sealState_parts h
  simp only at hm
  rw [hm, f2.1]

/-- sealing with an action moves the fee multiplier by the action's delta and writes the reward coin: locked by the
    action's destination, in MEL, created at the block's height -/
theorem sealState_some_effect {env : Env} {s : State} {act : ProposerAction} {ss : Sealed}
    (h : sealState env s (some act) = .ok ss) :
    ss.st.feeMultiplier = moveFeeMultiplier s.feeMultiplier act.feeMultiplierDelta s.tip901 ∧
    ∃ v, ss.st.coins.getCoin { txhash := env.rewardId s.height, index := 0 } =
      some { coinData := { covhash := act.rewardDest, value := v, denom := .mel, additionalData := [] },
             height := s.height } := by
  obtain ⟨s2, -, f2, hm⟩ := sealState_parts h
  simp only at hm
  unfold collectProposerFee at hm
  simp only at hm
  split at hm
  · cases hm
  · rw [← Outcome.ok.inj hm]
    refine ⟨?_, s2.feePool / 2 ^ REWARD_SHIFT + s2.tips, ?_⟩
    · show moveFeeMultiplier s2.feeMultiplier _ s2.tip901 = _
      rw [f2.1, f2.tip901]
    · show (CoinMap.insertCoin _ _ _ _).getCoin _ = _
      rw [CoinMap.getCoin_insertCoin]
      show (if (⟨env.rewardId s.height, 0⟩ : CoinID) = ⟨env.rewardId s2.height, 0⟩ then _ else _) = _
      rw [f2.2.1, if_pos rfl]

/-! ### the transaction list of a freshly opened block after one batch -/

theorem nodup_of_nodup_map {α β} (f : α → β) {l : List α} (h : (l.map f).Nodup) : l.Nodup := by
  induction l with
  | nil => exact List.nodup_nil
  | cons a rest ih =>
    rw [List.map_cons, List.nodup_cons] at h
    rw [List.nodup_cons]
    exact ⟨fun hm => h.1 (List.mem_map_of_mem hm), ih h.2⟩


/-- after `next_unsealed` and one accepted batch the block's list holds exactly the batch -/
theorem mem_txs_of_block {env : Env} {ss : Sealed} {basis u : State} {txs : List Tx} {fb : Header}
    (h1 : nextUnsealed env ss = .ok basis) (h2 : applyBatch env basis txs fb = .ok u) :
    (txs.map (·.hash)).Nodup ∧ ∀ t, t ∈ u.txs ↔ t ∈ txs := by
  have hnd := (C3.applyBatch_fresh h2).1
  have hb : basis.txs = [] := ReachL.nextUnsealed_txs h1
  have hspec := (C3.foldl_insertTx_spec txs [] List.Pairwise.nil hnd).2
  refine ⟨hnd, fun t => ?_⟩
  rw [C3.applyBatch_txsEq h2, hb, hspec t]
  simp

/-! ### sealing without an action leaves a coin away from the block's transactions alone -/

theorem sealState_none_getCoin {env : Env} {s : State} {ss : Sealed} (h : sealState env s none = .ok ss)
    {id : CoinID} (hclear : ∀ t ∈ s.txs, t.hash ≠ id.txhash) : ss.st.coins.getCoin id = s.coins.getCoin id := by
  have hnr : NoRequestAt id s.txs := fun tx htx he => absurd he (hclear tx htx)
  unfold sealState at h
  obtain ⟨s1, h1, h⟩ := Outcome.bind_eq_ok h
  split at h
  · cases h
  · obtain ⟨s2, h2, h⟩ := Outcome.bind_eq_ok h
    have c1 := presealMelmint_coins id env s s1 h1 hnr
    have c2 : CoinsSameAt id s s2 := by
      split at h2
      · exact c1.trans (applyTip909_coins id _ _ h2)
      · cases h2; exact c1
    cases h
    exact c2.1

/-! ### states are equal when their fields are -/

theorem state_ext {a b : State} (h1 : a.network = b.network) (h2 : a.height = b.height)
    (h3 : a.history = b.history) (h4 : a.coins.coins = b.coins.coins) (h4' : a.coins.counts = b.coins.counts)
    (h5 : a.txs = b.txs) (h6 : a.feePool = b.feePool) (h7 : a.feeMultiplier = b.feeMultiplier)
    (h8 : a.tips = b.tips) (h9 : a.doscSpeed = b.doscSpeed) (h10 : a.pools = b.pools)
    (h11 : a.stakes = b.stakes) : a = b := by
  obtain ⟨n, h, hist, ⟨co, cn⟩, tx, fp, fm, tp, ds, po, sk⟩ := a
  obtain ⟨n', h', hist', ⟨co', cn'⟩, tx', fp', fm', tp', ds', po', sk'⟩ := b
  simp only at h1 h2 h3 h4 h4' h5 h6 h7 h8 h9 h10 h11
  subst h1 h2 h3 h4 h4' h5 h6 h7 h8 h9 h10 h11
  rfl

end BlockHistL
end Mel
