/-
  Helper lemmas for Props/C09Supply.lean: totality (C09) under a per-denomination SUPPLY bound.

  Seal part.  `processSwaps_ok'`, `processDeposits_ok'`, `presealMelmint_ok'`, `sealState_ok_pools'` are GENERALISED
  copies of the lemmas of the same names (without the prime) in Lemmas/TotalSeal.lean: the hypothesis
  `melInflow s.txs ≤ V` (first MEL outputs of ALL transactions of the block, spent or not) is replaced by bounds on
  what the requests the phase actually selects pay into the MEL/SYM pool (`swapMelIn`, `depMelIn`), and the
  numerals 2^125 / 2^124 / 2^127 by parameters.  `inflow_le` then bounds `swapMelIn + depMelIn` by the MEL held in
  coins: the selected requests are backed by distinct coins of the state being sealed.

  Apply part.  `inFold_noCrash_d`, `inputs_value_bound_d`, `applyBatch_noCrash_d` are per-denomination versions of
  `inFold_noCrash`, `inputs_value_bound`, `applyBatch_noCrash'` (Lemmas/Total.lean, Lemmas/ReachSealL.lean).
-/
import MelModel.SupplyDefs
import MelModel.Lemmas.ReachSealL
import MelModel.Lemmas.SupplySeal
import MelModel.Lemmas.Supply
import MelModel.Props.C01Seal
namespace Mel
namespace SupplyBoundL
open Mel.Gen

/-! ### what the selected requests pay into the MEL/SYM pool -/

/-- the MEL the swap requests selected in `st0` pay into the MEL/SYM pool (before saturation) -/
def swapMelIn (st0 : State) : Nat :=
  ((transactionsForPool (st0.txs.filter (isSwapRequest st0)) poolMelSym).map fun tx =>
    if (tx.outputs.headD default).denom = .mel then (tx.outputs.headD default).value else 0).sum

/-- the MEL the deposit requests selected in `st0` pay into the MEL/SYM pool (before saturation) -/
def depMelIn (st0 : State) : Nat :=
  ((transactionsForPool (st0.txs.filter (isDepositRequest st0)) poolMelSym).map fun tx =>
    (tx.outputs.headD default).value).sum

/-! ### the swap phase (generalised copy of `processSwaps_ok`) -/

theorem processSwaps_ok' (s st0 : State) (B V : Nat)
    (hbase : SameBase s st0) (hn : (s.txs.map (·.hash)).Nodup)
    (hpo : PoolsOk s.tip902 st0.pools) (hci : CoinsInv s.txs s.tip906 st0.coins)
    (hV : swapMelIn st0 ≤ V)
    (hB : ∀ p, st0.pools.get poolMelSym = some p → p.lefts ≤ B) :
    ∃ st1, processSwaps st0 = .ok st1 ∧ SameBase s st1 ∧ PoolsOk s.tip902 st1.pools ∧
      CoinsInv s.txs s.tip906 st1.coins ∧
      (∀ p, st1.pools.get poolMelSym = some p → p.lefts ≤ B + V) := by
  unfold processSwaps
  simp only
  unfold swapMelIn at hV
  generalize hreqs : st0.txs.filter (isSwapRequest st0) = reqs at hV
  have hks : ∀ k ∈ extractPoolKeysSorted reqs, ∃ p, st0.pools.get k = some p ∧ 0 < p.lefts ∧ 0 < p.rights := by
    intro k hk
    obtain ⟨tx, htx, hck⟩ := mem_extractPoolKeysSorted hk
    rw [← hreqs] at htx
    obtain ⟨k', o, rest, p, hck', _, _, hp, h1, h2, _⟩ := isSwapRequest_full (List.mem_filter.mp htx).2
    rw [hck] at hck'; cases hck'
    exact ⟨p, hp, h1, h2⟩
  have hsw : ∀ k, ∀ tx ∈ transactionsForPool reqs k, tx ∈ s.txs ∧
      ∃ o rest, tx.outputs = o :: rest ∧ 0 < o.value ∧ (o.denom = k.left ∨ o.denom = k.right) := by
    intro k tx htx
    obtain ⟨htx, hck⟩ := mem_transactionsForPool'.mp htx
    rw [← hreqs] at htx
    obtain ⟨hm, hreq⟩ := List.mem_filter.mp htx
    obtain ⟨k', o, rest, p, hck', ho, hpos, _, _, _, hden⟩ := isSwapRequest_full hreq
    rw [hck] at hck'; cases hck'
    exact ⟨hbase.txs ▸ hm, o, rest, ho, hpos, hden⟩
  refine Exists.elim (Outcome.foldlM'_ok
    (fun st k => processSwapsForPool k st (transactionsForPool reqs k))
    (fun st rest => rest.Nodup ∧ SameBase s st ∧ PoolsOk s.tip902 st.pools ∧ CoinsInv s.txs s.tip906 st.coins ∧
      (∀ k ∈ extractPoolKeysSorted reqs, ∃ p, st.pools.get k = some p ∧ 0 < p.lefts ∧ 0 < p.rights) ∧
      (poolMelSym ∈ rest → ∀ p, st.pools.get poolMelSym = some p → p.lefts ≤ B) ∧
      (∀ p, st.pools.get poolMelSym = some p → p.lefts ≤ B + V) ∧
      (∀ k ∈ rest, k ∈ extractPoolKeysSorted reqs))
    ?_ (extractPoolKeysSorted reqs) st0
    ⟨extractPoolKeysSorted_nodup _, hbase, hpo, hci, hks, fun _ => hB,
      fun p hp => Nat.le_trans (hB p hp) (Nat.le_add_right _ _), fun _ h => h⟩)
    (fun st1 ⟨h1, hI⟩ => ⟨st1, h1, hI.2.1, hI.2.2.1, hI.2.2.2.1, hI.2.2.2.2.2.2.1⟩)
  · intro st k rest ⟨hnod, hb, hpo', hci', hks', hB1, hB2, hsub⟩
    have hnod' := List.nodup_cons.mp hnod
    obtain ⟨pool, hpool, hl, hr⟩ := hks' k (hsub k List.mem_cons_self)
    obtain ⟨pool', lw, rw, hsm, hl', hr', hliq, hle⟩ :=
      swapMany_spec pool (swapTL k (transactionsForPool reqs k)) (swapTR k (transactionsForPool reqs k))
        hl hr (satSum_le_max _) (satSum_le_max _)
    obtain ⟨coins, hP, hok⟩ := processSwapsForPool_ok k st (transactionsForPool reqs k) pool pool' lw rw
      (CoinsInv s.txs s.tip906) hpool hsm (fun tx htx => (hsw k tx htx).2) hci' (by
        intro coins tx o orest cd htx ho hPc hcd
        rw [hb.tip906]
        exact hPc.insert hn (hsw k tx htx).1 (i := 0) (o := o) (by rw [ho]; rfl) hcd)
    refine ⟨_, hok, hnod'.2, ⟨hb.txs, hb.height, hb.network, hb.feePool, hb.tips⟩, ?_, hP, ?_, ?_, ?_, ?_⟩
    · exact hpo'.set k pool' (fun _ => ⟨hl', hr'⟩)
        (fun hk => ⟨hl', hr', by rw [hliq]; exact (hpo'.builtin_get hk hpool).2.2⟩)
    · intro k' hk'
      simp only
      by_cases e : k' = k
      · subst e; rw [AList.get_set_self]; exact ⟨pool', rfl, hl', hr'⟩
      · rw [AList.get_set_ne _ _ e]; exact hks' k' hk'
    · intro hmem p hp
      simp only at hp
      have e : poolMelSym ≠ k := by intro e; rw [← e] at hnod'; exact hnod'.1 hmem
      rw [AList.get_set_ne _ _ e] at hp
      exact hB1 (List.mem_cons_of_mem _ hmem) p hp
    · intro p hp
      simp only at hp
      by_cases e : poolMelSym = k
      · subst e
        rw [AList.get_set_self] at hp; cases hp
        have h1 := hB1 List.mem_cons_self pool hpool
        have h2 : swapTL poolMelSym (transactionsForPool reqs poolMelSym) ≤ V := by
          refine Nat.le_trans ?_ hV
          unfold swapTL
          rw [poolMelSym_left]
          exact satSum_le_sum _
        omega
      · rw [AList.get_set_ne _ _ e] at hp; exact hB2 p hp
    · exact fun k' hk' => hsub k' (List.mem_cons_of_mem _ hk')

/-! ### the deposit phase (generalised copy of `processDeposits_ok`) -/

theorem processDeposits_ok' (env : Env) (s st0 : State) (B V : Nat)
    (hbase : SameBase s st0) (hn : (s.txs.map (·.hash)).Nodup)
    (hpo : PoolsOk s.tip902 st0.pools) (hci : CoinsInv s.txs s.tip906 st0.coins)
    (hV : depMelIn st0 ≤ V)
    (hB : ∀ p, st0.pools.get poolMelSym = some p → p.lefts ≤ B) :
    ∃ st1, processDeposits env st0 = .ok st1 ∧ SameBase s st1 ∧ PoolsOk s.tip902 st1.pools ∧
      (∀ p, st1.pools.get poolMelSym = some p → p.lefts ≤ B + V) := by
  unfold processDeposits
  simp only
  unfold depMelIn at hV
  generalize hreqs : st0.txs.filter (isDepositRequest st0) = reqs at hV
  have hks : ∀ k ∈ extractPoolKeysSorted reqs, ∃ tx, tx ∈ transactionsForPool reqs k := by
    intro k hk
    obtain ⟨tx, htx, hck⟩ := mem_extractPoolKeysSorted hk
    exact ⟨tx, mem_transactionsForPool'.mpr ⟨htx, hck⟩⟩
  have hdp : ∀ k, ∀ tx ∈ transactionsForPool reqs k, tx ∈ s.txs ∧
      ∃ o0 o1 rest, tx.outputs = o0 :: o1 :: rest ∧ 0 < o0.value ∧ 0 < o1.value ∧ o0.denom = k.left := by
    intro k tx htx
    obtain ⟨htx, hck⟩ := mem_transactionsForPool'.mp htx
    rw [← hreqs] at htx
    obtain ⟨hm, hreq⟩ := List.mem_filter.mp htx
    obtain ⟨k', o0, o1, rest, hck', ho, hp0, hp1, hden⟩ := isDepositRequest_full hreq
    rw [hck] at hck'; cases hck'
    exact ⟨hbase.txs ▸ hm, o0, o1, rest, ho, hp0, hp1, hden⟩
  refine Exists.elim (Outcome.foldlM'_ok
    (fun st k => processDepositsForPool env k st (transactionsForPool reqs k))
    (fun st rest => rest.Nodup ∧ SameBase s st ∧ PoolsOk s.tip902 st.pools ∧ CoinsInv s.txs s.tip906 st.coins ∧
      (poolMelSym ∈ rest → ∀ p, st.pools.get poolMelSym = some p → p.lefts ≤ B) ∧
      (∀ p, st.pools.get poolMelSym = some p → p.lefts ≤ B + V) ∧
      (∀ k ∈ rest, k ∈ extractPoolKeysSorted reqs))
    ?_ (extractPoolKeysSorted reqs) st0
    ⟨extractPoolKeysSorted_nodup _, hbase, hpo, hci, fun _ => hB,
      fun p hp => Nat.le_trans (hB p hp) (Nat.le_add_right _ _), fun _ h => h⟩)
    (fun st1 ⟨h1, hI⟩ => ⟨st1, h1, hI.2.1, hI.2.2.1, hI.2.2.2.2.2.1⟩)
  intro st k rest ⟨hnod, hb, hpo', hci', hB1, hB2, hsub⟩
  have hnod' := List.nodup_cons.mp hnod
  obtain ⟨tx0, htx0⟩ := hks k (hsub k List.mem_cons_self)
  obtain ⟨_, a0, a1, arest, ha, hpa0, hpa1, _⟩ := hdp k tx0 htx0
  have hTL : 0 < depTL (transactionsForPool reqs k) :=
    satSum_pos ⟨a0.value, List.mem_map.mpr ⟨tx0, htx0, by rw [ha]; rfl⟩, hpa0⟩
  have hTR : 0 < depTR (transactionsForPool reqs k) :=
    satSum_pos ⟨a1.value, List.mem_map.mpr ⟨tx0, htx0, by rw [ha]; rfl⟩, hpa1⟩
  have hsane : ((st.pools.get k).getD PoolState.newEmpty).liqs ≠ 0 →
      0 < ((st.pools.get k).getD PoolState.newEmpty).lefts ∧ 0 < ((st.pools.get k).getD PoolState.newEmpty).rights := by
    cases hg : st.pools.get k with
    | none => intro h; exact absurd rfl h
    | some p => exact hpo'.sane k p hg
  obtain ⟨pool', m, hdep, hpos, hD, hle⟩ := deposit_spec _ (depTL (transactionsForPool reqs k))
    (depTR (transactionsForPool reqs k)) hsane
  by_cases hsat : ((st.pools.get k).getD PoolState.newEmpty).liqs + m > U128_MAX
  · exact ⟨st, processDepositsForPool_skip env k st _ pool' m hdep hsat, hnod'.2, hb, hpo', hci',
      fun hmem => hB1 (List.mem_cons_of_mem _ hmem), hB2, fun k' hk' => hsub k' (List.mem_cons_of_mem _ hk')⟩
  obtain ⟨coins, hP, hok⟩ := processDepositsForPool_ok env k st (transactionsForPool reqs k) pool' m
    (CoinsInv s.txs s.tip906) hdep hsat
    (fun tx htx => by
      obtain ⟨_, o0, o1, r, ho, h0, h1, _⟩ := hdp k tx htx
      exact ⟨o0, o1, r, ho, h0, h1⟩) hci' (by
      intro coins tx o0 o1 orest cd htx ho hPc hcd
      rw [hb.tip906]
      exact hPc.insert hn (hdp k tx htx).1 (i := 0) (o := o0) (by rw [ho]; rfl) hcd) (by
      intro coins id hPc
      rw [hb.tip906]
      exact hPc.remove id)
  have hU := U128_MAX_pos
  refine ⟨_, hok, hnod'.2, ⟨hb.txs, hb.height, hb.network, hb.feePool, hb.tips⟩, ?_, hP, ?_, ?_, ?_⟩
  · refine hpo'.set k pool' (fun _ => hpos hTL hTR) (fun hk => ?_)
    obtain ⟨p, hp, _, _, hliq⟩ := hpo'.builtins k hk
    have := hpos hTL hTR
    exact ⟨this.1, this.2, hD 0 (by rw [hp]; exact hliq) hU⟩
  · intro hmem p hp
    simp only at hp
    have e : poolMelSym ≠ k := by intro e; rw [← e] at hnod'; exact hnod'.1 hmem
    rw [AList.get_set_ne _ _ e] at hp
    exact hB1 (List.mem_cons_of_mem _ hmem) p hp
  · intro p hp
    simp only at hp
    by_cases e : poolMelSym = k
    · subst e
      rw [AList.get_set_self] at hp; cases hp
      obtain ⟨q, hq, _⟩ := hpo'.builtins poolMelSym (melSym_mem_builtinsOf _)
      have h1 := hB1 List.mem_cons_self q hq
      rw [hq] at hle
      have h2 : depTL (transactionsForPool reqs poolMelSym) ≤ V := by
        refine Nat.le_trans ?_ hV
        unfold depTL
        exact satSum_le_sum _
      simp only [Option.getD_some] at hle
      omega
    · rw [AList.get_set_ne _ _ e] at hp; exact hB2 p hp
  · exact fun k' hk' => hsub k' (List.mem_cons_of_mem _ hk')

/-! ### Melmint and sealing as a whole (generalised copies of `presealMelmint_ok`, `sealState_ok_pools`) -/

theorem presealMelmint_ok' (env : Env) (s : State) (B V1 V2 : Nat)
    (hcounts : s.tip906 = true → CountsOk s.coins)
    (hfaith : TotalSealL.Faithful s.txs s.coins)
    (hn : (s.txs.map (·.hash)).Nodup)
    (hsane : ∀ k p, s.pools.get k = some p → (p.liqs ≠ 0 → 0 < p.lefts ∧ 0 < p.rights))
    (hB : 2 ^ 125 ≤ B)
    (hres : ∀ p, s.pools.get poolMelSym = some p → p.lefts ≤ B)
    (hV1 : swapMelIn (createBuiltins s) ≤ V1)
    (hV2 : ∀ s1, processSwaps (createBuiltins s) = .ok s1 → depMelIn s1 ≤ V2) :
    ∃ st, presealMelmint env s = .ok st ∧ SameBase s st ∧ PoolsOk s.tip902 st.pools ∧
      (∀ p, st.pools.get poolMelSym = some p → p.lefts ≤ B + V1 + V2 + U128_MAX / 200) := by
  obtain ⟨hpo, hB0⟩ := createBuiltins_ok s B hsane hB hres
  have hbase0 : SameBase s (createBuiltins s) := ⟨rfl, rfl, rfl, rfl, rfl⟩
  obtain ⟨s1, e1, hb1, hpo1, hci1, hB1⟩ := processSwaps_ok' s (createBuiltins s) B V1
    hbase0 hn hpo ⟨hcounts, hfaith⟩ hV1 hB0
  obtain ⟨s2, e2, hb2, hpo2, hB2⟩ := processDeposits_ok' env s s1 (B + V1) V2
    hb1 hn hpo1 hci1 (hV2 s1 e1) hB1
  obtain ⟨s3, e3, hb3, hsane3, hB3⟩ := processWithdrawals_ok env s s2 _ hb2 hpo2.sane hB2
  obtain ⟨hpo3', hB3'⟩ := createBuiltins_ok s3 _ hsane3 (by omega) hB3
  rw [hb3.tip902] at hpo3'
  have hb3' : SameBase s (createBuiltins s3) := ⟨hb3.txs, hb3.height, hb3.network, hb3.feePool, hb3.tips⟩
  obtain ⟨s4, e4, hb4, hpo4, hB4⟩ := processPegging_ok s (createBuiltins s3) _ hb3' hpo3' hB3'
  refine ⟨s4, ?_, hb4, hpo4, hB4⟩
  unfold presealMelmint
  simp only
  have hlen : ¬ (createBuiltins s).pools.length < 2 := by
    obtain ⟨p1, h1, _⟩ := hpo.builtins poolMelSym (melSym_mem_builtinsOf _)
    obtain ⟨p2, h2, _⟩ := hpo.builtins poolMelErg (melErg_mem_builtinsOf _)
    exact two_le_length_of_get poolMelSym_ne_poolMelErg (by rw [h1]; rfl) (by rw [h2]; rfl)
  rw [if_neg hlen, e1]
  simp only [Outcome.bind]
  rw [e2]
  simp only
  rw [e3]
  simp only
  exact e4

/-- sealing succeeds (and prices the builtin pools) when the MEL/SYM reserve, what the selected requests pay in, the
    peg adjustment (at most `U128_MAX / 200`) and the fee pool together fit a u128, and so does the proposer's
    reward -/
theorem sealState_ok_pools' (env : Env) (s : State) (action : Option ProposerAction) (B V1 V2 : Nat)
    (hcounts : s.tip906 = true → CountsOk s.coins)
    (hfaith : TotalSealL.Faithful s.txs s.coins)
    (hn : (s.txs.map (·.hash)).Nodup)
    (hsane : ∀ k p, s.pools.get k = some p → (p.liqs ≠ 0 → 0 < p.lefts ∧ 0 < p.rights))
    (hB : 2 ^ 125 ≤ B)
    (hres : ∀ p, s.pools.get poolMelSym = some p → p.lefts ≤ B)
    (hV1 : swapMelIn (createBuiltins s) ≤ V1)
    (hV2 : ∀ s1, processSwaps (createBuiltins s) = .ok s1 → depMelIn s1 ≤ V2)
    (hfee : s.feePool + (B + V1 + V2 + U128_MAX / 200) ≤ U128_MAX)
    (hrew : (s.feePool + (B + V1 + V2 + U128_MAX / 200)) / 65536 + s.tips ≤ U128_MAX)
    (hh : s.height < TIP_909_HEIGHT + 128 * SUBSIDY_HALVING) :
    ∃ ss, sealState env s action = .ok ss ∧ PoolsOk s.tip902 ss.st.pools := by
  obtain ⟨s1, e1, hb1, hpo1, hB1⟩ := presealMelmint_ok' env s B V1 V2 hcounts hfaith hn hsane hB hres hV1 hV2
  have hlen : ¬ s1.pools.length < 2 := by
    obtain ⟨p1, h1, _⟩ := hpo1.builtins poolMelSym (melSym_mem_builtinsOf _)
    obtain ⟨p2, h2, _⟩ := hpo1.builtins poolMelErg (melErg_mem_builtinsOf _)
    exact two_le_length_of_get poolMelSym_ne_poolMelErg (by rw [h1]; rfl) (by rw [h2]; rfl)
  have h2 : ∃ s2, (if s1.tip909 = true then applyTip909 s1 else .ok s1) = .ok s2 ∧ s2.tips = s.tips ∧
      s2.feePool ≤ s.feePool + (B + V1 + V2 + U128_MAX / 200) ∧ PoolsOk s.tip902 s2.pools := by
    by_cases h9 : s1.tip909 = true
    · rw [if_pos h9]
      have h902 : s.tip902 = true := tip909_imp_tip902 s (by rw [← hb1.tip909]; exact h9)
      exact applyTip909_ok s s1 _ hb1 hpo1 h902 hh hB1 hfee
    · rw [if_neg h9]
      exact ⟨s1, rfl, hb1.tips, by rw [hb1.feePool]; omega, hpo1⟩
  obtain ⟨s2, e2, ht2, hf2, hpo2⟩ := h2
  unfold sealState
  rw [e1]
  simp only [Outcome.bind]
  rw [if_neg hlen, e2]
  simp only
  cases action with
  | none => exact ⟨_, rfl, hpo2⟩
  | some a =>
    have hdiv : s2.feePool / 65536 ≤ (s.feePool + (B + V1 + V2 + U128_MAX / 200)) / 65536 :=
      Nat.div_le_div_right hf2
    obtain ⟨s3, e3⟩ := applyProposerAction_ok env s2 a (by rw [ht2]; omega)
    simp only
    rw [e3]
    exact ⟨_, rfl, by rw [applyProposerAction_pools env s2 a s3 e3]; exact hpo2⟩

/-! ### the selected requests are backed by coins of the state being sealed -/

theorem processSwapsForPool_txs (k : PoolKey) (s : State) (swaps : List Tx) (s' : State)
    (h : processSwapsForPool k s swaps = .ok s') : s'.txs = s.txs := by
  unfold processSwapsForPool at h
  split at h
  · cases h
  · simp only at h
    split at h
    · cases h
    · cases h
    · obtain ⟨coins, _, h2⟩ := Outcome.bind_eq_ok h
      cases h2; rfl

theorem processSwaps_txs (s s' : State) (h : processSwaps s = .ok s') : s'.txs = s.txs := by
  unfold processSwaps at h
  exact Outcome.foldlM'_inv (fun st => st.txs = s.txs) _
    (fun b a b' hb hf => (processSwapsForPool_txs _ _ _ _ hf).trans hb) _ _ _ rfl h

/-- a swap request selected in `st` (a state with the coin of `tx` as in `s`) is backed by a coin of `s` carrying the
    value and the denomination of the transaction's first output -/
theorem swapRequest_backed {s st : State} (hf : Mel.Faithful s) {tx : Tx} (htx : tx ∈ s.txs)
    (hc : st.coins.getCoin ⟨tx.hash, 0⟩ = s.coins.getCoin ⟨tx.hash, 0⟩)
    (h : isSwapRequest st tx = true) :
    tx.kind = .swap ∧ ∃ k o rest c, canonicalPoolKey tx.data = some k ∧ tx.outputs = o :: rest ∧
      s.coins.getCoin ⟨tx.hash, 0⟩ = some c ∧ c.coinData.value = o.value ∧ c.coinData.denom = o.denom := by
  obtain ⟨hk, k, o, rest, c, ho, hck, hc0, hside⟩ := SupplySealL.isSwapRequest_full h
  rw [hc] at hc0
  obtain ⟨_, h2, h3⟩ := canonical_sides hck
  have hne : o.denom ≠ .newCustom := by
    rcases hside with e | e <;> rw [e] <;> assumption
  have := hf tx htx 0 o c (by rw [ho]; rfl) hc0
  rw [createdDenom_of_ne hne] at this
  exact ⟨hk, k, o, rest, c, hck, ho, hc0, this.1, this.2⟩

/-- a deposit request selected in `st` is backed by two coins of `s` carrying the values and the denominations (the
    two sides of the pool) of the transaction's first two outputs -/
theorem depositRequest_backed {s st : State} (hf : Mel.Faithful s) {tx : Tx} (htx : tx ∈ s.txs)
    (hc : ∀ i, st.coins.getCoin ⟨tx.hash, i⟩ = s.coins.getCoin ⟨tx.hash, i⟩)
    (h : isDepositRequest st tx = true) :
    tx.kind = .liqDeposit ∧ ∃ k o0 o1 rest c0 c1, canonicalPoolKey tx.data = some k ∧
      tx.outputs = o0 :: o1 :: rest ∧
      s.coins.getCoin ⟨tx.hash, 0⟩ = some c0 ∧ c0.coinData.value = o0.value ∧ c0.coinData.denom = k.left ∧
      s.coins.getCoin ⟨tx.hash, 1⟩ = some c1 ∧ c1.coinData.value = o1.value ∧ c1.coinData.denom = k.right := by
  obtain ⟨hk, k, o0, o1, rest, c0, c1, ho, hck, hc0, hc1, hd0, hd1⟩ := SupplySealL.isDepositRequest_full h
  rw [hc] at hc0 hc1
  obtain ⟨_, h2, h3⟩ := canonical_sides hck
  have f0 := hf tx htx 0 o0 c0 (by rw [ho]; rfl) hc0
  have f1 := hf tx htx 1 o1 c1 (by rw [ho]; rfl) hc1
  rw [createdDenom_of_ne (by rw [hd0]; exact h2)] at f0
  rw [createdDenom_of_ne (by rw [hd1]; exact h3)] at f1
  exact ⟨hk, k, o0, o1, rest, c0, c1, hck, ho, hc0, f0.1, f0.2.trans hd0, hc1, f1.1, f1.2.trans hd1⟩

/-- a withdrawal request selected in `st` is backed by a coin of `s` carrying the value of the transaction's only
    output, in the pool's liquidity token -/
theorem withdrawRequest_backed {env : Env} {s st : State} (hf : Mel.Faithful s) {tx : Tx} (htx : tx ∈ s.txs)
    (hc : st.coins.getCoin ⟨tx.hash, 0⟩ = s.coins.getCoin ⟨tx.hash, 0⟩)
    (h : isWithdrawRequest env st tx = true) :
    tx.kind = .liqWithdraw ∧ ∃ k o0 c0, canonicalPoolKey tx.data = some k ∧ tx.outputs = [o0] ∧
      s.coins.getCoin ⟨tx.hash, 0⟩ = some c0 ∧ c0.coinData.value = o0.value ∧
      c0.coinData.denom = liqTokenDenom env k := by
  obtain ⟨hk, k, o0, c0, ho, hck, hc0, hd0⟩ := SupplySealL.isWithdrawRequest_full h
  rw [hc] at hc0
  have f0 := hf tx htx 0 o0 c0 (by rw [ho]; rfl) hc0
  rw [createdDenom_of_ne (by rw [hd0]; intro e; cases e)] at f0
  exact ⟨hk, k, o0, c0, hck, ho, hc0, f0.1, f0.2.trans hd0⟩

/-- **the MEL that the swap and the deposit requests of one block pay into the MEL/SYM pool is held in coins**: the
    requests are distinct transactions of the block (distinct hashes), each backed by its own MEL coin -/
theorem inflow_le {s s1 : State} (hkeys : (s.coins.coins.map (·.1)).Nodup) (hn : (s.txs.map (·.hash)).Nodup)
    (hf : Mel.Faithful s) (h1 : processSwaps (createBuiltins s) = .ok s1) :
    swapMelIn (createBuiltins s) + depMelIn s1 ≤ coinsTotal s.coins .mel := by
  have htxs1 : s1.txs = s.txs := processSwaps_txs (createBuiltins s) s1 h1
  obtain ⟨swapL, hswapL⟩ : ∃ l, l = transactionsForPool
      ((createBuiltins s).txs.filter (isSwapRequest (createBuiltins s))) poolMelSym := ⟨_, rfl⟩
  obtain ⟨depL, hdepL⟩ : ∃ l, l = transactionsForPool (s1.txs.filter (isDepositRequest s1)) poolMelSym := ⟨_, rfl⟩
  have hsw : ∀ tx ∈ swapL, tx ∈ s.txs ∧ isSwapRequest (createBuiltins s) tx = true := by
    intro tx htx
    rw [hswapL] at htx
    exact List.mem_filter.mp (mem_transactionsForPool_iff.mp htx).1
  have hdp : ∀ tx ∈ depL, tx ∈ s.txs ∧ isDepositRequest s1 tx = true ∧
      canonicalPoolKey tx.data = some poolMelSym := by
    intro tx htx
    rw [hdepL] at htx
    obtain ⟨h2, h3⟩ := mem_transactionsForPool_iff.mp htx
    obtain ⟨h4, h5⟩ := List.mem_filter.mp h2
    exact ⟨htxs1 ▸ h4, h5, h3⟩
  let w : Tx → Nat := fun tx => cwAt s.coins .mel ⟨tx.hash, 0⟩
  have hA : swapMelIn (createBuiltins s) ≤ (swapL.map w).sum := by
    unfold swapMelIn
    rw [← hswapL]
    refine sum_le_sum _ _ _ ?_
    intro tx htx
    obtain ⟨hm, hreq⟩ := hsw tx htx
    obtain ⟨_, k, o, rest, c, _, ho, hc0, hv, hd⟩ := swapRequest_backed (st := createBuiltins s) hf hm rfl hreq
    have hh : tx.outputs.headD default = o := by rw [ho]; rfl
    show _ ≤ cwAt s.coins .mel ⟨tx.hash, 0⟩
    rw [hh, cwAt_some hc0]
    simp only [cw, hv, hd]
    exact Nat.le_refl _
  have hBd : depMelIn s1 ≤ (depL.map w).sum := by
    unfold depMelIn
    rw [← hdepL]
    refine sum_le_sum _ _ _ ?_
    intro tx htx
    obtain ⟨hm, hreq, hck⟩ := hdp tx htx
    have hkd : tx.kind = .liqDeposit := (SupplySealL.isDepositRequest_full hreq).1
    have hsame : ∀ i, s1.coins.getCoin ⟨tx.hash, i⟩ = s.coins.getCoin ⟨tx.hash, i⟩ := by
      intro i
      refine (processSwaps_coins ⟨tx.hash, i⟩ _ _ h1 ?_).1
      intro tx' htx' hreq' e
      have hks : tx'.kind = .swap := (SupplySealL.isSwapRequest_full hreq').1
      have : tx' = tx := eq_of_nodup_map _ hn htx' hm e
      rw [this, hkd] at hks
      cases hks
    obtain ⟨_, k, o0, o1, rest, c0, c1, hck', ho, hc0, hv0, hd0, _⟩ := depositRequest_backed hf hm hsame hreq
    rw [hck] at hck'
    cases hck'
    have hh : tx.outputs.headD default = o0 := by rw [ho]; rfl
    show _ ≤ cwAt s.coins .mel ⟨tx.hash, 0⟩
    rw [hh, cwAt_some hc0]
    simp only [cw, hv0, hd0, poolMelSym_left]
    exact Nat.le_refl _
  have hhash : ((swapL ++ depL).map (·.hash)).Nodup := by
    rw [List.map_append, List.nodup_append]
    have hsub : ∀ (q : Tx → Bool) (l : List Tx), l = s.txs → ((l.filter q).map (·.hash)).Nodup := by
      intro q l hl
      rw [hl]
      exact List.Nodup.sublist (List.Sublist.map _ List.filter_sublist) hn
    refine ⟨?_, ?_, ?_⟩
    · rw [hswapL]; exact transactionsForPool_nodup (hsub _ _ rfl) _
    · rw [hdepL]; exact transactionsForPool_nodup (hsub _ _ htxs1) _
    · intro a ha b hb e
      obtain ⟨t1, ht1, rfl⟩ := List.mem_map.mp ha
      obtain ⟨t2, ht2, rfl⟩ := List.mem_map.mp hb
      obtain ⟨m1, r1⟩ := hsw t1 ht1
      obtain ⟨m2, r2, _⟩ := hdp t2 ht2
      have hk1 : t1.kind = .swap := (SupplySealL.isSwapRequest_full r1).1
      have hk2 : t2.kind = .liqDeposit := (SupplySealL.isDepositRequest_full r2).1
      have : t1 = t2 := eq_of_nodup_map _ hn m1 m2 e
      rw [this, hk2] at hk1
      cases hk1
  have hC := sum_values_le s.coins hkeys .mel (swapL ++ depL) 0 w hhash (fun _ _ => Nat.le_refl _)
  rw [List.map_append, List.sum_append] at hC
  omega

/-! ### the MEL supply splits into coins, the MEL/SYM reserve, the fee pool and the tips -/

theorem mem_le_sum : ∀ (l : List Nat) (a : Nat), a ∈ l → a ≤ l.sum := by
  intro l
  induction l with
  | nil => intro a h; cases h
  | cons x xs ih =>
    intro a h
    simp only [List.sum_cons]
    rcases List.mem_cons.mp h with rfl | h
    · omega
    · have := ih a h; omega

theorem melSym_reserve_le_poolsTotal {pools : AList PoolKey PoolState} {p : PoolState}
    (h : pools.get poolMelSym = some p) : p.lefts ≤ poolsTotal pools .mel := by
  have hm := AList.mem_of_get_eq_some h
  unfold poolsTotal
  refine Nat.le_trans ?_ (mem_le_sum _ _ (List.mem_map.mpr ⟨_, hm, rfl⟩))
  simp only [poolMelSym_left, if_true]
  omega

theorem supply_mel_split (s : State) :
    supply s .mel = coinsTotal s.coins .mel + poolsTotal s.pools .mel + (s.feePool + s.tips) := by
  unfold supply
  rw [if_pos rfl]

/-- sealing succeeds when the MEL supply of the state is at most `S` and `S + 2^125 + u128::MAX/200` fits a u128
    (`2^125` bounds the reserve of a builtin pool made afresh, `u128::MAX/200` the peg adjustment) -/
theorem sealState_ok_supply (env : Env) (s : State) (action : Option ProposerAction) (S : Nat)
    (hcounts : s.tip906 = true → CountsOk s.coins)
    (hfaith : TotalSealL.Faithful s.txs s.coins)
    (hn : (s.txs.map (·.hash)).Nodup)
    (hsane : ∀ k p, s.pools.get k = some p → (p.liqs ≠ 0 → 0 < p.lefts ∧ 0 < p.rights))
    (hkeys : (s.coins.coins.map (·.1)).Nodup)
    (hf : Mel.Faithful s)
    (hS : supply s .mel ≤ S)
    (hcap : S + 2 ^ 125 + U128_MAX / 200 ≤ U128_MAX)
    (hh : s.height < TIP_909_HEIGHT + 128 * SUBSIDY_HALVING) :
    ∃ ss, sealState env s action = .ok ss ∧ PoolsOk s.tip902 ss.st.pools := by
  rw [supply_mel_split] at hS
  obtain ⟨s1, h1⟩ := processSwaps_total (createBuiltins s)
  have hin := inflow_le hkeys hn hf h1
  have hR : ∃ R, (∀ p, s.pools.get poolMelSym = some p → p.lefts ≤ R) ∧ R ≤ poolsTotal s.pools .mel := by
    cases hg : s.pools.get poolMelSym with
    | none => exact ⟨0, fun p hp => (by cases hp), Nat.zero_le _⟩
    | some q =>
      refine ⟨q.lefts, fun p hp => (by cases hp; exact Nat.le_refl _), melSym_reserve_le_poolsTotal hg⟩
  obtain ⟨R, hR1, hR2⟩ := hR
  refine sealState_ok_pools' env s action (R + 2 ^ 125) (swapMelIn (createBuiltins s))
    (coinsTotal s.coins .mel - swapMelIn (createBuiltins s)) hcounts hfaith hn hsane (by omega)
    (fun p hp => Nat.le_trans (hR1 p hp) (Nat.le_add_right _ _)) (Nat.le_refl _) ?_ ?_ ?_ hh
  · intro s1' h1'
    have := inflow_le hkeys hn hf h1'
    omega
  · omega
  · omega

/-! ### apply part: per-denomination sums of spent coins -/

end SupplyBoundL

/-- everything the outputs of the transactions of a batch create in denomination `d` (`outAll`, Lemmas/Supply.lean:
    the outputs of a transaction created in `d`, a `NewCustom` output counting for the transaction's own token) -/
def batchOutputs (txs : List Tx) (d : Denom) : Nat := (txs.map fun tx => outAll tx d).sum

namespace SupplyBoundL
open Mel.Gen Mel.BatchL TotalL

/-- what the coin an input resolves to contributes to denomination `d` -/
def relValD (rel : Relevant) (d : Denom) (id : CoinID) : Nat := AList.valAt (cval d) rel id

theorem relValD_of_get {rel : Relevant} {id : CoinID} {c : CoinDataHeight} (d : Denom) (h : rel.get id = some c) :
    relValD rel d id = cval d c := by
  simp [relValD, AList.valAt, h]

/-- per-denomination version of `inFold_noCrash`: the running total of EACH denomination plus what the remaining
    inputs add to THAT denomination fits a u128 -/
theorem inFold_noCrash_d (env : Env) (s : State) (lh : Header) (tx : Tx) (rel : Relevant)
    (ns : AList Hash StakeDoc) (l : List (CoinID × Nat)) :
    ∀ (acc : AList Denom Nat),
      (∀ d, (acc.get d).getD 0 + (l.map fun e => relValD rel d e.1).sum ≤ U128_MAX) →
      NoCrash (Outcome.foldlM' (TotalL.inStep env s lh tx rel ns) acc l) := by
  induction l with
  | nil => intro acc _; exact NoCrash.ok _
  | cons e rest ih =>
    intro acc hacc
    simp only [List.map_cons, List.sum_cons] at hacc
    simp only [Outcome.foldlM']
    cases hstep : TotalL.inStep env s lh tx rel ns acc e with
    | reject r => exact NoCrash.reject _
    | crash c =>
      exfalso
      simp only [TotalL.inStep] at hstep
      split at hstep
      · cases hstep
      · split at hstep
        · cases hstep
        · rename_i coin hcoin
          have hv := relValD_of_get coin.coinData.denom hcoin
          simp only [cval, if_true] at hv
          cases hval : validateTxScripts env e.2 e.1 tx coin lh with
          | ok u =>
            rw [hval] at hstep
            simp only [Outcome.bind] at hstep
            split at hstep
            · rename_i hgt
              have := hacc coin.coinData.denom
              omega
            · cases hstep
          | reject r => rw [hval] at hstep; cases hstep
          | crash c' => exact validateTxScripts_noCrash env e.2 e.1 tx coin lh c' hval
    | ok acc' =>
      simp only [TotalL.inStep] at hstep
      split at hstep
      · cases hstep
      · split at hstep
        · cases hstep
        · rename_i coin hcoin
          cases hval : validateTxScripts env e.2 e.1 tx coin lh with
          | ok u =>
            rw [hval] at hstep
            simp only [Outcome.bind] at hstep
            split at hstep
            · cases hstep
            · simp only [Outcome.ok.injEq] at hstep
              subst hstep
              refine ih _ ?_
              intro d
              have hv := relValD_of_get d hcoin
              have := hacc d
              by_cases hd : d = coin.coinData.denom
              · subst hd
                rw [AList.get_set_self]
                simp only [cval, if_true] at hv
                simp only [Option.getD_some]
                omega
              · rw [AList.get_set_ne _ _ hd]
                have hz : cval d coin = 0 := by
                  simp only [cval]
                  rw [if_neg (fun e => hd e.symm)]
                omega
          | reject r => rw [hval] at hstep; cases hstep
          | crash c' => rw [hval] at hstep; cases hstep

theorem checkTxValidity_noCrash_d (env : Env) (s : State) (lh : Header) (tx : Tx) (rel : Relevant)
    (ns : AList Hash StakeDoc) (hsum : ∀ d, (tx.inputs.map (relValD rel d)).sum ≤ U128_MAX) :
    NoCrash (checkTxValidity env s lh tx rel ns) := by
  rw [TotalL.checkTxValidity_eq]
  refine NoCrash.bind ?_ (fun _ _ => checkBalanced_noCrash _ _ _)
  refine inFold_noCrash_d env s lh tx rel ns _ [] ?_
  intro d
  have : (tx.inputs.zipIdx.map fun e => relValD rel d e.1) = tx.inputs.map (relValD rel d) := by
    have h : (tx.inputs.zipIdx.map fun e => relValD rel d e.1) =
        (tx.inputs.zipIdx.map Prod.fst).map (relValD rel d) := by
      rw [List.map_map]; rfl
    rw [h, List.zipIdx_map_fst]
  rw [this]
  have := hsum d
  simp only [AList.get, Option.getD_none]
  omega

/-- per-denomination version of `inputs_value_bound`: what the inputs of one transaction of the batch are worth in
    denomination `d` is at most the coins of `d` in the state plus everything the batch's outputs create in `d` -/
theorem inputs_value_bound_d {s : State} {txs : List Tx} {rel : Relevant}
    (hload : loadRelevantCoins s txs = .ok rel) {tx : Tx} (htx : tx ∈ txs) (d : Denom) :
    (tx.inputs.map (relValD rel d)).sum ≤ coinsTotal s.coins d + batchOutputs txs d := by
  obtain ⟨-, hnd, -, r1, r2⟩ := loadRelevantCoins_ok hload
  have hnd' : tx.inputs.Nodup := (List.pairwise_flatMap.mp hnd).1 tx htx
  have hpt : ∀ id ∈ tx.inputs, relValD rel d id ≤
      AList.valAt (cval d) (createdOf s.height txs) id + AList.valAt (cval d) s.coins.coins id := by
    intro id _
    cases hc : (createdOf s.height txs).get id with
    | some c =>
      rw [relValD_of_get d (r1 id c hc)]
      simp [AList.valAt, hc]
    | none =>
      cases hr : rel.get id with
      | none => simp [relValD, AList.valAt, hr]
      | some c =>
        have h2 : s.coins.coins.get id = some c := r2 id c hc hr
        rw [relValD_of_get d hr]
        simp [AList.valAt, h2]
  have h1 := TotalL.sum_map_le_add _ _ _ tx.inputs hpt
  have h2 := AList.sum_valAt_le (cval d) tx.inputs (createdOf s.height txs) hnd'
  have h3 := AList.sum_valAt_le (cval d) tx.inputs s.coins.coins hnd'
  have h4 : ((createdOf s.height txs).map fun e => cval d e.2).sum ≤ batchOutputs txs d :=
    ctot_createdOf s.height d txs
  have h5 : (s.coins.coins.map fun e => cval d e.2).sum = coinsTotal s.coins d :=
    (Mel.coinsTotal_eq s.coins d).symm
  omega

/-- `applyBatch_noCrash'` (Lemmas/ReachSealL.lean) with the amount hypothesis stated per denomination, and only for
    batches whose transactions are all well-formed (a batch with an ill-formed transaction is rejected before any
    arithmetic) -/
theorem applyBatch_noCrash_d (env : Env) (s : State) (txs : List Tx) (fb : Header)
    (hc : s.tip906 = true → CountsOk s.coins)
    (hfresh : ∀ t ∈ txs, ∀ i, s.coins.getCoin ⟨t.hash, i⟩ = none)
    (hheights : ∀ id c, s.coins.getCoin id = some c → c.height ≤ s.height)
    (hbounded : (∀ t ∈ txs, t.isWellFormed = true) → ∀ d, coinsTotal s.coins d + batchOutputs txs d ≤ U128_MAX)
    (hspeeds : ∀ h hdr, s.history.get h = some hdr → 0 < hdr.doscSpeed)
    (hbelow : ∀ h hdr, s.history.get h = some hdr → h < s.height)
    (hdiff : ∀ a b c d, env.powOk a b c d ≠ .invalid → c ≤ 100)
    (hfits : ∀ hdr, s.history.get (s.height - 1) = some hdr → ∀ a b d t, env.powOk a b d t ≠ .invalid →
      microergsIter s.height * ((TIP910_WORK_FACTOR * 2 ^ d) * (TIP910_SPEED_FACTOR * 2 ^ d) * MICRO_CONVERTER /
        (hdr.doscSpeed ^ 2 * REWARD_DIVISOR)) / MICRO_CONVERTER ≤ U128_MAX) :
    NoCrash (applyBatch env s txs fb) := by
  unfold applyBatch
  refine NoCrash.bind (loadRelevantCoins_noCrash s txs) ?_
  intro rel hrel
  have hwf : ∀ t ∈ txs, t.isWellFormed = true := fun t ht => ((loadRelevantCoins_ok hrel).1 t ht).1
  have hw : ∀ t ∈ txs, (t.covenants.map covenantWeightFromBytes).sum ≤ U128_MAX := by
    intro t ht
    have h := ((loadRelevantCoins_ok hrel).1 t ht).2.2
    simpa [Tx.covWeightsFit] using h
  refine NoCrash.bind (loadStakeInfo_noCrash s txs) ?_
  intro ns _
  dsimp only
  refine NoCrash.bind (NoCrash.forM' _ _ ?_) ?_
  · intro tx htx
    exact checkTxValidity_noCrash_d _ _ _ _ _ _
      (fun d => Nat.le_trans (inputs_value_bound_d hrel htx d) (hbounded hwf d))
  · intro u hu
    have hall : ∀ tx ∈ txs, checkTxValidity env s (lastHeaderOf s fb) tx rel ns = .ok () :=
      (Outcome.forM'_eq_ok _ _).mp hu
    refine NoCrash.bind ?_ ?_
    · refine NoCrash.foldlM' _ (fun _ => True) txs ?_ _ trivial
      intro sp _ tx htx
      refine ⟨?_, fun _ _ => trivial⟩
      split
      · rename_i hk
        have hkf : tx.kind ≠ .faucet := by rw [hk]; decide
        exact NoCrash.bind
          (validateDoscmint_noCrash (checkTxValidity_ok_inputs hkf (hall tx htx)) (rel_heights hrel hheights)
            hdiff hbelow hspeeds hfits)
          (fun _ _ => NoCrash.ok _)
      · exact NoCrash.ok _
    · intro newSpeed _
      exact NoCrash.bind (ReachSealL.createNextState_noCrash' env s txs rel hc hfresh hw) (fun _ _ => NoCrash.ok _)

/-- the old, denomination-blind hypothesis `bounded` of `ApplyPre` implies the per-denomination one -/
theorem bounded_imp_d (s : State) (txs : List Tx)
    (hb : (s.coins.coins.map (·.2.coinData.value)).sum + ((txs.flatMap (·.outputs)).map (·.value)).sum ≤ U128_MAX)
    (d : Denom) : coinsTotal s.coins d + batchOutputs txs d ≤ U128_MAX := by
  have h1 : coinsTotal s.coins d ≤ (s.coins.coins.map (·.2.coinData.value)).sum := by
    unfold coinsTotal
    exact sum_filter_le _ _ _
  have h2 : ∀ l : List Tx, batchOutputs l d ≤ ((l.flatMap (·.outputs)).map (·.value)).sum := by
    intro l
    induction l with
    | nil => simp [batchOutputs]
    | cons tx rest ih =>
      have h3 : outAll tx d ≤ (tx.outputs.map (·.value)).sum := by
        unfold outAll
        refine sum_le_sum _ _ _ ?_
        intro o _
        unfold outVal
        split
        · exact Nat.le_refl _
        · exact Nat.zero_le _
      simp only [batchOutputs, List.map_cons, List.sum_cons, List.flatMap_cons, List.map_append,
        List.sum_append] at ih ⊢
      omega
  exact Nat.le_trans (Nat.add_le_add h1 (h2 txs)) hb

/-- what well-formedness gives: the outputs of ONE transaction created in a denomination are worth less than 2^128 -/
theorem outAll_le_of_wellFormed {tx : Tx} (h : tx.isWellFormed = true) (d : Denom) :
    outAll tx d ≤ 255 * MAX_COINVAL := by
  simp only [Tx.isWellFormed, Bool.and_eq_true, decide_eq_true_eq, List.all_eq_true] at h
  obtain ⟨⟨h1, _⟩, h3⟩ := h
  have key : ∀ l : List CoinData, (∀ o ∈ l, o.value ≤ MAX_COINVAL) →
      (l.map (outVal tx d)).sum ≤ l.length * MAX_COINVAL := by
    intro l
    induction l with
    | nil => intro _; simp
    | cons o rest ih =>
      intro hl
      have h4 := hl o List.mem_cons_self
      have h5 := ih (fun x hx => hl x (List.mem_cons_of_mem _ hx))
      have h6 : outVal tx d o ≤ MAX_COINVAL := by
        unfold outVal
        split
        · exact h4
        · exact Nat.zero_le _
      simp only [List.map_cons, List.sum_cons, List.length_cons, Nat.add_mul, Nat.one_mul]
      omega
  refine Nat.le_trans (key tx.outputs h1) (Nat.mul_le_mul_right _ h3)

end SupplyBoundL
end Mel
