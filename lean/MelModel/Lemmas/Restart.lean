/- helper lemmas for C08 -/
import MelModel.Chain
import MelModel.Lemmas.Counts
import MelModel.Lemmas.FeeMult
namespace Mel
open Mel.Gen

/-! ### `bytesLt` is a strict total order -/

theorem bytesLt_cons (a b : UInt8) (as bs : List UInt8) :
    bytesLt (a :: as) (b :: bs) =
      if a.toNat < b.toNat then true else if b.toNat < a.toNat then false else bytesLt as bs := by
  simp [bytesLt, UInt8.lt_iff_toNat_lt]

theorem bytesLt_irrefl (a : List UInt8) : bytesLt a a = false := by
  induction a with
  | nil => rfl
  | cons x xs ih => rw [bytesLt_cons]; simp [ih]

theorem bytesLt_trans : ∀ (a b c : List UInt8),
    bytesLt a b = true → bytesLt b c = true → bytesLt a c = true
  | [], [], _, h, _ => by simp [bytesLt] at h
  | [], _ :: _, [], _, h => by simp [bytesLt] at h
  | [], _ :: _, _ :: _, _, _ => by simp [bytesLt]
  | _ :: _, [], _, h, _ => by simp [bytesLt] at h
  | _ :: _, _ :: _, [], _, h => by simp [bytesLt] at h
  | a :: as, b :: bs, c :: cs, h1, h2 => by
    have ih := bytesLt_trans as bs cs
    rw [bytesLt_cons] at h1 h2 ⊢
    by_cases hab : a.toNat < b.toNat
    · by_cases hbc : b.toNat < c.toNat
      · rw [if_pos (by omega)]
      · rw [if_neg hbc] at h2
        by_cases hcb : c.toNat < b.toNat
        · rw [if_pos hcb] at h2; cases h2
        · rw [if_pos (by omega)]
    · rw [if_neg hab] at h1
      by_cases hba : b.toNat < a.toNat
      · rw [if_pos hba] at h1; cases h1
      · rw [if_neg hba] at h1
        by_cases hbc : b.toNat < c.toNat
        · rw [if_pos (by omega)]
        · rw [if_neg hbc] at h2
          by_cases hcb : c.toNat < b.toNat
          · rw [if_pos hcb] at h2; cases h2
          · rw [if_neg hcb] at h2
            rw [if_neg (by omega), if_neg (by omega)]
            exact ih h1 h2

-- (in `Mel.RestartL`: the name `bytesLt_asymm` also occurs in Lemmas/Swap.lean)
theorem RestartL.bytesLt_asymm (a b : List UInt8) (h : bytesLt a b = true) : bytesLt b a = false := by
  cases hba : bytesLt b a with
  | false => rfl
  | true =>
    have := bytesLt_trans a b a h hba
    rw [bytesLt_irrefl] at this; cases this

open RestartL

theorem bytesLt_total : ∀ (a b : List UInt8), bytesLt a b = false → bytesLt b a = false → a = b
  | [], [], _, _ => rfl
  | [], _ :: _, h, _ => by simp [bytesLt] at h
  | _ :: _, [], _, h => by simp [bytesLt] at h
  | a :: as, b :: bs, h1, h2 => by
    rw [bytesLt_cons] at h1 h2
    by_cases hab : a.toNat < b.toNat
    · rw [if_pos hab] at h1; cases h1
    · by_cases hba : b.toNat < a.toNat
      · rw [if_pos hba] at h2; cases h2
      · rw [if_neg hab, if_neg hba] at h1
        rw [if_neg hba, if_neg hab] at h2
        have : a = b := UInt8.toNat_inj.mp (by omega)
        rw [this, bytesLt_total as bs h1 h2]

theorem bytesLt_ne {a b : List UInt8} (h : bytesLt a b = true) : a ≠ b := by
  intro e; subst e; rw [bytesLt_irrefl] at h; cases h

/-! ### `insertTx` on sorted lists -/

/-- `h` is below the hash of the head (if any) -/
def HeadGt (h : Hash) (l : List Tx) : Prop := ∀ t, l.head? = some t → bytesLt h t.hash = true

theorem HeadGt_nil (h : Hash) : HeadGt h [] := by intro t ht; cases ht

theorem HeadGt_cons (h : Hash) (t : Tx) (l : List Tx) : HeadGt h (t :: l) ↔ bytesLt h t.hash = true := by
  constructor
  · intro H; exact H t rfl
  · intro H t' ht'; cases ht'; exact H

theorem HeadGt_insertTx (h : Hash) (l : List Tx) (tx : Tx) (hl : HeadGt h l)
    (hx : bytesLt h tx.hash = true) : HeadGt h (State.insertTx l tx) := by
  cases l with
  | nil => simpa [State.insertTx, HeadGt_cons] using hx
  | cons t rest =>
    rw [HeadGt_cons] at hl
    unfold State.insertTx
    split
    · rw [HeadGt_cons]; exact hx
    · split
      · rw [HeadGt_cons]; exact hx
      · rw [HeadGt_cons]; exact hl

/-- pairwise form of sortedness -/
def TxLt (a b : Tx) : Prop := bytesLt a.hash b.hash = true

theorem insertTx_append_of_all_lt (l : List Tx) (x : Tx) (h : ∀ t ∈ l, TxLt t x) :
    State.insertTx l x = l ++ [x] := by
  induction l with
  | nil => rfl
  | cons t rest ih =>
    have ht : TxLt t x := h t (List.mem_cons_self ..)
    unfold State.insertTx
    rw [if_neg (bytesLt_ne ht), bytesLt_asymm _ _ ht]
    simp only [Bool.false_eq_true, if_false, List.cons_append]
    rw [ih (fun t' ht' => h t' (List.mem_cons_of_mem _ ht'))]

theorem foldl_insertTx_pairwise (l : List Tx) : ∀ (acc : List Tx), List.Pairwise TxLt (acc ++ l) →
    l.foldl State.insertTx acc = acc ++ l := by
  induction l with
  | nil => intro acc _; simp
  | cons x xs ih =>
    intro acc hp
    rw [List.foldl_cons]
    have hacc : ∀ t ∈ acc, TxLt t x := by
      intro t ht
      exact (List.pairwise_append.mp hp).2.2 t ht x (List.mem_cons_self ..)
    rw [insertTx_append_of_all_lt acc x hacc]
    have : acc ++ x :: xs = (acc ++ [x]) ++ xs := by simp
    rw [this] at hp ⊢
    exact ih _ hp

/-! ### `tips` is untouched by Melmint and the TIP-909 subsidy -/

def SameTips (s s' : State) : Prop := s'.tips = s.tips

theorem SameTips.refl (s : State) : SameTips s s := rfl

theorem SameTips.trans {a b c : State} (h1 : SameTips a b) (h2 : SameTips b c) : SameTips a c :=
  Eq.trans h2 h1

theorem processSwapsForPool_tips (k : PoolKey) (s : State) (swaps : List Tx) (s' : State)
    (h : processSwapsForPool k s swaps = .ok s') : SameTips s s' := by
  unfold processSwapsForPool at h
  split at h
  · cases h
  · simp only at h
    split at h
    · cases h
    · cases h
    · obtain ⟨coins, _, h2⟩ := Outcome.bind_eq_ok h
      cases h2; exact rfl

theorem processSwaps_tips (s s' : State) (h : processSwaps s = .ok s') : SameTips s s' := by
  unfold processSwaps at h
  exact Outcome.foldlM'_inv (SameTips s) _
    (fun b a b' hb hf => hb.trans (processSwapsForPool_tips _ _ _ _ hf)) _ _ _ (SameTips.refl s) h

theorem processDepositsForPool_tips (env : Env) (k : PoolKey) (s : State) (deps : List Tx) (s' : State)
    (h : processDepositsForPool env k s deps = .ok s') : SameTips s s' := by
  unfold processDepositsForPool at h
  simp only at h
  split at h
  · cases h
  · cases h
  · split at h
    · cases h; exact SameTips.refl s
    · obtain ⟨coins, _, h2⟩ := Outcome.bind_eq_ok h
      cases h2; exact rfl

theorem processDeposits_tips (env : Env) (s s' : State) (h : processDeposits env s = .ok s') :
    SameTips s s' := by
  unfold processDeposits at h
  exact Outcome.foldlM'_inv (SameTips s) _
    (fun b a b' hb hf => hb.trans (processDepositsForPool_tips _ _ _ _ _ hf)) _ _ _ (SameTips.refl s) h

theorem processWithdrawalsForPool_tips (k : PoolKey) (s : State) (reqs : List Tx) (s' : State)
    (h : processWithdrawalsForPool k s reqs = .ok s') : SameTips s s' := by
  unfold processWithdrawalsForPool at h
  simp only at h
  split at h
  · cases h
  · split at h
    · cases h; exact SameTips.refl _
    · split at h
      · cases h
      · cases h
      · obtain ⟨coins, _, h2⟩ := Outcome.bind_eq_ok h
        cases h2; exact rfl

theorem processWithdrawals_tips (env : Env) (s s' : State) (h : processWithdrawals env s = .ok s') :
    SameTips s s' := by
  unfold processWithdrawals at h
  exact Outcome.foldlM'_inv (SameTips s) _
    (fun b a b' hb hf => hb.trans (processWithdrawalsForPool_tips _ _ _ _ hf)) _ _ _ (SameTips.refl s) h

theorem createBuiltins_tips (s : State) : SameTips s (createBuiltins s) := rfl

theorem processPegging_tips (s s' : State) (h : processPegging s = .ok s') : SameTips s s' := by
  unfold processPegging at h
  simp only at h
  obtain ⟨⟨a, b⟩, _, h⟩ := Outcome.bind_eq_ok h
  simp only at h
  obtain ⟨sm, _, h⟩ := Outcome.bind_eq_ok h
  split at h
  · cases h
  · obtain ⟨sm1, _, h⟩ := Outcome.bind_eq_ok h
    obtain ⟨sm2, _, h⟩ := Outcome.bind_eq_ok h
    cases h; exact rfl

theorem presealMelmint_tips (env : Env) (s s' : State) (h : presealMelmint env s = .ok s') :
    SameTips s s' := by
  unfold presealMelmint at h
  simp only at h
  split at h
  · cases h
  · obtain ⟨s1, h1, h⟩ := Outcome.bind_eq_ok h
    obtain ⟨s2, h2, h⟩ := Outcome.bind_eq_ok h
    obtain ⟨s3, h3, h⟩ := Outcome.bind_eq_ok h
    exact ((((createBuiltins_tips s).trans (processSwaps_tips _ _ h1)).trans
      (processDeposits_tips _ _ _ h2)).trans (processWithdrawals_tips _ _ _ h3)).trans
      ((createBuiltins_tips s3).trans (processPegging_tips _ _ h))

theorem applyTip909_tips (s s' : State) (h : applyTip909 s = .ok s') : SameTips s s' := by
  unfold applyTip909 at h
  simp only at h
  split at h
  · cases h
  · split at h
    · cases h
    · obtain ⟨⟨sm', mel, x⟩, _, h⟩ := Outcome.bind_eq_ok h
      simp only at h
      split at h
      · cases h
      · split at h
        · cases h
        · obtain ⟨⟨es', y, z⟩, _, h⟩ := Outcome.bind_eq_ok h
          cases h; exact rfl

theorem collectProposerFee_tips (env : Env) (s : State) (a : ProposerAction) (s' : State)
    (h : collectProposerFee env s a = .ok s') : s'.tips = 0 := by
  unfold collectProposerFee at h
  simp only at h
  split at h
  · cases h
  · cases h; rfl

/-- the state just before the proposer action is applied has the original tips -/
theorem sealState_pre_tips (env : Env) (s : State) (action : Option ProposerAction) (ss : Sealed)
    (h : sealState env s action = .ok ss) :
    ∃ s2, SameTips s s2 ∧
      (match action with
       | none => Outcome.ok ({ st := s2, action := none } : Sealed)
       | some a => (applyProposerAction env s2 a).bind fun s3 => .ok ({ st := s3, action := some a } : Sealed))
        = .ok ss := by
  unfold sealState at h
  obtain ⟨s1, h1, h⟩ := Outcome.bind_eq_ok h
  split at h
  · cases h
  · obtain ⟨s2, h2, h⟩ := Outcome.bind_eq_ok h
    refine ⟨s2, (presealMelmint_tips _ _ _ h1).trans ?_, h⟩
    split at h2
    · exact applyTip909_tips _ _ h2
    · cases h2; exact SameTips.refl _

/-! ### coins -/

theorem getCoin_insertCoin_self (m : CoinMap) (id : CoinID) (d : CoinDataHeight) (tip : Bool) :
    (m.insertCoin id d tip).getCoin id = some d := by
  unfold CoinMap.insertCoin CoinMap.getCoin
  simp only
  split <;> exact AList.get_set_self _ _ _

end Mel
