/- helper lemmas for C08 -/
import MelModel.Chain
import MelModel.Lemmas.Counts
import MelModel.Lemmas.FeeMult
namespace Mel
end Mel
