/-
  Helper lemmas and run relations for Props/C17Hist.lean, Props/C19Hist.lean, Props/C04Hist.lean and
  Props/C14Hist.lean.

  `RunTrace env s tr s'` is `ChainRun env s s'` (Props/C13Life.lean) with the list of events of the run exposed:
  every accepted batch (its transactions and the fallback header passed) and every block seal (the proposer action,
  or `none`), oldest first.  `BatchRun env s u` is a run made of accepted batches only — the life of one block.
-/
import MelModel.Chain
import MelModel.Props.C13Life
import MelModel.Lemmas.SeqL
import MelModel.Lemmas.FeeHistL
import MelModel.Lemmas.FeeMult
import MelModel.Lemmas.ChainL
namespace Mel
open Mel.Gen

/-- what happens in one step of the chain -/
inductive Event where
  /-- a batch of transactions is applied (with the fallback header that was passed) -/
  | batch (txs : List Tx) (fb : Header)
  /-- the block is sealed with this proposer action (or none) and the next block is opened -/
  | block (a : Option ProposerAction)

/-- one step of the chain, labelled with what happened (`ChainStep` with the label exposed) -/
inductive EvStep (env : Env) : State → Event → State → Prop
  | batch {s s' : State} {txs : List Tx} {fb : Header} :
      applyBatch env s txs fb = .ok s' → EvStep env s (.batch txs fb) s'
  | block {s s' : State} {ss : Sealed} {a : Option ProposerAction} :
      sealState env s a = .ok ss → nextUnsealed env ss = .ok s' → EvStep env s (.block a) s'

/-- a run of the chain with its events, oldest first (`ChainRun` with the events exposed) -/
inductive RunTrace (env : Env) : State → List Event → State → Prop
  | refl (s : State) : RunTrace env s [] s
  | step {s m s' : State} {tr : List Event} {e : Event} :
      RunTrace env s tr m → EvStep env m e s' → RunTrace env s (tr ++ [e]) s'

/-- any number of accepted batches, no seal: what happens to a block between its opening and its sealing -/
inductive BatchRun (env : Env) : State → State → Prop
  | refl (s : State) : BatchRun env s s
  | step {s m s' : State} {txs : List Tx} {fb : Header} :
      BatchRun env s m → applyBatch env m txs fb = .ok s' → BatchRun env s s'

/-- the proposer's multiplier delta is an `i8` (it is one by typing in the implementation; the model's
    `ProposerAction.feeMultiplierDelta` is an unbounded integer) -/
def DeltaIsI8 (a : Option ProposerAction) : Prop :=
  ∀ act, a = some act → -128 ≤ act.feeMultiplierDelta ∧ act.feeMultiplierDelta ≤ 127

namespace MiscHistL

/-! ### run relations -/

theorem EvStep.toStep {env : Env} {s s' : State} {e : Event} (h : EvStep env s e s') : ChainStep env s s' := by
  cases h with
  | batch hb => exact .batch hb
  | block h1 h2 => exact .block h1 h2

theorem chainRun_trans {env : Env} {a b c : State} (h1 : ChainRun env a b) (h2 : ChainRun env b c) :
    ChainRun env a c := by
  induction h2 with
  | refl => exact h1
  | step _ hs ih => exact .step ih hs

theorem RunTrace.toRun {env : Env} {s s' : State} {tr : List Event} (h : RunTrace env s tr s') :
    ChainRun env s s' := by
  induction h with
  | refl => exact .refl _
  | step _ hs ih => exact .step ih (EvStep.toStep hs)

theorem ChainRun.toTrace {env : Env} {s s' : State} (h : ChainRun env s s') : ∃ tr, RunTrace env s tr s' := by
  induction h with
  | refl => exact ⟨[], .refl _⟩
  | step _ hs ih =>
    obtain ⟨tr, htr⟩ := ih
    cases hs with
    | batch hb => exact ⟨_, .step htr (.batch hb)⟩
    | block h1 h2 => exact ⟨_, .step htr (.block h1 h2)⟩

/-- every event of a trace happened at some state of the run -/
theorem RunTrace.mem_split {env : Env} {s s' : State} {tr : List Event} (h : RunTrace env s tr s')
    {e : Event} (he : e ∈ tr) : ∃ m m', ChainRun env s m ∧ EvStep env m e m' ∧ ChainRun env m' s' := by
  induction h with
  | refl => cases he
  | @step m s' tr e0 hr hs ih =>
    rcases List.mem_append.mp he with he | he
    · obtain ⟨x, x', h1, h2, h3⟩ := ih he
      exact ⟨x, x', h1, h2, .step h3 (EvStep.toStep hs)⟩
    · simp only [List.mem_cons, List.not_mem_nil, or_false] at he
      subst he
      exact ⟨m, s', RunTrace.toRun hr, hs, .refl _⟩

theorem BatchRun.toRun {env : Env} {s u : State} (h : BatchRun env s u) : ChainRun env s u := by
  induction h with
  | refl => exact .refl _
  | step _ hb ih => exact .step ih (.batch hb)

/-! ### what batches and block openings keep -/

theorem batch_fm {env : Env} {s s' : State} {txs : List Tx} {fb : Header}
    (h : applyBatch env s txs fb = .ok s') : s'.feeMultiplier = s.feeMultiplier :=
  (SeqL.batch_keeps h).2.2.1

theorem next_fm {env : Env} {ss : Sealed} {s' : State} (h : nextUnsealed env ss = .ok s') :
    s'.feeMultiplier = ss.st.feeMultiplier :=
  (FeeHistL.nextUnsealed_fee h).2.2

theorem batchRun_keeps {env : Env} {s u : State} (h : BatchRun env s u) :
    u.feeMultiplier = s.feeMultiplier ∧ u.height = s.height ∧ u.network = s.network ∧ u.history = s.history := by
  induction h with
  | refl => exact ⟨rfl, rfl, rfl, rfl⟩
  | step _ hb ih =>
    obtain ⟨e3, e2, e4, e1, -⟩ := SeqL.batch_keeps hb
    exact ⟨e4.trans ih.1, e2.trans ih.2.1, e3.trans ih.2.2.1, e1.trans ih.2.2.2⟩

theorem tip901_congr {s u : State} (hh : u.height = s.height) (hn : u.network = s.network) : u.tip901 = s.tip901 := by
  simp [State.tip901, State.tipCondition, hh, hn]

/-- what an accepted block went through -/
theorem applyBlock_ok {env : Env} {ss ss' : Sealed} {blk : Block} (h : applyBlock env ss blk = .ok ss') :
    ∃ basis applied, nextUnsealed env ss = .ok basis ∧
      applyBatch env basis blk.transactions default = .ok applied ∧
      sealState env applied blk.action = .ok ss' ∧ headerOf env ss' = .ok blk.header := by
  unfold applyBlock at h
  obtain ⟨basis, hn, h⟩ := Outcome.bind_eq_ok h
  split at h
  · cases h
  obtain ⟨applied, hb, h⟩ := Outcome.bind_eq_ok h
  obtain ⟨sealed, hs, h⟩ := Outcome.bind_eq_ok h
  obtain ⟨h', hh', h⟩ := Outcome.bind_eq_ok h
  split at h
  · next heq => cases h; exact ⟨basis, applied, hn, hb, hs, heq ▸ hh'⟩
  · cases h

/-- the stake set of the block opened on a sealed state -/
theorem next_stakes {env : Env} {ss : Sealed} {s' : State} (h : nextUnsealed env ss = .ok s') :
    s'.stakes = ss.st.stakes.unlockOld ((ss.st.height + 1) / STAKE_EPOCH) := by
  unfold nextUnsealed at h
  obtain ⟨hdr, _, h⟩ := Outcome.bind_eq_ok h
  simp only at h
  split at h <;> (cases h; rfl)

theorem next_keys_nodup {env : Env} {ss : Sealed} {s' : State} (h : nextUnsealed env ss = .ok s')
    (hu : (ss.st.stakes.map (·.1)).Nodup) : (s'.stakes.map (·.1)).Nodup := by
  rw [next_stakes h]
  exact List.Nodup.sublist (List.Sublist.map _ List.filter_sublist) hu

/-! ### `moveFeeMultiplier` -/

/-- the result is a u128 whatever the delta -/
theorem move_le_u128 (m : Nat) (δ : Int) (b : Bool) (hm : m ≤ U128_MAX) : moveFeeMultiplier m δ b ≤ U128_MAX := by
  rw [moveFeeMultiplier_eq]
  split
  · exact Nat.min_le_right _ _
  · exact Nat.le_trans (Nat.sub_le _ _) hm

/-- the multiplier after a seal -/
theorem seal_fm {env : Env} {s : State} {a : Option ProposerAction} {ss : Sealed}
    (h : sealState env s a = .ok ss) :
    ss.st.feeMultiplier =
      match a with
      | none => s.feeMultiplier
      | some act => moveFeeMultiplier s.feeMultiplier act.feeMultiplierDelta s.tip901 := by
  obtain ⟨s2, hs, h⟩ := sealState_pre env s a ss h
  cases a with
  | none => cases h; exact hs.1
  | some act =>
    obtain ⟨s3, h3, h⟩ := Outcome.bind_eq_ok h
    cases h
    show s3.feeMultiplier = _
    rw [applyProposerAction_feeMultiplier env s2 act s3 h3, hs.1, hs.tip901]

/-! ### votes -/

/-- entries that are not active in the epoch can be filtered away without changing a key's tally … -/
theorem votes_filter (st : StakeSet) (epoch : Nat) (key : Bytes) (p : Hash × StakeDoc → Bool)
    (hp : ∀ e ∈ st, p e = false → StakeSet.active epoch e.2 = false) :
    st.votes epoch key = StakeSet.votes (st.filter p) epoch key := by
  unfold StakeSet.votes
  rw [List.filter_filter]
  congr 2
  apply List.filter_congr
  intro e he
  cases hpe : p e with
  | true => simp
  | false => simp [hp e he hpe]

/-- … nor the total -/
theorem totalVotes_filter (st : StakeSet) (epoch : Nat) (p : Hash × StakeDoc → Bool)
    (hp : ∀ e ∈ st, p e = false → StakeSet.active epoch e.2 = false) :
    st.totalVotes epoch = StakeSet.totalVotes (st.filter p) epoch := by
  unfold StakeSet.totalVotes
  rw [List.filter_filter]
  congr 2
  apply List.filter_congr
  intro e he
  cases hpe : p e with
  | true => simp
  | false => simp [hp e he hpe]

/-- a registered stake that is not active in the epoch contributes nothing: the tallies are what they are without it -/
theorem votes_del_inactive (st : StakeSet) (hn : (st.map (·.1)).Nodup) (k : Hash) (d : StakeDoc)
    (hg : st.getStake k = some d) (epoch : Nat) (hina : StakeSet.active epoch d = false) :
    (∀ key, st.votes epoch key = StakeSet.votes (AList.del st k) epoch key) ∧
    st.totalVotes epoch = StakeSet.totalVotes (AList.del st k) epoch := by
  have hp : ∀ e ∈ st, (decide (e.1 ≠ k)) = false → StakeSet.active epoch e.2 = false := by
    intro e he hpe
    have hek : e.1 = k := by simpa using hpe
    have hge : AList.get st e.1 = some e.2 := AList.get_eq_some_of_mem hn (by cases e; exact he)
    rw [hek] at hge
    have : e.2 = d := Option.some.inj (hge.symm.trans hg)
    rw [this]; exact hina
  exact ⟨fun key => votes_filter st epoch key _ hp, totalVotes_filter st epoch _ hp⟩

end MiscHistL
end Mel
