/-
  Helper lemmas for Props/C08Reach.lean: what the pending `tips` of a state can and cannot influence.
  `W s t` is the state `s` with its tips replaced by `t`; every step of sealing except the proposer action commutes
  with `W` (as an equation between outcomes: the same value up to tips, the same rejection, the same crash), and a
  batch commutes with it up to the tips themselves, which accumulate the same increments from a different start.
-/
import MelModel.Chain
import MelModel.Props.C03
import MelModel.Props.C08
import MelModel.Lemmas.Faucet
import MelModel.Lemmas.Batch
import MelModel.Lemmas.TotalSeal
import MelModel.Lemmas.ChainL
import MelModel.Lemmas.ReachL
import MelModel.Lemmas.Perm
import MelModel.Lemmas.BlockHistL
import MelModel.Props.C13Life
namespace Mel
open Mel.Gen

/-- all fields equal except the pending `tips` -/
structure EqUpToTips (s₁ s₂ : State) : Prop where
  network : s₁.network = s₂.network
  height : s₁.height = s₂.height
  history : s₁.history = s₂.history
  coins : s₁.coins = s₂.coins
  txs : s₁.txs = s₂.txs
  feePool : s₁.feePool = s₂.feePool
  feeMultiplier : s₁.feeMultiplier = s₂.feeMultiplier
  doscSpeed : s₁.doscSpeed = s₂.doscSpeed
  pools : s₁.pools = s₂.pools
  stakes : s₁.stakes = s₂.stakes

namespace RestartL

/-- the state `a` with tips `t` -/
def W (a : State) (t : Nat) : State := { a with tips := t }

@[simp] theorem W_tips (a : State) (t : Nat) : (W a t).tips = t := rfl
@[simp] theorem W_coins (a : State) (t : Nat) : (W a t).coins = a.coins := rfl
@[simp] theorem W_stakes (a : State) (t : Nat) : (W a t).stakes = a.stakes := rfl
@[simp] theorem W_pools (a : State) (t : Nat) : (W a t).pools = a.pools := rfl
@[simp] theorem W_height (a : State) (t : Nat) : (W a t).height = a.height := rfl
@[simp] theorem W_network (a : State) (t : Nat) : (W a t).network = a.network := rfl
@[simp] theorem W_txs (a : State) (t : Nat) : (W a t).txs = a.txs := rfl
@[simp] theorem W_feePool (a : State) (t : Nat) : (W a t).feePool = a.feePool := rfl
@[simp] theorem W_feeMultiplier (a : State) (t : Nat) : (W a t).feeMultiplier = a.feeMultiplier := rfl
@[simp] theorem W_history (a : State) (t : Nat) : (W a t).history = a.history := rfl
@[simp] theorem W_doscSpeed (a : State) (t : Nat) : (W a t).doscSpeed = a.doscSpeed := rfl
@[simp] theorem W_tip901 (a : State) (t : Nat) : (W a t).tip901 = a.tip901 := rfl
@[simp] theorem W_tip902 (a : State) (t : Nat) : (W a t).tip902 = a.tip902 := rfl
@[simp] theorem W_tip906 (a : State) (t : Nat) : (W a t).tip906 = a.tip906 := rfl
@[simp] theorem W_tip908 (a : State) (t : Nat) : (W a t).tip908 = a.tip908 := rfl
@[simp] theorem W_tip909 (a : State) (t : Nat) : (W a t).tip909 = a.tip909 := rfl
@[simp] theorem W_tip909a (a : State) (t : Nat) : (W a t).tip909a = a.tip909a := rfl
@[simp] theorem W_legacyDeposit (a : State) (t : Nat) : legacyDeposit (W a t) = legacyDeposit a := rfl
@[simp] theorem W_W (a : State) (t u : Nat) : W (W a t) u = W a u := rfl
@[simp] theorem W_self (a : State) : W a a.tips = a := rfl

theorem eqUpToTips_W (a : State) (t : Nat) : EqUpToTips a (W a t) :=
  ⟨rfl, rfl, rfl, rfl, rfl, rfl, rfl, rfl, rfl, rfl⟩

/-- a state equal up to tips is the original with other tips -/
theorem eqUpToTips_form {a b : State} (e : EqUpToTips a b) : b = W a b.tips := by
  obtain ⟨n, h, hist, co, tx, fp, fm, tp, ds, po, sk⟩ := a
  obtain ⟨n', h', hist', co', tx', fp', fm', tp', ds', po', sk'⟩ := b
  obtain ⟨e1, e2, e3, e4, e5, e6, e7, e8, e9, e10⟩ := e
  simp only at e1 e2 e3 e4 e5 e6 e7 e8 e9 e10
  subst e1 e2 e3 e4 e5 e6 e7 e8 e9 e10
  rfl

theorem eqUpToTips_iff {a b : State} : EqUpToTips a b ↔ b = W a b.tips :=
  ⟨eqUpToTips_form, fun h => h ▸ eqUpToTips_W a b.tips⟩

theorem _root_.Mel.EqUpToTips.refl (a : State) : EqUpToTips a a := eqUpToTips_W a a.tips

theorem _root_.Mel.EqUpToTips.symm {a b : State} (e : EqUpToTips a b) : EqUpToTips b a := by
  rw [eqUpToTips_form e]; exact eqUpToTips_W (W a b.tips) a.tips

theorem _root_.Mel.EqUpToTips.trans {a b c : State} (e1 : EqUpToTips a b) (e2 : EqUpToTips b c) : EqUpToTips a c := by
  rw [eqUpToTips_form e2, eqUpToTips_form e1]; exact eqUpToTips_W a c.tips

/-- the same outcome, with the tips of a successful result replaced by `t` -/
def mapW (t : Nat) (o : Outcome State) : Outcome State := o.bind fun x => .ok (W x t)

@[simp] theorem mapW_ok (t : Nat) (x : State) : mapW t (.ok x) = .ok (W x t) := rfl
@[simp] theorem mapW_reject (t : Nat) (e : StateError) : mapW t (.reject e) = .reject e := rfl
@[simp] theorem mapW_crash (t : Nat) (c : String) : mapW t (.crash c) = .crash c := rfl

theorem bind_assoc' {α β γ} (x : Outcome α) (f : α → Outcome β) (g : β → Outcome γ) :
    (x.bind f).bind g = x.bind fun a => (f a).bind g := by
  cases x <;> rfl

theorem ok_bind' {α β} (a : α) (f : α → Outcome β) : (Outcome.ok a).bind f = f a := rfl

theorem mapW_bind {α} (t : Nat) (o : Outcome α) (f : α → Outcome State) :
    mapW t (o.bind f) = o.bind fun a => mapW t (f a) := by
  cases o <;> rfl

/-- a fold whose step commutes with `W` commutes with `W` -/
theorem foldlM'_W {α} (f : State → α → Outcome State) (t : Nat)
    (hf : ∀ x a, f (W x t) a = mapW t (f x a)) :
    ∀ (l : List α) (x : State), Outcome.foldlM' f (W x t) l = mapW t (Outcome.foldlM' f x l) := by
  intro l
  induction l with
  | nil => intro x; rfl
  | cons a rest ih =>
    intro x
    simp only [Outcome.foldlM', hf]
    cases f x a with
    | ok b => exact ih b
    | reject e => rfl
    | crash c => rfl

/-! ### settlement, pool by pool -/

theorem processSwapsForPool_W (kk : PoolKey) (s : State) (swaps : List Tx) (t : Nat) :
    processSwapsForPool kk (W s t) swaps = mapW t (processSwapsForPool kk s swaps) := by
  unfold processSwapsForPool
  dsimp only [W_pools, W_tip906, W_height, W_coins]
  split
  · rfl
  · split
    · rfl
    · rfl
    · rw [mapW_bind]; rfl

theorem processDepositsForPool_W (env : Env) (kk : PoolKey) (s : State) (deps : List Tx) (t : Nat) :
    processDepositsForPool env kk (W s t) deps = mapW t (processDepositsForPool env kk s deps) := by
  unfold processDepositsForPool
  dsimp only [W_pools, W_tip906, W_height, W_coins, W_legacyDeposit]
  split
  · rfl
  · rfl
  · split
    · rfl
    · rw [mapW_bind]; rfl

theorem processWithdrawalsForPool_W (kk : PoolKey) (s : State) (reqs : List Tx) (t : Nat) :
    processWithdrawalsForPool kk (W s t) reqs = mapW t (processWithdrawalsForPool kk s reqs) := by
  unfold processWithdrawalsForPool
  dsimp only [W_pools, W_tip906, W_height, W_coins]
  split
  · rfl
  · split
    · rfl
    · split
      · rfl
      · rfl
      · rw [mapW_bind]; rfl

theorem isSwapRequest_W (s : State) (t : Nat) : isSwapRequest (W s t) = isSwapRequest s := rfl
theorem isDepositRequest_W (s : State) (t : Nat) : isDepositRequest (W s t) = isDepositRequest s := rfl
theorem isWithdrawRequest_W (env : Env) (s : State) (t : Nat) :
    isWithdrawRequest env (W s t) = isWithdrawRequest env s := rfl

theorem processSwaps_W (s : State) (t : Nat) : processSwaps (W s t) = mapW t (processSwaps s) := by
  unfold processSwaps
  simp only [W_txs, isSwapRequest_W]
  exact foldlM'_W _ t (fun x k => processSwapsForPool_W k x _ t) _ s

theorem processDeposits_W (env : Env) (s : State) (t : Nat) :
    processDeposits env (W s t) = mapW t (processDeposits env s) := by
  unfold processDeposits
  simp only [W_txs, isDepositRequest_W]
  exact foldlM'_W _ t (fun x k => processDepositsForPool_W env k x _ t) _ s

theorem processWithdrawals_W (env : Env) (s : State) (t : Nat) :
    processWithdrawals env (W s t) = mapW t (processWithdrawals env s) := by
  unfold processWithdrawals
  simp only [W_txs, isWithdrawRequest_W]
  exact foldlM'_W _ t (fun x k => processWithdrawalsForPool_W k x _ t) _ s

theorem createBuiltins_W (s : State) (t : Nat) : createBuiltins (W s t) = W (createBuiltins s) t := rfl

theorem processPegging_W (s : State) (t : Nat) : processPegging (W s t) = mapW t (processPegging s) := by
  rw [processPegging_eq, processPegging_eq]
  have e1 : pegXsd (W s t) = pegXsd s := rfl
  have e2 : pegGet (W s t) poolMelSym = pegGet s poolMelSym := rfl
  rw [e1, e2, mapW_bind]
  congr 1
  funext ⟨a, b⟩
  dsimp only
  rw [mapW_bind]
  congr 1
  funext sm
  unfold pegTail
  dsimp only [W_tip902, W_height, W_pools]
  split
  · rfl
  · rw [mapW_bind]
    congr 1
    funext sm1
    rw [mapW_bind]
    rfl

theorem applyTip909_W (s : State) (t : Nat) : applyTip909 (W s t) = mapW t (applyTip909 s) := by
  unfold applyTip909
  dsimp (instances := true) only [W_tip909a, W_height, W_pools, W_feePool]
  split
  · rfl
  · split
    · rfl
    · rw [mapW_bind]
      congr 1
      funext ⟨sm', mel, x⟩
      dsimp only
      split
      · rfl
      · split
        · rfl
        · rw [mapW_bind]; rfl

theorem presealMelmint_W (env : Env) (s : State) (t : Nat) :
    presealMelmint env (W s t) = mapW t (presealMelmint env s) := by
  unfold presealMelmint
  rw [createBuiltins_W]
  dsimp (instances := true) only [W_pools]
  split
  · rfl
  · rw [processSwaps_W, mapW_bind]
    cases processSwaps (createBuiltins s) with
    | reject e => rfl
    | crash c => rfl
    | ok s1 =>
      dsimp only [Outcome.bind, mapW_ok]
      rw [processDeposits_W]
      cases processDeposits env s1 with
      | reject e => rfl
      | crash c => rfl
      | ok s2 =>
        dsimp only [Outcome.bind, mapW_ok]
        rw [processWithdrawals_W]
        cases processWithdrawals env s2 with
        | reject e => rfl
        | crash c => rfl
        | ok s3 =>
          dsimp only [Outcome.bind, mapW_ok]
          rw [createBuiltins_W, processPegging_W]

/-- the part of `sealState` before the proposer action: Melmint, the pool-count assertion, the block subsidy -/
def sealPre (env : Env) (s : State) : Outcome State :=
  (presealMelmint env s).bind fun s1 =>
  if s1.pools.length < 2 then .crash "assert!(pools.count() >= 2)" else
  (if s1.tip909 then applyTip909 s1 else .ok s1)

theorem sealState_eq (env : Env) (s : State) (action : Option ProposerAction) :
    sealState env s action = (sealPre env s).bind fun s2 =>
      match action with
      | none => .ok { st := s2, action := none }
      | some a => (applyProposerAction env s2 a).bind fun s3 => .ok { st := s3, action := some a } := by
  unfold sealState sealPre
  cases presealMelmint env s with
  | reject e => rfl
  | crash c => rfl
  | ok s1 =>
    dsimp only [Outcome.bind]
    split <;> rfl

theorem sealPre_W (env : Env) (s : State) (t : Nat) : sealPre env (W s t) = mapW t (sealPre env s) := by
  unfold sealPre
  rw [presealMelmint_W]
  cases presealMelmint env s with
  | reject e => rfl
  | crash c => rfl
  | ok s1 =>
    dsimp (instances := true) only [Outcome.bind, mapW_ok, W_pools, W_tip909]
    split
    · rfl
    · split
      · exact applyTip909_W s1 t
      · rfl

theorem sealPre_tips {env : Env} {s s2 : State} (h : sealPre env s = .ok s2) : s2.tips = s.tips := by
  unfold sealPre at h
  obtain ⟨s1, h1, h⟩ := Outcome.bind_eq_ok h
  have t1 : s1.tips = s.tips := presealMelmint_tips env s s1 h1
  split at h
  · cases h
  · split at h
    · exact Eq.trans (applyTip909_tips s1 s2 h) t1
    · cases h; exact t1

/-! ### sealing -/

theorem sealState_none_W (env : Env) (s : State) (t : Nat) :
    sealState env (W s t) none =
      (sealState env s none).bind fun ss => .ok { st := W ss.st t, action := none } := by
  rw [sealState_eq, sealState_eq, sealPre_W]
  cases sealPre env s <;> rfl

/-- the header does not mention the tips (nor the action) -/
theorem headerOf_W (env : Env) (x : State) (t : Nat) (a a' : Option ProposerAction) :
    headerOf env { st := W x t, action := a } = headerOf env { st := x, action := a' } := rfl

/-- the state after the proposer action: the fee multiplier moved, a 65536th of the fee pool and all tips paid out
    into the reward coin of value `v` -/
def payout (env : Env) (p : State) (a : ProposerAction) (v : Nat) : State :=
  { p with feeMultiplier := moveFeeMultiplier p.feeMultiplier a.feeMultiplierDelta p.tip901,
           feePool := p.feePool - p.feePool / 2 ^ REWARD_SHIFT, tips := 0,
           coins := p.coins.insertCoin { txhash := env.rewardId p.height, index := 0 }
             { coinData := { covhash := a.rewardDest, value := v, denom := .mel, additionalData := [] },
               height := p.height } p.tip906 }

theorem payout_W (env : Env) (p : State) (t : Nat) (a : ProposerAction) (v : Nat) :
    payout env (W p t) a v = payout env p a v := rfl

theorem applyProposerAction_eq (env : Env) (p : State) (a : ProposerAction) :
    applyProposerAction env p a =
      if p.feePool / 2 ^ REWARD_SHIFT + p.tips > U128_MAX then .crash "state.rs: base_fees + tips overflow"
      else .ok (payout env p a (p.feePool / 2 ^ REWARD_SHIFT + p.tips)) := rfl

theorem sealState_some_eq (env : Env) (s : State) (a : ProposerAction) :
    sealState env s (some a) = (sealPre env s).bind fun p =>
      if p.feePool / 2 ^ REWARD_SHIFT + p.tips > U128_MAX then .crash "state.rs: base_fees + tips overflow"
      else .ok { st := payout env p a (p.feePool / 2 ^ REWARD_SHIFT + p.tips), action := some a } := by
  rw [sealState_eq]
  congr 1
  funext p
  dsimp only
  rw [applyProposerAction_eq]
  split <;> rfl

/-- sealing with an action, taken apart -/
theorem sealState_some_ok {env : Env} {s : State} {a : ProposerAction} {ss : Sealed} :
    sealState env s (some a) = .ok ss ↔
      ∃ p, sealPre env s = .ok p ∧ p.feePool / 2 ^ REWARD_SHIFT + s.tips ≤ U128_MAX ∧
        ss = { st := payout env p a (p.feePool / 2 ^ REWARD_SHIFT + s.tips), action := some a } := by
  rw [sealState_some_eq]
  constructor
  · intro h
    obtain ⟨p, hp, h⟩ := Outcome.bind_eq_ok h
    have ht := sealPre_tips hp
    split at h
    · cases h
    · next hle =>
      cases h
      rw [ht] at hle ⊢
      exact ⟨p, hp, by omega, rfl⟩
  · rintro ⟨p, hp, hle, rfl⟩
    have ht := sealPre_tips hp
    rw [hp]
    dsimp only [Outcome.bind]
    rw [ht, if_neg (by omega)]

/-! ### the coins of a paid-out state -/

theorem payout_getCoin_self (env : Env) (p : State) (a : ProposerAction) (v : Nat) :
    (payout env p a v).coins.getCoin { txhash := env.rewardId p.height, index := 0 } =
      some { coinData := { covhash := a.rewardDest, value := v, denom := .mel, additionalData := [] },
             height := p.height } := by
  show (CoinMap.insertCoin _ _ _ _).getCoin _ = _
  rw [CoinMap.getCoin_insertCoin, if_pos rfl]

theorem payout_getCoin_ne (env : Env) (p : State) (a : ProposerAction) (v : Nat) {id : CoinID}
    (h : id ≠ { txhash := env.rewardId p.height, index := 0 }) :
    (payout env p a v).coins.getCoin id = p.coins.getCoin id := by
  show (CoinMap.insertCoin _ _ _ _).getCoin _ = _
  rw [CoinMap.getCoin_insertCoin, if_neg h]

theorem payout_counts (env : Env) (p : State) (a : ProposerAction) (v w : Nat) :
    (payout env p a v).coins.counts = (payout env p a w).coins.counts := by
  show (CoinMap.insertCoin _ _ _ _).counts = (CoinMap.insertCoin _ _ _ _).counts
  unfold CoinMap.insertCoin
  dsimp only
  split <;> rfl

/-! ### batches: the tips accumulate the same increments, from a different start -/

/-- what a transaction adds to the tips at fee multiplier `m`: its fee above the minimum fee -/
def tipIncr (m : Nat) (tx : Tx) : Nat :=
  match tx.baseFee m with
  | .ok f => tx.fee - f
  | _ => 0

/-- the tips after a batch, starting from `t`: the increments are added one by one, saturating at u128::MAX -/
def tipsAfter (t m : Nat) (txs : List Tx) : Nat := (txs.map (tipIncr m)).foldl satAdd128 t

theorem handleFaucetTx_W (env : Env) (x : State) (tx : Tx) (t : Nat) :
    handleFaucetTx env (W x t) tx = mapW t (handleFaucetTx env x tx) := by
  unfold handleFaucetTx
  dsimp (instances := true) only [W_network, W_coins, W_tip906]
  split
  · rfl
  · split
    · rfl
    · split <;> rfl

theorem handleFaucetTx_fm {env : Env} {x x1 : State} {tx : Tx} (h : handleFaucetTx env x tx = .ok x1) :
    x1.feeMultiplier = x.feeMultiplier ∧ x1.tips = x.tips := by
  unfold handleFaucetTx at h
  simp only at h
  split at h
  · cases h
  · split at h
    · cases h
    · split at h <;> cases h <;> exact ⟨rfl, rfl⟩

theorem faucetPart_W (env : Env) (x : State) (tx : Tx) (t : Nat) :
    (if tx.kind = .faucet then handleFaucetTx env (W x t) tx else .ok (W x t)) =
      mapW t (if tx.kind = .faucet then handleFaucetTx env x tx else .ok x) := by
  split
  · exact handleFaucetTx_W env x tx t
  · rfl

theorem faucetPart_fm {env : Env} {x x1 : State} {tx : Tx}
    (h : (if tx.kind = .faucet then handleFaucetTx env x tx else .ok x) = .ok x1) :
    x1.feeMultiplier = x.feeMultiplier ∧ x1.tips = x.tips := by
  split at h
  · exact handleFaucetTx_fm h
  · cases h; exact ⟨rfl, rfl⟩

/-- the part of a step of `create_next_state` after the faucet marker: inputs, fees, the transaction list -/
def cnsTail (b : Bool) (st1 : State) (tx : Tx) : Outcome State :=
  (Outcome.foldlM' (fun (coins : CoinMap) id => coins.removeCoin id b) st1.coins tx.inputs).bind fun coins2 =>
  (tx.baseFee st1.feeMultiplier).bind fun minFee =>
    if tx.fee < minFee then .reject .insufficientFees
    else .ok { st1 with coins := coins2,
                        tips := satAdd128 st1.tips (tx.fee - minFee),
                        feePool := satAdd128 st1.feePool minFee,
                        txs := State.insertTx st1.txs tx }

theorem cnsStep_eq (env : Env) (b : Bool) (x : State) (tx : Tx) :
    cnsStep env b x tx =
      if x.txs.any (fun t => t.hash = tx.hash) then .reject .duplicateTx else
      (if tx.kind = .faucet then handleFaucetTx env x tx else .ok x).bind fun st1 => cnsTail b st1 tx := rfl

theorem cnsTail_W (b : Bool) (x1 : State) (tx : Tx) (t : Nat) :
    cnsTail b (W x1 t) tx =
      (cnsTail b x1 tx).bind fun x' => .ok (W x' (satAdd128 t (tipIncr x1.feeMultiplier tx))) := by
  unfold cnsTail
  dsimp only [W_coins, W_feeMultiplier]
  rw [bind_assoc']
  congr 1
  funext coins2
  rw [bind_assoc']
  unfold tipIncr
  cases tx.baseFee x1.feeMultiplier with
  | reject e => rfl
  | crash c => rfl
  | ok minFee =>
    dsimp only [ok_bind']
    by_cases hlt : tx.fee < minFee
    · rw [if_pos hlt, if_pos hlt]; rfl
    · rw [if_neg hlt, if_neg hlt]; rfl

theorem cnsTail_fm {b : Bool} {x1 x' : State} {tx : Tx} (h : cnsTail b x1 tx = .ok x') :
    x'.feeMultiplier = x1.feeMultiplier := by
  unfold cnsTail at h
  obtain ⟨coins2, _, h⟩ := Outcome.bind_eq_ok h
  obtain ⟨minFee, _, h⟩ := Outcome.bind_eq_ok h
  split at h
  · cases h
  · cases h; rfl

/-- one step of `create_next_state` on a state with other tips: the same verdict, the same result up to tips, and the
    tips grow by the same increment -/
theorem cnsStep_W (env : Env) (b : Bool) (x : State) (tx : Tx) (t : Nat) :
    cnsStep env b (W x t) tx =
      (cnsStep env b x tx).bind fun x' => .ok (W x' (satAdd128 t (tipIncr x.feeMultiplier tx))) := by
  have e : cnsStep env b (W x t) tx =
      if x.txs.any (fun t => t.hash = tx.hash) then .reject .duplicateTx else
      (if tx.kind = .faucet then handleFaucetTx env (W x t) tx else .ok (W x t)).bind fun st1 =>
        cnsTail b st1 tx := rfl
  rw [e, cnsStep_eq]
  by_cases hdup : (x.txs.any fun t => decide (t.hash = tx.hash)) = true
  · rw [if_pos hdup, if_pos hdup]; rfl
  · rw [if_neg hdup, if_neg hdup, faucetPart_W]
    cases h1 : (if tx.kind = .faucet then handleFaucetTx env x tx else .ok x) with
    | reject e => rfl
    | crash c => rfl
    | ok x1 =>
      show cnsTail b (W x1 t) tx = _
      rw [cnsTail_W, (faucetPart_fm h1).1]
      rfl

theorem cnsStep_fm {env : Env} {b : Bool} {x x' : State} {tx : Tx} (h : cnsStep env b x tx = .ok x') :
    x'.feeMultiplier = x.feeMultiplier := by
  rw [cnsStep_eq] at h
  split at h
  · cases h
  · obtain ⟨x1, h1, h⟩ := Outcome.bind_eq_ok h
    exact (cnsTail_fm h).trans (faucetPart_fm h1).1

theorem cnsFold_W (env : Env) (b : Bool) :
    ∀ (l : List Tx) (x : State) (t : Nat),
      Outcome.foldlM' (cnsStep env b) (W x t) l =
        (Outcome.foldlM' (cnsStep env b) x l).bind fun n => .ok (W n (tipsAfter t x.feeMultiplier l)) := by
  intro l
  induction l with
  | nil => intro x t; rfl
  | cons tx rest ih =>
    intro x t
    rw [Outcome.foldlM'_cons, Outcome.foldlM'_cons, cnsStep_W]
    cases h : cnsStep env b x tx with
    | reject e => rfl
    | crash c => rfl
    | ok x' =>
      dsimp only [Outcome.bind]
      rw [ih x' _, cnsStep_fm h]
      rfl

theorem createNextState_W (env : Env) (s : State) (txs : List Tx) (rel : Relevant) (b : Bool) (t : Nat) :
    createNextState env (W s t) txs rel b =
      (createNextState env s txs rel b).bind fun n => .ok (W n (tipsAfter t s.feeMultiplier txs)) := by
  rw [FaucetL.createNextState_eq, FaucetL.createNextState_eq]
  exact cnsFold_W env b txs { s with coins := cnsCoins1 s txs rel b } t

/-- the checks of `apply_tx_batch_impl` that come before `create_next_state`; none of them looks at the tips -/
def batchPre (env : Env) (s : State) (txs : List Tx) (fb : Header) :
    Outcome (Relevant × AList Hash StakeDoc × Nat) :=
  (loadRelevantCoins s txs).bind fun rel =>
  (loadStakeInfo s txs).bind fun newStakes =>
  (Outcome.forM' (fun tx => checkTxValidity env s (lastHeaderOf s fb) tx rel newStakes) txs).bind fun _ =>
  (Outcome.foldlM' (fun (speed : Nat) (tx : Tx) =>
      if tx.kind = .doscMint then (validateDoscmint env s rel tx).bind fun sp => .ok (max speed sp)
      else .ok speed) s.doscSpeed txs).bind fun newSpeed => .ok (rel, newStakes, newSpeed)

theorem applyBatch_eq (env : Env) (s : State) (txs : List Tx) (fb : Header) :
    applyBatch env s txs fb = (batchPre env s txs fb).bind fun r =>
      (createNextState env s txs r.1 s.tip906).bind fun next =>
      .ok { next with doscSpeed := r.2.2,
                      stakes := r.2.1.reverse.foldl (fun st e => StakeSet.addStake st e.1 e.2) next.stakes } := by
  unfold applyBatch batchPre
  simp only [bind_assoc', ok_bind']

theorem batchPre_W (env : Env) (s : State) (txs : List Tx) (fb : Header) (t : Nat) :
    batchPre env (W s t) txs fb = batchPre env s txs fb := rfl

/-- **a batch on a state with other tips**: the same verdict (accepted, the same rejection, the same crash), the same
    resulting state up to tips, and the tips are the same increments added to the other start -/
theorem applyBatch_W (env : Env) (s : State) (txs : List Tx) (fb : Header) (t : Nat) :
    applyBatch env (W s t) txs fb =
      (applyBatch env s txs fb).bind fun s' => .ok (W s' (tipsAfter t s.feeMultiplier txs)) := by
  rw [applyBatch_eq, applyBatch_eq, batchPre_W, bind_assoc']
  congr 1
  funext r
  rw [W_tip906, createNextState_W, bind_assoc', bind_assoc']
  rfl

/-- the tips after an accepted batch -/
theorem applyBatch_tips {env : Env} {s s' : State} {txs : List Tx} {fb : Header}
    (h : applyBatch env s txs fb = .ok s') : s'.tips = tipsAfter s.tips s.feeMultiplier txs := by
  have := applyBatch_W env s txs fb s.tips
  rw [W_self, h] at this
  exact congrArg State.tips (Outcome.ok.inj this)

/-! ### saturating sums -/

theorem foldl_satAdd_lt : ∀ (ds : List Nat) (a : Nat), ds.foldl satAdd128 a < U128_MAX →
    ds.foldl satAdd128 a = a + ds.sum := by
  intro ds
  induction ds with
  | nil => intro a _; simp
  | cons d rest ih =>
    intro a h
    rw [List.foldl_cons] at h ⊢
    have h1 := ih _ h
    rw [h1] at h ⊢
    have : satAdd128 a d = a + d := by
      unfold satAdd128 at h ⊢
      omega
    rw [this, List.sum_cons]
    omega

theorem foldl_satAdd_mono : ∀ (ds : List Nat) (a b : Nat), a ≤ b → ds.foldl satAdd128 a ≤ ds.foldl satAdd128 b := by
  intro ds
  induction ds with
  | nil => intro a b h; exact h
  | cons d rest ih =>
    intro a b h
    rw [List.foldl_cons, List.foldl_cons]
    apply ih
    unfold satAdd128
    omega

/-- while neither accumulator saturates, the tips differ after the batch by what they differed before -/
theorem tipsAfter_diff (t₁ t₂ m : Nat) (txs : List Tx) (h1 : tipsAfter t₁ m txs < U128_MAX)
    (h2 : tipsAfter t₂ m txs < U128_MAX) : tipsAfter t₁ m txs + t₂ = tipsAfter t₂ m txs + t₁ := by
  unfold tipsAfter at *
  rw [foldl_satAdd_lt _ _ h1, foldl_satAdd_lt _ _ h2]
  omega

theorem tipsAfter_mono (t₁ t₂ m : Nat) (txs : List Tx) (h : t₁ ≤ t₂) : tipsAfter t₁ m txs ≤ tipsAfter t₂ m txs :=
  foldl_satAdd_mono _ _ _ h

/-! ### opening the next block -/

theorem nextUnsealed_W (env : Env) (x : State) (t : Nat) (a a' : Option ProposerAction) :
    nextUnsealed env { st := W x t, action := a } = mapW t (nextUnsealed env { st := x, action := a' }) := by
  unfold nextUnsealed
  rw [headerOf_W env x t a a']
  cases headerOf env { st := x, action := a' } with
  | reject e => rfl
  | crash c => rfl
  | ok hdr =>
    dsimp only [Outcome.bind]
    rw [apply_ite (mapW t)]
    rfl

/-! ### sealing with an action on a state with other tips -/

theorem sealState_some_W {env : Env} {s : State} {a : ProposerAction} {ss : Sealed}
    (h : sealState env s (some a) = .ok ss) :
    ∃ p, p.height = s.height ∧ p.feePool / 2 ^ REWARD_SHIFT + s.tips ≤ U128_MAX ∧
      ss = { st := payout env p a (p.feePool / 2 ^ REWARD_SHIFT + s.tips), action := some a } ∧
      ∀ t, p.feePool / 2 ^ REWARD_SHIFT + t ≤ U128_MAX →
        sealState env (W s t) (some a) =
          .ok { st := payout env p a (p.feePool / 2 ^ REWARD_SHIFT + t), action := some a } := by
  obtain ⟨p, hp, hle, rfl⟩ := sealState_some_ok.mp h
  have hh : p.height = s.height := (sealState_hhn env s (some a) _ h).2.1
  refine ⟨p, hh, hle, rfl, fun t ht => ?_⟩
  rw [sealState_some_ok]
  refine ⟨W p t, ?_, ht, ?_⟩
  · rw [sealPre_W, hp]; rfl
  · rfl

/-! ### the two lists-sorted predicates are the same -/

theorem txsSorted_iff_sortedTxs : ∀ (l : List Tx), TxsSorted l ↔ SortedTxs l
  | [] => Iff.rfl
  | [_] => Iff.rfl
  | a :: b :: rest => by
    unfold TxsSorted SortedTxs
    rw [txsSorted_iff_sortedTxs (b :: rest)]

theorem foldl_insertTx_sorted : ∀ (txs acc : List Tx), TxsSorted acc → TxsSorted (txs.foldl State.insertTx acc)
  | [], _, h => h
  | tx :: rest, acc, h => foldl_insertTx_sorted rest _ (C08_insert_sorted acc tx h)

/-! ### what a restart needs, along any run of the chain (no freshness assumptions) -/

/-- the block's transactions are sorted and the history holds exactly the headers of the earlier blocks -/
structure RunInv (s : State) : Prop where
  sorted : TxsSorted s.txs
  below : ∀ h x, s.history.get h = some x → h < s.height
  full : ∀ h, h < s.height → ∃ x, s.history.get h = some x
  heights : ∀ h x, s.history.get h = some x → x.height = h

theorem runInv_genesis (cfg : GenesisConfig) : RunInv (genesisState cfg) where
  sorted := trivial
  below := fun h x hg => by simp [genesisState, AList.get] at hg
  full := fun h hlt => by simp [genesisState] at hlt
  heights := fun h x hg => by simp [genesisState, AList.get] at hg

theorem runInv_batch {env : Env} {s s' : State} {txs : List Tx} {fb : Header} (hi : RunInv s)
    (hb : applyBatch env s txs fb = .ok s') : RunInv s' := by
  obtain ⟨e1, e2, -⟩ := applyBatch_hhn _ _ _ _ _ hb
  refine ⟨?_, ?_, ?_, ?_⟩
  · rw [C3.applyBatch_txsEq hb]; exact foldl_insertTx_sorted _ _ hi.sorted
  · rw [e1, e2]; exact hi.below
  · rw [e1, e2]; exact hi.full
  · rw [e1]; exact hi.heights

theorem runInv_seal {env : Env} {s : State} {a : Option ProposerAction} {ss : Sealed} (hi : RunInv s)
    (hs : sealState env s a = .ok ss) : RunInv ss.st := by
  obtain ⟨e1, e2, -⟩ := sealState_hhn _ _ _ _ hs
  refine ⟨?_, ?_, ?_, ?_⟩
  · rw [BlockHistL.sealState_txs hs]; exact hi.sorted
  · rw [e1, e2]; exact hi.below
  · rw [e1, e2]; exact hi.full
  · rw [e1]; exact hi.heights

theorem runInv_next {env : Env} {ss : Sealed} {s' : State} (hi : RunInv ss.st)
    (hn : nextUnsealed env ss = .ok s') : RunInv s' := by
  obtain ⟨hdr, hh, f1, f2, -⟩ := nextUnsealed_ok _ _ _ hn
  obtain ⟨p, -, hhdr⟩ := headerOf_ok _ _ hdr hh
  have hdrh : hdr.height = ss.st.height := by rw [hhdr]
  obtain ⟨g1, g2, g3, -⟩ := ReachL.history_next (P := fun _ => True) hi.below hi.full hi.heights
    (fun _ _ _ => trivial) hdrh trivial
  refine ⟨?_, ?_, ?_, ?_⟩
  · rw [ReachL.nextUnsealed_txs hn]; trivial
  · rw [f1, f2]; exact g1
  · rw [f1, f2]; exact g2
  · rw [f1]; exact g3

theorem runInv_run {env : Env} {s s' : State} (hrun : ChainRun env s s') (hi : RunInv s) : RunInv s' := by
  induction hrun with
  | refl => exact hi
  | step _ hstep ih =>
    cases hstep with
    | batch hb => exact runInv_batch ih hb
    | block hs hn => exact runInv_next (runInv_seal ih hs) hn

/-- a sealed state whose open state satisfied `RunInv` can be turned into a block -/
theorem toBlock_total {env : Env} {s : State} {a : Option ProposerAction} {ss : Sealed} (hi : RunInv s)
    (hs : sealState env s a = .ok ss) : TxsSorted ss.st.txs ∧ ∃ blk, toBlock env ss = .ok blk := by
  have hi' := runInv_seal hi hs
  obtain ⟨hdr, hh⟩ := ReachL.headerOf_total env ss hi'.full
  refine ⟨hi'.sorted, ⟨{ header := hdr, transactions := ss.st.txs, action := ss.action }, ?_⟩⟩
  unfold toBlock
  rw [hh]
  rfl

end RestartL
end Mel
