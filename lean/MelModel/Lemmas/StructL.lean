/- helper lemmas for the refinement of the structured semantics by the flat executor (C10Struct) -/
import MelModel.VM.Struct
import MelModel.Lemmas.Exec
import MelModel.Lemmas.Cost
namespace Mel.VM
open Mel

/-! ## unfolding the structured definitions -/

@[simp] theorem flatten_nil : flatten [] = [] := rfl
@[simp] theorem flatten_cons (i : SInstr) (r : List SInstr) :
    flatten (i :: r) = i.flatten ++ flatten r := rfl
@[simp] theorem sinstr_flatten_op (op : Op) : (SInstr.op op).flatten = [op] := rfl
@[simp] theorem sinstr_flatten_loop (it : UInt16) (body : List SInstr) :
    (SInstr.loop it body).flatten =
      Op.loop it (UInt16.ofNat (flatten body).length) :: flatten body := rfl

@[simp] theorem eval_nil (o : Oracles) (sh : List Value × Heap) : eval o [] sh = some sh := rfl
@[simp] theorem eval_cons (o : Oracles) (i : SInstr) (r : List SInstr) (sh : List Value × Heap) :
    eval o (i :: r) sh = (i.eval o sh).bind (eval o r) := rfl
@[simp] theorem sinstr_eval_op (o : Oracles) (op : Op) (sh : List Value × Heap) :
    (SInstr.op op).eval o sh = straight o [op] sh := rfl
@[simp] theorem sinstr_eval_loop (o : Oracles) (it : UInt16) (body : List SInstr)
    (sh : List Value × Heap) :
    (SInstr.loop it body).eval o sh = iter (eval o body) it.toNat sh := rfl

@[simp] theorem stepsOf_nil : stepsOf [] = 0 := rfl
@[simp] theorem stepsOf_cons (i : SInstr) (r : List SInstr) :
    stepsOf (i :: r) = i.steps + stepsOf r := rfl
@[simp] theorem sinstr_steps_op (op : Op) : (SInstr.op op).steps = 1 := rfl
@[simp] theorem sinstr_steps_loop (it : UInt16) (body : List SInstr) :
    (SInstr.loop it body).steps = 1 + it.toNat * stepsOf body := rfl

theorem WF_nil : WF [] := rfl

theorem WF_cons (i : SInstr) (r : List SInstr) : WF (i :: r) ↔ i.WF ∧ WF r := by
  simp [WF, SInstr.WF, wf]

theorem sinstr_WF_op (op : Op) : (SInstr.op op).WF ↔ op.isStraight = true := by
  simp [SInstr.WF, SInstr.wf]

theorem sinstr_WF_loop (it : UInt16) (body : List SInstr) :
    (SInstr.loop it body).WF ↔
      WF body ∧ 1 ≤ (flatten body).length ∧ (flatten body).length < 65536 := by
  simp [SInstr.WF, WF, SInstr.wf, and_assoc]

/-- every instruction flattens to at least one flat instruction -/
theorem sinstr_flatten_length_pos (i : SInstr) : 1 ≤ i.flatten.length := by
  cases i <;> simp

theorem flatten_length_pos {P : List SInstr} (h : P ≠ []) : 1 ≤ (flatten P).length := by
  cases P with
  | nil => exact absurd rfl h
  | cons i r =>
    have := sinstr_flatten_length_pos i
    simp only [flatten_cons, List.length_append]
    omega

theorem flatten_eq_nil_iff (P : List SInstr) : flatten P = [] ↔ P = [] := by
  constructor
  · intro h
    false_or_by_contra
    rename_i hne
    have := flatten_length_pos hne
    rw [h] at this
    simp at this
  · rintro rfl; rfl

/-- a block of straight-line instructions as a structured program -/
theorem flatten_map_op (B : List Op) : flatten (B.map SInstr.op) = B := by
  induction B with
  | nil => rfl
  | cons op r ih => simp [ih]

theorem eval_map_op (o : Oracles) (B : List Op) (sh : List Value × Heap) :
    eval o (B.map SInstr.op) sh = straight o B sh := by
  induction B generalizing sh with
  | nil => rfl
  | cons op r ih =>
    simp only [List.map_cons, eval_cons, sinstr_eval_op, straight]
    cases execOp o op { stack := sh.1, heap := sh.2, pc := 0, loops := [] } with
    | none => rfl
    | some st' => simp only [Option.bind_some]; exact ih _

theorem stepsOf_map_op (B : List Op) : stepsOf (B.map SInstr.op) = B.length := by
  induction B with
  | nil => rfl
  | cons op r ih => simp [ih]; omega

theorem WF_map_op (B : List Op) (hS : ∀ op ∈ B, op.isStraight = true) : WF (B.map SInstr.op) := by
  induction B with
  | nil => rfl
  | cons op r ih =>
    rw [List.map_cons, WF_cons, sinstr_WF_op]
    exact ⟨hS op (by simp), ih fun op' h' => hS op' (List.mem_cons_of_mem _ h')⟩

theorem eval_singleton (o : Oracles) (i : SInstr) (sh : List Value × Heap) :
    eval o [i] sh = i.eval o sh := by
  simp only [eval_cons]
  cases i.eval o sh <;> rfl

theorem iter_congr {α} {f g : α → Option α} (h : ∀ a, f a = g a) (k : Nat) (a : α) :
    iter f k a = iter g k a := by
  induction k generalizing a with
  | zero => rfl
  | succ k ih =>
    simp only [iter, h a]
    cases g a with
    | none => rfl
    | some b => exact ih b

/-! ## lists -/

theorem drop_add_of_drop_append {α} {l a r : List α} {p : Nat} (h : l.drop p = a ++ r) :
    l.drop (p + a.length) = r := by
  rw [← List.drop_drop, h, List.drop_left]

theorem drop_pre (pre mid post : List Op) :
    (pre ++ mid ++ post).drop pre.length = mid ++ post := by
  rw [List.append_assoc, List.drop_left]

/-! ## the state after the last instruction of a block

  `afterAt Ls e sh`: the machine just after an instruction that moved the pc to `e` under the loop stack `Ls` — the
  loop bookkeeping `updatePc e Ls` applied: inside the innermost loop nothing happens; exactly one past its end the
  innermost frame takes over (jump back, or drop the frame and look at the next one). -/

def afterAt (Ls : List LoopState) (e : Nat) (sh : List Value × Heap) : Exec :=
  { stack := sh.1, heap := sh.2, pc := (updatePc e Ls).1, loops := (updatePc e Ls).2 }

/-- the pc does not pass the end of the innermost loop: no bookkeeping -/
theorem updatePc_within (pc : Nat) (Ls : List LoopState)
    (h : ∀ L rest, Ls = L :: rest → pc ≤ L.end_) : updatePc pc Ls = (pc, Ls) := by
  cases Ls with
  | nil => rfl
  | cons L rest =>
    have h1 : ¬ pc > L.end_ := by have := h L rest rfl; omega
    simp only [updatePc, h1, if_false]

theorem afterAt_within (pc : Nat) (Ls : List LoopState) (sh : List Value × Heap)
    (h : ∀ L rest, Ls = L :: rest → pc ≤ L.end_) :
    afterAt Ls pc sh = { stack := sh.1, heap := sh.2, pc := pc, loops := Ls } := by
  simp only [afterAt, updatePc_within pc Ls h]

/-- one past the end of the innermost loop: jump back while iterations are left, else the frame is dropped and the
    next frame is looked at -/
theorem updatePc_frame_end (b e m : Nat) (Ls : List LoopState) :
    updatePc (e + 1) ({ begin_ := b, end_ := e, left := m } :: Ls) =
      if m > 0 then (b, { begin_ := b, end_ := e, left := m - 1 } :: Ls) else updatePc (e + 1) Ls := by
  have h1 : e + 1 > e := by omega
  have h2 : e + 1 - e = 1 := by omega
  simp only [updatePc, h1, h2, if_true, and_true]

theorem afterAt_frame_last (b e : Nat) (Ls : List LoopState) :
    afterAt ({ begin_ := b, end_ := e, left := 0 } :: Ls) (e + 1) = afterAt Ls (e + 1) := by
  funext sh
  simp [afterAt, updatePc_frame_end]

theorem afterAt_frame_more (b e m : Nat) (Ls : List LoopState) (sh : List Value × Heap) :
    afterAt ({ begin_ := b, end_ := e, left := m + 1 } :: Ls) (e + 1) sh =
      { stack := sh.1, heap := sh.2, pc := b, loops := { begin_ := b, end_ := e, left := m } :: Ls } := by
  simp [afterAt, updatePc_frame_end]

/-! ## simulation statements

  `Sim o ops k st r`: `k` machine steps from `st` give `r`; and when `r = none` the failure is a failure of the run
  (`runFuel` reports `none` whatever fuel is added) — not the pc leaving the program, which `runFuel` treats as the
  normal end. -/

def Sim (o : Oracles) (ops : List Op) (k : Nat) (st : Exec) (r : Option Exec) : Prop :=
  stepN o ops k st = r ∧ (r = none → ∀ f m, (runFuel o ops (k + f) st m).1 = none)

theorem Sim.bind {α} {o : Oracles} {ops : List Op} {a b : Nat} {st : Exec} {x : Option α}
    {g : α → Exec} {h : α → Option Exec}
    (h1 : Sim o ops a st (x.map g)) (h2 : ∀ y, x = some y → Sim o ops b (g y) (h y)) :
    Sim o ops (a + b) st (x.bind h) := by
  cases x with
  | none =>
    obtain ⟨e1, f1⟩ := h1
    refine ⟨by rw [stepN_add, e1]; rfl, fun _ f m => ?_⟩
    rw [Nat.add_assoc]
    exact f1 rfl _ _
  | some y =>
    obtain ⟨e1, _⟩ := h1
    obtain ⟨e2, f2⟩ := h2 y rfl
    refine ⟨by rw [stepN_add, e1]; exact e2, fun hn f m => ?_⟩
    rw [Nat.add_assoc, runFuel_of_stepN o ops a (b + f) st (g y) m e1]
    exact f2 hn _ _

theorem Sim.of_step {o : Oracles} {ops : List Op} {st : Exec} {r : Option Exec}
    (hpc : st.pc < ops.length) (h : step o ops st = r) : Sim o ops 1 st r := by
  refine ⟨by rw [stepN_one, h], fun hn f m => ?_⟩
  subst hn
  rw [Nat.add_comm, runFuel, if_pos hpc, h]

/-- one straight-line instruction -/
theorem sim_op (o : Oracles) (ops post : List Op) (st : Exec) (op : Op)
    (hdrop : ops.drop st.pc = op :: post) (hs : op.isStraight = true) :
    Sim o ops 1 st ((straight o [op] (st.stack, st.heap)).map (afterAt st.loops (st.pc + 1))) := by
  have hop : ops[st.pc]? = some op := getElem?_of_drop hdrop
  have hpc : st.pc < ops.length := (List.getElem?_eq_some_iff.mp hop).1
  apply Sim.of_step hpc
  rw [step_straight o ops st op hop hs]
  simp only [straight]
  cases execOp o op { stack := st.stack, heap := st.heap, pc := 0, loops := [] } <;> rfl

/-- `loop 0 n`: one step, to the instruction after the `n` body instructions -/
theorem step_loop_skip (o : Oracles) (ops rest : List Op) (st : Exec) (it n : UInt16)
    (hdrop : ops.drop st.pc = Op.loop it n :: rest) (hit : it.toNat = 0) :
    step o ops st = some (afterAt st.loops (st.pc + 1 + n.toNat) (st.stack, st.heap)) := by
  have hop : ops[st.pc]? = some (Op.loop it n) := getElem?_of_drop hdrop
  unfold step
  rw [hop]
  simp [execOp, hit, afterAt]

/-- `loop it n`, `it ≥ 1`, `n ≥ 1`, the body ending no later than the innermost active loop: one step, to the first
    instruction of the body with the new frame pushed -/
theorem step_loop_enter (o : Oracles) (ops rest : List Op) (st : Exec) (it n : UInt16)
    (hdrop : ops.drop st.pc = Op.loop it n :: rest) (hit : it.toNat > 0) (hn : 1 ≤ n.toNat)
    (henc : ∀ L tl, st.loops = L :: tl → st.pc + n.toNat ≤ L.end_) :
    step o ops st =
      some { stack := st.stack, heap := st.heap, pc := st.pc + 1,
             loops := { begin_ := st.pc + 1, end_ := st.pc + n.toNat, left := it.toNat - 1 }
               :: st.loops } := by
  have hop : ops[st.pc]? = some (Op.loop it n) := getElem?_of_drop hdrop
  have e : st.pc + 1 + n.toNat - 1 = st.pc + n.toNat := by omega
  have h1 : ¬ st.pc + 1 > st.pc + n.toNat := by omega
  unfold step
  rw [hop]
  cases hl : st.loops with
  | nil => simp [execOp, hit, hl, updatePc, e, h1]
  | cons L tl =>
    have h2 : ¬ st.pc + n.toNat > L.end_ := by have := henc L tl hl; omega
    simp [execOp, hit, hl, updatePc, e, h1, h2]

/-- all passes of a loop body, given the simulation of one pass: from the start of a pass with `m` more to go after
    it, `(m + 1) * S` steps lead to the state after the loop (`afterAt` for the enclosing loop stack) -/
theorem sim_iter (o : Oracles) (ops : List Op) (f : List Value × Heap → Option (List Value × Heap))
    (S b e : Nat) (Ls : List LoopState)
    (hbody : ∀ (m : Nat) (sh : List Value × Heap),
      Sim o ops S
        { stack := sh.1, heap := sh.2, pc := b, loops := { begin_ := b, end_ := e, left := m } :: Ls }
        ((f sh).map (afterAt ({ begin_ := b, end_ := e, left := m } :: Ls) (e + 1)))) :
    ∀ (m : Nat) (sh : List Value × Heap),
      Sim o ops ((m + 1) * S)
        { stack := sh.1, heap := sh.2, pc := b, loops := { begin_ := b, end_ := e, left := m } :: Ls }
        ((iter f (m + 1) sh).map (afterAt Ls (e + 1))) := by
  intro m
  induction m with
  | zero =>
    intro sh
    have h := hbody 0 sh
    rw [afterAt_frame_last] at h
    have e1 : iter f (0 + 1) sh = f sh := by
      simp only [iter]
      cases f sh <;> rfl
    rw [e1, Nat.zero_add, Nat.one_mul]
    exact h
  | succ m ih =>
    intro sh
    have e1 : (m + 1 + 1) * S = S + (m + 1) * S := by rw [Nat.succ_mul, Nat.add_comm]
    have e2 : (iter f (m + 1 + 1) sh).map (afterAt Ls (e + 1)) =
        (f sh).bind fun y => (iter f (m + 1) y).map (afterAt Ls (e + 1)) := by
      rw [iter, Option.map_bind]; rfl
    rw [e1, e2]
    refine Sim.bind (hbody (m + 1) sh) fun y _ => ?_
    rw [afterAt_frame_more]
    exact ih y

/-! ## the refinement, by induction over the structure -/

mutual
/-- one structured instruction at the pc, the rest of the flat program arbitrary, under an arbitrary loop stack whose
    innermost loop does not end before the instruction does -/
theorem sinstr_sim (o : Oracles) (ops : List Op) : ∀ (i : SInstr) (post : List Op) (st : Exec),
    i.WF → ops.drop st.pc = i.flatten ++ post →
    (∀ L tl, st.loops = L :: tl → st.pc + i.flatten.length ≤ L.end_ + 1) →
    Sim o ops i.steps st
      ((i.eval o (st.stack, st.heap)).map (afterAt st.loops (st.pc + i.flatten.length)))
  | .op op, post, st, hwf, hdrop, _ => by
    rw [sinstr_WF_op] at hwf
    exact sim_op o ops post st op hdrop hwf
  | .loop it body, post, st, hwf, hdrop, henc => by
    rw [sinstr_WF_loop] at hwf
    obtain ⟨hwfb, hpos, hlt⟩ := hwf
    have hne : body ≠ [] := by
      intro h; subst h; simp at hpos
    have hn : (UInt16.ofNat (flatten body).length).toNat = (flatten body).length :=
      UInt16.toNat_ofNat_of_lt' hlt
    simp only [sinstr_flatten_loop, List.cons_append] at hdrop
    simp only [sinstr_flatten_loop, List.length_cons] at henc ⊢
    have hop : ops[st.pc]? = some (Op.loop it (UInt16.ofNat (flatten body).length)) :=
      getElem?_of_drop hdrop
    have hpc : st.pc < ops.length := (List.getElem?_eq_some_iff.mp hop).1
    simp only [sinstr_steps_loop, sinstr_eval_loop]
    by_cases hit : it.toNat = 0
    · have hs := step_loop_skip o ops _ st it _ hdrop hit
      rw [hn] at hs
      have e : st.pc + ((flatten body).length + 1) = st.pc + 1 + (flatten body).length := by omega
      rw [hit, Nat.zero_mul, Nat.add_zero, e]
      exact Sim.of_step hpc hs
    · have hit' : it.toNat > 0 := by omega
      have hs := step_loop_enter o ops _ st it _ hdrop hit' (by rw [hn]; exact hpos)
        (by intro L tl hl; have := henc L tl hl; rw [hn]; omega)
      rw [hn] at hs
      have hdrop' : ops.drop (st.pc + 1) = flatten body ++ post := drop_succ_of_drop hdrop
      have hiter := sim_iter o ops (eval o body) (stepsOf body) (st.pc + 1)
        (st.pc + (flatten body).length) st.loops
        (fun m sh => by
          have h := sim_list o ops body post
            { stack := sh.1, heap := sh.2, pc := st.pc + 1,
              loops := { begin_ := st.pc + 1, end_ := st.pc + (flatten body).length, left := m }
                :: st.loops }
            hne hwfb hdrop'
            (by
              intro L tl hl
              simp only [List.cons.injEq] at hl
              rw [← hl.1]
              simp only
              omega)
          have e : st.pc + 1 + (flatten body).length = st.pc + (flatten body).length + 1 := by
            omega
          simp only [e] at h
          exact h)
        (it.toNat - 1) (st.stack, st.heap)
      have e1 : it.toNat - 1 + 1 = it.toNat := by omega
      have e2 : st.pc + ((flatten body).length + 1) = st.pc + (flatten body).length + 1 := by
        omega
      rw [e1] at hiter
      rw [e2]
      have h1 : Sim o ops 1 st ((some ()).map fun _ =>
          ({ stack := st.stack, heap := st.heap, pc := st.pc + 1,
             loops := { begin_ := st.pc + 1, end_ := st.pc + (flatten body).length,
                        left := it.toNat - 1 } :: st.loops } : Exec)) :=
        Sim.of_step hpc hs
      exact Sim.bind h1 fun _ _ => hiter
/-- a non-empty structured program at the pc -/
theorem sim_list (o : Oracles) (ops : List Op) : ∀ (P : List SInstr) (post : List Op) (st : Exec),
    P ≠ [] → WF P → ops.drop st.pc = flatten P ++ post →
    (∀ L tl, st.loops = L :: tl → st.pc + (flatten P).length ≤ L.end_ + 1) →
    Sim o ops (stepsOf P) st
      ((eval o P (st.stack, st.heap)).map (afterAt st.loops (st.pc + (flatten P).length)))
  | [], _, _, hne, _, _, _ => absurd rfl hne
  | i :: rest, post, st, _, hwf, hdrop, henc => by
    rw [WF_cons] at hwf
    obtain ⟨hwfi, hwfr⟩ := hwf
    by_cases hr : rest = []
    · subst hr
      simp only [flatten_cons, flatten_nil, List.append_nil, stepsOf_cons, stepsOf_nil,
        Nat.add_zero] at hdrop henc ⊢
      rw [eval_singleton]
      exact sinstr_sim o ops i post st hwfi hdrop henc
    · have hposr := flatten_length_pos hr
      simp only [flatten_cons, List.append_assoc, List.length_append] at hdrop henc
      simp only [flatten_cons, List.length_append, stepsOf_cons, eval_cons]
      have hi := sinstr_sim o ops i (flatten rest ++ post) st hwfi hdrop
        (by intro L tl hl; have := henc L tl hl; omega)
      have e2 : ((i.eval o (st.stack, st.heap)).bind (eval o rest)).map
            (afterAt st.loops (st.pc + (i.flatten.length + (flatten rest).length))) =
          (i.eval o (st.stack, st.heap)).bind fun y =>
            (eval o rest y).map
              (afterAt st.loops (st.pc + (i.flatten.length + (flatten rest).length))) := by
        rw [Option.map_bind]; rfl
      rw [e2]
      refine Sim.bind hi fun y _ => ?_
      rw [afterAt_within _ _ _ (by intro L tl hl; have := henc L tl hl; omega)]
      have h := sim_list o ops rest post
        { stack := y.1, heap := y.2, pc := st.pc + i.flatten.length, loops := st.loops }
        hr hwfr (drop_add_of_drop_append hdrop)
        (by intro L tl hl; have := henc L tl hl; simp only at hl ⊢; omega)
      have e3 : st.pc + i.flatten.length + (flatten rest).length =
          st.pc + (i.flatten.length + (flatten rest).length) := by omega
      simp only [e3] at h
      exact h
end

end Mel.VM
