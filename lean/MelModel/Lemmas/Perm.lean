/- helper lemmas for C03 -/
import MelModel.ApplyTx
import MelModel.Lemmas.Batch
namespace Mel
end Mel
