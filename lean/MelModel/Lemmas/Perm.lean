/- helper lemmas for C03 -/
import MelModel.ApplyTx
import MelModel.Lemmas.Batch
import MelModel.Props.C20
namespace Mel
namespace C3
open Mel.Gen Mel.BatchL

/-! ### generic facts -/

theorem option_ext {α} {o o' : Option α} (h : ∀ c, o = some c ↔ o' = some c) : o = o' := by
  cases o with
  | none =>
    cases o' with
    | none => rfl
    | some c => exact absurd ((h c).mpr rfl) (by simp)
  | some c => exact ((h c).mp rfl).symm

theorem max_rcomm (a b c : Nat) : max (max a b) c = max (max a c) b := by
  omega

theorem satAdd_rcomm (a b c : Nat) : satAdd128 (satAdd128 a b) c = satAdd128 (satAdd128 a c) b := by
  simp only [satAdd128]
  omega

theorem foldl_max_perm {l l' : List Nat} (hp : l.Perm l') (init : Nat) :
    l.foldl max init = l'.foldl max init :=
  hp.foldl_eq' (fun x _ y _ z => max_rcomm z x y) init

theorem foldl_satAdd_perm {l l' : List Nat} (hp : l.Perm l') (init : Nat) :
    l.foldl satAdd128 init = l'.foldl satAdd128 init :=
  hp.foldl_eq' (fun x _ y _ z => satAdd_rcomm z x y) init

theorem forM'_perm {α} (f : α → Outcome Unit) {l l' : List α} (hp : l.Perm l') :
    (Outcome.forM' f l = .ok ()) ↔ (Outcome.forM' f l' = .ok ()) := by
  rw [Outcome.forM'_eq_ok, Outcome.forM'_eq_ok]
  exact ⟨fun h a ha => h a (hp.mem_iff.mpr ha), fun h a ha => h a (hp.mem_iff.mp ha)⟩

/-- the value of an accepted computation -/
def valOf {β} [Inhabited β] : Outcome β → β
  | .ok v => v
  | _ => default

/-- a fold whose acceptance does not depend on the accumulator -/
theorem foldlM'_pure {α β γ} [Inhabited γ] (g : α → Outcome γ) (u : β → α → γ → β) :
    ∀ (l : List α) (b r : β),
      Outcome.foldlM' (fun b a => (g a).bind fun v => .ok (u b a v)) b l = .ok r ↔
        (∀ a ∈ l, ∃ v, g a = .ok v) ∧ r = l.foldl (fun b a => u b a (valOf (g a))) b := by
  intro l
  induction l with
  | nil =>
    intro b r
    rw [Outcome.foldlM'_nil_ok]
    simp [eq_comm]
  | cons a as ih =>
    intro b r
    rw [Outcome.foldlM'_cons_ok]
    constructor
    · rintro ⟨b', h1, h2⟩
      rw [Outcome.bind_eq_ok] at h1
      obtain ⟨v, hv, h1⟩ := h1
      cases h1
      obtain ⟨i1, i2⟩ := (ih _ _).mp h2
      refine ⟨?_, ?_⟩
      · intro x hx
        rcases List.mem_cons.mp hx with rfl | hx
        · exact ⟨v, hv⟩
        · exact i1 x hx
      · rw [i2, List.foldl_cons, hv]; rfl
    · rintro ⟨h1, h2⟩
      obtain ⟨v, hv⟩ := h1 a List.mem_cons_self
      refine ⟨u b a v, by rw [hv]; rfl, ?_⟩
      rw [ih]
      refine ⟨fun x hx => h1 x (List.mem_cons_of_mem _ hx), ?_⟩
      rw [h2, List.foldl_cons, hv]; rfl

/-! ### maps built by successive `extend`s -/

theorem get_foldl_extend_iff {α κ ν : Type} [DecidableEq κ] (F : α → List (κ × ν)) (k : κ) (c : ν) :
    ∀ (l : List α) (acc : AList κ ν),
      (∀ a ∈ l, ∀ b ∈ l, ∀ v w, AList.get (F a).reverse k = some v → AList.get (F b).reverse k = some w → a = b) →
      (AList.get (l.foldl (fun acc a => AList.extend acc (F a)) acc) k = some c ↔
        (∃ a ∈ l, AList.get (F a).reverse k = some c) ∨
        ((∀ a ∈ l, AList.get (F a).reverse k = none) ∧ AList.get acc k = some c)) := by
  intro l
  induction l with
  | nil => intro acc _; simp
  | cons a rest ih =>
    intro acc hd
    have hd' : ∀ a ∈ rest, ∀ b ∈ rest, ∀ v w, AList.get (F a).reverse k = some v →
        AList.get (F b).reverse k = some w → a = b :=
      fun x hx y hy => hd x (List.mem_cons_of_mem _ hx) y (List.mem_cons_of_mem _ hy)
    rw [List.foldl_cons, ih _ hd', AList.get_extend]
    constructor
    · rintro (⟨b, hb, h⟩ | ⟨hall, h⟩)
      · exact Or.inl ⟨b, List.mem_cons_of_mem _ hb, h⟩
      · cases ha : AList.get (F a).reverse k with
        | some v =>
          rw [ha] at h
          simp only [Option.some.injEq] at h; subst h
          exact Or.inl ⟨a, List.mem_cons_self, ha⟩
        | none =>
          rw [ha] at h
          refine Or.inr ⟨?_, h⟩
          intro x hx
          rcases List.mem_cons.mp hx with rfl | hx
          · exact ha
          · exact hall x hx
    · rintro (⟨b, hb, h⟩ | ⟨hall, h⟩)
      · rcases List.mem_cons.mp hb with rfl | hb
        · by_cases hex : ∃ b' ∈ rest, ∃ w, AList.get (F b').reverse k = some w
          · obtain ⟨b', hb', w, hw⟩ := hex
            have : b' = b := hd b' (List.mem_cons_of_mem _ hb') b List.mem_cons_self w c hw h
            subst this
            exact Or.inl ⟨b', hb', h⟩
          · refine Or.inr ⟨?_, by rw [h]⟩
            intro x hx
            cases hg : AList.get (F x).reverse k with
            | none => rfl
            | some w => exact absurd ⟨x, hx, w, hg⟩ hex
        · exact Or.inl ⟨b, hb, h⟩
      · refine Or.inr ⟨fun x hx => hall x (List.mem_cons_of_mem _ hx), ?_⟩
        rw [hall a List.mem_cons_self]; exact h

/-! ### `bytesLt` is a strict total order (same proofs as in Lemmas/Restart.lean, which cannot be imported) -/

theorem bytesLt_cons (a b : UInt8) (as bs : List UInt8) :
    bytesLt (a :: as) (b :: bs) =
      if a.toNat < b.toNat then true else if b.toNat < a.toNat then false else bytesLt as bs := by
  simp [bytesLt, UInt8.lt_iff_toNat_lt]

theorem bytesLt_irrefl (a : List UInt8) : bytesLt a a = false := by
  induction a with
  | nil => rfl
  | cons x xs ih => rw [bytesLt_cons]; simp [ih]

theorem bytesLt_trans : ∀ (a b c : List UInt8),
    bytesLt a b = true → bytesLt b c = true → bytesLt a c = true
  | [], [], _, h, _ => by simp [bytesLt] at h
  | [], _ :: _, [], _, h => by simp [bytesLt] at h
  | [], _ :: _, _ :: _, _, _ => by simp [bytesLt]
  | _ :: _, [], _, h, _ => by simp [bytesLt] at h
  | _ :: _, _ :: _, [], _, h => by simp [bytesLt] at h
  | a :: as, b :: bs, c :: cs, h1, h2 => by
    have ih := bytesLt_trans as bs cs
    rw [bytesLt_cons] at h1 h2 ⊢
    by_cases hab : a.toNat < b.toNat
    · by_cases hbc : b.toNat < c.toNat
      · rw [if_pos (by omega)]
      · rw [if_neg hbc] at h2
        by_cases hcb : c.toNat < b.toNat
        · rw [if_pos hcb] at h2; cases h2
        · rw [if_pos (by omega)]
    · rw [if_neg hab] at h1
      by_cases hba : b.toNat < a.toNat
      · rw [if_pos hba] at h1; cases h1
      · rw [if_neg hba] at h1
        by_cases hbc : b.toNat < c.toNat
        · rw [if_pos (by omega)]
        · rw [if_neg hbc] at h2
          by_cases hcb : c.toNat < b.toNat
          · rw [if_pos hcb] at h2; cases h2
          · rw [if_neg hcb] at h2
            rw [if_neg (by omega), if_neg (by omega)]
            exact ih h1 h2

theorem bytesLt_asymm (a b : List UInt8) (h : bytesLt a b = true) : bytesLt b a = false := by
  cases hba : bytesLt b a with
  | false => rfl
  | true =>
    have := bytesLt_trans a b a h hba
    rw [bytesLt_irrefl] at this; cases this

theorem bytesLt_total : ∀ (a b : List UInt8), bytesLt a b = false → bytesLt b a = false → a = b
  | [], [], _, _ => rfl
  | [], _ :: _, h, _ => by simp [bytesLt] at h
  | _ :: _, [], _, h => by simp [bytesLt] at h
  | a :: as, b :: bs, h1, h2 => by
    rw [bytesLt_cons] at h1 h2
    by_cases hab : a.toNat < b.toNat
    · rw [if_pos hab] at h1; cases h1
    · by_cases hba : b.toNat < a.toNat
      · rw [if_pos hba] at h2; cases h2
      · rw [if_neg hab, if_neg hba] at h1
        rw [if_neg hba, if_neg hab] at h2
        have : a = b := UInt8.toNat_inj.mp (by omega)
        rw [this, bytesLt_total as bs h1 h2]

theorem bytesLt_ne {a b : List UInt8} (h : bytesLt a b = true) : a ≠ b := by
  intro e; subst e; rw [bytesLt_irrefl] at h; cases h

/-! ### the sorted transaction set -/

/-- strictly increasing hashes -/
def TxLt (a b : Tx) : Prop := bytesLt a.hash b.hash = true

theorem TxLt.trans {a b c : Tx} (h1 : TxLt a b) (h2 : TxLt b c) : TxLt a c :=
  bytesLt_trans _ _ _ h1 h2

theorem mem_insertTx_imp {l : List Tx} {tx x : Tx} (h : x ∈ State.insertTx l tx) : x = tx ∨ x ∈ l := by
  induction l with
  | nil => simp [State.insertTx] at h; exact Or.inl h
  | cons t rest ih =>
    unfold State.insertTx at h
    split at h
    · rcases List.mem_cons.mp h with h | h
      · exact Or.inl h
      · exact Or.inr (List.mem_cons_of_mem _ h)
    · split at h
      · rcases List.mem_cons.mp h with h | h
        · exact Or.inl h
        · exact Or.inr h
      · rcases List.mem_cons.mp h with h | h
        · exact Or.inr (h ▸ List.mem_cons_self)
        · rcases ih h with h | h
          · exact Or.inl h
          · exact Or.inr (List.mem_cons_of_mem _ h)

/-- the hashes of `insertTx l tx` are those of `l` and that of `tx` (no sortedness needed) -/
theorem any_hash_insertTx (l : List Tx) (tx : Tx) (h : Hash) :
    (State.insertTx l tx).any (fun t => t.hash = h) = (l.any (fun t => t.hash = h) || decide (tx.hash = h)) := by
  induction l with
  | nil => simp [State.insertTx]
  | cons t rest ih =>
    unfold State.insertTx
    split
    · rename_i e
      simp only [List.any_cons, e]
      cases decide (tx.hash = h) <;> cases rest.any (fun t => decide (t.hash = h)) <;> rfl
    · split
      · simp only [List.any_cons]
        cases decide (tx.hash = h) <;> cases decide (t.hash = h) <;>
          cases rest.any (fun t => decide (t.hash = h)) <;> rfl
      · simp only [List.any_cons, ih]
        cases decide (tx.hash = h) <;> cases decide (t.hash = h) <;>
          cases rest.any (fun t => decide (t.hash = h)) <;> rfl

theorem insertTx_sorted {l : List Tx} (tx : Tx) (hl : l.Pairwise TxLt) :
    (State.insertTx l tx).Pairwise TxLt := by
  induction l with
  | nil => simp [State.insertTx]
  | cons t rest ih =>
    rw [List.pairwise_cons] at hl
    obtain ⟨h1, h2⟩ := hl
    unfold State.insertTx
    split
    · rename_i he
      rw [List.pairwise_cons]
      refine ⟨fun y hy => ?_, h2⟩
      have := h1 y hy
      simp only [TxLt] at this ⊢
      rw [← he]; exact this
    · rename_i hne
      split
      · rename_i hlt
        rw [List.pairwise_cons]
        refine ⟨fun y hy => ?_, List.pairwise_cons.mpr ⟨h1, h2⟩⟩
        rcases List.mem_cons.mp hy with rfl | hy
        · exact hlt
        · exact TxLt.trans hlt (h1 y hy)
      · rename_i hnlt
        rw [List.pairwise_cons]
        refine ⟨fun y hy => ?_, ih h2⟩
        rcases mem_insertTx_imp hy with rfl | hy
        · cases hb : bytesLt t.hash y.hash with
          | true => exact hb
          | false =>
            have hf : bytesLt y.hash t.hash = false := by simpa using hnlt
            exact absurd (bytesLt_total _ _ hb hf) hne
        · exact h1 y hy

theorem mem_insertTx_iff {l : List Tx} (tx x : Tx) (hl : l.Pairwise TxLt) :
    x ∈ State.insertTx l tx ↔ x = tx ∨ (x ∈ l ∧ x.hash ≠ tx.hash) := by
  induction l with
  | nil => simp [State.insertTx]
  | cons t rest ih =>
    rw [List.pairwise_cons] at hl
    obtain ⟨h1, h2⟩ := hl
    unfold State.insertTx
    split
    · rename_i he
      rw [List.mem_cons, List.mem_cons]
      constructor
      · rintro (h | h)
        · exact Or.inl h
        · refine Or.inr ⟨Or.inr h, ?_⟩
          rw [← he]; exact (bytesLt_ne (h1 x h)).symm
      · rintro (h | ⟨h, hne⟩)
        · exact Or.inl h
        · rcases h with rfl | h
          · exact absurd he hne
          · exact Or.inr h
    · rename_i hne
      split
      · rename_i hlt
        rw [List.mem_cons]
        constructor
        · rintro (h | h)
          · exact Or.inl h
          · refine Or.inr ⟨h, ?_⟩
            rcases List.mem_cons.mp h with rfl | h
            · exact (bytesLt_ne hlt).symm
            · exact (bytesLt_ne (bytesLt_trans _ _ _ hlt (h1 x h))).symm
        · rintro (h | ⟨h, _⟩)
          · exact Or.inl h
          · exact Or.inr h
      · rw [List.mem_cons, ih h2, List.mem_cons]
        constructor
        · rintro (h | h | ⟨h, hx⟩)
          · subst h; exact Or.inr ⟨Or.inl rfl, hne⟩
          · exact Or.inl h
          · exact Or.inr ⟨Or.inr h, hx⟩
        · rintro (h | ⟨h | h, hx⟩)
          · exact Or.inr (Or.inl h)
          · exact Or.inl h
          · exact Or.inr (Or.inr ⟨h, hx⟩)

theorem foldl_insertTx_spec (l : List Tx) :
    ∀ (acc : List Tx), acc.Pairwise TxLt → (l.map (·.hash)).Nodup →
      (l.foldl State.insertTx acc).Pairwise TxLt ∧
      ∀ x, x ∈ l.foldl State.insertTx acc ↔ x ∈ l ∨ (x ∈ acc ∧ ∀ y ∈ l, y.hash ≠ x.hash) := by
  induction l with
  | nil => intro acc ha _; simp [ha]
  | cons a rest ih =>
    intro acc ha hn
    simp only [List.map_cons, List.nodup_cons] at hn
    obtain ⟨i1, i2⟩ := ih (State.insertTx acc a) (insertTx_sorted a ha) hn.2
    rw [List.foldl_cons]
    refine ⟨i1, fun x => ?_⟩
    rw [i2 x, mem_insertTx_iff a x ha, List.mem_cons]
    constructor
    · rintro (h | ⟨h | ⟨h, hx⟩, hall⟩)
      · exact Or.inl (Or.inr h)
      · exact Or.inl (Or.inl h)
      · refine Or.inr ⟨h, ?_⟩
        intro y hy
        rcases List.mem_cons.mp hy with rfl | hy
        · exact fun e => hx e.symm
        · exact hall y hy
    · rintro ((h | h) | ⟨h, hall⟩)
      · subst h
        refine Or.inr ⟨Or.inl rfl, ?_⟩
        intro y hy e
        exact hn.1 (List.mem_map.mpr ⟨y, hy, e⟩)
      · exact Or.inl h
      · refine Or.inr ⟨Or.inr ⟨h, fun e => hall a List.mem_cons_self e.symm⟩, ?_⟩
        exact fun y hy => hall y (List.mem_cons_of_mem _ hy)

theorem sorted_ext : ∀ (l₁ l₂ : List Tx), l₁.Pairwise TxLt → l₂.Pairwise TxLt →
    (∀ x, x ∈ l₁ ↔ x ∈ l₂) → l₁ = l₂
  | [], [], _, _, _ => rfl
  | [], b :: _, _, _, h => by have := (h b).mpr List.mem_cons_self; simp at this
  | a :: _, [], _, _, h => by have := (h a).mp List.mem_cons_self; simp at this
  | a :: as, b :: bs, h1, h2, h => by
    rw [List.pairwise_cons] at h1 h2
    have am : a ∈ b :: bs := (h a).mp List.mem_cons_self
    have bm : b ∈ a :: as := (h b).mpr List.mem_cons_self
    have ab : a = b := by
      rcases List.mem_cons.mp am with e | am
      · exact e
      · rcases List.mem_cons.mp bm with e | bm
        · exact e.symm
        · have x1 : TxLt a b := h1.1 b bm
          have x2 : TxLt b a := h2.1 a am
          have := bytesLt_asymm _ _ x1
          simp only [TxLt] at x2
          rw [x2] at this; cases this
    subst ab
    have hirr : ∀ y, TxLt a y → y ≠ a := by
      intro y hy e; subst e
      simp only [TxLt] at hy
      rw [bytesLt_irrefl] at hy; cases hy
    have : as = bs := by
      apply sorted_ext as bs h1.2 h2.2
      intro x
      constructor
      · intro hx
        rcases List.mem_cons.mp ((h x).mp (List.mem_cons_of_mem _ hx)) with e | h'
        · exact absurd e (hirr x (h1.1 x hx))
        · exact h'
      · intro hx
        rcases List.mem_cons.mp ((h x).mpr (List.mem_cons_of_mem _ hx)) with e | h'
        · exact absurd e (hirr x (h2.1 x hx))
        · exact h'
    rw [this]

theorem foldl_insertTx_perm {base l l' : List Tx} (hp : l.Perm l') (hs : base.Pairwise TxLt)
    (hu : (l.map (·.hash)).Nodup) : l.foldl State.insertTx base = l'.foldl State.insertTx base := by
  have hu' : (l'.map (·.hash)).Nodup := (hp.map _).nodup_iff.mp hu
  obtain ⟨a1, a2⟩ := foldl_insertTx_spec l base hs hu
  obtain ⟨b1, b2⟩ := foldl_insertTx_spec l' base hs hu'
  apply sorted_ext _ _ a1 b1
  intro x
  rw [a2, b2]
  constructor
  · rintro (h | ⟨h, hall⟩)
    · exact Or.inl (hp.mem_iff.mp h)
    · exact Or.inr ⟨h, fun y hy => hall y (hp.mem_iff.mpr hy)⟩
  · rintro (h | ⟨h, hall⟩)
    · exact Or.inl (hp.mem_iff.mpr h)
    · exact Or.inr ⟨h, fun y hy => hall y (hp.mem_iff.mp hy)⟩

/-! ### phase 1: `loadRelevantCoins` -/

/-- distinct transactions of the batch have distinct hashes -/
def HashInj (txs : List Tx) : Prop := ∀ a ∈ txs, ∀ b ∈ txs, a.hash = b.hash → a = b

theorem hashInj_of_nodup : ∀ {txs : List Tx}, (txs.map (·.hash)).Nodup → HashInj txs
  | [], _ => by intro a ha; cases ha
  | t :: rest, h => by
    simp only [List.map_cons, List.nodup_cons] at h
    intro a ha b hb e
    rcases List.mem_cons.mp ha with ha1 | ha1 <;> rcases List.mem_cons.mp hb with hb1 | hb1
    · rw [ha1, hb1]
    · have : t.hash ∈ rest.map (·.hash) := List.mem_map.mpr ⟨b, hb1, by rw [← e, ha1]⟩
      exact absurd this h.1
    · have : t.hash ∈ rest.map (·.hash) := List.mem_map.mpr ⟨a, ha1, by rw [e, hb1]⟩
      exact absurd this h.1
    · exact hashInj_of_nodup h.2 a ha1 b hb1 e

theorem HashInj.perm {txs txs' : List Tx} (hp : txs.Perm txs') (h : HashInj txs) : HashInj txs' :=
  fun a ha b hb => h a (hp.mem_iff.mpr ha) b (hp.mem_iff.mpr hb)

theorem outGet_txhash {tx : Tx} {h : Nat} {k : CoinID} {c : CoinDataHeight}
    (hg : AList.get (outputCoinsFromTx tx h).reverse k = some c) : k.txhash = tx.hash := by
  have := List.mem_reverse.mp (AList.mem_of_get_eq_some hg)
  obtain ⟨i, o, -, hk, -⟩ := mem_outputCoinsFromTx this
  rw [hk]

theorem createdOf_get_iff {height : Nat} {txs : List Tx} (hinj : HashInj txs) (k : CoinID)
    (c : CoinDataHeight) :
    (createdOf height txs).get k = some c ↔
      ∃ tx ∈ txs, AList.get (outputCoinsFromTx tx height).reverse k = some c := by
  unfold createdOf
  rw [get_foldl_extend_iff (fun tx => outputCoinsFromTx tx height) k c txs [] ?_]
  · simp [AList.get]
  · intro a ha b hb v w h1 h2
    exact hinj a ha b hb ((outGet_txhash h1).symm.trans (outGet_txhash h2))

theorem createdOf_perm {height : Nat} {txs txs' : List Tx} (hp : txs.Perm txs') (hinj : HashInj txs)
    (k : CoinID) : (createdOf height txs').get k = (createdOf height txs).get k := by
  apply option_ext
  intro c
  rw [createdOf_get_iff hinj, createdOf_get_iff (hinj.perm hp)]
  exact ⟨fun ⟨t, ht, h⟩ => ⟨t, hp.mem_iff.mpr ht, h⟩, fun ⟨t, ht, h⟩ => ⟨t, hp.mem_iff.mp ht, h⟩⟩

/-- a created coin belongs to a transaction of the batch -/
theorem createdOf_txhash {height : Nat} {txs : List Tx} {k : CoinID} {c : CoinDataHeight}
    (h : (createdOf height txs).get k = some c) : ∃ tx ∈ txs, k.txhash = tx.hash := by
  obtain ⟨tx, htx, hm⟩ := createdOf_get_some h
  obtain ⟨i, o, -, hk, -⟩ := mem_outputCoinsFromTx hm
  exact ⟨tx, htx, by rw [hk]⟩

theorem diskFold_get (created : Relevant) (coins : CoinMap) (l : List CoinID) :
    ∀ (acc disk : Relevant), Outcome.foldlM' (diskStep created coins) acc l = .ok disk →
      ∀ k, disk.get k = if k ∈ l ∧ created.get k = none then coins.getCoin k else acc.get k := by
  induction l with
  | nil => intro acc disk h k; rw [Outcome.foldlM'_nil_ok] at h; subst h; simp
  | cons inp rest ih =>
    intro acc disk h k
    rw [Outcome.foldlM'_cons_ok] at h
    obtain ⟨acc1, h1, h2⟩ := h
    rw [ih acc1 disk h2 k]
    rcases diskStep_ok h1 with ⟨hc, rfl⟩ | ⟨hn, c0, hcoin, rfl⟩
    · by_cases hk : k = inp
      · subst hk
        have hne : created.get k ≠ none := by
          intro h0; simp [AList.contains, h0] at hc
        simp [hne]
      · simp [hk]
    · by_cases hk : k = inp
      · subst hk
        simp [hn, hcoin, AList.get_set_self]
      · simp [hk, AList.get_set_ne _ _ hk]

theorem diskFold_ok_of (created : Relevant) (coins : CoinMap) (l : List CoinID) :
    (∀ inp ∈ l, (coins.getCoin inp).isSome ∨ (created.get inp).isSome) →
    ∀ acc : Relevant, ∃ disk, Outcome.foldlM' (diskStep created coins) acc l = .ok disk := by
  induction l with
  | nil => intro _ acc; exact ⟨acc, rfl⟩
  | cons inp rest ih =>
    intro h acc
    have hrest := ih (fun x hx => h x (List.mem_cons_of_mem _ hx))
    by_cases hc : created.contains inp = true
    · obtain ⟨disk, hd⟩ := hrest acc
      refine ⟨disk, ?_⟩
      rw [Outcome.foldlM'_cons_ok]
      exact ⟨acc, by simp [diskStep, hc], hd⟩
    · have hcoin : (coins.getCoin inp).isSome := by
        rcases h inp List.mem_cons_self with h1 | h1
        · exact h1
        · exact absurd h1 hc
      obtain ⟨c, hcc⟩ := Option.isSome_iff_exists.mp hcoin
      obtain ⟨disk, hd⟩ := hrest (acc.set inp c)
      refine ⟨disk, ?_⟩
      rw [Outcome.foldlM'_cons_ok]
      exact ⟨acc.set inp c, by simp [diskStep, hc, hcc], hd⟩

theorem loadRel_ok_of {s : State} {txs : List Tx}
    (hwf : ∀ tx ∈ txs, tx.isWellFormed = true ∧ tx.melTotalFits = true ∧ tx.covWeightsFit = true)
    (hnd : (txs.flatMap (·.inputs)).Nodup)
    (hin : ∀ inp ∈ txs.flatMap (·.inputs),
      (s.coins.getCoin inp).isSome ∨ ((createdOf s.height txs).get inp).isSome) :
    ∃ rel, loadRelevantCoins s txs = .ok rel := by
  rw [loadRelevantCoins_eq]
  have hall : (txs.all fun tx => tx.isWellFormed && tx.melTotalFits && tx.covWeightsFit) = true := by
    rw [List.all_eq_true]; intro tx htx; simp [hwf tx htx]
  obtain ⟨disk, hd⟩ := diskFold_ok_of _ _ _ hin []
  rw [hall, hd]
  simp [Outcome.bind, hnd]

/-- the lookup function of the relevant-coin map -/
def relSpec (created : Relevant) (coins : CoinMap) (inputs : List CoinID) (k : CoinID) :
    Option CoinDataHeight :=
  match created.get k with
  | some c => some c
  | none => if k ∈ inputs then coins.getCoin k else none

theorem loadRel_get {s : State} {txs : List Tx} {rel : Relevant} (h : loadRelevantCoins s txs = .ok rel)
    (k : CoinID) :
    rel.get k = relSpec (createdOf s.height txs) s.coins (txs.flatMap (·.inputs)) k := by
  rw [loadRelevantCoins_eq] at h
  split at h
  · cases h
  · rw [Outcome.bind_eq_ok] at h
    obtain ⟨disk, hd, h⟩ := h
    split at h
    · cases h
      rw [AList.get_extend, List.reverse_reverse, diskFold_get _ _ _ _ _ hd k]
      unfold relSpec
      cases hc : (createdOf s.height txs).get k with
      | none =>
        by_cases hk : k ∈ txs.flatMap (·.inputs)
        · simp only [hk, and_self, if_true]
          cases s.coins.getCoin k <;> rfl
        · simp [hk, AList.get]
      | some c => simp [AList.get]
    · cases h

theorem loadRel_perm {s : State} {txs txs' : List Tx} {rel : Relevant} (hp : txs.Perm txs')
    (hinj : HashInj txs) (h : loadRelevantCoins s txs = .ok rel) :
    ∃ rel', loadRelevantCoins s txs' = .ok rel' ∧ ∀ k, rel'.get k = rel.get k := by
  obtain ⟨hwf, hnd, hin, -, -⟩ := loadRelevantCoins_ok h
  have hpi : (txs.flatMap (·.inputs)).Perm (txs'.flatMap (·.inputs)) := hp.flatMap_right _
  obtain ⟨rel', h'⟩ := loadRel_ok_of (s := s) (txs := txs')
    (fun tx htx => hwf tx (hp.mem_iff.mpr htx)) (hpi.nodup_iff.mp hnd)
    (fun inp hi => by
      rw [createdOf_perm hp hinj]
      exact hin inp (hpi.mem_iff.mpr hi))
  refine ⟨rel', h', fun k => ?_⟩
  rw [loadRel_get h, loadRel_get h']
  unfold relSpec
  rw [createdOf_perm hp hinj]
  have : k ∈ txs'.flatMap (·.inputs) ↔ k ∈ txs.flatMap (·.inputs) := hpi.mem_iff.symm
  simp only [this]

/-! ### phase 2: `loadStakeInfo` -/

/-- what one transaction contributes to `load_stake_info` -/
def stakeRes (s : State) (tx : Tx) : Outcome (Option StakeDoc) :=
  if tx.kind ≠ .stake then .ok none
  else if legacyStakeReg s then .ok none
  else match tx.stakeDoc with
    | none => .reject .malformedTx
    | some d =>
      match tx.outputs with
      | [] => .reject .malformedTx
      | first :: _ =>
        if first.denom ≠ .sym then .reject .malformedTx
        else if stakeIsConsistent d s.epoch first then .ok (some d)
        else .ok none

def stakeEntries (o : Option StakeDoc) (tx : Tx) : List (Hash × StakeDoc) :=
  match o with
  | some d => [(tx.hash, d)]
  | none => []

theorem loadStakeInfo_eq' (s : State) (txs : List Tx) :
    loadStakeInfo s txs = Outcome.foldlM' (fun acc tx =>
      (stakeRes s tx).bind fun o => .ok (AList.extend acc (stakeEntries o tx))) [] txs := by
  unfold loadStakeInfo
  congr 1
  funext acc tx
  unfold stakeRes
  by_cases hk : tx.kind ≠ .stake
  · simp only [if_pos hk]; rfl
  · by_cases hl : legacyStakeReg s = true
    · simp only [if_neg hk, if_pos hl]; rfl
    · simp only [if_neg hk, if_neg hl]
      cases tx.stakeDoc with
      | none => rfl
      | some d =>
        cases tx.outputs with
        | nil => rfl
        | cons first rest =>
          simp only
          by_cases hden : first.denom ≠ .sym
          · simp only [if_pos hden]; rfl
          · simp only [if_neg hden]
            by_cases hc : stakeIsConsistent d s.epoch first = true
            · simp only [if_pos hc]; rfl
            · simp only [if_neg hc]; rfl

theorem stakeEntries_key {o : Option StakeDoc} {tx : Tx} {k : Hash} {v : StakeDoc}
    (h : AList.get (stakeEntries o tx).reverse k = some v) : k = tx.hash := by
  cases o with
  | none => simp [stakeEntries, AList.get] at h
  | some d =>
    simp only [stakeEntries, List.reverse_cons, List.reverse_nil, List.nil_append, AList.get_cons] at h
    split at h
    · rename_i e; exact e.symm
    · simp [AList.get] at h

theorem loadStake_perm {s : State} {txs txs' : List Tx} {ns : AList Hash StakeDoc} (hp : txs.Perm txs')
    (hinj : HashInj txs) (h : loadStakeInfo s txs = .ok ns) :
    ∃ ns', loadStakeInfo s txs' = .ok ns' ∧ ∀ k, ns'.get k = ns.get k := by
  rw [loadStakeInfo_eq', foldlM'_pure] at h
  obtain ⟨h1, h2⟩ := h
  refine ⟨txs'.foldl (fun b a => AList.extend b (stakeEntries (valOf (stakeRes s a)) a)) [], ?_, ?_⟩
  · rw [loadStakeInfo_eq', foldlM'_pure]
    exact ⟨fun a ha => h1 a (hp.mem_iff.mpr ha), rfl⟩
  · intro k
    apply option_ext
    intro c
    have hd : ∀ l : List Tx, HashInj l → ∀ a ∈ l, ∀ b ∈ l, ∀ v w,
        AList.get (stakeEntries (valOf (stakeRes s a)) a).reverse k = some v →
        AList.get (stakeEntries (valOf (stakeRes s b)) b).reverse k = some w → a = b := by
      intro l hl a ha b hb v w e1 e2
      exact hl a ha b hb ((stakeEntries_key e1).symm.trans (stakeEntries_key e2))
    rw [h2, get_foldl_extend_iff (fun tx => stakeEntries (valOf (stakeRes s tx)) tx) k c txs' [] (hd _ (hinj.perm hp)),
      get_foldl_extend_iff (fun tx => stakeEntries (valOf (stakeRes s tx)) tx) k c txs [] (hd _ hinj)]
    simp only [AList.get, and_false, or_false, reduceCtorEq]
    exact ⟨fun ⟨t, ht, h⟩ => ⟨t, hp.mem_iff.mpr ht, h⟩, fun ⟨t, ht, h⟩ => ⟨t, hp.mem_iff.mp ht, h⟩⟩

/-! ### phases 3 and 4: validity checks and the speed fold -/

theorem checkTxValidity_congr (env : Env) (s : State) (lh : Header) (tx : Tx) {rel rel' : Relevant}
    {ns ns' : AList Hash StakeDoc} (h1 : ∀ k, rel'.get k = rel.get k) (h2 : ∀ k, ns'.get k = ns.get k) :
    checkTxValidity env s lh tx rel' ns' = checkTxValidity env s lh tx rel ns := by
  have h3 : ∀ k, ns'.contains k = ns.contains k := fun k => by simp [AList.contains, h2]
  simp only [checkTxValidity, h1, h3]

theorem validateDoscmint_congr (env : Env) (s : State) (tx : Tx) {rel rel' : Relevant}
    (h1 : ∀ k, rel'.get k = rel.get k) : validateDoscmint env s rel' tx = validateDoscmint env s rel tx := by
  simp only [validateDoscmint, h1]

/-- the speed one transaction demonstrates (0 for everything but DoscMint) -/
def speedRes (env : Env) (s : State) (rel : Relevant) (tx : Tx) : Outcome Nat :=
  if tx.kind = .doscMint then validateDoscmint env s rel tx else .ok 0

/-- the speed fold of `applyBatch` -/
def speedFold (env : Env) (s : State) (rel : Relevant) (txs : List Tx) : Outcome Nat :=
  Outcome.foldlM' (fun (speed : Nat) (tx : Tx) =>
      if tx.kind = .doscMint then (validateDoscmint env s rel tx).bind fun sp => .ok (max speed sp)
      else .ok speed) s.doscSpeed txs

theorem speedFold_eq (env : Env) (s : State) (rel : Relevant) (txs : List Tx) :
    speedFold env s rel txs = Outcome.foldlM' (fun (speed : Nat) (tx : Tx) =>
      (speedRes env s rel tx).bind fun sp => .ok (max speed sp)) s.doscSpeed txs := by
  unfold speedFold
  congr 1
  funext speed tx
  unfold speedRes
  split
  · rfl
  · simp [Outcome.bind]

theorem speedFold_perm {env : Env} {s : State} {rel rel' : Relevant} {txs txs' : List Tx} {r : Nat}
    (hp : txs.Perm txs') (h1 : ∀ k, rel'.get k = rel.get k) (h : speedFold env s rel txs = .ok r) :
    speedFold env s rel' txs' = .ok r := by
  have hr : ∀ tx, speedRes env s rel' tx = speedRes env s rel tx := by
    intro tx; unfold speedRes; rw [validateDoscmint_congr env s tx h1]
  rw [speedFold_eq, foldlM'_pure] at h ⊢
  obtain ⟨a1, a2⟩ := h
  refine ⟨fun a ha => by rw [hr]; exact a1 a (hp.mem_iff.mpr ha), ?_⟩
  rw [a2]
  simp only [hr]
  have e : ∀ l : List Tx, l.foldl (fun b a => max b (valOf (speedRes env s rel a))) s.doscSpeed =
      (l.map fun a => valOf (speedRes env s rel a)).foldl max s.doscSpeed := by
    intro l; rw [List.foldl_map]
  rw [e, e]
  exact foldl_max_perm (hp.map _) _

/-! ### phase 5: `createNextState` -/

theorem nodup_of_hashes : ∀ {txs : List Tx}, (txs.map (·.hash)).Nodup → txs.Nodup
  | [], _ => List.nodup_nil
  | t :: rest, h => by
    simp only [List.map_cons, List.nodup_cons] at h
    rw [List.nodup_cons]
    refine ⟨fun hm => h.1 (List.mem_map.mpr ⟨t, hm, rfl⟩), nodup_of_hashes h.2⟩

theorem tip906_eq {st s : State} (h1 : st.network = s.network) (h2 : st.height = s.height) :
    st.tip906 = s.tip906 := by
  simp only [State.tip906, State.tipCondition, h1, h2]

/-- the faucet step of `nextStep` -/
def fstep (env : Env) (st : State) (tx : Tx) : Outcome State :=
  if tx.kind = .faucet then handleFaucetTx env st tx else .ok st

/-- the coin map after the faucet step -/
def fcoins (env : Env) (st : State) (tx : Tx) : CoinMap :=
  if insertsMarker env tx = true then st.coins.insertCoin (markerOf env tx) faucetMarker st.tip906
  else st.coins

/-- what the faucet step checks -/
def FaucetOk (env : Env) (st : State) (tx : Tx) : Prop :=
  tx.kind = .faucet → st.coins.getCoin (markerOf env tx) = none ∧
    (st.network = .mainnet → env.isGrandfathered tx.hash = true)

theorem fstep_iff {env : Env} {st st1 : State} {tx : Tx} :
    fstep env st tx = .ok st1 ↔ FaucetOk env st tx ∧ st1 = { st with coins := fcoins env st tx } := by
  by_cases hk : tx.kind = .faucet
  · simp only [fstep, if_pos hk, handleFaucetTx, FaucetOk, fcoins, insertsMarker, markerOf, faucetMarker]
    have hgc : st.coins.getCoin ⟨env.fdp tx.hash, 0⟩ = none ∨ ∃ c, st.coins.getCoin ⟨env.fdp tx.hash, 0⟩ = some c := by
      cases st.coins.getCoin ⟨env.fdp tx.hash, 0⟩ <;> simp
    by_cases hb : env.isGrandfathered tx.hash = true <;> by_cases hn : st.network = .mainnet <;>
      rcases hgc with hg | ⟨c, hg⟩ <;> simp [hn, hk, hb, hg]
    all_goals (constructor <;> (intro h; subst h; first | rfl | (cases st; simp_all)))
  · have hm : insertsMarker env tx = false := by simp [insertsMarker, hk]
    have hfc : fcoins env st tx = st.coins := by simp [fcoins, hm]
    rw [hfc]; unfold fstep; rw [if_neg hk]
    constructor
    · intro h; cases h; exact ⟨fun h => absurd h hk, rfl⟩
    · rintro ⟨-, h⟩; rw [h]
/-- removal of the inputs of one transaction -/
def rmFold (t : Bool) (coins : CoinMap) (ids : List CoinID) : Outcome CoinMap :=
  Outcome.foldlM' (fun (c : CoinMap) id => c.removeCoin id t) coins ids

theorem rmFold_true (ids : List CoinID) : ∀ coins : CoinMap, CountsOk coins →
    ∃ coins', rmFold true coins ids = .ok coins' ∧ CountsOk coins' := by
  induction ids with
  | nil => intro coins h; exact ⟨coins, rfl, h⟩
  | cons id rest ih =>
    intro coins h
    obtain ⟨m1, h1, hc1⟩ := C20_remove coins id h
    obtain ⟨m2, h2, hc2⟩ := ih m1 hc1
    refine ⟨m2, ?_, hc2⟩
    unfold rmFold
    rw [Outcome.foldlM'_cons_ok]
    exact ⟨m1, h1, h2⟩

theorem rmFold_false (ids : List CoinID) : ∀ coins : CoinMap,
    ∃ coins', rmFold false coins ids = .ok coins' ∧ coins'.counts = coins.counts := by
  induction ids with
  | nil => intro coins; exact ⟨coins, rfl, rfl⟩
  | cons id rest ih =>
    intro coins
    obtain ⟨m2, h2, hc2⟩ := ih { coins with coins := coins.coins.del id }
    refine ⟨m2, ?_, hc2⟩
    unfold rmFold
    rw [Outcome.foldlM'_cons_ok]
    exact ⟨_, by simp [CoinMap.removeCoin], h2⟩

/-- the state after one accepted step -/
def stepResult (st : State) (tx : Tx) (coins2 : CoinMap) (mf : Nat) : State :=
  { st with coins := coins2, tips := satAdd128 st.tips (tx.fee - mf),
            feePool := satAdd128 st.feePool mf, txs := State.insertTx st.txs tx }

theorem nextStep_iff {env : Env} {t : Bool} {st st' : State} {tx : Tx} :
    nextStep env t st tx = .ok st' ↔
      st.txs.any (fun u => u.hash = tx.hash) = false ∧
      FaucetOk env st tx ∧ ∃ coins2 mf, rmFold t (fcoins env st tx) tx.inputs = .ok coins2 ∧
        tx.baseFee st.feeMultiplier = .ok mf ∧ mf ≤ tx.fee ∧
        st' = stepResult st tx coins2 mf := by
  by_cases hdup : st.txs.any (fun u => u.hash = tx.hash) = true
  · constructor
    · intro h; unfold nextStep at h; rw [if_pos hdup] at h; cases h
    · rintro ⟨h, -⟩; rw [h] at hdup; cases hdup
  have hdup' : st.txs.any (fun u => u.hash = tx.hash) = false := by simpa using hdup
  rw [hdup', eq_self_iff_true, true_and]
  have e : nextStep env t st tx = (fstep env st tx).bind fun st1 =>
      (rmFold t st1.coins tx.inputs).bind fun coins2 =>
      (tx.baseFee st1.feeMultiplier).bind fun minFee =>
        if tx.fee < minFee then .reject .insufficientFees
        else .ok { st1 with coins := coins2,
                            tips := satAdd128 st1.tips (tx.fee - minFee),
                            feePool := satAdd128 st1.feePool minFee,
                            txs := State.insertTx st1.txs tx } := by
    unfold nextStep; rw [if_neg hdup]; rfl
  rw [e]
  simp only [Outcome.bind_eq_ok, fstep_iff]
  constructor
  · rintro ⟨st1, ⟨hF, rfl⟩, coins2, h2, mf, h3, h4⟩
    split at h4
    · cases h4
    · rename_i hlt
      cases h4
      exact ⟨hF, coins2, mf, h2, h3, Nat.le_of_not_lt hlt, rfl⟩
  · rintro ⟨hF, coins2, mf, h2, h3, hle, rfl⟩
    refine ⟨_, ⟨hF, rfl⟩, coins2, h2, mf, h3, ?_⟩
    rw [if_neg (Nat.not_lt.mpr hle)]
    rfl

/-- the minimum fee of a transaction at a multiplier (0 if the weight computation crashes) -/
def feeOf (m : Nat) (tx : Tx) : Nat := valOf (tx.baseFee m)

/-- everything the second pass leaves alone, and the scalars it accumulates -/
theorem nextFold_info (env : Env) (t : Bool) : ∀ (l : List Tx) (st st' : State),
    Outcome.foldlM' (nextStep env t) st l = .ok st' →
    st'.network = st.network ∧ st'.height = st.height ∧ st'.feeMultiplier = st.feeMultiplier ∧
    st'.history = st.history ∧ st'.pools = st.pools ∧ st'.stakes = st.stakes ∧
    st'.doscSpeed = st.doscSpeed ∧
    st'.feePool = (l.map (feeOf st.feeMultiplier)).foldl satAdd128 st.feePool ∧
    st'.tips = (l.map fun tx => tx.fee - feeOf st.feeMultiplier tx).foldl satAdd128 st.tips ∧
    st'.txs = l.foldl State.insertTx st.txs ∧
    (∀ a ∈ l, (∃ mf, a.baseFee st.feeMultiplier = .ok mf ∧ mf ≤ a.fee) ∧
      (a.kind = .faucet → st.network = .mainnet → env.isGrandfathered a.hash = true)) := by
  intro l
  induction l with
  | nil =>
    intro st st' h
    rw [Outcome.foldlM'_nil_ok] at h; subst h
    simp
  | cons a rest ih =>
    intro st st' h
    rw [Outcome.foldlM'_cons_ok] at h
    obtain ⟨st1, h1, h2⟩ := h
    obtain ⟨-, hF, coins2, mf, hrm, hmf, hle, rfl⟩ := nextStep_iff.mp h1
    obtain ⟨i1, i2, i3, i4, i5, i6, i7, i8, i9, i10, i11⟩ := ih _ _ h2
    simp only [stepResult] at i1 i2 i3 i4 i5 i6 i7 i8 i9 i10 i11
    have hfee : feeOf st.feeMultiplier a = mf := by simp [feeOf, hmf, valOf]
    refine ⟨i1, i2, i3, i4, i5, i6, i7, ?_, ?_, ?_, ?_⟩
    · rw [i8, List.map_cons, List.foldl_cons, hfee]
    · rw [i9, List.map_cons, List.foldl_cons, hfee]
    · rw [i10, List.foldl_cons]
    · intro x hx
      rcases List.mem_cons.mp hx with rfl | hx
      · exact ⟨⟨mf, hmf, hle⟩, fun hk => (hF hk).2⟩
      · exact i11 x hx

/-- the pseudo-coin of every faucet transaction was absent when the second pass started -/
theorem nextFold_absent (env : Env) (t : Bool) : ∀ (l : List Tx) (st st' : State),
    Outcome.foldlM' (nextStep env t) st l = .ok st' →
    (∀ f ∈ l, f.kind = .faucet → ∀ u ∈ l, markerOf env f ∉ u.inputs) →
    ∀ f ∈ l, f.kind = .faucet → st.coins.getCoin (markerOf env f) = none := by
  intro l
  induction l with
  | nil => intro st st' _ _ f hf; cases hf
  | cons a rest ih =>
    intro st st' h hni f hf hk
    rw [Outcome.foldlM'_cons_ok] at h
    obtain ⟨st1, h1, h2⟩ := h
    rcases List.mem_cons.mp hf with rfl | hf'
    · exact ((nextStep_iff.mp h1).2.1 hk).1
    · have := ih st1 st' h2
        (fun f hf hk u hu => hni f (List.mem_cons_of_mem _ hf) hk u (List.mem_cons_of_mem _ hu)) f hf' hk
      rw [getCoin_nextStep h1, if_neg (hni f hf hk a List.mem_cons_self)] at this
      split at this
      · cases this
      · exact this

/-- an accepted second pass: the hashes of the list are pairwise distinct and none of them was in the
    transaction list the pass started from (the `DuplicateTx` guard of the step) -/
theorem nextFold_fresh (env : Env) (t : Bool) : ∀ (l : List Tx) (st st' : State),
    Outcome.foldlM' (nextStep env t) st l = .ok st' →
    (l.map (·.hash)).Nodup ∧ ∀ a ∈ l, st.txs.any (fun u => u.hash = a.hash) = false := by
  intro l
  induction l with
  | nil => intro st st' _; exact ⟨List.nodup_nil, fun a ha => by cases ha⟩
  | cons a rest ih =>
    intro st st' h
    rw [Outcome.foldlM'_cons_ok] at h
    obtain ⟨st1, h1, h2⟩ := h
    obtain ⟨hnd, -, coins2, mf, -, -, -, rfl⟩ := nextStep_iff.mp h1
    obtain ⟨i1, i2⟩ := ih _ _ h2
    have key : ∀ f ∈ rest, st.txs.any (fun u => u.hash = f.hash) = false ∧ a.hash ≠ f.hash := by
      intro f hf
      have := i2 f hf
      simp only [stepResult] at this
      rw [any_hash_insertTx, Bool.or_eq_false_iff] at this
      exact ⟨this.1, by simpa using this.2⟩
    refine ⟨?_, ?_⟩
    · rw [List.map_cons, List.nodup_cons]
      refine ⟨?_, i1⟩
      intro hm
      obtain ⟨f, hf, e⟩ := List.mem_map.mp hm
      exact (key f hf).2 e.symm
    · intro x hx
      rcases List.mem_cons.mp hx with rfl | hx
      · exact hnd
      · exact (key x hx).1

/-- static side conditions of the second pass (all invariant under permutation) -/
structure NextStatic (env : Env) (s : State) (l : List Tx) : Prop where
  nodup : l.Nodup
  hnodup : (l.map (·.hash)).Nodup
  dist : ∀ a ∈ l, ∀ f ∈ l, insertsMarker env a = true → f.kind = .faucet →
    markerOf env a = markerOf env f → f = a
  notInp : ∀ f ∈ l, f.kind = .faucet → ∀ u ∈ l, markerOf env f ∉ u.inputs
  netOk : ∀ f ∈ l, f.kind = .faucet → s.network = .mainnet → env.isGrandfathered f.hash = true
  fee : ∀ a ∈ l, ∃ mf, a.baseFee s.feeMultiplier = .ok mf ∧ mf ≤ a.fee

theorem NextStatic.tail {env : Env} {s : State} {a : Tx} {rest : List Tx}
    (h : NextStatic env s (a :: rest)) : NextStatic env s rest where
  nodup := (List.nodup_cons.mp h.nodup).2
  hnodup := by have := h.hnodup; rw [List.map_cons, List.nodup_cons] at this; exact this.2
  dist := fun x hx f hf => h.dist x (List.mem_cons_of_mem _ hx) f (List.mem_cons_of_mem _ hf)
  notInp := fun f hf hk u hu => h.notInp f (List.mem_cons_of_mem _ hf) hk u (List.mem_cons_of_mem _ hu)
  netOk := fun f hf => h.netOk f (List.mem_cons_of_mem _ hf)
  fee := fun x hx => h.fee x (List.mem_cons_of_mem _ hx)

theorem NextStatic.perm {env : Env} {s : State} {l l' : List Tx} (hp : l.Perm l')
    (h : NextStatic env s l) : NextStatic env s l' where
  nodup := h.nodup.perm hp
  hnodup := (hp.map _).nodup_iff.mp h.hnodup
  dist := fun x hx f hf => h.dist x (hp.mem_iff.mpr hx) f (hp.mem_iff.mpr hf)
  notInp := fun f hf hk u hu => h.notInp f (hp.mem_iff.mpr hf) hk u (hp.mem_iff.mpr hu)
  netOk := fun f hf => h.netOk f (hp.mem_iff.mpr hf)
  fee := fun x hx => h.fee x (hp.mem_iff.mpr hx)

/-- the invariant of the second pass -/
structure NextInv (env : Env) (s : State) (st : State) (l : List Tx) : Prop where
  net : st.network = s.network
  height : st.height = s.height
  fm : st.feeMultiplier = s.feeMultiplier
  counts : s.tip906 = true → CountsOk st.coins
  absent : ∀ f ∈ l, f.kind = .faucet → st.coins.getCoin (markerOf env f) = none
  notIn : ∀ a ∈ l, st.txs.any (fun u => u.hash = a.hash) = false

theorem insertsMarker_faucet {env : Env} {tx : Tx} (h : insertsMarker env tx = true) : tx.kind = .faucet := by
  simp [insertsMarker] at h; exact h.1

/-- under the side conditions the second pass accepts, in any order, and keeps the count invariant -/
theorem nextFold_accepts (env : Env) (s : State) : ∀ (l : List Tx) (st : State),
    NextStatic env s l → NextInv env s st l →
    ∃ st', Outcome.foldlM' (nextStep env s.tip906) st l = .ok st' ∧ (s.tip906 = true → CountsOk st'.coins) := by
  intro l
  induction l with
  | nil => intro st _ hinv; exact ⟨st, rfl, hinv.counts⟩
  | cons a rest ih =>
    intro st hst hinv
    have hF : FaucetOk env st a := fun hk =>
      ⟨hinv.absent a List.mem_cons_self hk, fun hn => hst.netOk a List.mem_cons_self hk (hinv.net ▸ hn)⟩
    have htip : st.tip906 = s.tip906 := tip906_eq hinv.net hinv.height
    have hc1 : s.tip906 = true → CountsOk (fcoins env st a) := by
      intro ht
      unfold fcoins
      split
      · rename_i hm
        rw [htip, ht]
        exact C20_insert_fresh _ _ _ (hinv.counts ht)
          (hinv.absent a List.mem_cons_self (insertsMarker_faucet hm))
      · exact hinv.counts ht
    obtain ⟨coins2, hrm, hc2⟩ : ∃ coins2, rmFold s.tip906 (fcoins env st a) a.inputs = .ok coins2 ∧
        (s.tip906 = true → CountsOk coins2) := by
      cases ht : s.tip906 with
      | false =>
        obtain ⟨c, hc, -⟩ := rmFold_false a.inputs (fcoins env st a)
        exact ⟨c, hc, fun h => by cases h⟩
      | true =>
        obtain ⟨c, hc, hok⟩ := rmFold_true a.inputs (fcoins env st a) (hc1 ht)
        exact ⟨c, hc, fun _ => hok⟩
    obtain ⟨mf, hmf, hle⟩ := hst.fee a List.mem_cons_self
    have hstep : nextStep env s.tip906 st a = .ok (stepResult st a coins2 mf) :=
      nextStep_iff.mpr ⟨hinv.notIn a List.mem_cons_self, hF, coins2, mf, hrm, by rw [hinv.fm]; exact hmf, hle, rfl⟩
    have hinv2 : NextInv env s (stepResult st a coins2 mf) rest := by
      refine ⟨hinv.net, hinv.height, hinv.fm, hc2, ?_, ?_⟩
      rotate_left
      · intro f hf
        simp only [stepResult]
        rw [any_hash_insertTx, hinv.notIn f (List.mem_cons_of_mem _ hf), Bool.false_or]
        have hn := hst.hnodup
        rw [List.map_cons, List.nodup_cons] at hn
        have : a.hash ≠ f.hash := fun e => hn.1 (List.mem_map.mpr ⟨f, hf, e.symm⟩)
        simpa using this
      intro f hf hk
      have hfa : f ≠ a := by
        intro e; subst e
        exact (List.nodup_cons.mp hst.nodup).1 hf
      rw [getCoin_nextStep hstep,
        if_neg (hst.notInp f (List.mem_cons_of_mem _ hf) hk a List.mem_cons_self), if_neg ?_]
      · exact hinv.absent f (List.mem_cons_of_mem _ hf) hk
      · rintro ⟨hm, he⟩
        exact hfa (hst.dist a List.mem_cons_self f (List.mem_cons_of_mem _ hf) hm hk he.symm)
    obtain ⟨st', hfold, hc'⟩ := ih _ hst.tail hinv2
    exact ⟨st', (Outcome.foldlM'_cons_ok _ _ _ _ _).mpr ⟨_, hstep, hfold⟩, hc'⟩

theorem fcoins_counts_false {env : Env} {st : State} {tx : Tx} (h : st.tip906 = false) :
    (fcoins env st tx).counts = st.coins.counts := by
  unfold fcoins
  split
  · simp [CoinMap.insertCoin, h]
  · rfl

/-- before TIP-906 the second pass never touches the counts -/
theorem nextFold_counts_false (env : Env) : ∀ (l : List Tx) (st st' : State), st.tip906 = false →
    Outcome.foldlM' (nextStep env false) st l = .ok st' → st'.coins.counts = st.coins.counts := by
  intro l
  induction l with
  | nil => intro st st' _ h; rw [Outcome.foldlM'_nil_ok] at h; subst h; rfl
  | cons a rest ih =>
    intro st st' ht h
    rw [Outcome.foldlM'_cons_ok] at h
    obtain ⟨st1, h1, h2⟩ := h
    obtain ⟨-, -, coins2, mf, hrm, -, -, rfl⟩ := nextStep_iff.mp h1
    have ht1 : State.tip906 (stepResult st a coins2 mf) = false := by
      rw [← ht]; exact tip906_eq rfl rfl
    rw [ih _ _ ht1 h2]
    obtain ⟨c, hc, hcc⟩ := rmFold_false a.inputs (fcoins env st a)
    rw [hrm] at hc
    cases hc
    simp only [stepResult]
    rw [hcc, fcoins_counts_false ht]

/-! the first pass -/

theorem insFold_counts_true (rel : Relevant) : ∀ (L : List CoinID) (coins : CoinMap), CountsOk coins →
    (∀ id ∈ L, coins.getCoin id = none ∨ coins.getCoin id = rel.get id) →
    CountsOk (L.foldl (insStep rel true) coins) := by
  intro L
  induction L with
  | nil => intro coins h _; exact h
  | cons id rest ih =>
    intro coins h hfresh
    rw [List.foldl_cons]
    apply ih
    · unfold insStep
      cases hr : rel.get id with
      | none => exact h
      | some cd =>
        simp only
        rcases hfresh id List.mem_cons_self with h0 | h0
        · exact C20_insert_fresh _ _ _ h h0
        · rw [hr] at h0
          exact C20_insert_overwrite _ _ _ cd h h0 rfl
    · intro x hx
      rw [getCoin_insStep]
      by_cases hxi : x = id
      · subst hxi
        rw [if_pos rfl]
        cases hr : rel.get x with
        | none => simpa [hr] using hfresh x List.mem_cons_self
        | some cd => exact Or.inr rfl
      · rw [if_neg hxi]
        exact hfresh x (List.mem_cons_of_mem _ hx)

theorem insFold_counts_false (rel : Relevant) : ∀ (L : List CoinID) (coins : CoinMap),
    (L.foldl (insStep rel false) coins).counts = coins.counts := by
  intro L
  induction L with
  | nil => intro coins; rfl
  | cons id rest ih =>
    intro coins
    rw [List.foldl_cons, ih]
    unfold insStep
    cases rel.get id with
    | none => rfl
    | some cd => simp [CoinMap.insertCoin]

theorem mem_outputIds {txs : List Tx} {k : CoinID} (h : k ∈ outputIds txs) :
    ∃ tx ∈ txs, ∃ i, k = { txhash := tx.hash, index := i } := by
  simp only [outputIds, List.mem_flatMap, List.mem_map] at h
  obtain ⟨tx, htx, i, -, hk⟩ := h
  exact ⟨tx, htx, i % 256, hk.symm⟩

theorem outputIds_perm {txs txs' : List Tx} (hp : txs.Perm txs') : (outputIds txs).Perm (outputIds txs') :=
  hp.flatMap_right _

theorem markerIds_mem_perm {env : Env} {txs txs' : List Tx} (hp : txs.Perm txs') (k : CoinID) :
    k ∈ markerIdsOf env txs' ↔ k ∈ markerIdsOf env txs := by
  rw [mem_markerIdsOf, mem_markerIdsOf]
  exact ⟨fun ⟨t, ht, h⟩ => ⟨t, hp.mem_iff.mpr ht, h⟩, fun ⟨t, ht, h⟩ => ⟨t, hp.mem_iff.mp ht, h⟩⟩

/-! ### assembling the batch -/

/-- standing assumptions of C03 (unbundled copy of `PermPre`) -/
structure Pre (env : Env) (s : State) (txs : List Tx) : Prop where
  hashes : (txs.map (·.hash)).Nodup
  markers : ∀ t ∈ txs, t.kind = .faucet → env.isGrandfathered t.hash = false →
              (∀ u ∈ txs, (⟨env.fdp t.hash, 0⟩ : CoinID) ∉ u.inputs ∧ env.fdp t.hash ≠ u.hash) ∧
              (∀ u ∈ txs, u.kind = .faucet → env.fdp u.hash = env.fdp t.hash → u = t)
  gfMarkers : ∀ t ∈ txs, t.kind = .faucet → env.isGrandfathered t.hash = true →
              ∀ u ∈ txs, (⟨env.fdp t.hash, 0⟩ : CoinID) ∉ u.inputs
  fresh : ∀ t ∈ txs, ∀ i, s.coins.getCoin ⟨t.hash, i⟩ = none
  counts : CountsOk s.coins
  sorted : s.txs.Pairwise TxLt

theorem Pre.perm {env : Env} {s : State} {txs txs' : List Tx} (hp : txs.Perm txs')
    (h : Pre env s txs) : Pre env s txs' where
  hashes := (hp.map _).nodup_iff.mp h.hashes
  markers := fun t ht hk hb =>
    ⟨fun u hu => (h.markers t (hp.mem_iff.mpr ht) hk hb).1 u (hp.mem_iff.mpr hu),
     fun u hu => (h.markers t (hp.mem_iff.mpr ht) hk hb).2 u (hp.mem_iff.mpr hu)⟩
  gfMarkers := fun t ht hk hb u hu => h.gfMarkers t (hp.mem_iff.mpr ht) hk hb u (hp.mem_iff.mpr hu)
  fresh := fun t ht => h.fresh t (hp.mem_iff.mpr ht)
  counts := h.counts
  sorted := h.sorted

theorem Pre.notInp {env : Env} {s : State} {txs : List Tx} (h : Pre env s txs) :
    ∀ f ∈ txs, f.kind = .faucet → ∀ u ∈ txs, markerOf env f ∉ u.inputs := by
  intro f hf hk u hu
  by_cases hb : env.isGrandfathered f.hash = true
  · exact h.gfMarkers f hf hk hb u hu
  · exact ((h.markers f hf hk (by simpa using hb)).1 u hu).1

theorem Pre.dist {env : Env} {s : State} {txs : List Tx} (h : Pre env s txs) :
    ∀ a ∈ txs, ∀ f ∈ txs, insertsMarker env a = true → f.kind = .faucet →
      markerOf env a = markerOf env f → f = a := by
  intro a ha f hf hm hk he
  simp only [insertsMarker, Bool.and_eq_true, decide_eq_true_eq, Bool.not_eq_true'] at hm
  simp only [markerOf, CoinID.mk.injEq, and_true] at he
  exact (h.markers a ha hm.1 hm.2).2 f hf hk he.symm

theorem Pre.hm1 {env : Env} {s : State} {txs : List Tx} (h : Pre env s txs) :
    ∀ m ∈ markerIdsOf env txs, m ∉ txs.flatMap (·.inputs) := by
  intro m hm hin
  obtain ⟨tx, htx, hins, rfl⟩ := mem_markerIdsOf.mp hm
  obtain ⟨u, hu, hmu⟩ := List.mem_flatMap.mp hin
  exact h.notInp tx htx (insertsMarker_faucet hins) u hu hmu

/-- the state the second pass starts from -/
def startState (s : State) (coins : CoinMap) : State := { s with coins := coins }

theorem createNextState_eq' (env : Env) (s : State) (txs : List Tx) (rel : Relevant) (t : Bool) :
    createNextState env s txs rel t =
      Outcome.foldlM' (nextStep env t) (startState s ((outputIds txs).foldl (insStep rel t) s.coins)) txs :=
  createNextState_eq env s txs rel t

theorem createNext_getCoin {env : Env} {s next : State} {txs : List Tx} {rel : Relevant} {t : Bool}
    (h : createNextState env s txs rel t = .ok next)
    (hm1 : ∀ m ∈ markerIdsOf env txs, m ∉ txs.flatMap (·.inputs)) (k : CoinID) :
    next.coins.getCoin k =
      if k ∈ txs.flatMap (·.inputs) then none
      else if k ∈ markerIdsOf env txs then some faucetMarker
      else if k ∈ outputIds txs then (match rel.get k with | some c => some c | none => s.coins.getCoin k)
      else s.coins.getCoin k := by
  rw [createNextState_eq'] at h
  rw [getCoin_nextFold env t txs _ _ h hm1 k]
  simp only [startState]
  rw [getCoin_insFold]
  rfl

theorem createNext_counts_false {env : Env} {s next : State} {txs : List Tx} {rel : Relevant}
    (ht : s.tip906 = false) (h : createNextState env s txs rel s.tip906 = .ok next) :
    next.coins.counts = s.coins.counts := by
  rw [ht, createNextState_eq'] at h
  have ht0 : (startState s ((outputIds txs).foldl (insStep rel false) s.coins)).tip906 = false := by
    rw [← ht]; exact tip906_eq rfl rfl
  rw [nextFold_counts_false env txs _ _ ht0 h]
  simp only [startState]
  rw [insFold_counts_false]

theorem createNext_perm {env : Env} {s next : State} {txs txs' : List Tx} {rel rel' : Relevant}
    (hp : txs.Perm txs') (hpre : Pre env s txs) (hrel : ∀ k, rel'.get k = rel.get k)
    (h : createNextState env s txs rel s.tip906 = .ok next) :
    ∃ next', createNextState env s txs' rel' s.tip906 = .ok next' ∧
      (∀ k, next.coins.getCoin k = next'.coins.getCoin k) ∧
      (∀ a, next.coins.coinCount a = next'.coins.coinCount a) ∧
      next.txs = next'.txs ∧ next.feePool = next'.feePool ∧ next.tips = next'.tips ∧
      next.feeMultiplier = next'.feeMultiplier ∧ next.pools = next'.pools ∧
      next.history = next'.history ∧ next.height = next'.height ∧ next.network = next'.network ∧
      next.stakes = next'.stakes := by
  have hpre' : Pre env s txs' := hpre.perm hp
  have h0 := h
  rw [createNextState_eq'] at h0
  obtain ⟨i1, i2, i3, i4, i5, i6, i7, i8, i9, i10, i11⟩ := nextFold_info env _ txs _ _ h0
  simp only [startState] at i1 i2 i3 i4 i5 i6 i7 i8 i9 i10 i11
  have hstat : NextStatic env s txs :=
    ⟨nodup_of_hashes hpre.hashes, hpre.hashes, hpre.dist, hpre.notInp, fun f hf hk => (i11 f hf).2 hk,
      fun a ha => (i11 a ha).1⟩
  have habs := nextFold_absent env _ txs _ _ h0 hpre.notInp
  have hfr := (nextFold_fresh env _ txs _ _ h0).2
  simp only [startState] at hfr
  -- the two start states hold the same coins
  have hfreshIds : ∀ (l : List Tx), (∀ t ∈ l, ∀ i, s.coins.getCoin ⟨t.hash, i⟩ = none) →
      ∀ (r : Relevant), ∀ id ∈ outputIds l, s.coins.getCoin id = none ∨ s.coins.getCoin id = r.get id := by
    intro l hl r id hid
    obtain ⟨tx, htx, i, rfl⟩ := mem_outputIds hid
    exact Or.inl (hl tx htx i)
  have hstart : ∀ k, ((outputIds txs').foldl (insStep rel' s.tip906) s.coins).getCoin k =
      ((outputIds txs).foldl (insStep rel s.tip906) s.coins).getCoin k := by
    intro k
    rw [getCoin_insFold, getCoin_insFold, hrel]
    have : k ∈ outputIds txs' ↔ k ∈ outputIds txs := (outputIds_perm hp).mem_iff.symm
    simp only [this]
  have hinv0 : NextInv env s (startState s ((outputIds txs).foldl (insStep rel s.tip906) s.coins)) txs := by
    refine ⟨rfl, rfl, rfl, ?_, habs, hfr⟩
    intro ht
    simp only [startState]
    rw [ht]
    exact insFold_counts_true rel _ _ hpre.counts (hfreshIds txs hpre.fresh rel)
  have hinv0' : NextInv env s (startState s ((outputIds txs').foldl (insStep rel' s.tip906) s.coins)) txs' := by
    refine ⟨rfl, rfl, rfl, ?_, ?_, fun a ha => hfr a (hp.mem_iff.mpr ha)⟩
    · intro ht
      simp only [startState]
      rw [ht]
      exact insFold_counts_true rel' _ _ hpre.counts (hfreshIds txs' hpre'.fresh rel')
    · intro f hf hk
      simp only [startState]
      rw [hstart]
      exact habs f (hp.mem_iff.mpr hf) hk
  obtain ⟨next', hfold', hc'⟩ := nextFold_accepts env s txs' _ (hstat.perm hp) hinv0'
  obtain ⟨next1, hfold1, hc1⟩ := nextFold_accepts env s txs _ hstat hinv0
  rw [h0] at hfold1
  cases hfold1
  have h' : createNextState env s txs' rel' s.tip906 = .ok next' := by
    rw [createNextState_eq']; exact hfold'
  obtain ⟨j1, j2, j3, j4, j5, j6, j7, j8, j9, j10, -⟩ := nextFold_info env _ txs' _ _ hfold'
  simp only [startState] at j1 j2 j3 j4 j5 j6 j7 j8 j9 j10
  have hcoins : ∀ k, next.coins.getCoin k = next'.coins.getCoin k := by
    intro k
    rw [createNext_getCoin h hpre.hm1 k, createNext_getCoin h' hpre'.hm1 k, hrel]
    have e1 : k ∈ txs'.flatMap (·.inputs) ↔ k ∈ txs.flatMap (·.inputs) := (hp.flatMap_right _).mem_iff.symm
    have e2 : k ∈ outputIds txs' ↔ k ∈ outputIds txs := (outputIds_perm hp).mem_iff.symm
    simp only [e1, e2, markerIds_mem_perm hp]
  refine ⟨next', h', hcoins, ?_, ?_, ?_, ?_, ?_, ?_, ?_, ?_, ?_, ?_⟩
  · intro a
    cases ht : s.tip906 with
    | true => exact C20_counts_determined _ _ (hc1 ht) (hc' ht) hcoins a
    | false =>
      simp only [CoinMap.coinCount]
      rw [createNext_counts_false ht h, createNext_counts_false ht h']
  · rw [i10, j10]; exact foldl_insertTx_perm hp hpre.sorted hpre.hashes
  · rw [i8, j8]; exact foldl_satAdd_perm (hp.map _) _
  · rw [i9, j9]; exact foldl_satAdd_perm (hp.map _) _
  · rw [i3, j3]
  · rw [i5, j5]
  · rw [i4, j4]
  · rw [i2, j2]
  · rw [i1, j1]
  · rw [i6, j6]

/-! ### phase 6: stakes -/

theorem stakeFold_get (ns : AList Hash StakeDoc) (base : StakeSet) (k : Hash) :
    (ns.reverse.foldl (fun st e => StakeSet.addStake st e.1 e.2) base).getStake k =
      (ns.get k).or (base.get k) := by
  rw [List.foldl_reverse]
  induction ns with
  | nil => simp [AList.get, StakeSet.getStake]
  | cons e rest ih =>
    obtain ⟨k', v⟩ := e
    simp only [List.foldr_cons, StakeSet.getStake, StakeSet.addStake] at ih ⊢
    by_cases h : k' = k
    · subst h; rw [AList.get_set_self]; simp [AList.get_cons]
    · have h' : k ≠ k' := fun h2 => h h2.symm
      rw [AList.get_set_ne _ _ h', ih]; simp [AList.get_cons, h]

/-- the state `applyBatch` returns -/
def finish (next : State) (sp : Nat) (ns : AList Hash StakeDoc) : State :=
  { next with doscSpeed := sp,
              stakes := ns.reverse.foldl (fun st e => StakeSet.addStake st e.1 e.2) next.stakes }

theorem applyBatch_iff {env : Env} {s s' : State} {txs : List Tx} {fb : Header} :
    applyBatch env s txs fb = .ok s' ↔
      ∃ rel ns sp next, loadRelevantCoins s txs = .ok rel ∧ loadStakeInfo s txs = .ok ns ∧
        Outcome.forM' (fun tx => checkTxValidity env s (lastHeaderOf s fb) tx rel ns) txs = .ok () ∧
        speedFold env s rel txs = .ok sp ∧ createNextState env s txs rel s.tip906 = .ok next ∧
        s' = finish next sp ns := by
  simp only [applyBatch, Outcome.bind_eq_ok]
  constructor
  · rintro ⟨rel, h1, ns, h2, u, h3, sp, h4, next, h5, h6⟩
    cases h6
    exact ⟨rel, ns, sp, next, h1, h2, h3, h4, h5, rfl⟩
  · rintro ⟨rel, ns, sp, next, h1, h2, h3, h4, h5, rfl⟩
    exact ⟨rel, h1, ns, h2, (), h3, sp, h4, next, h5, rfl⟩

/-- same observable content (unbundled copy of `BatchEquiv`) -/
structure Equiv (a b : State) : Prop where
  coins : ∀ id, a.coins.getCoin id = b.coins.getCoin id
  counts : ∀ h, a.coins.coinCount h = b.coins.coinCount h
  stakes : ∀ k, a.stakes.getStake k = b.stakes.getStake k
  txs : a.txs = b.txs
  feePool : a.feePool = b.feePool
  tips : a.tips = b.tips
  feeMultiplier : a.feeMultiplier = b.feeMultiplier
  doscSpeed : a.doscSpeed = b.doscSpeed
  pools : a.pools = b.pools
  history : a.history = b.history
  height : a.height = b.height
  network : a.network = b.network

theorem perm_main {env : Env} {s s₁ : State} {txs txs' : List Tx} {fb : Header} (hp : txs.Perm txs')
    (hpre : Pre env s txs) (h : applyBatch env s txs fb = .ok s₁) :
    ∃ s₂, applyBatch env s txs' fb = .ok s₂ ∧ Equiv s₁ s₂ := by
  obtain ⟨rel, ns, sp, next, h1, h2, h3, h4, h5, rfl⟩ := applyBatch_iff.mp h
  have hinj := hashInj_of_nodup hpre.hashes
  obtain ⟨rel', h1', hrel⟩ := loadRel_perm hp hinj h1
  obtain ⟨ns', h2', hns⟩ := loadStake_perm hp hinj h2
  have h3' : Outcome.forM' (fun tx => checkTxValidity env s (lastHeaderOf s fb) tx rel' ns') txs' = .ok () := by
    rw [Outcome.forM'_eq_ok] at h3 ⊢
    intro a ha
    rw [checkTxValidity_congr env s _ a hrel hns]
    exact h3 a (hp.mem_iff.mpr ha)
  have h4' := speedFold_perm hp hrel h4
  obtain ⟨next', h5', c1, c2, c3, c4, c5, c6, c7, c8, c9, c10, c11⟩ := createNext_perm hp hpre hrel h5
  refine ⟨finish next' sp ns', applyBatch_iff.mpr ⟨rel', ns', sp, next', h1', h2', h3', h4', h5', rfl⟩, ?_⟩
  refine ⟨c1, c2, ?_, c3, c4, c5, c6, rfl, c7, c8, c9, c10⟩
  intro k
  simp only [finish]
  rw [stakeFold_get, stakeFold_get, hns, c11]

/-! ### a block holds a transaction at most once (the `DuplicateTx` guard of `createNextState`) -/

/-- an accepted batch: its hashes are pairwise distinct and none of them is already in the block -/
theorem applyBatch_fresh {env : Env} {s s' : State} {txs : List Tx} {fb : Header}
    (h : applyBatch env s txs fb = .ok s') :
    (txs.map (·.hash)).Nodup ∧ ∀ a ∈ txs, s.txs.any (fun u => u.hash = a.hash) = false := by
  obtain ⟨rel, ns, sp, next, -, -, -, -, h5, -⟩ := applyBatch_iff.mp h
  rw [createNextState_eq'] at h5
  have := nextFold_fresh env _ txs _ _ h5
  exact this

/-- the transaction list after an accepted batch -/
theorem applyBatch_txsEq {env : Env} {s s' : State} {txs : List Tx} {fb : Header}
    (h : applyBatch env s txs fb = .ok s') : s'.txs = txs.foldl State.insertTx s.txs := by
  obtain ⟨rel, ns, sp, next, -, -, -, -, h5, rfl⟩ := applyBatch_iff.mp h
  rw [createNextState_eq'] at h5
  exact (nextFold_info env _ txs _ _ h5).2.2.2.2.2.2.2.2.2.1

theorem nodup_hashes_of_sorted : ∀ {l : List Tx}, l.Pairwise TxLt → (l.map (·.hash)).Nodup
  | [], _ => List.nodup_nil
  | a :: rest, h => by
    rw [List.pairwise_cons] at h
    simp only [List.map_cons, List.nodup_cons, List.mem_map, not_exists, not_and]
    exact ⟨fun y hy e => bytesLt_ne (h.1 y hy) e.symm, nodup_hashes_of_sorted h.2⟩

theorem any_hash_iff {l : List Tx} {h : Hash} :
    l.any (fun u => u.hash = h) = true ↔ ∃ t ∈ l, t.hash = h := by
  simp [List.any_eq_true]


end C3
end Mel
