/- helper lemmas for C15 / C16 (pool arithmetic; may import single Mathlib tactic modules) -/
import MelModel.Seal
import MelModel.Lemmas.Counts
import MelModel.Lemmas.FeeMult
namespace Mel
open Mel.Gen

/-! ### `bytesLt` is asymmetric -/

theorem bytesLt_asymm : ∀ (a b : List UInt8), bytesLt a b = true → bytesLt b a = false := by
  intro a
  induction a with
  | nil => intro b _; cases b <;> simp [bytesLt]
  | cons x xs ih =>
    intro b h
    cases b with
    | nil => simp [bytesLt] at h
    | cons y ys =>
      simp only [bytesLt] at h ⊢
      by_cases hxy : x < y
      · have hyx : ¬ y < x := UInt8.lt_asymm hxy
        simp [hxy, hyx]
      · by_cases hyx : y < x
        · simp [hxy, hyx] at h
        · simp only [hxy, hyx, if_false] at h ⊢
          exact ih ys h

/-! ### what the request selectors demand -/

theorem canonicalPoolKey_some {data : Bytes} {k : PoolKey} (h : canonicalPoolKey data = some k) :
    bytesLt k.left.toBytes k.right.toBytes = true ∧ k.left ≠ .newCustom ∧ k.right ≠ .newCustom ∧
      k.toBytes = data := by
  unfold canonicalPoolKey at h
  split at h
  · next k' _ =>
    split at h
    · next hc =>
      cases h
      simp only [Bool.and_eq_true, decide_eq_true_eq, ne_eq] at hc
      exact ⟨hc.1.1.1, hc.1.1.2, hc.1.2, hc.2⟩
    · cases h
  · cases h

theorem isSwapRequest_spec {s : State} {tx : Tx} (h : isSwapRequest s tx = true) :
    tx.kind = .swap ∧ ∃ k o, canonicalPoolKey tx.data = some k ∧ tx.outputs.head? = some o ∧
      (o.denom = k.left ∨ o.denom = k.right) := by
  unfold isSwapRequest at h
  simp only [Bool.and_eq_true, decide_eq_true_eq] at h
  refine ⟨h.1, ?_⟩
  have h2 := h.2
  split at h2
  · cases h2
  · next o0 rest ho =>
    simp only [Bool.and_eq_true] at h2
    have h3 := h2.2
    split at h3
    · cases h3
    · next k hk =>
      split at h3
      · cases h3
      · simp only [Bool.and_eq_true, Bool.or_eq_true, decide_eq_true_eq] at h3
        exact ⟨k, o0, hk, by rw [ho]; rfl, h3.2⟩

theorem isDepositRequest_spec {s : State} {tx : Tx} (h : isDepositRequest s tx = true) :
    tx.kind = .liqDeposit ∧ ∃ k, canonicalPoolKey tx.data = some k := by
  unfold isDepositRequest at h
  simp only [Bool.and_eq_true, decide_eq_true_eq] at h
  refine ⟨h.1, ?_⟩
  have h2 := h.2
  split at h2
  · simp only [Bool.and_eq_true] at h2
    have h3 := h2.2
    split at h3
    · cases h3
    · next k hk => exact ⟨k, hk⟩
  · cases h2

theorem isWithdrawRequest_spec {env : Env} {s : State} {tx : Tx} (h : isWithdrawRequest env s tx = true) :
    tx.kind = .liqWithdraw ∧ ∃ k, canonicalPoolKey tx.data = some k := by
  unfold isWithdrawRequest at h
  simp only [Bool.and_eq_true, decide_eq_true_eq] at h
  refine ⟨h.1, ?_⟩
  have h2 := h.2
  split at h2
  · simp only [Bool.and_eq_true] at h2
    have h3 := h2.2
    split at h3
    · cases h3
    · next k hk => exact ⟨k, hk⟩
  · cases h2

/-! ### coins untouched away from request outputs -/

theorem CoinMap.getCoin_insertCoin_ne (m : CoinMap) {id id' : CoinID} (d : CoinDataHeight) (t : Bool)
    (hne : id ≠ id') : (m.insertCoin id' d t).getCoin id = m.getCoin id := by
  unfold CoinMap.insertCoin CoinMap.getCoin
  simp only
  split <;> exact AList.get_set_ne _ _ hne

theorem CoinMap.getCoin_removeCoin_ne {m m' : CoinMap} {id id' : CoinID} {t : Bool}
    (h : m.removeCoin id' t = .ok m') (hne : id ≠ id') : m'.getCoin id = m.getCoin id := by
  unfold CoinMap.removeCoin at h
  unfold CoinMap.getCoin
  split at h
  · split at h
    · simp only at h
      split at h
      · cases h
      · cases h; exact AList.get_del_ne _ hne
    · cases h; exact AList.get_del_ne _ hne
  · cases h; exact AList.get_del_ne _ hne

theorem Outcome.foldlM'_inv_mem {α β} (P : β → Prop) (f : β → α → Outcome β) :
    ∀ (l : List α), (∀ b a b', a ∈ l → P b → f b a = .ok b' → P b') →
      ∀ (b b' : β), P b → Outcome.foldlM' f b l = .ok b' → P b' := by
  intro l
  induction l with
  | nil =>
    intro _ b b' hb h
    simp only [Outcome.foldlM'] at h
    cases h; exact hb
  | cons a as ih =>
    intro hf b b' hb h
    simp only [Outcome.foldlM'] at h
    split at h
    · next b1 hb1 =>
      exact ih (fun b a' b' ha' => hf b a' b' (List.mem_cons_of_mem _ ha')) b1 b'
        (hf b a b1 List.mem_cons_self hb hb1) h
    · cases h
    · cases h

/-- the coin at `id`, the transaction list and the height are as before -/
def CoinsSameAt (id : CoinID) (s s' : State) : Prop :=
  s'.coins.getCoin id = s.coins.getCoin id ∧ s'.txs = s.txs ∧ s'.height = s.height

theorem CoinsSameAt.refl (id : CoinID) (s : State) : CoinsSameAt id s s := ⟨rfl, rfl, rfl⟩

theorem CoinsSameAt.trans {id : CoinID} {a b c : State} (h1 : CoinsSameAt id a b)
    (h2 : CoinsSameAt id b c) : CoinsSameAt id a c :=
  ⟨h2.1.trans h1.1, h2.2.1.trans h1.2.1, h2.2.2.trans h1.2.2⟩

theorem outCoinID_ne {tx : Tx} {id : CoinID} (i : Nat) (h : tx.hash ≠ id.txhash) : id ≠ outCoinID tx i := by
  intro e; apply h; rw [e]; rfl

theorem processSwapsForPool_coins (id : CoinID) (k : PoolKey) (s : State) (swaps : List Tx) (s' : State)
    (h : processSwapsForPool k s swaps = .ok s') (hne : ∀ tx ∈ swaps, tx.hash ≠ id.txhash) :
    CoinsSameAt id s s' := by
  unfold processSwapsForPool at h
  split at h
  · cases h
  · simp only at h
    split at h
    · cases h
    · cases h
    · obtain ⟨coins, hc, h2⟩ := Outcome.bind_eq_ok h
      cases h2
      refine ⟨?_, rfl, rfl⟩
      refine Outcome.foldlM'_inv_mem (fun c : CoinMap => c.getCoin id = s.coins.getCoin id) _ swaps ?_
        _ _ rfl hc
      intro b tx b' htx hb hf
      obtain ⟨cd, _, hf⟩ := Outcome.bind_eq_ok hf
      cases hf
      rw [CoinMap.getCoin_insertCoin_ne _ _ _ (outCoinID_ne 0 (hne tx htx))]
      exact hb

theorem processDepositsForPool_coins (id : CoinID) (env : Env) (k : PoolKey) (s : State) (deps : List Tx)
    (s' : State) (h : processDepositsForPool env k s deps = .ok s')
    (hne : ∀ tx ∈ deps, tx.hash ≠ id.txhash) : CoinsSameAt id s s' := by
  unfold processDepositsForPool at h
  simp only at h
  split at h
  · cases h
  · cases h
  · split at h
    · cases h; exact CoinsSameAt.refl _ _
    · obtain ⟨coins, hc, h2⟩ := Outcome.bind_eq_ok h
      cases h2
      refine ⟨?_, rfl, rfl⟩
      refine Outcome.foldlM'_inv_mem (fun c : CoinMap => c.getCoin id = s.coins.getCoin id) _ deps ?_
        _ _ rfl hc
      intro b tx b' htx hb hf
      obtain ⟨v, _, hf⟩ := Outcome.bind_eq_ok hf
      split at hf
      · cases hf
        rw [CoinMap.getCoin_insertCoin_ne _ _ _ (outCoinID_ne 0 (hne tx htx))]
        exact hb
      · rw [CoinMap.getCoin_removeCoin_ne hf (outCoinID_ne 1 (hne tx htx)),
          CoinMap.getCoin_insertCoin_ne _ _ _ (outCoinID_ne 0 (hne tx htx))]
        exact hb

theorem processWithdrawalsForPool_coins (id : CoinID) (k : PoolKey) (s : State) (reqs : List Tx)
    (s' : State) (h : processWithdrawalsForPool k s reqs = .ok s')
    (hne : ∀ tx ∈ reqs, tx.hash ≠ id.txhash) : CoinsSameAt id s s' := by
  unfold processWithdrawalsForPool at h
  simp only at h
  split at h
  · cases h
  · split at h
    · cases h; exact CoinsSameAt.refl _ _
    · split at h
      · cases h
      · cases h
      · obtain ⟨coins, hc, h2⟩ := Outcome.bind_eq_ok h
        cases h2
        refine ⟨?_, rfl, rfl⟩
        refine Outcome.foldlM'_inv_mem (fun c : CoinMap => c.getCoin id = s.coins.getCoin id) _ reqs ?_
          _ _ rfl hc
        intro b tx b' htx hb hf
        obtain ⟨vl, _, hf⟩ := Outcome.bind_eq_ok hf
        obtain ⟨vr, _, hf⟩ := Outcome.bind_eq_ok hf
        cases hf
        rw [CoinMap.getCoin_insertCoin_ne _ _ _ (outCoinID_ne 1 (hne tx htx)),
          CoinMap.getCoin_insertCoin_ne _ _ _ (outCoinID_ne 0 (hne tx htx))]
        exact hb

theorem mem_transactionsForPool {reqs : List Tx} {k : PoolKey} {tx : Tx}
    (h : tx ∈ transactionsForPool reqs k) : tx ∈ reqs := by
  unfold transactionsForPool at h
  exact (List.mem_filter.mp h).1

theorem processSwaps_coins (id : CoinID) (s s' : State) (h : processSwaps s = .ok s')
    (hne : ∀ tx ∈ s.txs, isSwapRequest s tx = true → tx.hash ≠ id.txhash) : CoinsSameAt id s s' := by
  unfold processSwaps at h
  refine Outcome.foldlM'_inv (CoinsSameAt id s) _ ?_ _ _ _ (CoinsSameAt.refl id s) h
  intro b a b' hb hf
  refine hb.trans (processSwapsForPool_coins id _ _ _ _ hf ?_)
  intro tx htx
  have := List.mem_filter.mp (mem_transactionsForPool htx)
  exact hne tx this.1 this.2

theorem processDeposits_coins (id : CoinID) (env : Env) (s s' : State) (h : processDeposits env s = .ok s')
    (hne : ∀ tx ∈ s.txs, isDepositRequest s tx = true → tx.hash ≠ id.txhash) : CoinsSameAt id s s' := by
  unfold processDeposits at h
  refine Outcome.foldlM'_inv (CoinsSameAt id s) _ ?_ _ _ _ (CoinsSameAt.refl id s) h
  intro b a b' hb hf
  refine hb.trans (processDepositsForPool_coins id _ _ _ _ _ hf ?_)
  intro tx htx
  have := List.mem_filter.mp (mem_transactionsForPool htx)
  exact hne tx this.1 this.2

theorem processWithdrawals_coins (id : CoinID) (env : Env) (s s' : State)
    (h : processWithdrawals env s = .ok s')
    (hne : ∀ tx ∈ s.txs, isWithdrawRequest env s tx = true → tx.hash ≠ id.txhash) :
    CoinsSameAt id s s' := by
  unfold processWithdrawals at h
  refine Outcome.foldlM'_inv (CoinsSameAt id s) _ ?_ _ _ _ (CoinsSameAt.refl id s) h
  intro b a b' hb hf
  refine hb.trans (processWithdrawalsForPool_coins id _ _ _ _ hf ?_)
  intro tx htx
  have := List.mem_filter.mp (mem_transactionsForPool htx)
  exact hne tx this.1 this.2

theorem processPegging_coins (id : CoinID) (s s' : State) (h : processPegging s = .ok s') :
    CoinsSameAt id s s' := by
  unfold processPegging at h
  simp only at h
  obtain ⟨⟨a, b⟩, _, h⟩ := Outcome.bind_eq_ok h
  simp only at h
  obtain ⟨sm, _, h⟩ := Outcome.bind_eq_ok h
  split at h
  · cases h
  · obtain ⟨sm1, _, h⟩ := Outcome.bind_eq_ok h
    obtain ⟨sm2, _, h⟩ := Outcome.bind_eq_ok h
    cases h; exact ⟨rfl, rfl, rfl⟩

theorem applyTip909_coins (id : CoinID) (s s' : State) (h : applyTip909 s = .ok s') :
    CoinsSameAt id s s' := by
  unfold applyTip909 at h
  simp only at h
  split at h
  · cases h
  · split at h
    · cases h
    · obtain ⟨⟨sm', mel, x⟩, _, h⟩ := Outcome.bind_eq_ok h
      simp only at h
      split at h
      · cases h
      · split at h
        · cases h
        · obtain ⟨⟨es', y, z⟩, _, h⟩ := Outcome.bind_eq_ok h
          cases h; exact ⟨rfl, rfl, rfl⟩

/-- the hypothesis of the kind filter, as a statement about hashes -/
def NoRequestAt (id : CoinID) (txs : List Tx) : Prop :=
  ∀ tx ∈ txs, tx.hash = id.txhash →
    (tx.kind ≠ .swap ∧ tx.kind ≠ .liqDeposit ∧ tx.kind ≠ .liqWithdraw) ∨ canonicalPoolKey tx.data = none

theorem presealMelmint_coins (id : CoinID) (env : Env) (s s' : State) (h : presealMelmint env s = .ok s')
    (hnr : NoRequestAt id s.txs) : CoinsSameAt id s s' := by
  unfold presealMelmint at h
  simp only at h
  split at h
  · cases h
  · obtain ⟨s1, h1, h⟩ := Outcome.bind_eq_ok h
    obtain ⟨s2, h2, h⟩ := Outcome.bind_eq_ok h
    obtain ⟨s3, h3, h⟩ := Outcome.bind_eq_ok h
    have c0 : CoinsSameAt id s (createBuiltins s) := ⟨rfl, rfl, rfl⟩
    have c1 : CoinsSameAt id s s1 := by
      refine c0.trans (processSwaps_coins id _ _ h1 ?_)
      intro tx htx hreq he
      obtain ⟨hk, k, _, hck, _⟩ := isSwapRequest_spec hreq
      rcases hnr tx htx he with hh | hh
      · exact hh.1 hk
      · rw [hck] at hh; cases hh
    have c2 : CoinsSameAt id s s2 := by
      refine c1.trans (processDeposits_coins id _ _ _ h2 ?_)
      intro tx htx hreq he
      rw [c1.2.1] at htx
      obtain ⟨hk, k, hck⟩ := isDepositRequest_spec hreq
      rcases hnr tx htx he with hh | hh
      · exact hh.2.1 hk
      · rw [hck] at hh; cases hh
    have c3 : CoinsSameAt id s s3 := by
      refine c2.trans (processWithdrawals_coins id _ _ _ h3 ?_)
      intro tx htx hreq he
      rw [c2.2.1] at htx
      obtain ⟨hk, k, hck⟩ := isWithdrawRequest_spec hreq
      rcases hnr tx htx he with hh | hh
      · exact hh.2.2 hk
      · rw [hck] at hh; cases hh
    have c3' : CoinsSameAt id s3 (createBuiltins s3) := ⟨rfl, rfl, rfl⟩
    exact (c3.trans c3').trans (processPegging_coins id _ _ h)

theorem sealState_coins (id : CoinID) (env : Env) (s : State) (a : Option ProposerAction) (ss : Sealed)
    (h : sealState env s a = .ok ss) (hnr : NoRequestAt id s.txs)
    (hrw : id.txhash ≠ env.rewardId s.height) : ss.st.coins.getCoin id = s.coins.getCoin id := by
  unfold sealState at h
  obtain ⟨s1, h1, h⟩ := Outcome.bind_eq_ok h
  split at h
  · cases h
  · obtain ⟨s2, h2, h⟩ := Outcome.bind_eq_ok h
    have c1 := presealMelmint_coins id env s s1 h1 hnr
    have c2 : CoinsSameAt id s s2 := by
      split at h2
      · exact c1.trans (applyTip909_coins id _ _ h2)
      · cases h2; exact c1
    split at h
    · cases h; exact c2.1
    · next act =>
      obtain ⟨s3, h3, h⟩ := Outcome.bind_eq_ok h
      cases h
      simp only
      unfold applyProposerAction collectProposerFee at h3
      simp only at h3
      split at h3
      · cases h3
      · cases h3
        simp only
        rw [CoinMap.getCoin_insertCoin_ne]
        · exact c2.1
        · intro e
          apply hrw
          rw [e, c2.2.2]

/-! ### pool arithmetic -/

theorem satAdd128_of_le {a b : Nat} (h : a + b ≤ U128_MAX) : satAdd128 a b = a + b := by
  unfold satAdd128; omega

/-- `a ≤ A` ⇒ the constant-product share (less fee) of `B` is at most `B` -/
theorem share_le {a A B : Nat} (ha : a ≤ A) : a * B * 995 / (A * 1000) ≤ B := by
  apply Nat.div_le_of_le_mul
  have h1 : a * B ≤ A * B := Nat.mul_le_mul_right B ha
  have e : A * 1000 * B = A * B * 1000 := by ac_rfl
  rw [e]; omega

theorem share_lt {a A B : Nat} (ha : a ≤ A) (hA : 0 < A) (hB : 0 < B) : a * B * 995 / (A * 1000) < B := by
  have hpos : 0 < A * 1000 := by omega
  rw [Nat.div_lt_iff_lt_mul hpos]
  have h1 : a * B ≤ A * B := Nat.mul_le_mul_right B ha
  have h2 : 0 < A * B := Nat.mul_pos hA hB
  have e : B * (A * 1000) = A * B * 1000 := by ac_rfl
  rw [e]; omega

/-- everything `swap_many` returning `ok` tells us, when the sums fit a u128 -/
theorem swapMany_ok {p p' : PoolState} {l r lw rw : Nat}
    (hfit : p.lefts + l ≤ U128_MAX ∧ p.rights + r ≤ U128_MAX)
    (h : p.swapMany l r = .ok (p', lw, rw)) :
    0 < p.lefts + l ∧ 0 < p.rights + r ∧
    rw = l * (p.rights + r) * 995 / ((p.lefts + l) * 1000) ∧
    lw = r * (p.lefts + l) * 995 / ((p.rights + r) * 1000) ∧
    p'.lefts = p.lefts + l - lw ∧ p'.rights = p.rights + r - rw ∧ p'.liqs = p.liqs := by
  unfold PoolState.swapMany at h
  simp only [satAdd128_of_le hfit.1, satAdd128_of_le hfit.2] at h
  have hl : l * (p.rights + r) * 995 / ((p.lefts + l) * 1000) ≤ p.rights + r := share_le (by omega)
  have hr : r * (p.lefts + l) * 995 / ((p.rights + r) * 1000) ≤ p.lefts + l := share_le (by omega)
  have el : satU128 (l * (p.rights + r) * 995 / ((p.lefts + l) * 1000))
      = l * (p.rights + r) * 995 / ((p.lefts + l) * 1000) := by unfold satU128; omega
  have er : satU128 (r * (p.lefts + l) * 995 / ((p.rights + r) * 1000))
      = r * (p.lefts + l) * 995 / ((p.rights + r) * 1000) := by unfold satU128; omega
  rw [el, er] at h
  split at h
  · cases h
  · split at h
    · cases h
    · split at h
      · cases h
      · split at h
        · cases h
        · split at h
          · cases h
          · cases h
            refine ⟨by omega, by omega, rfl, rfl, rfl, rfl, rfl⟩

theorem mul_1000_le {x y : Nat} (h : x * 1000 ≤ y * 995) : x ≤ y := by omega

theorem swap_product_aux {pl pr l r L R x y : Nat} (hLd : L = pl + l) (hRd : R = pr + r)
    (hL : 0 < L) (hR : 0 < R) (hx : x * (R * 1000) ≤ r * L * 995) (hy : y * (L * 1000) ≤ l * R * 995) :
    pl * pr ≤ (L - x) * (R - y) := by
  have h1 : x * R ≤ r * L := by
    apply mul_1000_le
    have e1 : x * (R * 1000) = x * R * 1000 := by ac_rfl
    rw [e1] at hx; exact hx
  have h2 : y * L ≤ l * R := by
    apply mul_1000_le
    have e1 : y * (L * 1000) = y * L * 1000 := by ac_rfl
    rw [e1] at hy; exact hy
  have a1 : L * pr ≤ (L - x) * R := by
    rw [Nat.sub_mul]
    have : L * R = L * pr + r * L := by rw [hRd, Nat.mul_add, Nat.mul_comm L r]
    omega
  have a2 : R * pl ≤ (R - y) * L := by
    rw [Nat.sub_mul]
    have : R * L = R * pl + l * R := by rw [hLd, Nat.mul_add, Nat.mul_comm R l]
    omega
  have a3 := Nat.mul_le_mul a1 a2
  have e1 : L * pr * (R * pl) = pl * pr * (L * R) := by ac_rfl
  have e2 : (L - x) * R * ((R - y) * L) = (L - x) * (R - y) * (L * R) := by ac_rfl
  rw [e1, e2] at a3
  exact Nat.le_of_mul_le_mul_right a3 (Nat.mul_pos hL hR)

theorem swap_product {pl pr l r : Nat} (hL : 0 < pl + l) (hR : 0 < pr + r) :
    pl * pr ≤ (pl + l - r * (pl + l) * 995 / ((pr + r) * 1000)) *
              (pr + r - l * (pr + r) * 995 / ((pl + l) * 1000)) :=
  swap_product_aux rfl rfl hL hR (Nat.div_mul_le_self _ _) (Nat.div_mul_le_self _ _)

theorem pro_rata_aux (T S : Nat) : ∀ vs : List Nat, (vs.map fun v => T * v / S).sum * S ≤ T * vs.sum := by
  intro vs
  induction vs with
  | nil => simp
  | cons v rest ih =>
    simp only [List.map_cons, List.sum_cons, Nat.add_mul, Nat.mul_add]
    have := Nat.div_mul_le_self (T * v) S
    omega

end Mel
