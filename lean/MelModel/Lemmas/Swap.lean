/- helper lemmas for C15 / C16 (pool arithmetic; may import single Mathlib tactic modules) -/
import MelModel.Seal
import MelModel.Lemmas.Counts
import MelModel.Lemmas.FeeMult
namespace Mel
end Mel
