/- helper lemmas for C01 (sealing part) -/
import MelModel.Seal
import MelModel.Lemmas.Swap
import MelModel.SupplyDefs
namespace Mel
end Mel
