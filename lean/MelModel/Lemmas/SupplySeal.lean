/- helper lemmas for C01 (sealing part) -/
import MelModel.Seal
import MelModel.Lemmas.Swap
import MelModel.SupplyDefs
namespace Mel
open Mel.Gen
-- lemmas whose names also occur in other lemma files (Supply, Restart, TotalSeal) live in `Mel.SupplySealL`
namespace SupplySealL end SupplySealL
open SupplySealL

/-! ### sums over association lists -/

namespace AList
variable {κ ν : Type} [DecidableEq κ]

/-- what the entry at `k` (if any) contributes to a sum -/
def at? (m : AList κ ν) (f : κ × ν → Nat) (k : κ) : Nat :=
  match get m k with
  | some v => f (k, v)
  | none => 0

theorem at?_some {m : AList κ ν} {f : κ × ν → Nat} {k : κ} {v : ν} (h : get m k = some v) :
    at? m f k = f (k, v) := by simp [at?, h]

theorem at?_none {m : AList κ ν} {f : κ × ν → Nat} {k : κ} (h : get m k = none) :
    at? m f k = 0 := by simp [at?, h]

theorem sum_map_del (f : κ × ν → Nat) {m : AList κ ν} (hn : (keys m).Nodup) (k : κ) :
    ((del m k).map f).sum + at? m f k = (m.map f).sum := by
  induction m with
  | nil => simp [del, at?, get]
  | cons e rest ih =>
    obtain ⟨k', v⟩ := e
    simp only [keys, List.map_cons, List.nodup_cons] at hn
    rw [del_cons]
    by_cases hk : k' = k
    · subst hk
      have hnone : get rest k' = none := (get_eq_none_iff_not_mem_keys _ _).mpr hn.1
      simp only [if_true, del_eq_self_of_get_none hnone, List.map_cons, List.sum_cons]
      rw [at?_some (v := v) (by simp [get_cons])]
      omega
    · have := ih hn.2
      simp only [hk, if_false, List.map_cons, List.sum_cons]
      have e : at? ((k', v) :: rest) f k = at? rest f k := by simp [at?, get_cons, hk]
      rw [e]; omega

theorem sum_map_set (f : κ × ν → Nat) {m : AList κ ν} (hn : (keys m).Nodup) (k : κ) (v : ν) :
    ((set m k v).map f).sum + at? m f k = (m.map f).sum + f (k, v) := by
  have := sum_map_del f hn k
  simp only [set, List.map_cons, List.sum_cons]
  omega

end AList

/-! ### coin totals -/

/-- what one coin contributes to the total of `d` -/
def cw (d : Denom) (c : CoinDataHeight) : Nat := if c.coinData.denom = d then c.coinData.value else 0

def CoinMap.Nodup (m : CoinMap) : Prop := (m.coins.map (·.1)).Nodup

theorem SupplySealL.coinsTotal_eq (m : CoinMap) (d : Denom) :
    coinsTotal m d = (m.coins.map fun e => cw d e.2).sum := by
  unfold coinsTotal
  induction m.coins with
  | nil => rfl
  | cons e rest ih =>
    simp only [List.filter_cons, List.map_cons, List.sum_cons, cw]
    by_cases h : e.2.coinData.denom = d
    · simp [h]; exact ih
    · simp [h]; exact ih

/-- contribution of the coin at `id` -/
def cwAt (m : CoinMap) (d : Denom) (id : CoinID) : Nat :=
  match m.getCoin id with
  | some c => cw d c
  | none => 0

theorem cwAt_eq (m : CoinMap) (d : Denom) (id : CoinID) :
    cwAt m d id = AList.at? m.coins (fun e => cw d e.2) id := by
  unfold cwAt AList.at? CoinMap.getCoin
  cases AList.get m.coins id <;> rfl

theorem cwAt_some {m : CoinMap} {d : Denom} {id : CoinID} {c : CoinDataHeight} (h : m.getCoin id = some c) :
    cwAt m d id = cw d c := by simp [cwAt, h]

theorem cwAt_none {m : CoinMap} {d : Denom} {id : CoinID} (h : m.getCoin id = none) :
    cwAt m d id = 0 := by simp [cwAt, h]

theorem CoinMap.insertCoin_coins (m : CoinMap) (id : CoinID) (c : CoinDataHeight) (t : Bool) :
    (m.insertCoin id c t).coins = m.coins.set id c := by
  unfold CoinMap.insertCoin
  simp only
  split <;> rfl

theorem CoinMap.removeCoin_coins {m m' : CoinMap} {id : CoinID} {t : Bool} (h : m.removeCoin id t = .ok m') :
    m'.coins = m.coins.del id := by
  unfold CoinMap.removeCoin at h
  split at h
  · split at h
    · simp only at h
      split at h
      · cases h
      · cases h
        unfold CoinMap.insertCoinCount
        split <;> rfl
    · cases h; rfl
  · cases h; rfl

theorem SupplySealL.CoinMap.getCoin_insertCoin_self (m : CoinMap) (id : CoinID) (c : CoinDataHeight) (t : Bool) :
    (m.insertCoin id c t).getCoin id = some c := by
  unfold CoinMap.getCoin
  rw [CoinMap.insertCoin_coins]; exact AList.get_set_self _ _ _

theorem CoinMap.Nodup_insertCoin {m : CoinMap} (hn : m.Nodup) (id : CoinID) (c : CoinDataHeight) (t : Bool) :
    (m.insertCoin id c t).Nodup := by
  unfold CoinMap.Nodup
  rw [CoinMap.insertCoin_coins]; exact AList.keys_nodup_set _ _ hn

theorem CoinMap.Nodup_removeCoin {m m' : CoinMap} {id : CoinID} {t : Bool} (hn : m.Nodup)
    (h : m.removeCoin id t = .ok m') : m'.Nodup := by
  unfold CoinMap.Nodup
  rw [CoinMap.removeCoin_coins h]; exact AList.keys_nodup_del _ hn

/-- inserting (or overwriting) a coin: the old coin's contribution goes, the new one's comes -/
theorem coinsTotal_insertCoin {m : CoinMap} (hn : m.Nodup) (d : Denom) (id : CoinID) (c : CoinDataHeight)
    (t : Bool) : coinsTotal (m.insertCoin id c t) d + cwAt m d id = coinsTotal m d + cw d c := by
  rw [coinsTotal_eq, coinsTotal_eq, CoinMap.insertCoin_coins, cwAt_eq]
  exact AList.sum_map_set (fun e => cw d e.2) hn id c

theorem coinsTotal_removeCoin {m m' : CoinMap} (hn : m.Nodup) (d : Denom) {id : CoinID} {t : Bool}
    (h : m.removeCoin id t = .ok m') : coinsTotal m' d + cwAt m d id = coinsTotal m d := by
  rw [coinsTotal_eq, coinsTotal_eq, CoinMap.removeCoin_coins h, cwAt_eq]
  exact AList.sum_map_del (fun e => cw d e.2) hn id

/-! ### pool totals -/

/-- what one pool contributes to the reserves of `d` -/
def pc (d : Denom) (e : PoolKey × PoolState) : Nat :=
  (if e.1.left = d then e.2.lefts else 0) + (if e.1.right = d then e.2.rights else 0)

theorem poolsTotal_eq (pools : AList PoolKey PoolState) (d : Denom) :
    poolsTotal pools d = (pools.map (pc d)).sum := rfl

theorem poolsTotal_set {pools : AList PoolKey PoolState} (hn : (pools.map (·.1)).Nodup) (d : Denom)
    (k : PoolKey) (p : PoolState) :
    poolsTotal (pools.set k p) d + AList.at? pools (pc d) k = poolsTotal pools d + pc d (k, p) := by
  rw [poolsTotal_eq, poolsTotal_eq]
  exact AList.sum_map_set (pc d) hn k p

theorem pools_nodup_set {pools : AList PoolKey PoolState} (hn : (pools.map (·.1)).Nodup)
    (k : PoolKey) (p : PoolState) : ((pools.set k p).map (·.1)).Nodup :=
  AList.keys_nodup_set k p hn


/-! ### pool arithmetic without the no-saturation assumption -/

/-- whatever `swap_many` does, nothing is created: reserves + withdrawn ≤ reserves + paid in -/
theorem swapMany_le {p p' : PoolState} {l r lw rw : Nat} (h : p.swapMany l r = .ok (p', lw, rw)) :
    p'.lefts + lw ≤ p.lefts + l ∧ p'.rights + rw ≤ p.rights + r := by
  unfold PoolState.swapMany at h
  simp only at h
  split at h
  · cases h
  · split at h
    · cases h
    · split at h
      · cases h
      · split at h
        · cases h
        · split at h
          · cases h
          · cases h
            simp only
            unfold satAdd128 at *
            omega

/-- the three builtin pool keys, spelled out -/
theorem poolMelSym_eq : poolMelSym = { left := .mel, right := .sym } := by decide
theorem poolMelErg_eq : poolMelErg = { left := .erg, right := .mel } := by decide
theorem poolErgSym_eq : poolErgSym = { left := .erg, right := .sym } := by decide


theorem pc_le (d : Denom) (k : PoolKey) (p : PoolState) : pc d (k, p) ≤ p.lefts + p.rights := by
  simp only [pc]
  split <;> split <;> omega

/-- conditionally creating (or replacing) a pool adds at most the two sides of the new pool: whatever the
    replaced pool held only disappears -/
theorem poolsTotal_setIf (pools : AList PoolKey PoolState) (c : Bool) (k : PoolKey) (p : PoolState) (d : Denom)
    (hn : (pools.map (·.1)).Nodup) :
    ((if c then pools.set k p else pools).map (·.1)).Nodup ∧
    poolsTotal (if c then pools.set k p else pools) d ≤ poolsTotal pools d + (p.lefts + p.rights) := by
  cases c with
  | false => exact ⟨hn, by simp⟩
  | true =>
    simp only [if_true]
    refine ⟨pools_nodup_set hn k p, ?_⟩
    have h1 := poolsTotal_set hn d k p
    have := pc_le d k p
    omega


/-! ### the pool-key order is a strict total order, so `sortDedup` has no duplicates -/

theorem SupplySealL.bytesLt_irrefl (a : List UInt8) : bytesLt a a = false := by
  cases h : bytesLt a a with
  | false => rfl
  | true => have := bytesLt_asymm a a h; rw [h] at this; cases this

theorem SupplySealL.bytesLt_trans : ∀ (a b c : List UInt8), bytesLt a b = true → bytesLt b c = true → bytesLt a c = true := by
  intro a
  induction a with
  | nil =>
    intro b c h1 h2
    cases b with
    | nil => simp [bytesLt] at h1
    | cons y ys => cases c with
      | nil => simp [bytesLt] at h2
      | cons z zs => simp [bytesLt]
  | cons x xs ih =>
    intro b c h1 h2
    cases b with
    | nil => simp [bytesLt] at h1
    | cons y ys =>
      cases c with
      | nil => simp [bytesLt] at h2
      | cons z zs =>
        simp only [bytesLt] at h1 h2 ⊢
        by_cases hxy : x < y
        · by_cases hyz : y < z
          · simp [UInt8.lt_trans hxy hyz]
          · by_cases hzy : z < y
            · simp [hyz, hzy] at h2
            · have : y = z := UInt8.le_antisymm (UInt8.not_lt.mp hzy) (UInt8.not_lt.mp hyz)
              subst this; simp [hxy]
        · by_cases hyx : y < x
          · simp [hxy, hyx] at h1
          · have : x = y := UInt8.le_antisymm (UInt8.not_lt.mp hyx) (UInt8.not_lt.mp hxy)
            subst this
            simp only [hxy, if_false] at h1
            by_cases hxz : x < z
            · simp [hxz]
            · by_cases hzx : z < x
              · simp [hxz, hzx] at h2
              · simp only [hxz, hzx, if_false] at h2 ⊢
                exact ih ys zs h1 h2

theorem SupplySealL.bytesLt_total : ∀ (a b : List UInt8), a ≠ b → bytesLt a b = false → bytesLt b a = true := by
  intro a
  induction a with
  | nil =>
    intro b hne h
    cases b with
    | nil => exact absurd rfl hne
    | cons y ys => simp [bytesLt] at h
  | cons x xs ih =>
    intro b hne h
    cases b with
    | nil => simp [bytesLt]
    | cons y ys =>
      simp only [bytesLt] at h ⊢
      by_cases hxy : x < y
      · simp [hxy] at h
      · by_cases hyx : y < x
        · simp [hyx]
        · have : x = y := UInt8.le_antisymm (UInt8.not_lt.mp hyx) (UInt8.not_lt.mp hxy)
          subst this
          simp only [hxy, if_false] at h ⊢
          exact ih ys (fun e => hne (by rw [e])) h

theorem SupplySealL.Denom.lt_irrefl (a : Denom) : a.lt a = false := by
  cases a <;> simp [Denom.lt, Denom.rank, bytesLt_irrefl]

theorem SupplySealL.Denom.lt_trans (a b c : Denom) (h1 : a.lt b = true) (h2 : b.lt c = true) : a.lt c = true := by
  cases a <;> cases b <;> cases c <;> simp_all [Denom.lt, Denom.rank]
  exact bytesLt_trans _ _ _ h1 h2

theorem SupplySealL.Denom.lt_total (a b : Denom) (hne : a ≠ b) (h : a.lt b = false) : b.lt a = true := by
  cases a <;> cases b <;> simp_all [Denom.lt, Denom.rank]
  exact bytesLt_total _ _ hne h

theorem SupplySealL.PoolKey.lt_irrefl (a : PoolKey) : a.lt a = false := by
  simp [PoolKey.lt, Denom.lt_irrefl]

theorem SupplySealL.PoolKey.lt_trans (a b c : PoolKey) (h1 : a.lt b = true) (h2 : b.lt c = true) : a.lt c = true := by
  unfold PoolKey.lt at *
  by_cases e1 : a.left = b.left
  · by_cases e2 : b.left = c.left
    · simp only [e1, e2, if_true] at h1 h2 ⊢
      exact Denom.lt_trans _ _ _ h1 h2
    · simp only [e1, e2, if_true, if_false] at h1 h2 ⊢
      exact h2
  · by_cases e2 : b.left = c.left
    · simp only [e1, ← e2, if_true, if_false] at h1 h2 ⊢
      exact h1
    · simp only [e1, e2, if_false] at h1 h2
      have := Denom.lt_trans _ _ _ h1 h2
      by_cases e3 : a.left = c.left
      · rw [e3] at h1
        have := Denom.lt_trans _ _ _ h1 h2
        rw [Denom.lt_irrefl] at this; cases this
      · simp only [e3, if_false]; exact this

theorem SupplySealL.PoolKey.lt_total (a b : PoolKey) (hne : a ≠ b) (h : a.lt b = false) : b.lt a = true := by
  unfold PoolKey.lt at *
  by_cases e1 : a.left = b.left
  · simp only [e1, if_true] at h ⊢
    refine Denom.lt_total _ _ ?_ h
    intro e2; apply hne
    cases a; cases b; simp_all
  · have e1' : ¬ b.left = a.left := fun e => e1 e.symm
    simp only [e1, e1', if_false] at h ⊢
    exact Denom.lt_total _ _ e1 h

section sortDedup
variable {α : Type} [DecidableEq α] (lt : α → α → Bool)

theorem SupplySealL.mem_insertSorted {x z : α} : ∀ {l : List α}, z ∈ insertSorted lt x l → z = x ∨ z ∈ l := by
  intro l
  induction l with
  | nil => intro h; simp [insertSorted] at h; exact Or.inl h
  | cons y ys ih =>
    intro h
    simp only [insertSorted] at h
    split at h
    · exact Or.inr h
    · split at h
      · rcases List.mem_cons.mp h with h | h
        · exact Or.inl h
        · exact Or.inr h
      · rcases List.mem_cons.mp h with h | h
        · exact Or.inr (h ▸ List.mem_cons_self)
        · rcases ih h with h | h
          · exact Or.inl h
          · exact Or.inr (List.mem_cons_of_mem _ h)

theorem insertSorted_pairwise (htr : ∀ a b c, lt a b = true → lt b c = true → lt a c = true)
    (htot : ∀ a b, a ≠ b → lt a b = false → lt b a = true) (x : α) :
    ∀ l : List α, l.Pairwise (fun a b => lt a b = true) → (insertSorted lt x l).Pairwise (fun a b => lt a b = true) := by
  intro l
  induction l with
  | nil => intro _; simp [insertSorted]
  | cons y ys ih =>
    intro hp
    have hp' := List.pairwise_cons.mp hp
    simp only [insertSorted]
    split
    · exact hp
    · next hxy =>
      split
      · next hlt =>
        refine List.pairwise_cons.mpr ⟨?_, hp⟩
        intro z hz
        rcases List.mem_cons.mp hz with hz | hz
        · rw [hz]; exact hlt
        · exact htr _ _ _ hlt (hp'.1 z hz)
      · next hlt =>
        refine List.pairwise_cons.mpr ⟨?_, ih hp'.2⟩
        intro z hz
        rcases mem_insertSorted lt hz with hz | hz
        · rw [hz]; exact htot _ _ hxy (by simpa using hlt)
        · exact hp'.1 z hz

theorem sortDedup_nodup (hirr : ∀ a, lt a a = false)
    (htr : ∀ a b c, lt a b = true → lt b c = true → lt a c = true)
    (htot : ∀ a b, a ≠ b → lt a b = false → lt b a = true) (l : List α) : (sortDedup lt l).Nodup := by
  have key : ∀ (l acc : List α), acc.Pairwise (fun a b => lt a b = true) →
      (l.foldl (fun acc x => insertSorted lt x acc) acc).Pairwise (fun a b => lt a b = true) := by
    intro l
    induction l with
    | nil => intro acc h; exact h
    | cons x xs ih => intro acc h; exact ih _ (insertSorted_pairwise lt htr htot x acc h)
  have := key l [] List.Pairwise.nil
  unfold sortDedup
  refine List.Pairwise.imp ?_ this
  intro a b hab e
  rw [e, hirr] at hab; cases hab

end sortDedup

theorem SupplySealL.extractPoolKeysSorted_nodup (txs : List Tx) : (extractPoolKeysSorted txs).Nodup :=
  sortDedup_nodup _ PoolKey.lt_irrefl PoolKey.lt_trans PoolKey.lt_total _


/-! ### saturating sums -/

theorem satSum_le (l : List Nat) : satSum l ≤ l.sum := by
  have key : ∀ (l : List Nat) (acc : Nat), l.foldl satAdd128 acc ≤ acc + l.sum := by
    intro l
    induction l with
    | nil => intro acc; simp
    | cons x xs ih =>
      intro acc
      simp only [List.foldl_cons, List.sum_cons]
      have := ih (satAdd128 acc x)
      have : satAdd128 acc x ≤ acc + x := by unfold satAdd128; omega
      omega
  have := key l 0
  unfold satSum; omega

theorem satSum_eq {l : List Nat} (h : l.sum ≤ U128_MAX) : satSum l = l.sum := by
  have key : ∀ (l : List Nat) (acc : Nat), acc + l.sum ≤ U128_MAX → l.foldl satAdd128 acc = acc + l.sum := by
    intro l
    induction l with
    | nil => intro acc _; simp
    | cons x xs ih =>
      intro acc hb
      simp only [List.foldl_cons, List.sum_cons] at hb ⊢
      have e : satAdd128 acc x = acc + x := satAdd128_of_le (by omega)
      rw [e, ih (acc + x) (by omega)]; omega
  have := key l 0 (by omega)
  unfold satSum; omega

/-! ### list sums -/

theorem sum_ite_add {α} (P Q : Prop) [Decidable P] [Decidable Q] (f g : α → Nat) (l : List α) :
    (l.map fun x => (if P then f x else 0) + (if Q then g x else 0)).sum
      = (if P then (l.map f).sum else 0) + (if Q then (l.map g).sum else 0) := by
  induction l with
  | nil => simp
  | cons x xs ih =>
    simp only [List.map_cons, List.sum_cons, ih]
    by_cases hP : P <;> by_cases hQ : Q <;> simp [hP, hQ] <;> omega

theorem sum_map_zero {α} (l : List α) : (l.map fun _ => (0 : Nat)).sum = 0 := by
  induction l with
  | nil => rfl
  | cons x xs ih => simpa using ih

/-- pro-rata shares of `T` never add up to more than `T` -/
theorem pro_rata_le (T : Nat) (vs : List Nat) : (vs.map fun v => T * v / vs.sum).sum ≤ T := by
  by_cases h0 : vs.sum = 0
  · rw [h0]; simp only [Nat.div_zero, sum_map_zero]; omega
  · have h := pro_rata_aux T vs.sum vs
    have hpos : 0 < vs.sum := by omega
    rw [Nat.mul_comm T vs.sum, Nat.mul_comm _ vs.sum] at h
    exact Nat.le_of_mul_le_mul_left h hpos

theorem eq_of_nodup_map {α β} (f : α → β) : ∀ {l : List α}, (l.map f).Nodup → ∀ {a b}, a ∈ l → b ∈ l →
    f a = f b → a = b := by
  intro l
  induction l with
  | nil => intro _ a b ha; cases ha
  | cons x xs ih =>
    intro hn a b ha hb e
    simp only [List.map_cons, List.nodup_cons, List.mem_map, not_exists, not_and] at hn
    rcases List.mem_cons.mp ha with ha1 | ha1 <;> rcases List.mem_cons.mp hb with hb1 | hb1
    · rw [ha1, hb1]
    · rw [ha1] at e; exact absurd e.symm (hn.1 b hb1)
    · rw [hb1] at e; exact absurd e (hn.1 a ha1)
    · exact ih hn.2 ha1 hb1 e

/-! ### distinct coins weigh no more than the total -/

theorem sum_at_le {κ ν : Type} [DecidableEq κ] (f : κ × ν → Nat) :
    ∀ (ids : List κ) (m : AList κ ν), (AList.keys m).Nodup → ids.Nodup →
      (ids.map fun id => AList.at? m f id).sum ≤ (m.map f).sum := by
  intro ids
  induction ids with
  | nil => intro m _ _; simp
  | cons id rest ih =>
    intro m hn hids
    simp only [List.nodup_cons] at hids
    have h1 := AList.sum_map_del f hn id
    have h2 := ih (AList.del m id) (AList.keys_nodup_del id hn) hids.2
    have e : (rest.map fun id' => AList.at? (AList.del m id) f id') = rest.map fun id' => AList.at? m f id' := by
      apply List.map_congr_left
      intro id' hid'
      have hne : id' ≠ id := fun e => hids.1 (e ▸ hid')
      simp only [AList.at?, AList.get_del_ne m hne]
    rw [e] at h2
    simp only [List.map_cons, List.sum_cons]
    omega

theorem sum_cwAt_le (m : CoinMap) (d : Denom) (hn : m.Nodup) (ids : List CoinID) (hids : ids.Nodup) :
    (ids.map fun id => cwAt m d id).sum ≤ coinsTotal m d := by
  rw [coinsTotal_eq]
  have := sum_at_le (fun e : CoinID × CoinDataHeight => cw d e.2) ids m.coins hn hids
  simpa [cwAt_eq] using this

/-! ### folding a per-transaction coin rewrite over transactions with distinct hashes -/

theorem coinFold (f : CoinMap → Tx → Outcome CoinMap) (d : Denom) (dec inc : Tx → Nat) (c0 : CoinMap) :
    ∀ (l : List Tx),
      (∀ c tx c', tx ∈ l → c.Nodup → (∀ i, c.getCoin ⟨tx.hash, i⟩ = c0.getCoin ⟨tx.hash, i⟩) → f c tx = .ok c' →
        c'.Nodup ∧ coinsTotal c' d + dec tx ≤ coinsTotal c d + inc tx ∧
        (∀ id : CoinID, id.txhash ≠ tx.hash → c'.getCoin id = c.getCoin id)) →
      (l.map (·.hash)).Nodup →
      ∀ c c', c.Nodup → (∀ tx ∈ l, ∀ i, c.getCoin ⟨tx.hash, i⟩ = c0.getCoin ⟨tx.hash, i⟩) →
        Outcome.foldlM' f c l = .ok c' →
        c'.Nodup ∧ coinsTotal c' d + (l.map dec).sum ≤ coinsTotal c d + (l.map inc).sum := by
  intro l
  induction l with
  | nil =>
    intro _ _ c c' hn _ h
    simp only [Outcome.foldlM'] at h
    cases h
    exact ⟨hn, by simp⟩
  | cons tx rest ih =>
    intro hstep hh c c' hn hsame h
    simp only [Outcome.foldlM'] at h
    simp only [List.map_cons, List.nodup_cons, List.mem_map, not_exists, not_and] at hh
    split at h
    · next c1 hc1 =>
      obtain ⟨n1, t1, u1⟩ := hstep c tx c1 List.mem_cons_self hn (hsame tx List.mem_cons_self) hc1
      have := ih (fun c tx' c' htx' => hstep c tx' c' (List.mem_cons_of_mem _ htx')) hh.2 c1 c' n1
        (by
          intro tx' htx' i
          rw [u1 _ (by intro e; exact hh.1 tx' htx' e)]
          exact hsame tx' (List.mem_cons_of_mem _ htx') i) h
      refine ⟨this.1, ?_⟩
      simp only [List.map_cons, List.sum_cons]
      omega
    · cases h
    · cases h


/-! ### per-pool settlement steps -/

/-- what a settlement step keeps: unique keys afterwards, same block data, fee pool and tips -/
structure Good (s0 st : State) : Prop where
  coinKeys : st.coins.Nodup
  poolKeys : (st.pools.map (·.1)).Nodup
  txs : st.txs = s0.txs
  height : st.height = s0.height
  network : st.network = s0.network
  feePool : st.feePool = s0.feePool
  tips : st.tips = s0.tips

theorem Good.trans {a b c : State} (h1 : Good a b) (h2 : Good b c) : Good a c :=
  ⟨h2.coinKeys, h2.poolKeys, h2.txs.trans h1.txs, h2.height.trans h1.height, h2.network.trans h1.network,
   h2.feePool.trans h1.feePool, h2.tips.trans h1.tips⟩

/-- coins + pool reserves of a denomination -/
def cp (s : State) (d : Denom) : Nat := coinsTotal s.coins d + poolsTotal s.pools d

theorem outCoinID_eq (tx : Tx) (i : Nat) : outCoinID tx i = ⟨tx.hash, i⟩ := rfl

theorem multiplyFrac_le {x n d v : Nat} (h : multiplyFrac x n d = .ok v) : v ≤ x * n / d := by
  unfold multiplyFrac at h
  split at h
  · cases h
  · cases h; unfold satU128; omega

theorem ne_of_txhash_ne {id : CoinID} {h : Hash} (i : Nat) (hne : id.txhash ≠ h) : id ≠ ⟨h, i⟩ := by
  intro e; apply hne; rw [e]

theorem swapStep (k : PoolKey) (st st' : State) (reqs : List Tx) (d : Denom)
    (h : processSwapsForPool k st reqs = .ok st')
    (hlr : k.left ≠ k.right) (hc : st.coins.Nodup) (hp : (st.pools.map (·.1)).Nodup)
    (hh : (reqs.map (·.hash)).Nodup)
    (hreq : ∀ tx ∈ reqs, ∃ c, st.coins.getCoin ⟨tx.hash, 0⟩ = some c ∧
      c.coinData.value = (tx.outputs.headD default).value ∧
      c.coinData.denom = (tx.outputs.headD default).denom ∧
      ((tx.outputs.headD default).denom = k.left ∨ (tx.outputs.headD default).denom = k.right))
    (hbL : (reqs.map fun tx => if (tx.outputs.headD default).denom = k.left
              then (tx.outputs.headD default).value else 0).sum ≤ U128_MAX)
    (hbR : (reqs.map fun tx => if (tx.outputs.headD default).denom = k.right
              then (tx.outputs.headD default).value else 0).sum ≤ U128_MAX) :
    Good st st' ∧ cp st' d ≤ cp st d := by
  unfold processSwapsForPool at h
  split at h
  · cases h
  · next pool hpool =>
    simp only at h
    rw [satSum_eq hbL, satSum_eq hbR] at h
    generalize hlv : (fun tx : Tx => if (tx.outputs.headD default).denom = k.left
              then (tx.outputs.headD default).value else 0) = lv at *
    generalize hrv : (fun tx : Tx => if (tx.outputs.headD default).denom = k.right
              then (tx.outputs.headD default).value else 0) = rv at *
    split at h
    · cases h
    · cases h
    · next pool' lw rw hsw =>
      obtain ⟨coins, hfold, h2⟩ := Outcome.bind_eq_ok h
      cases h2
      have hsm := swapMany_le hsw
      have hfold' := coinFold _ d
        (fun tx => (if k.left = d then lv tx else 0) + (if k.right = d then rv tx else 0))
        (fun tx => (if k.right = d then rw * lv tx / (reqs.map lv).sum else 0) +
                   (if k.left = d then lw * rv tx / (reqs.map rv).sum else 0))
        st.coins reqs ?_ hh st.coins coins hc (fun _ _ _ => rfl) hfold
      · obtain ⟨hn', htot⟩ := hfold'
        refine ⟨⟨hn', pools_nodup_set hp _ _, rfl, rfl, rfl, rfl, rfl⟩, ?_⟩
        rw [sum_ite_add, sum_ite_add] at htot
        have pL := pro_rata_le lw (reqs.map rv)
        have pR := pro_rata_le rw (reqs.map lv)
        rw [List.map_map] at pL pR
        have ePL : ((fun v => lw * v / (reqs.map rv).sum) ∘ rv) = fun tx => lw * rv tx / (reqs.map rv).sum := rfl
        have ePR : ((fun v => rw * v / (reqs.map lv).sum) ∘ lv) = fun tx => rw * lv tx / (reqs.map lv).sum := rfl
        rw [ePL] at pL; rw [ePR] at pR
        have hpt := poolsTotal_set hp d k pool'
        rw [AList.at?_some hpool] at hpt
        simp only [pc] at hpt
        unfold cp
        simp only
        generalize (reqs.map fun tx => lw * rv tx / (reqs.map rv).sum).sum = A at *
        generalize (reqs.map fun tx => rw * lv tx / (reqs.map lv).sum).sum = B at *
        generalize (reqs.map lv).sum = TL at *
        generalize (reqs.map rv).sum = TR at *
        by_cases e1 : k.left = d
        · have e2 : ¬ k.right = d := fun e => hlr (e1.trans e.symm)
          simp only [e1, e2, if_true, if_false] at htot hpt
          omega
        · by_cases e2 : k.right = d
          · simp only [e1, e2, if_true, if_false] at htot hpt
            omega
          · simp only [e1, e2, if_false] at htot hpt
            omega
      · intro c tx c' htx hn hsame hf
        obtain ⟨cd, hcd, hf⟩ := Outcome.bind_eq_ok hf
        cases hf
        simp only [outCoinID_eq]
        refine ⟨CoinMap.Nodup_insertCoin hn _ _ _, ?_, ?_⟩
        · have ht := coinsTotal_insertCoin hn d (outCoinID tx 0) { coinData := cd, height := st.height } st.tip906
          obtain ⟨c0, hc0, hv, hdn, hside⟩ := hreq tx htx
          rw [outCoinID_eq, cwAt_some ((hsame 0).trans hc0)] at ht
          simp only [cw, hv, hdn] at ht
          have elv : lv tx = if (tx.outputs.headD default).denom = k.left
              then (tx.outputs.headD default).value else 0 := by rw [← hlv]
          have erv : rv tx = if (tx.outputs.headD default).denom = k.right
              then (tx.outputs.headD default).value else 0 := by rw [← hrv]
          generalize tx.outputs.headD default = o at *
          split at hcd
          · next hl =>
            obtain ⟨v, hv', hcd⟩ := Outcome.bind_eq_ok hcd
            cases hcd
            have hle := multiplyFrac_le hv'
            have hr : ¬ o.denom = k.right := fun e => hlr (hl.symm.trans e)
            rw [if_pos hl] at elv; rw [if_neg hr] at erv
            rw [elv, erv]
            rw [hl] at ht
            simp only [Nat.mul_zero, Nat.zero_div]
            simp only at ht
            by_cases e1 : k.left = d
            · have e2 : ¬ k.right = d := fun e => hlr (e1.trans e.symm)
              simp only [e1, e2, if_true, if_false] at ht ⊢
              omega
            · by_cases e2 : k.right = d
              · simp only [e1, e2, if_true, if_false] at ht ⊢
                omega
              · simp only [e1, e2, if_false] at ht ⊢
                omega
          · next hl =>
            obtain ⟨v, hv', hcd⟩ := Outcome.bind_eq_ok hcd
            cases hcd
            have hle := multiplyFrac_le hv'
            have hr : o.denom = k.right := by
              rcases hside with h | h
              · exact absurd h hl
              · exact h
            rw [if_neg hl] at elv; rw [if_pos hr] at erv
            rw [elv, erv]
            rw [hr] at ht
            simp only [Nat.mul_zero, Nat.zero_div]
            simp only at ht
            by_cases e1 : k.left = d
            · have e2 : ¬ k.right = d := fun e => hlr (e1.trans e.symm)
              simp only [e1, e2, if_true, if_false] at ht ⊢
              omega
            · by_cases e2 : k.right = d
              · simp only [e1, e2, if_true, if_false] at ht ⊢
                omega
              · simp only [e1, e2, if_false] at ht ⊢
                omega
        · intro id hid
          exact CoinMap.getCoin_insertCoin_ne _ _ _ (ne_of_txhash_ne 0 hid)


theorem Good.refl {st : State} (hc : st.coins.Nodup) (hp : (st.pools.map (·.1)).Nodup) : Good st st :=
  ⟨hc, hp, rfl, rfl, rfl, rfl, rfl⟩

theorem deposit_le {p p' : PoolState} {l r q : Nat} (h : p.deposit l r = .ok (p', q)) :
    p'.lefts ≤ p.lefts + l ∧ p'.rights ≤ p.rights + r := by
  unfold PoolState.deposit at h
  split at h
  · cases h; simp only; omega
  · simp only at h
    split at h
    · cases h
    · cases h
      simp only
      unfold satAdd128
      omega

theorem withdraw_eq {p p' : PoolState} {q tl tr : Nat} (h : p.withdraw q = .ok (p', tl, tr)) :
    p'.lefts + tl = p.lefts ∧ p'.rights + tr = p.rights := by
  unfold PoolState.withdraw at h
  split at h
  · cases h
  · next hq =>
    split at h
    · cases h
    · simp only at h
      split at h
      · cases h; simp only; omega
      · cases h
        simp only
        have h1 : p.lefts * q / p.liqs ≤ p.lefts := by
          apply Nat.div_le_of_le_mul
          rw [Nat.mul_comm p.liqs]
          exact Nat.mul_le_mul_left _ (by omega)
        have h2 : p.rights * q / p.liqs ≤ p.rights := by
          apply Nat.div_le_of_le_mul
          rw [Nat.mul_comm p.liqs]
          exact Nat.mul_le_mul_left _ (by omega)
        omega

theorem at?_getD_newEmpty (pools : AList PoolKey PoolState) (d : Denom) (k : PoolKey) :
    AList.at? pools (pc d) k = pc d (k, (pools.get k).getD PoolState.newEmpty) := by
  unfold AList.at?
  cases pools.get k with
  | none => simp [pc, PoolState.newEmpty]
  | some p => rfl

theorem depositStep (env : Env) (k : PoolKey) (st st' : State) (reqs : List Tx) (d : Denom)
    (h : processDepositsForPool env k st reqs = .ok st') (hleg : legacyDeposit st = false)
    (hlr : k.left ≠ k.right) (hd : d ≠ liqTokenDenom env k)
    (hc : st.coins.Nodup) (hp : (st.pools.map (·.1)).Nodup) (hh : (reqs.map (·.hash)).Nodup)
    (hreq : ∀ tx ∈ reqs, ∃ c0 c1, st.coins.getCoin ⟨tx.hash, 0⟩ = some c0 ∧
      st.coins.getCoin ⟨tx.hash, 1⟩ = some c1 ∧
      c0.coinData.value = (tx.outputs.headD default).value ∧ c0.coinData.denom = k.left ∧
      c1.coinData.value = ((tx.outputs.drop 1).headD default).value ∧ c1.coinData.denom = k.right) :
    Good st st' ∧ cp st' d ≤ cp st d := by
  unfold processDepositsForPool at h
  simp only [hleg, Bool.false_eq_true, if_false] at h
  split at h
  · cases h
  · cases h
  · next pool' totalLiqs hdep =>
    split at h
    · cases h; exact ⟨Good.refl hc hp, Nat.le_refl _⟩
    · obtain ⟨coins, hfold, h2⟩ := Outcome.bind_eq_ok h
      cases h2
      have hdl := deposit_le hdep
      have hfold' := coinFold _ d
        (fun tx => (if k.left = d then (tx.outputs.headD default).value else 0) +
                   (if k.right = d then ((tx.outputs.drop 1).headD default).value else 0))
        (fun _ => 0) st.coins reqs ?_ hh st.coins coins hc (fun _ _ _ => rfl) hfold
      · obtain ⟨hn', htot⟩ := hfold'
        refine ⟨⟨hn', pools_nodup_set hp _ _, rfl, rfl, rfl, rfl, rfl⟩, ?_⟩
        rw [sum_ite_add, sum_map_zero] at htot
        have hpt := poolsTotal_set hp d k pool'
        rw [at?_getD_newEmpty] at hpt
        simp only [pc] at hpt
        have sL := satSum_le (reqs.map fun tx => (tx.outputs.headD default).value)
        have sR := satSum_le (reqs.map fun tx => ((tx.outputs.drop 1).headD default).value)
        unfold cp
        simp only
        generalize satSum (reqs.map fun tx => (tx.outputs.headD default).value) = TL at *
        generalize satSum (reqs.map fun tx => ((tx.outputs.drop 1).headD default).value) = TR at *
        generalize (reqs.map fun tx => (tx.outputs.headD default).value).sum = SL at *
        generalize (reqs.map fun tx => ((tx.outputs.drop 1).headD default).value).sum = SR at *
        generalize (st.pools.get k).getD PoolState.newEmpty = pool at *
        by_cases e1 : k.left = d
        · have e2 : ¬ k.right = d := fun e => hlr (e1.trans e.symm)
          simp only [e1, e2, if_true, if_false] at htot hpt
          omega
        · by_cases e2 : k.right = d
          · simp only [e1, e2, if_true, if_false] at htot hpt
            omega
          · simp only [e1, e2, if_false] at htot hpt
            omega
      · intro c tx c' htx hn hsame hf
        obtain ⟨v, _, hf⟩ := Outcome.bind_eq_ok hf
        simp only [outCoinID_eq] at hf
        obtain ⟨c0, c1, hc0, hc1, hv0, hd0, hv1, hd1⟩ := hreq tx htx
        have hn1 := CoinMap.Nodup_insertCoin hn ⟨tx.hash, 0⟩
          { coinData := { tx.outputs.headD default with denom := liqTokenDenom env k, value := v },
            height := st.height } st.tip906
        refine ⟨CoinMap.Nodup_removeCoin hn1 hf, ?_, ?_⟩
        · have ht1 := coinsTotal_insertCoin hn d ⟨tx.hash, 0⟩
            { coinData := { tx.outputs.headD default with denom := liqTokenDenom env k, value := v },
              height := st.height } st.tip906
          have ht2 := coinsTotal_removeCoin hn1 d hf
          rw [cwAt_some ((hsame 0).trans hc0)] at ht1
          have e : (c.insertCoin ⟨tx.hash, 0⟩
            { coinData := { tx.outputs.headD default with denom := liqTokenDenom env k, value := v },
              height := st.height } st.tip906).getCoin ⟨tx.hash, 1⟩ = some c1 := by
            rw [CoinMap.getCoin_insertCoin_ne _ _ _ (by intro e; cases e)]
            exact (hsame 1).trans hc1
          rw [cwAt_some e] at ht2
          have hd' : ¬ liqTokenDenom env k = d := fun e => hd e.symm
          simp only [cw, hv0, hd0, hv1, hd1, hd', if_false] at ht1 ht2
          omega
        · intro id hid
          rw [CoinMap.getCoin_removeCoin_ne hf (ne_of_txhash_ne 1 hid),
            CoinMap.getCoin_insertCoin_ne _ _ _ (ne_of_txhash_ne 0 hid)]

theorem withdrawStep (ld : Denom) (k : PoolKey) (st st' : State) (reqs : List Tx) (d : Denom)
    (h : processWithdrawalsForPool k st reqs = .ok st')
    (hlr : k.left ≠ k.right) (hd : d ≠ ld)
    (hc : st.coins.Nodup) (hp : (st.pools.map (·.1)).Nodup) (hh : (reqs.map (·.hash)).Nodup)
    (hreq : ∀ tx ∈ reqs, ∃ c0, st.coins.getCoin ⟨tx.hash, 0⟩ = some c0 ∧ c0.coinData.denom = ld)
    (hb : (reqs.map fun tx => (tx.outputs.headD default).value).sum ≤ U128_MAX) :
    Good st st' ∧ cp st' d ≤ cp st d := by
  unfold processWithdrawalsForPool at h
  simp only at h
  rw [satSum_eq hb] at h
  generalize hmy : (fun tx : Tx => (tx.outputs.headD default).value) = my at *
  split at h
  · cases h
  · next pool hpool =>
    split at h
    · cases h; exact ⟨Good.refl hc hp, Nat.le_refl _⟩
    · split at h
      · cases h
      · cases h
      · next pool' tl tr hw =>
        obtain ⟨coins, hfold, h2⟩ := Outcome.bind_eq_ok h
        cases h2
        have hwe := withdraw_eq hw
        have hfold' := coinFold _ d (fun _ => 0)
          (fun tx => (if k.left = d then tl * my tx / (reqs.map my).sum else 0) +
                     (if k.right = d then tr * my tx / (reqs.map my).sum else 0))
          st.coins reqs ?_ hh st.coins coins hc (fun _ _ _ => rfl) hfold
        · obtain ⟨hn', htot⟩ := hfold'
          refine ⟨⟨hn', pools_nodup_set hp _ _, rfl, rfl, rfl, rfl, rfl⟩, ?_⟩
          rw [sum_ite_add, sum_map_zero] at htot
          have pL := pro_rata_le tl (reqs.map my)
          have pR := pro_rata_le tr (reqs.map my)
          rw [List.map_map] at pL pR
          have ePL : ((fun v => tl * v / (reqs.map my).sum) ∘ my) = fun tx => tl * my tx / (reqs.map my).sum := rfl
          have ePR : ((fun v => tr * v / (reqs.map my).sum) ∘ my) = fun tx => tr * my tx / (reqs.map my).sum := rfl
          rw [ePL] at pL; rw [ePR] at pR
          have hpt := poolsTotal_set hp d k pool'
          rw [AList.at?_some hpool] at hpt
          simp only [pc] at hpt
          unfold cp
          simp only
          generalize (reqs.map fun tx => tl * my tx / (reqs.map my).sum).sum = A at *
          generalize (reqs.map fun tx => tr * my tx / (reqs.map my).sum).sum = B at *
          by_cases e1 : k.left = d
          · have e2 : ¬ k.right = d := fun e => hlr (e1.trans e.symm)
            simp only [e1, e2, if_true, if_false] at htot hpt
            omega
          · by_cases e2 : k.right = d
            · simp only [e1, e2, if_true, if_false] at htot hpt
              omega
            · simp only [e1, e2, if_false] at htot hpt
              omega
        · intro c tx c' htx hn hsame hf
          obtain ⟨vl, hvl, hf⟩ := Outcome.bind_eq_ok hf
          obtain ⟨vr, hvr, hf⟩ := Outcome.bind_eq_ok hf
          cases hf
          simp only [outCoinID_eq]
          obtain ⟨c0, hc0, hd0⟩ := hreq tx htx
          have emy : my tx = (tx.outputs.headD default).value := by rw [← hmy]
          rw [← emy] at hvl hvr
          have hl1 := multiplyFrac_le hvl
          have hl2 := multiplyFrac_le hvr
          have hn1 := CoinMap.Nodup_insertCoin hn ⟨tx.hash, 0⟩
            { coinData := { tx.outputs.headD default with denom := k.left, value := vl },
              height := st.height } st.tip906
          refine ⟨CoinMap.Nodup_insertCoin hn1 _ _ _, ?_, ?_⟩
          · have ht1 := coinsTotal_insertCoin hn d ⟨tx.hash, 0⟩
              { coinData := { tx.outputs.headD default with denom := k.left, value := vl },
                height := st.height } st.tip906
            have ht2 := coinsTotal_insertCoin hn1 d ⟨tx.hash, 1⟩
              { coinData := { tx.outputs.headD default with denom := k.right, value := vr },
                height := st.height } st.tip906
            rw [cwAt_some ((hsame 0).trans hc0)] at ht1
            have hd' : ¬ ld = d := fun e => hd e.symm
            simp only [cw, hd0, hd', if_false] at ht1 ht2
            by_cases e1 : k.left = d
            · have e2 : ¬ k.right = d := fun e => hlr (e1.trans e.symm)
              simp only [e1, e2, if_true, if_false] at ht1 ht2 ⊢
              omega
            · by_cases e2 : k.right = d
              · simp only [e1, e2, if_true, if_false] at ht1 ht2 ⊢
                omega
              · simp only [e1, e2, if_false] at ht1 ht2 ⊢
                omega
          · intro id hid
            rw [CoinMap.getCoin_insertCoin_ne _ _ _ (ne_of_txhash_ne 1 hid),
              CoinMap.getCoin_insertCoin_ne _ _ _ (ne_of_txhash_ne 0 hid)]


/-! ### a settlement phase: the per-pool step folded over the (distinct) pool keys -/

theorem mem_transactionsForPool_iff {reqs : List Tx} {k : PoolKey} {tx : Tx} :
    tx ∈ transactionsForPool reqs k ↔ tx ∈ reqs ∧ canonicalPoolKey tx.data = some k := by
  unfold transactionsForPool
  simp [List.mem_filter]

theorem transactionsForPool_nodup {reqs : List Tx} (hh : (reqs.map (·.hash)).Nodup) (k : PoolKey) :
    ((transactionsForPool reqs k).map (·.hash)).Nodup :=
  List.Nodup.sublist (List.Sublist.map _ List.filter_sublist) hh

theorem phase_inv (s0 : State) (reqs : List Tx) (step : PoolKey → State → List Tx → Outcome State) (d : Denom)
    (P : PoolKey → Prop)
    (hstep : ∀ k st st', P k → step k st (transactionsForPool reqs k) = .ok st' → Good s0 st →
       (∀ tx ∈ transactionsForPool reqs k, ∀ i,
          st.coins.getCoin ⟨tx.hash, i⟩ = s0.coins.getCoin ⟨tx.hash, i⟩) →
       Good st st' ∧ cp st' d ≤ cp st d ∧
       (∀ id : CoinID, (∀ tx ∈ transactionsForPool reqs k, tx.hash ≠ id.txhash) →
          st'.coins.getCoin id = st.coins.getCoin id))
    (hh : (reqs.map (·.hash)).Nodup) :
    ∀ ks : List PoolKey, ks.Nodup → (∀ k ∈ ks, P k) → ∀ st st', Good s0 st →
      (∀ tx ∈ reqs, ∀ k ∈ ks, canonicalPoolKey tx.data = some k → ∀ i,
          st.coins.getCoin ⟨tx.hash, i⟩ = s0.coins.getCoin ⟨tx.hash, i⟩) →
      Outcome.foldlM' (fun st k => step k st (transactionsForPool reqs k)) st ks = .ok st' →
      Good st st' ∧ cp st' d ≤ cp st d ∧
      (∀ id : CoinID, (∀ tx ∈ reqs, tx.hash ≠ id.txhash) → st'.coins.getCoin id = st.coins.getCoin id) := by
  intro ks
  induction ks with
  | nil =>
    intro _ _ st st' hg _ h
    simp only [Outcome.foldlM'] at h
    cases h
    exact ⟨Good.refl hg.coinKeys hg.poolKeys, Nat.le_refl _, fun _ _ => rfl⟩
  | cons k ks ih =>
    intro hks hP st st' hg hsame h
    simp only [Outcome.foldlM'] at h
    simp only [List.nodup_cons] at hks
    split at h
    · next st1 hst1 =>
      obtain ⟨g1, le1, u1⟩ := hstep k st st1 (hP k List.mem_cons_self) hst1 hg (by
        intro tx htx i
        have := mem_transactionsForPool_iff.mp htx
        exact hsame tx this.1 k List.mem_cons_self this.2 i)
      obtain ⟨g2, le2, u2⟩ := ih hks.2 (fun k' hk' => hP k' (List.mem_cons_of_mem _ hk')) st1 st' (hg.trans g1) (by
        intro tx htx k' hk' hck i
        rw [u1 ⟨tx.hash, i⟩ (by
          intro tx2 htx2 e
          have h2 := mem_transactionsForPool_iff.mp htx2
          have : tx2 = tx := eq_of_nodup_map _ hh h2.1 htx e
          rw [this, hck] at h2
          cases h2.2
          exact hks.1 hk')]
        exact hsame tx htx k' (List.mem_cons_of_mem _ hk') hck i) h
      refine ⟨g1.trans g2, Nat.le_trans le2 le1, ?_⟩
      intro id hid
      rw [u2 id hid, u1 id (fun tx htx => hid tx (mem_transactionsForPool_iff.mp htx).1)]
    · cases h
    · cases h


/-! ### what the selectors guarantee, in full -/

theorem SupplySealL.isSwapRequest_full {s : State} {tx : Tx} (h : isSwapRequest s tx = true) :
    tx.kind = .swap ∧ ∃ k o rest c, tx.outputs = o :: rest ∧ canonicalPoolKey tx.data = some k ∧
      s.coins.getCoin ⟨tx.hash, 0⟩ = some c ∧ (o.denom = k.left ∨ o.denom = k.right) := by
  unfold isSwapRequest at h
  simp only [Bool.and_eq_true, decide_eq_true_eq] at h
  refine ⟨h.1, ?_⟩
  have h2 := h.2
  split at h2
  · cases h2
  · next o0 rest ho =>
    simp only [Bool.and_eq_true] at h2
    have h3 := h2.2
    obtain ⟨c, hc⟩ := Option.isSome_iff_exists.mp h2.1.1
    split at h3
    · cases h3
    · next k hk =>
      split at h3
      · cases h3
      · simp only [Bool.and_eq_true, Bool.or_eq_true, decide_eq_true_eq] at h3
        exact ⟨k, o0, rest, c, ho, hk, hc, h3.2⟩

theorem SupplySealL.isDepositRequest_full {s : State} {tx : Tx} (h : isDepositRequest s tx = true) :
    tx.kind = .liqDeposit ∧ ∃ k o0 o1 rest c0 c1, tx.outputs = o0 :: o1 :: rest ∧
      canonicalPoolKey tx.data = some k ∧
      s.coins.getCoin ⟨tx.hash, 0⟩ = some c0 ∧ s.coins.getCoin ⟨tx.hash, 1⟩ = some c1 ∧
      o0.denom = k.left ∧ o1.denom = k.right := by
  unfold isDepositRequest at h
  simp only [Bool.and_eq_true, decide_eq_true_eq] at h
  refine ⟨h.1, ?_⟩
  have h2 := h.2
  split at h2
  · next o0 o1 rest ho =>
    simp only [Bool.and_eq_true] at h2
    have h3 := h2.2
    obtain ⟨c0, hc0⟩ := Option.isSome_iff_exists.mp h2.1.1.2
    obtain ⟨c1, hc1⟩ := Option.isSome_iff_exists.mp h2.1.2
    split at h3
    · cases h3
    · next k hk =>
      simp only [Bool.and_eq_true, decide_eq_true_eq] at h3
      exact ⟨k, o0, o1, rest, c0, c1, ho, hk, hc0, hc1, h3.1, h3.2⟩
  · cases h2

theorem SupplySealL.isWithdrawRequest_full {env : Env} {s : State} {tx : Tx} (h : isWithdrawRequest env s tx = true) :
    tx.kind = .liqWithdraw ∧ ∃ k o0 c0, tx.outputs = [o0] ∧ canonicalPoolKey tx.data = some k ∧
      s.coins.getCoin ⟨tx.hash, 0⟩ = some c0 ∧ o0.denom = liqTokenDenom env k := by
  unfold isWithdrawRequest at h
  simp only [Bool.and_eq_true, decide_eq_true_eq] at h
  refine ⟨h.1, ?_⟩
  have h2 := h.2
  split at h2
  · next o0 ho =>
    simp only [Bool.and_eq_true] at h2
    have h3 := h2.2
    obtain ⟨c0, hc0⟩ := Option.isSome_iff_exists.mp h2.1.2
    split at h3
    · cases h3
    · next k hk =>
      simp only [Bool.and_eq_true, decide_eq_true_eq] at h3
      exact ⟨k, o0, c0, ho, hk, hc0, h3.2⟩
  · cases h2

/-- a canonical key has two different, concrete sides -/
theorem canonical_sides {data : Bytes} {k : PoolKey} (h : canonicalPoolKey data = some k) :
    k.left ≠ k.right ∧ k.left ≠ .newCustom ∧ k.right ≠ .newCustom := by
  obtain ⟨h1, h2, h3, _⟩ := canonicalPoolKey_some h
  refine ⟨?_, h2, h3⟩
  intro e
  rw [e, bytesLt_irrefl] at h1
  cases h1

theorem SupplySealL.mem_sortDedup {α : Type} [DecidableEq α] (lt : α → α → Bool) {z : α} {l : List α}
    (h : z ∈ sortDedup lt l) : z ∈ l := by
  have key : ∀ (l acc : List α), z ∈ l.foldl (fun acc x => insertSorted lt x acc) acc → z ∈ acc ∨ z ∈ l := by
    intro l
    induction l with
    | nil => intro acc h; exact Or.inl h
    | cons x xs ih =>
      intro acc h
      rcases ih _ h with h | h
      · rcases mem_insertSorted lt h with h | h
        · exact Or.inr (h ▸ List.mem_cons_self)
        · exact Or.inl h
      · exact Or.inr (List.mem_cons_of_mem _ h)
  rcases key l [] h with h | h
  · cases h
  · exact h

theorem SupplySealL.mem_extractPoolKeysSorted {txs : List Tx} {k : PoolKey} (h : k ∈ extractPoolKeysSorted txs) :
    ∃ tx ∈ txs, canonicalPoolKey tx.data = some k := by
  have := mem_sortDedup _ h
  simpa [List.mem_filterMap] using this

/-! ### transactions with distinct hashes own distinct coins, which weigh at most the total -/

theorem sum_le_sum {α} (f g : α → Nat) : ∀ (l : List α), (∀ x ∈ l, f x ≤ g x) → (l.map f).sum ≤ (l.map g).sum := by
  intro l
  induction l with
  | nil => intro _; simp
  | cons x xs ih =>
    intro h
    simp only [List.map_cons, List.sum_cons]
    have := h x List.mem_cons_self
    have := ih (fun y hy => h y (List.mem_cons_of_mem _ hy))
    omega

theorem nodup_of_nodup_map {α β} (f : α → β) : ∀ {l : List α}, (l.map f).Nodup → l.Nodup := by
  intro l
  induction l with
  | nil => intro _; exact List.nodup_nil
  | cons x xs ih =>
    intro h
    simp only [List.map_cons, List.nodup_cons, List.mem_map, not_exists, not_and] at h ⊢
    exact ⟨fun hx => h.1 x hx rfl, ih h.2⟩

theorem sum_values_le (m : CoinMap) (hm : m.Nodup) (d : Denom) (l : List Tx) (i : Nat) (w : Tx → Nat)
    (hh : (l.map (·.hash)).Nodup) (hw : ∀ tx ∈ l, w tx ≤ cwAt m d ⟨tx.hash, i⟩) :
    (l.map w).sum ≤ coinsTotal m d := by
  have h1 := sum_le_sum w (fun tx => cwAt m d ⟨tx.hash, i⟩) l hw
  have hids : (l.map fun tx => (⟨tx.hash, i⟩ : CoinID)).Nodup := by
    apply nodup_of_nodup_map (·.txhash)
    rw [List.map_map]
    exact hh
  have h2 := sum_cwAt_le m d hm _ hids
  rw [List.map_map] at h2
  exact Nat.le_trans h1 h2

/-- the coins of a transaction are as declared -/
def FaithfulTx (m : CoinMap) (tx : Tx) : Prop :=
  ∀ i o c, tx.outputs[i]? = some o → m.getCoin ⟨tx.hash, i⟩ = some c →
    c.coinData.value = o.value ∧ c.coinData.denom = createdDenom tx o

theorem createdDenom_of_ne {tx : Tx} {o : CoinData} (h : o.denom ≠ .newCustom) : createdDenom tx o = o.denom := by
  unfold createdDenom; simp [h]

theorem legacyDeposit_congr {a b : State} (hh : b.height = a.height) (hn : b.network = a.network) :
    legacyDeposit b = legacyDeposit a := by
  unfold legacyDeposit; rw [hh, hn]


/-! ### the three settlement phases -/

theorem swaps_phase (s0 st' : State) (m : CoinMap) (d : Denom) (h : processSwaps s0 = .ok st')
    (hc : s0.coins.Nodup) (hp : (s0.pools.map (·.1)).Nodup) (hh : (s0.txs.map (·.hash)).Nodup)
    (hm : m.Nodup) (hb : ∀ d, coinsTotal m d ≤ U128_MAX)
    (hsame0 : ∀ tx ∈ s0.txs, tx.kind = .swap → ∀ i, s0.coins.getCoin ⟨tx.hash, i⟩ = m.getCoin ⟨tx.hash, i⟩)
    (hf : ∀ tx ∈ s0.txs, tx.kind = .swap → FaithfulTx m tx) :
    Good s0 st' ∧ cp st' d ≤ cp s0 d ∧
    (∀ id : CoinID, (∀ tx ∈ s0.txs, tx.kind = .swap → tx.hash ≠ id.txhash) →
      st'.coins.getCoin id = s0.coins.getCoin id) := by
  unfold processSwaps at h
  simp only at h
  have hmem : ∀ tx, tx ∈ s0.txs.filter (isSwapRequest s0) → tx ∈ s0.txs ∧ isSwapRequest s0 tx = true :=
    fun tx h => List.mem_filter.mp h
  have hhr : ((s0.txs.filter (isSwapRequest s0)).map (·.hash)).Nodup :=
    List.Nodup.sublist (List.Sublist.map _ List.filter_sublist) hh
  generalize s0.txs.filter (isSwapRequest s0) = reqs at h hmem hhr
  have hP : ∀ k ∈ extractPoolKeysSorted reqs, (fun k : PoolKey => k.left ≠ k.right ∧ k.left ≠ .newCustom ∧ k.right ≠ .newCustom) k := by
    intro k hk
    obtain ⟨tx, _, hck⟩ := mem_extractPoolKeysSorted hk
    exact canonical_sides hck
  have hstep : ∀ k st st1, (fun k : PoolKey => k.left ≠ k.right ∧ k.left ≠ .newCustom ∧ k.right ≠ .newCustom) k →
      processSwapsForPool k st (transactionsForPool reqs k) = .ok st1 → Good s0 st →
      (∀ tx ∈ transactionsForPool reqs k, ∀ i,
        st.coins.getCoin ⟨tx.hash, i⟩ = s0.coins.getCoin ⟨tx.hash, i⟩) →
      Good st st1 ∧ cp st1 d ≤ cp st d ∧
      (∀ id : CoinID, (∀ tx ∈ transactionsForPool reqs k, tx.hash ≠ id.txhash) →
        st1.coins.getCoin id = st.coins.getCoin id) := by
    intro k st st1 hPk hst1 hg hsame
    have hfacts : ∀ tx ∈ transactionsForPool reqs k, ∃ c, st.coins.getCoin ⟨tx.hash, 0⟩ = some c ∧
        m.getCoin ⟨tx.hash, 0⟩ = some c ∧
        c.coinData.value = (tx.outputs.headD default).value ∧
        c.coinData.denom = (tx.outputs.headD default).denom ∧
        ((tx.outputs.headD default).denom = k.left ∨ (tx.outputs.headD default).denom = k.right) := by
      intro tx htx
      obtain ⟨hin, hck'⟩ := mem_transactionsForPool_iff.mp htx
      obtain ⟨htxs, hsel⟩ := hmem tx hin
      obtain ⟨hkind, k', o, rest, c, ho, hck, hc0, hside⟩ := isSwapRequest_full hsel
      have : k' = k := Option.some.inj (hck.symm.trans hck')
      subst this
      have hm0 : m.getCoin ⟨tx.hash, 0⟩ = some c := (hsame0 tx htxs hkind 0).symm.trans hc0
      have hfa := hf tx htxs hkind 0 o c (by rw [ho]; rfl) hm0
      have hne : o.denom ≠ .newCustom := by
        rcases hside with e | e <;> rw [e]
        · exact hPk.2.1
        · exact hPk.2.2
      rw [createdDenom_of_ne hne] at hfa
      refine ⟨c, (hsame tx htx 0).trans hc0, hm0, ?_⟩
      rw [ho]
      exact ⟨hfa.1, hfa.2, hside⟩
    have hbL := sum_values_le m hm k.left (transactionsForPool reqs k) 0
      (fun tx => if (tx.outputs.headD default).denom = k.left then (tx.outputs.headD default).value else 0)
      (transactionsForPool_nodup hhr k) (by
        intro tx htx
        obtain ⟨c, _, hm0, hv, hdn, _⟩ := hfacts tx htx
        rw [cwAt_some hm0]
        simp only [cw, hv, hdn]
        exact Nat.le_refl _)
    have hbR := sum_values_le m hm k.right (transactionsForPool reqs k) 0
      (fun tx => if (tx.outputs.headD default).denom = k.right then (tx.outputs.headD default).value else 0)
      (transactionsForPool_nodup hhr k) (by
        intro tx htx
        obtain ⟨c, _, hm0, hv, hdn, _⟩ := hfacts tx htx
        rw [cwAt_some hm0]
        simp only [cw, hv, hdn]
        exact Nat.le_refl _)
    obtain ⟨g1, l1⟩ := swapStep k st st1 (transactionsForPool reqs k) d hst1 hPk.1 hg.coinKeys hg.poolKeys
      (transactionsForPool_nodup hhr k)
      (fun tx htx => by
        obtain ⟨c, h1, _, h3, h4, h5⟩ := hfacts tx htx
        exact ⟨c, h1, h3, h4, h5⟩)
      (Nat.le_trans hbL (hb _)) (Nat.le_trans hbR (hb _))
    exact ⟨g1, l1, fun id hne => (processSwapsForPool_coins id k st _ st1 hst1 hne).1⟩

  obtain ⟨g, le, u⟩ := phase_inv s0 reqs (fun k st l => processSwapsForPool k st l) d
    (fun k => k.left ≠ k.right ∧ k.left ≠ .newCustom ∧ k.right ≠ .newCustom) hstep hhr
    (extractPoolKeysSorted reqs) (extractPoolKeysSorted_nodup _) hP s0 st' (Good.refl hc hp)
    (fun _ _ _ _ _ _ => rfl) h
  exact ⟨g, le, fun id hid => u id (fun tx htx => hid tx (hmem tx htx).1 (isSwapRequest_full (hmem tx htx).2).1)⟩

theorem deposits_phase (env : Env) (s0 st' : State) (m : CoinMap) (d : Denom)
    (h : processDeposits env s0 = .ok st') (hleg : legacyDeposit s0 = false)
    (hd : ∀ k, d ≠ liqTokenDenom env k)
    (hc : s0.coins.Nodup) (hp : (s0.pools.map (·.1)).Nodup) (hh : (s0.txs.map (·.hash)).Nodup)
    (hsame0 : ∀ tx ∈ s0.txs, tx.kind = .liqDeposit → ∀ i,
      s0.coins.getCoin ⟨tx.hash, i⟩ = m.getCoin ⟨tx.hash, i⟩)
    (hf : ∀ tx ∈ s0.txs, tx.kind = .liqDeposit → FaithfulTx m tx) :
    Good s0 st' ∧ cp st' d ≤ cp s0 d ∧
    (∀ id : CoinID, (∀ tx ∈ s0.txs, tx.kind = .liqDeposit → tx.hash ≠ id.txhash) →
      st'.coins.getCoin id = s0.coins.getCoin id) := by
  unfold processDeposits at h
  simp only at h
  have hmem : ∀ tx, tx ∈ s0.txs.filter (isDepositRequest s0) → tx ∈ s0.txs ∧ isDepositRequest s0 tx = true :=
    fun tx h => List.mem_filter.mp h
  have hhr : ((s0.txs.filter (isDepositRequest s0)).map (·.hash)).Nodup :=
    List.Nodup.sublist (List.Sublist.map _ List.filter_sublist) hh
  generalize s0.txs.filter (isDepositRequest s0) = reqs at h hmem hhr
  have hP : ∀ k ∈ extractPoolKeysSorted reqs, (fun k : PoolKey => k.left ≠ k.right ∧ k.left ≠ .newCustom ∧ k.right ≠ .newCustom) k := by
    intro k hk
    obtain ⟨tx, _, hck⟩ := mem_extractPoolKeysSorted hk
    exact canonical_sides hck
  have hstep : ∀ k st st1, (fun k : PoolKey => k.left ≠ k.right ∧ k.left ≠ .newCustom ∧ k.right ≠ .newCustom) k →
      processDepositsForPool env k st (transactionsForPool reqs k) = .ok st1 → Good s0 st →
      (∀ tx ∈ transactionsForPool reqs k, ∀ i,
        st.coins.getCoin ⟨tx.hash, i⟩ = s0.coins.getCoin ⟨tx.hash, i⟩) →
      Good st st1 ∧ cp st1 d ≤ cp st d ∧
      (∀ id : CoinID, (∀ tx ∈ transactionsForPool reqs k, tx.hash ≠ id.txhash) →
        st1.coins.getCoin id = st.coins.getCoin id) := by
    intro k st st1 hPk hst1 hg hsame
    have hleg' : legacyDeposit st = false := (legacyDeposit_congr hg.height hg.network).trans hleg
    obtain ⟨g1, l1⟩ := depositStep env k st st1 (transactionsForPool reqs k) d hst1 hleg' hPk.1 (hd k)
      hg.coinKeys hg.poolKeys (transactionsForPool_nodup hhr k)
      (by
        intro tx htx
        obtain ⟨hin, hck'⟩ := mem_transactionsForPool_iff.mp htx
        obtain ⟨htxs, hsel⟩ := hmem tx hin
        obtain ⟨hkind, k', o0, o1, rest, c0, c1, ho, hck, hc0, hc1, hd0, hd1⟩ := isDepositRequest_full hsel
        have : k' = k := Option.some.inj (hck.symm.trans hck')
        subst this
        have hm0 : m.getCoin ⟨tx.hash, 0⟩ = some c0 := (hsame0 tx htxs hkind 0).symm.trans hc0
        have hm1 : m.getCoin ⟨tx.hash, 1⟩ = some c1 := (hsame0 tx htxs hkind 1).symm.trans hc1
        have hfa0 := hf tx htxs hkind 0 o0 c0 (by rw [ho]; rfl) hm0
        have hfa1 := hf tx htxs hkind 1 o1 c1 (by rw [ho]; rfl) hm1
        rw [createdDenom_of_ne (by rw [hd0]; exact hPk.2.1)] at hfa0
        rw [createdDenom_of_ne (by rw [hd1]; exact hPk.2.2)] at hfa1
        refine ⟨c0, c1, (hsame tx htx 0).trans hc0, (hsame tx htx 1).trans hc1, ?_⟩
        rw [ho]
        exact ⟨hfa0.1, hfa0.2.trans hd0, hfa1.1, hfa1.2.trans hd1⟩)
    exact ⟨g1, l1, fun id hne => (processDepositsForPool_coins id env k st _ st1 hst1 hne).1⟩

  obtain ⟨g, le, u⟩ := phase_inv s0 reqs (fun k st l => processDepositsForPool env k st l) d
    (fun k => k.left ≠ k.right ∧ k.left ≠ .newCustom ∧ k.right ≠ .newCustom) hstep hhr
    (extractPoolKeysSorted reqs) (extractPoolKeysSorted_nodup _) hP s0 st' (Good.refl hc hp)
    (fun _ _ _ _ _ _ => rfl) h
  exact ⟨g, le, fun id hid => u id (fun tx htx => hid tx (hmem tx htx).1 (isDepositRequest_full (hmem tx htx).2).1)⟩

theorem withdrawals_phase (env : Env) (s0 st' : State) (m : CoinMap) (d : Denom)
    (h : processWithdrawals env s0 = .ok st') (hd : ∀ k, d ≠ liqTokenDenom env k)
    (hc : s0.coins.Nodup) (hp : (s0.pools.map (·.1)).Nodup) (hh : (s0.txs.map (·.hash)).Nodup)
    (hm : m.Nodup) (hb : ∀ d, coinsTotal m d ≤ U128_MAX)
    (hsame0 : ∀ tx ∈ s0.txs, tx.kind = .liqWithdraw → ∀ i,
      s0.coins.getCoin ⟨tx.hash, i⟩ = m.getCoin ⟨tx.hash, i⟩)
    (hf : ∀ tx ∈ s0.txs, tx.kind = .liqWithdraw → FaithfulTx m tx) :
    Good s0 st' ∧ cp st' d ≤ cp s0 d := by
  unfold processWithdrawals at h
  simp only at h
  have hmem : ∀ tx, tx ∈ s0.txs.filter (isWithdrawRequest env s0) →
      tx ∈ s0.txs ∧ isWithdrawRequest env s0 tx = true := fun tx h => List.mem_filter.mp h
  have hhr : ((s0.txs.filter (isWithdrawRequest env s0)).map (·.hash)).Nodup :=
    List.Nodup.sublist (List.Sublist.map _ List.filter_sublist) hh
  generalize s0.txs.filter (isWithdrawRequest env s0) = reqs at h hmem hhr
  have hP : ∀ k ∈ extractPoolKeysSorted reqs, (fun k : PoolKey => k.left ≠ k.right ∧ k.left ≠ .newCustom ∧ k.right ≠ .newCustom) k := by
    intro k hk
    obtain ⟨tx, _, hck⟩ := mem_extractPoolKeysSorted hk
    exact canonical_sides hck
  have hstep : ∀ k st st1, (fun k : PoolKey => k.left ≠ k.right ∧ k.left ≠ .newCustom ∧ k.right ≠ .newCustom) k →
      processWithdrawalsForPool k st (transactionsForPool reqs k) = .ok st1 → Good s0 st →
      (∀ tx ∈ transactionsForPool reqs k, ∀ i,
        st.coins.getCoin ⟨tx.hash, i⟩ = s0.coins.getCoin ⟨tx.hash, i⟩) →
      Good st st1 ∧ cp st1 d ≤ cp st d ∧
      (∀ id : CoinID, (∀ tx ∈ transactionsForPool reqs k, tx.hash ≠ id.txhash) →
        st1.coins.getCoin id = st.coins.getCoin id) := by
    intro k st st1 hPk hst1 hg hsame
    have hfacts : ∀ tx ∈ transactionsForPool reqs k, ∃ c, st.coins.getCoin ⟨tx.hash, 0⟩ = some c ∧
        m.getCoin ⟨tx.hash, 0⟩ = some c ∧
        c.coinData.value = (tx.outputs.headD default).value ∧
        c.coinData.denom = liqTokenDenom env k := by
      intro tx htx
      obtain ⟨hin, hck'⟩ := mem_transactionsForPool_iff.mp htx
      obtain ⟨htxs, hsel⟩ := hmem tx hin
      obtain ⟨hkind, k', o, c, ho, hck, hc0, hdn⟩ := isWithdrawRequest_full hsel
      have : k' = k := Option.some.inj (hck.symm.trans hck')
      subst this
      have hm0 : m.getCoin ⟨tx.hash, 0⟩ = some c := (hsame0 tx htxs hkind 0).symm.trans hc0
      have hfa := hf tx htxs hkind 0 o c (by rw [ho]; rfl) hm0
      rw [createdDenom_of_ne (by rw [hdn]; unfold liqTokenDenom; intro e; cases e)] at hfa
      refine ⟨c, (hsame tx htx 0).trans hc0, hm0, ?_⟩
      rw [ho]
      exact ⟨hfa.1, hfa.2.trans hdn⟩
    have hbL := sum_values_le m hm (liqTokenDenom env k) (transactionsForPool reqs k) 0
      (fun tx => (tx.outputs.headD default).value)
      (transactionsForPool_nodup hhr k) (by
        intro tx htx
        obtain ⟨c, _, hm0, hv, hdn⟩ := hfacts tx htx
        rw [cwAt_some hm0]
        simp only [cw, hv, hdn, if_true]
        exact Nat.le_refl _)
    obtain ⟨g1, l1⟩ := withdrawStep (liqTokenDenom env k) k st st1 (transactionsForPool reqs k) d hst1 hPk.1
      (hd k) hg.coinKeys hg.poolKeys (transactionsForPool_nodup hhr k)
      (fun tx htx => by
        obtain ⟨c, h1, _, _, h4⟩ := hfacts tx htx
        exact ⟨c, h1, h4⟩)
      (Nat.le_trans hbL (hb _))
    exact ⟨g1, l1, fun id hne => (processWithdrawalsForPool_coins id k st _ st1 hst1 hne).1⟩

  obtain ⟨g, le, _⟩ := phase_inv s0 reqs (fun k st l => processWithdrawalsForPool k st l) d
    (fun k => k.left ≠ k.right ∧ k.left ≠ .newCustom ∧ k.right ≠ .newCustom) hstep hhr
    (extractPoolKeysSorted reqs) (extractPoolKeysSorted_nodup _) hP s0 st' (Good.refl hc hp)
    (fun _ _ _ _ _ _ => rfl) h
  exact ⟨g, le⟩

end Mel
