/- helper lemmas for the serialisation of headers and coin ids (MelModel/Stdcode.lean: `encodeHeader`, `encodeCoinIDKey`);
   used by MelModel/Props/CodecHdr.lean.  The fields are peeled off left to right with the cancellation lemmas of
   MelModel/Lemmas/CodecTxL.lean. -/
import MelModel.Stdcode
import MelModel.Lemmas.CodecL
import MelModel.Lemmas.CodecTxL
namespace Mel.Stdcode
open Mel

theorem net_byte_inj (n n' : NetID) (h : UInt8.ofNat n.toNat = UInt8.ofNat n'.toNat) : n = n' := by
  revert h
  cases n <;> cases n' <;> decide

theorem encodeHeader_injective (h h' : Header) (hk : HeaderOk h) (hk' : HeaderOk h')
    (he : encodeHeader h = encodeHeader h') : h = h' := by
  unfold encodeHeader at he
  simp only [List.append_assoc] at he
  obtain ⟨a1, a2, a3, a4, a5, a6⟩ := hk.hashes
  obtain ⟨b1, b2, b3, b4, b5, b6⟩ := hk'.hashes
  have hh := hk.height
  have hh' := hk'.height
  have p64 : (2 : Nat) ^ 64 ≤ 2 ^ 128 := by decide
  obtain ⟨h1, he⟩ := fixed_cancel (by rfl) he
  injection h1 with h1 _
  have h1 := net_byte_inj _ _ h1
  obtain ⟨h2, he⟩ := fixed_cancel (by omega) he
  obtain ⟨h3, he⟩ := putVarint_cancel (Nat.lt_of_lt_of_le hh p64) (Nat.lt_of_lt_of_le hh' p64) he
  obtain ⟨h4, he⟩ := fixed_cancel (by omega) he
  obtain ⟨h5, he⟩ := fixed_cancel (by omega) he
  obtain ⟨h6, he⟩ := fixed_cancel (by omega) he
  obtain ⟨h7, he⟩ := putVarint_cancel hk.amounts.1 hk'.amounts.1 he
  obtain ⟨h8, he⟩ := putVarint_cancel hk.amounts.2.1 hk'.amounts.2.1 he
  obtain ⟨h9, he⟩ := putVarint_cancel hk.amounts.2.2 hk'.amounts.2.2 he
  obtain ⟨h10, h11⟩ := List.append_inj he (by omega)
  cases h; cases h'
  simp only at h1 h2 h3 h4 h5 h6 h7 h8 h9 h10 h11
  subst h1; subst h2; subst h3; subst h4; subst h5; subst h6; subst h7; subst h8; subst h9; subst h10; subst h11
  rfl

theorem varintLen_le_nine (n : Nat) (h : n < 2 ^ 64) : varintLen n ≤ 9 := by
  unfold varintLen
  repeat' split
  all_goals omega

theorem encodeHeader_length (h : Header) (hk : HeaderOk h) :
    197 ≤ (encodeHeader h).length ∧ (encodeHeader h).length ≤ 253 := by
  obtain ⟨a1, a2, a3, a4, a5, a6⟩ := hk.hashes
  unfold encodeHeader
  simp only [List.length_append, putVarint_length, List.length_cons, List.length_nil, a1, a2, a3, a4, a5, a6]
  have v1 := varintLen_bounds h.height
  have v1' := varintLen_le_nine h.height hk.height
  have v2 := varintLen_bounds h.feePool
  have v3 := varintLen_bounds h.feeMultiplier
  have v4 := varintLen_bounds h.doscSpeed
  omega

theorem coinid_key_injective (c c' : CoinID) (h : c.txhash.length = 32 ∧ c.index < 256)
    (h' : c'.txhash.length = 32 ∧ c'.index < 256) (he : encodeCoinIDKey c = encodeCoinIDKey c') : c = c' := by
  unfold encodeCoinIDKey at he
  exact (encodeCoinID_cancel (r := []) (r' := []) h h' (by rw [List.append_nil, List.append_nil]; exact he)).1

end Mel.Stdcode
