/- helper lemmas for the dynamic-programming weigher (`weightDP`, `weighWorkDP`) — C11 -/
import MelModel.Lemmas.Cost
namespace Mel.VM
open Mel Mel.Gen

/-! ## the saturating weight: fuel independence and unfolding -/

theorem weightSF_fuel_indep (f1 f2 : Nat) (l : List Op) (h1 : l.length < f1) (h2 : l.length < f2) :
    weightSF f1 l = weightSF f2 l := by
  rw [weightSF_eq, weightSF_eq, weightUF_fuel_indep f1 f2 l h1 h2]

/-- car weight (`opcodes_car_weight`) in terms of the saturating `weight` -/
def carS (op : Op) (rest : List Op) : Nat :=
  match op with
  | .loop it n => satAdd128 (satMul128 (weight (rest.take n.toNat)) it.toNat) wLoopExtra
  | op => opWeight op

@[simp] theorem weight_nil : weight [] = 0 := by simp [weight, weightSF]

theorem weight_cons (op : Op) (rest : List Op) :
    weight (op :: rest) = satAdd128 (carS op rest) (weight rest) := by
  unfold weight
  simp only [List.length_cons, weightSF]
  cases op
  case loop it n =>
    simp only [carS, weight]
    rw [weightSF_fuel_indep (rest.length + 1) ((rest.take n.toNat).length + 1) (rest.take n.toNat)
      (by simp only [List.length_take]; omega) (by omega)]
  all_goals rfl

theorem carS_nonloop (op : Op) (rest : List Op) (h : ∀ it m, op ≠ Op.loop it m) :
    carS op rest = opWeight op := by
  cases op
  case loop it n => exact absurd rfl (h it n)
  all_goals rfl

theorem satAdd128_comm (a b : Nat) : satAdd128 a b = satAdd128 b a := by
  simp only [satAdd128, Nat.add_comm]

/-! ## window weights (saturating) -/

/-- saturating weight of the window `[a, b)` of the program (clipped to the program) -/
def winS (ops : List Op) (a b : Nat) : Nat := weight ((ops.take b).drop a)

theorem winS_eq_zero (ops : List Op) {a b : Nat} (h : b ≤ a) : winS ops a b = 0 := by
  unfold winS
  rw [List.drop_eq_nil_of_le (by simp only [List.length_take]; omega)]
  exact weight_nil

theorem winS_full (ops : List Op) : winS ops 0 ops.length = weight ops := by
  simp [winS]

theorem winS_unfold (ops : List Op) {a b : Nat} (hab : a < b) (ha : a < ops.length) :
    winS ops a b = satAdd128 (carS ops[a] ((ops.take b).drop (a + 1))) (winS ops (a + 1) b) := by
  unfold winS
  have hlen : a < (ops.take b).length := by simp only [List.length_take]; omega
  rw [List.drop_eq_getElem_cons hlen, weight_cons]
  simp [List.getElem_take]

theorem winS_nonloop (ops : List Op) {a b : Nat} (hab : a < b) (ha : a < ops.length)
    (h : ∀ it m, ops[a] ≠ Op.loop it m) :
    winS ops a b = satAdd128 (winS ops (a + 1) b) (opWeight ops[a]) := by
  rw [winS_unfold ops hab ha, carS_nonloop _ _ h, satAdd128_comm]

theorem winS_loop (ops : List Op) {a b : Nat} (hab : a < b) (ha : a < ops.length)
    {it n : UInt16} (hop : ops[a] = Op.loop it n) :
    winS ops a b =
      satAdd128 (winS ops (a + 1) b)
        (satAdd128 (satMul128 (winS ops (a + 1) (min (a + 1 + n.toNat) b)) it.toNat) wLoopExtra) := by
  rw [winS_unfold ops hab ha, hop, satAdd128_comm]
  simp only [carS, winS]
  rw [List.take_drop, List.take_take]

/-! ## one pass of the dynamic-programming weigher -/

/-- the body of the inner loop of `weighPass` -/
def passStep (ops : List Op) (n stop : Nat) (acc : Nat × List (Option Nat)) (j : Nat) :
    Nat × List (Option Nat) :=
  let (suffix, tbl) := acc
  match (ops[j]? : Option Op) with
  | none => (suffix, tbl)
  | some (Op.loop it m) =>
    let bodyEnd := naturalEnd n j m.toNat
    match tbl[j]?.join with
    | some w => if bodyEnd < stop then (satAdd128 suffix w, tbl) else
        let w' := satAdd128 (satMul128 suffix it.toNat) wLoopExtra
        (satAdd128 suffix w', if bodyEnd = stop then tbl.set j (some w') else tbl)
    | none =>
        let w' := satAdd128 (satMul128 suffix it.toNat) wLoopExtra
        (satAdd128 suffix w', if bodyEnd = stop then tbl.set j (some w') else tbl)
  | some op => (satAdd128 suffix (opWeight op), tbl)

theorem weighPass_eq (ops : List Op) (n stop : Nat) (tbl : List (Option Nat)) :
    weighPass ops n stop tbl = (List.range stop).reverse.foldl (passStep ops n stop) (0, tbl) := rfl

theorem passStep_nonloop (ops : List Op) (n stop s : Nat) (tbl : List (Option Nat)) (j : Nat) (op : Op)
    (hj : ops[j]? = some op) (h : ∀ it m, op ≠ Op.loop it m) :
    passStep ops n stop (s, tbl) j = (satAdd128 s (opWeight op), tbl) := by
  unfold passStep
  simp only [hj]

/-- the recomputed weight of a loop -/
def loopW' (s : Nat) (it : UInt16) : Nat := satAdd128 (satMul128 s it.toNat) wLoopExtra

theorem passStep_loop (ops : List Op) (n stop s : Nat) (tbl : List (Option Nat)) (j : Nat) (it m : UInt16)
    (hj : ops[j]? = some (Op.loop it m)) :
    passStep ops n stop (s, tbl) j =
      if naturalEnd n j m.toNat < stop then
        (match tbl[j]?.join with
         | some w => (satAdd128 s w, tbl)
         | none => (satAdd128 s (loopW' s it), tbl))
      else
        (satAdd128 s (loopW' s it),
          if naturalEnd n j m.toNat = stop then tbl.set j (some (loopW' s it)) else tbl) := by
  unfold passStep
  simp only [hj, loopW']
  cases tbl[j]?.join with
  | none =>
    simp only
    split
    · rename_i hlt
      rw [if_neg (by omega)]
    · split <;> rfl
  | some w => rfl

/-- the weight of the loop at `p` with its unclipped body: what the table stores -/
def loopW (ops : List Op) (p : Nat) (it m : UInt16) : Nat :=
  loopW' (winS ops (p + 1) (naturalEnd ops.length p m.toNat)) it

/-- every entry of the table at a loop position is the weight of that loop with its unclipped body -/
def TblSound (ops : List Op) (tbl : List (Option Nat)) : Prop :=
  ∀ p it m w, ops[p]? = some (Op.loop it m) → tbl[p]?.join = some w → w = loopW ops p it m

/-- every loop whose natural end is `< stop`, or `= stop` at a position `≥ k`, has its entry -/
def TblHas (ops : List Op) (stop k : Nat) (tbl : List (Option Nat)) : Prop :=
  ∀ p it m, ops[p]? = some (Op.loop it m) →
    (naturalEnd ops.length p m.toNat < stop ∨ (naturalEnd ops.length p m.toNat = stop ∧ k ≤ p)) →
    ∃ w, tbl[p]?.join = some w

theorem passStep_spec (ops : List Op) (stop j : Nat) (tbl : List (Option Nat))
    (hjs : j < stop) (hsn : stop ≤ ops.length) (hlen : tbl.length = ops.length)
    (hs : TblSound ops tbl) (hh : TblHas ops stop (j + 1) tbl) :
    ∃ tbl', passStep ops ops.length stop (winS ops (j + 1) stop, tbl) j = (winS ops j stop, tbl') ∧
      tbl'.length = ops.length ∧ TblSound ops tbl' ∧ TblHas ops stop j tbl' := by
  have hj : j < ops.length := by omega
  have hget : ops[j]? = some ops[j] := List.getElem?_eq_getElem hj
  by_cases hl : ∃ it m, ops[j] = Op.loop it m
  · obtain ⟨it, m, hop⟩ := hl
    have hget' : ops[j]? = some (Op.loop it m) := by rw [hget, hop]
    rw [passStep_loop ops ops.length stop _ tbl j it m hget', winS_loop ops hjs hj hop]
    by_cases hlt : naturalEnd ops.length j m.toNat < stop
    · rw [if_pos hlt]
      have hmin : min (j + 1 + m.toNat) stop = naturalEnd ops.length j m.toNat := by
        unfold naturalEnd at hlt ⊢; omega
      obtain ⟨w, hw⟩ := hh j it m hget' (Or.inl hlt)
      have hwv := hs j it m w hget' hw
      refine ⟨tbl, ?_, hlen, hs, ?_⟩
      · rw [hw, hmin]
        simp only
        rw [hwv]
        rfl
      · intro p it' m' hp hcase
        rcases hcase with h1 | ⟨h1, h2⟩
        · exact hh p it' m' hp (Or.inl h1)
        · by_cases hpj : p = j
          · subst hpj
            rw [hget'] at hp
            injection hp with hp
            injection hp with e1 e2
            subst e2
            omega
          · exact hh p it' m' hp (Or.inr ⟨h1, by omega⟩)
    · rw [if_neg hlt]
      have hmin : min (j + 1 + m.toNat) stop = stop := by
        unfold naturalEnd at hlt; omega
      rw [hmin]
      refine ⟨_, rfl, ?_, ?_, ?_⟩
      · split
        · simp only [List.length_set]; exact hlen
        · exact hlen
      · split
        · rename_i heq
          intro p it' m' w hp hw
          by_cases hpj : p = j
          · subst hpj
            rw [hget'] at hp
            injection hp with hp
            injection hp with e1 e2
            subst e1 e2
            rw [List.getElem?_set_self (by omega)] at hw
            simp only [Option.join_some, Option.some.injEq] at hw
            rw [← hw, loopW, heq]
          · rw [List.getElem?_set_ne (by omega)] at hw
            exact hs p it' m' w hp hw
        · exact hs
      · intro p it' m' hp hcase
        by_cases hpj : p = j
        · subst hpj
          rw [hget'] at hp
          injection hp with hp
          injection hp with e1 e2
          subst e1 e2
          have heq : naturalEnd ops.length p m.toNat = stop := by omega
          rw [if_pos heq, List.getElem?_set_self (by omega)]
          exact ⟨_, rfl⟩
        · have := hh p it' m' hp (by omega)
          split
          · rw [List.getElem?_set_ne (by omega)]; exact this
          · exact this
  · have hnl : ∀ it m, ops[j] ≠ Op.loop it m := fun it m h => hl ⟨it, m, h⟩
    rw [passStep_nonloop ops ops.length stop _ tbl j ops[j] hget hnl, winS_nonloop ops hjs hj hnl]
    refine ⟨tbl, rfl, hlen, hs, ?_⟩
    intro p it' m' hp hcase
    by_cases hpj : p = j
    · subst hpj
      rw [hget] at hp
      injection hp with hp
      exact absurd hp (hnl it' m')
    · exact hh p it' m' hp (by omega)

theorem passFold_spec (ops : List Op) (stop : Nat) (hsn : stop ≤ ops.length) :
    ∀ (k : Nat) (tbl : List (Option Nat)), k ≤ stop → tbl.length = ops.length →
      TblSound ops tbl → TblHas ops stop k tbl →
      ∃ tbl', (List.range k).reverse.foldl (passStep ops ops.length stop) (winS ops k stop, tbl)
          = (winS ops 0 stop, tbl') ∧
        tbl'.length = ops.length ∧ TblSound ops tbl' ∧ TblHas ops stop 0 tbl' := by
  intro k
  induction k with
  | zero => intro tbl _ hlen hs hh; exact ⟨tbl, rfl, hlen, hs, hh⟩
  | succ k ih =>
    intro tbl hk hlen hs hh
    obtain ⟨tbl1, e1, hlen1, hs1, hh1⟩ := passStep_spec ops stop k tbl (by omega) hsn hlen hs hh
    obtain ⟨tbl2, e2, hlen2, hs2, hh2⟩ := ih tbl1 (by omega) hlen1 hs1 hh1
    refine ⟨tbl2, ?_, hlen2, hs2, hh2⟩
    rw [List.range_succ, List.reverse_append, List.reverse_singleton, List.singleton_append,
      List.foldl_cons, e1, e2]

/-- one pass: if the table is sound and has the entries of all loops whose bodies end before `stop`, the pass
    returns the weight of `ops[0 .. stop)` and a sound table that also has the loops ending at `stop` -/
theorem weighPass_spec (ops : List Op) (stop : Nat) (tbl : List (Option Nat)) (hsn : stop ≤ ops.length)
    (hlen : tbl.length = ops.length) (hs : TblSound ops tbl)
    (hh : ∀ p it m, ops[p]? = some (Op.loop it m) → naturalEnd ops.length p m.toNat < stop →
      ∃ w, tbl[p]?.join = some w) :
    ∃ tbl', weighPass ops ops.length stop tbl = (winS ops 0 stop, tbl') ∧
      tbl'.length = ops.length ∧ TblSound ops tbl' ∧
      (∀ p it m, ops[p]? = some (Op.loop it m) → naturalEnd ops.length p m.toNat ≤ stop →
        ∃ w, tbl'[p]?.join = some w) := by
  have h0 : winS ops stop stop = 0 := winS_eq_zero ops (Nat.le_refl _)
  have hh' : TblHas ops stop stop tbl := by
    intro p it m hp hcase
    rcases hcase with h1 | ⟨h1, h2⟩
    · exact hh p it m hp h1
    · have hpn : p < ops.length := by
        rcases Nat.lt_or_ge p ops.length with h | h
        · exact h
        · rw [List.getElem?_eq_none h] at hp; cases hp
      unfold naturalEnd at h1
      omega
  obtain ⟨tbl', e, hlen', hs', hh2⟩ := passFold_spec ops stop hsn stop tbl (Nat.le_refl _) hlen hs hh'
  refine ⟨tbl', ?_, hlen', hs', ?_⟩
  · rw [h0] at e
    rw [weighPass_eq, e]
  · intro p it m hp hle
    apply hh2 p it m hp
    omega

/-! ## the passes in increasing order of the ends -/

theorem endsFold_spec (ops : List Op) :
    ∀ (es : List Nat) (acc : Nat × List (Option Nat)) (b : Nat),
      es.Pairwise (· < ·) → (∀ e ∈ es, b ≤ e ∧ e ≤ ops.length) →
      acc.2.length = ops.length → TblSound ops acc.2 →
      (∀ p it m, ops[p]? = some (Op.loop it m) → naturalEnd ops.length p m.toNat < b →
        ∃ w, acc.2[p]?.join = some w) →
      (∀ p it m, ops[p]? = some (Op.loop it m) →
        naturalEnd ops.length p m.toNat < b ∨ naturalEnd ops.length p m.toNat ∈ es) →
      ∀ d, es.getLast? = some d →
        (es.foldl (fun (acc : Nat × List (Option Nat)) stop => weighPass ops ops.length stop acc.2) acc).1
          = winS ops 0 d := by
  intro es
  induction es with
  | nil => intro acc b _ _ _ _ _ _ d hd; simp at hd
  | cons e es ih =>
    intro acc b hpw hb hlen hs hhas hall d hd
    have hpw' := List.pairwise_cons.mp hpw
    have hbe := hb e List.mem_cons_self
    obtain ⟨tbl', epass, hlen', hs', hhas'⟩ := weighPass_spec ops e acc.2 hbe.2 hlen hs (by
      intro p it m hp hlt
      rcases hall p it m hp with h | h
      · exact hhas p it m hp h
      · rcases List.mem_cons.mp h with h | h
        · omega
        · have := hpw'.1 _ h; omega)
    rw [List.foldl_cons, epass]
    cases es with
    | nil =>
      simp only [List.getLast?_singleton, Option.some.injEq] at hd
      subst hd
      rfl
    | cons e2 es2 =>
      rw [List.getLast?_cons_cons] at hd
      refine ih (winS ops 0 e, tbl') (e + 1) hpw'.2 ?_ hlen' hs' ?_ ?_ d hd
      · intro e' he'
        have h1 := hpw'.1 e' he'
        have h2 := hb e' (List.mem_cons_of_mem _ he')
        omega
      · intro p it m hp hlt
        exact hhas' p it m hp (by omega)
      · intro p it m hp
        rcases hall p it m hp with h | h
        · left; omega
        · rcases List.mem_cons.mp h with h | h
          · left; omega
          · right; exact h

/-! ## `sortDedup` on numbers: ascending, same elements, not longer -/

/-- the order used by `weighEnds` -/
abbrev ltN : Nat → Nat → Bool := fun a b => decide (a < b)

theorem mem_insertSortedN (x a : Nat) : ∀ l : List Nat, a ∈ insertSorted ltN x l ↔ a = x ∨ a ∈ l := by
  intro l
  induction l with
  | nil => simp [insertSorted]
  | cons y ys ih =>
    simp only [insertSorted]
    split
    · next h => subst h; simp
    · split
      · simp
      · simp only [List.mem_cons, ih]
        constructor
        · rintro (h | h | h) <;> simp [h]
        · rintro (h | h | h) <;> simp [h]

theorem pairwise_insertSortedN (x : Nat) : ∀ l : List Nat, l.Pairwise (· < ·) →
    (insertSorted ltN x l).Pairwise (· < ·) := by
  intro l
  induction l with
  | nil => intro _; simp [insertSorted]
  | cons y ys ih =>
    intro h
    have hy := List.pairwise_cons.mp h
    simp only [insertSorted]
    split
    · exact h
    · next hne =>
      split
      · next hlt =>
        have hlt' : x < y := by simpa using hlt
        refine List.pairwise_cons.mpr ⟨?_, h⟩
        intro b hb
        rcases List.mem_cons.mp hb with rfl | hb
        · exact hlt'
        · exact Nat.lt_trans hlt' (hy.1 b hb)
      · next hnlt =>
        have hnlt' : ¬ x < y := by simpa using hnlt
        refine List.pairwise_cons.mpr ⟨?_, ih hy.2⟩
        intro b hb
        rcases (mem_insertSortedN x b ys).mp hb with rfl | hb
        · omega
        · exact hy.1 b hb

theorem length_insertSortedN (x : Nat) : ∀ l : List Nat, (insertSorted ltN x l).length ≤ l.length + 1 := by
  intro l
  induction l with
  | nil => simp [insertSorted]
  | cons y ys ih =>
    simp only [insertSorted]
    split
    · simp
    · split
      · simp
      · simp only [List.length_cons]; omega

theorem sortDedupN_aux : ∀ (l acc : List Nat), acc.Pairwise (· < ·) →
    (l.foldl (fun acc x => insertSorted ltN x acc) acc).Pairwise (· < ·) ∧
    (∀ a, a ∈ l.foldl (fun acc x => insertSorted ltN x acc) acc ↔ a ∈ l ∨ a ∈ acc) ∧
    (l.foldl (fun acc x => insertSorted ltN x acc) acc).length ≤ acc.length + l.length := by
  intro l
  induction l with
  | nil => intro acc h; simp [h]
  | cons x xs ih =>
    intro acc h
    obtain ⟨h1, h2, h3⟩ := ih (insertSorted ltN x acc) (pairwise_insertSortedN x acc h)
    refine ⟨h1, ?_, ?_⟩
    · intro a
      rw [List.foldl_cons, h2, mem_insertSortedN, List.mem_cons]
      constructor
      · rintro (h | h | h) <;> simp [h]
      · rintro ((h | h) | h) <;> simp [h]
    · have := length_insertSortedN x acc
      rw [List.foldl_cons, List.length_cons]
      omega

theorem pairwise_sortDedupN (l : List Nat) : (sortDedup ltN l).Pairwise (· < ·) :=
  (sortDedupN_aux l [] List.Pairwise.nil).1

theorem mem_sortDedupN (a : Nat) (l : List Nat) : a ∈ sortDedup ltN l ↔ a ∈ l := by
  unfold sortDedup
  rw [(sortDedupN_aux l [] List.Pairwise.nil).2.1]; simp

theorem length_sortDedupN (l : List Nat) : (sortDedup ltN l).length ≤ l.length := by
  have := (sortDedupN_aux l [] List.Pairwise.nil).2.2
  simpa [sortDedup] using this

/-! ## the ends -/

/-- the natural ends of the loops, in program order -/
def naturalEnds (ops : List Op) : List Nat :=
  (ops.zipIdx).filterMap fun (op, j) =>
    match op with
    | .loop _ m => some (naturalEnd ops.length j m.toNat)
    | _ => none

theorem weighEnds_eq (ops : List Op) :
    weighEnds ops = sortDedup ltN (naturalEnds ops ++ [ops.length]) := rfl

theorem weighEnds_pairwise (ops : List Op) : (weighEnds ops).Pairwise (· < ·) := by
  rw [weighEnds_eq]; exact pairwise_sortDedupN _

theorem length_mem_weighEnds (ops : List Op) : ops.length ∈ weighEnds ops := by
  rw [weighEnds_eq, mem_sortDedupN]; simp

theorem naturalEnd_mem_weighEnds (ops : List Op) (p : Nat) (it m : UInt16)
    (hp : ops[p]? = some (Op.loop it m)) : naturalEnd ops.length p m.toNat ∈ weighEnds ops := by
  rw [weighEnds_eq, mem_sortDedupN, List.mem_append]
  left
  unfold naturalEnds
  rw [List.mem_filterMap]
  exact ⟨(Op.loop it m, p), List.mem_zipIdx_iff_getElem?.mpr hp, rfl⟩

theorem weighEnds_le (ops : List Op) : ∀ e ∈ weighEnds ops, e ≤ ops.length := by
  intro e he
  rw [weighEnds_eq, mem_sortDedupN, List.mem_append] at he
  rcases he with he | he
  · unfold naturalEnds at he
    rw [List.mem_filterMap] at he
    obtain ⟨⟨op, j⟩, _, h⟩ := he
    cases op
    case loop it m =>
      simp only [Option.some.injEq] at h
      subst h
      unfold naturalEnd
      omega
    all_goals simp at h
  · simp at he; omega

theorem getLast_of_max : ∀ (l : List Nat) (n : Nat), l.Pairwise (· < ·) → n ∈ l → (∀ e ∈ l, e ≤ n) →
    l.getLast? = some n := by
  intro l
  induction l with
  | nil => intro n _ h; simp at h
  | cons a t ih =>
    intro n hpw hn hle
    have hpw' := List.pairwise_cons.mp hpw
    cases t with
    | nil => simp at hn; simp [hn]
    | cons b t' =>
      rw [List.getLast?_cons_cons]
      refine ih n hpw'.2 ?_ (fun e he => hle e (List.mem_cons_of_mem _ he))
      rcases List.mem_cons.mp hn with h | h
      · have h1 := hpw'.1 b List.mem_cons_self
        have h2 := hle b (List.mem_cons_of_mem _ List.mem_cons_self)
        omega
      · exact h

/-- THE refinement theorem: the dynamic-programming weigher computes the specification's weight -/
theorem weightDP_eq_weight (ops : List Op) : weightDP ops = weight ops := by
  unfold weightDP
  rw [← winS_full ops]
  refine endsFold_spec ops (weighEnds ops) (0, List.replicate ops.length none) 0 (weighEnds_pairwise ops)
    (fun e he => ⟨Nat.zero_le _, weighEnds_le ops e he⟩) (by simp) ?_ (by intro p it m _ h; omega) ?_
    ops.length (getLast_of_max _ _ (weighEnds_pairwise ops) (length_mem_weighEnds ops) (weighEnds_le ops))
  · intro p it m w _ hw
    simp only [List.getElem?_replicate] at hw
    split at hw <;> simp at hw
  · intro p it m hp
    right
    exact naturalEnd_mem_weighEnds ops p it m hp

/-! ## the work of the dynamic-programming weigher -/

/-- `Loop` instructions -/
def Op.isLoop : Op → Bool
  | .loop _ _ => true
  | _ => false

theorem weighWorkDP_eq (ops : List Op) : weighWorkDP ops = (weighEnds ops).sum := by
  unfold weighWorkDP; rw [List.map_id]

theorem sum_le_mul_length (n : Nat) : ∀ l : List Nat, (∀ e ∈ l, e ≤ n) → l.sum ≤ n * l.length := by
  intro l
  induction l with
  | nil => intro _; simp
  | cons a t ih =>
    intro h
    have h1 := h a List.mem_cons_self
    have h2 := ih (fun e he => h e (List.mem_cons_of_mem _ he))
    rw [List.sum_cons, List.length_cons, Nat.mul_succ]
    omega

/-- a strictly ascending list of numbers in `[lo, n]` sums to at most `lo + (lo+1) + … + n` -/
theorem two_sum_le_of_ascending (n : Nat) : ∀ (l : List Nat) (lo : Nat), lo ≤ n + 1 → l.Pairwise (· < ·) →
    (∀ e ∈ l, lo ≤ e ∧ e ≤ n) → 2 * l.sum + lo * lo ≤ n * (n + 1) + lo := by
  intro l
  induction l with
  | nil =>
    intro lo hlo _ _
    simp only [List.sum_nil, Nat.mul_zero, Nat.zero_add]
    cases lo with
    | zero => simp
    | succ k =>
      have hk : k ≤ n := by omega
      have := Nat.mul_le_mul hk hk
      simp only [Nat.mul_succ, Nat.succ_mul]
      omega
  | cons a t ih =>
    intro lo hlo hpw h
    have hpw' := List.pairwise_cons.mp hpw
    have ha := h a List.mem_cons_self
    have := ih (a + 1) (by omega) hpw'.2 (fun e he => by
      have h1 := hpw'.1 e he
      have h2 := h e (List.mem_cons_of_mem _ he)
      omega)
    obtain ⟨d, rfl⟩ : ∃ d, a = lo + d := ⟨a - lo, by omega⟩
    have hd := Nat.le_mul_self d
    have hc := Nat.mul_comm d lo
    rw [List.sum_cons]
    simp only [Nat.mul_add, Nat.add_mul, Nat.mul_one, Nat.one_mul] at this ⊢
    omega

theorem two_weighWorkDP_le (ops : List Op) : 2 * weighWorkDP ops ≤ ops.length * (ops.length + 1) := by
  have := two_sum_le_of_ascending ops.length (weighEnds ops) 0 (by omega) (weighEnds_pairwise ops)
    (fun e he => ⟨Nat.zero_le _, weighEnds_le ops e he⟩)
  rw [weighWorkDP_eq]
  omega

theorem weighWorkDP_le_mul_ends (ops : List Op) : weighWorkDP ops ≤ ops.length * (weighEnds ops).length := by
  rw [weighWorkDP_eq]
  exact sum_le_mul_length _ _ (weighEnds_le ops)

theorem length_naturalEnds_aux (n : Nat) : ∀ (l : List Op) (k : Nat),
    ((l.zipIdx k).filterMap fun (op, j) =>
      match op with
      | .loop _ m => some (naturalEnd n j m.toNat)
      | _ => none).length = (l.filter Op.isLoop).length := by
  intro l
  induction l with
  | nil => intro k; rfl
  | cons op t ih =>
    intro k
    rw [List.zipIdx_cons]
    cases op
    case loop it m =>
      simp only [List.filterMap_cons, List.filter_cons, Op.isLoop, List.length_cons, ih, if_true]
    all_goals
      simp only [List.filterMap_cons, List.filter_cons, Op.isLoop, ih]
      rfl

theorem length_weighEnds_le (ops : List Op) : (weighEnds ops).length ≤ (ops.filter Op.isLoop).length + 1 := by
  rw [weighEnds_eq]
  have h := length_sortDedupN (naturalEnds ops ++ [ops.length])
  have h2 : (naturalEnds ops).length = (ops.filter Op.isLoop).length :=
    length_naturalEnds_aux ops.length ops 0
  simp only [List.length_append, List.length_singleton] at h
  omega

end Mel.VM
