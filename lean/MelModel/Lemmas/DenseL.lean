/- helper lemmas for the dense Merkle tree part of C07 (soundness direction; Props/C07Dense.lean) -/
import MelModel.Merkle
import MelModel.Lemmas.MerkleL
namespace Mel.Merkle

/-! ### the verifier's fold -/

theorem verifyDense_iff (H : Hashers) (proof : List Hash) (root : Hash) (i : Nat) (leaf : Hash) :
    verifyDense H proof root i leaf = true ↔ (proof.foldl (dstep H) (leaf, i)).1 = root := by
  unfold verifyDense
  exact beq_iff_eq

theorem denseProofLevels_length (H : Hashers) (d : Nat) (lvl : List Hash) (i : Nat) :
    (denseProofLevels H d lvl i).length = d := by
  induction d generalizing lvl i with
  | zero => simp [denseProofLevels]
  | succ d ih => simp [denseProofLevels, ih]

/-- soundness at the level of one tree level: a fold of `d` steps from `(leaf, i)` that ends in the root of a level
    of `2 ^ d` hashes started from the hash at position `i` -/
theorem dense_levels_sound (H : Hashers) (hi : Inj H) (d : Nat) (lvl : List Hash) (i : Nat) (leaf : Hash)
    (proof : List Hash) (hl : lvl.length = 2 ^ d) (hidx : i < 2 ^ d) (hp : proof.length = d)
    (hv : (proof.foldl (dstep H) (leaf, i)).1 = (reduce H d lvl).headD Z) : leaf = lvl.getD i Z := by
  induction d generalizing lvl i leaf proof with
  | zero =>
    simp at hl hidx
    subst hidx
    match proof, hp with
    | [], _ =>
      match lvl, hl with
      | [a], _ => simpa [reduce] using hv
  | succ d ih =>
    match proof, hp with
    | s :: p, hp =>
      simp at hp
      have hlen : (pairUp H lvl).length = 2 ^ d := by rw [pairUp_length, hl, Nat.pow_succ]; omega
      have hi2 : i / 2 < 2 ^ d := by rw [Nat.pow_succ] at hidx; omega
      simp only [List.foldl_cons, reduce] at hv
      have hstep : dstep H (leaf, i) s =
          (if i % 2 = 1 then hashNode H s leaf else hashNode H leaf s, i / 2) := rfl
      rw [hstep] at hv
      have hpar := ih (pairUp H lvl) (i / 2) _ p hlen hi2 hp hv
      rw [pairUp_getD H lvl (i / 2) (by rw [hl, Nat.pow_succ]; omega)] at hpar
      by_cases hodd : i % 2 = 1
      · rw [if_pos hodd] at hpar
        have : 2 * (i / 2) + 1 = i := by omega
        rw [this] at hpar
        exact (hashNode_inj H hi _ _ _ _ hpar).2
      · rw [if_neg hodd] at hpar
        have : 2 * (i / 2) = i := by omega
        rw [this] at hpar
        exact (hashNode_inj H hi _ _ _ _ hpar).1

/-! ### the leaves -/

theorem denseLeaves_getD_pad (H : Hashers) (blocks : List Bytes) (i : Nat) (hi : blocks.length ≤ i) :
    (denseLeaves H blocks).getD i Z = Z := by
  simp only [denseLeaves, List.getD_eq_getElem?_getD]
  rw [List.getElem?_append_right (by simpa using hi)]
  simp only [List.getElem?_replicate]
  split <;> rfl

theorem denseLeaves_length_eq (H : Hashers) (blocks : List Bytes) :
    (denseLeaves H blocks).length = nextPow2 blocks.length := by
  obtain ⟨e, he, hle⟩ := nextPow2_spec blocks.length
  simp [denseLeaves, he]
  omega

theorem dense_shape (H : Hashers) (blocks : List Bytes) :
    2 ^ Nat.log2 (denseLeaves H blocks).length = (denseLeaves H blocks).length ∧
    blocks.length ≤ (denseLeaves H blocks).length := by
  obtain ⟨e, he, hle⟩ := denseLeaves_length H blocks
  rw [he, Nat.log2_two_pow]
  exact ⟨rfl, hle⟩

/-! ### soundness of `verifyDense` -/

theorem dense_sound (H : Hashers) (hi : Inj H) (blocks : List Bytes) (i : Nat) (leaf : Hash)
    (proof : List Hash)
    (hp : proof.length = Nat.log2 (denseLeaves H blocks).length)
    (hidx : i < (denseLeaves H blocks).length)
    (hv : verifyDense H proof (denseRoot H blocks) i leaf = true) :
    leaf = (denseLeaves H blocks).getD i Z := by
  obtain ⟨e, he, _⟩ := denseLeaves_length H blocks
  rw [he, Nat.log2_two_pow] at hp
  rw [he] at hidx
  have hv' := (verifyDense_iff H _ _ _ _).mp hv
  simp only [denseRoot, he, Nat.log2_two_pow] at hv'
  exact dense_levels_sound H hi e (denseLeaves H blocks) i leaf proof he hidx hp hv'

theorem dense_member_only (H : Hashers) (hi : Inj H) (blocks : List Bytes) (i : Nat)
    (b : Bytes) (proof : List Hash)
    (hp : proof.length = Nat.log2 (denseLeaves H blocks).length)
    (hidx : i < blocks.length)
    (hv : verifyDense H proof (denseRoot H blocks) i (hashData H b) = true) :
    blocks.getD i [] = b := by
  have hsh := (dense_shape H blocks).2
  have h := dense_sound H hi blocks i (hashData H b) proof hp (by omega) hv
  rw [denseLeaves_getD H blocks i hidx] at h
  exact (hashData_inj H hi _ _ h).symm

theorem dense_padding_nothing (H : Hashers) (hi : Inj H) (blocks : List Bytes) (i : Nat)
    (b : Bytes) (proof : List Hash)
    (hp : proof.length = Nat.log2 (denseLeaves H blocks).length)
    (hlo : blocks.length ≤ i) (hidx : i < (denseLeaves H blocks).length) (hb : b ≠ []) :
    verifyDense H proof (denseRoot H blocks) i (hashData H b) = false := by
  cases hv : verifyDense H proof (denseRoot H blocks) i (hashData H b) with
  | false => rfl
  | true =>
    have h := dense_sound H hi blocks i (hashData H b) proof hp hidx hv
    rw [denseLeaves_getD_pad H blocks i hlo] at h
    have hz : hashData H b = hashData H [] := by rw [hashData_nil]; exact h
    exact absurd (hashData_inj H hi _ _ hz) hb

/-! ### the root determines the list -/

/-- two levels of `2 ^ d` hashes with the same root are equal -/
theorem reduce_injective (H : Hashers) (hi : Inj H) (d : Nat) (lvl lvl' : List Hash)
    (hl : lvl.length = 2 ^ d) (hl' : lvl'.length = 2 ^ d)
    (hr : (reduce H d lvl).headD Z = (reduce H d lvl').headD Z) : lvl = lvl' := by
  apply List.ext_getElem (by rw [hl, hl'])
  intro i h₁ h₂
  have hidx : i < 2 ^ d := by omega
  have hc := dense_levels H d lvl i hl hidx
  rw [hr] at hc
  have hs := dense_levels_sound H hi d lvl' i (lvl.getD i Z) (denseProofLevels H d lvl i) hl' hidx
    (denseProofLevels_length H d lvl i) hc
  simpa [List.getD_eq_getElem?_getD, h₁, h₂] using hs

theorem hashData_ne_Z (H : Hashers) (hi : Inj H) (b : Bytes) (hb : b ≠ []) : hashData H b ≠ Z := by
  intro h
  have hz : hashData H b = hashData H [] := by rw [hashData_nil]; exact h
  exact hb (hashData_inj H hi _ _ hz)

theorem getD_mem_ne (bs : List Bytes) (hne : ∀ x ∈ bs, x ≠ []) (i : Nat) (hi : i < bs.length) :
    bs.getD i [] ≠ [] := by
  rw [List.getD_eq_getElem?_getD, List.getElem?_eq_getElem hi]
  exact hne _ (List.getElem_mem hi)

theorem dense_root_injective (H : Hashers) (hi : Inj H) (bs bs' : List Bytes)
    (hne : ∀ x ∈ bs, x ≠ []) (hne' : ∀ x ∈ bs', x ≠ [])
    (hsz : nextPow2 bs.length = nextPow2 bs'.length)
    (hr : denseRoot H bs = denseRoot H bs') : bs = bs' := by
  obtain ⟨e, he, hle⟩ := denseLeaves_length H bs
  have he' : (denseLeaves H bs').length = 2 ^ e := by
    rw [denseLeaves_length_eq, ← hsz, ← denseLeaves_length_eq H, he]
  have hle' : bs'.length ≤ 2 ^ e := by rw [← he']; exact (dense_shape H bs').2
  simp only [denseRoot, he, he', Nat.log2_two_pow] at hr
  have hlv := reduce_injective H hi e _ _ he he' hr
  -- the lengths agree: a real leaf is not `Z`, padding is
  have hlen : bs.length = bs'.length := by
    rcases Nat.lt_trichotomy bs.length bs'.length with h | h | h
    · exfalso
      have h1 := denseLeaves_getD_pad H bs bs.length (Nat.le_refl _)
      have h2 := denseLeaves_getD H bs' bs.length h
      rw [hlv, h2] at h1
      exact hashData_ne_Z H hi _ (getD_mem_ne bs' hne' _ h) h1
    · exact h
    · exfalso
      have h1 := denseLeaves_getD_pad H bs' bs'.length (Nat.le_refl _)
      have h2 := denseLeaves_getD H bs bs'.length h
      rw [← hlv, h2] at h1
      exact hashData_ne_Z H hi _ (getD_mem_ne bs hne _ h) h1
  apply List.ext_getElem hlen
  intro i h₁ h₂
  have h1 := denseLeaves_getD H bs i h₁
  have h2 := denseLeaves_getD H bs' i h₂
  rw [hlv, h2] at h1
  have := hashData_inj H hi _ _ h1
  simpa [List.getD_eq_getElem?_getD, h₁, h₂] using this.symm

end Mel.Merkle
