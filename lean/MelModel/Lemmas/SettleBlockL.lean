/- helper lemmas for C15Block: what the three settlement phases do to the STATE, pool by pool -/
import MelModel.Lemmas.TotalSeal
namespace Mel
open Mel.Gen
open TotalSealL
namespace SettleBlockL

/-- the first / second output of a transaction as the settlement code reads it -/
abbrev out0 (tx : Tx) : CoinData := tx.outputs.headD default
abbrev out1 (tx : Tx) : CoinData := (tx.outputs.drop 1).headD default

/-! ### generic: a fold over transactions whose step only touches coins of that transaction -/

theorem fold_local {step : CoinMap → Tx → Outcome CoinMap}
    (hloc : ∀ c tx c' id, step c tx = .ok c' → id.txhash ≠ tx.hash → c'.getCoin id = c.getCoin id) :
    ∀ (l : List Tx) (c0 c' : CoinMap), Outcome.foldlM' step c0 l = .ok c' →
      (∀ id, (∀ tx ∈ l, id.txhash ≠ tx.hash) → c'.getCoin id = c0.getCoin id) ∧
      ((l.map (·.hash)).Nodup → ∀ tx ∈ l, ∃ c c1, step c tx = .ok c1 ∧
        (∀ i, c.getCoin ⟨tx.hash, i⟩ = c0.getCoin ⟨tx.hash, i⟩) ∧
        (∀ i, c'.getCoin ⟨tx.hash, i⟩ = c1.getCoin ⟨tx.hash, i⟩)) := by
  intro l
  induction l with
  | nil =>
    intro c0 c' h
    simp only [Outcome.foldlM'] at h
    cases h
    exact ⟨fun _ _ => rfl, fun _ tx htx => by cases htx⟩
  | cons a as ih =>
    intro c0 c' h
    simp only [Outcome.foldlM'] at h
    split at h
    · next c1 h1 =>
      obtain ⟨ih1, ih2⟩ := ih c1 c' h
      refine ⟨?_, ?_⟩
      · intro id hid
        rw [ih1 id (fun tx htx => hid tx (List.mem_cons_of_mem _ htx)),
          hloc _ _ _ _ h1 (hid a List.mem_cons_self)]
      · intro hn tx htx
        simp only [List.map_cons, List.nodup_cons, List.mem_map, not_exists, not_and] at hn
        rcases List.mem_cons.mp htx with e | htx
        · subst e
          refine ⟨c0, c1, h1, fun _ => rfl, fun i => ih1 _ ?_⟩
          intro tx' htx' e
          exact hn.1 tx' htx' e.symm
        · obtain ⟨c, c2, hs, hc, hc'⟩ := ih2 hn.2 tx htx
          refine ⟨c, c2, hs, fun i => ?_, hc'⟩
          rw [hc i]
          exact hloc _ _ _ _ h1 (fun e => hn.1 tx htx e)
    · cases h
    · cases h

/-- success of a fold whose step succeeds or fails regardless of the accumulator does not depend on the start -/
theorem fold_ok_any {α β} {step : β → α → Outcome β}
    (hind : ∀ b b' a r, step b a = .ok r → ∃ r', step b' a = .ok r') :
    ∀ (l : List α) (b b' r : β), Outcome.foldlM' step b l = .ok r → ∃ r', Outcome.foldlM' step b' l = .ok r' := by
  intro l
  induction l with
  | nil => intro b b' r _; exact ⟨b', rfl⟩
  | cons a as ih =>
    intro b b' r h
    simp only [Outcome.foldlM'] at h
    split at h
    · next b1 h1 =>
      obtain ⟨b1', h1'⟩ := hind b b' a b1 h1
      obtain ⟨r', hr'⟩ := ih b1 b1' r h
      exact ⟨r', by simp only [Outcome.foldlM', h1']; exact hr'⟩
    · cases h
    · cases h

/-! ### generic: a fold over pool keys whose step only touches its own pool and its own requests' coins -/

theorem sameBase_trans {a b c : State} (h1 : SameBase a b) (h2 : SameBase b c) : SameBase a c :=
  ⟨h2.txs.trans h1.txs, h2.height.trans h1.height, h2.network.trans h1.network,
    h2.feePool.trans h1.feePool, h2.tips.trans h1.tips⟩

/-- two states hold the same coins at every output slot of the transactions `R` -/
def AgreeC (R : List Tx) (a b : State) : Prop :=
  ∀ tx ∈ R, ∀ i, a.coins.getCoin ⟨tx.hash, i⟩ = b.coins.getCoin ⟨tx.hash, i⟩

structure Local (F : PoolKey → State → Outcome State) (R : PoolKey → List Tx) : Prop where
  pools : ∀ k st st', F k st = .ok st' → ∀ k', k' ≠ k → st'.pools.get k' = st.pools.get k'
  coins : ∀ k st st', F k st = .ok st' → ∀ id, (∀ tx ∈ R k, id.txhash ≠ tx.hash) →
    st'.coins.getCoin id = st.coins.getCoin id
  base : ∀ k st st', F k st = .ok st' → SameBase st st'

/-- requests of different pools have different hashes -/
def Disjoint (R : PoolKey → List Tx) : Prop :=
  ∀ k k', k ≠ k' → ∀ tx ∈ R k, ∀ tx' ∈ R k', tx.hash ≠ tx'.hash

/-- **every pool is settled once, on a state that agrees with the initial one where it looks** -/
theorem fold_pools {F : PoolKey → State → Outcome State} {R : PoolKey → List Tx} (hL : Local F R) :
    ∀ (ks : List PoolKey) (s s' : State), ks.Nodup →
      Outcome.foldlM' (fun st k => F k st) s ks = .ok s' →
      SameBase s s' ∧
      (∀ k, k ∉ ks → s'.pools.get k = s.pools.get k) ∧
      (∀ id, (∀ k ∈ ks, ∀ tx ∈ R k, id.txhash ≠ tx.hash) → s'.coins.getCoin id = s.coins.getCoin id) ∧
      (∀ k ∈ ks, ∃ st st', F k st = .ok st' ∧ SameBase s st ∧ s.pools.get k = st.pools.get k ∧
          st'.pools.get k = s'.pools.get k ∧ (Disjoint R → AgreeC (R k) s st ∧ AgreeC (R k) st' s')) := by
  intro ks
  induction ks with
  | nil =>
    intro s s' _ h
    simp only [Outcome.foldlM'] at h
    cases h
    exact ⟨SameBase.refl _, fun _ _ => rfl, fun _ _ => rfl, fun k hk => by cases hk⟩
  | cons k0 ks ih =>
    intro s s' hn h
    simp only [Outcome.foldlM'] at h
    have hn' := List.nodup_cons.mp hn
    split at h
    · next s1 h1 =>
      obtain ⟨ib, ip, ic, id'⟩ := ih s1 s' hn'.2 h
      have hb1 := hL.base _ _ _ h1
      refine ⟨sameBase_trans hb1 ib, ?_, ?_, ?_⟩
      · intro k hk
        have hk1 : k ≠ k0 := fun e => hk (e ▸ List.mem_cons_self)
        have hk2 : k ∉ ks := fun hm => hk (List.mem_cons_of_mem _ hm)
        rw [ip k hk2, hL.pools _ _ _ h1 k hk1]
      · intro id hid
        rw [ic id (fun k hk => hid k (List.mem_cons_of_mem _ hk)),
          hL.coins _ _ _ h1 id (hid k0 List.mem_cons_self)]
      · intro k hk
        rcases List.mem_cons.mp hk with e | hks
        · subst e
          refine ⟨s, s1, h1, SameBase.refl _, rfl, (ip _ hn'.1).symm, fun hd => ⟨fun _ _ _ => rfl, ?_⟩⟩
          intro tx htx i
          refine (ic _ ?_).symm
          intro k' hk' tx' htx'
          refine hd _ k' ?_ tx htx tx' htx'
          intro e; subst e; exact hn'.1 hk'
        · obtain ⟨st, st', hF, hb, hp, hp', hc⟩ := id' k hks
          have hne : k ≠ k0 := by intro e; subst e; exact hn'.1 hks
          refine ⟨st, st', hF, sameBase_trans hb1 hb, ?_, hp', fun hd => ⟨?_, (hc hd).2⟩⟩
          · rw [← hp, hL.pools _ _ _ h1 k hne]
          · intro tx htx i
            rw [← (hc hd).1 tx htx i]
            refine (hL.coins _ _ _ h1 _ ?_).symm
            intro tx' htx'
            exact hd k k0 hne tx htx tx' htx'
    · cases h
    · cases h

/-! ### the requests of a block, pool by pool -/

theorem nodup_filter_hashes {l : List Tx} (q : Tx → Bool) (h : (l.map (·.hash)).Nodup) :
    ((l.filter q).map (·.hash)).Nodup :=
  List.Nodup.sublist (List.Sublist.map _ List.filter_sublist) h

theorem nodup_requests_hashes {txs : List Tx} (q : Tx → Bool) (k : PoolKey) (h : (txs.map (·.hash)).Nodup) :
    ((transactionsForPool (txs.filter q) k).map (·.hash)).Nodup := by
  unfold transactionsForPool
  exact nodup_filter_hashes _ (nodup_filter_hashes _ h)

theorem disjoint_requests {reqs : List Tx} (h : (reqs.map (·.hash)).Nodup) :
    Disjoint (transactionsForPool reqs) := by
  intro k k' hne tx htx tx' htx' e
  obtain ⟨h1, h2⟩ := mem_transactionsForPool'.mp htx
  obtain ⟨h1', h2'⟩ := mem_transactionsForPool'.mp htx'
  have : tx = tx' := tx_eq_of_hash reqs h tx h1 tx' h1' e
  subst this
  rw [h2] at h2'
  exact hne (Option.some.inj h2')

theorem mem_extract_iff {reqs : List Tx} {k : PoolKey} :
    k ∈ extractPoolKeysSorted reqs ↔ transactionsForPool reqs k ≠ [] := by
  constructor
  · intro h e
    obtain ⟨tx, htx, hk⟩ := mem_extractPoolKeysSorted h
    have : tx ∈ transactionsForPool reqs k := mem_transactionsForPool'.mpr ⟨htx, hk⟩
    rw [e] at this
    cases this
  · intro h
    obtain ⟨tx, htx⟩ := List.exists_mem_of_ne_nil _ h
    obtain ⟨h1, h2⟩ := mem_transactionsForPool'.mp htx
    unfold extractPoolKeysSorted
    rw [mem_sortDedup]
    exact List.mem_filterMap.mpr ⟨tx, h1, h2⟩

/-! ### arithmetic -/

theorem MAX_COINVAL_le : MAX_COINVAL ≤ U128_MAX := by decide

theorem multiplyFrac_eq_ok {x n d v : Nat} (h : multiplyFrac x n d = .ok v) :
    0 < d ∧ v = min (x * n / d) U128_MAX := by
  unfold multiplyFrac at h
  split at h
  · cases h
  · next hd => cases h; exact ⟨Nat.pos_of_ne_zero hd, rfl⟩

theorem min_cap {x v : Nat} (h : v = min x U128_MAX) : min v MAX_COINVAL = min x MAX_COINVAL := by
  have := MAX_COINVAL_le
  omega

theorem satSum_eq_sum : ∀ (l : List Nat), l.sum ≤ U128_MAX → satSum l = l.sum := by
  have aux : ∀ (l : List Nat) (a : Nat), a + l.sum ≤ U128_MAX → l.foldl satAdd128 a = a + l.sum := by
    intro l
    induction l with
    | nil => intro a _; simp
    | cons x xs ih =>
      intro a h
      simp only [List.sum_cons] at h
      simp only [List.foldl_cons, List.sum_cons]
      have e : satAdd128 a x = a + x := by unfold satAdd128; omega
      rw [e, ih (a + x) (by omega)]
      omega
  intro l h
  have := aux l 0 (by omega)
  unfold satSum
  omega

theorem sum_filter_map {α} (q : α → Bool) (f : α → Nat) : ∀ l : List α,
    ((l.filter q).map f).sum = (l.map fun a => if q a then f a else 0).sum := by
  intro l
  induction l with
  | nil => rfl
  | cons a as ih =>
    simp only [List.filter_cons, List.map_cons, List.sum_cons]
    by_cases h : q a = true
    · simp only [h, if_true, List.map_cons, List.sum_cons, ih]
    · simp only [h, Bool.false_eq_true, if_false, ih]; omega

theorem sum_le_sum_of_le {α} (f g : α → Nat) : ∀ l : List α, (∀ a ∈ l, f a ≤ g a) →
    (l.map f).sum ≤ (l.map g).sum := by
  intro l
  induction l with
  | nil => intro _; simp
  | cons a as ih =>
    intro h
    simp only [List.map_cons, List.sum_cons]
    have := h a List.mem_cons_self
    have := ih (fun b hb => h b (List.mem_cons_of_mem _ hb))
    omega

/-- shares `⌊w·vᵢ/T⌋` of the summands of `T` add up to at most `w` -/
theorem shares_le {α} (w : Nat) (v : α → Nat) (l : List α) :
    (l.map fun a => w * v a / (l.map v).sum).sum ≤ w := by
  by_cases hT : (l.map v).sum = 0
  · rw [hT]
    have : ∀ l : List α, (l.map fun a => w * v a / 0).sum = 0 := by
      intro l; induction l <;> simp_all
    rw [this]; omega
  · have h := pro_rata_aux w (l.map v).sum (l.map v)
    rw [List.map_map] at h
    have e : w * (l.map v).sum = (l.map v).sum * w := Nat.mul_comm _ _
    rw [e, Nat.mul_comm] at h
    exact Nat.le_of_mul_le_mul_left h (Nat.pos_of_ne_zero hT)

/-- one price up to rounding: the floors of `w·v₁/T` and `w·v₂/T` are in proportion `v₁ : v₂` within one unit -/
theorem same_price {w T v₁ v₂ : Nat} (hT : 0 < T) (hv : 0 < v₁) :
    (w * v₁ / T) * v₂ < (w * v₂ / T + 1) * v₁ := by
  have h1 : (w * v₁ / T) * T ≤ w * v₁ := Nat.div_mul_le_self _ _
  have h2 : w * v₂ < (w * v₂ / T + 1) * T := by
    have := Nat.lt_mul_div_succ (w * v₂) hT
    rw [Nat.mul_comm T] at this
    exact this
  -- multiply: a₁·T·v₂ ≤ w·v₁·v₂ < (a₂+1)·T·v₁
  have h3 : (w * v₁ / T) * v₂ * T ≤ w * v₁ * v₂ := by
    have := Nat.mul_le_mul_right v₂ h1
    have e : w * v₁ / T * T * v₂ = w * v₁ / T * v₂ * T := by ac_rfl
    rw [e] at this; exact this
  have h4 : w * v₁ * v₂ < (w * v₂ / T + 1) * v₁ * T := by
    have := Nat.mul_lt_mul_of_pos_right h2 hv
    have e1 : w * v₂ * v₁ = w * v₁ * v₂ := by ac_rfl
    have e2 : (w * v₂ / T + 1) * T * v₁ = (w * v₂ / T + 1) * v₁ * T := by ac_rfl
    rw [e1, e2] at this; exact this
  exact Nat.lt_of_mul_lt_mul_right (Nat.lt_of_le_of_lt h3 h4)

/-! ### the swap phase, one pool -/

/-- the coin a swap request is rewritten to (`process_swaps_for_single_pool`, loop body) -/
def swapCoin (k : PoolKey) (lw rw tl tr : Nat) (tx : Tx) : Outcome CoinData :=
  if (out0 tx).denom = k.left then (multiplyFrac rw (out0 tx).value tl).bind fun v =>
      .ok ({ out0 tx with denom := k.right, value := min v MAX_COINVAL } : CoinData)
  else (multiplyFrac lw (out0 tx).value tr).bind fun v =>
      .ok ({ out0 tx with denom := k.left, value := min v MAX_COINVAL } : CoinData)

def swapStep (k : PoolKey) (height : Nat) (tip : Bool) (lw rw tl tr : Nat) (coins : CoinMap) (tx : Tx) :
    Outcome CoinMap :=
  (swapCoin k lw rw tl tr tx).bind fun cd =>
    .ok (coins.insertCoin (outCoinID tx 0) { coinData := cd, height := height } tip)

theorem processSwapsForPool_inv {k : PoolKey} {s s' : State} {swaps : List Tx}
    (h : processSwapsForPool k s swaps = .ok s') :
    ∃ p p' lw rw coins, s.pools.get k = some p ∧
      p.swapMany (swapTL k swaps) (swapTR k swaps) = .ok (p', lw, rw) ∧
      Outcome.foldlM' (swapStep k s.height s.tip906 lw rw (swapTL k swaps) (swapTR k swaps)) s.coins swaps
        = .ok coins ∧
      s' = { s with coins := coins, pools := s.pools.set k p' } := by
  unfold processSwapsForPool at h
  split at h
  · cases h
  · next p hp =>
    simp only at h
    split at h
    · cases h
    · cases h
    · next p' lw rw hsm =>
      obtain ⟨coins, hc, h2⟩ := Outcome.bind_eq_ok h
      cases h2
      exact ⟨p, p', lw, rw, coins, hp, hsm, hc, rfl⟩

theorem processSwapsForPool_of {k : PoolKey} {s : State} {swaps : List Tx} {p p' : PoolState} {lw rw : Nat}
    {coins : CoinMap} (hp : s.pools.get k = some p)
    (hsm : p.swapMany (swapTL k swaps) (swapTR k swaps) = .ok (p', lw, rw))
    (hc : Outcome.foldlM' (swapStep k s.height s.tip906 lw rw (swapTL k swaps) (swapTR k swaps)) s.coins swaps
        = .ok coins) :
    processSwapsForPool k s swaps = .ok { s with coins := coins, pools := s.pools.set k p' } := by
  unfold swapTL swapTR at hsm
  unfold swapTL swapTR swapStep swapCoin at hc
  unfold processSwapsForPool
  simp only [hp, hsm]
  rw [hc]
  rfl

theorem swapCoin_ok {k : PoolKey} {lw rw tl tr : Nat} {tx : Tx} {cd : CoinData}
    (h : swapCoin k lw rw tl tr tx = .ok cd) :
    ((out0 tx).denom = k.left → 0 < tl ∧
      cd = { out0 tx with denom := k.right, value := min (rw * (out0 tx).value / tl) MAX_COINVAL }) ∧
    ((out0 tx).denom ≠ k.left → 0 < tr ∧
      cd = { out0 tx with denom := k.left, value := min (lw * (out0 tx).value / tr) MAX_COINVAL }) := by
  unfold swapCoin at h
  split at h
  · next hd =>
    refine ⟨fun _ => ?_, fun hn => absurd hd hn⟩
    obtain ⟨v, hv, h2⟩ := Outcome.bind_eq_ok h
    cases h2
    obtain ⟨hpos, ev⟩ := multiplyFrac_eq_ok hv
    exact ⟨hpos, by rw [min_cap ev]⟩
  · next hd =>
    refine ⟨fun hn => absurd hn hd, fun _ => ?_⟩
    obtain ⟨v, hv, h2⟩ := Outcome.bind_eq_ok h
    cases h2
    obtain ⟨hpos, ev⟩ := multiplyFrac_eq_ok hv
    exact ⟨hpos, by rw [min_cap ev]⟩

theorem swapStep_local {k : PoolKey} {height : Nat} {tip : Bool} {lw rw tl tr : Nat} {c c' : CoinMap} {tx : Tx}
    (h : swapStep k height tip lw rw tl tr c tx = .ok c') :
    ∃ cd, swapCoin k lw rw tl tr tx = .ok cd ∧
      c' = c.insertCoin (outCoinID tx 0) { coinData := cd, height := height } tip := by
  unfold swapStep at h
  obtain ⟨cd, hcd, h2⟩ := Outcome.bind_eq_ok h
  cases h2
  exact ⟨cd, hcd, rfl⟩

theorem swapFold_spec {k : PoolKey} {height : Nat} {tip : Bool} {lw rw tl tr : Nat} {l : List Tx}
    {c0 c' : CoinMap} (h : Outcome.foldlM' (swapStep k height tip lw rw tl tr) c0 l = .ok c') :
    (∀ id, (∀ tx ∈ l, id ≠ outCoinID tx 0) → c'.getCoin id = c0.getCoin id) ∧
    ((l.map (·.hash)).Nodup → ∀ tx ∈ l, ∃ cd, swapCoin k lw rw tl tr tx = .ok cd ∧
      c'.getCoin (outCoinID tx 0) = some { coinData := cd, height := height }) := by
  refine ⟨?_, ?_⟩
  · intro id hid
    refine Outcome.foldlM'_inv_mem (fun c : CoinMap => c.getCoin id = c0.getCoin id) _ l ?_ _ _ rfl h
    intro b tx b' htx hb hf
    obtain ⟨cd, _, e⟩ := swapStep_local hf
    rw [e, CoinMap.getCoin_insertCoin_ne _ _ _ (hid tx htx)]
    exact hb
  · intro hn tx htx
    have hloc : ∀ c tx c' id, swapStep k height tip lw rw tl tr c tx = .ok c' → id.txhash ≠ tx.hash →
        c'.getCoin id = c.getCoin id := by
      intro c tx c' id hf hne
      obtain ⟨cd, _, e⟩ := swapStep_local hf
      rw [e, CoinMap.getCoin_insertCoin_ne]
      intro e'; apply hne; rw [e']; rfl
    obtain ⟨c, c1, hs, _, hc'⟩ := (fold_local hloc l c0 c' h).2 hn tx htx
    obtain ⟨cd, hcd, e⟩ := swapStep_local hs
    refine ⟨cd, hcd, ?_⟩
    show c'.getCoin ⟨tx.hash, 0⟩ = _
    rw [hc' 0, e]
    exact CoinMap.getCoin_insertCoin_self _ _ _ _

/-- the coins of the requests `reqs` of pool `k` in `coins'` are the pro-rata payouts of what `swap_many` withdrew
    (`lw` lefts, `rw` rights): a left-side request of value `v` holds `min ⌊rw·v/l⌋ MAX_COINVAL` of the right
    denomination, a request on the other side `min ⌊lw·v/r⌋ MAX_COINVAL` of the left one — covenant hash and
    additional data as in the transaction's first output, height of the block -/
structure SwapPaid (k : PoolKey) (reqs : List Tx) (height lw rw : Nat) (coins' : CoinMap) : Prop where
  left : ∀ tx ∈ reqs, (out0 tx).denom = k.left → 0 < swapTL k reqs ∧
    coins'.getCoin ⟨tx.hash, 0⟩ = some ⟨{ out0 tx with
      denom := k.right, value := min (rw * (out0 tx).value / swapTL k reqs) MAX_COINVAL }, height⟩
  right : ∀ tx ∈ reqs, (out0 tx).denom ≠ k.left → 0 < swapTR k reqs ∧
    coins'.getCoin ⟨tx.hash, 0⟩ = some ⟨{ out0 tx with
      denom := k.left, value := min (lw * (out0 tx).value / swapTR k reqs) MAX_COINVAL }, height⟩

theorem swapPaid_of_fold {k : PoolKey} {height : Nat} {tip : Bool} {lw rw : Nat} {l : List Tx}
    {c0 c' : CoinMap} (hn : (l.map (·.hash)).Nodup)
    (h : Outcome.foldlM' (swapStep k height tip lw rw (swapTL k l) (swapTR k l)) c0 l = .ok c') :
    SwapPaid k l height lw rw c' := by
  have hs := (swapFold_spec h).2 hn
  refine ⟨?_, ?_⟩
  · intro tx htx hd
    obtain ⟨cd, hcd, hg⟩ := hs tx htx
    obtain ⟨hpos, e⟩ := (swapCoin_ok hcd).1 hd
    exact ⟨hpos, by rw [← e]; exact hg⟩
  · intro tx htx hd
    obtain ⟨cd, hcd, hg⟩ := hs tx htx
    obtain ⟨hpos, e⟩ := (swapCoin_ok hcd).2 hd
    exact ⟨hpos, by rw [← e]; exact hg⟩

theorem SwapPaid.congr {k : PoolKey} {reqs : List Tx} {height lw rw : Nat} {c c' : CoinMap}
    (h : SwapPaid k reqs height lw rw c) (he : ∀ tx ∈ reqs, c'.getCoin ⟨tx.hash, 0⟩ = c.getCoin ⟨tx.hash, 0⟩) :
    SwapPaid k reqs height lw rw c' :=
  ⟨fun tx htx hd => ⟨(h.left tx htx hd).1, by rw [he tx htx]; exact (h.left tx htx hd).2⟩,
   fun tx htx hd => ⟨(h.right tx htx hd).1, by rw [he tx htx]; exact (h.right tx htx hd).2⟩⟩

/-- **one pool of the swap phase** -/
theorem swap_phase_pool {k : PoolKey} {s s' : State} {swaps : List Tx} {p : PoolState}
    (hp : s.pools.get k = some p) (h : processSwapsForPool k s swaps = .ok s') :
    ∃ p' lw rw, p.swapMany (swapTL k swaps) (swapTR k swaps) = .ok (p', lw, rw) ∧
      s'.pools = s.pools.set k p' ∧
      ((swaps.map (·.hash)).Nodup → SwapPaid k swaps s.height lw rw s'.coins) ∧
      (∀ id, (∀ tx ∈ swaps, id ≠ outCoinID tx 0) → s'.coins.getCoin id = s.coins.getCoin id) ∧
      SameBase s s' := by
  obtain ⟨p0, p', lw, rw, coins, hp0, hsm, hc, e⟩ := processSwapsForPool_inv h
  rw [hp] at hp0; cases hp0
  subst e
  exact ⟨p', lw, rw, hsm, rfl, fun hn => swapPaid_of_fold hn hc, (swapFold_spec hc).1, ⟨rfl, rfl, rfl, rfl, rfl⟩⟩

/-! ### the swap phase, all pools -/

/-- the swap requests of the block that name pool `k`, as `process_swaps` selects them -/
def swapReqs (s : State) (k : PoolKey) : List Tx := transactionsForPool (s.txs.filter (isSwapRequest s)) k

theorem swapLocal (reqs : List Tx) :
    Local (fun k st => processSwapsForPool k st (transactionsForPool reqs k)) (transactionsForPool reqs) := by
  refine ⟨?_, ?_, ?_⟩
  · intro k st st' h k' hne
    obtain ⟨p, p', lw, rw, coins, _, _, _, e⟩ := processSwapsForPool_inv h
    subst e
    exact AList.get_set_ne _ _ hne
  · intro k st st' h id hid
    exact (processSwapsForPool_coins id k st _ st' h (fun tx htx e => hid tx htx e.symm)).1
  · intro k st st' h
    obtain ⟨p, p', lw, rw, coins, _, _, _, e⟩ := processSwapsForPool_inv h
    subst e
    exact ⟨rfl, rfl, rfl, rfl, rfl⟩

theorem mem_swapReqs {s : State} {k : PoolKey} {tx : Tx} (h : tx ∈ swapReqs s k) :
    tx ∈ s.txs ∧ isSwapRequest s tx = true ∧ canonicalPoolKey tx.data = some k := by
  obtain ⟨h1, h2⟩ := mem_transactionsForPool'.mp h
  obtain ⟨h3, h4⟩ := List.mem_filter.mp h1
  exact ⟨h3, h4, h2⟩

/-- what being a swap request of pool `k` means -/
theorem swapReqs_spec {s : State} {k : PoolKey} {tx : Tx} (h : tx ∈ swapReqs s k) :
    ∃ p, s.pools.get k = some p ∧ 0 < p.lefts ∧ 0 < p.rights ∧ 0 < (out0 tx).value ∧
      ((out0 tx).denom = k.left ∨ (out0 tx).denom = k.right) ∧ tx.outputs.head? = some (out0 tx) := by
  obtain ⟨_, hreq, hk⟩ := mem_swapReqs h
  obtain ⟨k', o, rest, p, hk', ho, hpos, hp, hl, hr, hd⟩ := isSwapRequest_full hreq
  rw [hk] at hk'; cases hk'
  have e : out0 tx = o := by show tx.outputs.headD default = o; rw [ho]; rfl
  rw [e]
  exact ⟨p, hp, hl, hr, hpos, hd, by rw [ho]; rfl⟩

/-- the two sides of a canonical pool are different denominations -/
theorem canonical_sides_ne {data : Bytes} {k : PoolKey} (h : canonicalPoolKey data = some k) : k.left ≠ k.right := by
  intro e
  have := (canonicalPoolKey_some h).1
  rw [e, bytesLt_irrefl'] at this
  cases this

/-- **the whole swap phase**: base data and pools without requests are untouched, coins other than the first
    outputs of swap requests are untouched, and every pool with requests is settled once — by a run of
    `processSwapsForPool` on a state that agrees with the initial one on that pool (and, when hashes are unique,
    on the coins of that pool's requests) -/
theorem swap_phase {s s' : State} (h : processSwaps s = .ok s') :
    SameBase s s' ∧
    (∀ k, swapReqs s k = [] → s'.pools.get k = s.pools.get k) ∧
    (∀ id, (∀ tx ∈ s.txs, isSwapRequest s tx = true → id ≠ outCoinID tx 0) →
      s'.coins.getCoin id = s.coins.getCoin id) ∧
    (∀ k, swapReqs s k ≠ [] → ∃ p p' lw rw, s.pools.get k = some p ∧ s'.pools.get k = some p' ∧
      p.swapMany (swapTL k (swapReqs s k)) (swapTR k (swapReqs s k)) = .ok (p', lw, rw) ∧
      ((s.txs.map (·.hash)).Nodup → SwapPaid k (swapReqs s k) s.height lw rw s'.coins)) := by
  have h0 := h
  unfold processSwaps at h
  simp only at h
  obtain ⟨hb, hp, _, hd⟩ := fold_pools (swapLocal _) _ s s' (extractPoolKeysSorted_nodup _) h
  refine ⟨hb, ?_, ?_, ?_⟩
  · intro k hk
    refine hp k ?_
    rw [mem_extract_iff]
    exact fun hne => hne hk
  · intro id hid
    refine Outcome.foldlM'_inv (fun st : State => st.coins.getCoin id = s.coins.getCoin id) _ ?_ _ _ _ rfl h
    intro st k st' hst hf
    obtain ⟨p, p', lw, rw, coins, _, _, hc, e⟩ := processSwapsForPool_inv hf
    subst e
    show coins.getCoin id = _
    rw [(swapFold_spec hc).1 id ?_]
    · exact hst
    · intro tx htx
      obtain ⟨h1, h2⟩ := mem_transactionsForPool'.mp htx
      obtain ⟨h3, h4⟩ := List.mem_filter.mp h1
      exact hid tx h3 h4
  · intro k hk
    obtain ⟨st, st', hF, hbs, hps, hps', hc⟩ := hd k (mem_extract_iff.mpr hk)
    obtain ⟨p, p', lw, rw, coins, hp0, hsm, hfold, e⟩ := processSwapsForPool_inv hF
    refine ⟨p, p', lw, rw, by rw [hps]; exact hp0, ?_, hsm, ?_⟩
    · rw [← hps', e]; exact AList.get_set_self _ _ _
    · intro hn
      have hn1 := nodup_filter_hashes (isSwapRequest s) hn
      have hpaid := swapPaid_of_fold (nodup_requests_hashes (isSwapRequest s) k hn) hfold
      rw [hbs.height] at hpaid
      refine hpaid.congr ?_
      intro tx htx
      rw [← (hc (disjoint_requests hn1)).2 tx htx 0, e]

/-- **independence**: settling pool `k` alone, directly on the state before the phase, succeeds and gives the very
    pool and the very payouts that the whole phase (all pools, in key order) leaves for `k` -/
theorem swap_phase_alone {s s' : State} (h : processSwaps s = .ok s') (hn : (s.txs.map (·.hash)).Nodup)
    {k : PoolKey} (hk : swapReqs s k ≠ []) :
    ∃ s'', processSwapsForPool k s (swapReqs s k) = .ok s'' ∧ s''.pools.get k = s'.pools.get k ∧
      ∀ tx ∈ swapReqs s k, s''.coins.getCoin ⟨tx.hash, 0⟩ = s'.coins.getCoin ⟨tx.hash, 0⟩ := by
  unfold processSwaps at h
  simp only at h
  obtain ⟨_, _, _, hd⟩ := fold_pools (swapLocal _) _ s s' (extractPoolKeysSorted_nodup _) h
  obtain ⟨st, st', hF, hbs, hps, hps', hc⟩ := hd k (mem_extract_iff.mpr hk)
  obtain ⟨hc1, hc2⟩ := hc (disjoint_requests (nodup_filter_hashes (isSwapRequest s) hn))
  obtain ⟨p, p', lw, rw, coins, hp0, hsm, hfold, e⟩ := processSwapsForPool_inv hF
  have hfold' : ∃ r', Outcome.foldlM' (swapStep k s.height s.tip906 lw rw (swapTL k (swapReqs s k))
      (swapTR k (swapReqs s k))) s.coins (swapReqs s k) = .ok r' := by
    rw [← hbs.height, ← hbs.tip906]
    exact fold_ok_any (fun b b' a r hr => by
      obtain ⟨cd, hcd, _⟩ := swapStep_local hr
      exact ⟨_, by unfold swapStep; rw [hcd]; rfl⟩) _ _ _ _ hfold
  obtain ⟨coins2, hfold2⟩ := hfold'
  have hnk := nodup_requests_hashes (isSwapRequest s) k hn
  refine ⟨_, processSwapsForPool_of (by rw [hps]; exact hp0) hsm hfold2, ?_, ?_⟩
  · rw [← hps', e]
    show (s.pools.set k p').get k = (st.pools.set k p').get k
    rw [AList.get_set_self, AList.get_set_self]
  · intro tx htx
    have h1 := swapPaid_of_fold hnk hfold2
    have h2 := swapPaid_of_fold hnk hfold
    rw [hbs.height] at h2
    show coins2.getCoin _ = _
    rw [← hc2 tx htx 0, e]
    show _ = coins.getCoin _
    by_cases hd : (out0 tx).denom = k.left
    · rw [(h1.left tx htx hd).2, (h2.left tx htx hd).2]
    · rw [(h1.right tx htx hd).2, (h2.right tx htx hd).2]

/-! ### the deposit phase, one pool -/

/-- the weight of a depositor: `mtsqrt(lefts, rights)` of the two amounts paid in -/
def depW (tx : Tx) : Nat := mtsqrt (out0 tx).value (out1 tx).value
def depTW (deps : List Tx) : Nat := satSum (deps.map depW)

def depStep (env : Env) (k : PoolKey) (height : Nat) (tip legacy : Bool) (minted tw : Nat) (coins : CoinMap)
    (tx : Tx) : Outcome CoinMap :=
  (multiplyFrac minted (depW tx) tw).bind fun v =>
    let cd : CoinData := { out0 tx with denom := liqTokenDenom env k, value := v }
    let coins1 := coins.insertCoin (outCoinID tx 0) { coinData := cd, height := height } tip
    if legacy then .ok coins1 else coins1.removeCoin (outCoinID tx 1) tip

theorem processDepositsForPool_inv {env : Env} {k : PoolKey} {s s' : State} {deps : List Tx}
    (h : processDepositsForPool env k s deps = .ok s') :
    ∃ p' minted, ((s.pools.get k).getD PoolState.newEmpty).deposit (depTL deps) (depTR deps) = .ok (p', minted) ∧
      ((((s.pools.get k).getD PoolState.newEmpty).liqs + minted > U128_MAX ∧ s' = s) ∨
       (¬ ((s.pools.get k).getD PoolState.newEmpty).liqs + minted > U128_MAX ∧ ∃ coins,
          Outcome.foldlM' (depStep env k s.height s.tip906 (legacyDeposit s) minted (depTW deps)) s.coins deps
            = .ok coins ∧
          s' = { s with coins := coins, pools := s.pools.set k p' })) := by
  unfold processDepositsForPool at h
  simp only at h
  split at h
  · cases h
  · cases h
  · next p' minted hdep =>
    refine ⟨p', minted, hdep, ?_⟩
    split at h
    · next hsat => cases h; exact Or.inl ⟨hsat, rfl⟩
    · next hsat =>
      obtain ⟨coins, hc, h2⟩ := Outcome.bind_eq_ok h
      cases h2
      exact Or.inr ⟨hsat, coins, hc, rfl⟩

theorem depStep_spec {env : Env} {k : PoolKey} {height : Nat} {tip legacy : Bool} {minted tw : Nat}
    {c c' : CoinMap} {tx : Tx} (h : depStep env k height tip legacy minted tw c tx = .ok c') :
    0 < tw ∧
    c'.getCoin ⟨tx.hash, 0⟩ = some ⟨{ out0 tx with
      denom := liqTokenDenom env k, value := min (minted * depW tx / tw) U128_MAX }, height⟩ ∧
    (legacy = false → c'.getCoin ⟨tx.hash, 1⟩ = none) ∧
    (legacy = true → c'.getCoin ⟨tx.hash, 1⟩ = c.getCoin ⟨tx.hash, 1⟩) ∧
    (∀ id, id ≠ outCoinID tx 0 → id ≠ outCoinID tx 1 → c'.getCoin id = c.getCoin id) := by
  unfold depStep at h
  obtain ⟨v, hv, h⟩ := Outcome.bind_eq_ok h
  obtain ⟨hpos, ev⟩ := multiplyFrac_eq_ok hv
  subst ev
  simp only at h
  have h01 : (⟨tx.hash, 0⟩ : CoinID) ≠ outCoinID tx 1 := by intro e; cases e
  have h10 : (⟨tx.hash, 1⟩ : CoinID) ≠ outCoinID tx 0 := by intro e; cases e
  cases legacy with
  | true =>
    simp only [if_true] at h
    cases h
    refine ⟨hpos, CoinMap.getCoin_insertCoin_self _ _ _ _, fun e => (by cases e),
      fun _ => CoinMap.getCoin_insertCoin_ne _ _ _ h10, fun id h0 _ => CoinMap.getCoin_insertCoin_ne _ _ _ h0⟩
  | false =>
    simp only [Bool.false_eq_true, if_false] at h
    refine ⟨hpos, ?_, fun _ => CoinMap.getCoin_removeCoin_self h, fun e => (by cases e), fun id h0 h1 => ?_⟩
    · rw [CoinMap.getCoin_removeCoin_ne h h01]
      exact CoinMap.getCoin_insertCoin_self _ _ _ _
    · rw [CoinMap.getCoin_removeCoin_ne h h1]
      exact CoinMap.getCoin_insertCoin_ne _ _ _ h0

theorem ne_out_of_hash {tx : Tx} {id : CoinID} (i : Nat) (h : id.txhash ≠ tx.hash) : id ≠ outCoinID tx i := by
  intro e; apply h; rw [e]; rfl

/-- the coins of the depositors `deps` of pool `k` in `coins'`: the first output of each is rewritten to its share
    `⌊minted · wᵢ / W⌋` (saturating at u128) of the liquidity tokens minted, in the pool's token denomination; the
    second output is removed — except in the legacy window, where it stays as it was in `c0` -/
structure DepPaid (env : Env) (k : PoolKey) (deps : List Tx) (height : Nat) (legacy : Bool) (minted : Nat)
    (c0 coins' : CoinMap) : Prop where
  token : ∀ tx ∈ deps, 0 < depTW deps ∧ coins'.getCoin ⟨tx.hash, 0⟩ = some ⟨{ out0 tx with
      denom := liqTokenDenom env k, value := min (minted * depW tx / depTW deps) U128_MAX }, height⟩
  second : ∀ tx ∈ deps, legacy = false → coins'.getCoin ⟨tx.hash, 1⟩ = none
  secondLegacy : ∀ tx ∈ deps, legacy = true → coins'.getCoin ⟨tx.hash, 1⟩ = c0.getCoin ⟨tx.hash, 1⟩

theorem depFold_spec {env : Env} {k : PoolKey} {height : Nat} {tip legacy : Bool} {minted : Nat} {l : List Tx}
    {c0 c' : CoinMap}
    (h : Outcome.foldlM' (depStep env k height tip legacy minted (depTW l)) c0 l = .ok c') :
    (∀ id, (∀ tx ∈ l, id ≠ outCoinID tx 0 ∧ id ≠ outCoinID tx 1) → c'.getCoin id = c0.getCoin id) ∧
    ((l.map (·.hash)).Nodup → DepPaid env k l height legacy minted c0 c') := by
  refine ⟨?_, ?_⟩
  · intro id hid
    refine Outcome.foldlM'_inv_mem (fun c : CoinMap => c.getCoin id = c0.getCoin id) _ l ?_ _ _ rfl h
    intro b tx b' htx hb hf
    rw [(depStep_spec hf).2.2.2.2 id (hid tx htx).1 (hid tx htx).2]
    exact hb
  · intro hn
    have hloc : ∀ c tx c' id, depStep env k height tip legacy minted (depTW l) c tx = .ok c' →
        id.txhash ≠ tx.hash → c'.getCoin id = c.getCoin id := by
      intro c tx c' id hf hne
      exact (depStep_spec hf).2.2.2.2 id (ne_out_of_hash 0 hne) (ne_out_of_hash 1 hne)
    have hl := (fold_local hloc l c0 c' h).2 hn
    refine ⟨?_, ?_, ?_⟩
    · intro tx htx
      obtain ⟨c, c1, hs, _, hc'⟩ := hl tx htx
      exact ⟨(depStep_spec hs).1, by rw [hc' 0]; exact (depStep_spec hs).2.1⟩
    · intro tx htx hleg
      obtain ⟨c, c1, hs, _, hc'⟩ := hl tx htx
      rw [hc' 1]; exact (depStep_spec hs).2.2.1 hleg
    · intro tx htx hleg
      obtain ⟨c, c1, hs, hc, hc'⟩ := hl tx htx
      rw [hc' 1, (depStep_spec hs).2.2.2.1 hleg, hc 1]

theorem DepPaid.congr {env : Env} {k : PoolKey} {deps : List Tx} {height : Nat} {legacy : Bool} {minted : Nat}
    {c0 c0' c c' : CoinMap} (h : DepPaid env k deps height legacy minted c0 c)
    (he : ∀ tx ∈ deps, ∀ i, c'.getCoin ⟨tx.hash, i⟩ = c.getCoin ⟨tx.hash, i⟩)
    (he0 : ∀ tx ∈ deps, ∀ i, c0'.getCoin ⟨tx.hash, i⟩ = c0.getCoin ⟨tx.hash, i⟩) :
    DepPaid env k deps height legacy minted c0' c' :=
  ⟨fun tx htx => ⟨(h.token tx htx).1, by rw [he tx htx]; exact (h.token tx htx).2⟩,
   fun tx htx hl => by rw [he tx htx]; exact h.second tx htx hl,
   fun tx htx hl => by rw [he tx htx, he0 tx htx]; exact h.secondLegacy tx htx hl⟩

/-- **one pool of the deposit phase** -/
theorem deposit_phase_pool {env : Env} {k : PoolKey} {s s' : State} {deps : List Tx}
    (h : processDepositsForPool env k s deps = .ok s') :
    ∃ p' minted, ((s.pools.get k).getD PoolState.newEmpty).deposit (depTL deps) (depTR deps) = .ok (p', minted) ∧
      (((s.pools.get k).getD PoolState.newEmpty).liqs + minted > U128_MAX → s' = s) ∧
      (((s.pools.get k).getD PoolState.newEmpty).liqs + minted ≤ U128_MAX →
        s'.pools = s.pools.set k p' ∧
        ((deps.map (·.hash)).Nodup → DepPaid env k deps s.height (legacyDeposit s) minted s.coins s'.coins) ∧
        (∀ id, (∀ tx ∈ deps, id ≠ outCoinID tx 0 ∧ id ≠ outCoinID tx 1) →
          s'.coins.getCoin id = s.coins.getCoin id)) ∧
      SameBase s s' := by
  obtain ⟨p', minted, hdep, hcase⟩ := processDepositsForPool_inv h
  refine ⟨p', minted, hdep, ?_⟩
  rcases hcase with ⟨hsat, e⟩ | ⟨hsat, coins, hc, e⟩
  · subst e
    exact ⟨fun _ => rfl, fun hle => absurd hsat (by omega), SameBase.refl _⟩
  · subst e
    exact ⟨fun hgt => absurd hgt hsat, fun _ => ⟨rfl, (depFold_spec hc).2, (depFold_spec hc).1⟩,
      ⟨rfl, rfl, rfl, rfl, rfl⟩⟩

/-! ### the deposit phase, all pools -/

def depReqs (s : State) (k : PoolKey) : List Tx := transactionsForPool (s.txs.filter (isDepositRequest s)) k

theorem depLocal (env : Env) (reqs : List Tx) :
    Local (fun k st => processDepositsForPool env k st (transactionsForPool reqs k)) (transactionsForPool reqs) := by
  refine ⟨?_, ?_, ?_⟩
  · intro k st st' h k' hne
    obtain ⟨p', minted, _, hcase⟩ := processDepositsForPool_inv h
    rcases hcase with ⟨_, e⟩ | ⟨_, coins, _, e⟩
    · rw [e]
    · subst e; exact AList.get_set_ne _ _ hne
  · intro k st st' h id hid
    exact (processDepositsForPool_coins id env k st _ st' h (fun tx htx e => hid tx htx e.symm)).1
  · intro k st st' h
    exact (deposit_phase_pool h).choose_spec.choose_spec.2.2.2

theorem legacyDeposit_congr {s st : State} (h : SameBase s st) : legacyDeposit st = legacyDeposit s := by
  unfold legacyDeposit; rw [h.network, h.height]

/-- what being a deposit request of pool `k` means -/
theorem depReqs_spec {s : State} {k : PoolKey} {tx : Tx} (h : tx ∈ depReqs s k) :
    tx ∈ s.txs ∧ isDepositRequest s tx = true ∧ canonicalPoolKey tx.data = some k ∧
      0 < (out0 tx).value ∧ 0 < (out1 tx).value ∧ (out0 tx).denom = k.left := by
  obtain ⟨h1, h2⟩ := mem_transactionsForPool'.mp h
  obtain ⟨h3, h4⟩ := List.mem_filter.mp h1
  obtain ⟨k', o0, o1, rest, hk', ho, hp0, hp1, hd⟩ := isDepositRequest_full h4
  rw [h2] at hk'; cases hk'
  have e0 : out0 tx = o0 := by show tx.outputs.headD default = o0; rw [ho]; rfl
  have e1 : out1 tx = o1 := by show (tx.outputs.drop 1).headD default = o1; rw [ho]; rfl
  rw [e0, e1]
  exact ⟨h3, h4, h2, hp0, hp1, hd⟩

/-- **the whole deposit phase** -/
theorem deposit_phase {env : Env} {s s' : State} (h : processDeposits env s = .ok s') :
    SameBase s s' ∧
    (∀ k, depReqs s k = [] → s'.pools.get k = s.pools.get k) ∧
    (∀ id, (∀ tx ∈ s.txs, isDepositRequest s tx = true → id ≠ outCoinID tx 0 ∧ id ≠ outCoinID tx 1) →
      s'.coins.getCoin id = s.coins.getCoin id) ∧
    (∀ k, depReqs s k ≠ [] → ∃ p' minted,
      ((s.pools.get k).getD PoolState.newEmpty).deposit (depTL (depReqs s k)) (depTR (depReqs s k))
        = .ok (p', minted) ∧
      (((s.pools.get k).getD PoolState.newEmpty).liqs + minted > U128_MAX →
        s'.pools.get k = s.pools.get k ∧
        ((s.txs.map (·.hash)).Nodup → ∀ tx ∈ depReqs s k, ∀ i,
          s'.coins.getCoin ⟨tx.hash, i⟩ = s.coins.getCoin ⟨tx.hash, i⟩)) ∧
      (((s.pools.get k).getD PoolState.newEmpty).liqs + minted ≤ U128_MAX →
        s'.pools.get k = some p' ∧
        ((s.txs.map (·.hash)).Nodup →
          DepPaid env k (depReqs s k) s.height (legacyDeposit s) minted s.coins s'.coins))) := by
  unfold processDeposits at h
  simp only at h
  obtain ⟨hb, hp, _, hd⟩ := fold_pools (depLocal env _) _ s s' (extractPoolKeysSorted_nodup _) h
  refine ⟨hb, ?_, ?_, ?_⟩
  · intro k hk
    refine hp k ?_
    rw [mem_extract_iff]
    exact fun hne => hne hk
  · intro id hid
    refine Outcome.foldlM'_inv (fun st : State => st.coins.getCoin id = s.coins.getCoin id) _ ?_ _ _ _ rfl h
    intro st k st' hst hf
    obtain ⟨p', minted, _, h1, h2, _⟩ := deposit_phase_pool hf
    by_cases hsat : ((st.pools.get k).getD PoolState.newEmpty).liqs + minted > U128_MAX
    · rw [h1 hsat]; exact hst
    · rw [(h2 (by omega)).2.2 id ?_]
      · exact hst
      · intro tx htx
        obtain ⟨h1, h2⟩ := mem_transactionsForPool'.mp htx
        obtain ⟨h3, h4⟩ := List.mem_filter.mp h1
        exact hid tx h3 h4
  · intro k hk
    obtain ⟨st, st', hF, hbs, hps, hps', hc⟩ := hd k (mem_extract_iff.mpr hk)
    obtain ⟨p', minted, hdep, h1, h2, _⟩ := deposit_phase_pool hF
    rw [← hps] at hdep h1 h2
    refine ⟨p', minted, hdep, ?_, ?_⟩
    · intro hsat
      have e := h1 hsat
      subst e
      refine ⟨by rw [← hps', hps], fun hn tx htx i => ?_⟩
      obtain ⟨hc1, hc2⟩ := hc (disjoint_requests (nodup_filter_hashes (isDepositRequest s) hn))
      rw [← hc2 tx htx i, ← hc1 tx htx i]
    · intro hle
      obtain ⟨e, hpaid, _⟩ := h2 hle
      refine ⟨by rw [← hps', e]; exact AList.get_set_self _ _ _, fun hn => ?_⟩
      obtain ⟨hc1, hc2⟩ := hc (disjoint_requests (nodup_filter_hashes (isDepositRequest s) hn))
      have := hpaid (nodup_requests_hashes (isDepositRequest s) k hn)
      rw [hbs.height, legacyDeposit_congr hbs] at this
      exact this.congr (fun tx htx i => (hc2 tx htx i).symm) (fun tx htx i => hc1 tx htx i)

/-! ### the withdrawal phase, one pool -/

def wdStep (k : PoolKey) (height : Nat) (tip : Bool) (tl tr total : Nat) (coins : CoinMap) (tx : Tx) :
    Outcome CoinMap :=
  (multiplyFrac tl (out0 tx).value total).bind fun vl =>
  (multiplyFrac tr (out0 tx).value total).bind fun vr =>
    let c0 : CoinData := { out0 tx with denom := k.left, value := vl }
    let c1 : CoinData := { out0 tx with denom := k.right, value := vr }
    .ok ((coins.insertCoin (outCoinID tx 0) { coinData := c0, height := height } tip).insertCoin
           (outCoinID tx 1) { coinData := c1, height := height } tip)

theorem processWithdrawalsForPool_inv {k : PoolKey} {s s' : State} {reqs : List Tx}
    (h : processWithdrawalsForPool k s reqs = .ok s') :
    ∃ p, s.pools.get k = some p ∧
      ((wdT reqs > p.liqs ∧ s' = s) ∨
       (¬ wdT reqs > p.liqs ∧ ∃ p' tl tr coins, p.withdraw (wdT reqs) = .ok (p', tl, tr) ∧
          Outcome.foldlM' (wdStep k s.height s.tip906 tl tr (wdT reqs)) s.coins reqs = .ok coins ∧
          s' = { s with coins := coins, pools := s.pools.set k p' })) := by
  unfold processWithdrawalsForPool at h
  simp only at h
  split at h
  · cases h
  · next p hp =>
    refine ⟨p, hp, ?_⟩
    split at h
    · next hgt => cases h; exact Or.inl ⟨hgt, rfl⟩
    · next hgt =>
      split at h
      · cases h
      · cases h
      · next p' tl tr hw =>
        obtain ⟨coins, hc, h2⟩ := Outcome.bind_eq_ok h
        cases h2
        exact Or.inr ⟨hgt, p', tl, tr, coins, hw, hc, rfl⟩

theorem wdStep_spec {k : PoolKey} {height : Nat} {tip : Bool} {tl tr total : Nat} {c c' : CoinMap} {tx : Tx}
    (h : wdStep k height tip tl tr total c tx = .ok c') :
    0 < total ∧
    c'.getCoin ⟨tx.hash, 0⟩ = some ⟨{ out0 tx with
      denom := k.left, value := min (tl * (out0 tx).value / total) U128_MAX }, height⟩ ∧
    c'.getCoin ⟨tx.hash, 1⟩ = some ⟨{ out0 tx with
      denom := k.right, value := min (tr * (out0 tx).value / total) U128_MAX }, height⟩ ∧
    (∀ id, id ≠ outCoinID tx 0 → id ≠ outCoinID tx 1 → c'.getCoin id = c.getCoin id) := by
  unfold wdStep at h
  obtain ⟨vl, hvl, h⟩ := Outcome.bind_eq_ok h
  obtain ⟨vr, hvr, h⟩ := Outcome.bind_eq_ok h
  obtain ⟨hpos, el⟩ := multiplyFrac_eq_ok hvl
  obtain ⟨_, er⟩ := multiplyFrac_eq_ok hvr
  subst el; subst er
  cases h
  have h01 : (⟨tx.hash, 0⟩ : CoinID) ≠ outCoinID tx 1 := by intro e; cases e
  refine ⟨hpos, ?_, CoinMap.getCoin_insertCoin_self _ _ _ _, fun id h0 h1 => ?_⟩
  · rw [CoinMap.getCoin_insertCoin_ne _ _ _ h01]
    exact CoinMap.getCoin_insertCoin_self _ _ _ _
  · rw [CoinMap.getCoin_insertCoin_ne _ _ _ h1]
    exact CoinMap.getCoin_insertCoin_ne _ _ _ h0

/-- the coins of the withdrawal requests `reqs` of pool `k` in `coins'`: a request redeeming `qᵢ` tokens holds
    `⌊tl · qᵢ / q⌋` of the left denomination at output 0 and `⌊tr · qᵢ / q⌋` of the right one as a new coin at
    output 1 (both saturating at u128; covenant hash and additional data of the first output) -/
structure WdPaid (k : PoolKey) (reqs : List Tx) (height tl tr : Nat) (coins' : CoinMap) : Prop where
  paid : ∀ tx ∈ reqs, 0 < wdT reqs ∧
    coins'.getCoin ⟨tx.hash, 0⟩ = some ⟨{ out0 tx with
      denom := k.left, value := min (tl * (out0 tx).value / wdT reqs) U128_MAX }, height⟩ ∧
    coins'.getCoin ⟨tx.hash, 1⟩ = some ⟨{ out0 tx with
      denom := k.right, value := min (tr * (out0 tx).value / wdT reqs) U128_MAX }, height⟩

theorem wdFold_spec {k : PoolKey} {height : Nat} {tip : Bool} {tl tr : Nat} {l : List Tx} {c0 c' : CoinMap}
    (h : Outcome.foldlM' (wdStep k height tip tl tr (wdT l)) c0 l = .ok c') :
    (∀ id, (∀ tx ∈ l, id ≠ outCoinID tx 0 ∧ id ≠ outCoinID tx 1) → c'.getCoin id = c0.getCoin id) ∧
    ((l.map (·.hash)).Nodup → WdPaid k l height tl tr c') := by
  refine ⟨?_, ?_⟩
  · intro id hid
    refine Outcome.foldlM'_inv_mem (fun c : CoinMap => c.getCoin id = c0.getCoin id) _ l ?_ _ _ rfl h
    intro b tx b' htx hb hf
    rw [(wdStep_spec hf).2.2.2 id (hid tx htx).1 (hid tx htx).2]
    exact hb
  · intro hn
    have hloc : ∀ c tx c' id, wdStep k height tip tl tr (wdT l) c tx = .ok c' →
        id.txhash ≠ tx.hash → c'.getCoin id = c.getCoin id := by
      intro c tx c' id hf hne
      exact (wdStep_spec hf).2.2.2 id (ne_out_of_hash 0 hne) (ne_out_of_hash 1 hne)
    have hl := (fold_local hloc l c0 c' h).2 hn
    refine ⟨?_⟩
    intro tx htx
    obtain ⟨c, c1, hs, _, hc'⟩ := hl tx htx
    exact ⟨(wdStep_spec hs).1, by rw [hc' 0]; exact (wdStep_spec hs).2.1,
      by rw [hc' 1]; exact (wdStep_spec hs).2.2.1⟩

theorem WdPaid.congr {k : PoolKey} {reqs : List Tx} {height tl tr : Nat} {c c' : CoinMap}
    (h : WdPaid k reqs height tl tr c)
    (he : ∀ tx ∈ reqs, ∀ i, c'.getCoin ⟨tx.hash, i⟩ = c.getCoin ⟨tx.hash, i⟩) : WdPaid k reqs height tl tr c' :=
  ⟨fun tx htx => ⟨(h.paid tx htx).1, by rw [he tx htx]; exact (h.paid tx htx).2.1,
    by rw [he tx htx]; exact (h.paid tx htx).2.2⟩⟩

/-- **one pool of the withdrawal phase** -/
theorem withdraw_phase_pool {k : PoolKey} {s s' : State} {reqs : List Tx} {p : PoolState}
    (hp : s.pools.get k = some p) (h : processWithdrawalsForPool k s reqs = .ok s') :
    (wdT reqs > p.liqs → s' = s) ∧
    (wdT reqs ≤ p.liqs → ∃ p' tl tr, p.withdraw (wdT reqs) = .ok (p', tl, tr) ∧
      s'.pools = s.pools.set k p' ∧
      ((reqs.map (·.hash)).Nodup → WdPaid k reqs s.height tl tr s'.coins) ∧
      (∀ id, (∀ tx ∈ reqs, id ≠ outCoinID tx 0 ∧ id ≠ outCoinID tx 1) →
        s'.coins.getCoin id = s.coins.getCoin id)) ∧
    SameBase s s' := by
  obtain ⟨p0, hp0, hcase⟩ := processWithdrawalsForPool_inv h
  rw [hp] at hp0; cases hp0
  rcases hcase with ⟨hgt, e⟩ | ⟨hgt, p', tl, tr, coins, hw, hc, e⟩
  · subst e
    exact ⟨fun _ => rfl, fun hle => absurd hgt (by omega), SameBase.refl _⟩
  · subst e
    exact ⟨fun h' => absurd h' hgt,
      fun _ => ⟨p', tl, tr, hw, rfl, (wdFold_spec hc).2, (wdFold_spec hc).1⟩, ⟨rfl, rfl, rfl, rfl, rfl⟩⟩

/-! ### the withdrawal phase, all pools -/

def wdReqs (env : Env) (s : State) (k : PoolKey) : List Tx :=
  transactionsForPool (s.txs.filter (isWithdrawRequest env s)) k

theorem wdLocal (reqs : List Tx) :
    Local (fun k st => processWithdrawalsForPool k st (transactionsForPool reqs k)) (transactionsForPool reqs) := by
  refine ⟨?_, ?_, ?_⟩
  · intro k st st' h k' hne
    obtain ⟨p, _, hcase⟩ := processWithdrawalsForPool_inv h
    rcases hcase with ⟨_, e⟩ | ⟨_, p', tl, tr, coins, _, _, e⟩
    · rw [e]
    · subst e; exact AList.get_set_ne _ _ hne
  · intro k st st' h id hid
    exact (processWithdrawalsForPool_coins id k st _ st' h (fun tx htx e => hid tx htx e.symm)).1
  · intro k st st' h
    obtain ⟨p, hp, _⟩ := processWithdrawalsForPool_inv h
    exact (withdraw_phase_pool hp h).2.2

/-- what being a withdrawal request of pool `k` means -/
theorem wdReqs_spec {env : Env} {s : State} {k : PoolKey} {tx : Tx} (h : tx ∈ wdReqs env s k) :
    tx ∈ s.txs ∧ isWithdrawRequest env s tx = true ∧ canonicalPoolKey tx.data = some k ∧
      0 < (out0 tx).value ∧ tx.outputs = [out0 tx] ∧ (s.pools.get k).isSome = true := by
  obtain ⟨h1, h2⟩ := mem_transactionsForPool'.mp h
  obtain ⟨h3, h4⟩ := List.mem_filter.mp h1
  obtain ⟨_, k', o0, hk', ho, hp0, hs⟩ := isWithdrawRequest_full h4
  rw [h2] at hk'; cases hk'
  have e0 : out0 tx = o0 := by show tx.outputs.headD default = o0; rw [ho]; rfl
  rw [e0]
  exact ⟨h3, h4, h2, hp0, ho, hs⟩

/-- **the whole withdrawal phase** -/
theorem withdraw_phase {env : Env} {s s' : State} (h : processWithdrawals env s = .ok s') :
    SameBase s s' ∧
    (∀ k, wdReqs env s k = [] → s'.pools.get k = s.pools.get k) ∧
    (∀ id, (∀ tx ∈ s.txs, isWithdrawRequest env s tx = true → id ≠ outCoinID tx 0 ∧ id ≠ outCoinID tx 1) →
      s'.coins.getCoin id = s.coins.getCoin id) ∧
    (∀ k, wdReqs env s k ≠ [] → ∃ p, s.pools.get k = some p ∧
      (wdT (wdReqs env s k) > p.liqs →
        s'.pools.get k = some p ∧
        ((s.txs.map (·.hash)).Nodup → ∀ tx ∈ wdReqs env s k, ∀ i,
          s'.coins.getCoin ⟨tx.hash, i⟩ = s.coins.getCoin ⟨tx.hash, i⟩)) ∧
      (wdT (wdReqs env s k) ≤ p.liqs → ∃ p' tl tr, p.withdraw (wdT (wdReqs env s k)) = .ok (p', tl, tr) ∧
        s'.pools.get k = some p' ∧
        ((s.txs.map (·.hash)).Nodup → WdPaid k (wdReqs env s k) s.height tl tr s'.coins))) := by
  unfold processWithdrawals at h
  simp only at h
  obtain ⟨hb, hp, _, hd⟩ := fold_pools (wdLocal _) _ s s' (extractPoolKeysSorted_nodup _) h
  refine ⟨hb, ?_, ?_, ?_⟩
  · intro k hk
    refine hp k ?_
    rw [mem_extract_iff]
    exact fun hne => hne hk
  · intro id hid
    refine Outcome.foldlM'_inv (fun st : State => st.coins.getCoin id = s.coins.getCoin id) _ ?_ _ _ _ rfl h
    intro st k st' hst hf
    obtain ⟨p, hp0, _⟩ := processWithdrawalsForPool_inv hf
    obtain ⟨h1, h2, _⟩ := withdraw_phase_pool hp0 hf
    by_cases hgt : wdT (transactionsForPool (s.txs.filter (isWithdrawRequest env s)) k) > p.liqs
    · rw [h1 hgt]; exact hst
    · obtain ⟨p', tl, tr, _, _, _, hun⟩ := h2 (by omega)
      rw [hun id ?_]
      · exact hst
      · intro tx htx
        obtain ⟨h1, h2⟩ := mem_transactionsForPool'.mp htx
        obtain ⟨h3, h4⟩ := List.mem_filter.mp h1
        exact hid tx h3 h4
  · intro k hk
    obtain ⟨st, st', hF, hbs, hps, hps', hc⟩ := hd k (mem_extract_iff.mpr hk)
    obtain ⟨p, hp0, _⟩ := processWithdrawalsForPool_inv hF
    obtain ⟨h1, h2, _⟩ := withdraw_phase_pool hp0 hF
    refine ⟨p, by rw [hps]; exact hp0, ?_, ?_⟩
    · intro hgt
      have e := h1 hgt
      subst e
      refine ⟨by rw [← hps']; exact hp0, fun hn tx htx i => ?_⟩
      obtain ⟨hc1, hc2⟩ := hc (disjoint_requests (nodup_filter_hashes (isWithdrawRequest env s) hn))
      rw [← hc2 tx htx i, ← hc1 tx htx i]
    · intro hle
      obtain ⟨p', tl, tr, hw, e, hpaid, _⟩ := h2 hle
      refine ⟨p', tl, tr, hw, by rw [← hps', e]; exact AList.get_set_self _ _ _, fun hn => ?_⟩
      obtain ⟨hc1, hc2⟩ := hc (disjoint_requests (nodup_filter_hashes (isWithdrawRequest env s) hn))
      have := hpaid (nodup_requests_hashes (isWithdrawRequest env s) k hn)
      rw [hbs.height] at this
      exact this.congr (fun tx htx i => (hc2 tx htx i).symm)

/-! ### totals: what the requests hold afterwards, against what the pool paid out -/

/-- exact (unsaturated) totals paid in by the requests of either side of pool `k` -/
def sumL (k : PoolKey) (reqs : List Tx) : Nat :=
  (reqs.map fun tx => if (out0 tx).denom = k.left then (out0 tx).value else 0).sum
def sumR (k : PoolKey) (reqs : List Tx) : Nat :=
  (reqs.map fun tx => if (out0 tx).denom = k.right then (out0 tx).value else 0).sum

theorem swapTL_eq_sumL {k : PoolKey} {reqs : List Tx} (h : sumL k reqs ≤ U128_MAX) : swapTL k reqs = sumL k reqs :=
  satSum_eq_sum _ h
theorem swapTR_eq_sumR {k : PoolKey} {reqs : List Tx} (h : sumR k reqs ≤ U128_MAX) : swapTR k reqs = sumR k reqs :=
  satSum_eq_sum _ h

/-- the value held at a coin id (0 when there is no coin) -/
def coinValueAt (m : CoinMap) (id : CoinID) : Nat :=
  match m.getCoin id with
  | some c => c.coinData.value
  | none => 0

/-- what the transactions `txs` hold at their `i`-th outputs -/
def paidOut (m : CoinMap) (i : Nat) (txs : List Tx) : Nat := (txs.map fun tx => coinValueAt m ⟨tx.hash, i⟩).sum

theorem coinValueAt_of {m : CoinMap} {id : CoinID} {c : CoinDataHeight} (h : m.getCoin id = some c) :
    coinValueAt m id = c.coinData.value := by
  unfold coinValueAt; rw [h]

/-- pro-rata payouts over a filtered side never exceed what is split, when the side's total is the exact sum -/
theorem paidOut_filter_le {m : CoinMap} {i : Nat} {reqs : List Tx} (q : Tx → Bool) (v : Tx → Nat) (w T : Nat)
    (hT : T = (reqs.map fun tx => if q tx then v tx else 0).sum)
    (hpaid : ∀ tx ∈ reqs, q tx = true → coinValueAt m ⟨tx.hash, i⟩ ≤ w * v tx / T) :
    paidOut m i (reqs.filter q) ≤ w := by
  unfold paidOut
  rw [sum_filter_map]
  refine Nat.le_trans (sum_le_sum_of_le _ (fun tx => w * (if q tx then v tx else 0) / T) reqs ?_) ?_
  · intro tx htx
    by_cases hq : q tx = true
    · simp only [hq, if_true]; exact hpaid tx htx hq
    · simp only [hq, Bool.false_eq_true, if_false]; exact Nat.zero_le _
  · rw [hT]
    exact shares_le w (fun tx => if q tx then v tx else 0) reqs

theorem paidOut_le {m : CoinMap} {i : Nat} {reqs : List Tx} (v : Tx → Nat) (w T : Nat)
    (hT : T = (reqs.map v).sum)
    (hpaid : ∀ tx ∈ reqs, coinValueAt m ⟨tx.hash, i⟩ ≤ w * v tx / T) : paidOut m i reqs ≤ w := by
  unfold paidOut
  refine Nat.le_trans (sum_le_sum_of_le _ (fun tx => w * v tx / T) reqs hpaid) ?_
  rw [hT]
  exact shares_le w v reqs

end SettleBlockL
end Mel

