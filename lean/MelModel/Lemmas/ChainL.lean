/- helper lemmas for the chain part of C07 -/
import MelModel.Chain
import MelModel.Lemmas.Counts
import MelModel.Lemmas.FeeMult
namespace Mel
end Mel
