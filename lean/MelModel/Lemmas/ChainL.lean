/- helper lemmas for the chain part of C07 -/
import MelModel.Chain
import MelModel.Lemmas.Counts
import MelModel.Lemmas.FeeMult
namespace Mel
open Mel.Gen

/-! ### history, height and network are untouched by applying a batch and by sealing -/

def SameHHN (s s' : State) : Prop :=
  s'.history = s.history ∧ s'.height = s.height ∧ s'.network = s.network

theorem SameHHN.refl (s : State) : SameHHN s s := ⟨rfl, rfl, rfl⟩

theorem SameHHN.trans {a b c : State} (h1 : SameHHN a b) (h2 : SameHHN b c) : SameHHN a c :=
  ⟨h2.1.trans h1.1, h2.2.1.trans h1.2.1, h2.2.2.trans h1.2.2⟩

/-! #### sealing -/

theorem processSwapsForPool_hhn (k : PoolKey) (s : State) (swaps : List Tx) (s' : State)
    (h : processSwapsForPool k s swaps = .ok s') : SameHHN s s' := by
  unfold processSwapsForPool at h
  split at h
  · cases h
  · simp only at h
    split at h
    · cases h
    · cases h
    · obtain ⟨coins, _, h2⟩ := Outcome.bind_eq_ok h
      cases h2; exact ⟨rfl, rfl, rfl⟩

theorem processSwaps_hhn (s s' : State) (h : processSwaps s = .ok s') : SameHHN s s' := by
  unfold processSwaps at h
  exact Outcome.foldlM'_inv (SameHHN s) _
    (fun b a b' hb hf => hb.trans (processSwapsForPool_hhn _ _ _ _ hf)) _ _ _ (SameHHN.refl s) h

theorem processDepositsForPool_hhn (env : Env) (k : PoolKey) (s : State) (deps : List Tx) (s' : State)
    (h : processDepositsForPool env k s deps = .ok s') : SameHHN s s' := by
  unfold processDepositsForPool at h
  simp only at h
  split at h
  · cases h
  · cases h
  · split at h
    · cases h; exact SameHHN.refl s
    · obtain ⟨coins, _, h2⟩ := Outcome.bind_eq_ok h
      cases h2; exact ⟨rfl, rfl, rfl⟩

theorem processDeposits_hhn (env : Env) (s s' : State) (h : processDeposits env s = .ok s') :
    SameHHN s s' := by
  unfold processDeposits at h
  exact Outcome.foldlM'_inv (SameHHN s) _
    (fun b a b' hb hf => hb.trans (processDepositsForPool_hhn _ _ _ _ _ hf)) _ _ _ (SameHHN.refl s) h

theorem processWithdrawalsForPool_hhn (k : PoolKey) (s : State) (reqs : List Tx) (s' : State)
    (h : processWithdrawalsForPool k s reqs = .ok s') : SameHHN s s' := by
  unfold processWithdrawalsForPool at h
  simp only at h
  split at h
  · cases h
  · split at h
    · cases h; exact SameHHN.refl _
    · split at h
      · cases h
      · cases h
      · obtain ⟨coins, _, h2⟩ := Outcome.bind_eq_ok h
        cases h2; exact ⟨rfl, rfl, rfl⟩

theorem processWithdrawals_hhn (env : Env) (s s' : State) (h : processWithdrawals env s = .ok s') :
    SameHHN s s' := by
  unfold processWithdrawals at h
  exact Outcome.foldlM'_inv (SameHHN s) _
    (fun b a b' hb hf => hb.trans (processWithdrawalsForPool_hhn _ _ _ _ hf)) _ _ _ (SameHHN.refl s) h

theorem createBuiltins_hhn (s : State) : SameHHN s (createBuiltins s) := ⟨rfl, rfl, rfl⟩

theorem processPegging_hhn (s s' : State) (h : processPegging s = .ok s') : SameHHN s s' := by
  unfold processPegging at h
  simp only at h
  obtain ⟨⟨a, b⟩, _, h⟩ := Outcome.bind_eq_ok h
  simp only at h
  obtain ⟨sm, _, h⟩ := Outcome.bind_eq_ok h
  split at h
  · cases h
  · obtain ⟨sm1, _, h⟩ := Outcome.bind_eq_ok h
    obtain ⟨sm2, _, h⟩ := Outcome.bind_eq_ok h
    cases h; exact ⟨rfl, rfl, rfl⟩

theorem presealMelmint_hhn (env : Env) (s s' : State) (h : presealMelmint env s = .ok s') :
    SameHHN s s' := by
  unfold presealMelmint at h
  simp only at h
  split at h
  · cases h
  · obtain ⟨s1, h1, h⟩ := Outcome.bind_eq_ok h
    obtain ⟨s2, h2, h⟩ := Outcome.bind_eq_ok h
    obtain ⟨s3, h3, h⟩ := Outcome.bind_eq_ok h
    exact ((((createBuiltins_hhn s).trans (processSwaps_hhn _ _ h1)).trans
      (processDeposits_hhn _ _ _ h2)).trans (processWithdrawals_hhn _ _ _ h3)).trans
      ((createBuiltins_hhn s3).trans (processPegging_hhn _ _ h))

theorem applyTip909_hhn (s s' : State) (h : applyTip909 s = .ok s') : SameHHN s s' := by
  unfold applyTip909 at h
  simp only at h
  split at h
  · cases h
  · split at h
    · cases h
    · obtain ⟨⟨sm', mel, x⟩, _, h⟩ := Outcome.bind_eq_ok h
      simp only at h
      split at h
      · cases h
      · split at h
        · cases h
        · obtain ⟨⟨es', y, z⟩, _, h⟩ := Outcome.bind_eq_ok h
          cases h; exact ⟨rfl, rfl, rfl⟩

theorem collectProposerFee_hhn (env : Env) (s : State) (a : ProposerAction) (s' : State)
    (h : collectProposerFee env s a = .ok s') : SameHHN s s' := by
  unfold collectProposerFee at h
  simp only at h
  split at h
  · cases h
  · cases h; exact ⟨rfl, rfl, rfl⟩

theorem applyProposerAction_hhn (env : Env) (s : State) (a : ProposerAction) (s' : State)
    (h : applyProposerAction env s a = .ok s') : SameHHN s s' := by
  unfold applyProposerAction at h
  have := collectProposerFee_hhn _ _ _ _ h
  exact this

theorem sealState_hhn (env : Env) (s : State) (action : Option ProposerAction) (ss : Sealed)
    (h : sealState env s action = .ok ss) : SameHHN s ss.st := by
  unfold sealState at h
  obtain ⟨s1, h1, h⟩ := Outcome.bind_eq_ok h
  split at h
  · cases h
  · obtain ⟨s2, h2, h⟩ := Outcome.bind_eq_ok h
    have h12 : SameHHN s1 s2 := by
      split at h2
      · exact applyTip909_hhn _ _ h2
      · cases h2; exact SameHHN.refl _
    have h02 := (presealMelmint_hhn _ _ _ h1).trans h12
    split at h
    · cases h; exact h02
    · obtain ⟨s3, h3, h⟩ := Outcome.bind_eq_ok h
      cases h; exact h02.trans (applyProposerAction_hhn _ _ _ _ h3)

/-! #### applying a batch -/

theorem handleFaucetTx_hhn (env : Env) (s : State) (tx : Tx) (s' : State)
    (h : handleFaucetTx env s tx = .ok s') : SameHHN s s' := by
  unfold handleFaucetTx at h
  simp only at h
  split at h
  · cases h
  · split at h
    · cases h
    · split at h
      · cases h; exact ⟨rfl, rfl, rfl⟩
      · cases h; exact SameHHN.refl _

theorem createNextState_hhn (env : Env) (s : State) (txs : List Tx) (rel : Relevant) (tip906 : Bool)
    (s' : State) (h : createNextState env s txs rel tip906 = .ok s') : SameHHN s s' := by
  unfold createNextState at h
  simp only at h
  refine Outcome.foldlM'_inv (SameHHN s) _ ?_ _ _ _ ?_ h
  rotate_left
  · exact ⟨rfl, rfl, rfl⟩
  intro b tx b' hb hf
  split at hf
  · cases hf
  obtain ⟨st1, h1, hf⟩ := Outcome.bind_eq_ok hf
  obtain ⟨coins2, _, hf⟩ := Outcome.bind_eq_ok hf
  obtain ⟨minFee, _, hf⟩ := Outcome.bind_eq_ok hf
  have hb1 : SameHHN b st1 := by
    split at h1
    · exact handleFaucetTx_hhn _ _ _ _ h1
    · cases h1; exact SameHHN.refl _
  split at hf
  · cases hf
  · cases hf; exact hb.trans (hb1.trans ⟨rfl, rfl, rfl⟩)

theorem applyBatch_hhn (env : Env) (s : State) (txs : List Tx) (fb : Header) (s' : State)
    (h : applyBatch env s txs fb = .ok s') : SameHHN s s' := by
  unfold applyBatch at h
  obtain ⟨rel, _, h⟩ := Outcome.bind_eq_ok h
  obtain ⟨newStakes, _, h⟩ := Outcome.bind_eq_ok h
  simp only at h
  obtain ⟨_, _, h⟩ := Outcome.bind_eq_ok h
  obtain ⟨newSpeed, _, h⟩ := Outcome.bind_eq_ok h
  obtain ⟨next, hn, h⟩ := Outcome.bind_eq_ok h
  cases h
  exact (createNextState_hhn _ _ _ _ _ _ hn).trans ⟨rfl, rfl, rfl⟩

/-! #### headers -/

/-- what `headerOf` returns -/
theorem headerOf_ok (env : Env) (ss : Sealed) (hdr : Header) (h : headerOf env ss = .ok hdr) :
    ∃ p, ((ss.st.height = 0 ∧ p = zeroHash) ∨
          (ss.st.height ≠ 0 ∧ ∃ ph, ss.st.history.get (ss.st.height - 1) = some ph ∧ p = env.hdrHash ph)) ∧
      hdr = { network := ss.st.network, previous := p, height := ss.st.height,
              historyHash := env.historyRoot ss.st.history, coinsHash := env.coinsRoot ss.st.coins,
              transactionsHash := env.txsRoot ss.st.tip908 ss.st.txs,
              feePool := ss.st.feePool, feeMultiplier := ss.st.feeMultiplier, doscSpeed := ss.st.doscSpeed,
              poolsHash := env.poolsRoot ss.st.pools, stakesHash := env.stakesRoot ss.st.stakes } := by
  unfold headerOf at h
  simp only at h
  obtain ⟨p, hp, h⟩ := Outcome.bind_eq_ok h
  cases h
  refine ⟨p, ?_, rfl⟩
  split at hp
  · next h0 => cases hp; exact Or.inl ⟨h0, rfl⟩
  · next h0 =>
    split at hp
    · next ph hph => cases hp; exact Or.inr ⟨h0, ph, hph, rfl⟩
    · cases hp

/-- what `nextUnsealed` returns -/
theorem nextUnsealed_ok (env : Env) (ss : Sealed) (basis : State) (h : nextUnsealed env ss = .ok basis) :
    ∃ hdr, headerOf env ss = .ok hdr ∧ basis.history = ss.st.history.set ss.st.height hdr ∧
      basis.height = ss.st.height + 1 ∧ basis.network = ss.st.network := by
  unfold nextUnsealed at h
  obtain ⟨hdr, hh, h⟩ := Outcome.bind_eq_ok h
  simp only at h
  refine ⟨hdr, hh, ?_⟩
  split at h
  · cases h; exact ⟨rfl, rfl, rfl⟩
  · cases h; exact ⟨rfl, rfl, rfl⟩

end Mel
