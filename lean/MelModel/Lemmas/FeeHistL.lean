/-
  Helper lemmas for Props/C05Hist.lean: Melmint leaves the fee pool alone, the TIP-909 subsidy only adds to it,
  opening the next block keeps fee pool, tips and the coins; a batch that leaves the transaction list empty is empty.
  (That `tips` is untouched by Melmint and the subsidy is in Lemmas/Restart.lean.)
-/
import MelModel.Chain
import MelModel.Lemmas.Restart
import MelModel.Lemmas.Perm
import MelModel.Lemmas.WholeL
namespace Mel
namespace FeeHistL
open Mel.Gen

/-! ### the fee pool is untouched by Melmint -/

theorem processSwapsForPool_fee (k : PoolKey) (s : State) (swaps : List Tx) (s' : State)
    (h : processSwapsForPool k s swaps = .ok s') : s'.feePool = s.feePool := by
  unfold processSwapsForPool at h
  split at h
  · cases h
  · simp only at h
    split at h
    · cases h
    · cases h
    · obtain ⟨coins, _, h2⟩ := Outcome.bind_eq_ok h
      cases h2; rfl

theorem processSwaps_fee (s s' : State) (h : processSwaps s = .ok s') : s'.feePool = s.feePool := by
  unfold processSwaps at h
  exact Outcome.foldlM'_inv (fun x => x.feePool = s.feePool) _
    (fun b a b' hb hf => (processSwapsForPool_fee _ _ _ _ hf).trans hb) _ _ _ rfl h

theorem processDepositsForPool_fee (env : Env) (k : PoolKey) (s : State) (deps : List Tx) (s' : State)
    (h : processDepositsForPool env k s deps = .ok s') : s'.feePool = s.feePool := by
  unfold processDepositsForPool at h
  simp only at h
  split at h
  · cases h
  · cases h
  · split at h
    · cases h; rfl
    · obtain ⟨coins, _, h2⟩ := Outcome.bind_eq_ok h
      cases h2; rfl

theorem processDeposits_fee (env : Env) (s s' : State) (h : processDeposits env s = .ok s') :
    s'.feePool = s.feePool := by
  unfold processDeposits at h
  exact Outcome.foldlM'_inv (fun x => x.feePool = s.feePool) _
    (fun b a b' hb hf => (processDepositsForPool_fee _ _ _ _ _ hf).trans hb) _ _ _ rfl h

theorem processWithdrawalsForPool_fee (k : PoolKey) (s : State) (reqs : List Tx) (s' : State)
    (h : processWithdrawalsForPool k s reqs = .ok s') : s'.feePool = s.feePool := by
  unfold processWithdrawalsForPool at h
  simp only at h
  split at h
  · cases h
  · split at h
    · cases h; rfl
    · split at h
      · cases h
      · cases h
      · obtain ⟨coins, _, h2⟩ := Outcome.bind_eq_ok h
        cases h2; rfl

theorem processWithdrawals_fee (env : Env) (s s' : State) (h : processWithdrawals env s = .ok s') :
    s'.feePool = s.feePool := by
  unfold processWithdrawals at h
  exact Outcome.foldlM'_inv (fun x => x.feePool = s.feePool) _
    (fun b a b' hb hf => (processWithdrawalsForPool_fee _ _ _ _ hf).trans hb) _ _ _ rfl h

/-- Melmint (builtin pools, settlement, pegging) does not touch the fee pool -/
theorem presealMelmint_fee (env : Env) (s s' : State) (h : presealMelmint env s = .ok s') :
    s'.feePool = s.feePool := by
  obtain ⟨s3, hset, hpeg⟩ := WholeL.presealMelmint_ok h
  unfold settle at hset
  obtain ⟨s1, h1, hset⟩ := Outcome.bind_eq_ok hset
  obtain ⟨s2, h2, h3⟩ := Outcome.bind_eq_ok hset
  obtain ⟨sm, sm2, _, rfl, _⟩ := WholeL.pegging_shape (createBuiltins s3) s' hpeg
  show s3.feePool = s.feePool
  rw [processWithdrawals_fee _ _ _ h3, processDeposits_fee _ _ _ h2, processSwaps_fee _ _ h1]
  rfl

/-- the TIP-909 subsidy only adds to the fee pool (the MEL it swaps out of the MEL/SYM pool) -/
theorem applyTip909_fee (s s' : State) (h : applyTip909 s = .ok s') : s.feePool ≤ s'.feePool := by
  unfold applyTip909 at h
  simp only at h
  split at h
  · cases h
  · split at h
    · cases h
    · obtain ⟨⟨sm', mel, x⟩, _, h⟩ := Outcome.bind_eq_ok h
      simp only at h
      split at h
      · cases h
      · split at h
        · cases h
        · obtain ⟨⟨es', y, z⟩, _, h⟩ := Outcome.bind_eq_ok h
          cases h
          exact Nat.le_add_right _ _

/-! ### opening the next block -/

theorem nextUnsealed_fee {env : Env} {ss : Sealed} {s' : State} (h : nextUnsealed env ss = .ok s') :
    s'.feePool = ss.st.feePool ∧ s'.tips = ss.st.tips ∧ s'.feeMultiplier = ss.st.feeMultiplier := by
  unfold nextUnsealed at h
  obtain ⟨hdr, -, h⟩ := Outcome.bind_eq_ok h
  simp only at h
  split at h <;> cases h <;> exact ⟨rfl, rfl, rfl⟩

theorem nextUnsealed_getCoin {env : Env} {ss : Sealed} {s' : State} (h : nextUnsealed env ss = .ok s')
    (id : CoinID) : s'.coins.getCoin id = ss.st.coins.getCoin id := by
  unfold nextUnsealed at h
  obtain ⟨hdr, -, h⟩ := Outcome.bind_eq_ok h
  simp only at h
  split at h
  · cases h
    unfold CoinMap.getCoin
    simp only [WholeL.transition_coins]
  · cases h; rfl

theorem nextUnsealed_txs {env : Env} {ss : Sealed} {s' : State} (h : nextUnsealed env ss = .ok s') :
    s'.txs = [] := by
  unfold nextUnsealed at h
  obtain ⟨hdr, -, h⟩ := Outcome.bind_eq_ok h
  simp only at h
  split at h <;> cases h <;> rfl

/-! ### the transaction list of the block -/

theorem insertTx_ne_nil (acc : List Tx) (tx : Tx) : State.insertTx acc tx ≠ [] := by
  unfold State.insertTx
  split
  · exact List.cons_ne_nil _ _
  · split
    · exact List.cons_ne_nil _ _
    · split <;> exact List.cons_ne_nil _ _

theorem foldl_insertTx_eq_nil : ∀ (txs acc : List Tx), txs.foldl State.insertTx acc = [] → txs = [] ∧ acc = [] := by
  intro txs
  induction txs with
  | nil => intro acc h; exact ⟨rfl, h⟩
  | cons t rest ih =>
    intro acc h
    rw [List.foldl_cons] at h
    exact absurd (ih _ h).2 (insertTx_ne_nil acc t)

/-- an accepted batch after which the block has no transaction was empty, applied to a block without transactions -/
theorem applyBatch_txs_nil {env : Env} {s s' : State} {txs : List Tx} {fb : Header}
    (h : applyBatch env s txs fb = .ok s') (h0 : s'.txs = []) : txs = [] ∧ s.txs = [] := by
  rw [C3.applyBatch_txsEq h] at h0
  exact foldl_insertTx_eq_nil _ _ h0

end FeeHistL
end Mel
