/- helper lemmas for the TIP-908 transactions commitment (Props/C07TxRoot.lean) -/
import MelModel.TxRoot
import MelModel.Lemmas.MerkleL
import MelModel.Lemmas.DenseL
namespace Mel.TxRoot
open Mel Mel.Merkle

/-! ### `bytesLt` is a strict total order (same proofs as in Lemmas/Perm.lean, which is not imported here) -/

theorem bytesLt_cons (a b : UInt8) (as bs : List UInt8) :
    bytesLt (a :: as) (b :: bs) =
      if a.toNat < b.toNat then true else if b.toNat < a.toNat then false else bytesLt as bs := by
  simp [bytesLt, UInt8.lt_iff_toNat_lt]

theorem bytesLt_irrefl (a : List UInt8) : bytesLt a a = false := by
  induction a with
  | nil => rfl
  | cons x xs ih => rw [bytesLt_cons]; simp [ih]

theorem bytesLt_trans : ∀ (a b c : List UInt8),
    bytesLt a b = true → bytesLt b c = true → bytesLt a c = true
  | [], [], _, h, _ => by simp [bytesLt] at h
  | [], _ :: _, [], _, h => by simp [bytesLt] at h
  | [], _ :: _, _ :: _, _, _ => by simp [bytesLt]
  | _ :: _, [], _, h, _ => by simp [bytesLt] at h
  | _ :: _, _ :: _, [], _, h => by simp [bytesLt] at h
  | a :: as, b :: bs, c :: cs, h1, h2 => by
    have ih := bytesLt_trans as bs cs
    rw [bytesLt_cons] at h1 h2 ⊢
    by_cases hab : a.toNat < b.toNat
    · by_cases hbc : b.toNat < c.toNat
      · rw [if_pos (by omega)]
      · rw [if_neg hbc] at h2
        by_cases hcb : c.toNat < b.toNat
        · rw [if_pos hcb] at h2; cases h2
        · rw [if_pos (by omega)]
    · rw [if_neg hab] at h1
      by_cases hba : b.toNat < a.toNat
      · rw [if_pos hba] at h1; cases h1
      · rw [if_neg hba] at h1
        by_cases hbc : b.toNat < c.toNat
        · rw [if_pos (by omega)]
        · rw [if_neg hbc] at h2
          by_cases hcb : c.toNat < b.toNat
          · rw [if_pos hcb] at h2; cases h2
          · rw [if_neg hcb] at h2
            rw [if_neg (by omega), if_neg (by omega)]
            exact ih h1 h2

theorem bytesLt_asymm (a b : List UInt8) (h : bytesLt a b = true) : bytesLt b a = false := by
  cases hba : bytesLt b a with
  | false => rfl
  | true =>
    have := bytesLt_trans a b a h hba
    rw [bytesLt_irrefl] at this; cases this

theorem bytesLt_total : ∀ (a b : List UInt8), bytesLt a b = false → bytesLt b a = false → a = b
  | [], [], _, _ => rfl
  | [], _ :: _, h, _ => by simp [bytesLt] at h
  | _ :: _, [], _, h => by simp [bytesLt] at h
  | a :: as, b :: bs, h1, h2 => by
    rw [bytesLt_cons] at h1 h2
    by_cases hab : a.toNat < b.toNat
    · rw [if_pos hab] at h1; cases h1
    · by_cases hba : b.toNat < a.toNat
      · rw [if_pos hba] at h2; cases h2
      · rw [if_neg hab, if_neg hba] at h1
        rw [if_neg hba, if_neg hab] at h2
        have : a = b := UInt8.toNat_inj.mp (by omega)
        rw [this, bytesLt_total as bs h1 h2]

/-! ### `bytesLe` is a total order -/

theorem bytesLe_iff (a b : Bytes) : bytesLe a b = true ↔ bytesLt b a = false := by
  unfold bytesLe; cases bytesLt b a <;> simp

theorem bytesLe_refl (a : Bytes) : bytesLe a a = true := (bytesLe_iff a a).mpr (bytesLt_irrefl a)

theorem bytesLe_total (a b : Bytes) : (bytesLe a b || bytesLe b a) = true := by
  cases h : bytesLt b a with
  | false => rw [(bytesLe_iff a b).mpr h]; rfl
  | true => rw [(bytesLe_iff b a).mpr (bytesLt_asymm b a h)]; simp

theorem bytesLe_trans (a b c : Bytes) (h1 : bytesLe a b = true) (h2 : bytesLe b c = true) : bytesLe a c = true := by
  rw [bytesLe_iff] at h1 h2 ⊢
  cases hca : bytesLt c a with
  | false => rfl
  | true =>
    cases hab : bytesLt a b with
    | false =>
      have := bytesLt_total a b hab h1
      subst this; rw [hca] at h2; cases h2
    | true =>
      have := bytesLt_trans c a b hca hab
      rw [this] at h2; cases h2

theorem bytesLe_antisymm (a b : Bytes) (h1 : bytesLe a b = true) (h2 : bytesLe b a = true) : a = b := by
  rw [bytesLe_iff] at h1 h2
  exact bytesLt_total a b h2 h1

theorem sorted_unique (l₁ l₂ : List Bytes) (hp : l₁.Perm l₂)
    (h₁ : l₁.Pairwise (fun a b => bytesLe a b = true)) (h₂ : l₂.Pairwise (fun a b => bytesLe a b = true)) : l₁ = l₂ :=
  List.Perm.eq_of_pairwise (le := fun a b => bytesLe a b = true)
    (fun a b _ _ hab hba => bytesLe_antisymm a b hab hba) h₁ h₂ hp

theorem sortedLeaves_pairwise (ls : List Bytes) : (sortedLeaves ls).Pairwise (fun a b => bytesLe a b = true) :=
  List.pairwise_mergeSort (le := fun a b => bytesLe a b) bytesLe_trans bytesLe_total ls

theorem sortedLeaves_perm (ls : List Bytes) : (sortedLeaves ls).Perm ls := List.mergeSort_perm ls _

theorem sortedLeaves_length (ls : List Bytes) : (sortedLeaves ls).length = ls.length := List.length_mergeSort ls

theorem sortedLeaves_congr (ls ls' : List Bytes) (hp : ls.Perm ls') : sortedLeaves ls = sortedLeaves ls' :=
  sorted_unique _ _ ((sortedLeaves_perm ls).trans (hp.trans (sortedLeaves_perm ls').symm))
    (sortedLeaves_pairwise ls) (sortedLeaves_pairwise ls')

/-! ### the root -/

theorem txroot_perm (H : Hashers) (ls ls' : List Bytes) (hp : ls.Perm ls') : tip908Root H ls = tip908Root H ls' := by
  unfold tip908Root; rw [sortedLeaves_congr ls ls' hp]

theorem txroot_member_provable (H : Hashers) (ls : List Bytes) (l : Bytes) (hl : l ∈ ls) :
    ∃ i, i < ls.length ∧ (sortedLeaves ls).getD i [] = l ∧
      verifyDense H (denseProof H (sortedLeaves ls) i) (tip908Root H ls) i (hashData H l) = true := by
  have hm : l ∈ sortedLeaves ls := (sortedLeaves_perm ls).mem_iff.mpr hl
  obtain ⟨i, hi, e⟩ := List.mem_iff_getElem.mp hm
  have hg : (sortedLeaves ls).getD i [] = l := by
    rw [List.getD_eq_getElem?_getD, List.getElem?_eq_getElem hi]; exact e
  refine ⟨i, by rw [← sortedLeaves_length ls]; exact hi, hg, ?_⟩
  have := dense_complete H (sortedLeaves ls) i hi
  rw [hg] at this
  exact this

theorem txroot_sound (H : Hashers) (hi : Inj H) (ls : List Bytes) (i : Nat) (b : Bytes) (proof : List Hash)
    (hp : proof.length = Nat.log2 (denseLeaves H (sortedLeaves ls)).length) (hidx : i < ls.length)
    (hv : verifyDense H proof (tip908Root H ls) i (hashData H b) = true) : (sortedLeaves ls).getD i [] = b :=
  dense_member_only H hi (sortedLeaves ls) i b proof hp (by rw [sortedLeaves_length]; exact hidx) hv

theorem txroot_injective (H : Hashers) (hi : Inj H) (ls ls' : List Bytes)
    (hne : ∀ x ∈ ls, x ≠ []) (hne' : ∀ x ∈ ls', x ≠ [])
    (hsz : nextPow2 ls.length = nextPow2 ls'.length) (hr : tip908Root H ls = tip908Root H ls') : ls.Perm ls' := by
  have heq : sortedLeaves ls = sortedLeaves ls' :=
    dense_root_injective H hi (sortedLeaves ls) (sortedLeaves ls')
      (fun x hx => hne x ((sortedLeaves_perm ls).mem_iff.mp hx))
      (fun x hx => hne' x ((sortedLeaves_perm ls').mem_iff.mp hx))
      (by rw [sortedLeaves_length, sortedLeaves_length]; exact hsz) hr
  exact (sortedLeaves_perm ls).symm.trans (heq ▸ sortedLeaves_perm ls')

/-! ### the position -/

theorem sortedPosn_eq (hashes : List Hash) (h : Hash) :
    sortedPosn hashes h = (sortedLeaves hashes).findIdx? (fun k => k == h) := by
  simp only [sortedPosn, sortedLeaves]
  split <;> rename_i e <;> rw [e]

theorem posn_none_iff (hashes : List Hash) (h : Hash) : sortedPosn hashes h = none ↔ h ∉ hashes := by
  rw [sortedPosn_eq, List.findIdx?_eq_none_iff]
  constructor
  · intro hall hm
    have := hall h ((sortedLeaves_perm hashes).mem_iff.mpr hm)
    simp at this
  · intro hn x hx
    have hx' := (sortedLeaves_perm hashes).mem_iff.mp hx
    cases hb : (x == h) with
    | false => rfl
    | true => exact absurd (beq_iff_eq.mp hb ▸ hx') hn

/-- in a strictly increasing list the elements below the `i`-th are the first `i` -/
theorem filter_lt_length : ∀ (s : List Bytes) (i : Nat) (hi : i < s.length),
    s.Pairwise (fun a b => bytesLt a b = true) → (s.filter (fun k => bytesLt k s[i])).length = i
  | x :: xs, 0, _, hpw => by
    have hx := (List.pairwise_cons.mp hpw).1
    have : (x :: xs).filter (fun k => bytesLt k x) = [] := by
      rw [List.filter_eq_nil_iff]
      intro a ha
      rcases List.mem_cons.mp ha with e | hm
      · rw [e, bytesLt_irrefl]; simp
      · rw [bytesLt_asymm x a (hx a hm)]; simp
    simp only [List.getElem_cons_zero]
    rw [this]; rfl
  | x :: xs, j + 1, hi, hpw => by
    have hx := (List.pairwise_cons.mp hpw).1
    have hj : j < xs.length := by simpa using hi
    have ih := filter_lt_length xs j hj (List.pairwise_cons.mp hpw).2
    simp only [List.getElem_cons_succ]
    rw [List.filter_cons, if_pos (hx _ (List.getElem_mem hj))]
    simp [ih]

theorem sorted_strict (hashes : List Hash) (hnd : hashes.Nodup) :
    (sortedLeaves hashes).Pairwise (fun a b => bytesLt a b = true) := by
  have hnd' : (sortedLeaves hashes).Nodup := (sortedLeaves_perm hashes).nodup_iff.mpr hnd
  have := (sortedLeaves_pairwise hashes).and (List.nodup_iff_pairwise_ne.mp hnd')
  refine this.imp ?_
  intro a b ⟨hle, hne⟩
  cases hab : bytesLt a b with
  | true => rfl
  | false => exact absurd (bytesLt_total a b hab ((bytesLe_iff a b).mp hle)) hne

theorem posn_getElem (hashes : List Hash) (h : Hash) (i : Nat) (hp : sortedPosn hashes h = some i) :
    ∃ hi : i < (sortedLeaves hashes).length, (sortedLeaves hashes)[i] = h := by
  rw [sortedPosn_eq, List.findIdx?_eq_some_iff_getElem] at hp
  obtain ⟨hi, he, _⟩ := hp
  exact ⟨hi, beq_iff_eq.mp he⟩

theorem posn_is_rank (hashes : List Hash) (h : Hash) (i : Nat) (hnd : hashes.Nodup)
    (hp : sortedPosn hashes h = some i) : i = (hashes.filter (fun k => bytesLt k h)).length := by
  obtain ⟨hi, he⟩ := posn_getElem hashes h i hp
  have h1 := filter_lt_length (sortedLeaves hashes) i hi (sorted_strict hashes hnd)
  rw [he] at h1
  rw [← h1]
  exact ((sortedLeaves_perm hashes).filter (fun k => bytesLt k h)).length_eq

/-! ### leaves and their prefixes -/

/-- the order of two strings of the same length that differ is decided inside them, whatever follows -/
theorem bytesLt_append : ∀ (a b x y : Bytes), a.length = b.length → a ≠ b →
    bytesLt (a ++ x) (b ++ y) = bytesLt a b
  | [], [], _, _, _, hne => absurd rfl hne
  | [], _ :: _, _, _, hl, _ => by simp at hl
  | _ :: _, [], _, _, hl, _ => by simp at hl
  | a :: as, b :: bs, x, y, hl, hne => by
    rw [List.cons_append, List.cons_append, bytesLt_cons, bytesLt_cons]
    by_cases hab : a.toNat < b.toNat
    · rw [if_pos hab, if_pos hab]
    · by_cases hba : b.toNat < a.toNat
      · rw [if_neg hab, if_pos hba, if_neg hab, if_pos hba]
      · rw [if_neg hab, if_neg hba, if_neg hab, if_neg hba]
        have e : a = b := UInt8.toNat_inj.mp (by omega)
        refine bytesLt_append as bs x y (by simpa using hl) ?_
        intro e'; exact hne (by rw [e, e'])

theorem nodup_map_inj {α β} (f : α → β) : ∀ (l : List α), (l.map f).Nodup →
    ∀ a ∈ l, ∀ b ∈ l, f a = f b → a = b
  | [], _, a, ha, _, _, _ => by cases ha
  | x :: xs, hnd, a, ha, b, hb, e => by
    rw [List.map_cons, List.nodup_cons] at hnd
    rcases List.mem_cons.mp ha with ea | ha' <;> rcases List.mem_cons.mp hb with eb | hb'
    · rw [ea, eb]
    · exact absurd (List.mem_map.mpr ⟨b, hb', by rw [← e, ea]⟩) hnd.1
    · exact absurd (List.mem_map.mpr ⟨a, ha', by rw [e, eb]⟩) hnd.1
    · exact nodup_map_inj f xs hnd.2 a ha' b hb' e

theorem posn_matches_leaf (txs : List (Hash × Hash)) (hlen : ∀ t ∈ txs, t.1.length = 32)
    (hnd : (txs.map (·.1)).Nodup) (t : Hash × Hash) (ht : t ∈ txs) (i : Nat)
    (hp : sortedPosn (txs.map (·.1)) t.1 = some i) :
    (sortedLeaves (txs.map fun t => leafOf t.1 t.2)).getD i [] = leafOf t.1 t.2 := by
  let leaves := txs.map fun t => leafOf t.1 t.2
  let L := sortedLeaves leaves
  -- every element of `L` is the leaf of a transaction
  have hL : ∀ a ∈ L, ∃ t' ∈ txs, a = t'.1 ++ t'.2 ∧ a.take 32 = t'.1 := by
    intro a ha
    have : a ∈ leaves := (sortedLeaves_perm leaves).mem_iff.mp ha
    obtain ⟨t', ht', e⟩ := List.mem_map.mp this
    refine ⟨t', ht', e.symm, ?_⟩
    rw [← e]; exact List.take_left' (hlen t' ht')
  -- the prefixes of the sorted leaves are the sorted hashes
  have hperm : (L.map (List.take 32)).Perm (sortedLeaves (txs.map (·.1))) := by
    have h1 : (L.map (List.take 32)).Perm (leaves.map (List.take 32)) := (sortedLeaves_perm leaves).map _
    have h2 : leaves.map (List.take 32) = txs.map (·.1) := by
      rw [List.map_map]
      apply List.map_congr_left
      intro t' ht'
      exact List.take_left' (hlen t' ht')
    rw [h2] at h1
    exact h1.trans (sortedLeaves_perm _).symm
  have hpw : (L.map (List.take 32)).Pairwise (fun a b => bytesLe a b = true) := by
    rw [List.pairwise_map]
    refine (sortedLeaves_pairwise leaves).imp_of_mem ?_
    intro a b ha hb hab
    obtain ⟨ta, hta, ea, pa⟩ := hL a ha
    obtain ⟨tb, htb, eb, pb⟩ := hL b hb
    rw [pa, pb]
    by_cases e : tb.1 = ta.1
    · rw [e]; exact bytesLe_refl _
    · rw [bytesLe_iff] at hab ⊢
      rw [ea, eb, bytesLt_append tb.1 ta.1 tb.2 ta.2 (by rw [hlen tb htb, hlen ta hta]) e] at hab
      exact hab
  have heq : L.map (List.take 32) = sortedLeaves (txs.map (·.1)) :=
    sorted_unique _ _ hperm hpw (sortedLeaves_pairwise _)
  obtain ⟨hi, he⟩ := posn_getElem (txs.map (·.1)) t.1 i hp
  have hiL : i < L.length := by
    have := congrArg List.length heq
    rw [List.length_map] at this
    rw [this]; exact hi
  have hpre : (L[i]).take 32 = t.1 := by
    have : (L.map (List.take 32))[i]'(by rw [List.length_map]; exact hiL) = t.1 := by
      rw [← he]; congr 1
    rw [List.getElem_map] at this
    exact this
  obtain ⟨t', ht', e, p⟩ := hL L[i] (List.getElem_mem hiL)
  have htt : t' = t := nodup_map_inj (·.1) txs hnd t' ht' t ht (by rw [← p, hpre])
  show L.getD i [] = leafOf t.1 t.2
  rw [List.getD_eq_getElem?_getD, List.getElem?_eq_getElem hiL, Option.getD_some, e, htt]
  rfl

end Mel.TxRoot
