/-
  Helper lemmas for Props/C19Life.lean.
-/
import MelModel.Chain
import MelModel.Genesis
import MelModel.Lemmas.Faucet
import MelModel.Lemmas.Swap
namespace Mel
namespace FLifeL
open Mel.Gen

/-! ### sealing and block opening leave a coin away from the block's transactions alone -/

/-- no transaction of the list has the hash of `id`, so none is a pool request landing on `id` -/
theorem noRequestAt_of_clear {id : CoinID} {txs : List Tx} (h : ∀ t ∈ txs, t.hash ≠ id.txhash) :
    NoRequestAt id txs := fun tx htx he => absurd he (h tx htx)

theorem sealState_getCoin {env : Env} {s : State} {a : Option ProposerAction} {ss : Sealed}
    (h : sealState env s a = .ok ss) {m : CoinID} (hclear : ∀ t ∈ s.txs, t.hash ≠ m.txhash)
    (hrew : env.rewardId s.height ≠ m.txhash) : ss.st.coins.getCoin m = s.coins.getCoin m :=
  sealState_coins m env s a ss h (noRequestAt_of_clear hclear) (fun e => hrew e.symm)

theorem insertCoinCount_coins (m : CoinMap) (h : Hash) (n : Nat) : (m.insertCoinCount h n).coins = m.coins := by
  unfold CoinMap.insertCoinCount
  split <;> rfl

/-- the TIP-906 transition only initialises the counts -/
theorem transition_coins (m : CoinMap) : (applyTip906Transition m).coins = m.coins := by
  unfold applyTip906Transition
  refine foldl_inv (fun (c : CoinMap) => c.coins = m.coins) _ _ _ rfl ?_
  intro e _ c hc
  simp only [insertCoinCount_coins]
  exact hc

theorem nextUnsealed_coins {env : Env} {ss : Sealed} {s' : State} (h : nextUnsealed env ss = .ok s') :
    s'.coins.coins = ss.st.coins.coins := by
  unfold nextUnsealed at h
  obtain ⟨hdr, _, h⟩ := Outcome.bind_eq_ok h
  simp only at h
  split at h
  · cases h; exact transition_coins _
  · cases h; rfl

theorem nextUnsealed_getCoin {env : Env} {ss : Sealed} {s' : State} (h : nextUnsealed env ss = .ok s')
    (m : CoinID) : s'.coins.getCoin m = ss.st.coins.getCoin m := by
  unfold CoinMap.getCoin
  rw [nextUnsealed_coins h]

/-! ### the marker written by an accepted faucet transaction is the zero-covenant coin -/

/-- the marker coin written by `handle_faucet_tx` -/
def marker : CoinDataHeight :=
  { coinData := { denom := .mel, value := 0, additionalData := [], covhash := zeroHash }, height := 0 }

theorem handleFaucetTx_marker {env : Env} {s s1 : State} {tx : Tx} (h : handleFaucetTx env s tx = .ok s1)
    (hng : env.isGrandfathered tx.hash = false) :
    s1.coins.getCoin { txhash := env.fdp tx.hash, index := 0 } = some marker := by
  unfold handleFaucetTx at h
  simp only at h
  split at h
  · cases h
  · split at h
    · cases h
    · split at h
      · cases h
        simp only [FaucetL.CoinMap.getCoin_insertCoin, if_true]
        rfl
      · next hbug => rw [hng] at hbug; simp at hbug

theorem cnsStep_marker {env : Env} {t : Bool} {st st' : State} {tx : Tx}
    (h : cnsStep env t st tx = .ok st') (hf : tx.kind = .faucet) (hng : env.isGrandfathered tx.hash = false)
    (hin : ({ txhash := env.fdp tx.hash, index := 0 } : CoinID) ∉ tx.inputs) :
    st'.coins.getCoin { txhash := env.fdp tx.hash, index := 0 } = some marker := by
  obtain ⟨st1, h1, _, hc⟩ := cnsStep_ok h
  rw [if_pos hf] at h1
  rw [hc _ hin]
  exact handleFaucetTx_marker h1 hng

theorem cnsFold_markerCoin {env : Env} {t : Bool} {st r : State} {l : List Tx} {tx : Tx}
    (h : Outcome.foldlM' (cnsStep env t) st l = .ok r)
    (htx : tx ∈ l) (hf : tx.kind = .faucet) (hng : env.isGrandfathered tx.hash = false)
    (hsep : ∀ t ∈ l, ({ txhash := env.fdp tx.hash, index := 0 } : CoinID) ∉ t.inputs) :
    r.coins.getCoin { txhash := env.fdp tx.hash, index := 0 } = some marker := by
  obtain ⟨l₁, l₂, rfl⟩ := List.append_of_mem htx
  obtain ⟨mid, mid', _, h2, h3⟩ := cnsFold_split h
  have hp := cnsStep_marker h2 hf hng (hsep tx (by simp))
  rw [cnsFold_keep h3 (fun t ht => hsep t (by simp [ht])) (by rw [hp]; rfl)]
  exact hp

/-- an accepted (non-grandfathered) faucet transaction leaves the zero-covenant marker coin at its marker id -/
theorem applyBatch_marker {env : Env} {s s' : State} {txs : List Tx} {fb : Header}
    (h : applyBatch env s txs fb = .ok s') {tx : Tx} (htx : tx ∈ txs) (hk : tx.kind = .faucet)
    (hng : env.isGrandfathered tx.hash = false)
    (hsep : ∀ t ∈ txs, ({ txhash := env.fdp tx.hash, index := 0 } : CoinID) ∉ t.inputs) :
    s'.coins.getCoin { txhash := env.fdp tx.hash, index := 0 } = some marker := by
  obtain ⟨rel, ns, next, _, _, _, hc, hco⟩ := FaucetL.applyBatch_ok h
  rw [FaucetL.createNextState_eq] at hc
  rw [hco]
  exact cnsFold_markerCoin hc htx hk hng hsep

/-- every transaction of an accepted batch passed the covenant-weight guard of `loadRelevantCoins` (fix for F19) -/
theorem applyBatch_covWeightsFit {env : Env} {s s' : State} {txs : List Tx} {fb : Header}
    (h : applyBatch env s txs fb = .ok s') {tx : Tx} (htx : tx ∈ txs) : tx.covWeightsFit = true := by
  obtain ⟨rel, ns, next, hrel, _⟩ := FaucetL.applyBatch_ok h
  unfold loadRelevantCoins at hrel
  split at hrel
  · cases hrel
  · rename_i hall
    simp only [Bool.not_eq_true, Bool.not_eq_false', List.all_eq_true, Bool.and_eq_true] at hall
    exact (hall tx htx).2

/-! ### a concrete run: faucet batch, a second batch, a block -/

namespace Witness

def env : Env := {
  vm := { hash := id, sigOk := fun _ _ _ => true },
  liqHash := id, fdp := fun h => 9 :: h, rewardId := fun _ => [], hdrHash := fun _ => [],
  powOk := fun _ _ _ _ => .invalid, isGrandfathered := fun _ => false,
  historyRoot := fun _ => [], coinsRoot := fun _ => [], txsRoot := fun _ _ => [],
  poolsRoot := fun _ => [], stakesRoot := fun _ => [] }

def cfg : GenesisConfig :=
  { network := .custom02, initCoindata := ⟨[7], 5, .mel, []⟩, stakes := [], initFeePool := 0, initFeeMultiplier := 0 }

/-- the faucet transaction whose marker is followed -/
def t : Tx := {
  kind := .faucet, inputs := [], outputs := [(⟨[8], 5, .mel, []⟩ : CoinData)], fee := 0,
  covenants := [], data := [], sigs := [], hash := [2], rawLen := 0, covHashes := [] }
/-- another faucet transaction, applied by a later batch of the same block -/
def t2 : Tx := {
  kind := .faucet, inputs := [], outputs := [(⟨[8], 3, .sym, []⟩ : CoinData)], fee := 0,
  covenants := [], data := [], sigs := [], hash := [3], rawLen := 0, covHashes := [] }

def getOk {α} [Inhabited α] : Outcome α → α
  | .ok a => a
  | _ => default

theorem eq_getOk {α} [Inhabited α] {o : Outcome α} (h : o.isOk = true) : o = .ok (getOk o) := by
  cases o <;> first | rfl | cases h

def s0 : State := genesisState cfg
def s1 : State := getOk (applyBatch env s0 [t] default)
def s1b : State := getOk (applyBatch env s1 [t2] default)
def ss : Sealed := getOk (sealState env s1b none)
def s2 : State := getOk (nextUnsealed env ss)

theorem batch_ok : applyBatch env s0 [t] default = .ok s1 := eq_getOk (by decide +kernel)
theorem batch2_ok : applyBatch env s1 [t2] default = .ok s1b := eq_getOk (by decide +kernel)
theorem seal_ok : sealState env s1b none = .ok ss := eq_getOk (by decide +kernel)
theorem next_ok : nextUnsealed env ss = .ok s2 := eq_getOk (by decide +kernel)
theorem s1b_txs : ∀ x ∈ s1b.txs, x.hash ≠ [9, 2] := by decide +kernel
theorem heights : s1.height < s2.height := by decide +kernel

end Witness

end FLifeL
end Mel
