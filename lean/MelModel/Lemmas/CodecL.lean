/- helper lemmas for the stdcode model (MelModel/Stdcode.lean); used by MelModel/Props/Codec.lean -/
import MelModel.Stdcode
namespace Mel.Stdcode
open Mel

/-! ### little-endian byte strings -/

@[simp] theorem toLE_length (k n : Nat) : (toLE k n).length = k := by
  induction k generalizing n with
  | zero => simp [toLE]
  | succ k ih => simp [toLE, ih]

theorem fromLE_lt (bs : Bytes) : fromLE bs < 256 ^ bs.length := by
  induction bs with
  | nil => simp [fromLE]
  | cons b bs ih =>
    simp only [fromLE, List.length_cons, Nat.pow_succ]
    have := UInt8.toNat_lt b
    omega

theorem fromLE_toLE (k n : Nat) (h : n < 256 ^ k) : fromLE (toLE k n) = n := by
  induction k generalizing n with
  | zero => simp at h; simp [toLE, fromLE, h]
  | succ k ih =>
    have h' : n / 256 < 256 ^ k := by
      rw [Nat.pow_succ] at h
      omega
    simp only [toLE, fromLE, ih _ h', UInt8.toNat_ofNat']
    omega

/-! ### `takeN` -/

theorem takeN_append (a b : Bytes) : takeN a.length (a ++ b) = some (a, b) := by
  simp [takeN]

theorem takeN_append' {n : Nat} {a : Bytes} (h : a.length = n) (b : Bytes) : takeN n (a ++ b) = some (a, b) := by
  subst h; exact takeN_append a b

theorem takeN_toLE (k n : Nat) (rest : Bytes) : takeN k (toLE k n ++ rest) = some (toLE k n, rest) :=
  takeN_append' (toLE_length k n) rest

theorem takeN_spec {n : Nat} {bs x r : Bytes} (h : takeN n bs = some (x, r)) : bs = x ++ r ∧ x.length = n := by
  unfold takeN at h
  split at h
  · injection h with h
    injection h with h1 h2
    subst h1; subst h2
    refine ⟨(List.take_append_drop n bs).symm, ?_⟩
    simp [List.length_take]; omega
  · cases h

theorem takeN_ext {n : Nat} {bs x r : Bytes} (t : Bytes) (h : takeN n bs = some (x, r)) :
    takeN n (bs ++ t) = some (x, r ++ t) := by
  obtain ⟨h1, h2⟩ := takeN_spec h
  subst h1
  rw [List.append_assoc]
  exact takeN_append' h2 _

/-- the tail of every multi-byte branch of the varint readers -/
def rdLE (k : Nat) (bs : Bytes) : Option (Nat × Bytes) := (takeN k bs).map fun (x, r) => (fromLE x, r)

theorem rdLE_inv {k : Nat} {bs r : Bytes} {n : Nat} (h : rdLE k bs = some (n, r)) :
    ∃ x, takeN k bs = some (x, r) ∧ n = fromLE x := by
  unfold rdLE at h
  cases h' : takeN k bs with
  | none => rw [h'] at h; cases h
  | some p =>
    obtain ⟨x, r'⟩ := p
    rw [h'] at h
    simp only [Option.map_some] at h
    injection h with h
    injection h with h1 h2
    subst h1; subst h2
    exact ⟨x, rfl, rfl⟩

theorem rdLE_ext {k : Nat} {bs r : Bytes} {n : Nat} (t : Bytes) (h : rdLE k bs = some (n, r)) :
    rdLE k (bs ++ t) = some (n, r ++ t) := by
  obtain ⟨x, h1, h2⟩ := rdLE_inv h
  simp [rdLE, takeN_ext t h1, h2]

theorem rdLE_range {k : Nat} {bs r : Bytes} {n : Nat} (h : rdLE k bs = some (n, r)) :
    n < 256 ^ k ∧ ∃ x, bs = x ++ r ∧ x.length = k := by
  obtain ⟨x, h1, h2⟩ := rdLE_inv h
  obtain ⟨h3, h4⟩ := takeN_spec h1
  refine ⟨?_, x, h3, h4⟩
  rw [h2, ← h4]; exact fromLE_lt x

theorem rdLE_toLE (k n : Nat) (h : n < 256 ^ k) (rest : Bytes) : rdLE k (toLE k n ++ rest) = some (n, rest) := by
  simp [rdLE, takeN_toLE, fromLE_toLE k n h]

/-! ### varints -/

theorem getVarint64_cons (b : UInt8) (rest : Bytes) :
    getVarint64 (b :: rest) =
      if b.toNat ≤ 250 then some (b.toNat, rest)
      else if b.toNat = 251 then rdLE 2 rest
      else if b.toNat = 252 then rdLE 4 rest
      else if b.toNat = 253 then rdLE 8 rest
      else none := rfl

theorem getVarint128_cons (b : UInt8) (rest : Bytes) :
    getVarint128 (b :: rest) =
      if b.toNat ≤ 250 then some (b.toNat, rest)
      else if b.toNat = 251 then rdLE 2 rest
      else if b.toNat = 252 then rdLE 4 rest
      else if b.toNat = 253 then rdLE 8 rest
      else if b.toNat = 254 then rdLE 16 rest
      else none := rfl

theorem getVarint64_append {bs r : Bytes} {n : Nat} (t : Bytes) (h : getVarint64 bs = some (n, r)) :
    getVarint64 (bs ++ t) = some (n, r ++ t) := by
  cases bs with
  | nil => cases h
  | cons b rest =>
    rw [List.cons_append, getVarint64_cons]
    rw [getVarint64_cons] at h
    repeat' split at h
    · injection h with h; injection h with h1 h2; subst h1; subst h2; simp [*]
    · simp [*, rdLE_ext t h]
    · simp [*, rdLE_ext t h]
    · simp [*, rdLE_ext t h]
    · cases h

theorem getVarint128_append {bs r : Bytes} {n : Nat} (t : Bytes) (h : getVarint128 bs = some (n, r)) :
    getVarint128 (bs ++ t) = some (n, r ++ t) := by
  cases bs with
  | nil => cases h
  | cons b rest =>
    rw [List.cons_append, getVarint128_cons]
    rw [getVarint128_cons] at h
    repeat' split at h
    · injection h with h; injection h with h1 h2; subst h1; subst h2; simp [*]
    · simp [*, rdLE_ext t h]
    · simp [*, rdLE_ext t h]
    · simp [*, rdLE_ext t h]
    · simp [*, rdLE_ext t h]
    · cases h

theorem putVarint_length (n : Nat) : (putVarint n).length = varintLen n := by
  unfold putVarint varintLen
  repeat' split
  all_goals simp

theorem varintLen_bounds (n : Nat) : 1 ≤ varintLen n ∧ varintLen n ≤ 17 := by
  unfold varintLen
  repeat' split
  all_goals omega

theorem varintLen_succ (n : Nat) : varintLen n ≤ varintLen (n + 1) ∧ varintLen (n + 1) ≤ varintLen n + 8 := by
  unfold varintLen
  repeat' split
  all_goals omega

theorem varint64_roundtrip (n : Nat) (h : n < 2 ^ 64) (rest : Bytes) :
    getVarint64 (putVarint n ++ rest) = some (n, rest) := by
  unfold putVarint
  split
  · rename_i h1
    have : n % 256 = n := by omega
    simp [getVarint64_cons, this, h1]
  split
  · rw [List.cons_append, getVarint64_cons]
    exact rdLE_toLE 2 n (by omega) rest
  split
  · rw [List.cons_append, getVarint64_cons]
    exact rdLE_toLE 4 n (by omega) rest
  · rw [List.cons_append, getVarint64_cons]
    exact rdLE_toLE 8 n (by omega) rest

theorem varint128_roundtrip (n : Nat) (h : n < 2 ^ 128) (rest : Bytes) :
    getVarint128 (putVarint n ++ rest) = some (n, rest) := by
  unfold putVarint
  split
  · rename_i h1
    have : n % 256 = n := by omega
    simp [getVarint128_cons, this, h1]
  split
  · rw [List.cons_append, getVarint128_cons]
    exact rdLE_toLE 2 n (by omega) rest
  split
  · rw [List.cons_append, getVarint128_cons]
    exact rdLE_toLE 4 n (by omega) rest
  split
  · rw [List.cons_append, getVarint128_cons]
    exact rdLE_toLE 8 n (by omega) rest
  · rw [List.cons_append, getVarint128_cons]
    exact rdLE_toLE 16 n (by omega) rest

theorem varint64_range (bs rest : Bytes) (n : Nat) (h : getVarint64 bs = some (n, rest)) :
    n < 2 ^ 64 ∧ ∃ used, bs = used ++ rest ∧ 1 ≤ used.length ∧ used.length ≤ 9 := by
  cases bs with
  | nil => cases h
  | cons b rest' =>
    rw [getVarint64_cons] at h
    repeat' split at h
    · injection h with h; injection h with h1 h2; subst h1; subst h2
      have := UInt8.toNat_lt b
      exact ⟨by omega, [b], rfl, by simp, by simp⟩
    · obtain ⟨h1, x, h2, h3⟩ := rdLE_range h
      exact ⟨by omega, b :: x, by simp [h2], by simp, by simp; omega⟩
    · obtain ⟨h1, x, h2, h3⟩ := rdLE_range h
      exact ⟨by omega, b :: x, by simp [h2], by simp, by simp; omega⟩
    · obtain ⟨h1, x, h2, h3⟩ := rdLE_range h
      exact ⟨by omega, b :: x, by simp [h2], by simp, by simp; omega⟩
    · cases h

theorem varint128_range (bs rest : Bytes) (n : Nat) (h : getVarint128 bs = some (n, rest)) :
    n < 2 ^ 128 ∧ ∃ used, bs = used ++ rest ∧ 1 ≤ used.length ∧ used.length ≤ 17 := by
  cases bs with
  | nil => cases h
  | cons b rest' =>
    rw [getVarint128_cons] at h
    repeat' split at h
    · injection h with h; injection h with h1 h2; subst h1; subst h2
      have := UInt8.toNat_lt b
      exact ⟨by omega, [b], rfl, by simp, by simp⟩
    · obtain ⟨h1, x, h2, h3⟩ := rdLE_range h
      exact ⟨by omega, b :: x, by simp [h2], by simp, by simp; omega⟩
    · obtain ⟨h1, x, h2, h3⟩ := rdLE_range h
      exact ⟨by omega, b :: x, by simp [h2], by simp, by simp; omega⟩
    · obtain ⟨h1, x, h2, h3⟩ := rdLE_range h
      exact ⟨by omega, b :: x, by simp [h2], by simp, by simp; omega⟩
    · obtain ⟨h1, x, h2, h3⟩ := rdLE_range h
      exact ⟨by omega, b :: x, by simp [h2], by simp, by simp; omega⟩
    · cases h

/-! ### stake documents -/

theorem decodeStakeDoc_inv {bs : Bytes} {d : StakeDoc} (h : decodeStakeDoc bs = some d) :
    ∃ r₁ r₂ r₃, takeN 32 bs = some (d.pubkey, r₁) ∧ getVarint64 r₁ = some (d.eStart, r₂) ∧
      getVarint64 r₂ = some (d.ePostEnd, r₃) ∧ getVarint128 r₃ = some (d.symsStaked, []) := by
  unfold decodeStakeDoc at h
  split at h
  · cases h
  split at h
  · cases h
  split at h
  · cases h
  split at h
  · cases h
  split at h
  · rename_i hr
    subst hr
    injection h with h
    subst h
    exact ⟨_, _, _, ‹_›, ‹_›, ‹_›, ‹_›⟩
  · cases h

theorem decodeStakeDoc_of {bs r₁ r₂ r₃ r₄ pk : Bytes} {e e' s : Nat} (h0 : takeN 32 bs = some (pk, r₁))
    (h1 : getVarint64 r₁ = some (e, r₂)) (h2 : getVarint64 r₂ = some (e', r₃)) (h3 : getVarint128 r₃ = some (s, r₄)) :
    decodeStakeDoc bs =
      if r₄ = [] then some { pubkey := pk, eStart := e, ePostEnd := e', symsStaked := s } else none := by
  unfold decodeStakeDoc
  simp only [h0, h1, h2, h3]

theorem stakedoc_roundtrip (d : StakeDoc) (h : StakeDoc.Fits d) : decodeStakeDoc (encodeStakeDoc d) = some d := by
  obtain ⟨hpk, he, he', hs⟩ := h
  unfold encodeStakeDoc
  rw [List.append_assoc, List.append_assoc]
  have h3 := varint128_roundtrip d.symsStaked hs []
  rw [List.append_nil] at h3
  rw [decodeStakeDoc_of (takeN_append' hpk _) (varint64_roundtrip _ he _) (varint64_roundtrip _ he' _) h3]
  simp

theorem stakedoc_decoded_fits (bs : Bytes) (d : StakeDoc) (h : decodeStakeDoc bs = some d) : StakeDoc.Fits d := by
  obtain ⟨r₁, r₂, r₃, h0, h1, h2, h3⟩ := decodeStakeDoc_inv h
  exact ⟨(takeN_spec h0).2, (varint64_range _ _ _ h1).1, (varint64_range _ _ _ h2).1, (varint128_range _ _ _ h3).1⟩

theorem stakedoc_no_trailing (bs t : Bytes) (d : StakeDoc) (h : decodeStakeDoc bs = some d) (ht : t ≠ []) :
    decodeStakeDoc (bs ++ t) = none := by
  obtain ⟨r₁, r₂, r₃, h0, h1, h2, h3⟩ := decodeStakeDoc_inv h
  rw [decodeStakeDoc_of (takeN_ext t h0) (getVarint64_append t h1) (getVarint64_append t h2) (getVarint128_append t h3)]
  simp [ht]

theorem stakedoc_no_prefix (bs t : Bytes) (d : StakeDoc) (h : decodeStakeDoc (bs ++ t) = some d) (ht : t ≠ []) :
    decodeStakeDoc bs = none := by
  cases h' : decodeStakeDoc bs with
  | none => rfl
  | some d' =>
    rw [stakedoc_no_trailing bs t d' h' ht] at h
    cases h

theorem stakedoc_length (bs : Bytes) (d : StakeDoc) (h : decodeStakeDoc bs = some d) :
    35 ≤ bs.length ∧ bs.length ≤ 67 := by
  obtain ⟨r₁, r₂, r₃, h0, h1, h2, h3⟩ := decodeStakeDoc_inv h
  obtain ⟨e0, l0⟩ := takeN_spec h0
  obtain ⟨_, u1, e1, l1, l1'⟩ := varint64_range _ _ _ h1
  obtain ⟨_, u2, e2, l2, l2'⟩ := varint64_range _ _ _ h2
  obtain ⟨_, u3, e3, l3, l3'⟩ := varint128_range _ _ _ h3
  subst e0; subst e1; subst e2; subst e3
  simp only [List.length_append, List.length_nil]
  omega

theorem stakedoc_wide_epoch_refused (pk : Bytes) (hpk : pk.length = 32) (rest : Bytes) :
    decodeStakeDoc (pk ++ 254 :: rest) = none ∧ decodeStakeDoc (pk ++ 255 :: rest) = none := by
  constructor
  · unfold decodeStakeDoc
    rw [takeN_append' hpk]
    rfl
  · unfold decodeStakeDoc
    rw [takeN_append' hpk]
    rfl

/-! ### proof-of-work payloads -/

theorem getBytes_inv {bs x r : Bytes} (h : getBytes bs = some (x, r)) :
    ∃ len r', getVarint64 bs = some (len, r') ∧ takeN len r' = some (x, r) := by
  unfold getBytes at h
  split at h
  · cases h
  · exact ⟨_, _, ‹_›, h⟩

theorem decodePow_inv {bs proof : Bytes} {d : Nat} (h : decodePow bs = some (d, proof)) :
    d < 2 ^ 32 ∧ ∃ r₁ len r₂, getVarint64 bs = some (d, r₁) ∧ getVarint64 r₁ = some (len, r₂) ∧
      takeN len r₂ = some (proof, []) := by
  unfold decodePow at h
  split at h
  · cases h
  split at h
  · split at h
    · cases h
    split at h
    · rename_i hv hd _ _ _ hb hr
      subst hr
      injection h with h
      injection h with h1 h2
      subst h1; subst h2
      obtain ⟨len, r', hb1, hb2⟩ := getBytes_inv hb
      exact ⟨hd, _, _, _, hv, hb1, hb2⟩
    · cases h
  · cases h

theorem decodePow_of_some {bs r₁ r₂ r₃ proof : Bytes} {d len : Nat} (h0 : getVarint64 bs = some (d, r₁))
    (hd : d < 2 ^ 32) (h1 : getVarint64 r₁ = some (len, r₂)) (h2 : takeN len r₂ = some (proof, r₃)) :
    decodePow bs = if r₃ = [] then some (d, proof) else none := by
  unfold decodePow getBytes
  simp only [h0, hd, h1, h2, if_true]

theorem decodePow_of_none {bs r₁ r₂ : Bytes} {d len : Nat} (h0 : getVarint64 bs = some (d, r₁))
    (hd : d < 2 ^ 32) (h1 : getVarint64 r₁ = some (len, r₂)) (h2 : takeN len r₂ = none) :
    decodePow bs = none := by
  unfold decodePow getBytes
  simp only [h0, hd, h1, h2, if_true]

theorem pow_roundtrip (difficulty : Nat) (proof : Bytes) (hd : difficulty < 2 ^ 32) (hp : proof.length < 2 ^ 64) :
    decodePow (encodePow difficulty proof) = some (difficulty, proof) := by
  unfold encodePow putBytes
  have : takeN proof.length proof = some (proof, []) := by simp [takeN]
  rw [decodePow_of_some (varint64_roundtrip _ (by omega) _) hd (varint64_roundtrip _ hp _) this]
  simp

theorem pow_decoded_bounds (bs proof : Bytes) (d : Nat) (h : decodePow bs = some (d, proof)) :
    d < 2 ^ 32 ∧ proof.length + 2 ≤ bs.length := by
  obtain ⟨hd, r₁, len, r₂, h0, h1, h2⟩ := decodePow_inv h
  refine ⟨hd, ?_⟩
  obtain ⟨_, u0, e0, l0, _⟩ := varint64_range _ _ _ h0
  obtain ⟨_, u1, e1, l1, _⟩ := varint64_range _ _ _ h1
  obtain ⟨e2, _⟩ := takeN_spec h2
  subst e0; subst e1; subst e2
  simp only [List.length_append, List.length_nil]
  omega

theorem pow_no_trailing (bs t proof : Bytes) (d : Nat) (h : decodePow bs = some (d, proof)) (ht : t ≠ []) :
    decodePow (bs ++ t) = none := by
  obtain ⟨hd, r₁, len, r₂, h0, h1, h2⟩ := decodePow_inv h
  rw [decodePow_of_some (getVarint64_append t h0) hd (getVarint64_append t h1) (takeN_ext t h2)]
  simp [ht]

theorem pow_short_proof_refused (d : Nat) (hd : d < 2 ^ 32) (proof : Bytes) (n : Nat) (hn : proof.length < n)
    (hn64 : n < 2 ^ 64) : decodePow (putVarint d ++ putVarint n ++ proof) = none := by
  rw [List.append_assoc]
  have : takeN n proof = none := by
    unfold takeN
    rw [if_neg (by omega)]
  exact decodePow_of_none (varint64_roundtrip _ (by omega) _) hd (varint64_roundtrip _ hn64 _) this

/-! ### sizes -/

theorem coinDataLen_bounds (c : CoinData) :
    35 ≤ coinDataLen c ∧ coinDataLen c ≤ 83 + c.denom.toBytes.length + c.additionalData.length := by
  unfold coinDataLen
  have h1 := varintLen_bounds c.value
  have h2 := varintLen_bounds c.denom.toBytes.length
  have h3 := varintLen_bounds c.additionalData.length
  omega

theorem bytesLen_gt (b : Bytes) : b.length < bytesLen b := by
  unfold bytesLen
  have := varintLen_bounds b.length
  omega

theorem sum_coinDataLen_ge (l : List CoinData) : 35 * l.length ≤ (l.map coinDataLen).sum := by
  induction l with
  | nil => simp
  | cons c l ih =>
    have := (coinDataLen_bounds c).1
    simp only [List.length_cons, List.map_cons, List.sum_cons]
    omega

theorem sum_bytesLen_ge (l : List Bytes) : (l.map List.length).sum ≤ (l.map bytesLen).sum := by
  induction l with
  | nil => simp
  | cons b l ih =>
    have := bytesLen_gt b
    simp only [List.map_cons, List.sum_cons]
    omega

theorem size_lower (tx : Tx) :
    7 ≤ txLen tx ∧ tx.data.length < txLen tx ∧ 33 * tx.inputs.length < txLen tx ∧ 35 * tx.outputs.length < txLen tx ∧
    (tx.covenants.map List.length).sum < txLen tx ∧ (tx.sigs.map List.length).sum < txLen tx := by
  unfold txLen
  have h1 := varintLen_bounds tx.inputs.length
  have h2 := varintLen_bounds tx.outputs.length
  have h3 := varintLen_bounds tx.fee
  have h4 := varintLen_bounds tx.covenants.length
  have h5 := bytesLen_gt tx.data
  have h6 := varintLen_bounds tx.sigs.length
  have h7 := sum_coinDataLen_ge tx.outputs
  have h8 := sum_bytesLen_ge tx.covenants
  have h9 := sum_bytesLen_ge tx.sigs
  omega

theorem size_of_content (tx tx' : Tx) (hk : tx.inputs.length = tx'.inputs.length) (ho : tx.outputs = tx'.outputs)
    (hf : tx.fee = tx'.fee) (hc : tx.covenants = tx'.covenants) (hd : tx.data = tx'.data) (hs : tx.sigs = tx'.sigs) :
    txLen tx = txLen tx' := by
  unfold txLen
  rw [hk, ho, hf, hc, hd, hs]

theorem size_output (tx : Tx) (c : CoinData) :
    txLen tx + 35 ≤ txLen { tx with outputs := tx.outputs ++ [c] } ∧
    txLen { tx with outputs := tx.outputs ++ [c] } ≤ txLen tx + 99 + c.denom.toBytes.length + c.additionalData.length := by
  unfold txLen
  simp only [List.length_append, List.length_cons, List.length_nil, List.map_append, List.sum_append, List.map_cons,
    List.map_nil, List.sum_cons, List.sum_nil, Nat.zero_add, Nat.add_zero]
  have h1 := varintLen_succ tx.outputs.length
  have h2 := coinDataLen_bounds c
  omega

theorem size_sig (tx : Tx) (sig : Bytes) :
    txLen tx + sig.length < txLen { tx with sigs := tx.sigs ++ [sig] } := by
  unfold txLen
  simp only [List.length_append, List.length_cons, List.length_nil, List.map_append, List.sum_append, List.map_cons,
    List.map_nil, List.sum_cons, List.sum_nil, Nat.zero_add, Nat.add_zero]
  have h1 := varintLen_succ tx.sigs.length
  have h2 := bytesLen_gt sig
  omega

end Mel.Stdcode
