/-
  Helper lemmas for Props/C01Whole.lean.
-/
import MelModel.Seal
import MelModel.Chain
import MelModel.SupplyDefs
import MelModel.Lemmas.Supply
import MelModel.Lemmas.SupplySeal
import MelModel.Props.C01Seal
namespace Mel
namespace WholeL
open Mel.Gen Mel.SupplySealL

/-! ### the peg adjustment -/

/-- the throttler of the peg adjustment -/
def throttlerOf (s : State) : Nat := if s.tip902 then THROTTLER_902 else THROTTLER_PRE

theorem satU128_le (n : Nat) : satU128 n ≤ U128_MAX := by
  unfold satU128; omega

/-- one left-hand step of the peg adjustment -/
theorem swapLeft_le {sm sm' : PoolState} {x lw rw : Nat} (h : sm.swapMany x 0 = .ok (sm', lw, rw)) :
    sm'.lefts ≤ sm.lefts + x ∧ sm'.rights ≤ sm.rights := by
  have := swapMany_le h
  omega

/-- one right-hand step of the peg adjustment -/
theorem swapRight_le {sm sm' : PoolState} {x lw rw : Nat} (h : sm.swapMany 0 x = .ok (sm', lw, rw)) :
    sm'.lefts ≤ sm.lefts ∧ sm'.rights ≤ sm.rights + x := by
  have := swapMany_le h
  omega

/-- the shape of a successful peg adjustment: only the MEL/SYM pool is replaced, and each of its sides grows by
    at most `U128_MAX / throttler` -/
theorem pegging_shape (s s' : State) (h : processPegging s = .ok s') :
    ∃ sm sm2, s.pools.get poolMelSym = some sm ∧ s' = { s with pools := s.pools.set poolMelSym sm2 } ∧
      sm2.lefts ≤ sm.lefts + U128_MAX / throttlerOf s ∧ sm2.rights ≤ sm.rights + U128_MAX / throttlerOf s := by
  unfold processPegging at h
  simp only at h
  obtain ⟨⟨a, b⟩, _, h⟩ := Outcome.bind_eq_ok h
  simp only at h
  obtain ⟨sm, hsm, h⟩ := Outcome.bind_eq_ok h
  have hget : s.pools.get poolMelSym = some sm := by
    split at hsm
    · next p hp => cases hsm; exact hp
    · cases hsm
  split at h
  · cases h
  · obtain ⟨sm1, h1, h⟩ := Outcome.bind_eq_ok h
    obtain ⟨sm2, h2, h⟩ := Outcome.bind_eq_ok h
    cases h
    refine ⟨sm, sm2, hget, rfl, ?_⟩
    have b1 : sm1.lefts ≤ sm.lefts + U128_MAX / throttlerOf s ∧ sm1.rights ≤ sm.rights := by
      split at h1
      · obtain ⟨⟨p, x, y⟩, hs, h1⟩ := Outcome.bind_eq_ok h1
        cases h1
        have l := swapLeft_le hs
        have : (satU128 (Nat.sqrt (sm.lefts * sm.rights * (MICRO_CONVERTER * b) / (microergsIter s.height * a)))
            - sm.lefts) / throttlerOf s ≤ U128_MAX / throttlerOf s :=
          Nat.div_le_div_right (Nat.le_trans (Nat.sub_le _ _) (satU128_le _))
        simp only at l ⊢
        unfold throttlerOf at this ⊢
        generalize U128_MAX / (if s.tip902 = true then THROTTLER_902 else THROTTLER_PRE) = Q at *
        omega
      · cases h1; exact ⟨Nat.le_add_right _ _, Nat.le_refl _⟩
    have b2 : sm2.lefts ≤ sm1.lefts ∧ sm2.rights ≤ sm1.rights + U128_MAX / throttlerOf s := by
      split at h2
      · obtain ⟨⟨p, x, y⟩, hs, h2⟩ := Outcome.bind_eq_ok h2
        cases h2
        have l := swapRight_le hs
        have : (satU128 (Nat.sqrt (sm.lefts * sm.rights * (microergsIter s.height * a) / (MICRO_CONVERTER * b)))
            - sm1.rights) / throttlerOf s ≤ U128_MAX / throttlerOf s :=
          Nat.div_le_div_right (Nat.le_trans (Nat.sub_le _ _) (satU128_le _))
        simp only at l ⊢
        unfold throttlerOf at this ⊢
        generalize U128_MAX / (if s.tip902 = true then THROTTLER_902 else THROTTLER_PRE) = Q at *
        omega
      · cases h2; exact ⟨Nat.le_refl _, Nat.le_add_right _ _⟩
    generalize U128_MAX / throttlerOf s = Q at *
    omega

/-- what the peg adjustment may add to the supply of `d` -/
def pegPart (s : State) (d : Denom) : Nat :=
  if d = .mel ∨ d = .sym then U128_MAX / throttlerOf s else 0

theorem pc_melSym (d : Denom) (p : PoolState) :
    pc d (poolMelSym, p) = (if d = .mel then p.lefts else 0) + (if d = .sym then p.rights else 0) := by
  simp only [pc, poolMelSym_eq]
  cases d <;> simp

/-- the peg adjustment in terms of the supply -/
theorem pegging_supply (s s' : State) (h : processPegging s = .ok s') (hk : (s.pools.map (·.1)).Nodup)
    (d : Denom) : supply s' d ≤ supply s d + pegPart s d := by
  obtain ⟨sm, sm2, hget, rfl, hl, hr⟩ := pegging_shape s s' h
  have t := poolsTotal_set hk d poolMelSym sm2
  rw [AList.at?_some hget, pc_melSym, pc_melSym] at t
  unfold supply pegPart
  simp only
  generalize U128_MAX / throttlerOf s = Q at *
  by_cases h1 : d = .mel
  · subst h1
    simp at t ⊢
    omega
  · by_cases h2 : d = .sym
    · subst h2
      simp at t ⊢
      omega
    · simp [h1, h2] at t ⊢
      omega

/-! ### the TIP-909 subsidy, for every denomination -/

/-- what the TIP-909 subsidy may add to the supply of `d` -/
def subsidyPart (s : State) (d : Denom) : Nat :=
  if d = .sym then 2 ^ SUBSIDY_LOG2 / 2 ^ ((s.height - TIP_909_HEIGHT) / SUBSIDY_HALVING) else 0

theorem pc_ergSym (d : Denom) (p : PoolState) :
    pc d (poolErgSym, p) = (if d = .erg then p.lefts else 0) + (if d = .sym then p.rights else 0) := by
  simp only [pc, poolErgSym_eq]
  cases d <;> simp

theorem tip909_shape (s s' : State) (h : applyTip909 s = .ok s') :
    ∃ p f, s' = { s with pools := p, feePool := f } := by
  unfold applyTip909 at h
  simp only at h
  split at h
  · cases h
  · split at h
    · cases h
    · obtain ⟨⟨sm', mel, x⟩, _, h⟩ := Outcome.bind_eq_ok h
      simp only at h
      split at h
      · cases h
      · split at h
        · cases h
        · obtain ⟨⟨es', y, z⟩, _, h⟩ := Outcome.bind_eq_ok h
          cases h
          exact ⟨_, _, rfl⟩

/-- the subsidy creates SYM only (at most the block's subsidy), for every denomination -/
theorem tip909_supply (s s' : State) (h : applyTip909 s = .ok s') (hk : (s.pools.map (·.1)).Nodup) (d : Denom) :
    supply s' d ≤ supply s d + subsidyPart s d := by
  unfold applyTip909 at h
  simp only at h
  split at h
  · cases h
  · split at h
    · cases h
    · next sm hsm =>
      obtain ⟨⟨sm', mel, x⟩, h1, h⟩ := Outcome.bind_eq_ok h
      simp only at h
      split at h
      · cases h
      · split at h
        · cases h
        · next es hes =>
          obtain ⟨⟨es', y, z⟩, h2, h⟩ := Outcome.bind_eq_ok h
          cases h
          have l1 := swapMany_le h1
          have l2 := swapMany_le h2
          have hn1 := pools_nodup_set hk poolMelSym sm'
          have t1 := poolsTotal_set hk d poolMelSym sm'
          have t2 := poolsTotal_set hn1 d poolErgSym es'
          rw [AList.at?_some hsm, pc_melSym, pc_melSym] at t1
          rw [AList.at?_some hes, pc_ergSym, pc_ergSym] at t2
          have hA : 2 ^ SUBSIDY_LOG2 / 2 ^ ((s.height - TIP_909_HEIGHT) / SUBSIDY_HALVING) / 2 ^ SUBSIDY_ERG_SHIFT
              ≤ 2 ^ SUBSIDY_LOG2 / 2 ^ ((s.height - TIP_909_HEIGHT) / SUBSIDY_HALVING) := Nat.div_le_self _ _
          unfold supply subsidyPart
          simp only
          generalize 2 ^ SUBSIDY_LOG2 / 2 ^ ((s.height - TIP_909_HEIGHT) / SUBSIDY_HALVING) = reward at *
          generalize reward / 2 ^ SUBSIDY_ERG_SHIFT = A at *
          clear h1 h2
          generalize s.tip909a = t at *
          cases t
          · simp only [Bool.false_eq_true, if_false] at l1 l2
            cases d <;> simp at t1 t2 ⊢ <;> omega
          · simp only [if_true] at l1 l2
            cases d <;> simp at t1 t2 ⊢ <;> omega

/-! ### creating the builtin pools -/

theorem createBuiltins_poolKeys (s : State) (hk : (s.pools.map (·.1)).Nodup) :
    ((createBuiltins s).pools.map (·.1)).Nodup := by
  unfold createBuiltins
  simp only
  have h1 := (poolsTotal_setIf s.pools (builtinMissing s.pools poolMelSym) poolMelSym builtinDefault .mel hk).1
  generalize (if builtinMissing s.pools poolMelSym = true then s.pools.set poolMelSym builtinDefault
      else s.pools) = p1 at h1 ⊢
  have h2 := (poolsTotal_setIf p1 (builtinMissing p1 poolMelErg) poolMelErg builtinDefault .mel h1).1
  generalize (if builtinMissing p1 poolMelErg = true then p1.set poolMelErg builtinDefault else p1) = p2 at h2 ⊢
  split
  · exact pools_nodup_set h2 _ _
  · exact h2

/-- `createBuiltins` keeps the standing assumptions of sealing (the pool keys stay unique) -/
theorem createBuiltins_sealPre (s : State) (hp : SealPre s) : SealPre (createBuiltins s) :=
  ⟨hp.coinKeys, createBuiltins_poolKeys s hp.poolKeys, hp.txHashes, hp.faithful, hp.bounded⟩

/-- when the three builtin pools exist and record liquidity, `createBuiltins` does nothing -/
theorem createBuiltins_noop (s : State)
    (hb : ∀ k ∈ [poolMelSym, poolMelErg, poolErgSym], ∃ p, s.pools.get k = some p ∧ p.liqs ≠ 0) :
    createBuiltins s = s := by
  have hm : ∀ k ∈ [poolMelSym, poolMelErg, poolErgSym], builtinMissing s.pools k = false := by
    intro k hk
    obtain ⟨p, hp, hl⟩ := hb k hk
    unfold builtinMissing
    rw [hp]
    simpa using hl
  have h1 := hm poolMelSym (by simp)
  have h2 := hm poolMelErg (by simp)
  have h3 := hm poolErgSym (by simp)
  unfold createBuiltins
  simp [h1, h2, h3]

/-! ### opening the next block -/

theorem transition_coins (m : CoinMap) : (applyTip906Transition m).coins = m.coins := by
  unfold applyTip906Transition
  have : ∀ (l : List (CoinID × CoinDataHeight)) (acc : CoinMap),
      (l.foldl (fun acc e => acc.insertCoinCount e.2.coinData.covhash (acc.coinCount e.2.coinData.covhash + 1))
        acc).coins = acc.coins := by
    intro l
    induction l with
    | nil => intro acc; rfl
    | cons e rest ih =>
      intro acc
      rw [List.foldl_cons, ih]
      unfold CoinMap.insertCoinCount
      split <;> rfl
  exact this _ _

theorem nextUnsealed_supply (env : Env) (ss : Sealed) (s' : State) (h : nextUnsealed env ss = .ok s')
    (d : Denom) : supply s' d = supply ss.st d := by
  unfold nextUnsealed at h
  obtain ⟨hdr, _, h⟩ := Outcome.bind_eq_ok h
  simp only at h
  split at h
  · cases h
    unfold supply coinsTotal
    simp only [transition_coins]
  · cases h
    rfl

/-! ### the coin map while a block is being sealed: unique keys, and no coin with index 0 appears or disappears -/

/-- the coin map `m` reached while sealing a block whose coin map was `c0` -/
structure CI (c0 m : CoinMap) : Prop where
  nodup : m.Nodup
  /-- settlement never creates or removes a coin with index 0 -/
  dom0 : ∀ h, (m.getCoin ⟨h, 0⟩).isSome = (c0.getCoin ⟨h, 0⟩).isSome

theorem CI.refl {c0 : CoinMap} (hn : c0.Nodup) : CI c0 c0 := ⟨hn, fun _ => rfl⟩

theorem CI.insert0 {c0 m : CoinMap} (h : CI c0 m) {x : Hash} (hex : (c0.getCoin ⟨x, 0⟩).isSome = true)
    (c : CoinDataHeight) (t : Bool) : CI c0 (m.insertCoin ⟨x, 0⟩ c t) where
  nodup := CoinMap.Nodup_insertCoin h.nodup _ _ _
  dom0 := by
    intro y
    rw [CoinMap.getCoin_insertCoin]
    split
    · next e =>
      injection e with e1 _
      rw [e1, hex]; rfl
    · exact h.dom0 y

theorem CI.insert1 {c0 m : CoinMap} (h : CI c0 m) (x : Hash) (c : CoinDataHeight) (t : Bool) :
    CI c0 (m.insertCoin ⟨x, 1⟩ c t) where
  nodup := CoinMap.Nodup_insertCoin h.nodup _ _ _
  dom0 := by
    intro y
    rw [CoinMap.getCoin_insertCoin]
    split
    · next e => injection e with _ e2; cases e2
    · exact h.dom0 y

theorem CI.remove1 {c0 m m' : CoinMap} (h : CI c0 m) {x : Hash} {t : Bool}
    (hr : m.removeCoin ⟨x, 1⟩ t = .ok m') : CI c0 m' where
  nodup := CoinMap.Nodup_removeCoin h.nodup hr
  dom0 := by
    intro y
    rw [CoinMap.getCoin_removeCoin hr]
    split
    · next e => injection e with _ e2; cases e2
    · exact h.dom0 y

/-- what holds of the state all through the sealing of a block that started with coin map `c0`, height `H` and
    network `N` (no assumption about the pools or the transactions) -/
structure WInv (c0 : CoinMap) (H : Nat) (N : NetID) (st : State) : Prop where
  height : st.height = H
  network : st.network = N
  coins : CI c0 st.coins

theorem swapStep_winv {c0 : CoinMap} {H : Nat} {N : NetID} (k : PoolKey) (st st' : State) (swaps : List Tx)
    (hi : WInv c0 H N st) (hsw : ∀ tx ∈ swaps, (c0.getCoin ⟨tx.hash, 0⟩).isSome = true)
    (h : processSwapsForPool k st swaps = .ok st') : WInv c0 H N st' := by
  unfold processSwapsForPool at h
  split at h
  · cases h
  · simp only at h
    split at h
    · cases h
    · cases h
    · obtain ⟨coins, hfold, h2⟩ := Outcome.bind_eq_ok h
      cases h2
      refine ⟨hi.height, hi.network, ?_⟩
      refine Outcome.foldlM'_inv_mem (CI c0) _ swaps ?_ _ _ hi.coins hfold
      intro b tx b' htx hb hf
      obtain ⟨cd, _, hf⟩ := Outcome.bind_eq_ok hf
      cases hf
      exact hb.insert0 (hsw tx htx) _ _

theorem depositStep_winv {c0 : CoinMap} {H : Nat} {N : NetID} (env : Env) (k : PoolKey) (st st' : State)
    (deps : List Tx) (hi : WInv c0 H N st) (hd : ∀ tx ∈ deps, (c0.getCoin ⟨tx.hash, 0⟩).isSome = true)
    (h : processDepositsForPool env k st deps = .ok st') : WInv c0 H N st' := by
  unfold processDepositsForPool at h
  simp only at h
  split at h
  · cases h
  · cases h
  · split at h
    · cases h; exact hi
    · obtain ⟨coins, hfold, h2⟩ := Outcome.bind_eq_ok h
      cases h2
      refine ⟨hi.height, hi.network, ?_⟩
      refine Outcome.foldlM'_inv_mem (CI c0) _ deps ?_ _ _ hi.coins hfold
      intro b tx b' htx hb hf
      obtain ⟨v, _, hf⟩ := Outcome.bind_eq_ok hf
      have hins := hb.insert0 (hd tx htx)
        { coinData := { tx.outputs.headD default with denom := liqTokenDenom env k, value := v },
          height := st.height } st.tip906
      split at hf
      · cases hf; exact hins
      · exact hins.remove1 hf

theorem withdrawStep_winv {c0 : CoinMap} {H : Nat} {N : NetID} (k : PoolKey) (st st' : State)
    (reqs : List Tx) (hi : WInv c0 H N st) (hw : ∀ tx ∈ reqs, (c0.getCoin ⟨tx.hash, 0⟩).isSome = true)
    (h : processWithdrawalsForPool k st reqs = .ok st') : WInv c0 H N st' := by
  unfold processWithdrawalsForPool at h
  simp only at h
  split at h
  · cases h
  · split at h
    · cases h; exact hi
    · split at h
      · cases h
      · cases h
      · obtain ⟨coins, hfold, h2⟩ := Outcome.bind_eq_ok h
        cases h2
        refine ⟨hi.height, hi.network, ?_⟩
        refine Outcome.foldlM'_inv_mem (CI c0) _ reqs ?_ _ _ hi.coins hfold
        intro b tx b' htx hb hf
        obtain ⟨vl, _, hf⟩ := Outcome.bind_eq_ok hf
        obtain ⟨vr, _, hf⟩ := Outcome.bind_eq_ok hf
        cases hf
        exact ((hb.insert0 (hw tx htx) _ _).insert1 _ _ _)

theorem isSome_of_dom0 {c0 m : CoinMap} (hi : CI c0 m) {x : Hash} {c : CoinDataHeight}
    (h : m.getCoin ⟨x, 0⟩ = some c) : (c0.getCoin ⟨x, 0⟩).isSome = true := by
  rw [← hi.dom0, h]; rfl

theorem processSwaps_winv {c0 : CoinMap} {H : Nat} {N : NetID} (st st' : State) (hi : WInv c0 H N st)
    (h : processSwaps st = .ok st') : WInv c0 H N st' := by
  unfold processSwaps at h
  simp only at h
  refine Outcome.foldlM'_inv (WInv c0 H N) _ ?_ _ _ _ hi h
  intro b k b' hb hf
  refine swapStep_winv k b b' _ hb ?_ hf
  intro tx htx
  obtain ⟨htx, -⟩ := mem_transactionsForPool_iff.mp htx
  obtain ⟨_, hr⟩ := List.mem_filter.mp htx
  obtain ⟨_, _, _, _, c, _, _, hc, _⟩ := isSwapRequest_full hr
  exact isSome_of_dom0 hi.coins hc

theorem processDeposits_winv {c0 : CoinMap} {H : Nat} {N : NetID} (env : Env) (st st' : State)
    (hi : WInv c0 H N st) (h : processDeposits env st = .ok st') : WInv c0 H N st' := by
  unfold processDeposits at h
  simp only at h
  refine Outcome.foldlM'_inv (WInv c0 H N) _ ?_ _ _ _ hi h
  intro b k b' hb hf
  refine depositStep_winv env k b b' _ hb ?_ hf
  intro tx htx
  obtain ⟨htx, -⟩ := mem_transactionsForPool_iff.mp htx
  obtain ⟨_, hr⟩ := List.mem_filter.mp htx
  obtain ⟨_, _, _, _, _, c0', _, _, _, hc, _⟩ := isDepositRequest_full hr
  exact isSome_of_dom0 hi.coins hc

theorem processWithdrawals_winv {c0 : CoinMap} {H : Nat} {N : NetID} (env : Env) (st st' : State)
    (hi : WInv c0 H N st) (h : processWithdrawals env st = .ok st') : WInv c0 H N st' := by
  unfold processWithdrawals at h
  simp only at h
  refine Outcome.foldlM'_inv (WInv c0 H N) _ ?_ _ _ _ hi h
  intro b k b' hb hf
  refine withdrawStep_winv k b b' _ hb ?_ hf
  intro tx htx
  obtain ⟨htx, -⟩ := mem_transactionsForPool_iff.mp htx
  obtain ⟨_, hr⟩ := List.mem_filter.mp htx
  obtain ⟨_, _, _, c, _, _, hc, _⟩ := isWithdrawRequest_full hr
  exact isSome_of_dom0 hi.coins hc

theorem presealMelmint_winv {c0 : CoinMap} {H : Nat} {N : NetID} (env : Env) (st st' : State)
    (hi : WInv c0 H N st) (h : presealMelmint env st = .ok st') : WInv c0 H N st' := by
  unfold presealMelmint at h
  simp only at h
  split at h
  · cases h
  · obtain ⟨s1, h1, h⟩ := Outcome.bind_eq_ok h
    obtain ⟨s2, h2, h⟩ := Outcome.bind_eq_ok h
    obtain ⟨s3, h3, h⟩ := Outcome.bind_eq_ok h
    have i0 : WInv c0 H N (createBuiltins st) := ⟨hi.height, hi.network, hi.coins⟩
    have i3 := processWithdrawals_winv env _ _ (processDeposits_winv env _ _ (processSwaps_winv _ _ i0 h1) h2) h3
    obtain ⟨sm, sm2, _, rfl, _⟩ := pegging_shape (createBuiltins s3) st' h
    exact ⟨i3.height, i3.network, i3.coins⟩

theorem tip909_winv {c0 : CoinMap} {H : Nat} {N : NetID} (st st' : State)
    (hi : WInv c0 H N st) (h : applyTip909 st = .ok st') : WInv c0 H N st' := by
  obtain ⟨p, f, rfl⟩ := tip909_shape st st' h
  exact ⟨hi.height, hi.network, hi.coins⟩

/-- the reward coin's slot is still free after `presealMelmint` and the subsidy -/
theorem fresh_of_winv {c0 : CoinMap} {H : Nat} {N : NetID} {st : State} (hi : WInv c0 H N st) {x : Hash}
    (hf : c0.getCoin ⟨x, 0⟩ = none) : st.coins.getCoin ⟨x, 0⟩ = none := by
  have := hi.coins.dom0 x
  rw [hf] at this
  cases hg : st.coins.getCoin ⟨x, 0⟩ with
  | none => rfl
  | some v => rw [hg] at this; cases this

/-! ### sealing, put together -/

theorem tipCondition_congr {a b : State} (hh : b.height = a.height) (hn : b.network = a.network) (act : Nat) :
    b.tipCondition act = a.tipCondition act := by
  unfold State.tipCondition; rw [hh, hn]

/-- what settlement keeps (the `Good` of Lemmas/SupplySeal.lean), extracted from the proof of `C01_settlement` -/
theorem settle_good (env : Env) (s s' : State) (h : settle env s = .ok s') (hp : SealPre s)
    (hl : legacyDeposit s = false) : Good s s' := by
  unfold settle at h
  obtain ⟨s1, h1, h⟩ := Outcome.bind_eq_ok h
  obtain ⟨s2, h2, h3⟩ := Outcome.bind_eq_ok h
  have hd : ∀ k : PoolKey, Denom.mel ≠ liqTokenDenom env k := by intro k e; cases e
  have hfaith : ∀ tx ∈ s.txs, FaithfulTx s.coins tx := hp.faithful
  obtain ⟨g1, l1, u1⟩ := swaps_phase s s1 s.coins .mel h1 hp.coinKeys hp.poolKeys hp.txHashes hp.coinKeys
    hp.bounded (fun _ _ _ _ => rfl) (fun tx htx _ => hfaith tx htx)
  have same1 : ∀ tx ∈ s.txs, tx.kind ≠ .swap → ∀ i,
      s1.coins.getCoin ⟨tx.hash, i⟩ = s.coins.getCoin ⟨tx.hash, i⟩ := by
    intro tx htx hk i
    apply u1
    intro tx2 htx2 hk2 e
    have := eq_of_nodup_map _ hp.txHashes htx2 htx e
    rw [this] at hk2; exact hk hk2
  have ht1 : (s1.txs.map (·.hash)).Nodup := by rw [g1.txs]; exact hp.txHashes
  obtain ⟨g2, l2, u2⟩ := deposits_phase env s1 s2 s.coins .mel h2
    ((legacyDeposit_congr g1.height g1.network).trans hl) hd g1.coinKeys g1.poolKeys ht1
    (fun tx htx hk i => same1 tx (g1.txs ▸ htx) (by rw [hk]; decide) i)
    (fun tx htx _ => hfaith tx (g1.txs ▸ htx))
  have same2 : ∀ tx ∈ s.txs, tx.kind ≠ .swap → tx.kind ≠ .liqDeposit → ∀ i,
      s2.coins.getCoin ⟨tx.hash, i⟩ = s.coins.getCoin ⟨tx.hash, i⟩ := by
    intro tx htx hk hk' i
    rw [← same1 tx htx hk i]
    apply u2
    intro tx2 htx2 hk2 e
    rw [g1.txs] at htx2
    have := eq_of_nodup_map _ hp.txHashes htx2 htx e
    rw [this] at hk2; exact hk' hk2
  have g12 := g1.trans g2
  have ht2 : (s2.txs.map (·.hash)).Nodup := by rw [g12.txs]; exact hp.txHashes
  obtain ⟨g3, l3⟩ := withdrawals_phase env s2 s' s.coins .mel h3 hd g2.coinKeys g2.poolKeys ht2 hp.coinKeys
    hp.bounded
    (fun tx htx hk i => same2 tx (g12.txs ▸ htx) (by rw [hk]; decide) (by rw [hk]; decide) i)
    (fun tx htx _ => hfaith tx (g12.txs ▸ htx))
  exact g12.trans g3

/-- the last step of sealing: nothing, or the proposer action applied to the state after the subsidy -/
def ActionStep (env : Env) (s2 : State) (a : Option ProposerAction) (st : State) : Prop :=
  match a with
  | none => st = s2
  | some act => collectProposerFee env
      { s2 with feeMultiplier := moveFeeMultiplier s2.feeMultiplier act.feeMultiplierDelta s2.tip901 } act = .ok st

/-- `sealState`, taken apart -/
theorem sealState_ok {env : Env} {s : State} {a : Option ProposerAction} {ss : Sealed}
    (h : sealState env s a = .ok ss) :
    ∃ s1 s2, presealMelmint env s = .ok s1 ∧ (if s1.tip909 then applyTip909 s1 else .ok s1) = .ok s2 ∧
      ActionStep env s2 a ss.st := by
  unfold sealState at h
  obtain ⟨s1, h1, h⟩ := Outcome.bind_eq_ok h
  split at h
  · cases h
  · obtain ⟨s2, h2, h⟩ := Outcome.bind_eq_ok h
    refine ⟨s1, s2, h1, h2, ?_⟩
    split at h
    · cases h; rfl
    · obtain ⟨s3, h3, h⟩ := Outcome.bind_eq_ok h
      cases h
      exact h3

/-- `presealMelmint`, taken apart: the builtin pools, the settlement, the builtin pools again (since the `fix:` for
    finding F24), the peg adjustment -/
theorem presealMelmint_ok {env : Env} {s s' : State} (h : presealMelmint env s = .ok s') :
    ∃ s3, settle env (createBuiltins s) = .ok s3 ∧ processPegging (createBuiltins s3) = .ok s' := by
  unfold presealMelmint at h
  simp only at h
  split at h
  · cases h
  · obtain ⟨s1, h1, h⟩ := Outcome.bind_eq_ok h
    obtain ⟨s2, h2, h⟩ := Outcome.bind_eq_ok h
    obtain ⟨s3, h3, h⟩ := Outcome.bind_eq_ok h
    refine ⟨s3, ?_, h⟩
    unfold settle
    rw [h1]
    show (processDeposits env s1).bind _ = _
    rw [h2]
    exact h3

/-- the coin map (unique keys, index-0 slots) and the height after `presealMelmint` and the subsidy -/
theorem seal_winv {env : Env} {s s1 s2 : State} (hk : s.coins.Nodup) (h1 : presealMelmint env s = .ok s1)
    (h2 : (if s1.tip909 then applyTip909 s1 else .ok s1) = .ok s2) : WInv s.coins s.height s.network s2 := by
  have i1 := presealMelmint_winv env s s1 ⟨rfl, rfl, CI.refl hk⟩ h1
  split at h2
  · exact tip909_winv _ _ i1 h2
  · cases h2; exact i1

/-- what sealing (before the proposer action) may add to the supply of `d`, beyond the builtin pools -/
def midPart (s : State) (d : Denom) : Nat :=
  pegPart s d + (if s.tip909 = true then subsidyPart s d else 0)

theorem pegPart_congr {a b : State} (hh : b.height = a.height) (hn : b.network = a.network) (d : Denom) :
    pegPart b d = pegPart a d := by
  unfold pegPart throttlerOf State.tip902
  rw [tipCondition_congr hh hn]

theorem subsidyPart_congr {a b : State} (hh : b.height = a.height) (d : Denom) :
    subsidyPart b d = subsidyPart a d := by
  unfold subsidyPart
  rw [hh]

/-- what the SECOND `create_builtins` of a seal creates of `d` (since the `fix:` for finding F24 the builtin pools are
    made again after the withdrawal phase): the default reserves of each builtin pool that the settlement of this
    block left absent or without liquidity -/
def recreatedPart (env : Env) (s : State) (d : Denom) : Nat := builtinsCreated (settled env s) d

theorem seal_mid {env : Env} {s s1 s2 : State} (h1 : presealMelmint env s = .ok s1)
    (h2 : (if s1.tip909 then applyTip909 s1 else .ok s1) = .ok s2) (hp : SealPre s)
    (hl : legacyDeposit s = false) (d : Denom) (hd : ∀ k : PoolKey, d ≠ liqTokenDenom env k) :
    supply s2 d ≤ supply (createBuiltins s) d + recreatedPart env s d + midPart s d := by
  obtain ⟨s3, hset, hpeg⟩ := presealMelmint_ok h1
  have hp0 := createBuiltins_sealPre s hp
  have g := settle_good env _ s3 hset hp0 hl
  have le1 := C01_settlement env _ s3 hset hp0 hl d hd
  have le1' := C01_builtins_sharp s3 d g.poolKeys
  have hk3 := createBuiltins_poolKeys s3 g.poolKeys
  have le2 := pegging_supply (createBuiltins s3) s1 hpeg hk3 d
  have hh3 : s3.height = s.height := g.height
  have hn3 : s3.network = s.network := g.network
  rw [pegPart_congr (a := s) (b := createBuiltins s3) hh3 hn3] at le2
  obtain ⟨sm, sm2, _, e1, _⟩ := pegging_shape (createBuiltins s3) s1 hpeg
  have hk1 : (s1.pools.map (·.1)).Nodup := by rw [e1]; exact pools_nodup_set hk3 _ _
  unfold recreatedPart
  rw [settled_eq hset]
  have hh1 : s1.height = s.height := by rw [e1]; exact hh3
  have hn1 : s1.network = s.network := by rw [e1]; exact hn3
  have ht : s1.tip909 = s.tip909 := tipCondition_congr hh1 hn1 _
  unfold midPart
  rw [ht] at h2
  split at h2
  · next h9 =>
    have le3 := tip909_supply s1 s2 h2 hk1 d
    rw [subsidyPart_congr hh1] at le3
    rw [if_pos h9]
    omega
  · next h9 =>
    cases h2
    rw [if_neg h9]
    omega

/-- sealing, with or without an action: the supply after is the supply after the subsidy -/
theorem seal_action {env : Env} {s s2 : State} {a : Option ProposerAction} {ss : Sealed}
    (hi : WInv s.coins s.height s.network s2)
    (hfresh : s.coins.getCoin { txhash := env.rewardId s.height, index := 0 } = none)
    (h3 : ActionStep env s2 a ss.st) (d : Denom) : supply ss.st d = supply s2 d := by
  cases a with
  | none => simp only [ActionStep] at h3; rw [h3]
  | some act =>
    simp only [ActionStep] at h3
    have hf : s2.coins.getCoin { txhash := env.rewardId s2.height, index := 0 } = none := by
      rw [hi.height]; exact fresh_of_winv hi hfresh
    exact C01_reward env _ ss.st act h3 hi.coins.nodup hf d

/-- sealing in full, sharp form: builtin pools (before the settlement, and again after it), peg adjustment, subsidy -/
theorem seal_sharp (env : Env) (s : State) (a : Option ProposerAction) (ss : Sealed)
    (h : sealState env s a = .ok ss) (hp : SealPre s) (hl : legacyDeposit s = false)
    (hfresh : s.coins.getCoin { txhash := env.rewardId s.height, index := 0 } = none)
    (d : Denom) (hd : ∀ k : PoolKey, d ≠ liqTokenDenom env k) :
    supply ss.st d ≤ supply (createBuiltins s) d + recreatedPart env s d + midPart s d := by
  obtain ⟨s1, s2, h1, h2, h3⟩ := sealState_ok h
  have hi := seal_winv hp.coinKeys h1 h2
  rw [seal_action hi hfresh h3 d]
  exact seal_mid h1 h2 hp hl d hd

theorem midPart_eq (s : State) (d : Denom) :
    midPart s d =
      (if d = .mel ∨ d = .sym then U128_MAX / (if s.tip902 then THROTTLER_902 else THROTTLER_PRE) else 0) +
      (if d = .sym ∧ s.tip909 = true then
        2 ^ SUBSIDY_LOG2 / 2 ^ ((s.height - TIP_909_HEIGHT) / SUBSIDY_HALVING) else 0) := by
  unfold midPart pegPart subsidyPart throttlerOf
  by_cases h9 : s.tip909 = true <;> by_cases hs : d = .sym <;> simp [h9, hs]

theorem midPart_zero (s : State) (d : Denom) (hmel : d ≠ .mel) (hsym : d ≠ .sym) : midPart s d = 0 := by
  rw [midPart_eq]
  simp [hmel, hsym]

/-! ### a concrete witness: a MEL/SYM pool and one swap request, sealed without an action -/

namespace Witness

def env : Env := {
  vm := { hash := id, sigOk := fun _ _ _ => true },
  liqHash := id, fdp := fun h => 9 :: h, rewardId := fun _ => [], hdrHash := fun _ => [],
  powOk := fun _ _ _ _ => .invalid, isGrandfathered := fun _ => false,
  historyRoot := fun _ => [], coinsRoot := fun _ => [], txsRoot := fun _ _ => [],
  poolsRoot := fun _ => [], stakesRoot := fun _ => [] }

/-- a swap of 100 MEL against the MEL/SYM pool (`[115]` spells the pool's name) -/
def swapTx : Tx := {
  kind := .swap, inputs := [], outputs := [(⟨[7], 100, .mel, []⟩ : CoinData)], fee := 0,
  covenants := [], data := [115], sigs := [], hash := [2], rawLen := 0, covHashes := [] }

/-- the MEL/SYM pool holds (1000, 1000); the block contains `swapTx`, whose coin exists as declared -/
def st : State := {
  network := .custom02, height := 10, history := [],
  coins := { coins := [(⟨[2], 0⟩, ⟨⟨[7], 100, .mel, []⟩, 10⟩)], counts := [([7], 1)] },
  txs := [swapTx], feePool := 0, feeMultiplier := 0, tips := 0, doscSpeed := 0,
  pools := [(poolMelSym, ⟨1000, 1000, 0, 1000⟩)], stakes := [] }

theorem coinsTotal_le_sum (m : CoinMap) (d : Denom) :
    coinsTotal m d ≤ (m.coins.map fun e => e.2.coinData.value).sum := by
  unfold coinsTotal
  induction m.coins with
  | nil => simp
  | cons e rest ih =>
    simp only [List.filter_cons, List.map_cons, List.sum_cons]
    split
    · simp only [List.map_cons, List.sum_cons]; omega
    · omega

theorem isRequest : isSwapRequest st swapTx = true := by decide

theorem sealPre_st : SealPre st := by
  refine ⟨?_, ?_, ?_, ?_, ?_⟩
  · show ([⟨[2], 0⟩] : List CoinID).Nodup
    decide
  · show ([poolMelSym] : List PoolKey).Nodup
    decide
  · show ([[2]] : List Hash).Nodup
    decide
  · intro tx htx i o c ho hc
    simp only [st, List.mem_cons, List.not_mem_nil, or_false] at htx
    subst htx
    match i with
    | 0 =>
      simp only [swapTx, List.getElem?_cons_zero, Option.some.injEq] at ho
      subst ho
      have : c = ⟨⟨[7], 100, .mel, []⟩, 10⟩ := by
        have h2 : st.coins.getCoin ⟨swapTx.hash, 0⟩ = some ⟨⟨[7], 100, .mel, []⟩, 10⟩ := rfl
        rw [h2] at hc; exact (Option.some.inj hc).symm
      subst this
      exact ⟨rfl, rfl⟩
    | n + 1 => simp [swapTx] at ho
  · intro d
    refine Nat.le_trans (coinsTotal_le_sum _ d) ?_
    simp only [st, List.map_cons, List.map_nil, List.sum_cons, List.sum_nil]
    decide

theorem seals : (sealState env st none).isOk = true := by decide +kernel

end Witness

end WholeL
end Mel
