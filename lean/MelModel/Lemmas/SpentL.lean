/-
  Helper lemmas for Props/C02Hist.lean: a coin that is absent stays absent — through an accepted batch none of whose
  transactions has the coin's hash (and none of whose faucet markers lands on it), and through sealing, INDEX by index:
  settlement writes only at slot 0 of a pool request whose slot-0 coin is still there, and at slot 1 of a liquidity
  withdrawal; the proposer action writes only the reward coin.
-/
import MelModel.Chain
import MelModel.Lemmas.Batch
import MelModel.Lemmas.Swap
import MelModel.Lemmas.Perm
import MelModel.Lemmas.ChainL
import MelModel.Lemmas.BlockHistL
namespace Mel
namespace SpentL
open Mel.Gen

/-! ### batches -/

/-- after the second pass of `create_next_state` a coin that was absent, or is an input of one of the transactions,
    is absent — unless a faucet marker is written onto it -/
theorem nextFold_absent (env : Env) (t : Bool) (id : CoinID) :
    ∀ (txs : List Tx) (st st' : State), Outcome.foldlM' (nextStep env t) st txs = .ok st' →
      (∀ tx ∈ txs, ¬ (insertsMarker env tx = true ∧ id = BatchL.markerOf env tx)) →
      (id ∈ txs.flatMap (·.inputs) ∨ st.coins.getCoin id = none) → st'.coins.getCoin id = none := by
  intro txs
  induction txs with
  | nil =>
    intro st st' h _ hor
    rw [Outcome.foldlM'_nil_ok] at h
    subst h
    rcases hor with hin | hn
    · simp at hin
    · exact hn
  | cons tx rest ih =>
    intro st st' h hm hor
    rw [Outcome.foldlM'_cons_ok] at h
    obtain ⟨st1, h1, h2⟩ := h
    have hstep := getCoin_nextStep h1 id
    apply ih st1 st' h2 (fun x hx => hm x (List.mem_cons_of_mem _ hx))
    by_cases c1 : id ∈ tx.inputs
    · right; rw [hstep, if_pos c1]
    · rw [if_neg c1, if_neg (hm tx List.mem_cons_self)] at hstep
      rcases hor with hin | hn
      · simp only [List.flatMap_cons, List.mem_append] at hin
        rcases hin with hin | hin
        · exact absurd hin c1
        · exact Or.inl hin
      · right; rw [hstep]; exact hn

/-- the first pass of `create_next_state` writes only at output slots of the batch's transactions -/
theorem insFold_other (rel : Relevant) (t : Bool) (txs : List Tx) (coins : CoinMap) (id : CoinID)
    (hne : ∀ tx ∈ txs, tx.hash ≠ id.txhash) :
    ((outputIds txs).foldl (insStep rel t) coins).getCoin id = coins.getCoin id := by
  rw [getCoin_insFold, if_neg]
  intro hmem
  simp only [outputIds, List.mem_flatMap, List.mem_map] at hmem
  obtain ⟨tx, htx, i, -, rfl⟩ := hmem
  exact hne tx htx rfl

/-- **an accepted batch**: a coin whose hash is the hash of no transaction of the batch, and on which no faucet
    marker of the batch lands, is absent afterwards if it was absent before or is among the inputs -/
theorem applyBatch_absent {env : Env} {s s' : State} {txs : List Tx} {fb : Header} {id : CoinID}
    (h : applyBatch env s txs fb = .ok s')
    (hm : ∀ tx ∈ txs, tx.kind = .faucet → env.isGrandfathered tx.hash = false → env.fdp tx.hash ≠ id.txhash)
    (hor : id ∈ txs.flatMap (·.inputs) ∨ (s.coins.getCoin id = none ∧ ∀ tx ∈ txs, tx.hash ≠ id.txhash)) :
    s'.coins.getCoin id = none := by
  obtain ⟨rel, ns, next, -, -, -, h4, h5⟩ := applyBatch_ok h
  rw [createNextState_eq] at h4
  rw [h5]
  refine nextFold_absent env _ id txs _ _ h4 ?_ ?_
  · rintro tx htx ⟨him, hid⟩
    simp only [insertsMarker, Bool.and_eq_true, decide_eq_true_eq, Bool.not_eq_true'] at him
    exact hm tx htx him.1 him.2 (by rw [hid]; rfl)
  · rcases hor with hin | ⟨hn, hne⟩
    · exact Or.inl hin
    · right
      show ((outputIds txs).foldl (insStep rel s.tip906) s.coins).getCoin id = none
      rw [insFold_other rel _ txs _ id hne]
      exact hn

/-- the transactions of the block after an accepted batch are those of the batch and those of the block before -/
theorem applyBatch_mem_txs {env : Env} {s s' : State} {txs : List Tx} {fb : Header}
    (h : applyBatch env s txs fb = .ok s') {x : Tx} (hx : x ∈ s'.txs) : x ∈ txs ∨ x ∈ s.txs := by
  rw [C3.applyBatch_txsEq h] at hx
  have : ∀ (l acc : List Tx), x ∈ l.foldl State.insertTx acc → x ∈ l ∨ x ∈ acc := by
    intro l
    induction l with
    | nil => intro acc h; exact Or.inr h
    | cons a rest ih =>
      intro acc h
      rcases ih _ h with h | h
      · exact Or.inl (List.mem_cons_of_mem _ h)
      · rcases C3.mem_insertTx_imp h with rfl | h
        · exact Or.inl List.mem_cons_self
        · exact Or.inr h
  exact this txs s.txs hx

/-! ### sealing, index by index -/

theorem processSwapsForPool_absent (id : CoinID) (k : PoolKey) (s : State) (swaps : List Tx) (s' : State)
    (h : processSwapsForPool k s swaps = .ok s') (hne : ∀ tx ∈ swaps, id ≠ outCoinID tx 0)
    (hn : s.coins.getCoin id = none) : s'.coins.getCoin id = none := by
  unfold processSwapsForPool at h
  split at h
  · cases h
  · simp only at h
    split at h
    · cases h
    · cases h
    · obtain ⟨coins, hc, h2⟩ := Outcome.bind_eq_ok h
      cases h2
      refine Outcome.foldlM'_inv_mem (fun c : CoinMap => c.getCoin id = none) _ swaps ?_ _ _ hn hc
      intro b tx b' htx hb hf
      obtain ⟨cd, _, hf⟩ := Outcome.bind_eq_ok hf
      cases hf
      rw [CoinMap.getCoin_insertCoin_ne _ _ _ (hne tx htx)]
      exact hb

theorem processDepositsForPool_absent (id : CoinID) (env : Env) (k : PoolKey) (s : State) (deps : List Tx)
    (s' : State) (h : processDepositsForPool env k s deps = .ok s')
    (hne : ∀ tx ∈ deps, id ≠ outCoinID tx 0) (hn : s.coins.getCoin id = none) :
    s'.coins.getCoin id = none := by
  unfold processDepositsForPool at h
  simp only at h
  split at h
  · cases h
  · cases h
  · split at h
    · cases h; exact hn
    · obtain ⟨coins, hc, h2⟩ := Outcome.bind_eq_ok h
      cases h2
      refine Outcome.foldlM'_inv_mem (fun c : CoinMap => c.getCoin id = none) _ deps ?_ _ _ hn hc
      intro b tx b' htx hb hf
      obtain ⟨v, _, hf⟩ := Outcome.bind_eq_ok hf
      split at hf
      · cases hf
        rw [CoinMap.getCoin_insertCoin_ne _ _ _ (hne tx htx)]
        exact hb
      · rw [CoinMap.getCoin_removeCoin hf id]
        split
        · rfl
        · rw [CoinMap.getCoin_insertCoin_ne _ _ _ (hne tx htx)]
          exact hb

theorem processWithdrawalsForPool_absent (id : CoinID) (k : PoolKey) (s : State) (reqs : List Tx)
    (s' : State) (h : processWithdrawalsForPool k s reqs = .ok s')
    (hne : ∀ tx ∈ reqs, id ≠ outCoinID tx 0 ∧ id ≠ outCoinID tx 1) (hn : s.coins.getCoin id = none) :
    s'.coins.getCoin id = none := by
  unfold processWithdrawalsForPool at h
  simp only at h
  split at h
  · cases h
  · split at h
    · cases h; exact hn
    · split at h
      · cases h
      · cases h
      · obtain ⟨coins, hc, h2⟩ := Outcome.bind_eq_ok h
        cases h2
        refine Outcome.foldlM'_inv_mem (fun c : CoinMap => c.getCoin id = none) _ reqs ?_ _ _ hn hc
        intro b tx b' htx hb hf
        obtain ⟨vl, _, hf⟩ := Outcome.bind_eq_ok hf
        obtain ⟨vr, _, hf⟩ := Outcome.bind_eq_ok hf
        cases hf
        rw [CoinMap.getCoin_insertCoin_ne _ _ _ (hne tx htx).2,
          CoinMap.getCoin_insertCoin_ne _ _ _ (hne tx htx).1]
        exact hb

/-- a request's slot-0 coin is present -/
theorem isSwapRequest_present {s : State} {tx : Tx} (h : isSwapRequest s tx = true) :
    (s.coins.getCoin (outCoinID tx 0)).isSome = true := by
  unfold isSwapRequest at h
  simp only [Bool.and_eq_true] at h
  have h2 := h.2
  split at h2
  · cases h2
  · simp only [Bool.and_eq_true] at h2
    exact h2.1.1

theorem isDepositRequest_present {s : State} {tx : Tx} (h : isDepositRequest s tx = true) :
    (s.coins.getCoin (outCoinID tx 0)).isSome = true := by
  unfold isDepositRequest at h
  simp only [Bool.and_eq_true] at h
  have h2 := h.2
  split at h2
  · simp only [Bool.and_eq_true] at h2
    exact h2.1.1.2
  · cases h2

theorem isWithdrawRequest_present {env : Env} {s : State} {tx : Tx} (h : isWithdrawRequest env s tx = true) :
    (s.coins.getCoin (outCoinID tx 0)).isSome = true ∧ tx.kind = .liqWithdraw := by
  unfold isWithdrawRequest at h
  simp only [Bool.and_eq_true, decide_eq_true_eq] at h
  have h2 := h.2
  split at h2
  · simp only [Bool.and_eq_true] at h2
    exact ⟨h2.1.2, h.1⟩
  · cases h2

theorem ne_of_present {s : State} {id id' : CoinID} (hn : s.coins.getCoin id = none)
    (hp : (s.coins.getCoin id').isSome = true) : id ≠ id' := by
  intro e; subst e; rw [hn] at hp; cases hp

/-- the swap phase never makes an absent coin appear: it writes only at slot 0 of requests, whose slot-0 coin was
    there when the phase started -/
theorem processSwaps_absent (id : CoinID) (s s' : State) (h : processSwaps s = .ok s')
    (hn : s.coins.getCoin id = none) : s'.coins.getCoin id = none := by
  unfold processSwaps at h
  refine Outcome.foldlM'_inv (fun b => b.coins.getCoin id = none) _ ?_ _ _ _ hn h
  intro b a b' hb hf
  refine processSwapsForPool_absent id _ _ _ _ hf ?_ hb
  intro tx htx
  have := List.mem_filter.mp (mem_transactionsForPool htx)
  exact ne_of_present hn (isSwapRequest_present this.2)

/-- nor does the deposit phase: it writes at slot 0 of requests (present at the start) and removes slot 1 -/
theorem processDeposits_absent (id : CoinID) (env : Env) (s s' : State) (h : processDeposits env s = .ok s')
    (hn : s.coins.getCoin id = none) : s'.coins.getCoin id = none := by
  unfold processDeposits at h
  refine Outcome.foldlM'_inv (fun b => b.coins.getCoin id = none) _ ?_ _ _ _ hn h
  intro b a b' hb hf
  refine processDepositsForPool_absent id env _ _ _ _ hf ?_ hb
  intro tx htx
  have := List.mem_filter.mp (mem_transactionsForPool htx)
  exact ne_of_present hn (isDepositRequest_present this.2)

/-- the withdrawal phase writes at slots 0 (present at the start) and 1 of requests: an absent coin stays absent
    unless it is slot 1 of a liquidity withdrawal of the block -/
theorem processWithdrawals_absent (id : CoinID) (env : Env) (s s' : State)
    (h : processWithdrawals env s = .ok s') (hn : s.coins.getCoin id = none)
    (hw : id.index = 1 → ∀ tx ∈ s.txs, tx.hash = id.txhash → tx.kind ≠ .liqWithdraw) :
    s'.coins.getCoin id = none := by
  unfold processWithdrawals at h
  refine Outcome.foldlM'_inv (fun b => b.coins.getCoin id = none) _ ?_ _ _ _ hn h
  intro b a b' hb hf
  refine processWithdrawalsForPool_absent id _ _ _ _ hf ?_ hb
  intro tx htx
  have := List.mem_filter.mp (mem_transactionsForPool htx)
  obtain ⟨hp, hk⟩ := isWithdrawRequest_present this.2
  refine ⟨ne_of_present hn hp, fun e => ?_⟩
  exact hw (by rw [e]; rfl) tx this.1 (by rw [e]; rfl) hk

theorem presealMelmint_absent (id : CoinID) (env : Env) (s s' : State) (h : presealMelmint env s = .ok s')
    (hn : s.coins.getCoin id = none)
    (hw : id.index = 1 → ∀ tx ∈ s.txs, tx.hash = id.txhash → tx.kind ≠ .liqWithdraw) :
    s'.coins.getCoin id = none := by
  unfold presealMelmint at h
  simp only at h
  split at h
  · cases h
  · obtain ⟨s1, h1, h⟩ := Outcome.bind_eq_ok h
    obtain ⟨s2, h2, h⟩ := Outcome.bind_eq_ok h
    obtain ⟨s3, h3, h⟩ := Outcome.bind_eq_ok h
    have n1 : s1.coins.getCoin id = none := processSwaps_absent id _ _ h1 hn
    have t1 : s1.txs = s.txs := BlockHistL.processSwaps_txs (createBuiltins s) _ h1
    have n2 : s2.coins.getCoin id = none := processDeposits_absent id env _ _ h2 n1
    have t2 : s2.txs = s.txs := (BlockHistL.processDeposits_txs env _ _ h2).trans t1
    have n3 : s3.coins.getCoin id = none := processWithdrawals_absent id env _ _ h3 n2 (by rw [t2]; exact hw)
    have := (processPegging_coins id _ _ h).1
    rw [this]
    exact n3

/-- **sealing keeps an absent coin absent**, unless it is the proposer's reward coin or slot 1 of a liquidity
    withdrawal of the block (the second payout coin, which settlement creates) -/
theorem sealState_absent {env : Env} {s : State} {a : Option ProposerAction} {ss : Sealed} {id : CoinID}
    (h : sealState env s a = .ok ss) (hn : s.coins.getCoin id = none)
    (hrew : env.rewardId s.height ≠ id.txhash)
    (hw : id.index = 1 → ∀ tx ∈ s.txs, tx.hash = id.txhash → tx.kind ≠ .liqWithdraw) :
    ss.st.coins.getCoin id = none := by
  unfold sealState at h
  obtain ⟨s1, h1, h⟩ := Outcome.bind_eq_ok h
  split at h
  · cases h
  · obtain ⟨s2, h2, h⟩ := Outcome.bind_eq_ok h
    have n1 := presealMelmint_absent id env s s1 h1 hn hw
    have e1 := (presealMelmint_hhn env s s1 h1).2.1
    have n2 : s2.coins.getCoin id = none ∧ s2.height = s.height := by
      split at h2
      · exact ⟨((applyTip909_coins id _ _ h2).1).trans n1, ((applyTip909_hhn _ _ h2).2.1).trans e1⟩
      · cases h2; exact ⟨n1, e1⟩
    split at h
    · cases h; exact n2.1
    · next act =>
      obtain ⟨s3, h3, h⟩ := Outcome.bind_eq_ok h
      cases h
      simp only
      unfold applyProposerAction collectProposerFee at h3
      simp only at h3
      split at h3
      · cases h3
      · cases h3
        simp only
        rw [CoinMap.getCoin_insertCoin_ne]
        · exact n2.1
        · intro e
          apply hrew
          rw [e, n2.2]

end SpentL
end Mel
