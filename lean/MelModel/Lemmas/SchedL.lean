/-
  Helper lemmas for Props/C03Sched.lean: evaluation along a schedule agrees with the sequential passes.
-/
import MelModel.Sched
namespace Mel

namespace Outcome

theorem bind_ok {α β} (a : α) (f : α → Outcome β) : (ok a).bind f = f a := rfl

theorem toOption_eq_some {α} {x : Outcome α} {a : α} : x.toOption = some a ↔ x = ok a := by
  cases x <;> simp [toOption]

theorem toOption_eq_none_bind {α β} {x : Outcome α} (f : α → Outcome β) (h : x.toOption = none) :
    (x.bind f).toOption = none := by
  cases x <;> simp_all [toOption, bind]

theorem isOk_eq_toOption_isSome {α} (x : Outcome α) : x.isOk = x.toOption.isSome := by
  cases x <;> rfl

/-- binding after outcomes with the same `toOption`, with continuations that agree on `toOption` -/
theorem toOption_bind_congr {α β} {x y : Outcome α} {f g : α → Outcome β}
    (h : x.toOption = y.toOption) (hfg : ∀ a, (f a).toOption = (g a).toOption) :
    (x.bind f).toOption = (y.bind g).toOption := by
  cases x <;> cases y <;> simp_all [toOption, bind]

theorem forM'_append {α} (f : α → Outcome Unit) (xs ys : List α) :
    forM' f (xs ++ ys) = (forM' f xs).bind fun _ => forM' f ys := by
  induction xs with
  | nil => rfl
  | cons a as ih =>
    simp only [List.cons_append, forM']
    cases f a <;> simp [ih, bind]

theorem foldlM'_append {α β} (f : β → α → Outcome β) (u : β) (xs ys : List α) :
    foldlM' f u (xs ++ ys) = (foldlM' f u xs).bind fun a => foldlM' f a ys := by
  induction xs generalizing u with
  | nil => rfl
  | cons a as ih =>
    simp only [List.cons_append, foldlM']
    cases f u a <;> simp [ih, bind]

end Outcome

open Outcome

/-- a scheduled `try_for_each` is the sequential one, error included up to `toOption` — in fact exactly equal -/
theorem sched_forEach_eq {α} (f : α → Outcome Unit) (sch : Sched α) :
    sch.forEach f = Outcome.forM' f sch.items := by
  induction sch with
  | seg xs => rfl
  | join l r ihl ihr =>
    simp only [Sched.forEach, Sched.items, forM'_append, ihl, ihr]

theorem sched_forEach {α} (f : α → Outcome Unit) (sch : Sched α) :
    (sch.forEach f).toOption = (Outcome.forM' f sch.items).toOption := by
  rw [sched_forEach_eq]

theorem sched_forEach_isOk {α} (f : α → Outcome Unit) (sch : Sched α) :
    (sch.forEach f).isOk = (Outcome.forM' f sch.items).isOk := by
  rw [sched_forEach_eq]

/-- the speed fold either fails whatever it starts from, or returns `max u m` for an `m` that does not depend on
    the starting value `u` -/
theorem speed_shape (env : Env) (s : State) (rel : Relevant) (xs : List Tx) :
    ∃ r : Option Nat, ∀ u, (Outcome.foldlM' (speedStep env s rel) u xs).toOption = r.map (fun m => max u m) := by
  induction xs with
  | nil => exact ⟨some 0, fun u => by simp [foldlM', toOption]⟩
  | cons tx xs ih =>
    obtain ⟨r, hr⟩ := ih
    by_cases hk : tx.kind = .doscMint
    · cases hv : validateDoscmint env s rel tx with
      | ok sp =>
        refine ⟨r.map (fun m => max sp m), fun u => ?_⟩
        simp only [foldlM', speedStep, hk, if_true, hv, Outcome.bind, hr]
        cases r with
        | none => rfl
        | some m => simp [Nat.max_assoc]
      | reject e =>
        exact ⟨none, fun u => by simp [foldlM', speedStep, hk, hv, Outcome.bind, toOption]⟩
      | crash c =>
        exact ⟨none, fun u => by simp [foldlM', speedStep, hk, hv, Outcome.bind, toOption]⟩
    · refine ⟨r, fun u => ?_⟩
      simp only [foldlM', speedStep, hk, if_false, hr]

theorem sched_speed_gen (env : Env) (s : State) (rel : Relevant) (u : Nat) (sch : Sched Tx) :
    (sch.foldReduce u (speedStep env s rel) max).toOption =
    (Outcome.foldlM' (speedStep env s rel) u sch.items).toOption := by
  induction sch with
  | seg xs => rfl
  | join l r ihl ihr =>
    obtain ⟨rl, hl⟩ := speed_shape env s rel l.items
    obtain ⟨rr, hr⟩ := speed_shape env s rel r.items
    simp only [Sched.foldReduce, Sched.items, foldlM'_append]
    rw [hl u] at ihl
    rw [hr u] at ihr
    cases rl with
    | none =>
      rw [toOption_eq_none_bind _ (by simpa using ihl), toOption_eq_none_bind _ (by simpa using hl u)]
    | some ml =>
      have h1 := toOption_eq_some.mp (by simpa using ihl)
      have h2 := toOption_eq_some.mp (by simpa using hl u)
      rw [h1, h2]
      simp only [bind_ok]
      cases rr with
      | none =>
        rw [toOption_eq_none_bind _ (by simpa using ihr), hr]
        rfl
      | some mr =>
        have h3 := toOption_eq_some.mp (by simpa using ihr)
        rw [h3, hr]
        simp only [bind_ok, toOption, Option.map_some]
        congr 1
        omega

theorem sched_speed (env : Env) (s : State) (rel : Relevant) (sch : Sched Tx) :
    (sch.foldReduce s.doscSpeed (speedStep env s rel) max).toOption =
    (Outcome.foldlM' (speedStep env s rel) s.doscSpeed sch.items).toOption :=
  sched_speed_gen env s rel s.doscSpeed sch

theorem any_schedule (env : Env) (s : State) (txs : List Tx) (gf : Header) (schedValid schedSpeed : Sched Tx)
    (hv : schedValid.items = txs) (hs : schedSpeed.items = txs) :
    (applyBatchSched env s txs gf schedValid schedSpeed).toOption = (applyBatch env s txs gf).toOption := by
  unfold applyBatchSched applyBatch
  refine toOption_bind_congr rfl fun rel => ?_
  refine toOption_bind_congr rfl fun newStakes => ?_
  refine toOption_bind_congr ?_ fun _ => ?_
  · rw [sched_forEach, hv]
  refine toOption_bind_congr ?_ fun newSpeed => rfl
  have := sched_speed env s rel schedSpeed
  rw [hs] at this
  exact this

end Mel
